import WacProofs.Lemmas.PrinterLayout
import WacProofs.Lemmas.PrinterParse
import WacProofs.Lemmas.PrinterErase
import WacProofs.Lemmas.PrinterNonLoss
import WacProofs.Lemmas.PrinterParseWF
import WacProofs.Lemmas.PrinterLexOut
import WacProofs.Lemmas.PrinterParseDepth
import WacProofs.Lemmas.PrinterCharsLex
import WacProofs.Lemmas.PrinterCharsParse
import WacProofs.Lemmas.PrinterCharsPrint
/-
  C13 — printing a parsed document and re-parsing it gives the same document; printing is
  idempotent.  Theorems about the models:
    printer        `Wac.Print.document`        (WacModel/Printer.lean, model of ast/printer.rs)
    token printer  `Wac.PrintTok.printTokens`  (WacModel/PrintTokens.lean)
    lexer          `Wac.Lex.tokenize`          (WacModel/Lexer.lean)
    parser         `Wac.Parse.parseTokens`     (WacModel/Parser.lean)
    equivalence    `Document.erase`            (WacModel/AstErase.lean): equal up to source
                   positions and doc-comment line splitting
    well-formed    `Document.wf`               (WacModel/PrintWF.lean): what every parsed tree satisfies
    nesting limit  `Document.depthOk`          (WacModel/PrintDepth.lean): the printed tokens stay
                   within `MAX_NESTING_DEPTH` of the lexer (every parsed tree does, `parse_depth`)
    screen         `Document.chars screenOk`   (WacModel/PrintChars.lean): the characters of the text
                   leaves pass `detect_invalid_input` (every parsed tree's do, `parse_chars`)

  `reparse text` is `Document::parse` after the code-point screen `detect_invalid_input`
  (`parseDocument text = reparse text` whenever the screen passes, `parseDocument_eq_reparse`).
  The theorems for ARBITRARY trees carry the hypotheses `wf`, `depthOk` (and `chars screenOk` where
  the screen is involved); `round_trip` is for every document the parser accepts, without them.
-/
namespace Wac.Props.C13Print
open Wac Wac.Ast Wac.Lex Wac.Parse Wac.Print Wac.PrintTok
open Wac.Lemmas.PrinterParse Wac.Lemmas.PrinterErase Wac.Lemmas.PrinterNonLoss Wac.Lemmas.PrinterWF
open Wac.Lemmas.PrinterDepth Wac.Lemmas.PrinterChars

/-- `Document::parse` after the screen -/
def reparse (text : Str) : Except ParseError Document := parseTokens (PState.init text)

theorem parseDocument_eq_reparse (text : Str) (h : detectInvalidInput text = none) :
    parseDocument text = reparse text := by
  simp [parseDocument, reparse, h]

/-- a concrete well-formed document with a target, versions, a `%` escape, a string name, `...` in
the middle, a static method, a use rename and an include-with list (non-vacuity witness) -/
def witness : Document :=
  let z : Span := ⟨0, 0⟩
  let id (s : String) : Ident := ⟨s.toList, false, z⟩
  { docs := [⟨"a\n\n b".toList, z⟩]
    directive :=
      { package := ⟨"foo:bar@1.0.0".toList, "foo:bar".toList, some ⟨1, 0, 0, [], []⟩, z⟩
        targets := some ⟨z, "a:b/c".toList, "a:b".toList, "c".toList, none⟩ }
    statements := [
      .Let ⟨[], ⟨"type".toList, true, z⟩,
        .mk z (.New (.mk z ⟨"a:b".toList, "a:b".toList, none, z⟩
          [.Inferred (id "c"), .Fill z, .Named (.mk (.String ⟨"n m".toList, z⟩) (.mk z (.Ident (id "e")) [])),
           .Spread (id "f")])) [.Access ⟨z, id "w"⟩]⟩,
      .Type' (.Interface ⟨[], id "i", [
        .Type' (.Resource ⟨[], id "r", [.Method ⟨[], id "m", true, ⟨[], .Scalar (.U8 z)⟩⟩,
                                         .Constructor ⟨[], z, [⟨id "a", .U8 z⟩]⟩]⟩),
        .Use ⟨[], .Ident (id "w"), [⟨id "x", some (id "y")⟩, ⟨id "z", none⟩]⟩]⟩),
      .Type' (.World ⟨[], id "w", [.Include ⟨[], .Ident (id "v"), [⟨id "a", id "b"⟩]⟩]⟩)] }

example : witness.wf = true := by decide
example : witness.depthOk = true := by decide
example : witness.chars screenOk = true := by decide

/-! ### 1. the layout: the printed text consists of exactly the tokens of the token printer -/

/-- `layout_tokens`: lexing the printed text gives the token sequence `printTokens d` (kinds, texts
and the doc-comment lines in front of each token): for exactly the adjacent pairs the printer
writes, the text between them (blanks, line feeds, indentation, `///` lines — or nothing) makes
the lexer split there. -/
theorem layout_tokens (d : Document) (hwf : d.wf = true) :
    tokenizeE (Print.document d) = printTokens d :=
  Wac.Lemmas.PrinterLayout.layout_tokens d hwf

example : tokenizeE (Print.document witness) = printTokens witness := layout_tokens witness (by decide)

/-! ### 2. the printed tokens parse back to the same tree -/

/-- `print_tokens_valid`: the parser, run on the printed tokens with whatever byte offsets
attached (`E st`: the items `Lexer::next` will return, without offsets), succeeds and returns the
document up to positions and doc-comment line splitting. -/
theorem print_tokens_valid (d : Document) (hwf : d.wf = true) (st : PState)
    (hst : E st = printTokens d) :
    ∃ d', parseTokens st = .ok d' ∧ d'.erase = d.erase :=
  parseTokens_printTokens docsNF d hwf st hst

/-- print → re-parse: the printed text parses to the same document up to positions and
doc-comment line splitting -/
theorem print_reparse (d : Document) (hwf : d.wf = true) (hdepth : d.depthOk = true) :
    ∃ d', reparse (Print.document d) = .ok d' ∧ d'.erase = d.erase := by
  apply print_tokens_valid d hwf (PState.init (Print.document d))
  have hl := layout_tokens d hwf
  have : (PState.init (Print.document d)).toks.map LTok.erase = printTokens d := hl
  rw [E_eq_map _ (by rw [this]; exact hdepth), this]

example : ∃ d', reparse (Print.document witness) = .ok d' ∧ d'.erase = witness.erase :=
  print_reparse witness (by decide) (by decide)

/-! ### 3. printing is idempotent -/

/-- the printer reads a tree only through its erasure -/
theorem print_erase (d : Document) : Print.document d.erase = Print.document d := document_erase d

/-- `print_idempotent`: the re-parsed tree prints to the same text, byte for byte -/
theorem print_idempotent (d : Document) (hwf : d.wf = true) (hdepth : d.depthOk = true) :
    ∃ d', reparse (Print.document d) = .ok d' ∧ Print.document d' = Print.document d := by
  obtain ⟨d', hp, he⟩ := print_reparse d hwf hdepth
  exact ⟨d', hp, by rw [← print_erase d', he, print_erase d]⟩

/-- the printed text passes the code-point screen when the leaves of the tree do -/
theorem print_screen (d : Document) (hd : d.chars screenOk = true) :
    detectInvalidInput (Print.document d) = none :=
  Wac.Lemmas.PrinterChars.print_screen d hd

/-- every tree the parser returns is well-formed -/
theorem parse_wf (src : Str) (d : Document) (h : parseDocument src = .ok d) : d.wf = true := by
  unfold parseDocument at h
  split at h
  · cases h
  · exact parseTokens_wf (PState.init src) (init_toksOK src) d h

/-- the printed form of every tree the parser returns stays within the nesting limit -/
theorem parse_depth (src : Str) (d : Document) (h : parseDocument src = .ok d) : d.depthOk = true := by
  unfold parseDocument at h
  split at h
  · cases h
  · exact parseTokens_depth (PState.init src) rfl d h

/-- the text leaves of every tree the parser returns consist of characters that pass the screen -/
theorem parse_chars (src : Str) (d : Document) (h : parseDocument src = .ok d) :
    d.chars screenOk = true := by
  unfold parseDocument at h
  split at h
  · cases h
  · rename_i hs
    exact parseTokens_chars screenOk (PState.init src) (init_toksChars src hs) d h

/-- C13 for the models, full statement: for every document the parser accepts, the printed text
is accepted by `Document::parse` (screen included) with a tree identical to the original up to
source positions and doc-comment line splitting, and printing that tree reproduces the text byte
for byte. -/
theorem round_trip (src : Str) (d : Document) (h : parseDocument src = .ok d) :
    ∃ d', parseDocument (Print.document d) = .ok d' ∧ d'.erase = d.erase ∧
      Print.document d' = Print.document d := by
  obtain ⟨d', hp, he⟩ := print_reparse d (parse_wf src d h) (parse_depth src d h)
  refine ⟨d', ?_, he, by rw [← print_erase d', he, print_erase d]⟩
  rw [parseDocument_eq_reparse _ (print_screen d (parse_chars src d h))]
  exact hp

/-! ### 4. doc comments -/

/-- `docs_normal_form`: doc comments are compared as the list of their trimmed lines
(`docLines`; an empty comment counts as one empty line); `eraseDocs` — one comment per line — is
the normal form: it has the same lines, is a fixed point, prints the same, and is what a re-parse
of the printed lines returns. -/
theorem docs_normal_form (ds : List DocComment) :
    docLines (eraseDocs ds) = docLines ds ∧
    eraseDocs (eraseDocs ds) = eraseDocs ds ∧
    (∀ p, Print.docs p (eraseDocs ds) = Print.docs p ds) ∧
    (∀ ds' : List DocComment, ds'.map (·.comment) = docLines ds → eraseDocs ds' = eraseDocs ds) :=
  ⟨docLines_eraseDocs ds, eraseDocs_idem ds, fun p => docs_eraseDocs p ds,
   fun ds' h => eraseDocs_of_comments_eq ds' ds h⟩

/-- every printed doc line is trimmed and contains no line feed -/
theorem doc_lines_trimmed (ds : List DocComment) (l : Str) (h : l ∈ docLines ds) :
    rustTrim l = l ∧ '\n' ∉ l := docLines_normal ds l h

/-- an empty line inside a comment, and an empty comment, are printed as a bare `///` and survive
the second print (the repaired behaviour) -/
example : docLines [⟨"a\n\n b".toList, ⟨0, 0⟩⟩, ⟨[], ⟨0, 0⟩⟩] = ["a".toList, [], "b".toList, []] := by
  decide

example : (Print.docs ⟨[], 0, false⟩ [⟨"a\n\n b".toList, ⟨0, 0⟩⟩]).out.reverse =
    "/// a\n///\n/// b\n".toList := by decide

/-! ### 5. nothing is lost (one statement per construct) -/

/-- the target of the package directive survives print → re-parse -/
theorem print_keeps_targets (d : Document) (hwf : d.wf = true) (hdepth : d.depthOk = true)
    (d' : Document) (h : reparse (Print.document d) = .ok d') :
    d'.directive.targets.map PackagePath.erase = d.directive.targets.map PackagePath.erase ∧
    d'.directive.targets.map (·.string) = d.directive.targets.map (·.string) := by
  obtain ⟨d'', hp, he⟩ := print_reparse d hwf hdepth
  have hdd : d'' = d' := by rw [hp] at h; exact Except.ok.inj h
  subst hdd
  have hd : d''.directive.erase = d.directive.erase := congrArg Document.directive he
  exact ⟨congrArg PackageDirective.targets hd, feature_eq _ targetText targetText_erase hd⟩

example : witness.directive.targets.isSome = true := by decide

/-- the package name and its version survive print → re-parse -/
theorem print_keeps_version (d : Document) (hwf : d.wf = true) (hdepth : d.depthOk = true)
    (d' : Document) (h : reparse (Print.document d) = .ok d') :
    d'.directive.package.version = d.directive.package.version ∧
    d'.directive.package.string = d.directive.package.string := by
  obtain ⟨d'', hp, he⟩ := print_reparse d hwf hdepth
  have hdd : d'' = d' := by rw [hp] at h; exact Except.ok.inj h
  subst hdd
  have hd : d''.directive.erase = d.directive.erase := congrArg Document.directive he
  have hp' : d''.directive.package.erase = d.directive.package.erase :=
    congrArg PackageDirective.package hd
  have := feature_eq _ packageNameData packageNameData_erase hp'
  simp only [packageNameData, Prod.mk.injEq] at this
  exact ⟨this.2.2, this.1⟩

/-- versions at any package name or package path: the parser on the printed token returns the
same text, name, segments and version -/
theorem print_keeps_version_node (p : PackageName) (hwf : p.wf = true) (q : PackagePath)
    (hq : q.wf = true) (st : PState) (rest : List PTok) :
    (E st = packageName p :: rest →
      ∃ p' st', parsePackageName st = .ok (p', st') ∧ packageNameData p' = packageNameData p) ∧
    (E st = packagePath q :: rest →
      ∃ q' st', parsePackagePath st = .ok (q', st') ∧ packagePathData q' = packagePathData q) := by
  constructor
  · intro h
    obtain ⟨p', st', hp, he, -⟩ := parsePackageName_ok hwf (st := st) h rfl rfl
    exact ⟨p', st', hp, feature_eq _ packageNameData packageNameData_erase he⟩
  · intro h
    obtain ⟨q', st', hp, he, -⟩ := parsePackagePath_ok hq (st := st) h rfl rfl
    exact ⟨q', st', hp, feature_eq _ packagePathData packagePathData_erase he⟩

/-- a `%`-escaped identifier is printed with its `%` and parsed back with the flag and the same
cooked name -/
theorem print_keeps_percent_escape (i : Ident) (hwf : i.wf = true) (st : PState) (rest : List PTok)
    (h : E st = ident i :: rest) :
    (i.escaped = true → (ident i).text = '%' :: i.string) ∧
    ∃ i' st', parseIdent st = .ok (i', st') ∧ i'.escaped = i.escaped ∧ i'.string = i.string := by
  refine ⟨fun he => by simp [ident, identSrc, Ident.raw, he], ?_⟩
  obtain ⟨i', st', hp, he, -⟩ := parseIdent_ok hwf (st := st) h rfl rfl
  have := feature_eq _ identData identData_erase he
  simp only [identData, Prod.mk.injEq] at this
  exact ⟨i', st', hp, this.2, this.1⟩

example : (⟨"type".toList, true, ⟨0, 0⟩⟩ : Ident).wf = true := by decide

/-- a string name (of an import/export or of an instantiation argument) stays a string with the
same text -/
theorem print_keeps_string_names (n : ExternName) (hn : n.wf = true) (a : InstantiationArgumentName)
    (ha : a.wf = true) (st : PState) (rest : List PTok) :
    (E st = externName n :: rest →
      ∃ n' st', parseExternName st = .ok (n', st') ∧ externNameData n' = externNameData n) ∧
    (E st = argName a :: rest →
      ∃ a' st', parseInstantiationArgumentName st = .ok (a', st') ∧ argNameData a' = argNameData a) := by
  constructor
  · intro h
    obtain ⟨n', st', hp, he, -⟩ := externName_ok hn (st := st) h
    exact ⟨n', st', hp, feature_eq _ externNameData externNameData_erase he⟩
  · intro h
    obtain ⟨a', st', hp, he, -⟩ := argName_ok ha (st := st) h
    exact ⟨a', st', hp, feature_eq _ argNameData argNameData_erase he⟩

/-- the argument list of `new`: every argument keeps its form and its position — in particular
`...` stays where it was, in any position -/
theorem print_keeps_fill_position (args : List InstantiationArgument) (hwf : wfArgs args = true)
    (fuel : Nat) (hf : 3 * (exprArgs args).length + 3 ≤ fuel) (n : Nat) (hn : args.length + 1 ≤ n)
    (st : PState) (rest : List PTok)
    (h : E st = exprArgs args ++ rest) (hrest : headIs .CloseBrace rest) :
    ∃ args' st', parseDelimited .CloseBrace true instantiationArgumentPeeks
        (parseInstantiationArgument fuel) n st = .ok (args', st') ∧
      args'.map argKind = args.map argKind := by
  obtain ⟨args', st', hp, he, -⟩ := args_ok args hwf fuel hf n hn st rest h hrest
  exact ⟨args', st', hp, argKinds_of_erase_eq _ _ he⟩

/-- a static method stays static, a constructor stays a constructor -/
theorem print_keeps_static (m : ResourceMethod) (hwf : m.wf = true) (fuel : Nat)
    (hf : 3 * (resourceMethod m).length ≤ fuel) (st : PState) (rest : List PTok)
    (h : E st = resourceMethod m ++ rest) :
    ∃ m' st', parseResourceMethod fuel st = .ok (m', st') ∧
      resourceMethodKind m' = resourceMethodKind m := by
  obtain ⟨m', st', hp, he, -⟩ := resourceMethod_ok docsNF m hwf fuel hf st rest h trivial
  exact ⟨m', st', hp, feature_eq _ resourceMethodKind resourceMethodKind_erase he⟩

/-- `use p.{a as b, c}`: the renames survive -/
theorem print_keeps_use_rename (u : Use) (hwf : u.wf = true) (fuel : Nat)
    (hf : 3 * (useType u).length ≤ fuel) (st : PState) (rest : List PTok)
    (h : E st = useType u ++ rest) :
    ∃ u' st', parseUse fuel st = .ok (u', st') ∧ useRenames u' = useRenames u := by
  obtain ⟨u', st', hp, he, -⟩ := use_ok docsNF u hwf fuel hf st rest h trivial
  exact ⟨u', st', hp, feature_eq _ useRenames useRenames_erase he⟩

/-- `include w with { a as b }`: the with-list survives -/
theorem print_keeps_include_with (i : WorldInclude) (hwf : i.wf = true) (fuel : Nat)
    (hf : 3 * (worldInclude i).length ≤ fuel) (st : PState) (rest : List PTok)
    (h : E st = worldInclude i ++ rest) :
    ∃ i' st', parseWorldInclude fuel st = .ok (i', st') ∧ includeWith i' = includeWith i := by
  obtain ⟨i', st', hp, he, -⟩ := worldInclude_ok docsNF i hwf fuel hf st rest h trivial
  exact ⟨i', st', hp, feature_eq _ includeWith includeWith_erase he⟩

end Wac.Props.C13Print
