import WacModel.Spec.Decode
/-
  C08 — decoding a package preserves its component type; re-encoding stays satisfiable.
  Theorems about the model `Wac.Decode.fromBytes` (WacModel/Decode.lean) of
  `Package::from_bytes` / `TypeConverter`.
-/
namespace Wac.Props.C08
open Wac Wac.Decode

/-- The instance type of a decoded package lists exactly the exports of its world, has no id and
no used types ("an instance type equal to its exports"). -/
theorem instance_type_eq_exports (w : WTypes) (d : Decoded) (h : fromBytes w = .ok d) :
    ∃ wd itf, d.types.worlds[d.world]? = some wd ∧ d.types.interfaces[d.instanceType]? = some itf ∧
      itf.exports = wd.exports ∧ itf.uses = [] ∧ itf.id = none := by
  unfold fromBytes at h
  split at h
  · cases h
  · simp only at h
    split at h
    · split at h
      · rename_i _ imports _ _ _ exports _
        simp only [addWorld, addInterface] at h
        cases h
        refine ⟨{ id := none, uses := [], imports := collectMap imports, exports := collectMap exports },
          { id := none, uses := [], exports := collectMap exports }, ?_, ?_, rfl, rfl, rfl⟩ <;> simp
      · cases h
      · cases h
    · cases h
    · cases h

/-- non-vacuity: a component importing a function and exporting an instance decodes -/
example : ∃ d, fromBytes
    { root := 0,
      funcs := [{ isAsync := false, params := [("a".toList, .prim .u32)], result := some (.prim .string) }],
      insts := [[("f".toList, .func 0)]],
      comps := [{ imports := [("f".toList, .func 0)], exports := [("i".toList, .instance 0)] }] } = .ok d := by
  exact ⟨_, rfl⟩

end Wac.Props.C08
