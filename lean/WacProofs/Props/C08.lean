import WacProofs.Lemmas.Decode
/-
  C08 — decoding a package preserves its component type; re-encoding stays satisfiable.
  Theorems about the model `Wac.Decode.fromBytes` (WacModel/Decode.lean) of
  `Package::from_bytes` / `TypeConverter`.
-/
namespace Wac.Props.C08
open Wac Wac.Decode

/-- The instance type of a decoded package lists exactly the exports of its world, has no id and
no used types ("an instance type equal to its exports"). -/
theorem instance_type_eq_exports (w : WTypes) (d : Decoded) (h : fromBytes w = .ok d) :
    ∃ wd itf, d.types.worlds[d.world]? = some wd ∧ d.types.interfaces[d.instanceType]? = some itf ∧
      itf.exports = wd.exports ∧ itf.uses = [] ∧ itf.id = none := by
  unfold fromBytes at h
  split at h
  · cases h
  · simp only at h
    split at h
    · split at h
      · rename_i _ imports _ _ _ exports _
        simp only [addWorld, addInterface] at h
        cases h
        refine ⟨{ id := none, uses := [], imports := collectMap imports, exports := collectMap exports },
          { id := none, uses := [], exports := collectMap exports }, ?_, ?_, rfl, rfl, rfl⟩ <;> simp
      · cases h
      · cases h
    · cases h
    · cases h

/-- non-vacuity: a component importing a function and exporting an instance decodes -/
example : ∃ d, fromBytes
    { root := 0,
      funcs := [{ isAsync := false, params := [("a".toList, .prim .u32)], result := some (.prim .string) }],
      insts := [[("f".toList, .func 0)]],
      comps := [{ imports := [("f".toList, .func 0)], exports := [("i".toList, .instance 0)] }] } = .ok d := by
  exact ⟨_, rfl⟩

/-- **decode_lists_exact.**  The world of a decoded package lists exactly the component's
imports and exports: the same names, in the same order, each with the same sort (module,
function, value, type, instance, component).  (Names of a valid component are pairwise
distinct; that is the `Nodup` hypothesis.) -/
theorem decode_lists_exact (w : WTypes) (d : Decoded) (root : WComp)
    (hroot : w.comps[w.root]? = some root)
    (hi : (root.imports.map (·.1)).Nodup) (he : (root.exports.map (·.1)).Nodup)
    (h : fromBytes w = .ok d) :
    ∃ wd, d.types.worlds[d.world]? = some wd ∧ wd.id = none ∧ wd.uses = [] ∧
      wd.imports.map (·.1) = root.imports.map (·.1) ∧
      wd.imports.map (fun x => sortK x.2) = root.imports.map (fun x => sortE x.2) ∧
      wd.exports.map (·.1) = root.exports.map (·.1) ∧
      wd.exports.map (fun x => sortK x.2) = root.exports.map (fun x => sortE x.2) := by
  obtain ⟨root', st, st', imports, exports, hroot', himp, hexp, hw⟩ := fromBytes_world w d h
  rw [hroot] at hroot'
  cases hroot'
  obtain ⟨hin, his⟩ := topItems_names_sorts himp
  obtain ⟨hen, hes⟩ := topItems_names_sorts hexp
  have hci : collectMap imports = imports := collectMap_nodup _ (by rw [hin]; exact hi)
  have hce : collectMap exports = exports := collectMap_nodup _ (by rw [hen]; exact he)
  refine ⟨_, hw, rfl, rfl, ?_, ?_, ?_, ?_⟩ <;> simp only [hci, hce] <;> assumption

/-- non-vacuity of `decode_lists_exact`: two imports of different sorts and an export -/
example :
    let w : WTypes :=
      { root := 0,
        funcs := [{ isAsync := true, params := [("a".toList, .prim .u32)], result := none }],
        insts := [[("f".toList, .func 0)]],
        comps := [{ imports := [("f".toList, .func 0), ("v".toList, .value (.prim .bool))],
                    exports := [("i".toList, .instance 0)] }] }
    ∃ d root, fromBytes w = .ok d ∧ w.comps[w.root]? = some root ∧
      (root.imports.map (·.1)).Nodup ∧ (root.exports.map (·.1)).Nodup := by
  refine ⟨_, _, rfl, rfl, by decide, by decide⟩

/-- **decode_func_faithful** (allocation form).  When the converter meets a function type for the
first time, the function type it allocates has the validator's parameter names in the same
order, a result exactly when the validator's function has one, and the same async flag.
Full strength (parameter and result *types* are the validator's, also on a cache hit) is
`decode_tree`; see notes/C08.md. -/
theorem decode_func_faithful_partial (w : WTypes) (fuel : Nat) (st st' : St) (f id : Nat) (ft : WFunc)
    (hf : w.funcs[f]? = some ft) (hmiss : lookup st.cache (.any (.func f)) = none)
    (hn : (ft.params.map (·.1)).Nodup)
    (h : funcType w fuel st f = .ok (st', id)) :
    ∃ g, st'.types.funcs[id]? = some g ∧ g.params.map (·.1) = ft.params.map (·.1) ∧
      g.result.isSome = ft.result.isSome ∧ g.isAsync = ft.isAsync := by
  unfold funcType at h
  rw [hmiss, hf] at h
  simp only at h
  split at h
  · rename_i st1 ps hps
    split at h
    · rename_i st2 r hr
      simp only [addFunc] at h
      cases h
      have hnames : ps.map (·.1) = ft.params.map (·.1) := loopM_named_fst hps
      refine ⟨{ params := collectMap ps, result := r, isAsync := ft.isAsync }, by simp [cacheInsert], ?_, ?_, rfl⟩
      · simp only
        rw [collectMap_nodup _ (by rw [hnames]; exact hn)]
        exact hnames
      · simp only
        exact (optM_isSome hr)
    · cases h
    · cases h
  · cases h
  · cases h

/-- non-vacuity of `decode_func_faithful_partial` -/
example :
    let w : WTypes :=
      { funcs := [{ isAsync := true, params := [("a".toList, .prim .u32), ("b".toList, .prim .string)],
                    result := some (.prim .bool) }] }
    ∃ st' id, funcType w 3 {} 0 = .ok (st', id) := ⟨_, _, rfl⟩

/-! ### resource identity -/

/-- Invariant of the converter's resource bookkeeping: every base resource seen so far maps to a
*root* resource (no alias) of the collection, and every cached aliasable resource id resolves,
through at most one alias step, to the root recorded for its base resource. -/
def ResInv (w : WTypes) (st : St) : Prop :=
  (∀ b s, lookup st.resourceMap b = some s → ∃ res, st.types.resources[s]? = some res ∧ res.alias = none) ∧
  (∀ r id, lookup st.cache (.any (.res r)) = some (.resource id) →
    ∃ e s, w.res[r]? = some e ∧ lookup st.resourceMap e.base = some s ∧
      st.types.resolveResource 2 id = some s)

/-- **resource_identity_preserved** (step form).  `TypeConverter::resource` keeps the invariant,
and the resource it returns resolves to the root recorded for the base resource of the
validator's id: two validator ids of one resource (an alias chain, an `eq` bound, a re-export)
decode to one resource or to an alias of it, never to two unrelated resources.
What is missing for the global statement: that every *other* step of the conversion preserves
`ResInv` (they only append to the arenas, insert non-resource cache keys, and
`clearSelfOwner` changes `alias.owner` only); see notes/C08.md. -/
theorem resource_identity_preserved_step (w : WTypes) (st st' : St) (name : Str) (r id : Nat)
    (hinv : ResInv w st) (h : resource w st name r = .ok (st', id)) :
    ResInv w st' ∧ ∃ e s, w.res[r]? = some e ∧ lookup st'.resourceMap e.base = some s ∧
      st'.types.resolveResource 2 id = some s := by
  obtain ⟨hmap, hcache⟩ := hinv
  unfold resource at h
  split at h
  · -- cache hit
    rename_i id' hhit
    cases h
    exact ⟨⟨hmap, hcache⟩, hcache r id hhit⟩
  · cases h
  · rename_i hmiss
    split at h
    · cases h
    · rename_i e he
      split at h
      · -- alias of a known resource
        rename_i src hsrc
        simp only [addResource, cacheInsert] at h
        cases h
        obtain ⟨root, hroot, hnoalias⟩ := hmap _ _ hsrc
        have hlen : st.types.resources.length = st.types.resources.length := rfl
        have hsrclt : src < st.types.resources.length := by
          rcases Nat.lt_or_ge src st.types.resources.length with hlt | hge
          · exact hlt
          · rw [List.getElem?_eq_none hge] at hroot; cases hroot
        refine ⟨⟨?_, ?_⟩, e, src, he, hsrc, ?_⟩
        · intro b s hb
          obtain ⟨res, hres, hna⟩ := hmap b s hb
          exact ⟨res, getElem?_append_lt' _ _ _ _ hres, hna⟩
        · intro r' id' hc
          simp only [lookup] at hc
          split at hc
          · rename_i heq
            cases heq; cases hc
            refine ⟨e, src, he, hsrc, ?_⟩
            simp [Types.resolveResource, getElem?_append_lt' _ _ _ _ hroot, hnoalias]
          · obtain ⟨e', s', he', hs', hres'⟩ := hcache r' id' hc
            refine ⟨e', s', he', hs', ?_⟩
            exact resolve2_append _ _ _ _ hres'
        · simp [Types.resolveResource, getElem?_append_lt' _ _ _ _ hroot, hnoalias]
      · -- a new resource
        rename_i hnone
        simp only [addResource, cacheInsert] at h
        cases h
        refine ⟨⟨?_, ?_⟩, e, st.types.resources.length, he, by simp [lookup], ?_⟩
        · intro b s hb
          simp only [lookup] at hb
          split at hb
          · cases hb; exact ⟨{ name := name, alias := none }, by simp, rfl⟩
          · obtain ⟨res, hres, hna⟩ := hmap b s hb
            exact ⟨res, getElem?_append_lt' _ _ _ _ hres, hna⟩
        · intro r' id' hc
          simp only [lookup] at hc
          split at hc
          · rename_i heq
            cases heq; cases hc
            exact ⟨e, st.types.resources.length, he, by simp [lookup], by simp [Types.resolveResource]⟩
          · obtain ⟨e', s', he', hs', hres'⟩ := hcache r' id' hc
            refine ⟨e', s', he', ?_, resolve2_append _ _ _ _ hres'⟩
            simp only [lookup]
            split
            · rename_i hb
              rw [hb] at hnone
              rw [hnone] at hs'; cases hs'
            · exact hs'
        · simp [Types.resolveResource]

/-- non-vacuity: the empty converter state satisfies the invariant, and a second alias id of the
same base resource becomes an alias of the first one -/
example : ResInv { res := [{ base := 0, peel := none }, { base := 0, peel := some 0 }] } {} :=
  ⟨by intro b s h; simp [lookup] at h, by intro r id h; simp [lookup] at h⟩

example :
    let w : WTypes := { res := [{ base := 0, peel := none }, { base := 0, peel := some 0 }] }
    ∃ st1 st2, resource w {} "r".toList 0 = .ok (st1, 0) ∧ resource w st1 "q".toList 1 = .ok (st2, 1) ∧
      st2.types.resources = [{ name := "r".toList }, { name := "q".toList, alias := some { owner := none, source := 0 } }] :=
  ⟨_, _, rfl, rfl, rfl⟩

/-! ### used-type provenance -/

/-- **use_provenance** (step form).  When the type referenced by a type export `name` of
interface `i` has an owner `(interface j, orig)` with `j ≠ i`, `use_or_own` records
`uses[name] = (j, orig)` (the original name only when it differs), and registers the created id
with the *same* first owner, so that a later `use` of this re-export still resolves to the first
exporter (`use` chains).  Missing for the global statement: threading through the whole
conversion (that `findOwner` of the referenced id is the first exporter is the invariant
`owners` maintains by exactly this step). -/
theorem use_provenance_step (w : WTypes) (st st' : St) (i j : Nat) (name orig : Str)
    (referenced created : WAny) (itf : Interface)
    (hown : findOwner w st.owners (w.res.length + w.defs.length + 1) referenced = some (.interface j, orig))
    (hij : i ≠ j) (hitf : st.types.interfaces[i]? = some itf)
    (h : useOrOwn w st (.interface i) name referenced created = .ok st') :
    (∃ itf', st'.types.interfaces[i]? = some itf' ∧
      alGet itf'.uses name = some { interface := j, name := if name != orig then some orig else none }) ∧
    (lookup st.owners created = none → lookup st'.owners created = some (.interface j, orig)) := by
  unfold useOrOwn at h
  rw [hown] at h
  have hne : (Owner.interface i != Owner.interface j) = true := by
    simp only [bne_iff_ne, ne_eq, Owner.interface.injEq]; exact hij
  simp only [hne, if_true] at h
  have hi : i < st.types.interfaces.length := by
    rcases Nat.lt_or_ge i st.types.interfaces.length with hlt | hge
    · exact hlt
    · rw [List.getElem?_eq_none hge] at hitf; cases hitf
  constructor
  · split at h <;> cases h <;>
      refine ⟨_, by simp [modifyInterface, hitf]; rfl, ?_⟩ <;>
      simp [alGet_alInsert_self]
  · intro hfree
    simp only [modifyInterface] at h
    rw [hfree] at h
    cases h
    simp [lookup]

/-- non-vacuity: interface 1 re-exports under the name `q` the type `t` owned by interface 0 -/
example :
    let w : WTypes := { defs := [{ peel := none, body := .flags ["a".toList] }, { peel := some 0, body := .flags ["a".toList] }] }
    let st : St := { types := { interfaces := [{ id := some "a:b/c".toList }, {}] },
                     owners := [(.defined 0, (.interface 0, "t".toList))] }
    ∃ st', useOrOwn w st (.interface 1) "q".toList (.defined 0) (.defined 1) = .ok st' ∧
      (st'.types.interfaces[1]?).map (·.uses) = some [("q".toList, { interface := 0, name := some "t".toList })] ∧
      lookup st'.owners (.defined 1) = some (.interface 0, "t".toList) :=
  ⟨_, rfl, rfl, rfl⟩

end Wac.Props.C08
