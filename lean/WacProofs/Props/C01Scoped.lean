import WacProofs.Props.C02Full
import WacProofs.Lemmas.EncScoped2
import WacProofs.Lemmas.EncNoPanic
/-
  C01, structural part, second layer: scoping of every index operand of the encoded skeleton,
  exactness of the argument lists, unreachability of the model's panic outcomes.

  * `encode_wellscoped` : `WF g → encode g o = .ok s → WellScoped s` — every index operand of
    every item (component index and argument indices of an instantiate, instance index of an
    alias, item index of an export, indices of the name section) is below the counter of its
    index space at that point of the emission (`WacModel/Spec/Scoped.lean`).  Unconditional: no
    hypothesis on the aggregated imports (the earlier `encode_wellscoped_partial` went through
    the wiring equation and needed `AggHyp`).
  * `encode_args_exact` : the argument names of every instantiate item are the names of the
    argument edges of one instantiation node (adjacency order) followed by the imports of its
    package that no argument edge provides (world order); `encode_args_nodup`: under
    `ArgEdgesOk g` (what `set_instantiation_argument` guarantees: one edge per import, edges
    name imports of the package, import names distinct) no name occurs twice, every import of
    the package is supplied and nothing else is.
  * `encode_no_panic` : `WF g → Closed g → ∀ site, encode g o ≠ .panic site` — none of the model's
    panic outcomes (the `unwrap`s, index lookups and `assert!`s of the Rust code, and the model's
    own toposort fuel) is reachable.  `Closed g` (`WacModel/Spec/Scoped.lean`, executable:
    `closedCheck`) is what C06's graph invariant gives the encoder: edges stay inside the live
    nodes, no self edge, every instantiation has a registered package and only argument edges,
    every alias has an instance as its source, every definition is named, every export names a
    live node.  Proof: `toposort_no_fuel` + `toposort_preds_before` (every edge source is placed
    earlier) + "`node_indexes` is defined exactly on the nodes emitted so far".
-/
namespace Wac.Props.C01
open Wac Wac.Spec Wac.Props.C02

/-- `encode_wellscoped` -/
theorem encode_wellscoped {g : GraphVal} {o : Opts} {s : Skeleton} (wf : WF g) (he : encode g o = .ok s) :
    WellScoped s = true := by
  obtain ⟨order, agg, ht, hagg⟩ := encode_ok_stages he
  obtain ⟨st1, st2, st3, hs⟩ := encode_stages ht he
  exact (encode_sinv (A := fun _ _ => True) (C := fun _ _ => True) wf ht hagg
    (fun _ _ => ⟨trivial, fun _ _ _ => trivial⟩) (fun _ _ _ _ _ _ _ _ => trivial) (fun _ _ _ _ _ => trivial)
    (fun _ _ _ _ => trivial) hs).2.1

/-- `encode_args_exact`: explicit arguments first (the argument edges of the node, in adjacency
    order), then the implicit ones (the imports of the package no edge provides, in world order) -/
theorem encode_args_exact {g : GraphVal} {o : Opts} {s : Skeleton} (wf : WF g) (he : encode g o = .ok s) :
    ∀ c args, Item.instantiate c args ∈ s →
      ∃ n ∈ g.nodes, ∃ slot sat p, n.kind = .instantiation slot sat ∧ g.pkg? slot = some p ∧
        args.map (·.1) = n.args.map (·.1) ++ (unsatisfiedByArgs n p).map (·.name) := by
  obtain ⟨order, agg, ht, hagg⟩ := encode_ok_stages he
  obtain ⟨st1, st2, st3, hs⟩ := encode_stages ht he
  obtain ⟨hnamed, _, _, h, _⟩ := encode_sinv (A := fun _ _ => True) (C := fun _ _ => True) wf ht hagg
    (fun _ _ => ⟨trivial, fun _ _ _ => trivial⟩) (fun _ _ _ _ _ _ _ _ => trivial) (fun _ _ _ _ _ => trivial)
    (fun _ _ _ _ => trivial) hs
  intro c args hm
  obtain ⟨n, hn, slot, sat, p, hk, hp, E, hargs, hE⟩ := h c args hm
  refine ⟨n, hn, slot, sat, p, hk, hp, ?_⟩
  rw [hargs, List.map_append, hE, hnamed n hn slot sat p hk hp, wf.satOk n hn slot sat p hk hp]

/-- what `set_instantiation_argument` guarantees about the argument edges of an instantiation -/
def ArgEdgesOk (g : GraphVal) : Prop :=
  ∀ n ∈ g.nodes, ∀ slot sat p, n.kind = .instantiation slot sat → g.pkg? slot = some p →
    (n.args.map (·.1)).Nodup ∧ (p.imports.map (·.name)).Nodup ∧ ∀ a ∈ n.args, a.1 ∈ p.imports.map (·.name)

def argEdgesCheck (g : GraphVal) : Bool :=
  g.nodes.all fun n => match n.kind with
    | .instantiation slot _ => match g.pkg? slot with
      | some p => decide (n.args.map (·.1)).Nodup && decide (p.imports.map (·.name)).Nodup &&
          n.args.all fun a => (p.imports.map (·.name)).contains a.1
      | none => true
    | _ => true

theorem argEdgesCheck_sound {g : GraphVal} (h : argEdgesCheck g = true) : ArgEdgesOk g := by
  intro n hn slot sat p hk hp
  simp only [argEdgesCheck, List.all_eq_true] at h
  have := h n hn
  simp only [hk, hp, Bool.and_eq_true, decide_eq_true_eq, List.all_eq_true, List.contains_iff_mem] at this
  exact ⟨this.1.1, this.1.2, this.2⟩

/-- `encode_args_exact`, second half: each instantiate supplies every import name of the package
    exactly once and nothing else -/
theorem encode_args_nodup {g : GraphVal} {o : Opts} {s : Skeleton} (wf : WF g) (ha : ArgEdgesOk g)
    (he : encode g o = .ok s) :
    ∀ c args, Item.instantiate c args ∈ s →
      (args.map (·.1)).Nodup ∧
      ∃ n ∈ g.nodes, ∃ slot sat p, n.kind = .instantiation slot sat ∧ g.pkg? slot = some p ∧
        ∀ x, x ∈ args.map (·.1) ↔ x ∈ p.imports.map (·.name) := by
  intro c args hm
  obtain ⟨n, hn, slot, sat, p, hk, hp, hnames⟩ := encode_args_exact wf he c args hm
  obtain ⟨h1, h2, h3⟩ := ha n hn slot sat p hk hp
  have hfil : ∀ r, r ∈ unsatisfiedByArgs n p ↔ r ∈ p.imports ∧ r.name ∉ n.args.map (·.1) := by
    intro r
    simp only [unsatisfiedByArgs, List.mem_filter, Bool.not_eq_eq_eq_not, Bool.not_true, List.any_eq_false,
      beq_iff_eq, List.mem_map, not_exists, not_and]
  refine ⟨?_, n, hn, slot, sat, p, hk, hp, ?_⟩
  · rw [hnames]
    refine List.nodup_append.mpr ⟨h1, ?_, ?_⟩
    · exact ((List.filter_sublist (l := p.imports)).map _).nodup h2
    · intro x hx y hy e
      subst e
      obtain ⟨r, hr, rfl⟩ := List.mem_map.mp hy
      exact ((hfil r).mp hr).2 hx
  · intro x
    rw [hnames, List.mem_append]
    constructor
    · rintro (hx | hx)
      · obtain ⟨a, ha', rfl⟩ := List.mem_map.mp hx
        exact h3 a ha'
      · obtain ⟨r, hr, rfl⟩ := List.mem_map.mp hx
        exact List.mem_map.mpr ⟨r, ((hfil r).mp hr).1, rfl⟩
    · intro hx
      obtain ⟨r, hr, rfl⟩ := List.mem_map.mp hx
      by_cases hin : r.name ∈ n.args.map (·.1)
      · exact Or.inl hin
      · exact Or.inr (List.mem_map.mpr ⟨r, (hfil r).mpr ⟨hr, hin⟩, rfl⟩)

/-- `encode_no_panic` -/
theorem encode_no_panic {g : GraphVal} {o : Opts} (wf : WF g) (cl : Closed g) :
    ∀ site, encode g o ≠ .panic site := by
  intro site h
  unfold encode at h
  cases hst : encodeSt g o with
  | ok st => simp [hst] at h
  | error e => simp [hst] at h
  | panic s => exact encodeSt_no_panic wf cl s hst

/-- so the outcome of encoding a well-formed closed graph is a skeleton or a documented error -/
theorem encode_total {g : GraphVal} {o : Opts} (wf : WF g) (cl : Closed g) :
    (∃ s, encode g o = .ok s) ∨ (∃ e, encode g o = .error e) := by
  cases h : encode g o with
  | ok s => exact Or.inl ⟨s, rfl⟩
  | error e => exact Or.inr ⟨e, rfl⟩
  | panic s => exact absurd h (encode_no_panic wf cl s)

/-! ### non-vacuity -/

example : Closed exDiamond ∧ Closed exGraph ∧ ∀ site, encode exDiamond { define := false } ≠ .panic site :=
  ⟨closedCheck_sound (by decide), closedCheck_sound (by decide),
   encode_no_panic exDiamond_wf (closedCheck_sound (by decide))⟩

/-- `Closed` is needed: an export-map entry for a node that does not exist makes the model (and
    the indexing `self.0.graph[node]` of the exports loop in the Rust code) panic -/
example : encode { exGraph with exports := [(['e', '1'], 9)] } {} = .panic "export of a dead node" := by rfl

/-- the diamond (alias of an alias, two versions of one interface shared) and `exGraph` (two
    instantiations of one package) meet the hypotheses; the conclusions are not trivial: the
    skeletons have operands in every index space -/
example : WellScoped exDiamondSkel = true ∧ WellScoped exSkel = true :=
  ⟨encode_wellscoped exDiamond_wf exDiamond_encode, encode_wellscoped exGraph_wf exGraph_encode⟩

example : instArgNames exDiamondSkel = [[], [['a'], dI10], [['a'], dI12], [['r'], ['l']]] ∧
    countersOf exDiamondSkel .instance = 7 ∧ countersOf exDiamondSkel .component = 4 := by
  refine ⟨by decide, by decide, by decide⟩

example : ArgEdgesOk exDiamond ∧
    ∀ c args, Item.instantiate c args ∈ exDiamondSkel → (args.map (·.1)).Nodup :=
  ⟨argEdgesCheck_sound (by decide),
   fun c args hm => (encode_args_nodup exDiamond_wf (argEdgesCheck_sound (by decide)) exDiamond_encode c args hm).1⟩

/-- a skeleton with an operand out of scope is rejected by `WellScoped` (the predicate is not
    trivially true): an alias of instance 0 before any instance exists -/
example : WellScoped [.aliasExport 0 .func ['f']] = false ∧
    WellScoped [.typeDef, .import ['i'] .instance, .aliasExport 0 .func ['f']] = true := by decide

end Wac.Props.C01
