import WacProofs.Lemmas.Targets
import WacProofs.Lemmas.NameMapFacts
/-
  C11 — a `targets` verdict means the output really conforms to the world.

  Models (WacModel/Targets.lean): `resolveValidateTarget` = `AstResolver::validate_target` on the
  graph's imports/exports (exact names, first failure wins), `binaryValidateLists` /
  `binaryValidateTarget` = `wac_types::validate_target` (semver-aware `NameMap` lookups, report),
  `implicitImported` = `World::implicit_imported_interfaces`.  The subtype facts are `SubK`
  (`subNames` on the unfolded trees; for resource-free kinds the component-model relation `sub`,
  C07 `subNames_eq_sub`).  Well-formedness hypotheses (`WFK`): every kind involved unfolds to a
  tree with distinct names.  The link graph ↦ encoded output is C03/C08's, not part of these
  statements: both validators are stated over one collection and the same import/export lists.
-/
namespace Wac.Props.C11
open Wac Wac.Spec Wac.Props.C07

/-- the world's import a name refers to at resolution time: used interfaces first, then declared imports -/
def lookR (implicit explicit : List (Str × ItemKind)) (n : Str) : Option ItemKind :=
  (amGet implicit n).orElse (fun _ => amGet explicit n)

/-- **conformance, exact names**: every import of the output is an import of the world
(explicit or through a used interface) whose type satisfies it, and every export of the world
is exported at a conforming type -/
def ConformsExact (t : Types) (implicit explicit gi ge wexports : List (Str × ItemKind)) : Prop :=
  (∀ n k, (n, k) ∈ gi → ∃ e, lookR implicit explicit n = some e ∧ SubK t e.promote k) ∧
  (∀ n e, (n, e) ∈ wexports → ∃ k, amGet ge n = some k ∧ SubK t k e.promote)

/-- **conformance, semver-aware names** (what the stand-alone check decides) -/
def ConformsSemver (t : Types) (wi ce : NameMap ItemKind) (ci wexports : List (Str × ItemKind)) : Prop :=
  (∀ n k, (n, k) ∈ ci → ∃ e, wi.get n = some e ∧ SubK t e.promote k) ∧
  (∀ n e, (n, e) ∈ wexports → ∃ k, ce.get n = some k ∧ SubK t k e.promote)

/-- well-formedness of the inputs of the resolution-time check -/
def WFResolve (t : Types) (implicit explicit gi ge wexports : List (Str × ItemKind)) : Prop :=
  (∀ n k, (n, k) ∈ gi → WFK t k ∧ ∀ e, lookR implicit explicit n = some e → WFK t e.promote) ∧
  (∀ n e, (n, e) ∈ wexports → WFK t e.promote ∧ ∀ k, amGet ge n = some k → WFK t k)

theorem memoSound_start (t : Types) : MemoSound (oneColl t) ((({} : Checker).invert).2).cache := by
  intro _ _ _ _ _ _ h; simp [Checker.invert] at h

/-- **`resolve_target_sound` and completeness**: the resolution-time check succeeds exactly when
the composition conforms (exact names). -/
theorem resolve_target_iff_conforms (t : Types) (world : Nat) (w : World) (implicit gi ge : List (Str × ItemKind))
    (hw : t.worlds[world]? = some w) (hi : implicitImported t w = some implicit)
    (hwf : WFResolve t implicit w.imports gi ge w.exports) :
    resolveValidateTarget t world gi ge = .ok ↔ ConformsExact t implicit w.imports gi ge w.exports := by
  simp only [resolveValidateTarget, hw, hi]
  have hI := resolveImports_spec t implicit w.imports gi (({} : Checker).invert).2 (memoSound_start t) hwf.1
  cases hr : resolveImports t implicit w.imports (({} : Checker).invert).2 gi with
  | mk v c1 =>
    rw [hr] at hI
    cases v with
    | ok =>
      have hk : c1.kinds = (({} : Checker).invert).2.kinds := hI.2.2 rfl
      have hrev : c1.revert = some { c1 with kinds := [] } := by
        simp [Checker.revert, hk, Checker.invert, Checker.kind, Variance.flip]
      simp only [hrev]
      have hE := resolveExports_spec t ge w.exports { c1 with kinds := [] } hI.2.1 hwf.2
      rw [hE.1]
      exact ⟨fun h => ⟨hI.1.1 rfl, h⟩, fun h => h.2⟩
    | importNotInTarget n =>
      simp only
      exact ⟨fun h => (by cases h), fun h => by have := hI.1.2 h.1; cases this⟩
    | targetMismatch i n m =>
      simp only
      exact ⟨fun h => (by cases h), fun h => by have := hI.1.2 h.1; cases this⟩
    | missingTargetExport n k =>
      simp only
      exact ⟨fun h => (by cases h), fun h => by have := hI.1.2 h.1; cases this⟩
    | panic s =>
      simp only
      exact ⟨fun h => (by cases h), fun h => by have := hI.1.2 h.1; cases this⟩

theorem resolve_target_sound (t : Types) (world : Nat) (w : World) (implicit gi ge : List (Str × ItemKind))
    (hw : t.worlds[world]? = some w) (hi : implicitImported t w = some implicit)
    (hwf : WFResolve t implicit w.imports gi ge w.exports)
    (hok : resolveValidateTarget t world gi ge = .ok) :
    ConformsExact t implicit w.imports gi ge w.exports :=
  (resolve_target_iff_conforms t world w implicit gi ge hw hi hwf).1 hok

/-- **`diagnostic_classification`**: each failure variant names a real non-conformance of its kind
— an import outside the world, a missing export, or a type mismatch of that import / export —
and the check never panics on well-formed input. -/
theorem diagnostic_classification (t : Types) (world : Nat) (w : World) (implicit gi ge : List (Str × ItemKind))
    (hw : t.worlds[world]? = some w) (hi : implicitImported t w = some implicit)
    (hwf : WFResolve t implicit w.imports gi ge w.exports) :
    (∀ n, resolveValidateTarget t world gi ge = .importNotInTarget n →
      ∃ k, (n, k) ∈ gi ∧ lookR implicit w.imports n = none) ∧
    (∀ n kd, resolveValidateTarget t world gi ge = .missingTargetExport n kd →
      ∃ e, (n, e) ∈ w.exports ∧ amGet ge n = none) ∧
    (∀ n m, resolveValidateTarget t world gi ge = .targetMismatch true n m →
      ∃ k e, (n, k) ∈ gi ∧ lookR implicit w.imports n = some e ∧ ¬ SubK t e.promote k) ∧
    (∀ n m, resolveValidateTarget t world gi ge = .targetMismatch false n m →
      ∃ e k, (n, e) ∈ w.exports ∧ amGet ge n = some k ∧ ¬ SubK t k e.promote) ∧
    (∀ s, resolveValidateTarget t world gi ge ≠ .panic s) := by
  simp only [resolveValidateTarget, hw, hi]
  have hI := resolveImports_spec t implicit w.imports gi (({} : Checker).invert).2 (memoSound_start t) hwf.1
  have hD := resolveImports_diag t implicit w.imports gi (({} : Checker).invert).2 (memoSound_start t) hwf.1
  cases hr : resolveImports t implicit w.imports (({} : Checker).invert).2 gi with
  | mk v c1 =>
    rw [hr] at hI hD
    cases v with
    | ok =>
      have hk : c1.kinds = (({} : Checker).invert).2.kinds := hI.2.2 rfl
      have hrev : c1.revert = some { c1 with kinds := [] } := by
        simp [Checker.revert, hk, Checker.invert, Checker.kind, Variance.flip]
      simp only [hrev]
      have hE := resolveExports_diag t ge w.exports { c1 with kinds := [] } hI.2.1 hwf.2
      refine ⟨fun n h => absurd h (hE.2.2.1 n), hE.1, fun n m h => ?_, fun n m h => ?_, hE.2.2.2⟩
      · have := (hE.2.1 true n m h).1; cases this
      · obtain ⟨_, e, k, he, hk', hns⟩ := hE.2.1 false n m h
        exact ⟨e, k, he, hk', hns⟩
    | importNotInTarget n =>
      simp only
      refine ⟨fun n' h => ?_, fun n' kd h => (by cases h), fun n' m h => (by cases h), fun n' m h => (by cases h), fun s h => (by cases h)⟩
      cases h; exact hD.1 n rfl
    | targetMismatch i n m =>
      simp only
      obtain ⟨hi', k, e, hk, he, hns⟩ := hD.2.1 i n m rfl
      subst hi'
      refine ⟨fun n' h => (by cases h), fun n' kd h => (by cases h), fun n' m' h => ?_, fun n' m' h => (by cases h), fun s h => (by cases h)⟩
      cases h; exact ⟨k, e, hk, he, hns⟩
    | missingTargetExport n k => exact absurd rfl (hD.2.2.1 n k)
    | panic s => exact absurd rfl (hD.2.2.2 s)

/-- **`binary_target_iff_conforms`**: whenever the stand-alone check returns a report, the report
is empty exactly when the component conforms under semver-aware name lookup. -/
theorem binary_target_iff_conforms (t : Types) (w : World) (implicit ci ce : List (Str × ItemKind)) (rep : Report)
    (hi : implicitImported t w = some implicit)
    (hwfi : ∀ n k, (n, k) ∈ ci → WFK t k ∧ ∀ e, (allImports implicit w.imports).get n = some e → WFK t e.promote)
    (hwfe : ∀ n e, (n, e) ∈ w.exports → WFK t e.promote ∧ ∀ k, (nameMapOf ce).get n = some k → WFK t k)
    (hrep : binaryValidateLists t w ci ce = some rep) :
    rep.isOk = true ↔ ConformsSemver t (allImports implicit w.imports) (nameMapOf ce) ci w.exports := by
  simp only [binaryValidateLists, hi] at hrep
  cases h1 : binaryImports t (allImports implicit w.imports) (({} : Checker).invert).2 {} ci with
  | none => simp [h1] at hrep
  | some p =>
    obtain ⟨r1, c1⟩ := p
    simp only [h1] at hrep
    have hI := binaryImports_spec t _ ci _ {} (memoSound_start t) hwfi r1 c1 h1
    cases hrev : c1.revert with
    | none => simp [hrev] at hrep
    | some c2 =>
      simp only [hrev] at hrep
      cases h2 : binaryExports t (nameMapOf ce) c2 r1 w.exports with
      | none => simp [h2] at hrep
      | some q =>
        obtain ⟨r2, c3⟩ := q
        simp only [h2, Option.map_some, Option.some.injEq] at hrep
        subst hrep
        have hc2 : MemoSound (oneColl t) c2.cache := by
          simp only [Checker.revert] at hrev
          split at hrev
          · cases hrev
          · cases hrev; exact hI.1
        have hE := binaryExports_spec t _ w.exports c2 r1 hc2 hwfe r2 c3 h2
        rw [hE.2, hI.2]
        simp only [ConformsSemver]
        constructor
        · rintro ⟨⟨_, h1'⟩, h2'⟩; exact ⟨h1', h2'⟩
        · rintro ⟨h1', h2'⟩; exact ⟨⟨rfl, h1'⟩, h2'⟩

/-- **`resolve_ok_implies_binary_ok`** (DESIGN §10 row 15, decided): if the resolution-time check
accepts, the stand-alone check on the same world and the same import/export lists reports
nothing — provided the semver-aware maps return the exact-name entry whenever there is one
(`NameMap::get` looks the exact name up first; the hypotheses say that the last entry inserted
under a name is the one the exact lookup of the resolver sees, i.e. names are not declared twice
with different kinds). -/
theorem resolve_ok_implies_binary_ok (t : Types) (world : Nat) (w : World) (implicit gi ge : List (Str × ItemKind))
    (rep : Report)
    (hw : t.worlds[world]? = some w) (hi : implicitImported t w = some implicit)
    (hwf : WFResolve t implicit w.imports gi ge w.exports)
    (hexactI : ∀ n e, lookR implicit w.imports n = some e → (allImports implicit w.imports).get n = some e)
    (hexactE : ∀ n k, amGet ge n = some k → (nameMapOf ge).get n = some k)
    (hwfi : ∀ n k, (n, k) ∈ gi → WFK t k ∧ ∀ e, (allImports implicit w.imports).get n = some e → WFK t e.promote)
    (hwfe : ∀ n e, (n, e) ∈ w.exports → WFK t e.promote ∧ ∀ k, (nameMapOf ge).get n = some k → WFK t k)
    (hok : resolveValidateTarget t world gi ge = .ok)
    (hrep : binaryValidateLists t w gi ge = some rep) :
    rep.isOk = true := by
  have hc := resolve_target_sound t world w implicit gi ge hw hi hwf hok
  rw [binary_target_iff_conforms t w implicit gi ge rep hi hwfi hwfe hrep]
  refine ⟨fun n k hmem => ?_, fun n e hmem => ?_⟩
  · obtain ⟨e, he, hs⟩ := hc.1 n k hmem
    exact ⟨e, hexactI n e he, hs⟩
  · obtain ⟨k, hk, hs⟩ := hc.2 n e hmem
    exact ⟨k, hexactE n k hk, hs⟩

/-- the same with the `NameMap` facts discharged: it suffices that names are unique inside the
implicit imports, the declared imports and the output's exports (true of every `IndexMap`), and
that a name which is both a used interface and a declared import has one kind. -/
theorem resolve_ok_implies_binary_ok_maps (t : Types) (world : Nat) (w : World) (implicit gi ge : List (Str × ItemKind))
    (rep : Report)
    (hw : t.worlds[world]? = some w) (hi : implicitImported t w = some implicit)
    (hwf : WFResolve t implicit w.imports gi ge w.exports)
    (hdi : keysDistinct implicit = true) (hde : keysDistinct w.imports = true) (hdg : keysDistinct ge = true)
    (hagree : ∀ n a b, amGet implicit n = some a → amGet w.imports n = some b → a = b)
    (hwfi : ∀ n k, (n, k) ∈ gi → WFK t k ∧ ∀ e, (allImports implicit w.imports).get n = some e → WFK t e.promote)
    (hwfe : ∀ n e, (n, e) ∈ w.exports → WFK t e.promote ∧ ∀ k, (nameMapOf ge).get n = some k → WFK t k)
    (hok : resolveValidateTarget t world gi ge = .ok)
    (hrep : binaryValidateLists t w gi ge = some rep) :
    rep.isOk = true :=
  resolve_ok_implies_binary_ok t world w implicit gi ge rep hw hi hwf
    (fun n e h => allImports_get_exact implicit w.imports hdi hde hagree n e h)
    (fun n k h => nameMapOf_get_exact ge hdg n k h) hwfi hwfe hok hrep

/-! ### concrete witnesses -/

/-- world `w { import a: func(); import p:q/i@0.2.1: instance{f,g}; export run: func() }`,
composition importing `a` and `p:q/i@0.2.0: instance{f}` and exporting `run` and `extra` -/
def exT : Types :=
  { uid := 1, funcs := [{}],
    interfaces := [{ exports := [(['f'], .func 0), (['g'], .func 0)] }, { exports := [(['f'], .func 0)] }],
    worlds := [{ imports := [(['a'], .func 0), ("p:q/i@0.2.1".toList, .instance 0)], exports := [("run".toList, .func 0)] }] }

/-- a conforming composition is accepted by both checks … -/
example : resolveValidateTarget exT 0 [(['a'], .func 0), ("p:q/i@0.2.1".toList, .instance 1)]
      [("run".toList, .func 0), ("extra".toList, .func 0)] = .ok ∧
    (binaryValidateLists exT (exT.worlds[0]?.getD {}) [(['a'], .func 0), ("p:q/i@0.2.1".toList, .instance 1)]
      [("run".toList, .func 0), ("extra".toList, .func 0)]).map Report.isOk = some true := by
  constructor <;> decide +kernel

/-- … a semver-compatible import name is accepted only by the stand-alone check (row 15: the
resolution-time check is the stricter one, so no successful resolution is rejected later) -/
example : resolveValidateTarget exT 0 [("p:q/i@0.2.0".toList, .instance 1)] [("run".toList, .func 0)]
      = .importNotInTarget "p:q/i@0.2.0".toList ∧
    (binaryValidateLists exT (exT.worlds[0]?.getD {}) [("p:q/i@0.2.0".toList, .instance 1)]
      [("run".toList, .func 0)]).map Report.isOk = some true := by
  constructor <;> decide +kernel

/-- the three diagnostics -/
example : resolveValidateTarget exT 0 [(['b'], .func 0)] [("run".toList, .func 0)] = .importNotInTarget ['b'] ∧
    resolveValidateTarget exT 0 [] [] = .missingTargetExport "run".toList "function" ∧
    (match resolveValidateTarget exT 0 [("p:q/i@0.2.1".toList, .instance 1)] [("run".toList, .instance 1)] with
     | .targetMismatch false n _ => n == "run".toList
     | _ => false) = true := by
  refine ⟨?_, ?_, ?_⟩ <;> decide +kernel

end Wac.Props.C11
