import WacModel.Targets
import WacModel.Spec.Targets
namespace Wac.Props.C11
open Wac Wac.Spec

/-- placeholder while the pipeline is brought up -/
theorem conforms_empty : conforms { imports := [], exports := [] } { imports := [], exports := [] } = true := by decide

end Wac.Props.C11
