import WacModel.Parser
import WacModel.Spec.Grammar
/-
  C12 — the parser accepts exactly the documented grammar and builds the intended tree.
  (first stage: table obligations and the screen; soundness/completeness follow)
-/
namespace Wac.Props.C12
open Wac Wac.Lex Wac.Parse

/-- the generated keyword/symbol/regex tables are the documented ones -/
theorem tokens_eq_spec :
    Generated.keywords = Spec.Grammar.keywords.map (fun k => (Spec.Grammar.keywordVariant k, k)) ∧
    Generated.symbols = Spec.Grammar.symbols ∧
    Generated.regexTokens = Spec.Grammar.regexTokens ∧
    Generated.subpatterns = Spec.Grammar.subpatterns ∧
    Generated.callbackTokens = Spec.Grammar.callbackTokens ∧
    Generated.skipPatterns = Spec.Grammar.skipPatterns := by
  decide

/-- every generated table entry names a token of the model (nothing is dropped by `tableOf`) -/
theorem tables_total :
    keywordTable.length = Generated.keywords.length ∧ symbolTable.length = Generated.symbols.length ∧
    Generated.tokenVariants = Token.all.map Token.name := by
  decide

/-- the generated code-point lists are the documented ones -/
theorem screen_eq_spec :
    Generated.allowedControls = Spec.Grammar.allowedControls ∧
    Generated.bidiOverrides = Spec.Grammar.bidiOverrides ∧
    Generated.discouraged = Spec.Grammar.deprecated ∧
    Generated.controlGuard = true ∧
    Generated.screenArmOrder = ["allowed", "bidi", "discouraged", "control", "default"] := by
  decide

end Wac.Props.C12
