import WacModel.Parser
import WacModel.Spec.Grammar
import WacProofs.Lemmas.Screen
import WacProofs.Lemmas.ParserBasic
/-
  C12 — the parser accepts exactly the documented grammar and builds the intended tree.
  (first stage: table obligations and the screen; soundness/completeness follow)
-/
namespace Wac.Props.C12
open Wac Wac.Lex Wac.Parse

/-- the generated keyword/symbol/regex tables are the documented ones -/
theorem tokens_eq_spec :
    Generated.keywords = Spec.Grammar.keywords.map (fun k => (Spec.Grammar.keywordVariant k, k)) ∧
    Generated.symbols = Spec.Grammar.symbols ∧
    Generated.regexTokens = Spec.Grammar.regexTokens ∧
    Generated.subpatterns = Spec.Grammar.subpatterns ∧
    Generated.callbackTokens = Spec.Grammar.callbackTokens ∧
    Generated.skipPatterns = Spec.Grammar.skipPatterns := by
  decide

/-- every generated table entry names a token of the model (nothing is dropped by `tableOf`) -/
theorem tables_total :
    keywordTable.length = Generated.keywords.length ∧ symbolTable.length = Generated.symbols.length ∧
    Generated.tokenVariants = Token.all.map Token.name := by
  decide

/-- the generated code-point lists are the documented ones -/
theorem screen_eq_spec :
    Generated.allowedControls = Spec.Grammar.allowedControls ∧
    Generated.bidiOverrides = Spec.Grammar.bidiOverrides ∧
    Generated.discouraged = Spec.Grammar.deprecated ∧
    Generated.controlGuard = true ∧
    Generated.screenArmOrder = ["allowed", "bidi", "discouraged", "control", "default"] := by
  decide


/-- C12 "any text containing a bidirectional-override, deprecated or control code point other
than tab, CR and LF, wherever it occurs, is rejected": the model rejects exactly the texts
containing a forbidden code point (specification D7) before lexing anything, with the
diagnostic on the first such code point (byte offset and byte length of that character). -/
theorem screen_rejects_iff (src : Str) :
    src.any Spec.Grammar.forbiddenChar = true ↔
      ∃ e pre c post, src = pre ++ c :: post ∧ pre.any Spec.Grammar.forbiddenChar = false ∧
        Spec.Grammar.forbiddenChar c = true ∧
        parseDocument src = .error (.Lexer e ⟨utf8Len pre, c.utf8Size⟩) := by
  have hs := Wac.Lemmas.Screen.go_spec src 0
  constructor
  · intro h
    cases hd : detectInvalidInput.go 0 src with
    | none => have := hs.1.mp hd; simp [h] at this
    | some p =>
      obtain ⟨e, sp⟩ := p
      obtain ⟨pre, c, post, h1, h2, h3, h4⟩ := hs.2 e sp hd
      refine ⟨e, pre, c, post, h1, h2, ?_, ?_⟩
      · cases hf : Spec.Grammar.forbiddenChar c with
        | true => rfl
        | false => have := (Wac.Lemmas.Screen.screenChar_none_iff c).mpr hf; simp [h3] at this
      · simp [parseDocument, detectInvalidInput, hd, h4]
  · rintro ⟨e, pre, c, post, h1, _, h3, _⟩
    simp [h1, h3]

/-- … and a text without such a code point is never rejected by the screen: it goes to the lexer -/
theorem screen_passes (src : Str) (h : src.any Spec.Grammar.forbiddenChar = false) :
    parseDocument src = parseTokens (PState.init src) := by
  have := (Wac.Lemmas.Screen.go_spec src 0).1.mpr h
  simp [parseDocument, detectInvalidInput, this]

example : (match parseDocument "package a:b; // \u202e".toList with
    | .error (.Lexer (.DisallowedBidirectionalOverride c) ⟨16, 3⟩) => c.toNat == 0x202e
    | _ => false) = true := by
  decide

/-- C12 "non-empty record/variant/enum/flags/tuple bodies": whatever the parser returns for one
of these constructs has at least one field / case / flag / element -/
theorem nonempty_bodies :
    (∀ fuel st d st', parseRecordDecl fuel st = .ok (d, st') → d.fields ≠ []) ∧
    (∀ fuel st d st', parseVariantDecl fuel st = .ok (d, st') → d.cases ≠ []) ∧
    (∀ fuel st d st', parseFlagsDecl fuel st = .ok (d, st') → d.flags ≠ []) ∧
    (∀ fuel st d st', parseEnumDecl fuel st = .ok (d, st') → d.cases ≠ []) ∧
    (∀ fuel st ts sp st', parseType fuel st = .ok (.Tuple ts sp, st') → ts ≠ []) :=
  ⟨fun _ _ _ _ h => Wac.Lemmas.ParserBasic.record_nonempty h,
   fun _ _ _ _ h => Wac.Lemmas.ParserBasic.variant_nonempty h,
   fun _ _ _ _ h => Wac.Lemmas.ParserBasic.flags_nonempty h,
   fun _ _ _ _ h => Wac.Lemmas.ParserBasic.enum_nonempty h,
   fun _ _ _ _ _ h => Wac.Lemmas.ParserBasic.tuple_nonempty h⟩

/-- the five bodies are really rejected when empty (with the diagnostic on the closing token) -/
example : (match parseDocument "package a:b; record r {}".toList with
    | .error (.EmptyType "record" "field" ⟨23, 1⟩) => true
    | _ => false) = true := by decide
example : (match parseDocument "package a:b; type t = tuple<>;".toList with
    | .error (.ExpectedMultiple _ 19 (some .CloseAngle) ⟨28, 1⟩) => true
    | _ => false) = true := by decide
/-- … and accepted with one element -/
example : (match parseDocument "package a:b; record r { a: u8 }".toList with
    | .ok d => d.statements.length == 1
    | _ => false) = true := by decide

end Wac.Props.C12
