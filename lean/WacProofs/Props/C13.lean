import WacModel.Printer
import WacModel.Parser
/-
  C13 — print → re-parse round trip, idempotent printing (first stage).
-/
namespace Wac.Props.C13
open Wac Wac.Ast Wac.Print

/-- `newline` resets the indentation flag and `doIndent` is idempotent -/
theorem indent_idem (p : PS) : p.doIndent.doIndent = p.doIndent := by
  unfold PS.doIndent
  split <;> simp_all

end Wac.Props.C13
