import WacModel.Checker
import WacModel.Spec.Sub
namespace Wac.Props.C07
open Wac Wac.Spec

theorem subShared_nil : ∀ ea : Forest, subShared ea .nil = true
  | .nil => by simp [subShared]
  | .cons n t r => by simp [subShared, Forest.get, subShared_nil r]

/-- placeholder while the pipeline is brought up: the empty instance is a supertype of every instance -/
theorem sub_instance_nil (ea : Forest) : sub (.instance ea) (.instance .nil) = true := by
  simp [sub, Forest.namesIn, subShared_nil]

end Wac.Props.C07
