import WacProofs.Lemmas.C07Aux
/-
  C07 — argument type checking agrees with the component-model subtype relation.

  Model: `Wac.isSubtype` (WacModel/Checker.lean) = `SubtypeChecker::is_subtype` with memo and
  variance stack.  Specification: `Wac.Spec.sub` on the trees `Types.unfold` produces
  (WacModel/Spec/Sub.lean), validated against wasmparser on every run.
  Hypotheses common to the theorems: the kinds unfold (no dangling id, no cycle), names inside
  one instance / component / record … are distinct (`namesDistinct`, true of every `IndexMap`),
  and two collections with the same uid are the same collection.
-/
namespace Wac.Props.C07
open Wac Wac.Spec

/-- **Main correspondence (all kinds, any memo, any variance stack).**  With a sound memo the
checker answers `Ok` exactly when the name-only views of the two trees are in the subtype
relation; it never panics, keeps the memo sound and restores the variance stack on success. -/
theorem check_iff_subNames (W : Colls) (n : Nat) (c : Checker) (at_ bt : Types) (a b : ItemKind) (ta tb : Tree)
    (hat : W.mem at_) (hbt : W.mem bt) (hm : MemoSound W c.cache)
    (ha : at_.unfoldKind n a = some ta) (hb : bt.unfoldKind n b = some tb)
    (hnda : ta.namesDistinct = true) (hndb : tb.namesDistinct = true) :
    ((isSubtype n c at_ a bt b).1 = .ok ↔ subNames ta tb = true) ∧
    (∀ s, (isSubtype n c at_ a bt b).1 ≠ .panic s) ∧
    MemoSound W (isSubtype n c at_ a bt b).2.cache ∧
    ((isSubtype n c at_ a bt b).1 = .ok → (isSubtype n c at_ a bt b).2.kinds = c.kinds) := by
  have h := isSubtype_spec W n at_ bt hat hbt c a b ta tb hm ha hb hnda hndb
  exact ⟨h.1.1, h.1.2, h.2.1, h.2.2⟩

/-- **C07, first sentence** (`check_iff_sub`): for resource-free kinds a fresh check accepts
exactly when the unfolded types are in the component-model subtype relation. -/
theorem check_iff_sub (at_ bt : Types) (hu : at_.uid = bt.uid → at_ = bt) (a b : ItemKind) (ta tb : Tree)
    (ha : at_.unfold a = some ta) (hb : bt.unfold b = some tb)
    (hnda : ta.namesDistinct = true) (hndb : tb.namesDistinct = true)
    (hra : ta.resourceFree = true) (hrb : tb.resourceFree = true) :
    checkFresh at_ a bt b = .ok ↔ sub ta tb = true := by
  have ha' := unfoldKind_mono at_ (Nat.le_add_right at_.fuel bt.fuel) a ta ha
  have hb' := unfoldKind_mono bt (Nat.le_add_left bt.fuel at_.fuel) b tb hb
  have h := check_iff_subNames (pairColls at_ bt hu) (checkFuel at_ bt) {} at_ bt a b ta tb (Or.inl rfl) (Or.inr rfl)
    (memoSound_nil _) ha' hb' hnda hndb
  rw [← subNames_eq_sub ta tb hra hrb]
  exact h.1

example : checkFresh { uid := 1, interfaces := [{ exports := [(['f'], .func 0), (['g'], .func 0)] }], funcs := [{}] } (.instance 0)
    { uid := 2, interfaces := [{ exports := [(['f'], .func 0)] }], funcs := [{}] } (.instance 0) = .ok := by decide

/-- the checker never panics on well-formed input (fresh check) -/
theorem check_no_panic (at_ bt : Types) (hu : at_.uid = bt.uid → at_ = bt) (a b : ItemKind) (ta tb : Tree)
    (ha : at_.unfold a = some ta) (hb : bt.unfold b = some tb)
    (hnda : ta.namesDistinct = true) (hndb : tb.namesDistinct = true) (s : String) :
    checkFresh at_ a bt b ≠ .panic s := by
  have ha' := unfoldKind_mono at_ (Nat.le_add_right at_.fuel bt.fuel) a ta ha
  have hb' := unfoldKind_mono bt (Nat.le_add_left bt.fuel at_.fuel) b tb hb
  exact (check_iff_subNames (pairColls at_ bt hu) (checkFuel at_ bt) {} at_ bt a b ta tb (Or.inl rfl) (Or.inr rfl)
    (memoSound_nil _) ha' hb' hnda hndb).2.1 s

/-- **Reflexive across independently decoded copies**: two kinds (of the same or of different
collections) whose trees agree up to resource identity are accepted in both directions. -/
theorem check_refl_copies (at_ bt : Types) (hu : at_.uid = bt.uid → at_ = bt) (a b : ItemKind) (ta tb : Tree)
    (ha : at_.unfold a = some ta) (hb : bt.unfold b = some tb)
    (hnda : ta.namesDistinct = true) (hndb : tb.namesDistinct = true)
    (hcopy : eraseRes ta = eraseRes tb) :
    checkFresh at_ a bt b = .ok := by
  have ha' := unfoldKind_mono at_ (Nat.le_add_right at_.fuel bt.fuel) a ta ha
  have hb' := unfoldKind_mono bt (Nat.le_add_left bt.fuel at_.fuel) b tb hb
  have h := check_iff_subNames (pairColls at_ bt hu) (checkFuel at_ bt) {} at_ bt a b ta tb (Or.inl rfl) (Or.inr rfl)
    (memoSound_nil _) ha' hb' hnda hndb
  refine h.1.2 ?_
  simp only [subNames, hcopy]
  exact sub_refl _ (by rw [nd_eraseRes]; exact hndb)

/-- the specification is reflexive and transitive (on trees with distinct names) -/
theorem sub_refl (t : Tree) (h : t.namesDistinct = true) : sub t t = true := Wac.Spec.sub_refl t h

theorem sub_trans (a b c : Tree) (ha : a.namesDistinct = true) (hb : b.namesDistinct = true)
    (hc : c.namesDistinct = true) (h1 : sub a b = true) (h2 : sub b c = true) : sub a c = true :=
  sub_trans' a b c ha hb hc h1 h2

/-- **Transitive**: verdicts of the checker compose (any three collections of one family,
any sound memos, any variance stacks). -/
theorem check_trans (W : Colls) (n : Nat) (c1 c2 c3 : Checker) (t1 t2 t3 : Types) (a b c : ItemKind) (x y z : Tree)
    (h1 : W.mem t1) (h2 : W.mem t2) (h3 : W.mem t3)
    (m1 : MemoSound W c1.cache) (m2 : MemoSound W c2.cache) (m3 : MemoSound W c3.cache)
    (ux : t1.unfoldKind n a = some x) (uy : t2.unfoldKind n b = some y) (uz : t3.unfoldKind n c = some z)
    (nx : x.namesDistinct = true) (ny : y.namesDistinct = true) (nz : z.namesDistinct = true)
    (hab : (isSubtype n c1 t1 a t2 b).1 = .ok) (hbc : (isSubtype n c2 t2 b t3 c).1 = .ok) :
    (isSubtype n c3 t1 a t3 c).1 = .ok := by
  have s1 := (check_iff_subNames W n c1 t1 t2 a b x y h1 h2 m1 ux uy nx ny).1.1 hab
  have s2 := (check_iff_subNames W n c2 t2 t3 b c y z h2 h3 m2 uy uz ny nz).1.1 hbc
  refine (check_iff_subNames W n c3 t1 t3 a c x z h1 h3 m3 ux uz nx nz).1.2 ?_
  simp only [subNames] at s1 s2 ⊢
  exact sub_trans' _ _ _ (by rw [nd_eraseRes]; exact nx) (by rw [nd_eraseRes]; exact ny)
    (by rw [nd_eraseRes]; exact nz) s1 s2

/-- **Never changed by earlier checks** (`memo_sound`): with any sound memo the verdict is the
verdict with the empty memo, and the memo stays sound. -/
theorem memo_sound (W : Colls) (n : Nat) (c : Checker) (at_ bt : Types) (a b : ItemKind) (ta tb : Tree)
    (hat : W.mem at_) (hbt : W.mem bt) (hm : MemoSound W c.cache)
    (ha : at_.unfoldKind n a = some ta) (hb : bt.unfoldKind n b = some tb)
    (hnda : ta.namesDistinct = true) (hndb : tb.namesDistinct = true) :
    ((isSubtype n c at_ a bt b).1 = .ok ↔ (isSubtype n {} at_ a bt b).1 = .ok) ∧
    MemoSound W (isSubtype n c at_ a bt b).2.cache := by
  have h1 := check_iff_subNames W n c at_ bt a b ta tb hat hbt hm ha hb hnda hndb
  have h2 := check_iff_subNames W n {} at_ bt a b ta tb hat hbt (memoSound_nil W) ha hb hnda hndb
  exact ⟨h1.1.trans h2.1.symm, h1.2.2.1⟩

/-- a query of a sequence of checks on one shared checker -/
structure Query where
  at_ : Types
  a : ItemKind
  bt : Types
  b : ItemKind

/-- the checker after a sequence of checks (whatever their verdicts) -/
def runSeq (n : Nat) : Checker → List Query → Checker
  | c, [] => c
  | c, q :: qs => runSeq n (isSubtype n c q.at_ q.a q.bt q.b).2 qs

def Query.wf (W : Colls) (n : Nat) (q : Query) : Prop :=
  W.mem q.at_ ∧ W.mem q.bt ∧ ∃ ta tb, q.at_.unfoldKind n q.a = some ta ∧ q.bt.unfoldKind n q.b = some tb ∧
    ta.namesDistinct = true ∧ tb.namesDistinct = true

/-- **For all orders of preceding checks**: the memo reached by any sequence of checks from a
sound memo is sound — so by `memo_sound` no history of checks changes a later verdict. -/
theorem memo_sound_any_order (W : Colls) (n : Nat) : ∀ (qs : List Query) (c : Checker),
    MemoSound W c.cache → (∀ q ∈ qs, q.wf W n) → MemoSound W (runSeq n c qs).cache
  | [], c, hm, _ => hm
  | q :: qs, c, hm, hq => by
    obtain ⟨h1, h2, ta, tb, ua, ub, na, nb⟩ := hq q (List.mem_cons_self)
    have := (check_iff_subNames W n c q.at_ q.bt q.a q.b ta tb h1 h2 hm ua ub na nb).2.2.1
    exact memo_sound_any_order W n qs _ this (fun q' hq' => hq q' (List.mem_cons_of_mem _ hq'))

/-- **The variance stack only selects wording** (`variance_only_messages`): two checkers that
differ only in the stack return the same verdict. -/
theorem variance_only_messages (W : Colls) (n : Nat) (c : Checker) (ks : List Variance) (at_ bt : Types)
    (a b : ItemKind) (ta tb : Tree)
    (hat : W.mem at_) (hbt : W.mem bt) (hm : MemoSound W c.cache)
    (ha : at_.unfoldKind n a = some ta) (hb : bt.unfoldKind n b = some tb)
    (hnda : ta.namesDistinct = true) (hndb : tb.namesDistinct = true) :
    (isSubtype n c at_ a bt b).1 = .ok ↔ (isSubtype n { c with kinds := ks } at_ a bt b).1 = .ok := by
  have h1 := check_iff_subNames W n c at_ bt a b ta tb hat hbt hm ha hb hnda hndb
  have h2 := check_iff_subNames W n { c with kinds := ks } at_ bt a b ta tb hat hbt hm ha hb hnda hndb
  exact h1.1.trans h2.1.symm

/-- the wording does depend on the stack (non-vacuity of the previous theorem) -/
example :
    (isSubtype 5 {} { uid := 1 } (.value (.prim .u8)) { uid := 2 } (.value (.prim .string))).1 = .err "expected string, found u8" ∧
    (isSubtype 5 { kinds := [.contravariant] } { uid := 1 } (.value (.prim .u8)) { uid := 2 } (.value (.prim .string))).1
      = .err "expected u8, found string" := by decide

/-! ### concrete witnesses (non-vacuity of the hypotheses above) -/

/-- collection 1: `f: func(a: list<u8>) -> option<string>` through an alias, an instance `{f, g}` -/
def exA : Types :=
  { uid := 1,
    defined := [.list (.prim .u8), .alias (.defined 0), .option (.prim .string)],
    funcs := [{ params := [(['a'], .defined 1)], result := some (.defined 2) }],
    interfaces := [{ exports := [(['f'], .func 0), (['g'], .func 0)] }] }

/-- collection 2: an independently built copy without the alias, an instance `{f}` -/
def exB : Types :=
  { uid := 2,
    defined := [.option (.prim .string), .list (.prim .u8)],
    funcs := [{ params := [(['a'], .defined 1)], result := some (.defined 0) }],
    interfaces := [{ exports := [(['f'], .func 0)] }] }

def exTa : Tree := (exA.unfold (.instance 0)).getD .none
def exTb : Tree := (exB.unfold (.instance 0)).getD .none

/-- hypotheses of `check_iff_sub` / `check_no_panic` / `check_refl_copies` are satisfiable, and the
conclusion is the non-trivial `Ok` (width subtyping across two collections, through an alias) -/
example : exA.unfold (.instance 0) = some exTa ∧ exB.unfold (.instance 0) = some exTb ∧
    exTa.namesDistinct = true ∧ exTb.namesDistinct = true ∧ exTa.resourceFree = true ∧ exTb.resourceFree = true ∧
    sub exTa exTb = true ∧ sub exTb exTa = false ∧ checkFresh exA (.instance 0) exB (.instance 0) = .ok := by
  decide

example : ∃ ta tb, exA.unfold (.func 0) = some ta ∧ exB.unfold (.func 0) = some tb ∧ eraseRes ta = eraseRes tb :=
  ⟨(exA.unfold (.func 0)).getD .none, (exB.unfold (.func 0)).getD .none, by decide, by decide, by decide⟩

/-- a sound non-empty memo exists and is used: after checking `f <: f` the pair is in the memo -/
example : (isSubtype 9 {} exA (.func 0) exB (.func 0)).2.cache.length = 1 := by decide

/-! ### resources -/

/-- **With resources** (`resource_single_provider`, PARTIAL).  Full statement: if every export
of one provider that matches an import by name is accepted, the resulting instantiation
validates (resource identities line up).  What the checker compares is the *name* of the
alias-resolved resource (`subNames`); proved here: for two resource leaves whose names identify
them (one provider: names are injective in its scope) the name check is the identity check.
The "instantiation validates" conclusion is discharged by the validator oracle in C01/C10. -/
theorem resource_single_provider_partial (r s : Res) (hinj : r.name = s.name → r = s) :
    subNames (.type (.resource r)) (.type (.resource s)) = sub (.type (.resource r)) (.type (.resource s)) := by
  rw [subNames_type, Bool.eq_iff_iff, subNames_resource]
  simp only [sub, beq_iff_eq, Tree.resource.injEq]
  constructor
  · intro h; exact hinj (by simpa [eraseR] using h)
  · rintro rfl; rfl

/-- without that hypothesis identity is *not* checked: two distinct resources of one collection
that share a name are accepted by the checker although they are not the same resource
(the reference validator rejects: resources are compared by identity) -/
theorem resource_names_not_identity_counterexample :
    ¬ (∀ (t : Types) (a b : ItemKind) (ta tb : Tree), t.unfold a = some ta → t.unfold b = some tb →
        (checkFresh t a t b = .ok ↔ sub ta tb = true)) := by
  intro h
  have := h { uid := 1, resources := [{ name := ['r'] }, { name := ['r'] }] }
    (.type (.resource 0)) (.type (.resource 1))
    (.type (.resource { uid := 1, idx := 0, name := ['r'] })) (.type (.resource { uid := 1, idx := 1, name := ['r'] }))
    (by decide) (by decide)
  revert this
  decide

end Wac.Props.C07
