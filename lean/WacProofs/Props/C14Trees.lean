import WacModel.Spec.TreeSpans
import WacProofs.Props.C14
import WacProofs.Lemmas.TreeSpansExpr
/-
  C14, spans inside parsed *trees* — "every source location carried by a tree node … lies within
  the source, on character boundaries".

  Specification: `WacModel/Spec/TreeSpans.lean` — the executable predicate `Document.spansIn src`
  (and one `X.spansIn` per node type): every `Span` field of every node lies inside `src` with both
  ends on character boundaries (`spanIn`, the executable form of `Wac.Props.C14.InSource`), and the
  span of a leaf is *exactly* the byte range of its spelling (identifier incl. `%`, string incl.
  the quotes, package name, package path; a doc comment's span is the byte range of a comment
  whose doc text is the `comment` field).

  Theorems (about the parser model, for every source text, no hypothesis):
    * `tree_spans_in_source` — whatever document `Document::parse` (model) returns satisfies
      `Document.spansIn`;
    * per node family, for any reachable lexer state (`TInv`, established by `init_tinv` and
      preserved by every parse function): `expr_spans`, `type_spans`, `statement_spans`,
      `interface_spans`, `world_spans`, `docs_spans`;
    * what the executable predicates mean: `spanIn_iff_inSource`, `ident_span_exact`,
      `string_span_exact`, `packageName_span_exact`, `packagePath_span_exact`, `doc_span_exact`,
      `expr_span_inSource`, `type_span_inSource`.
-/
namespace Wac.Props.C14Trees
open Wac Wac.Lex Wac.Parse Wac.Ast Wac.Lemmas Wac.Lemmas.LexSpans Wac.Lemmas.ParseSpans
open Wac.Lemmas.TreeSpans Wac.Spec.TreeSpans Wac.Props.C14

/-! ### what the executable predicates mean -/

/-- `isBoundary` is the boundary predicate of the C14 theorems -/
theorem isBoundary_iff_isBoundary (src : Str) (n : Nat) : isBoundary src n = true ↔ IsBoundary src n :=
  isBoundary_iff

/-- `spanIn` is `InSource` of the C14 theorems: inside the source, both ends on character boundaries -/
theorem spanIn_iff_inSource (src : Str) (sp : Span) : spanIn src sp = true ↔ InSource src sp := by
  rw [spanIn_iff]
  simp only [InSource, IsBoundary, isBoundary_iff]

example : spanIn "aé".toList ⟨1, 2⟩ = true ∧ spanIn "aé".toList ⟨1, 1⟩ = false ∧ spanIn "aé".toList ⟨3, 1⟩ = false := by
  decide

/-- an identifier's span is exactly the byte range of its source spelling -/
theorem ident_span_exact (src : Str) (i : Ident) :
    i.spansIn src = true ↔ ∃ pre post, src = pre ++ i.raw ++ post ∧ i.span = ⟨utf8Len pre, utf8Len i.raw⟩ := by
  simp only [Ident.spansIn, beq_iff_eq, textAt_iff, Slice]
  constructor
  · rintro ⟨pre, post, h1, h2, h3⟩; exact ⟨pre, post, h1, by cases hs : i.span; simp_all⟩
  · rintro ⟨pre, post, h1, h2⟩; exact ⟨pre, post, h1, by rw [h2], by rw [h2]⟩

/-- a string's span is exactly the byte range of the quoted literal -/
theorem string_span_exact (src : Str) (s : StringLit) :
    s.spansIn src = true ↔ ∃ pre post, src = pre ++ ('"' :: (s.value ++ ['"'])) ++ post ∧
      s.span = ⟨utf8Len pre, utf8Len ('"' :: (s.value ++ ['"']))⟩ := by
  simp only [StringLit.spansIn, beq_iff_eq, textAt_iff, Slice]
  constructor
  · rintro ⟨pre, post, h1, h2, h3⟩; exact ⟨pre, post, h1, by cases hs : s.span; simp_all⟩
  · rintro ⟨pre, post, h1, h2⟩; exact ⟨pre, post, h1, by rw [h2], by rw [h2]⟩

/-- a package name's span is exactly the byte range of the whole token (name and version) -/
theorem packageName_span_exact (src : Str) (p : PackageName) :
    p.spansIn src = true ↔ ∃ pre post, src = pre ++ p.string ++ post ∧ p.span = ⟨utf8Len pre, utf8Len p.string⟩ := by
  simp only [PackageName.spansIn, beq_iff_eq, textAt_iff, Slice]
  constructor
  · rintro ⟨pre, post, h1, h2, h3⟩; exact ⟨pre, post, h1, by cases hs : p.span; simp_all⟩
  · rintro ⟨pre, post, h1, h2⟩; exact ⟨pre, post, h1, by rw [h2], by rw [h2]⟩

/-- a package path's span is exactly the byte range of the whole token -/
theorem packagePath_span_exact (src : Str) (p : PackagePath) :
    p.spansIn src = true ↔ ∃ pre post, src = pre ++ p.string ++ post ∧ p.span = ⟨utf8Len pre, utf8Len p.string⟩ := by
  simp only [PackagePath.spansIn, beq_iff_eq, textAt_iff, Slice]
  constructor
  · rintro ⟨pre, post, h1, h2, h3⟩; exact ⟨pre, post, h1, by cases hs : p.span; simp_all⟩
  · rintro ⟨pre, post, h1, h2⟩; exact ⟨pre, post, h1, by rw [h2], by rw [h2]⟩

/-- a doc comment's span is exactly the byte range of a comment of the source whose doc text
(`Lexer::comments`) is the `comment` field -/
theorem doc_span_exact (src : Str) (d : DocComment) :
    d.spansIn src = true ↔ ∃ text pre post, src = pre ++ text ++ post ∧ d.span = ⟨utf8Len pre, utf8Len text⟩ ∧
      docText text = some d.comment := by
  constructor
  · intro h
    obtain ⟨text, ⟨pre, post, h1, h2, h3⟩, hd⟩ := spansIn_docOk h
    exact ⟨text, pre, post, h1, by cases hs : d.span; simp_all, hd⟩
  · rintro ⟨text, pre, post, h1, h2, hd⟩
    exact docOk_spansIn ⟨text, ⟨pre, post, h1, by rw [h2], by rw [h2]⟩, hd⟩

/-- the span of an expression node is inside the source on character boundaries -/
theorem expr_span_inSource (src : Str) (e : Expr) (h : e.spansIn src = true) : InSource src e.span := by
  cases e with
  | mk span primary postfixes =>
    simp only [Expr.spansIn, Bool.and_eq_true] at h
    exact (spanIn_iff_inSource src span).mp h.1.1

/-- the span of a type node (`Type::span`) is inside the source on character boundaries -/
theorem type_span_inSource (src : Str) (t : Ty) (h : t.spansIn src = true) : InSource src t.span := by
  apply (spanIn_iff_inSource src t.span).mp
  cases t <;> simp only [Ty.spansIn, Bool.and_eq_true] at h <;>
    first
      | exact h
      | exact h.2
      | exact ident_span_in h

/-! ### the main theorem -/

/-- C14 "every source location carried by a tree node lies within the source, on character
boundaries": for every source text, the document the model of `Document::parse` returns satisfies
`Document.spansIn` — every span of every node is in the source on character boundaries and every
leaf's span is the byte range of its spelling. -/
theorem tree_spans_in_source (src : Str) (d : Document) (h : parseDocument src = .ok d) :
    d.spansIn src = true := by
  unfold parseDocument at h
  split at h
  · cases h
  · exact parseTokens_tree h

/-- non-vacuity: a document with multi-byte characters in a line comment, a doc comment, a block
comment and string literals *before* the nodes -/
def sample : Str :=
  "// é\n/// dé\npackage a:b;\n/* ü */ import x as \"ñ\": func();\nlet y = new a:b { \"é\": x, ... }.z[\"ö\"];".toList

/-- … is accepted by the model (two statements, one doc comment on the package directive) … -/
theorem sample_parses : ∃ d, parseDocument sample = .ok d ∧ d.statements.length = 2 ∧ d.docs.length = 1 := by
  have h : (match parseDocument sample with
      | .ok d => d.statements.length == 2 && d.docs.length == 1
      | .error _ => false) = true := by decide +kernel
  generalize parseDocument sample = r at h ⊢
  cases r with
  | error e => cases h
  | ok d => exact ⟨d, rfl, by simpa using h⟩

/-- … so the theorem says something about it -/
example : ∃ d, parseDocument sample = .ok d ∧ d.spansIn sample = true := by
  obtain ⟨d, h, _⟩ := sample_parses
  exact ⟨d, h, tree_spans_in_source _ _ h⟩

/-- spans are byte positions: after `/* é */` (7 characters, 8 bytes) and `package a:b;` the expression
`x["ö"]` is characters 25‥30 but bytes 26‥32 -/
example : (match parseDocument "/* é */package a:b;let y=x[\"ö\"];".toList with
    | .ok d => d.statements.map (fun s => match s with
        | Statement.Let l => l.expr.span
        | _ => ⟨0, 0⟩) == [⟨26, 7⟩]
    | .error _ => false) = true := by decide +kernel

/-- the predicate has teeth: a span that is shifted by one byte, that splits a character, or that
leaves the source is rejected -/
example :
    Ident.spansIn "é x".toList ⟨"x".toList, false, ⟨3, 1⟩⟩ = true ∧
    Ident.spansIn "é x".toList ⟨"x".toList, false, ⟨2, 1⟩⟩ = false ∧
    Ident.spansIn "é x".toList ⟨"x".toList, false, ⟨1, 3⟩⟩ = false ∧
    Ident.spansIn "é x".toList ⟨"x".toList, false, ⟨3, 2⟩⟩ = false ∧
    Ident.spansIn "é %x".toList ⟨"x".toList, true, ⟨3, 2⟩⟩ = true ∧
    StringLit.spansIn "\"ñ\"".toList ⟨"ñ".toList, ⟨0, 4⟩⟩ = true ∧
    StringLit.spansIn "\"ñ\"".toList ⟨"ñ".toList, ⟨1, 2⟩⟩ = false ∧
    Ty.spansIn "é u8".toList (.U8 ⟨3, 2⟩) = true ∧ Ty.spansIn "é u8".toList (.U8 ⟨1, 2⟩) = false ∧
    DocComment.spansIn "/// é\nx".toList ⟨"é".toList, ⟨0, 6⟩⟩ = true ∧
    DocComment.spansIn "/// é\nx".toList ⟨"é".toList, ⟨0, 5⟩⟩ = false := by
  decide +kernel

/-! ### per node family (any reachable lexer state) -/

/-- the lexer state `Document::parse` starts from is reachable (`TInv` = `Inv` + doc comments of the
pending tokens are comments of the source + tokens in source order + string tokens are quoted);
every lemma below returns `TInv` of the state after the parse, so the states reached by any
sequence of parse calls satisfy it -/
theorem initial_state_reachable (src : Str) : TInv src (PState.init src) := init_tinv src

/-- doc comments (`Lexer::comments` as the parser calls it before a declaration) -/
theorem docs_spans {src : Str} {st : PState} (hi : TInv src st) : docsIn src (parseDocs st) = true :=
  parseDocs_ok hi

/-- expressions (`Expr`, `PrimaryExpr`, `NewExpr`, `NestedExpr`, instantiation arguments, postfix
accesses) -/
theorem expr_spans {src : Str} {fuel : Nat} {st st' : PState} {e : Expr} (hi : TInv src st)
    (h : parseExpr fuel st = .ok (e, st')) : e.spansIn src = true ∧ TInv src st' :=
  (goodTP_elim (t_parseExpr hi) h).symm

/-- value types -/
theorem type_spans {src : Str} {fuel : Nat} {st st' : PState} {t : Ty} (hi : TInv src st)
    (h : parseType fuel st = .ok (t, st')) : t.spansIn src = true ∧ TInv src st' :=
  (goodTP_elim (t_parseType fuel st hi) h).symm

/-- statements (`import`, `let`, `export`, type statements) -/
theorem statement_spans {src : Str} {fuel : Nat} {st st' : PState} {s : Statement} (hi : TInv src st)
    (h : parseStatement fuel st = .ok (s, st')) : s.spansIn src = true ∧ TInv src st' :=
  (goodTP_elim (t_parseStatement hi) h).symm

/-- interface declarations (uses, type declarations incl. resources, exports) -/
theorem interface_spans {src : Str} {fuel : Nat} {st st' : PState} {d : InterfaceDecl} (hi : TInv src st)
    (h : parseInterfaceDecl fuel st = .ok (d, st')) : d.spansIn src = true ∧ TInv src st' :=
  (goodTP_elim (t_parseInterfaceDecl hi) h).symm

/-- world declarations (uses, type declarations, imports, exports, includes) -/
theorem world_spans {src : Str} {fuel : Nat} {st st' : PState} {d : WorldDecl} (hi : TInv src st)
    (h : parseWorldDecl fuel st = .ok (d, st')) : d.spansIn src = true ∧ TInv src st' :=
  (goodTP_elim (t_parseWorldDecl hi) h).symm

/-- top-level type declarations (variant, record, flags, enum, alias) -/
theorem typeDecl_spans {src : Str} {fuel : Nat} {st st' : PState} {d : TypeDecl} (hi : TInv src st)
    (h : parseTypeDecl fuel st = .ok (d, st')) : d.spansIn src = true ∧ TInv src st' :=
  (goodTP_elim (t_parseTypeDecl hi) h).symm

end Wac.Props.C14Trees
