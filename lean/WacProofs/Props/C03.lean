import WacProofs.Lemmas.Interface
/-
  C03 — output imports/exports are exactly those implied; implicit imports are shared.

  Specification: `Spec.impliedReqs / impliedImports / impliedDeps / impliedExports`
  (`WacModel/Spec/Interface.lean`), evaluated by the driver on the real output of every case.
  Model: `encode` (`resolveInsts`, `resolveExplicit`, `Agg.aggregate`, `importAll`,
  `fillImplicit`) and `importsQuery` (= `CompositionGraph::imports`).
-/
namespace Wac.Props.C03
open Wac Wac.Spec

/-- `imports_query_agrees`: what `CompositionGraph::imports()` lists (by the satisfied sets) is
    what the composition requires (by the argument edges): names and kinds, in order -/
theorem imports_query_agrees {g : GraphVal} (wf : WF g) :
    (importsQuery g).map (fun (e : Str × Kind × Option Nat) => (e.1, e.2.1)) = importsQuerySpec g := by
  unfold importsQuery importsQuerySpec impliedReqs
  rw [List.map_append, List.map_append]
  congr 1
  · exact flatMap_map_congr _ _ _ _ _ (fun n hn => queryOfNode_spec wf hn)
  · exact filterMap_map_congr _ _ _ _ _ queryOfImport_spec

/-- a witness of an implicit-import conflict: instantiation `inst` leaves import `name` of its
    package unsatisfied while an explicit import node `imp` has that name -/
def Conflict (g : GraphVal) (name : Str) (inst imp : Nat) : Prop :=
  ∃ n ∈ g.nodes, n.id = inst ∧ ∃ slot sat p, n.kind = .instantiation slot sat ∧ g.pkg? slot = some p ∧
    ∃ q ∈ unsatisfied p sat, q.name = name ∧ g.importNode? name = some imp

/-- `implicit_conflict_iff`, soundness: the error is only raised for a real conflict, and names it -/
theorem implicit_conflict_sound {g : GraphVal} {name : Str} {inst imp : Nat}
    (h : resolveInsts g g.nodes {} = .error (.implicitConflict name inst imp)) : Conflict g name inst imp :=
  resolveInsts_conflict g.nodes h

/-- `implicit_conflict_iff`, completeness: when import resolution succeeds there is no conflict
    (so a composition with a conflict is rejected — by this error, or by an earlier merge conflict) -/
theorem implicit_conflict_complete {g : GraphVal} {r : Resolved} (h : resolveInsts g g.nodes {} = .ok r) :
    ¬ ∃ name inst imp, Conflict g name inst imp := by
  rintro ⟨name, inst, imp, n, hn, _, slot, sat, p, hk, hp, q, hq, hqn, hi⟩
  have := resolveInsts_ok_no_conflict g.nodes h n hn slot sat p hk hp q hq
  rw [hqn, hi] at this
  cases this

/-- an encoding that succeeds had no conflict -/
theorem encode_ok_no_conflict {g : GraphVal} {o : Opts} {s : Skeleton} (h : encode g o = .ok s) :
    ¬ ∃ name inst imp, Conflict g name inst imp := by
  unfold encode at h
  cases hst : encodeSt g o with
  | error e => simp [hst] at h
  | panic p => simp [hst] at h
  | ok st =>
    unfold encodeSt at hst
    cases ht : toposort g with
    | fuel => simp [ht] at hst
    | cycle n => simp [ht] at hst
    | ok order =>
      simp only [ht] at hst
      cases h1 : encodeImports g (order.filter (isImportNode g)) {} with
      | error e => simp [h1] at hst
      | panic p => simp [h1] at hst
      | ok st1 =>
        unfold encodeImports at h1
        cases hr : resolveInsts g g.nodes {} with
        | error e => simp [hr] at h1
        | panic p => simp [hr] at h1
        | ok r => exact implicit_conflict_complete hr

theorem impRel_mem {w : WState} {agg : Agg} {enc : List (Str × (Kind × Nat))} {A : List (Str × Kind × Nat)}
    {E : List (Str × Nat)} (h : ImpRel w agg enc A E) :
    ∀ x ∈ A, amGet enc (agg.canonical x.1) = some x.2 := by
  induction A generalizing E with
  | nil => simp
  | cons a A ih =>
    cases E with
    | nil => simp [ImpRel] at h
    | cons e E =>
      simp only [ImpRel] at h
      intro x hx
      rcases List.mem_cons.mp hx with e1 | e1
      · subst e1; rw [h.1.1]; exact h.1.2
      · exact ih h.2 x e1

/-- `implicit_args_shared` (as far as the encoder goes): after `encode_imports`, two recorded
    implicit arguments — of the same or of different instantiations — whose names resolve to the
    same canonical import name carry the same kind and the same index.
    Full statement: "… whose names are equal or on the same semver track …"; missing is
    `same track → agg.canonical equal` (`canonical_track`, an invariant of `Agg.aggregate`). -/
theorem implicit_args_shared_partial {g : GraphVal} {importNodes : List Nat} {agg : Agg} {st1 : EncSt}
    (hagg : aggOf g importNodes = some agg) (he : encodeImports g importNodes {} = .ok st1)
    {a b : Nat} {x y : Str × Kind × Nat}
    (hx : x ∈ implicitList st1.implicit a) (hy : y ∈ implicitList st1.implicit b)
    (hc : agg.canonical x.1 = agg.canonical y.1) : x.2 = y.2 := by
  unfold encodeImports at he
  unfold aggOf at hagg
  cases hr : resolveInsts g g.nodes {} with
  | error e => simp [hr] at he
  | panic s => simp [hr] at he
  | ok r =>
    simp only [hr] at he hagg
    cases hxp : resolveExplicit g r.first importNodes r.agg [] with
    | error e => simp [hxp] at he
    | panic s => simp [hxp] at he
    | ok ae =>
      obtain ⟨agg', explicit⟩ := ae
      simp only [hxp, Option.some.injEq] at he hagg
      subst hagg
      generalize hl : (((agg'.imports.map fun e => (e.1, agg'.fix e.2)).filter fun e => e.2.kind = .instance) ++
        ((agg'.imports.map fun e => (e.1, agg'.fix e.2)).filter fun e => ¬ (e.2.kind = .instance))) = l at he
      generalize hgen : importAll id l {} [] = res at he
      obtain ⟨stA, enc⟩ := res
      have hA0 : stA.implicit = [] := by
        have := importAll_frame id l (st := {}) (enc := [])
        rw [hgen] at this
        exact this
      cases hfi : fillImplicit agg' enc r.implicit stA with
      | error e => simp [hfi] at he
      | panic s => simp [hfi] at he
      | ok stB =>
        simp only [hfi] at he
        obtain ⟨_, _, _, _, _, himpB⟩ := fillImplicit_spec r.implicit hfi (G stA)
        obtain ⟨_, himp1, _⟩ := fillExplicit_spec explicit he
        rw [himp1] at hx hy
        obtain ⟨A, hA, hRA⟩ := himpB a
        obtain ⟨B, hB, hRB⟩ := himpB b
        have e0 : ∀ n, implicitList stA.implicit n = [] := by intro n; rw [hA0]; rfl
        rw [hA, e0, List.nil_append] at hx
        rw [hB, e0, List.nil_append] at hy
        have h1 := impRel_mem hRA x hx
        have h2 := impRel_mem hRB y hy
        rw [hc, h2] at h1
        injection h1 with h1
        exact h1.symm

/-! ### concrete compositions meeting the hypotheses (non-vacuity) -/

def exPkg : PkgVal :=
  { slot := 0, name := ['t', ':', 'a'], version := none, bytesId := 0,
    imports := [{ name := ['f'], ty := { kind := .func } },
                { name := ['x', ':', 'y', '/', 'i', '@', '1', '.', '0', '.', '0'],
                  ty := { kind := .instance, iface := some ['x', ':', 'y', '/', 'i', '@', '1', '.', '0', '.', '0'] } }] }

/-- node 0 = import `h`, 1 and 2 = instantiations of `exPkg`; node 1 gets `f` ← node 0 -/
def exGraph : GraphVal :=
  { pkgs := [exPkg],
    nodes := [
      { id := 0, kind := .import ['h'], ty := { kind := .func }, succ := [1] },
      { id := 1, kind := .instantiation 0 [0], ty := { kind := .instance }, inc := [(.arg 0 ['f'], 0)] },
      { id := 2, kind := .instantiation 0 [], ty := { kind := .instance } }],
    exports := [] }

/-- the same with an explicit import named like the unsatisfied argument `f` of node 2 -/
def exConflict : GraphVal :=
  { exGraph with nodes := exGraph.nodes ++ [{ id := 3, kind := .import ['f'], ty := { kind := .func } }] }

example : WF exGraph ∧ importsQuerySpec exGraph =
    [(['x', ':', 'y', '/', 'i', '@', '1', '.', '0', '.', '0'], .instance), (['f'], .func),
     (['x', ':', 'y', '/', 'i', '@', '1', '.', '0', '.', '0'], .instance), (['h'], .func)] :=
  ⟨wfCheck_sound (by decide), by decide⟩

example : resolveInsts exConflict exConflict.nodes {} = .error (.implicitConflict ['f'] 2 3) ∧
    Conflict exConflict ['f'] 2 3 :=
  ⟨by rfl, implicit_conflict_sound (by rfl)⟩

example : ∃ r, resolveInsts exGraph exGraph.nodes {} = .ok r := ⟨_, by rfl⟩

/-- both instantiations of `exPkg` record the shared interface import: same kind, same index -/
example : ∃ st1, encodeImports exGraph [0] {} = .ok st1 ∧
    (implicitList st1.implicit 1).map (·.1) = [['x', ':', 'y', '/', 'i', '@', '1', '.', '0', '.', '0']] ∧
    (implicitList st1.implicit 2).map (·.1) = [['f'], ['x', ':', 'y', '/', 'i', '@', '1', '.', '0', '.', '0']] := by
  refine ⟨(match encodeImports exGraph [0] {} with | .ok s => s | _ => {}), by rfl, by decide, by decide⟩

end Wac.Props.C03
