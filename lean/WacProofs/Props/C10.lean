import WacModel.Spec.Plug
namespace Wac.Props.C10
open Wac Wac.Graph

/-- with no plugs nothing is supplied: the specification expects `NoPlugHappened` -/
theorem expected_no_plugs (ctx : Ctx) (socketD : PkgDef) : expected ctx socketD [] = .noPlug := by
  simp [expected, allOffers]

end Wac.Props.C10
