import WacModel.Spec.Plug
import WacProofs.Lemmas.Plug2
import WacProofs.Lemmas.Plug3
import WacProofs.Lemmas.Plug4
import WacProofs.Lemmas.Plug5
/-
  C10 — plugging.

  Model: WacModel/Plug.lean (`plug` as the composition of the modelled graph operations);
  specification: WacModel/Spec/Plug.lean (`intendedImport`, `offers`, `expected`, `plugPost`).

  Status of the theorems planned in DESIGN §7:
    proved here   matching_is_spec, plug_preserves_inv, two_offers_fail,
                  idle_plug_not_instantiated, no_plug_iff (no_offer_no_plug, no_plug_no_offer),
                  socket_exports_reexported, plug_supplies_matches, expected_no_plugs
    partial       unmatched_stay_imports ("nothing but the offers is passed", joins C03) is not a
                  theorem yet: it is clause (1')/(2) of the executable post-condition `plugPost`,
                  evaluated by the driver on the graph the *implementation* reports for every
                  generated case (SPEC) and on the model (MODEL).  plug_encodes_valid needs the encoder model (C01–C03);
                  the harness checks it per case with the wasmparser validator.
-/
namespace Wac.Props.C10
open Wac Wac.Graph

/-- the small universe of the examples: package `s` (socket) imports `a : kind 0` and `b : kind 0`,
    package `p` exports `a : kind 0`, package `q` exports nothing the socket wants -/
def ctxP : Ctx where
  kindExports k := if k = 1 then some [] else if k = 2 then some [(['a'], 0)] else if k = 3 then some [(['z'], 0)] else none
  sub a b := a == b
  tyVisits _ := []
  tyIsResource _ := false
  tyKind ty := 10 + ty
  validExtern s := !s.isEmpty
  validExport s := !s.isEmpty

def socketP : PkgDef := ⟨['s'], none, [(['a'], 0), (['b'], 0)], 1⟩
def plugP : PkgDef := ⟨['p'], none, [], 2⟩
def idleP : PkgDef := ⟨['q'], none, [], 3⟩

/-- with no plugs nothing is supplied: the specification expects `NoPlugHappened` -/
theorem expected_no_plugs (ctx : Ctx) (socketD : PkgDef) : expected ctx socketD [] = .noPlug := by
  simp [expected, allOffers]

/-- the `(plug export, socket import)` pairs the code collects are exactly the specification's
    offers: same name first, else the first semver-compatible import (C15's *specification* of
    compatibility), kept iff the subtype verdict holds -/
theorem matching_is_spec (ctx : Ctx) (plugD socketD : PkgDef) :
    plugExports ctx plugD socketD = (offers ctx socketD plugD).map (fun p => (p.2, p.1)) :=
  plugExports_eq_offers ctx plugD socketD

example : offers ctxP socketP plugP = [(['a'], ['a'])] := by decide

/-- whatever `plug` returns (Ok, NoPlugHappened, a graph error, even a panic), the graph it
    leaves is consistent (joins C06) -/
theorem plug_preserves_inv (ctx : Ctx) (g : Graph) (plugs : List PkgId) (socket : PkgId) (h : Inv ctx g) :
    Inv ctx (plug ctx g plugs socket).1 :=
  plug_inv h plugs socket

example : (plug ctxP (run ctxP {} [.register socketP, .register plugP]).1 [⟨1, 0⟩] ⟨0, 0⟩).2 = .ok := by decide

/-- a second offer for an import that another node already supplies is rejected with
    `ArgumentAlreadyPassed` and leaves the graph as it was (so `plug` fails rather than choosing) -/
theorem two_offers_fail (ctx : Ctx) (g : Graph) (h : Inv ctx g) (inst arg a' i : Nat) (name : Str)
    (nd : Node) (sat : List Nat) (pid : PkgId) (d : PkgDef) (k : Kind)
    (hnd : g.node? inst = some nd) (hk : nd.kind = .instantiation sat) (hpid : nd.pkg = some pid)
    (hd : g.pkgOf pid = .ok d) (hfull : alFull d.imports name = some (i, k))
    (hedge : (⟨a', inst, .arg i⟩ : Edge) ∈ g.edges) (hne : a' ≠ arg) :
    setArg ctx g inst name arg = (g, .err (.argumentAlreadyPassed inst name)) :=
  setArg_already_passed h hnd hk hpid hd hfull hedge hne

-- the same plug twice: the second round offers `a` again
example : (plug ctxP (run ctxP {} [.register socketP, .register plugP]).1 [⟨1, 0⟩, ⟨1, 0⟩] ⟨0, 0⟩).2 =
    .graphError (.argumentAlreadyPassed 0 ['a']) := by decide

/-- a plug that offers nothing is skipped by the loop: no instantiation, no change -/
theorem idle_plug_not_instantiated (ctx : Ctx) (g : Graph) (si : Nat) (socketD plugD : PkgDef) (p : PkgId)
    (ps : List PkgId) (hp : g.pkgOf p = .ok plugD) (hidle : offers ctx socketD plugD = []) :
    plugAll ctx si socketD (p :: ps) g = plugAll ctx si socketD ps g :=
  plugAll_idle hp hidle

example : instancesOf (plug ctxP (run ctxP {} [.register socketP, .register plugP, .register idleP]).1
    [⟨2, 0⟩, ⟨1, 0⟩] ⟨0, 0⟩).1 ⟨2, 0⟩ = [] := by decide

/-- (`no_plug_iff`, ⇐) when no plug offers anything for the socket, the result is
    `NoPlugHappened` -/
theorem no_offer_no_plug (ctx : Ctx) (g : Graph) (h : Inv ctx g) (plugs : List PkgId) (socket : PkgId)
    (socketD : PkgDef) (hs : g.pkgOf socket = .ok socketD)
    (hidle : ∀ p ∈ plugs, ∃ plugD, g.pkgOf p = .ok plugD ∧ offers ctx socketD plugD = []) :
    (plug ctx g plugs socket).2 = .noPlugHappened := by
  unfold plug
  rw [hs]
  simp only
  unfold instantiate
  rw [hs]
  simp only
  have hargs := args_of_fresh_inst h hs
  -- package lookups are unchanged by `add_node`
  have a := added_of_addNode h ⟨.instantiation [], some socket, socketD.instKind, none, none⟩
  have hidle' : ∀ p ∈ plugs, ∃ plugD,
      (g.addNode ⟨.instantiation [], some socket, socketD.instKind, none, none⟩).1.pkgOf p = .ok plugD ∧
      offers ctx socketD plugD = [] := by
    intro p hp
    obtain ⟨plugD, h1, h2⟩ := hidle p hp
    exact ⟨plugD, by rw [pkgOf_congr a.pkgs]; exact h1, h2⟩
  rw [plugAll_all_idle plugs _ hidle']
  simp only [hargs]

example : (plug ctxP (run ctxP {} [.register socketP, .register idleP]).1 [⟨1, 0⟩] ⟨0, 0⟩).2 =
    .noPlugHappened := by decide

/-- (`no_plug_iff`, ⇒) when `plug` reports `NoPlugHappened`, no plug offered anything: a loop
    that passes at least one argument leaves an argument edge at the socket instantiation
    (`plugAll_none`), a consistent graph then lists a non-empty argument list
    (`args_nonempty_of_hasArg`), and none of the loops reports `NoPlugHappened` itself -/
theorem no_plug_no_offer (ctx : Ctx) (g : Graph) (h : Inv ctx g) (plugs : List PkgId) (socket : PkgId)
    (socketD : PkgDef) (hs : g.pkgOf socket = .ok socketD)
    (hreg : ∀ p ∈ plugs, ∃ plugD, g.pkgOf p = .ok plugD)
    (hres : (plug ctx g plugs socket).2 = .noPlugHappened) :
    ∀ p ∈ plugs, ∃ plugD, g.pkgOf p = .ok plugD ∧ offers ctx socketD plugD = [] := by
  unfold plug at hres
  rw [hs] at hres
  simp only at hres
  have hi : instantiate g socket =
      ((g.addNode ⟨.instantiation [], some socket, socketD.instKind, none, none⟩).1,
       .ok (.node (g.addNode ⟨.instantiation [], some socket, socketD.instKind, none, none⟩).2)) := by
    unfold instantiate
    rw [hs]
  have hinv1 : Inv ctx (g.addNode ⟨.instantiation [], some socket, socketD.instKind, none, none⟩).1 :=
    inv_instantiate h hi
  have hg1 := addNode_grows g ⟨.instantiation [], some socket, socketD.instKind, none, none⟩
  rw [hi] at hres
  simp only at hres
  generalize (g.addNode ⟨.instantiation [], some socket, socketD.instKind, none, none⟩).1 = g1 at hres hinv1 hg1
  generalize (g.addNode ⟨.instantiation [], some socket, socketD.instKind, none, none⟩).2 = si at hres
  cases hpa : plugAll ctx si socketD plugs g1 with
  | mk g2 o =>
    rw [hpa] at hres
    cases o with
    | some o' =>
      simp only at hres
      have := plugAll_some si socketD plugs g1 g2 o' hpa
      rw [hres] at this
      cases this
    | none =>
      simp only at hres
      have hinv2 : Inv ctx g2 := plugAll_inv si socketD plugs g1 g2 none hinv1 hpa
      obtain ⟨_, hhas⟩ := plugAll_none si socketD plugs g1 g2 hpa
      have hno : ¬ HasArg g2 si := by
        intro ha
        have hne := args_nonempty_of_hasArg hinv2 ha
        cases hga : getInstantiationArguments g2 si with
        | error s => rw [hga] at hres; cases hres
        | ok l =>
          cases l with
          | nil => exact hne hga
          | cons x r =>
            rw [hga] at hres
            simp only at hres
            cases hex : exportSocket ctx si ((ctx.pkgExports socketD).map (·.1)) g2 with
            | mk g3 o3 =>
              rw [hex] at hres
              cases o3 with
              | none => cases hres
              | some o'' =>
                simp only at hres
                have := exportSocket_some si _ g2 g3 o'' hex
                rw [hres] at this
                cases this
      intro p hp
      obtain ⟨plugD, hpd⟩ := hreg p hp
      refine ⟨plugD, hpd, ?_⟩
      have hnil : plugExports ctx plugD socketD = [] := by
        cases hpe : plugExports ctx plugD socketD with
        | nil => rfl
        | cons x r =>
          exfalso
          apply hno
          exact hhas ⟨p, hp, plugD, by rw [pkgOf_congr hg1.1]; exact hpd, by rw [hpe]; simp⟩
      rw [plugExports_eq_offers] at hnil
      exact List.map_eq_nil_iff.mp hnil

/-- `no_plug_iff`: for registered plugs, `plug` reports that no plugging happened exactly when
    no socket import could be supplied -/
theorem no_plug_iff (ctx : Ctx) (g : Graph) (h : Inv ctx g) (plugs : List PkgId) (socket : PkgId)
    (socketD : PkgDef) (hs : g.pkgOf socket = .ok socketD)
    (hreg : ∀ p ∈ plugs, ∃ plugD, g.pkgOf p = .ok plugD) :
    (plug ctx g plugs socket).2 = .noPlugHappened ↔
      ∀ p ∈ plugs, ∃ plugD, g.pkgOf p = .ok plugD ∧ offers ctx socketD plugD = [] :=
  ⟨no_plug_no_offer ctx g h plugs socket socketD hs hreg, no_offer_no_plug ctx g h plugs socket socketD hs⟩

/-- `socket_exports_reexported`: after a successful `plug` there is a new instantiation `si` of
    the socket package, and every export name of the socket is an entry of the export map whose
    node is the target of the alias edge of that very export of `si` — the socket's exports
    are exported under their own names -/
theorem socket_exports_reexported (ctx : Ctx) (g : Graph) (h : Inv ctx g) (plugs : List PkgId) (socket : PkgId)
    (socketD : PkgDef) (hs : g.pkgOf socket = .ok socketD) (hok : (plug ctx g plugs socket).2 = .ok) :
    ∃ si nd, g.node? si = none ∧ (plug ctx g plugs socket).1.node? si = some nd ∧ nd.isInst = true ∧
      nd.pkg = some socket ∧
      ∀ nm ∈ (ctx.pkgExports socketD).map (·.1), ∃ a i k,
        getExport (plug ctx g plugs socket).1 nm = some a ∧
        alFull (ctx.pkgExports socketD) nm = some (i, k) ∧
        (⟨si, a, .alias i⟩ : Edge) ∈ (plug ctx g plugs socket).1.edges := by
  cases hres : plug ctx g plugs socket with
  | mk g' out =>
    rw [hres] at hok
    simp only at hok ⊢
    subst hok
    unfold plug at hres
    rw [hs] at hres
    simp only at hres
    have hi : instantiate g socket =
        ((g.addNode ⟨.instantiation [], some socket, socketD.instKind, none, none⟩).1,
         .ok (.node (g.addNode ⟨.instantiation [], some socket, socketD.instKind, none, none⟩).2)) := by
      unfold instantiate
      rw [hs]
    have hinv1 : Inv ctx (g.addNode ⟨.instantiation [], some socket, socketD.instKind, none, none⟩).1 :=
      inv_instantiate h hi
    have a := added_of_addNode h ⟨.instantiation [], some socket, socketD.instKind, none, none⟩
    rw [hi] at hres
    simp only at hres
    generalize (g.addNode ⟨.instantiation [], some socket, socketD.instKind, none, none⟩).1 = g1 at hres hinv1 a
    generalize (g.addNode ⟨.instantiation [], some socket, socketD.instKind, none, none⟩).2 = si at hres a
    cases hpa : plugAll ctx si socketD plugs g1 with
    | mk g2 o =>
      rw [hpa] at hres
      cases o with
      | some o' =>
        simp only [Prod.mk.injEq] at hres
        have := plugAll_some si socketD plugs g1 g2 o' hpa
        rw [hres.2] at this
        cases this
      | none =>
        simp only at hres
        have hinv2 : Inv ctx g2 := plugAll_inv si socketD plugs g1 g2 none hinv1 hpa
        have k12 := plugAll_keeps si socketD plugs g1 g2 none hinv1 hpa
        cases hga : getInstantiationArguments g2 si with
        | error s => rw [hga] at hres; simp at hres
        | ok l =>
          rw [hga] at hres
          cases l with
          | nil => simp at hres
          | cons x r =>
            simp only at hres
            cases hex : exportSocket ctx si ((ctx.pkgExports socketD).map (·.1)) g2 with
            | mk g3 o3 =>
              rw [hex] at hres
              cases o3 with
              | some o'' =>
                simp only [Prod.mk.injEq] at hres
                have := exportSocket_some si _ g2 g3 o'' hex
                rw [hres.2] at this
                cases this
              | none =>
                simp only [Prod.mk.injEq, and_true] at hres
                subst hres
                obtain ⟨k23, hexp⟩ := exportSocket_spec si _ g2 g3 hinv2 hex
                obtain ⟨x2, hx2, hitem2, hpkg2, hinst2⟩ := k12.nodes si _ a.new
                obtain ⟨x3, hx3, hitem3, hpkg3, hinst3⟩ := k23.nodes si _ hx2
                refine ⟨si, x3, a.fresh, hx3, ?_, ?_, ?_⟩
                · rw [hinst3, hinst2]; rfl
                · rw [hpkg3, hpkg2]
                · intro nm hnm
                  obtain ⟨a', nd2, exps, i, k, hnd2, hexps, hfull, hget, hedge⟩ := hexp nm hnm
                  rw [hx2] at hnd2
                  cases hnd2
                  rw [hitem2] at hexps
                  simp only at hexps
                  have : ctx.pkgExports socketD = exps := by
                    unfold Ctx.pkgExports
                    rw [hexps]; rfl
                  rw [this]
                  exact ⟨a', i, k, hget, hfull, hedge⟩

-- non-vacuity: a socket with an export
example : getExport (plug ctxP (run ctxP {} [.register plugP, .register ⟨['t'], none, [(['a'], 0)], 2⟩]).1
    [⟨0, 0⟩] ⟨1, 0⟩).1 ['a'] = some 3 := by decide

/-- `plug_supplies_matches`: after a successful `plug` there is a new instantiation `si` of the
    socket package such that every offer `(socket import, plug export)` of every plug (the
    specification's `offers`: same name, failing that the first semver-compatible import, kept iff
    the subtype verdict holds) is supplied: an instantiation `pi` of that plug, the alias `a` of
    that very export of `pi`, and the argument edge from `a` to `si` at the index of that very
    import -/
theorem plug_supplies_matches (ctx : Ctx) (g : Graph) (h : Inv ctx g) (plugs : List PkgId) (socket : PkgId)
    (socketD : PkgDef) (hs : g.pkgOf socket = .ok socketD) (hok : (plug ctx g plugs socket).2 = .ok) :
    ∃ si, g.node? si = none ∧ InstOf (plug ctx g plugs socket).1 si socket ∧
      ∀ p ∈ plugs, ∀ plugD, g.pkgOf p = .ok plugD → ∀ o ∈ offers ctx socketD plugD,
        ∃ pi a j idx k k', InstOf (plug ctx g plugs socket).1 pi p ∧
          alFull (ctx.pkgExports plugD) o.2 = some (j, k) ∧ alFull socketD.imports o.1 = some (idx, k') ∧
          (⟨pi, a, .alias j⟩ : Edge) ∈ (plug ctx g plugs socket).1.edges ∧
          (⟨a, si, .arg idx⟩ : Edge) ∈ (plug ctx g plugs socket).1.edges := by
  have hinv' := plug_inv h plugs socket
  cases hres : plug ctx g plugs socket with
  | mk g' out =>
    rw [hres] at hok hinv'
    simp only at hok hinv' ⊢
    subst hok
    unfold plug at hres
    rw [hs] at hres
    simp only at hres
    have hi : instantiate g socket =
        ((g.addNode ⟨.instantiation [], some socket, socketD.instKind, none, none⟩).1,
         .ok (.node (g.addNode ⟨.instantiation [], some socket, socketD.instKind, none, none⟩).2)) := by
      unfold instantiate
      rw [hs]
    have hinv1 : Inv ctx (g.addNode ⟨.instantiation [], some socket, socketD.instKind, none, none⟩).1 :=
      inv_instantiate h hi
    have a := added_of_addNode h ⟨.instantiation [], some socket, socketD.instKind, none, none⟩
    rw [hi] at hres
    simp only at hres
    generalize (g.addNode ⟨.instantiation [], some socket, socketD.instKind, none, none⟩).1 = g1 at hres hinv1 a
    generalize (g.addNode ⟨.instantiation [], some socket, socketD.instKind, none, none⟩).2 = si at hres a
    cases hpa : plugAll ctx si socketD plugs g1 with
    | mk g2 o =>
      rw [hpa] at hres
      cases o with
      | some o' =>
        simp only [Prod.mk.injEq] at hres
        have := plugAll_some si socketD plugs g1 g2 o' hpa
        rw [hres.2] at this
        cases this
      | none =>
        simp only at hres
        have hinv2 : Inv ctx g2 := plugAll_inv si socketD plugs g1 g2 none hinv1 hpa
        have k12 := plugAll_keeps si socketD plugs g1 g2 none hinv1 hpa
        have hsup := plugAll_spec si socketD plugs g1 g2 hinv1 hpa
        cases hga : getInstantiationArguments g2 si with
        | error s => rw [hga] at hres; simp at hres
        | ok l =>
          rw [hga] at hres
          cases l with
          | nil => simp at hres
          | cons x r =>
            simp only at hres
            cases hex : exportSocket ctx si ((ctx.pkgExports socketD).map (·.1)) g2 with
            | mk g3 o3 =>
              rw [hex] at hres
              cases o3 with
              | some o'' =>
                simp only [Prod.mk.injEq] at hres
                have := exportSocket_some si _ g2 g3 o'' hex
                rw [hres.2] at this
                cases this
              | none =>
                simp only [Prod.mk.injEq, and_true] at hres
                subst hres
                obtain ⟨k23, _⟩ := exportSocket_spec si _ g2 g3 hinv2 hex
                have k13 := k12.trans k23
                have hpk : g3.pkgs = g.pkgs := k13.pkgs.trans a.pkgs
                have hsi : InstOf g3 si socket := (InstOf.mono ⟨_, a.new, rfl, rfl⟩ k13)
                refine ⟨si, a.fresh, hsi, ?_⟩
                intro p hp plugD hpd o ho
                have hmem : (o.2, o.1) ∈ plugExports ctx plugD socketD := by
                  rw [plugExports_eq_offers]
                  exact List.mem_map_of_mem (f := fun p : Str × Str => (p.2, p.1)) ho
                obtain ⟨pi, al, j, idx, hpi, hai, hargi, he1, he2⟩ :=
                  (hsup p hp plugD (by rw [pkgOf_congr a.pkgs]; exact hpd) _ hmem).mono k23
                simp only at hai hargi
                -- the export index is that of the plug's export list
                obtain ⟨x, exps, k, hx, hexps, hfull⟩ := hai
                obtain ⟨x', hx', hinst, hpkg⟩ := hpi
                rw [hx] at hx'
                cases hx'
                have hitem : x.item = plugD.instKind := by
                  have h2 := (hinv'.node hx).2.1
                  unfold Node.isInst at hinst
                  cases hk : x.kind with
                  | instantiation sat =>
                    rw [hk] at h2
                    simp only at h2
                    obtain ⟨_, _, pid, hpid, pd, hpd', hit⟩ := h2
                    rw [Option.mem_def, hpkg] at hpid
                    cases hpid
                    have := toOption_mem.mp hpd'
                    rw [pkgOf_congr hpk, hpd] at this
                    cases this
                    exact hit
                  | definition ty => simp [hk] at hinst
                  | «import» nm => simp [hk] at hinst
                  | «alias» => simp [hk] at hinst
                have hpe : ctx.pkgExports plugD = exps := by
                  unfold Ctx.pkgExports
                  rw [← hitem, hexps]; rfl
                -- the import index is that of the socket's import list
                obtain ⟨y, pid, d, k', hy, hypkg, hd, hfull'⟩ := hargi
                obtain ⟨y', hy', _, hpkg'⟩ := hsi
                rw [hy] at hy'
                cases hy'
                rw [hpkg'] at hypkg
                cases hypkg
                have hd' : d = socketD := by
                  have := pkgAt_of_pkgOf hs
                  rw [pkgAt_congr hpk, this] at hd
                  cases hd; rfl
                subst hd'
                exact ⟨pi, al, j, idx, k, k', ⟨x, hx, hinst, hpkg⟩, by rw [hpe]; exact hfull, hfull', he1, he2⟩

end Wac.Props.C10
