import WacModel.Spec.Plug
import WacProofs.Lemmas.Plug2
/-
  C10 — plugging.

  Model: WacModel/Plug.lean (`plug` as the composition of the modelled graph operations);
  specification: WacModel/Spec/Plug.lean (`intendedImport`, `offers`, `expected`, `plugPost`).

  Status of the theorems planned in DESIGN §7:
    proved here   matching_is_spec, plug_preserves_inv, two_offers_fail,
                  idle_plug_not_instantiated, no_offer_no_plug (⇐ of `no_plug_iff`),
                  expected_no_plugs
    partial       plug_supplies_matches, unmatched_stay_imports, socket_exports_reexported and
                  the ⇒ direction of no_plug_iff are not theorems yet: they are the clauses of the
                  executable post-condition `plugPost` / `expected`, evaluated by the driver on
                  the graph the *implementation* reports for every generated case (SPEC) and on
                  the model (MODEL).  plug_encodes_valid needs the encoder model (C01–C03); the
                  harness checks it per case with the wasmparser validator.
-/
namespace Wac.Props.C10
open Wac Wac.Graph

/-- the small universe of the examples: package `s` (socket) imports `a : kind 0` and `b : kind 0`,
    package `p` exports `a : kind 0`, package `q` exports nothing the socket wants -/
def ctxP : Ctx where
  kindExports k := if k = 1 then some [] else if k = 2 then some [(['a'], 0)] else if k = 3 then some [(['z'], 0)] else none
  sub a b := a == b
  tyVisits _ := []
  tyIsResource _ := false
  tyKind ty := 10 + ty
  validExtern s := !s.isEmpty
  validExport s := !s.isEmpty

def socketP : PkgDef := ⟨['s'], none, [(['a'], 0), (['b'], 0)], 1⟩
def plugP : PkgDef := ⟨['p'], none, [], 2⟩
def idleP : PkgDef := ⟨['q'], none, [], 3⟩

/-- with no plugs nothing is supplied: the specification expects `NoPlugHappened` -/
theorem expected_no_plugs (ctx : Ctx) (socketD : PkgDef) : expected ctx socketD [] = .noPlug := by
  simp [expected, allOffers]

/-- the `(plug export, socket import)` pairs the code collects are exactly the specification's
    offers: same name first, else the first semver-compatible import (C15's *specification* of
    compatibility), kept iff the subtype verdict holds -/
theorem matching_is_spec (ctx : Ctx) (plugD socketD : PkgDef) :
    plugExports ctx plugD socketD = (offers ctx socketD plugD).map (fun p => (p.2, p.1)) :=
  plugExports_eq_offers ctx plugD socketD

example : offers ctxP socketP plugP = [(['a'], ['a'])] := by decide

/-- whatever `plug` returns (Ok, NoPlugHappened, a graph error, even a panic), the graph it
    leaves is consistent (joins C06) -/
theorem plug_preserves_inv (ctx : Ctx) (g : Graph) (plugs : List PkgId) (socket : PkgId) (h : Inv ctx g) :
    Inv ctx (plug ctx g plugs socket).1 :=
  plug_inv h plugs socket

example : (plug ctxP (run ctxP {} [.register socketP, .register plugP]).1 [⟨1, 0⟩] ⟨0, 0⟩).2 = .ok := by decide

/-- a second offer for an import that another node already supplies is rejected with
    `ArgumentAlreadyPassed` and leaves the graph as it was (so `plug` fails rather than choosing) -/
theorem two_offers_fail (ctx : Ctx) (g : Graph) (h : Inv ctx g) (inst arg a' i : Nat) (name : Str)
    (nd : Node) (sat : List Nat) (pid : PkgId) (d : PkgDef) (k : Kind)
    (hnd : g.node? inst = some nd) (hk : nd.kind = .instantiation sat) (hpid : nd.pkg = some pid)
    (hd : g.pkgOf pid = .ok d) (hfull : alFull d.imports name = some (i, k))
    (hedge : (⟨a', inst, .arg i⟩ : Edge) ∈ g.edges) (hne : a' ≠ arg) :
    setArg ctx g inst name arg = (g, .err (.argumentAlreadyPassed inst name)) :=
  setArg_already_passed h hnd hk hpid hd hfull hedge hne

-- the same plug twice: the second round offers `a` again
example : (plug ctxP (run ctxP {} [.register socketP, .register plugP]).1 [⟨1, 0⟩, ⟨1, 0⟩] ⟨0, 0⟩).2 =
    .graphError (.argumentAlreadyPassed 0 ['a']) := by decide

/-- a plug that offers nothing is skipped by the loop: no instantiation, no change -/
theorem idle_plug_not_instantiated (ctx : Ctx) (g : Graph) (si : Nat) (socketD plugD : PkgDef) (p : PkgId)
    (ps : List PkgId) (hp : g.pkgOf p = .ok plugD) (hidle : offers ctx socketD plugD = []) :
    plugAll ctx si socketD (p :: ps) g = plugAll ctx si socketD ps g :=
  plugAll_idle hp hidle

example : instancesOf (plug ctxP (run ctxP {} [.register socketP, .register plugP, .register idleP]).1
    [⟨2, 0⟩, ⟨1, 0⟩] ⟨0, 0⟩).1 ⟨2, 0⟩ = [] := by decide

/-- (`no_plug_iff`, ⇐) when no plug offers anything for the socket, the result is
    `NoPlugHappened` -/
theorem no_offer_no_plug (ctx : Ctx) (g : Graph) (h : Inv ctx g) (plugs : List PkgId) (socket : PkgId)
    (socketD : PkgDef) (hs : g.pkgOf socket = .ok socketD)
    (hidle : ∀ p ∈ plugs, ∃ plugD, g.pkgOf p = .ok plugD ∧ offers ctx socketD plugD = []) :
    (plug ctx g plugs socket).2 = .noPlugHappened := by
  unfold plug
  rw [hs]
  simp only
  unfold instantiate
  rw [hs]
  simp only
  have hargs := args_of_fresh_inst h hs
  -- package lookups are unchanged by `add_node`
  have a := added_of_addNode h ⟨.instantiation [], some socket, socketD.instKind, none, none⟩
  have hidle' : ∀ p ∈ plugs, ∃ plugD,
      (g.addNode ⟨.instantiation [], some socket, socketD.instKind, none, none⟩).1.pkgOf p = .ok plugD ∧
      offers ctx socketD plugD = [] := by
    intro p hp
    obtain ⟨plugD, h1, h2⟩ := hidle p hp
    exact ⟨plugD, by rw [pkgOf_congr a.pkgs]; exact h1, h2⟩
  rw [plugAll_all_idle plugs _ hidle']
  simp only [hargs]

example : (plug ctxP (run ctxP {} [.register socketP, .register idleP]).1 [⟨1, 0⟩] ⟨0, 0⟩).2 =
    .noPlugHappened := by decide

end Wac.Props.C10
