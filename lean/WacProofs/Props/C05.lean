import WacProofs.Lemmas.Elab
/-
  C05 — WIT declarations in WAC mean what WIT means.
  Theorems about the model `Wac.Elab` (WacModel/Elab.lean) of the declaration elaboration of
  resolution.rs, and about the specification `Wac.Spec.Wit` (WacModel/Spec/Wit.lean).

  Full statement (not proved, monitored on every case by the driver: SPEC = WAC's encoding vs
  `denote`, with the reference encoding as a check of `denote` itself; MODEL = `elabPkg` vs the
  resolver's arenas, index by index):
    elab_denotes : ∀ p, elabPkg p = .ok T → ∀ interface i of p,
        canonN (unfold T (instance i)) = canonN (instance (denote p i))
  and the same for the explicit imports/exports of every world.
-/
namespace Wac.Props.C05
open Wac Wac.Elab Wac.Spec.Wit

/-- **resource_methods_named (names).**  The functions of a resource declaration are exported
under the names the component model prescribes, built from the name of the *resource being
declared* (never from an alias or a local rename) and the method name. -/
theorem resource_methods_named (r m : Str) :
    methodExternName r [] .constructor = "[constructor]".toList ++ r ∧
    methodExternName r m .method = "[method]".toList ++ r ++ ['.'] ++ m ∧
    methodExternName r m .static = "[static]".toList ++ r ++ ['.'] ++ m := ⟨rfl, rfl, rfl⟩

/-- **resource_methods_named (self).**  A method's function type starts with the parameter
`self: borrow<r>` of the declared resource, followed by the declared parameters. -/
theorem method_has_self (st st' : St) (ps : List (Str × WTy)) (res : Option WTy) (r f : Nat)
    (h : funcType st ps res .method (some r) = .ok (st', f)) :
    ∃ g rest, st'.types.funcs[f]? = some g ∧ g.params = ("self".toList, .borrow r) :: rest ∧ g.isAsync = false := by
  unfold funcType at h
  simp only at h
  split at h
  · cases h
  · rename_i st1 out hps
    obtain ⟨rest, hrest⟩ := namedTys_prefix _ _ _ _ _ _ hps
    split at h
    · cases h
    · rename_i st2 rr hres
      simp only [addFunc] at h
      cases h
      refine ⟨{ params := out, result := rr, isAsync := false }, rest, by simp, ?_, rfl⟩
      simp [hrest]

/-- **resource_methods_named (constructor).**  A constructor returns `own<r>` of the declared
resource and has no `self` parameter. -/
theorem constructor_returns_own (st st' : St) (ps : List (Str × WTy)) (r f : Nat)
    (h : funcType st ps none .constructor (some r) = .ok (st', f)) :
    ∃ g, st'.types.funcs[f]? = some g ∧ g.result = some (.own r) := by
  unfold funcType at h
  simp only at h
  split at h
  · cases h
  · rename_i st1 out _
    simp only [addFunc] at h
    cases h
    exact ⟨{ params := out, result := some (.own r), isAsync := false }, by simp, rfl⟩

/-- non-vacuity: `m: func(x: u8)` of resource 0, `constructor()` of resource 0 -/
example : ∃ st' f, funcType {} [("x".toList, .prim .u8)] none .method (some 0) = .ok (st', f) := by
  simp [funcType, namedTys, ty, addFunc, alGet]
example : ∃ st' f, funcType {} [] none .constructor (some 0) = .ok (st', f) := by
  simp [funcType, namedTys, addFunc]

/-- **use_preserves_identity.**  `use i.{n as m}` makes the local name refer to *the same item*
of the arena as the export `n` of interface `i` (same type id, hence the same type with the same
resources), exports/imports it under the local name, and records the provenance
`(interface i, original name iff renamed)`. -/
theorem use_preserves_identity (st st' : St) (path n : Str) (as_ : Option Str) (i : Nat) (itf : Interface)
    (t : Ty) (uses uses' : List (Str × UsedType)) (externs externs' : List (Str × ItemKind))
    (hroot : alGet st.root path = some (.iface i)) (hitf : st.types.interfaces[i]? = some itf)
    (hexp : alGet itf.exports n = some (.type t)) (hval : (∃ r, t = .resource r) ∨ (∃ v, t = .value v))
    (h : useType st path [(n, as_)] uses externs = .ok (st', uses', externs')) :
    alGet externs' (as_.getD n) = some (.type t) ∧
    alGet uses' (as_.getD n) = some { interface := i, name := as_.map fun _ => n } ∧
    alGet st'.scope (as_.getD n) = some (.ty t) ∧ st'.types = st.types := by
  unfold useType at h
  simp only [hroot, hitf] at h
  unfold useType.go at h
  simp only [hexp] at h
  rcases hval with ⟨r, rfl⟩ | ⟨v, rfl⟩ <;>
  · simp only at h
    split at h
    · cases h
    · split at h
      · rename_i st1 hreg
        simp only [useType.go] at h
        cases h
        unfold register at hreg
        split at hreg
        · cases hreg
        · rename_i hfresh
          cases hreg
          refine ⟨alGet_alInsert_self' _ _ _, alGet_alInsert_self' _ _ _, ?_, rfl⟩
          simp only [Bool.not_eq_true, Option.isSome_eq_false_iff, Option.isNone_iff_eq_none] at hfresh
          exact alGet_append_fresh _ _ _ hfresh
      · cases h

/-- non-vacuity: interface 0 exports the resource `r`; `use i.{r as q}` -/
example :
    let st : St := { types := { resources := [{ name := "r".toList }],
                                interfaces := [{ id := some "a:b/i".toList, exports := [("r".toList, .type (.resource 0))] }] },
                     root := [("i".toList, .iface 0)] }
    ∃ st' u e, useType st "i".toList [("r".toList, some "q".toList)] [] [] = .ok (st', u, e) ∧
      e = [("q".toList, .type (.resource 0))] ∧ u = [("q".toList, { interface := 0, name := some "r".toList })] :=
  ⟨_, _, _, rfl, rfl, rfl⟩

/-- **include_with_semantics (specification).**  Including a world keeps every item the
including world already has, and adds every item of the included world under its name —
replaced according to the `with` list for plain names, never for interface ids — unless that
name is already present. -/
theorem include_keeps_own (own other : List (Str × Tree)) (withs : List (Str × Str)) (n : Str) (t : Tree)
    (h : alGet own n = some t) : alGet (includeInto own other withs) n = some t := by
  unfold includeInto
  induction other generalizing own with
  | nil => simpa using h
  | cons x xs ih =>
    simp only [List.foldl_cons]
    exact ih _ (addIfAbsent_keeps _ _ _ _ _ h)

theorem include_adds_renamed (own : List (Str × Tree)) (withs : List (Str × Str)) (n : Str) (t : Tree)
    (hplain : n.contains ':' = false) (m : Str) (hw : alGet withs n = some m) (hfree : alGet own m = none) :
    alGet (includeInto own [(n, t)] withs) m = some t := by
  have hc : (':' ∈ n) = False := by
    simpa [List.contains_iff_mem] using hplain
  simp only [includeInto, List.foldl_cons, List.foldl_nil, List.contains_iff_mem, hc, if_false, hw,
    Option.getD_some, addIfAbsent, hfree, Option.isSome_none, Bool.false_eq_true]
  exact alGet_append_new _ _ _ hfree

theorem include_keeps_ids (own : List (Str × Tree)) (withs : List (Str × Str)) (n : Str) (t : Tree)
    (hid : n.contains ':' = true) (hfree : alGet own n = none) :
    alGet (includeInto own [(n, t)] withs) n = some t := by
  have hc : (':' ∈ n) = True := by
    simpa [List.contains_iff_mem] using hid
  simp only [includeInto, List.foldl_cons, List.foldl_nil, List.contains_iff_mem, hc, if_true,
    addIfAbsent, hfree, Option.isSome_none, Bool.false_eq_true, if_false]
  exact alGet_append_new _ _ _ hfree

/-- non-vacuity -/
example : includeInto [("a".toList, .prim .u8)] [("a".toList, .prim .u16), ("b".toList, .prim .u32), ("x:y/z".toList, .prim .bool)]
    [("b".toList, "c".toList)] =
    [("a".toList, .prim .u8), ("c".toList, .prim .u32), ("x:y/z".toList, .prim .bool)] := by decide

end Wac.Props.C05
