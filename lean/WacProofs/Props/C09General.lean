import WacProofs.Lemmas.AggAllTotal
/-
  C09 — merged import requirements satisfy every contributor, order-independently: GENERAL theorems
  about the executable model `Wac.aggregate` / `Wac.aggregateAll` (WacModel/Aggregate.lean, the
  repaired configuration `Agg.empty` that `./check C09` runs) for a fragment of requirements.

  Fragment (`fragB cs = true`, decidable): every contributor `(name, collection, kind)` is an
  INSTANCE requirement whose interface has no id and no `uses` and whose exports are functions and
  values (of any value type: primitives, records, variants, lists, aliases, … — no resources), over
  a collection in which every defined type unfolds (acyclic, no dangling ids, `saneB`); the export
  names of one requirement are distinct; the collections are separate (pairwise distinct uids, none
  equal to the aggregator's own uid 0).  The requirement NAMES are arbitrary (plain or versioned,
  any number of versions on any number of tracks).

  Not covered (see notes/C09-proofs.md): nested instance exports, `type` exports, used types,
  interfaces with ids, resources, function/value item requirements at the top level (only
  `equal_merge_self`), component-typed requirements (known finding), and the failure direction
  (`fails_iff_incompatible`: an error implies incompatibility).
-/
namespace Wac.Props.C09General
open Wac Wac.Spec Wac.AggP

/-- some fuel unfolds the import the requirement name `n` ends up with to the tree `m` -/
def MergedTree (A : AggState) (n : Str) (m : Tree) : Prop :=
  ∃ kind f, amGet A.agg.imports (A.agg.canonical n) = some kind ∧ A.agg.types.unfoldKind f kind = some m

theorem impForest_merged {A : AggState} {n : Str} {F : Forest} (h : ImpForest A (A.agg.canonical n) F) :
    MergedTree A n (.instance F) := by
  obtain ⟨e, ti, h1, h2, h3, _⟩ := h
  obtain ⟨f, hf⟩ := h3.unf
  exact ⟨.instance e, f + 1, h1, by simp [Types.unfoldKind, h2, hf]⟩

theorem mergedTree_det {A : AggState} {n : Str} {m m' : Tree} (h : MergedTree A n m) (h' : MergedTree A n m') : m = m' := by
  obtain ⟨k, f, h1, h2⟩ := h
  obtain ⟨k', f', h1', h2'⟩ := h'
  rw [h1] at h1'; cases h1'
  exact unfoldKind_det _ h2 h2'

/-! ### the invariant holds in every reachable state -/

theorem fragB_spec {cs : List Req} (h : fragB cs = true) :
    (∀ r, r ∈ cs → (flatForest r).isSome = true ∧ r.2.1.uid ≠ 0) ∧ cs.Pairwise (fun a b => a.2.1.uid ≠ b.2.1.uid) := by
  simp only [fragB, Bool.and_eq_true, List.all_eq_true, decide_eq_true_eq] at h
  exact ⟨fun r hr => h.1 r hr, h.2⟩

/-- **the invariant of the aggregator** after any list of the fragment -/
theorem frag_invariant (cs : List Req) (hf : fragB cs = true) (A : AggState)
    (h : aggregateAll cs Agg.empty = .ok A) :
    GInv (collsOf cs (fragB_spec hf).2) (withForests cs).reverse A := by
  obtain ⟨hall, hpw⟩ := fragB_spec hf
  have hmap := withForests_map (fun r hr => (hall r hr).1)
  have := ginv_all (W := collsOf cs hpw) (withForests cs) [] Agg.empty A
    (ginv_empty _ (by rintro C ⟨r, hr, rfl⟩; exact (hall r hr).2))
    (by
      intro p hp
      obtain ⟨hm, hfp⟩ := withForests_mem hp
      exact ⟨(flatForest_spec hfp).1, p.1, hm, rfl⟩)
    (by intro p _ q hq; cases hq)
    (by
      have : ((withForests cs).map (·.1)).Pairwise (fun a b : Req => a.2.1.uid ≠ b.2.1.uid) := by
        rw [hmap]; exact hpw
      exact (List.pairwise_map (f := fun p : Req × Forest => p.1) (R := fun a b : Req => a.2.1.uid ≠ b.2.1.uid)).1 this)
    (by rw [hmap]; exact h)
  simpa using this.1

theorem mem_withForests {cs : List Req} (hall : ∀ r, r ∈ cs → (flatForest r).isSome = true) {r : Req} (hr : r ∈ cs) :
    ∃ G, (r, G) ∈ withForests cs ∧ flatForest r = some G := by
  obtain ⟨G, hG⟩ := Option.isSome_iff_exists.1 (hall r hr)
  refine ⟨G, ?_, hG⟩
  simp only [withForests, List.mem_filterMap, Option.map_eq_some_iff]
  exact ⟨r, hr, G, hG, rfl⟩

/-! ### example data (non-vacuity of the hypotheses below) -/

/-- `a:b/c@0.2.0: instance { f: func(x: list<u8>) -> string  (through an alias), v: value u8 }` -/
def cA : Types :=
  { uid := 1, defined := [.list (.prim .u8), .alias (.defined 0)],
    funcs := [{ params := [(['x'], .defined 1)], result := some (.prim .string) }],
    interfaces := [{ exports := [(['f'], .func 0), (['v'], .value (.prim .u8))] }] }
/-- `a:b/c@0.2.5: instance { g: func(), f: func(x: list<u8>) -> string }` -/
def cB : Types :=
  { uid := 2, defined := [.list (.prim .u8)],
    funcs := [{ params := [(['x'], .defined 0)], result := some (.prim .string) }, {}],
    interfaces := [{ exports := [(['g'], .func 1), (['f'], .func 0)] }] }
/-- `a:b/c@0.2.1: instance { h: func() }` -/
def cC : Types := { uid := 3, funcs := [{}], interfaces := [{ exports := [(['h'], .func 0)] }] }
def rA : Req := ("a:b/c@0.2.0".toList, cA, .instance 0)
def rB : Req := ("a:b/c@0.2.5".toList, cB, .instance 0)
def rC : Req := ("a:b/c@0.2.1".toList, cC, .instance 0)
/-- three versions of one track in the order lowest, highest, middle: a rename and a redirect -/
def exList : List Req := [rA, rB, rC]

/-- the example list is in the fragment and aggregates successfully in this order and in the
reverse order; the three names end up at one import named by the highest version -/
example : fragB exList = true ∧ (aggregateAll exList Agg.empty).toOption.isSome = true ∧
    (aggregateAll exList.reverse Agg.empty).toOption.isSome = true ∧
    (aggregateAll exList Agg.empty).toOption.map (fun A => A.agg.imports.map (·.1)) = some ["a:b/c@0.2.5".toList] := by
  decide +kernel

/-! ### target 2: the merged import satisfies every contributor -/

/-- **`agg_upper_bound`** (fragment).  Full statement (DESIGN §7): `aggregateAll cs = .ok A →
∀ contributor (n, t, k) ∈ cs, Sub (unfold A (canon n)) (unfold t k)`.  Proved for every list `cs`
of the fragment: the import under the canonical name of `n` exists, unfolds, and is a subtype of
the contributor's type. -/
theorem agg_upper_bound (cs : List Req) (hf : fragB cs = true) (A : AggState)
    (h : aggregateAll cs Agg.empty = .ok A) (r : Req) (hr : r ∈ cs) :
    ∃ m c, MergedTree A r.1 m ∧ r.2.1.unfold r.2.2 = some c ∧ sub m c = true := by
  have hG := frag_invariant cs hf A h
  obtain ⟨G, hmem, hfG⟩ := mem_withForests (fun r hr => ((fragB_spec hf).1 r hr).1) hr
  obtain ⟨F, hF, hs⟩ := hG.tinv.sat (r, G) (by simpa using hmem)
  exact ⟨.instance F, .instance G, impForest_merged hF, (flatForest_spec hfG).2, hs⟩

theorem ok_of_isSome {ε α : Type} {x : Except ε α} (h : x.toOption.isSome = true) : ∃ a, x = .ok a := by
  cases x with
  | ok a => exact ⟨a, rfl⟩
  | error e => simp [Except.toOption] at h

example : (∃ A, aggregateAll exList Agg.empty = .ok A) ∧ rB ∈ exList :=
  ⟨ok_of_isSome (by decide +kernel), by decide⟩

/-- leaf kinds of a closed collection unfold item-wise within any fuel ≥ `defined.length + 2` -/
theorem unfoldItems_leaf_fuel {T : Types} (hc : Closed T) : ∀ (E : List (Str × ItemKind)) (F : Forest) (n m : Nat),
    (∀ x, x ∈ E → LeafK x.2) → unfoldItems (T.unfoldKind n) E = some F → T.defined.length + 2 ≤ m →
    unfoldItems (T.unfoldKind m) E = some F
  | [], F, n, m, _, h, _ => by simpa [unfoldItems] using h
  | (nm, k) :: E, F, n, m, hl, h, hm => by
    obtain ⟨t, fr, h1, h2, rfl⟩ := unfoldItems_cons nm k E F h
    simp only [unfoldItems, hc.leaf_fuel (hl (nm, k) List.mem_cons_self) h1 hm,
      unfoldItems_leaf_fuel hc E fr n m (fun x hx => hl x (List.mem_cons_of_mem _ hx)) h2 hm]

/-- **`agg_upper_bound`, exactly as in DESIGN §7** (with `Types.unfold`, i.e. the default fuel of the
aggregator's collection): `aggregateAll cs = .ok A →` for every contributor `(n, t, k)` the import
`canon n` exists and `sub (unfold A (canon n)) (unfold t k)`. -/
theorem agg_upper_bound_unfold (cs : List Req) (hf : fragB cs = true) (A : AggState)
    (h : aggregateAll cs Agg.empty = .ok A) (r : Req) (hr : r ∈ cs) :
    ∃ kind m c, amGet A.agg.imports (A.agg.canonical r.1) = some kind ∧ A.agg.types.unfold kind = some m ∧
      r.2.1.unfold r.2.2 = some c ∧ sub m c = true := by
  have hG := frag_invariant cs hf A h
  obtain ⟨G, hmem, hfG⟩ := mem_withForests (fun r hr => ((fragB_spec hf).1 r hr).1) hr
  obtain ⟨F, ⟨e, ti, h1, h2, h3, _⟩, hs⟩ := hG.tinv.sat (r, G) (by simpa using hmem)
  refine ⟨.instance e, .instance F, .instance G, h1, ?_, (flatForest_spec hfG).2, hs⟩
  obtain ⟨n, hn⟩ := h3.unf
  have hlen : 1 ≤ A.agg.types.interfaces.length := Nat.lt_of_le_of_lt (Nat.zero_le _) (getElem?_lt h2)
  have hfu : A.agg.types.fuel = (A.agg.types.fuel - 1) + 1 := by simp only [Types.fuel]; omega
  simp only [Types.unfold]
  rw [hfu]
  simp only [Types.unfoldKind, h2,
    unfoldItems_leaf_fuel hG.tinv.ainv.rinv.closed ti.exports F n (A.agg.types.fuel - 1) h3.leaf hn
      (by simp only [Types.fuel]; omega)]
  rfl

/-- the merged import is the GREATEST type that satisfies all contributors of its class
(needed for order independence; with `agg_upper_bound` it makes the merged import the greatest
common subtype of the class) -/
theorem agg_greatest (cs : List Req) (hf : fragB cs = true) (A : AggState)
    (h : aggregateAll cs Agg.empty = .ok A) (r : Req) (hr : r ∈ cs) (m : Tree) (hm : MergedTree A r.1 m)
    (X : Tree) (hX : X.namesDistinct = true)
    (hall : ∀ r', r' ∈ cs → compat r'.1 r.1 = true → ∀ c, r'.2.1.unfold r'.2.2 = some c → sub X c = true) :
    sub X m = true := by
  have hG := frag_invariant cs hf A h
  have hall' := (fragB_spec hf).1
  obtain ⟨G, hmem, hfG⟩ := mem_withForests (fun r hr => (hall' r hr).1) hr
  obtain ⟨F, hF, _⟩ := hG.tinv.sat (r, G) (by simpa using hmem)
  rw [mergedTree_det hm (impForest_merged hF)]
  refine hG.tinv.glb _ F hF X hX ?_
  intro p hp hcl
  have hp' : p ∈ withForests cs := by simpa using hp
  obtain ⟨hpm, hfp⟩ := withForests_mem hp'
  have hS : ∀ q : Req × Forest, q ∈ withForests cs → q.1.1 ∈ ((withForests cs).reverse.map (·.1.1)) := by
    intro q hq; simp only [List.map_reverse, List.mem_reverse, List.mem_map]; exact ⟨q, hq, rfl⟩
  have hc := (hG.ninv.canon_eq_iff (hS p hp') (hS (r, G) hmem)).1 hcl
  exact hall p.1 hpm hc _ (flatForest_spec hfp).2

/-! ### target 4: order independence -/

theorem fragB_perm {cs cs' : List Req} (hp : cs.Perm cs') (hf : fragB cs = true) : fragB cs' = true := by
  obtain ⟨h1, h2⟩ := fragB_spec hf
  simp only [fragB, Bool.and_eq_true, List.all_eq_true, decide_eq_true_eq]
  refine ⟨fun r hr => h1 r (hp.mem_iff.2 hr), ?_⟩
  exact (hp.pairwise_iff (fun {a b} (h : a.2.1.uid ≠ b.2.1.uid) => fun e => h e.symm)).1 h2

/-- **`agg_perm`** (fragment, PARTIAL).  Full statement: for a permutation `cs'` of `cs`,
`(aggregateAll cs).map view = (aggregateAll cs').map view` (verdict and name→tree view, order of
imports excluded).  Proved: when both orders succeed, every contributor's merged import is the
same type up to the order of exports (each is a subtype of the other).  Missing: that one order
succeeds iff the other does (needs the failure direction `fails_iff_incompatible`, evaluated by
the driver on every case). -/
theorem agg_perm_partial (cs cs' : List Req) (hp : cs.Perm cs') (hf : fragB cs = true) (A A' : AggState)
    (h : aggregateAll cs Agg.empty = .ok A) (h' : aggregateAll cs' Agg.empty = .ok A')
    (r : Req) (hr : r ∈ cs) (m m' : Tree) (hm : MergedTree A r.1 m) (hm' : MergedTree A' r.1 m') :
    sub m m' = true ∧ sub m' m = true := by
  have hf' := fragB_perm hp hf
  have hG := frag_invariant cs hf A h
  have hG' := frag_invariant cs' hf' A' h'
  obtain ⟨G, hmem, hfG⟩ := mem_withForests (fun r hr => ((fragB_spec hf).1 r hr).1) hr
  have hsame : ∀ p, p ∈ (withForests cs).reverse ↔ p ∈ (withForests cs').reverse := by
    intro p
    simp only [List.mem_reverse, withForests]
    exact (hp.filterMap _).mem_iff
  obtain ⟨F, hF, _⟩ := hG.tinv.sat (r, G) (by simpa using hmem)
  obtain ⟨F', hF', _⟩ := hG'.tinv.sat (r, G) ((hsame _).1 (by simpa using hmem))
  rw [mergedTree_det hm (impForest_merged hF), mergedTree_det hm' (impForest_merged hF')]
  exact ginv_equiv hG hG' hsame (q := (r, G)) (by simpa using hmem) hF hF'

example : exList.Perm exList.reverse ∧ (aggregateAll exList Agg.empty).toOption.isSome = true ∧
    (aggregateAll exList.reverse Agg.empty).toOption.isSome = true :=
  ⟨(List.reverse_perm _).symm, by decide +kernel, by decide +kernel⟩

/-! ### target 5: names -/

/-- **`lower_redirected`** (fragment; arbitrary many versions, chains included): all
semver-compatible requirement names end up at one import; a name that is not the import's name is
redirected to it directly (no chain is left) and is not an import itself. -/
theorem lower_redirected (cs : List Req) (hf : fragB cs = true) (A : AggState)
    (h : aggregateAll cs Agg.empty = .ok A) (r r' : Req) (hr : r ∈ cs) (hr' : r' ∈ cs)
    (hc : compat r'.1 r.1 = true) :
    A.agg.canonical r'.1 = A.agg.canonical r.1 ∧ (amGet A.agg.imports (A.agg.canonical r.1)).isSome = true ∧
      (r'.1 ≠ A.agg.canonical r.1 → amGet A.agg.redirects r'.1 = some (A.agg.canonical r.1) ∧
        amGet A.agg.imports r'.1 = none) := by
  have hG := frag_invariant cs hf A h
  have hall' := (fragB_spec hf).1
  obtain ⟨G, hmem, _⟩ := mem_withForests (fun r hr => (hall' r hr).1) hr
  obtain ⟨G', hmem', _⟩ := mem_withForests (fun r hr => (hall' r hr).1) hr'
  have hS : ∀ q : Req × Forest, q ∈ withForests cs → q.1.1 ∈ ((withForests cs).reverse.map (·.1.1)) := by
    intro q hq; simp only [List.map_reverse, List.mem_reverse, List.mem_map]; exact ⟨q, hq, rfl⟩
  have hcl : canon A.agg.redirects r'.1 = canon A.agg.redirects r.1 :=
    (hG.ninv.canon_eq_iff (hS (r', G') hmem') (hS (r, G) hmem)).2 hc
  refine ⟨hcl, hG.ninv.canon_imported (hS (r, G) hmem), ?_⟩
  intro hne
  have hne' : r'.1 ≠ canon A.agg.redirects r'.1 := by rw [hcl]; exact hne
  cases hrd : amGet A.agg.redirects r'.1 with
  | none => exact absurd (by unfold canon; rw [hrd]; rfl) hne'
  | some b =>
    have hb : canon A.agg.redirects r'.1 = b := by unfold canon; rw [hrd]; rfl
    refine ⟨?_, (hG.ninv.red r'.1 b hrd).1⟩
    show some b = some (canon A.agg.redirects r.1)
    rw [← hcl, hb]

example : compat rC.1 rA.1 = true ∧ rC ∈ exList ∧ rA ∈ exList := by decide

/-- **`canonical_highest`** (fragment; arbitrary version lists): the canonical name of a
requirement is one of the requirement names of its class, is imported, and no name of the class
has a higher version. -/
theorem canonical_highest (cs : List Req) (hf : fragB cs = true) (A : AggState)
    (h : aggregateAll cs Agg.empty = .ok A) (r : Req) (hr : r ∈ cs) :
    (∃ r0, r0 ∈ cs ∧ r0.1 = A.agg.canonical r.1 ∧ compat r0.1 r.1 = true) ∧
    ∀ r', r' ∈ cs → compat r'.1 r.1 = true → ∀ k v' vh, altKey r'.1 = some (k, v') →
      altKey (A.agg.canonical r.1) = some (k, vh) → ¬ vh.lt v' = true := by
  have hG := frag_invariant cs hf A h
  have hall' := (fragB_spec hf).1
  obtain ⟨G, hmem, _⟩ := mem_withForests (fun r hr => (hall' r hr).1) hr
  have hS : ∀ q : Req × Forest, q ∈ withForests cs → q.1.1 ∈ ((withForests cs).reverse.map (·.1.1)) := by
    intro q hq; simp only [List.map_reverse, List.mem_reverse, List.mem_map]; exact ⟨q, hq, rfl⟩
  constructor
  · -- the canonical name is imported, hence was seen
    have hin := hG.ninv.from_ _ (hG.ninv.canon_imported (hS (r, G) hmem))
    simp only [List.map_reverse, List.mem_reverse, List.mem_map] at hin
    obtain ⟨q, hq, hqn⟩ := hin
    obtain ⟨hqm, _⟩ := withForests_mem hq
    refine ⟨q.1, hqm, hqn, ?_⟩
    rw [hqn]
    refine (hG.ninv.canon_eq_iff (by rw [← hqn]; exact hS q hq) (hS (r, G) hmem)).1 ?_
    show canon A.agg.redirects (canon A.agg.redirects r.1) = canon A.agg.redirects r.1
    exact hG.ninv.canon_self (hG.ninv.canon_imported (hS (r, G) hmem))
  · intro r' hr' hc k v' vh hk' hkh
    obtain ⟨hcl, _, _⟩ := lower_redirected cs hf A h r r' hr hr' hc
    obtain ⟨vh', hkc, hnlt⟩ := hG.ninv.canon_key (n := r'.1) hk'
    rw [show canon A.agg.redirects r'.1 = A.agg.canonical r.1 from hcl, hkh] at hkc
    cases hkc
    exact hnlt

/-! ### target 3: equal requirements, idempotence -/

/-- **`equal_merge_self`** (all function and value requirements, any state): merging a function
or value requirement into an existing import of that kind never changes the aggregator — the
import stays what it was (only the checker's memo may grow); so equal requirements merge to
themselves. -/
theorem equal_merge_self (types : Types) (s s' : AggState) (e i : Nat) (ev v : ValueType) :
    (mergeKind (.func e) types (.func i) s = .ok ((), s') → s'.agg = s.agg) ∧
    (mergeKind (.value ev) types (.value v) s = .ok ((), s') → s'.agg = s.agg) := by
  have hq : ∀ (at_ : Types) (a : ItemKind) (bt : Types) (b : ItemKind) (s s' : AggState) (u : Unit),
      chkSubtypeQ at_ a bt b s = .ok (u, s') → s'.agg = s.agg := by
    intro at_ a bt b s s' u h
    simp only [chkSubtypeQ, bind_ok, run_chkSubtype] at h
    obtain ⟨r, s1, h1, h2⟩ := h
    have hs1 : s1.agg = s.agg := by
      cases hr : isSubtype (checkFuel at_ bt) s.chk at_ a bt b with
      | mk r0 c' =>
        rw [hr] at h1
        cases r0 <;> simp only [Except.ok.injEq, Prod.mk.injEq, reduceCtorEq] at h1
        · rw [← h1.2]
        · rw [← h1.2]
    cases r <;> simp only [run_bail, run_pure, Except.ok.injEq, Prod.mk.injEq, reduceCtorEq] at h2
    · rw [← h2.2]; exact hs1
    · rw [← h2.2]; exact hs1
  constructor
  · intro h
    simp only [mergeKind, mergeFunc, bind_ok, run_getAgg, Except.ok.injEq, Prod.mk.injEq] at h
    obtain ⟨_, _, ⟨rfl, rfl⟩, _, _, ⟨rfl, rfl⟩, u1, s1, h1, _, _, ⟨rfl, rfl⟩, h2⟩ := h
    rw [hq _ _ _ _ _ _ _ h2, hq _ _ _ _ _ _ _ h1]
  · intro h
    simp only [mergeKind, mergeValue, bind_ok, run_getAgg, Except.ok.injEq, Prod.mk.injEq] at h
    obtain ⟨_, _, ⟨rfl, rfl⟩, _, _, ⟨rfl, rfl⟩, u1, s1, h1, _, _, ⟨rfl, rfl⟩, h2⟩ := h
    rw [hq _ _ _ _ _ _ _ h2, hq _ _ _ _ _ _ _ h1]

/-- **`agg_idempotent`** (fragment, PARTIAL).  Full statement: aggregating the same requirement
twice changes nothing observable.  Proved: if a contributor of the list is aggregated once more
and that succeeds, every requirement name keeps its canonical name and its merged import is the
same type up to the order of exports.  Missing: that the second aggregation cannot fail (no
totality theorem for the model). -/
theorem agg_idempotent_partial (cs : List Req) (hf : fragB cs = true) (A A' : AggState)
    (h : aggregateAll cs Agg.empty = .ok A) (r : Req) (hr : r ∈ cs)
    (h' : aggregate r.1 r.2.1 r.2.2 A = .ok ((), A'))
    (q : Req) (hq : q ∈ cs) (m m' : Tree) (hm : MergedTree A q.1 m) (hm' : MergedTree A' q.1 m') :
    sub m m' = true ∧ sub m' m = true := by
  have hG := frag_invariant cs hf A h
  obtain ⟨hall, hpw⟩ := fragB_spec hf
  obtain ⟨G, hmem, hfG⟩ := mem_withForests (fun r hr => (hall r hr).1) hr
  obtain ⟨Gq, hmemq, hfGq⟩ := mem_withForests (fun r hr => (hall r hr).1) hq
  have hmem0 : (r, G) ∈ (withForests cs).reverse := by simpa using hmem
  have hG' : GInv (collsOf cs (fragB_spec hf).2) ((r, G) :: (withForests cs).reverse) A' :=
    (ginv_step hG (flatForest_spec hfG).1 ⟨r, hr, rfl⟩
      (fun hn => absurd (List.mem_map.2 ⟨(r, G), hmem0, rfl⟩) hn) h').1
  have hsame : ∀ p, p ∈ (withForests cs).reverse ↔ p ∈ (r, G) :: (withForests cs).reverse := by
    intro p
    constructor
    · exact fun hp => List.mem_cons_of_mem _ hp
    · intro hp
      rcases List.mem_cons.1 hp with rfl | hp
      · exact hmem0
      · exact hp
  have hmemq0 : (q, Gq) ∈ (withForests cs).reverse := by simpa using hmemq
  obtain ⟨F, hF, _⟩ := hG.tinv.sat (q, Gq) hmemq0
  obtain ⟨F', hF', _⟩ := hG'.tinv.sat (q, Gq) ((hsame _).1 hmemq0)
  rw [mergedTree_det hm (impForest_merged hF), mergedTree_det hm' (impForest_merged hF')]
  exact ginv_equiv hG hG' hsame (q := (q, Gq)) hmemq0 hF hF'

/-- aggregating `rA` once more after the whole list succeeds -/
example : (∃ A, aggregateAll exList Agg.empty = .ok A) ∧ (∃ A', aggregateAll (exList ++ [rA]) Agg.empty = .ok A') :=
  ⟨ok_of_isSome (by decide +kernel), ok_of_isSome (by decide +kernel)⟩

/-- every reachable import is a legal target of a flat merge (`TState`: the hypothesis of
`merge_interface_upper_bound`) -/
theorem frag_tstate (cs : List Req) (hf : fragB cs = true) (A : AggState)
    (h : aggregateAll cs Agg.empty = .ok A) (r : Req) (hr : r ∈ cs) :
    ∃ e F, amGet A.agg.imports (A.agg.canonical r.1) = some (.instance e) ∧
      TState (collsOf cs (fragB_spec hf).2) e A F := by
  have hG := frag_invariant cs hf A h
  obtain ⟨G, hmem, _⟩ := mem_withForests (fun r hr => ((fragB_spec hf).1 r hr).1) hr
  obtain ⟨F, ⟨e, ti, h1, h2, h3, h4⟩, _⟩ := hG.tinv.sat (r, G) (by simpa using hmem)
  exact ⟨e, F, h1, hG.tinv.ainv, ⟨ti, h2, h3⟩, h4⟩

/-! ### target 1: one `merge_interface` call on flat interfaces -/

/-- **`merge_interface_upper_bound` / `instance_merge_union`** (flat, resource-free; the success
half of `fails_iff_incompatible`).  Target interface `e` of the aggregator unfolds to the forest
`F`, source interface `id` of a contributor's collection to `G` (both flat: functions and values,
no `uses`).  If `merge_interface` succeeds, the merged target unfolds to `R` where
`.instance R = meet (.instance F) (.instance G)` (the specification's greatest common subtype),
`R` is a subtype of both, the greatest such, its export names are the union, shared names carried
equal types (`Consistent`), and the invariants and the rest of the aggregator are unchanged
(`MStep`).  Missing for the full `fails_iff_incompatible`: that an error implies an inconsistent
shared name (no totality/failure analysis of the model). -/
theorem merge_interface_upper_bound {W : Colls} {types : Types} (hW : W.mem types) (hs : Sane types) {e : Nat}
    (fuel id : Nat) (s s' : AggState) (F G : Forest) (si : Interface)
    (hT : TState W e s F) (hsi : types.interfaces[id]? = some si) (huses : si.uses = [])
    (hleaf : ∀ x, x ∈ si.exports → LeafK x.2)
    (hG : unfoldItems (types.unfoldKind types.fuel) si.exports = some G) (hGnd : G.namesDistinct = true)
    (h : mergeInterface fuel e types id s = .ok ((), s')) :
    ∃ R, TState W e s' R ∧ MStep types.uid e s s' ∧
      meet (.instance F) (.instance G) = some (.instance R) ∧
      sub (.instance R) (.instance F) = true ∧ sub (.instance R) (.instance G) = true ∧
      (∀ X, X.namesDistinct = true → sub X (.instance F) = true → sub X (.instance G) = true →
        sub X (.instance R) = true) ∧
      (∀ k, R.hasName k = (F.hasName k || G.hasName k)) ∧ Consistent F G := by
  obtain ⟨hm, hT', hc⟩ := mergeInterface_flat hW hs fuel id s s' F G si hT hsi huses hleaf hG hGnd h
  have hkF := keysNd_of_nd F hT.nd
  -- the target forest is flat
  have heq : eqF F = true := by
    obtain ⟨ti, hti, hflat⟩ := hT.itf
    obtain ⟨n, hn⟩ := hflat.unf
    have : ∀ (E : List (Str × ItemKind)) (F : Forest), (∀ x, x ∈ E → LeafK x.2) →
        unfoldItems (s.agg.types.unfoldKind n) E = some F → eqF F = true := by
      intro E
      induction E with
      | nil => intro F _ hF; simp [unfoldItems] at hF; subst hF; rfl
      | cons x E ih =>
        obtain ⟨nm, k⟩ := x
        intro F hl hF
        obtain ⟨t, fr, h1, h2, rfl⟩ := unfoldItems_cons nm k E F hF
        simp only [eqF, Bool.and_eq_true]
        exact ⟨eqKind_unfoldLeaf (hl (nm, k) List.mem_cons_self) h1, ih fr (fun x hx => hl x (List.mem_cons_of_mem _ hx)) h2⟩
    exact this ti.exports F hflat.leaf hn
  exact ⟨appendMissing F G, hT', hm, meet_flat F G heq hkF hc, flat_merge_lower_left F G hT.nd (keysNd_of_nd G hGnd),
    flat_merge_lower_right F G hkF hGnd hc, fun X hX h1 h2 => flat_merge_greatest F G X hX h1 h2,
    flat_merge_names F G, hc⟩

/-- **`fails_iff_incompatible` for one `merge_interface` call** (flat, with the repaired
configuration and the fuel `aggregate` passes): the call never panics, and it succeeds exactly
when the two interfaces give every export name they share the same type. -/
theorem merge_interface_fails_iff {W : Colls} {types : Types} (hW : W.mem types) (hs : Sane types) {e : Nat}
    (fuel id : Nat) (s : AggState) (F G : Forest) (si : Interface)
    (hT : TState W e s F) (hcfg : s.cfg.remapReplaced = true) (hfuel : 2 * types.fuel + 2 ≤ fuel)
    (hsi : types.interfaces[id]? = some si) (huses : si.uses = [])
    (hleaf : ∀ x, x ∈ si.exports → LeafK x.2)
    (hG : unfoldItems (types.unfoldKind types.fuel) si.exports = some G) (hGnd : G.namesDistinct = true) :
    ((∃ s', mergeInterface fuel e types id s = .ok ((), s')) ↔ Consistent F G) ∧
    (∀ err, mergeInterface fuel e types id s = .error err → ∃ m, err = .err m) := by
  rcases mergeInterface_flat_total hW hs fuel id s F G si hT hcfg hfuel hsi huses hleaf hG hGnd with
    ⟨s', h⟩ | ⟨m, h, hnc⟩
  · refine ⟨⟨fun _ => (mergeInterface_flat hW hs fuel id s s' F G si hT hsi huses hleaf hG hGnd h).2.2,
      fun _ => ⟨s', h⟩⟩, fun err he => ?_⟩
    rw [h] at he; cases he
  · refine ⟨⟨fun ⟨s', h'⟩ => ?_, fun hc => absurd hc hnc⟩, fun err he => ?_⟩
    · rw [h] at h'; cases h'
    · rw [h] at he; cases he; exact ⟨m, rfl⟩

/-- the hypotheses are satisfiable on a non-trivial input: after aggregating `rA` its import is a
legal target (`frag_tstate`), `cB`'s interface is a flat source, and the merge succeeds -/
example : fragB [rA] = true ∧ Sane cB ∧ (∃ A, aggregateAll [rA] Agg.empty = .ok A) ∧
    ((aggregateAll [rA] Agg.empty).toOption.bind fun A =>
      (mergeInterface (aggFuel A.agg cB) 0 cB 0 A).toOption.map fun _ => ()) = some () :=
  ⟨by decide +kernel, sane_of_saneB (by decide +kernel), ok_of_isSome (by decide +kernel), by decide +kernel⟩

/-! ### totality, `fails_iff_incompatible`, and the full order-independence theorems -/

/-- the state reached has the configuration it started with, and satisfies the invariant -/
theorem frag_invariant_cfg (cs : List Req) (hf : fragB cs = true) (A : AggState)
    (h : aggregateAll cs Agg.empty = .ok A) : A.cfg = Agg.empty.cfg := by
  obtain ⟨hall, hpw⟩ := fragB_spec hf
  have hmap := withForests_map (fun r hr => (hall r hr).1)
  exact (ginv_all (W := collsOf cs hpw) (withForests cs) [] Agg.empty A
    (ginv_empty _ (by rintro C ⟨r, hr, rfl⟩; exact (hall r hr).2))
    (by
      intro p hp
      obtain ⟨hm, hfp⟩ := withForests_mem hp
      exact ⟨(flatForest_spec hfp).1, p.1, hm, rfl⟩)
    (by intro p _ q hq; cases hq)
    (by
      have : ((withForests cs).map (·.1)).Pairwise (fun a b : Req => a.2.1.uid ≠ b.2.1.uid) := by
        rw [hmap]; exact hpw
      exact (List.pairwise_map (f := fun p : Req × Forest => p.1) (R := fun a b : Req => a.2.1.uid ≠ b.2.1.uid)).1 this)
    (by rw [hmap]; exact h)).2

/-- **`fails_iff_incompatible`** (fragment, full): aggregation never panics; it succeeds exactly
when every two semver-compatible requirements give every export name they share the same type
(`CompatAll`, an order-independent condition); otherwise it returns an error. -/
theorem fails_iff_incompatible (cs : List Req) (hf : fragB cs = true) :
    ((∃ A, aggregateAll cs Agg.empty = .ok A) ↔ CompatAll (withForests cs)) ∧
    (∀ e, aggregateAll cs Agg.empty = .error e → ∃ m, e = .err m) := by
  obtain ⟨hall, hpw⟩ := fragB_spec hf
  have hmap := withForests_map (fun r hr => (hall r hr).1)
  have := aggregateAll_total (W := collsOf cs hpw) (withForests cs) [] Agg.empty
    (ginv_empty _ (by rintro C ⟨r, hr, rfl⟩; exact (hall r hr).2)) rfl
    (by
      intro p hp
      obtain ⟨hm, hfp⟩ := withForests_mem hp
      exact ⟨(flatForest_spec hfp).1, p.1, hm, rfl⟩)
    (by intro p _ q hq; cases hq)
    (by
      have : ((withForests cs).map (·.1)).Pairwise (fun a b : Req => a.2.1.uid ≠ b.2.1.uid) := by
        rw [hmap]; exact hpw
      exact (List.pairwise_map (f := fun p : Req × Forest => p.1) (R := fun a b : Req => a.2.1.uid ≠ b.2.1.uid)).1 this)
  rw [hmap, compatFrom_nil_iff] at this
  exact this

/-- two requirement lists that disagree: `f` is `func(x: list<u8>) -> string` in `cA` but `func()` in `cD` -/
def cD : Types := { uid := 4, funcs := [{}], interfaces := [{ exports := [(['f'], .func 0)] }] }
def rD : Req := ("a:b/c@0.2.3".toList, cD, .instance 0)

/-- both directions are exercised: a compatible list succeeds, an incompatible one fails with an
error (not a panic), in every position of the offending requirement -/
example : fragB exList = true ∧ fragB [rA, rD] = true ∧
    (aggregateAll exList Agg.empty).toOption.isSome = true ∧
    (aggregateAll [rA, rD] Agg.empty).toOption.isSome = false ∧
    (aggregateAll [rD, rA] Agg.empty).toOption.isSome = false := by decide +kernel

/-- **`agg_perm`** (fragment, FULL): for a permutation of the contributors the verdict is the same
(`Ok` in one order iff `Ok` in the other; an error is never a panic) and, when it is `Ok`, every
contributor's merged import is the same type up to the order of its exports.  (The order of
`imports` and the error text may differ, as the property statement allows.) -/
theorem agg_perm (cs cs' : List Req) (hp : cs.Perm cs') (hf : fragB cs = true) :
    ((∃ A, aggregateAll cs Agg.empty = .ok A) ↔ (∃ A', aggregateAll cs' Agg.empty = .ok A')) ∧
    (∀ A A', aggregateAll cs Agg.empty = .ok A → aggregateAll cs' Agg.empty = .ok A' →
      ∀ r, r ∈ cs → ∀ m m', MergedTree A r.1 m → MergedTree A' r.1 m' → sub m m' = true ∧ sub m' m = true) := by
  have hf' := fragB_perm hp hf
  refine ⟨?_, fun A A' h h' r hr m m' hm hm' => agg_perm_partial cs cs' hp hf A A' h h' r hr m m' hm hm'⟩
  rw [(fails_iff_incompatible cs hf).1, (fails_iff_incompatible cs' hf').1]
  have hmem : ∀ p, p ∈ withForests cs ↔ p ∈ withForests cs' := fun p => (hp.filterMap _).mem_iff
  exact ⟨fun h p q hp' hq' hc => h p q ((hmem p).2 hp') ((hmem q).2 hq') hc,
    fun h p q hp' hq' hc => h p q ((hmem p).1 hp') ((hmem q).1 hq') hc⟩

example : exList.Perm [rC, rA, rB] ∧ fragB exList = true := ⟨by decide, by decide +kernel⟩

/-- **`agg_idempotent`** (fragment, FULL): after a successful aggregation, aggregating any of the
contributors once more succeeds and leaves every requirement's merged import the same type (up
to the order of exports). -/
theorem agg_idempotent (cs : List Req) (hf : fragB cs = true) (A : AggState)
    (h : aggregateAll cs Agg.empty = .ok A) (r : Req) (hr : r ∈ cs) :
    ∃ A', aggregate r.1 r.2.1 r.2.2 A = .ok ((), A') ∧
      ∀ q, q ∈ cs → ∀ m m', MergedTree A q.1 m → MergedTree A' q.1 m' → sub m m' = true ∧ sub m' m = true := by
  have hG := frag_invariant cs hf A h
  obtain ⟨hall, hpw⟩ := fragB_spec hf
  obtain ⟨G, hmem, hfG⟩ := mem_withForests (fun r hr => (hall r hr).1) hr
  have hmem0 : (r, G) ∈ (withForests cs).reverse := by simpa using hmem
  have hcfg : A.cfg.remapReplaced = true := by rw [frag_invariant_cfg cs hf A h]; rfl
  have hcompat := (fails_iff_incompatible cs hf).1.1 ⟨A, h⟩
  obtain ⟨_, hiff⟩ := aggregate_total hG hcfg (flatForest_spec hfG).1 ⟨r, hr, rfl⟩
    (fun hn => absurd (List.mem_map.2 ⟨(r, G), hmem0, rfl⟩) hn)
  obtain ⟨A', hA'⟩ := hiff.2 (fun q hq hc => hcompat (r, G) q hmem (by simpa using hq) hc)
  exact ⟨A', hA', fun q hq m m' hm hm' => agg_idempotent_partial cs hf A A' h r hr hA' q hq m m' hm hm'⟩

/-! ### outside the fragment: `type` exports of interface type (finding 8 of notes/C09.md) -/

/-- `i: instance { t: type instance { a: func() } }` -/
def uA : Types :=
  { uid := 1, funcs := [{}], interfaces := [{ exports := [(['a'], .func 0)] }, { exports := [(['t'], .type (.interface 0))] }] }
/-- `i: instance { t: type instance { a: func(), b: func() } }` -/
def uB : Types :=
  { uid := 2, funcs := [{}],
    interfaces := [{ exports := [(['a'], .func 0), (['b'], .func 0)] }, { exports := [(['t'], .type (.interface 0))] }] }

/-- the aggregator before repair `fix: type exports of interface type are merged …` -/
def Agg.beforeTypeMerge : AggState := { agg := {}, chk := {}, cfg := { typeMerge := false } }

def mergedTreeOf (s0 : AggState) (reqs : List Req) (n : Str) : Option Tree :=
  match aggregateAll reqs s0 with
  | .ok s => (amGet s.agg.imports (s.agg.canonical n)).bind s.agg.types.unfold
  | .error _ => none

/-! ### inside the fragment: `type` exports of value types and of function types -/

/-- `t:y/pe: instance { r: type record { x: u8 }, ft: type func(), f: func() }` -/
def cT1 : Types :=
  { uid := 5, defined := [.record [(['x'], .prim .u8)]], funcs := [{}],
    interfaces := [{ exports := [(['r'], .type (.value (.defined 0))), (['f', 't'], .type (.func 0)), (['f'], .func 0)] }] }
/-- `t:y/pe: instance { p: type u8, r: type record { x: u8 } }` -/
def cT2 : Types :=
  { uid := 6, defined := [.record [(['x'], .prim .u8)]],
    interfaces := [{ exports := [(['p'], .type (.value (.prim .u8))), (['r'], .type (.value (.defined 0)))] }] }
/-- `t:y/pe: instance { r: value record { x: u8 } }` (a value export, not a `type` export) -/
def cT3 : Types :=
  { uid := 7, defined := [.record [(['x'], .prim .u8)]], interfaces := [{ exports := [(['r'], .value (.defined 0))] }] }
/-- `t:y/pe: instance { r: type record { x: u16 } }` -/
def cT4 : Types :=
  { uid := 8, defined := [.record [(['x'], .prim .u16)]], interfaces := [{ exports := [(['r'], .type (.value (.defined 0)))] }] }
def rT1 : Req := ("t:y/pe".toList, cT1, .instance 0)
def rT2 : Req := ("t:y/pe".toList, cT2, .instance 0)
def rT3 : Req := ("t:y/pe".toList, cT3, .instance 0)
def rT4 : Req := ("t:y/pe".toList, cT4, .instance 0)

/-- requirements with `type` exports of record / primitive / function types are in the fragment
(so all the theorems above apply to them): equal types merge in both orders, to the four names;
a `type` export against a value export of the same name, or against a different record, fails -/
example : fragB [rT1, rT2] = true ∧ fragB [rT1, rT3] = true ∧ fragB [rT4, rT1] = true ∧
    (aggregateAll [rT1, rT2] Agg.empty).toOption.isSome = true ∧
    (aggregateAll [rT2, rT1] Agg.empty).toOption.isSome = true ∧
    (mergedTreeOf Agg.empty [rT1, rT2] rT1.1).map (fun m => subNames m ((cT2.unfold (.instance 0)).getD .none)) = some true ∧
    (aggregateAll [rT1, rT3] Agg.empty).toOption.isSome = false ∧
    (aggregateAll [rT4, rT1] Agg.empty).toOption.isSome = false := by decide +kernel

/-- **`agg_upper_bound` was false for `type` exports of interface type** (found by the proof
attempt, confirmed on the real `TypeAggregator`, witnesses `c09x-1`/`c09x-2` of
harness/src/bin/c09x.rs): aggregation succeeds in both orders and keeps the WIDER type `{a}` for
`t`, which contributor B (`{a, b}`) is not satisfied by. -/
theorem type_export_upper_bound_counterexample :
    (mergedTreeOf Agg.beforeTypeMerge [(['i'], uA, .instance 1), (['i'], uB, .instance 1)] ['i']).map
      (fun m => subNames m ((uB.unfold (.instance 1)).getD .none)) = some false ∧
    (mergedTreeOf Agg.beforeTypeMerge [(['i'], uB, .instance 1), (['i'], uA, .instance 1)] ['i']).map
      (fun m => subNames m ((uB.unfold (.instance 1)).getD .none)) = some false := by
  constructor <;> decide +kernel

/-- with the repair the same requirements merge to the union under `t`, in both orders -/
theorem type_export_fixed_witness :
    (mergedTreeOf Agg.empty [(['i'], uA, .instance 1), (['i'], uB, .instance 1)] ['i']).map
      (fun m => subNames m ((uA.unfold (.instance 1)).getD .none) && subNames m ((uB.unfold (.instance 1)).getD .none)) = some true ∧
    (mergedTreeOf Agg.empty [(['i'], uB, .instance 1), (['i'], uA, .instance 1)] ['i']).map
      (fun m => subNames m ((uA.unfold (.instance 1)).getD .none) && subNames m ((uB.unfold (.instance 1)).getD .none)) = some true := by
  constructor <;> decide +kernel

end Wac.Props.C09General
