import WacProofs.Lemmas.NameMap
import WacProofs.Lemmas.VersionInj
/-
  C15 — semver-compatible name matching is the semver track relation; highest wins.

  Model: `Wac.compat`, `Wac.NameMap.{insert,get}` (WacModel/Names.lean, transcribing names.rs).
  Specification: `Wac.Spec.{trackOf, compatSpec, getSpec}` (WacModel/Spec/Names.lean).
-/
namespace Wac.Props.C15
open Wac Wac.Spec

/-- C15, first sentence, for all strings: the string-slicing implementation of
`are_semver_compatible` decides exactly "identical, or same base name and both release
versions on the same compatibility track". -/
theorem compat_eq_spec (a b : Str) : compat a b = compatSpec a b := by
  unfold compat compatSpec
  by_cases hab : a = b
  · subst hab; simp
  · have hne : (a == b) = false := by simpa using hab
    simp only [hne, Bool.false_eq_true, ↓reduceIte, Bool.false_or]
    have ha := altKey_track a
    have hb := altKey_track b
    cases hka : altKey a with
    | none =>
      rw [hka] at ha
      cases hta : trackOf a with
      | none => simp
      | some t => rw [hta] at ha; exact ha.elim
    | some kv =>
      obtain ⟨ka, va⟩ := kv
      rw [hka] at ha
      cases hta : trackOf a with
      | none => rw [hta] at ha; exact ha.elim
      | some ta =>
        rw [hta] at ha
        cases hkb : altKey b with
        | none =>
          rw [hkb] at hb
          cases htb : trackOf b with
          | none => simp
          | some t => rw [htb] at hb; exact hb.elim
        | some kv' =>
          obtain ⟨kb, vb⟩ := kv'
          rw [hkb] at hb
          cases htb : trackOf b with
          | none => rw [htb] at hb; exact hb.elim
          | some tb =>
            rw [htb] at hb
            have := keyRep_eq_iff ha.1 hb.1
            simp only
            by_cases hk : ka = kb
            · simp [hk, this.mp hk]
            · have hne' : ta ≠ tb := fun h => hk (this.mpr h)
              have e1 : (ka == kb) = false := beq_eq_false_iff_ne.mpr hk
              have e2 : (ta == tb) = false := beq_eq_false_iff_ne.mpr hne'
              rw [e1, e2]

/-- the same statement unfolded: compatible iff identical or on one track -/
theorem compat_iff (a b : Str) :
    compat a b = true ↔ a = b ∨ ∃ t, trackOf a = some t ∧ trackOf b = some t := by
  rw [compat_eq_spec]; unfold compatSpec
  simp only [Bool.or_eq_true, beq_iff_eq]
  constructor
  · rintro (h | h)
    · exact .inl h
    · right
      cases hta : trackOf a with
      | none => simp [hta] at h
      | some ta =>
        cases htb : trackOf b with
        | none => simp [hta, htb] at h
        | some tb =>
          simp [hta, htb] at h; exact ⟨ta, rfl, by rw [h]⟩
  · rintro (h | ⟨t, h1, h2⟩)
    · exact .inl h
    · right; simp [h1, h2]

-- non-vacuity: a pair that is compatible without being identical, and a pair on different tracks
example : compat "a:b/c@0.2.0".toList "a:b/c@0.2.7+meta".toList = true := by decide
example : compat "a:b/c@0.2.0".toList "a:b/c@0.3.0".toList = false := by decide
example : compat "a:b/c@1.2.0".toList "a:b/c@1.9.3".toList = true := by decide
example : compat "a:b/c@1.2.0-rc".toList "a:b/c@1.9.3".toList = false := by decide
example : compat "a:b/c@0.0.1".toList "a:b/c@0.0.2".toList = false := by decide

theorem compat_refl (a : Str) : compat a a = true := by
  rw [compat_iff]; exact .inl rfl

theorem compat_symm (a b : Str) : compat a b = compat b a := by
  have h : ∀ x y, compat x y = true → compat y x = true := by
    intro x y h
    rw [compat_iff] at h ⊢
    rcases h with h | ⟨t, h1, h2⟩
    · exact .inl h.symm
    · exact .inr ⟨t, h2, h1⟩
  cases hab : compat a b with
  | true => exact (h a b hab).symm
  | false =>
    cases hba : compat b a with
    | true => rw [h b a hba] at hab; cases hab
    | false => rfl

theorem compat_trans (a b c : Str) (h1 : compat a b = true) (h2 : compat b c = true) :
    compat a c = true := by
  rw [compat_iff] at h1 h2 ⊢
  rcases h1 with rfl | ⟨t, ha, hb⟩
  · exact h2
  · rcases h2 with rfl | ⟨t', hb', hc⟩
    · exact .inr ⟨t, ha, hb⟩
    · rw [hb] at hb'; cases hb'
      exact .inr ⟨t, ha, hc⟩

/-- never compatible across base names, for pre-releases or for 0.0.x -/
theorem compat_distinct_needs_track (a b : Str) (hne : a ≠ b) (h : compat a b = true) :
    ∃ t, trackOf a = some t ∧ trackOf b = some t := by
  rw [compat_iff] at h
  rcases h with h | h
  · exact absurd h hne
  · exact h

/-! ### The semver-aware name map -/

variable {β : Type}

/-- inserting pairwise distinct names never fails -/
theorem insertAll_succeeds (es : List (Str × β)) (hnd : (es.map (·.1)).Nodup) :
    ∃ m, ({} : NameMap β).insertAll es = some m :=
  insertAll_ok es {} hnd (by intro n _; rfl)

/-- C15, second sentence (for every insertion sequence of pairwise distinct names and every
query): an exact match is returned when one exists; otherwise an entry of the requested track
that no entry of that track exceeds in version; nothing when the query has no track or the
track has no entry. -/
theorem get_isGet (es : List (Str × β)) (m : NameMap β) (q : Str)
    (hnd : (es.map (·.1)).Nodup) (h : ({} : NameMap β).insertAll es = some m) :
    IsGet es q (m.get q) :=
  get_isGet_aux es m q hnd h

/-- exact match first -/
theorem get_exact_first (es : List (Str × β)) (m : NameMap β) (n : Str) (x : β)
    (hnd : (es.map (·.1)).Nodup) (h : ({} : NameMap β).insertAll es = some m) (hx : (n, x) ∈ es) :
    m.get n = some x := by
  have := get_isGet es m n hnd h
  unfold IsGet at this
  rw [show Spec.lookup es n = some x from mem_lookup hnd hx] at this
  exact this

/-- never an entry from another name or track -/
theorem get_never_other_track (es : List (Str × β)) (m : NameMap β) (q : Str) (x : β)
    (hnd : (es.map (·.1)).Nodup) (h : ({} : NameMap β).insertAll es = some m)
    (hget : m.get q = some x) :
    ∃ n, (n, x) ∈ es ∧ (n = q ∨ ∃ t, trackOf n = some t ∧ trackOf q = some t) := by
  have := get_isGet es m q hnd h
  unfold IsGet at this
  rw [hget] at this
  cases hl : Spec.lookup es q with
  | some y =>
    rw [hl] at this; cases this
    exact ⟨q, lookup_some_mem hl, .inl rfl⟩
  | none =>
    rw [hl] at this
    simp only at this
    cases ht : trackOf q with
    | none => rw [ht] at this; cases this
    | some t =>
      rw [ht] at this
      rcases this with ⟨h1, _⟩ | ⟨n, y, v, h1, h2, h3, _, _⟩
      · cases h1
      · cases h1; exact ⟨n, h2, .inr ⟨t, h3, rfl⟩⟩

/-- highest version on the track: no entry on the query's track is strictly higher than the one
returned by a fallback lookup -/
theorem get_highest_on_track (es : List (Str × β)) (m : NameMap β) (q : Str) (t : Track)
    (hnd : (es.map (·.1)).Nodup) (h : ({} : NameMap β).insertAll es = some m)
    (hq : q ∉ es.map (·.1)) (ht : trackOf q = some t) (hsome : ∃ e ∈ es, trackOf e.1 = some t) :
    ∃ n x v, m.get q = some x ∧ (n, x) ∈ es ∧ trackOf n = some t ∧ versionOf n = some v ∧
      ∀ e ∈ es, trackOf e.1 = some t → ∀ v', versionOf e.1 = some v' → ¬ (v.lt v' = true) := by
  have := get_isGet es m q hnd h
  unfold IsGet at this
  rw [(lookup_none_iff es q).mpr hq, ht] at this
  simp only at this
  rcases this with ⟨_, h2⟩ | h
  · obtain ⟨e, he, hte⟩ := hsome; exact absurd hte (h2 e he)
  · exact h

/-- distinct names of one track never occupy the same position of the version order (the order
is total on them): `Version.key` determines the version and an accepted version string is
determined by its version. -/
theorem no_ties (es : List (Str × β)) : TieFree es := tieFree_always es

/-- regardless of insertion order: any two insertion orders of the same pairwise distinct
entries answer every query alike -/
theorem get_order_independent (es es' : List (Str × β)) (m m' : NameMap β) (q : Str)
    (hnd : (es.map (·.1)).Nodup) (hp : es.Perm es')
    (h : ({} : NameMap β).insertAll es = some m) (h' : ({} : NameMap β).insertAll es' = some m') :
    m.get q = m'.get q := by
  have hnd' : (es'.map (·.1)).Nodup := (hp.map _).nodup_iff.mp hnd
  have a := get_isGet es m q hnd h
  have b := isGet_perm hp.symm hnd' q _ (get_isGet es' m' q hnd' h')
  exact isGet_unique hnd (no_ties es) q _ _ a b

/-- the model equals the executable specification the driver evaluates on the
implementation's answers -/
theorem get_eq_getSpec (es : List (Str × β)) (m : NameMap β) (q : Str)
    (hnd : (es.map (·.1)).Nodup)
    (h : ({} : NameMap β).insertAll es = some m) : m.get q = getSpec es q :=
  isGet_unique hnd (no_ties es) q _ _ (get_isGet es m q hnd h) (getSpec_isGet es q)

-- non-vacuity: three versions of one track inserted in two orders, a fourth on another track;
-- the hypotheses hold and the fallback answers with the highest (index 1 = 1.4.0)
def exEntries : List (Str × Nat) :=
  [("a:b/c@1.0.0".toList, 0), ("a:b/c@1.4.0".toList, 1), ("a:b/c@1.2.9".toList, 2), ("a:b/c@2.0.0".toList, 3)]
example : (exEntries.map (·.1)).Nodup := by decide
example : (({} : NameMap Nat).insertAll exEntries).map (·.get "a:b/c@1.1.0".toList) = some (some 1) := by decide
example : (({} : NameMap Nat).insertAll exEntries.reverse).map (·.get "a:b/c@1.1.0".toList) = some (some 1) := by decide
example : (({} : NameMap Nat).insertAll exEntries).map (·.get "a:b/c@3.0.0".toList) = some none := by decide
example : getSpec exEntries "a:b/c@1.1.0".toList = some 1 := by decide

end Wac.Props.C15
