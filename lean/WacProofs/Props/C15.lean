import WacProofs.Lemmas.Names
/-
  C15 — semver-compatible name matching is the semver track relation; highest wins.

  Model: `Wac.compat`, `Wac.NameMap.{insert,get}` (WacModel/Names.lean, transcribing names.rs).
  Specification: `Wac.Spec.{trackOf, compatSpec, getSpec}` (WacModel/Spec/Names.lean).
-/
namespace Wac.Props.C15
open Wac Wac.Spec

/-- C15, first sentence, for all strings: the string-slicing implementation of
`are_semver_compatible` decides exactly "identical, or same base name and both release
versions on the same compatibility track". -/
theorem compat_eq_spec (a b : Str) : compat a b = compatSpec a b := by
  unfold compat compatSpec
  by_cases hab : a = b
  · subst hab; simp
  · have hne : (a == b) = false := by simpa using hab
    simp only [hne, Bool.false_eq_true, ↓reduceIte, Bool.false_or]
    have ha := altKey_track a
    have hb := altKey_track b
    cases hka : altKey a with
    | none =>
      rw [hka] at ha
      cases hta : trackOf a with
      | none => simp
      | some t => rw [hta] at ha; exact ha.elim
    | some kv =>
      obtain ⟨ka, va⟩ := kv
      rw [hka] at ha
      cases hta : trackOf a with
      | none => rw [hta] at ha; exact ha.elim
      | some ta =>
        rw [hta] at ha
        cases hkb : altKey b with
        | none =>
          rw [hkb] at hb
          cases htb : trackOf b with
          | none => simp
          | some t => rw [htb] at hb; exact hb.elim
        | some kv' =>
          obtain ⟨kb, vb⟩ := kv'
          rw [hkb] at hb
          cases htb : trackOf b with
          | none => rw [htb] at hb; exact hb.elim
          | some tb =>
            rw [htb] at hb
            have := keyRep_eq_iff ha.1 hb.1
            simp only
            by_cases hk : ka = kb
            · simp [hk, this.mp hk]
            · have hne' : ta ≠ tb := fun h => hk (this.mpr h)
              have e1 : (ka == kb) = false := beq_eq_false_iff_ne.mpr hk
              have e2 : (ta == tb) = false := beq_eq_false_iff_ne.mpr hne'
              rw [e1, e2]

/-- the same statement unfolded: compatible iff identical or on one track -/
theorem compat_iff (a b : Str) :
    compat a b = true ↔ a = b ∨ ∃ t, trackOf a = some t ∧ trackOf b = some t := by
  rw [compat_eq_spec]; unfold compatSpec
  simp only [Bool.or_eq_true, beq_iff_eq]
  constructor
  · rintro (h | h)
    · exact .inl h
    · right
      cases hta : trackOf a with
      | none => simp [hta] at h
      | some ta =>
        cases htb : trackOf b with
        | none => simp [hta, htb] at h
        | some tb =>
          simp [hta, htb] at h; exact ⟨ta, rfl, by rw [h]⟩
  · rintro (h | ⟨t, h1, h2⟩)
    · exact .inl h
    · right; simp [h1, h2]

-- non-vacuity: a pair that is compatible without being identical, and a pair on different tracks
example : compat "a:b/c@0.2.0".toList "a:b/c@0.2.7+meta".toList = true := by decide
example : compat "a:b/c@0.2.0".toList "a:b/c@0.3.0".toList = false := by decide
example : compat "a:b/c@1.2.0".toList "a:b/c@1.9.3".toList = true := by decide
example : compat "a:b/c@1.2.0-rc".toList "a:b/c@1.9.3".toList = false := by decide
example : compat "a:b/c@0.0.1".toList "a:b/c@0.0.2".toList = false := by decide

theorem compat_refl (a : Str) : compat a a = true := by
  rw [compat_iff]; exact .inl rfl

theorem compat_symm (a b : Str) : compat a b = compat b a := by
  have h : ∀ x y, compat x y = true → compat y x = true := by
    intro x y h
    rw [compat_iff] at h ⊢
    rcases h with h | ⟨t, h1, h2⟩
    · exact .inl h.symm
    · exact .inr ⟨t, h2, h1⟩
  cases hab : compat a b with
  | true => exact (h a b hab).symm
  | false =>
    cases hba : compat b a with
    | true => rw [h b a hba] at hab; cases hab
    | false => rfl

theorem compat_trans (a b c : Str) (h1 : compat a b = true) (h2 : compat b c = true) :
    compat a c = true := by
  rw [compat_iff] at h1 h2 ⊢
  rcases h1 with rfl | ⟨t, ha, hb⟩
  · exact h2
  · rcases h2 with rfl | ⟨t', hb', hc⟩
    · exact .inr ⟨t, ha, hb⟩
    · rw [hb] at hb'; cases hb'
      exact .inr ⟨t, ha, hc⟩

/-- never compatible across base names, for pre-releases or for 0.0.x -/
theorem compat_distinct_needs_track (a b : Str) (hne : a ≠ b) (h : compat a b = true) :
    ∃ t, trackOf a = some t ∧ trackOf b = some t := by
  rw [compat_iff] at h
  rcases h with h | h
  · exact absurd h hne
  · exact h

end Wac.Props.C15
