import WacModel.Spec.Names
namespace Wac.Props.C15
open Wac Wac.Spec

theorem compat_refl (a : Str) : compat a a = true := by
  simp [compat]

end Wac.Props.C15
