import WacModel.Parser
import WacModel.AstJson
import WacProofs.Lemmas.Screen
import WacProofs.Lemmas.ParseSpans2
/-
  C14 — no input crashes the front end; diagnostics point inside the source.

  What is proved here is about the model of the lexer and parser (WacModel/Lexer.lean,
  Parser.lean), for *every* source text:
    * totality: every model function is a total Lean function (structural recursion, fuel);
    * `lexer_spans_in_source`: every token span is exactly the byte range of the token's text;
    * `eof_span_in_source`: the end-of-input adjustment of `Lexer::span` yields a span inside the
      source on character boundaries (the last character; the empty span for an empty source);
    * `diagnostics_in_source`: the span of every diagnostic `Document::parse` can return lies
      inside the source, on character boundaries.
  Partial (kept visible below): boundaries for `InvalidVersion` (in-bounds is proved), the spans
  inside *trees*, fuel sufficiency and the unreachability of the model's `Panic` sites, the Rust
  stack — those are observed by the supervised harness and by the driver on every case.
-/
namespace Wac.Props.C14
open Wac Wac.Lex Wac.Parse Wac.Ast Wac.Lemmas Wac.Lemmas.LexSpans Wac.Lemmas.ParseSpans

/-- byte offset `n` is a character boundary of `src` -/
def IsBoundary (src : Str) (n : Nat) : Prop := ∃ pre post, src = pre ++ post ∧ n = utf8Len pre

/-- `sp` lies inside `src` and both its ends are character boundaries -/
def InSource (src : Str) (sp : Span) : Prop :=
  sp.offset + sp.len ≤ utf8Len src ∧ IsBoundary src sp.offset ∧ IsBoundary src (sp.offset + sp.len)

theorem goodSpan_inSource {src sp} (h : GoodSpan src sp) : InSource src sp := by
  obtain ⟨text, pre, post, rfl, h1, h2⟩ := h
  refine ⟨by simp [h1, h2], ⟨pre, text ++ post, by simp, h1⟩, ⟨pre ++ text, post, by simp, by simp [h1, h2]⟩⟩

/-- every token the lexer model produces is a slice of the source: its span is the byte range of
its text, hence inside the source and on character boundaries -/
theorem lexer_spans_in_source (src : Str) :
    ∀ t ∈ tokenize src, (∃ pre post, src = pre ++ t.text ++ post ∧ t.span = ⟨utf8Len pre, utf8Len t.text⟩) ∧
      InSource src t.span := by
  intro t ht
  have hs := tokenize_slices src t ht
  refine ⟨?_, goodSpan_inSource ⟨_, hs⟩⟩
  obtain ⟨pre, post, h0, h1, h2⟩ := hs
  exact ⟨pre, post, h0, by cases hsp : t.span; simp_all⟩

example : (tokenize "let é".toList).map (fun t => (t.span.offset, t.span.len)) = [(0, 3), (4, 2)] := by decide

/-- `Lexer::span` (with the end-of-input adjustment) always lies inside the source on character
boundaries, in every state the parser can reach -/
theorem eof_span_in_source {src : Str} {st : PState} (hi : Inv src st) : InSource src st.span :=
  goodSpan_inSource (span_good hi)

/-- at the end of the input the span is the last character, and empty for the empty source -/
example : ((PState.init "aé".toList).next.2.next.2.next.2.span, (PState.init []).span, (PState.init []).next.2.span) =
    (⟨1, 2⟩, ⟨0, 0⟩, ⟨0, 0⟩) := by decide

/-- C14 "every source location carried by a diagnostic lies within the source, on character
boundaries": for every text, whatever `Document::parse` (model) rejects it with.
FULL statement: `InSource src sp` for the span of every diagnostic.
Proved: that, for every diagnostic except `InvalidVersion`, for which only
`offset + len ≤ |src|` is proved (its span starts inside a token; the boundary needs the fact
that package tokens are ASCII, which is left to the correspondence). -/
theorem diagnostics_in_source_partial (src : Str) (e : ParseError) (h : parseDocument src = .error e) :
    match e with
    | .InvalidVersion _ sp => sp.offset + sp.len ≤ utf8Len src
    | e => ∀ sp, Wac.Json.errorSpan e = some sp → InSource src sp := by
  have hg : GoodErr src e := by
    unfold parseDocument at h
    cases hd : detectInvalidInput src with
    | some p =>
      obtain ⟨e0, sp⟩ := p
      simp [hd] at h
      obtain ⟨pre, c, post, h1, _, _, h4⟩ := (Wac.Lemmas.Screen.go_spec src 0).2 e0 sp (by simpa [detectInvalidInput] using hd)
      subst h
      exact ⟨[c], pre, post, by simp [h1], by simp [h4], by simp [h4]⟩
    | none =>
      simp [hd] at h
      exact parseTokens_err h
  cases e <;> simp only [GoodErr] at hg <;> first
    | exact hg
    | (intro sp hsp; simp [Wac.Json.errorSpan] at hsp; subst hsp; exact goodSpan_inSource hg)
    | (intro sp hsp; simp [Wac.Json.errorSpan] at hsp)

/-- the end-of-input diagnostics that used to point outside the source -/
example : (match parseDocument [] with
    | .error (.Expected .PackageKeyword none ⟨0, 0⟩) => true
    | _ => false) = true := by decide
example : (match parseDocument "package foo:bar // é".toList with
    | .error (.Expected .Semicolon none ⟨19, 2⟩) => true
    | _ => false) = true := by decide

end Wac.Props.C14
