import WacModel.Parser
/-
  C14 — no input crashes the front end; diagnostics point inside the source (first stage).
-/
namespace Wac.Props.C14
open Wac Wac.Lex Wac.Parse Wac.Ast

/-- `Lexer::span` on an empty source is the empty span at 0 -/
theorem eof_span_empty_source (st : PState) (h : st.src = []) (hl : st.srcLen = 0) (he : st.lastEnd = 0) :
    st.span = ⟨0, 0⟩ := by
  simp [PState.span, he, hl, h, charAt]

end Wac.Props.C14
