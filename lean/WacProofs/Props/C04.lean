import WacProofs.Lemmas.Names04
/-
  C04 — WAC documents compose what the language reference says they compose.
  Specification: `Wac.Lang.Spec.eval` (WacModel/Spec/Language.lean, written from LANGUAGE.md);
  model of resolution.rs: `Wac.Lang.Model.resolveModel` (WacModel/Resolve.lean).
-/
namespace Wac.Props.C04
open Wac.Lang Wac.Lang.Model Wac.Lemmas.C04

/-- `find_matching_interface_name name externs = Some(p)` exactly when `name` is not itself a key
    and `p` is the unique key that is an interface path whose last segment, version stripped, is
    `name` (`externs` are the keys of an `IndexMap`, hence without duplicates). -/
theorem unique_suffix_characterisation (n : Str) (m : List Str) (hm : m.Nodup) (p : Str) :
    findMatchingInterfaceName n m = some p ↔
      n ∉ m ∧ p ∈ m ∧ PathEndsWith n p ∧ ∀ q ∈ m, PathEndsWith n q → q = p := by
  unfold findMatchingInterfaceName
  by_cases hc : m.contains n = true
  · have : n ∈ m := by simpa using hc
    simp [this]
  · have hn : n ∉ m := by simpa using hc
    simp only [hc, Bool.false_eq_true, ↓reduceIte]
    have key := filter_eq_singleton (matchesInterfaceName n) m hm p
    simp only [matchesInterfaceName_iff] at key
    constructor
    · intro h
      have : m.filter (matchesInterfaceName n) = [p] := by
        match hl : m.filter (matchesInterfaceName n) with
        | [] => rw [hl] at h; cases h
        | [a] => rw [hl] at h; simp at h; rw [h]
        | _ :: _ :: _ => rw [hl] at h; cases h
      exact ⟨hn, key.mp this⟩
    · intro ⟨_, h⟩
      rw [key.mpr h]

/- non-vacuity: one versioned path among three keys -/
example : findMatchingInterfaceName "baz".toList ["a".toList, "foo:bar/baz@1.0.0".toList, "x:y/qux".toList]
    = some "foo:bar/baz@1.0.0".toList := by decide
/- ambiguity and the exact-name case give `none` -/
example : findMatchingInterfaceName "baz".toList ["foo:bar/baz".toList, "x:y/baz@2.0.0".toList] = none := by decide
example : findMatchingInterfaceName "baz".toList ["baz".toList, "foo:bar/baz".toList] = none := by decide

/-- The documented rule for identifiers (named arguments, access expressions, step 3 of inferred
    arguments) — "exactly one … path which ends with the local name → the path, otherwise the
    identifier" (`Spec.shortName`) — is what `find_matching_interface_name(..).unwrap_or(id)`
    computes, for every identifier and every list of names. -/
theorem short_name_rule (n : Str) (m : List Str) :
    Spec.shortName n m = (findMatchingInterfaceName n m).getD n := shortName_eq_model n m

example : Spec.shortName "input-stream".toList ["wasi:io/input-stream".toList, "x".toList] = "wasi:io/input-stream".toList := by decide

end Wac.Props.C04
