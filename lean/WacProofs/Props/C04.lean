import WacProofs.Lemmas.Stmt04
/-
  C04 — WAC documents compose what the language reference says they compose.
  Specification: `Wac.Lang.Spec.eval` (WacModel/Spec/Language.lean, written from LANGUAGE.md);
  model of resolution.rs: `Wac.Lang.Model.resolveModel` (WacModel/Resolve.lean).
  `Sim lib ms ss` (Lemmas/Sim04.lean) relates a state of the resolver model (scope + graph +
  package table) to a state of the reference evaluator (environment of values + composition).
-/
namespace Wac.Props.C04
open Wac.Lang Wac.Lang.Model Wac.Lemmas.C04

/-! ## names -/

/-- `find_matching_interface_name name externs = Some(p)` exactly when `name` is not itself a key
    and `p` is the unique key that is an interface path whose last segment, version stripped, is
    `name` (`externs` are the keys of an `IndexMap`, hence without duplicates). -/
theorem unique_suffix_characterisation (n : Str) (m : List Str) (hm : m.Nodup) (p : Str) :
    findMatchingInterfaceName n m = some p ↔
      n ∉ m ∧ p ∈ m ∧ PathEndsWith n p ∧ ∀ q ∈ m, PathEndsWith n q → q = p := by
  unfold findMatchingInterfaceName
  by_cases hc : m.contains n = true
  · have : n ∈ m := by simpa using hc
    simp [this]
  · have hn : n ∉ m := by simpa using hc
    simp only [hc, Bool.false_eq_true, ↓reduceIte]
    have key := filter_eq_singleton (matchesInterfaceName n) m hm p
    simp only [matchesInterfaceName_iff] at key
    constructor
    · intro h
      have : m.filter (matchesInterfaceName n) = [p] := by
        match hl : m.filter (matchesInterfaceName n) with
        | [] => rw [hl] at h; cases h
        | [a] => rw [hl] at h; simp at h; rw [h]
        | _ :: _ :: _ => rw [hl] at h; cases h
      exact ⟨hn, key.mp this⟩
    · intro ⟨_, h⟩
      rw [key.mpr h]

/- non-vacuity: one versioned path among three keys; ambiguity and the exact-name case give `none` -/
example : findMatchingInterfaceName "baz".toList ["a".toList, "foo:bar/baz@1.0.0".toList, "x:y/qux".toList]
    = some "foo:bar/baz@1.0.0".toList := by decide
example : findMatchingInterfaceName "baz".toList ["foo:bar/baz".toList, "x:y/baz@2.0.0".toList] = none := by decide
example : findMatchingInterfaceName "baz".toList ["baz".toList, "foo:bar/baz".toList] = none := by decide
/- the last segment counts (`rfind`), not the first -/
example : findMatchingInterfaceName "qux".toList ["foo:bar/sub/qux".toList] = some "foo:bar/sub/qux".toList := by decide

/-- The documented rule for identifiers (named arguments, access expressions, step 3 of inferred
    arguments) — "exactly one … path which ends with the local name → the path, otherwise the
    identifier" (`Spec.shortName`) — is what `find_matching_interface_name(..).unwrap_or(id)`
    computes, for every identifier and every list of names. -/
theorem short_name_rule (n : Str) (m : List Str) :
    Spec.shortName n m = (findMatchingInterfaceName n m).getD n := shortName_eq_model n m

example : Spec.shortName "input-stream".toList ["wasi:io/input-stream".toList, "x".toList] = "wasi:io/input-stream".toList := by decide

/-! ## arguments of `new` -/

/-- Inferred arguments: `inferred_instantiation_arg` yields the documented four-step precedence
    (`Spec.inferredArgName`: interface path of the instance if it is an import of the package; else
    the import / accessed export name if it is one; else the unique path suffix; else the identifier),
    applied to what the local name denotes. -/
theorem inferred_arg_precedence {lib : Lib} {ms : State} {ss : Spec.St} (hs : Sim lib ms ss) (x : Str)
    (imports : List Str) :
    inferredInstantiationArg ms x imports =
      match ms.localItem x with
      | .error d => .error d
      | .ok item => .ok (Spec.inferredArgName x (valOf ms.graph item) imports, item) :=
  inferred_name_sim hs x imports

/-- Named arguments: identifiers go through the suffix rule, strings are taken verbatim. -/
theorem named_arg_rule (nm : ArgName) (imports : List Str) :
    namedArgumentName nm imports = Spec.namedArgName nm imports := by
  cases nm with
  | id ident => simp [namedArgumentName, Spec.namedArgName, shortName_eq_model]
  | str s => rfl

example : namedArgumentName (.id "input-stream".toList) ["wasi:io/input-stream".toList] = "wasi:io/input-stream".toList := by decide
example : namedArgumentName (.str "input-stream".toList) ["wasi:io/input-stream".toList] = "input-stream".toList := by decide

/-- Spread arguments: one `...x` of the model is one `Spec.spreadStep` — after the explicit
    arguments, over the package's imports in world order, only names not yet bound and exported by
    the instance; `NotAnInstance` / `SpreadInstantiationNoMatch` exactly when the specification says so. -/
theorem spread_semantics {lib : Lib} {ms : State} {ss : Spec.St} (hs : Sim lib ms ss) (x : Str)
    (expected : List Str) (hnd : expected.Nodup) (tbl : List (Str × Nat))
    (hb : ∀ y ∈ tbl, y.2 < ms.graph.nodes.length) (hk : (tbl.map (·.1)).Nodup) :
    TblRel lib ms ss (spreadInstantiationArg ms x expected tbl)
      (Spec.spreadStep ss expected x (tblVals ms.graph tbl)) :=
  spreadArg_sim hs x expected hnd tbl hb hk

/-- Access expressions select the documented export (suffix rule for `.id`, exact for `["s"]`);
    `NotAnInstance` / `MissingInstanceExport` exactly when the specification says so. -/
theorem access_rule {lib : Lib} {ms : State} {ss : Spec.St} (hs : Sim lib ms ss) (item : Nat)
    (hi : item < ms.graph.nodes.length) (named : Bool) (id : Str) :
    StepRel lib ms (postfixExpr ms item named id) (specPostfix ss (valOf ms.graph item) named id) :=
  postfix_sim hs item hi named id

/-! ## exports -/

/-- Export name inference: the interface path of an instance, else the import name, else the
    accessed export name, else none (`ExportRequiresAs`). -/
theorem export_name_inference {lib : Lib} {ms : State} {ss : Spec.St} (hs : Sim lib ms ss) (item : Nat)
    (hi : item < ms.graph.nodes.length) :
    inferExportName ms item = Spec.inferredExportName (valOf ms.graph item) :=
  inferExport_eq hs item hi

/-- Spread export: the loop exports, in order, exactly the instance exports whose names are not
    exported yet (`Spec.spreadExports`), reports whether it exported anything, and fails with
    `ExportConflict` exactly when the reference does (a name that denotes a declaration). -/
theorem spread_export_semantics {lib : Lib} {ms : State} {ss : Spec.St} (hs : Sim lib ms ss) (item : Nat)
    (hi : item < ms.graph.nodes.length) (es : Exports) (hes : (ms.graph.kindOf item).instExports = some es) :
    (∀ d, Spec.spreadExports ss (valOf ms.graph item) es.toList ss.exports = .error d →
      spreadExportLoop item ms false es.names = .error d) ∧
    (∀ ex any, Spec.spreadExports ss (valOf ms.graph item) es.toList ss.exports = .ok (ex, any) →
      ∃ ms', spreadExportLoop item ms false es.names = .ok (ms', any) ∧ Sim lib ms' { ss with exports := ex }) := by
  obtain ⟨h1, h2⟩ := spreadExportLoop_sim (lib := lib) item es es.toList [] ms ss false hs hi hes (by simp) (by simp)
  refine ⟨fun d h => h1 d h, fun ex any h => ?_⟩
  obtain ⟨ms', e, s⟩ := h2 ex any h
  exact ⟨ms', by simpa [Exports.names] using e, s⟩

/-! ## the refinement and the diagnostics -/

theorem libWF_of_wf (lib : Lib) (h : lib.wf = true) : LibWF lib := by
  intro p hp
  unfold Lib.wf at h
  have := (List.all_eq_true.mp h) p hp
  simpa using this

/-- **Refinement.**  For every program of the statement sublanguage and every library whose
    packages have distinct import names, the model of `Document::resolve` followed by the wiring
    `CompositionGraph::encode` emits is the reference evaluation of LANGUAGE.md: the same
    composition, or the same diagnostic. -/
theorem refinement (p : Program) (lib : Lib) (hlib : lib.wf = true) :
    resolveModel p lib = Spec.eval p lib :=
  resolveModel_eq_eval p lib (libWF_of_wf lib hlib)

/-- Each ill-formedness class is rejected with its diagnostic exactly when the reference says so. -/
theorem diagnostic_iff (p : Program) (lib : Lib) (hlib : lib.wf = true) (d : Diag) :
    resolveModel p lib = .error d ↔ Spec.eval p lib = .error d := by
  rw [refinement p lib hlib]

theorem undefined_iff (p : Program) (lib : Lib) (hlib : lib.wf = true) (x : Str) :
    resolveModel p lib = .error (.undefinedName x) ↔ Spec.eval p lib = .error (.undefinedName x) :=
  diagnostic_iff p lib hlib _
theorem duplicate_name_iff (p : Program) (lib : Lib) (hlib : lib.wf = true) (x : Str) :
    resolveModel p lib = .error (.duplicateName x) ↔ Spec.eval p lib = .error (.duplicateName x) :=
  diagnostic_iff p lib hlib _
theorem missing_arg_iff (p : Program) (lib : Lib) (hlib : lib.wf = true) (n : Str) :
    resolveModel p lib = .error (.missingArg n) ↔ Spec.eval p lib = .error (.missingArg n) :=
  diagnostic_iff p lib hlib _
theorem duplicate_arg_iff (p : Program) (lib : Lib) (hlib : lib.wf = true) (n : Str) :
    resolveModel p lib = .error (.duplicateArg n) ↔ Spec.eval p lib = .error (.duplicateArg n) :=
  diagnostic_iff p lib hlib _
theorem not_instance_iff (p : Program) (lib : Lib) (hlib : lib.wf = true) (op : InstOp) :
    resolveModel p lib = .error (.notInstance op) ↔ Spec.eval p lib = .error (.notInstance op) :=
  diagnostic_iff p lib hlib _
theorem fill_not_last_iff (p : Program) (lib : Lib) (hlib : lib.wf = true) :
    resolveModel p lib = .error .fillNotLast ↔ Spec.eval p lib = .error .fillNotLast :=
  diagnostic_iff p lib hlib _
theorem spread_no_match_iff (p : Program) (lib : Lib) (hlib : lib.wf = true) :
    resolveModel p lib = .error .spreadNoMatch ↔ Spec.eval p lib = .error .spreadNoMatch :=
  diagnostic_iff p lib hlib _
theorem spread_export_no_effect_iff (p : Program) (lib : Lib) (hlib : lib.wf = true) :
    resolveModel p lib = .error .spreadExportNoEffect ↔ Spec.eval p lib = .error .spreadExportNoEffect :=
  diagnostic_iff p lib hlib _
theorem duplicate_export_iff (p : Program) (lib : Lib) (hlib : lib.wf = true) (n : Str) :
    resolveModel p lib = .error (.duplicateExport n) ↔ Spec.eval p lib = .error (.duplicateExport n) :=
  diagnostic_iff p lib hlib _
theorem export_conflict_iff (p : Program) (lib : Lib) (hlib : lib.wf = true) (n : Str) :
    resolveModel p lib = .error (.exportConflict n) ↔ Spec.eval p lib = .error (.exportConflict n) :=
  diagnostic_iff p lib hlib _
theorem declaration_conflict_iff (p : Program) (lib : Lib) (hlib : lib.wf = true) (n : Str) :
    resolveModel p lib = .error (.declarationConflict n) ↔ Spec.eval p lib = .error (.declarationConflict n) :=
  diagnostic_iff p lib hlib _

/-! ### non-vacuity: a library and programs on which both sides are evaluated by the kernel -/
section examples
def f0 : Kind := .func 0
def baz : Kind := .inst (some "foo:bar/baz".toList) (.cons "f".toList f0 .nil)
/-- `a:b` imports `foo:bar/baz` and `x`, exports `run`; `c:d` exports the instance `foo:bar/baz` -/
def lib1 : Lib :=
  [ { name := "a:b".toList, version := none,
      imports := .cons "foo:bar/baz".toList baz (.cons "x".toList f0 .nil),
      exports := .cons "run".toList f0 .nil },
    { name := "c:d".toList, version := none, imports := .nil,
      exports := .cons "foo:bar/baz".toList baz .nil } ]
/-- `let s = new c:d {}; let i = new a:b { ...s, ... }; export i.run;` -/
def prog1 : Program :=
  { self := "test:comp".toList,
    stmts := [ .bind "s".toList (.new "c:d".toList none .nil),
               .bind "i".toList (.new "a:b".toList none (.cons (.spread "s".toList) (.cons .fill .nil))),
               .exp (.access (.ident "i".toList) "run".toList) .none ] }
/-- the same with `...` first -/
def prog2 : Program :=
  { prog1 with stmts := [ .bind "s".toList (.new "c:d".toList none .nil),
               .bind "i".toList (.new "a:b".toList none (.cons .fill (.cons (.spread "s".toList) .nil))) ] }

def okWith (r : Except Diag Composition) (ninst nexports nimports : Nat) : Bool :=
  match r with
  | .ok c => c.instantiations.length == ninst && c.exports.length == nexports && c.imports.length == nimports
  | .error _ => false
def isErr (r : Except Diag Composition) (d : Diag) : Bool :=
  match r with
  | .ok _ => false
  | .error e => decide (e = d)

/-- `interface out { f: func(); } import x: out; export x as out;` — an export taking the name of a declaration -/
def prog3 : Program :=
  { self := "test:comp".toList,
    stmts := [ .iface "out".toList [("f".toList, 0)],
               .imp "x".toList none (.ident "out".toList),
               .exp (.ident "x".toList) (.as "out".toList) ] }

example : lib1.wf = true := by decide
example : isErr (Spec.eval prog3 lib1) (.exportConflict "out".toList) = true := by decide
example : isErr (resolveModel prog3 lib1) (.exportConflict "out".toList) = true := by decide
/- two instantiations, `run` exported, `x` implicitly imported; the spread supplies `foo:bar/baz` -/
example : okWith (Spec.eval prog1 lib1) 2 1 1 = true := by decide
example : okWith (resolveModel prog1 lib1) 2 1 1 = true := by decide
example : isErr (Spec.eval prog2 lib1) .fillNotLast = true := by decide
example : isErr (resolveModel prog2 lib1) .fillNotLast = true := by decide
end examples

end Wac.Props.C04
