import WacProofs.Lemmas.Registry
/-
  C20 — registry resolution returns the right content for every requested key.

  `resolveRegistry valid reg keys σ π` : model of `RegistryPackageResolver::resolve` after
      `fix: resolve registry packages with one download task per requested key`;
  `resolveOrig …` : the code as pinned (WacModel/Registry.lean);
  `specResolve valid reg keys` : every key ↦ the content of that name@version / latest release,
      or the admissible errors (WacModel/Spec/Registry.lean); `satisfies o s` compares an outcome
      with it (result map up to order, error ∈ admissible errors).

  Quantified over: every registry `reg`, every `PackageName` validity predicate `valid`, every
  request `keys` (distinct keys — they are the keys of an `IndexMap`), every choice `σ` of the
  registry among missing packages, every completion order `π` of the download tasks.
-/
namespace Wac.Props.C20
open Wac Wac.Registry Wac.Spec.Registry Wac.Lemmas.Registry

/-! ### a concrete world for witnesses and non-vacuity -/

def k (n : String) (v : Option String) : Key := { name := n.toList, version := v.map String.toList }
def regW : Registry :=
  [("test:a".toList, [⟨"1.0.0".toList, "A1".toList⟩, ⟨"2.0.0".toList, "A2".toList⟩]),
   ("test:b".toList, [⟨"0.1.0".toList, "B".toList⟩])]
/-- the request of DESIGN §10 #13 -/
def keysW : List (Key × Span) :=
  [(k "test:a" (some "1.0.0"), "s0".toList), (k "test:a" (some "2.0.0"), "s1".toList), (k "test:b" none, "s2".toList)]
def allValid : Str → Bool := fun _ => true

/-! ### the pinned code violates the property -/

/-- Full statement, false of the code as pinned: -/
def OrigCorrect : Prop :=
  ∀ (valid : Str → Bool) (reg : Registry) (keys : List (Key × Span)) (σ : Nat) (π : List Nat),
    (keys.map (·.1)).Nodup → VersionsFunctional reg →
    satisfies (resolveOrig valid reg keys σ π) (specResolve valid reg keys) = true

/-- Requesting `a@1.0.0, a@2.0.0, b`: the name table has two entries (`a`, `b`), their
    results are attributed to positions 0 and 1 of the key list: `a@1.0.0 ↦ content of a@2.0.0`,
    `a@2.0.0 ↦ content of b`, and `b` is dropped. -/
theorem registry_counterexample : ¬ OrigCorrect := by
  intro h
  have hl : VersionsFunctional regW := by
    intro name rels hg
    have : name = "test:a".toList ∨ name = "test:b".toList := by
      simp only [regW, amGet] at hg
      split at hg
      · left; simp_all
      · split at hg
        · right; simp_all
        · simp at hg
    rcases this with rfl | rfl
    · have : rels = [⟨"1.0.0".toList, "A1".toList⟩, ⟨"2.0.0".toList, "A2".toList⟩] := by
        have h' : amGet regW "test:a".toList = some [⟨"1.0.0".toList, "A1".toList⟩, ⟨"2.0.0".toList, "A2".toList⟩] := by decide
        rw [h'] at hg; exact (Option.some.inj hg).symm
      subst this; decide
    · have : rels = [⟨"0.1.0".toList, "B".toList⟩] := by
        have h' : amGet regW "test:b".toList = some [⟨"0.1.0".toList, "B".toList⟩] := by decide
        rw [h'] at hg; exact (Option.some.inj hg).symm
      subst this; decide
  have := h allValid regW keysW 0 [0, 1] (by decide) hl
  revert this
  decide

example : resolveOrig allValid regW keysW 0 [0, 1] =
    .ok [(k "test:a" (some "1.0.0"), "A2".toList), (k "test:a" (some "2.0.0"), "B".toList)] := by decide

/-! ### the repaired code satisfies it -/

/-- Main theorem: for every completion order of the downloads (and every choice the registry
    makes among missing packages) the result is the specified one: on success exactly the map
    "requested key ↦ content of that name@version, or of the latest release", on failure an
    error attributed to a key that really fails that way. -/
theorem registry_correct (valid : Str → Bool) (reg : Registry) (keys : List (Key × Span)) (σ : Nat) (π : List Nat)
    (hkeys : (keys.map (·.1)).Nodup) (hπ : π.Perm (List.range keys.length)) (hreg : VersionsFunctional reg) :
    satisfies (resolveRegistry valid reg keys σ π) (specResolve valid reg keys) = true :=
  resolveRegistry_satisfies valid reg keys σ π hkeys hπ (latestAgrees_of_functional reg hreg)

example : (keysW.map (·.1)).Nodup ∧ [2, 0, 1].Perm (List.range keysW.length) ∧
    resolveRegistry allValid regW keysW 0 [2, 0, 1] =
      .ok [(k "test:b" none, "B".toList), (k "test:a" (some "1.0.0"), "A1".toList), (k "test:a" (some "2.0.0"), "A2".toList)] := by
  decide

/-- what holds for the pinned code: the same, for requests whose package names are pairwise
    distinct (then the name table and the key list line up).
    Full statement: `OrigCorrect` (false, `registry_counterexample`). -/
theorem registry_correct_orig_partial (valid : Str → Bool) (reg : Registry) (keys : List (Key × Span)) (σ : Nat) (π : List Nat)
    (hnames : (keys.map (·.1.name)).Nodup)
    (hπ : π.Perm (List.range keys.length)) (hreg : VersionsFunctional reg) :
    satisfies (resolveOrig valid reg keys σ π) (specResolve valid reg keys) = true := by
  rw [resolveOrig_eq_of_distinct_names valid reg keys σ π hnames]
  apply registry_correct valid reg keys σ π _ hπ hreg
  -- distinct names imply distinct keys
  have : keys.map (·.1.name) = (keys.map (·.1)).map (·.name) := by simp [List.map_map]
  rw [this] at hnames
  exact nodup_of_map _ _ hnames

example : ([(k "test:a" none, "s0".toList), (k "test:b" none, "s1".toList)].map (·.1.name)).Nodup := by decide

/-! ### corollaries -/

/-- a successful result has an entry for every requested key -/
theorem no_key_dropped (valid : Str → Bool) (reg : Registry) (keys : List (Key × Span)) (σ : Nat) (π : List Nat)
    (hkeys : (keys.map (·.1)).Nodup) (hπ : π.Perm (List.range keys.length)) (hreg : VersionsFunctional reg)
    (m : List (Key × Content)) (hm : resolveRegistry valid reg keys σ π = .ok m) :
    ∀ p ∈ keys, p.1 ∈ m.map (·.1) := by
  have h := registry_correct valid reg keys σ π hkeys hπ hreg
  rw [hm, specResolve_eq] at h
  split at h
  · rename_i hes
    simp only [satisfies, List.isPerm_iff] at h
    intro p hp
    have hes' : (tasks valid reg keys).filterMap errPart = [] := by simpa using hes
    -- the task of `p` is not an error, so it contributes `(p.1, c)`
    cases hs : specKey valid reg p.1 p.2 with
    | error e =>
      have := mem_errs valid reg keys p e hp hs
      rw [hes'] at this; simp at this
    | ok c =>
      have hmem : (p.1, c) ∈ (tasks valid reg keys).filterMap okPart := by
        simp only [List.mem_filterMap, keyResults, List.mem_map]
        exact ⟨(p.1, specKey valid reg p.1 p.2), ⟨p, hp, rfl⟩, by simp [successOf, hs]⟩
      have := (List.Perm.mem_iff h).2 hmem
      exact List.mem_map.2 ⟨(p.1, c), this, rfl⟩
  · simp [satisfies] at h

example : resolveRegistry allValid regW keysW 0 [1, 2, 0] =
    .ok [(k "test:a" (some "2.0.0"), "A2".toList), (k "test:b" none, "B".toList), (k "test:a" (some "1.0.0"), "A1".toList)] := by decide

/-- every entry of a successful result carries the content specified for *its own* key -/
theorem no_cross_content (valid : Str → Bool) (reg : Registry) (keys : List (Key × Span)) (σ : Nat) (π : List Nat)
    (hkeys : (keys.map (·.1)).Nodup) (hπ : π.Perm (List.range keys.length)) (hreg : VersionsFunctional reg)
    (m : List (Key × Content)) (hm : resolveRegistry valid reg keys σ π = .ok m) :
    ∀ e ∈ m, ∃ span, (e.1, span) ∈ keys ∧ specKey valid reg e.1 span = .ok e.2 := by
  have h := registry_correct valid reg keys σ π hkeys hπ hreg
  rw [hm, specResolve_eq] at h
  split at h
  · simp only [satisfies, List.isPerm_iff] at h
    intro e he
    have := (List.Perm.mem_iff h).1 he
    simp only [List.mem_filterMap, keyResults, List.mem_map] at this
    obtain ⟨t, ⟨p, hp, rfl⟩, ht⟩ := this
    simp only [successOf] at ht
    cases hs : specKey valid reg p.1 p.2 with
    | error _ => simp [hs] at ht
    | ok c =>
      simp only [hs, Option.some.injEq] at ht
      subst ht
      exact ⟨p.2, hp, hs⟩
  · simp [satisfies] at h

example : specResolve allValid regW keysW =
    .ok [(k "test:a" (some "1.0.0"), "A1".toList), (k "test:a" (some "2.0.0"), "A2".toList), (k "test:b" none, "B".toList)] := by decide

/-- the specification does not depend on the order in which the keys are requested … -/
theorem spec_order_irrelevant (valid : Str → Bool) (reg : Registry) (keys keys' : List (Key × Span))
    (hp : keys'.Perm keys) (o : Outcome) :
    satisfies o (specResolve valid reg keys') = satisfies o (specResolve valid reg keys) := by
  have ht : (tasks valid reg keys').Perm (tasks valid reg keys) := List.Perm.map _ hp
  have he := List.Perm.filterMap errPart ht
  have ho := List.Perm.filterMap okPart ht
  rw [specResolve_eq, specResolve_eq]
  have hemp : ((tasks valid reg keys').filterMap errPart).isEmpty = ((tasks valid reg keys).filterMap errPart).isEmpty := by
    rw [Bool.eq_iff_iff]; simp only [List.isEmpty_iff]
    exact ⟨fun h => by rw [h] at he; exact (List.Perm.nil_eq he).symm, fun h => by rw [h] at he; exact List.Perm.eq_nil he⟩
  rw [hemp]
  split
  · cases o with
    | error e => simp [satisfies]
    | ok m =>
      simp only [satisfies]
      rw [Bool.eq_iff_iff, List.isPerm_iff, List.isPerm_iff]
      exact ⟨fun h => h.trans ho, fun h => h.trans ho.symm⟩
  · cases o with
    | ok m => simp [satisfies]
    | error e =>
      simp only [satisfies, List.contains_eq_mem, decide_eq_decide]
      exact List.Perm.mem_iff he

/-- … and so does the resolver: requesting the same keys in another order (with any completion
    order) yields an outcome that satisfies the specification of the original request. -/
theorem order_of_keys_irrelevant (valid : Str → Bool) (reg : Registry) (keys keys' : List (Key × Span))
    (σ : Nat) (π : List Nat)
    (hp : keys'.Perm keys) (hkeys : (keys.map (·.1)).Nodup) (hπ : π.Perm (List.range keys'.length))
    (hreg : VersionsFunctional reg) :
    satisfies (resolveRegistry valid reg keys' σ π) (specResolve valid reg keys) = true := by
  rw [← spec_order_irrelevant valid reg keys keys' hp]
  apply registry_correct valid reg keys' σ π _ hπ hreg
  exact ((List.Perm.map (·.1) hp).nodup_iff).2 hkeys

example : keysW.reverse.Perm keysW ∧
    resolveRegistry allValid regW keysW.reverse 0 [0, 2, 1] =
      .ok [(k "test:b" none, "B".toList), (k "test:a" (some "1.0.0"), "A1".toList), (k "test:a" (some "2.0.0"), "A2".toList)] :=
  ⟨List.reverse_perm _, by decide⟩

end Wac.Props.C20
