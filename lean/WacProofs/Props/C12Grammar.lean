import WacProofs.Lemmas.SemverAgree
import WacProofs.Lemmas.C12Screen
import WacProofs.Lemmas.LexSpec
import WacProofs.Lemmas.NonEmpty
import WacProofs.Lemmas.InterfaceSound
import WacProofs.Lemmas.InterfaceComplete
import WacProofs.Lemmas.NoJunk
import WacProofs.Lemmas.NodupDoc
import WacProofs.Lemmas.TextLevel
/-
  C12 — the parser accepts exactly the documented grammar and builds the intended tree:
  the relationship between the parser model (`WacModel/Parser.lean`, `Wac.Parse`) and the grammar
  specification (`WacModel/Spec/Grammar.lean`, `Wac.Spec.Grammar`), proved.

  Vocabulary (definitions in `WacProofs/Lemmas/`):
    * `abs st`            the grammar token list a parser state stands for: the items as
                          `Lexer::next` delivers them (`eff st`: an opening bracket nested deeper
                          than `MAX_NESTING_DEPTH` is delivered as the lexical error
                          `NestingTooDeep`), each abstracted by `absTok` (a keyword/punctuation item
                          ↦ the terminal with the documented text of its kind, the four token
                          classes keep their text, a lexical-error item ↦ a terminal with empty
                          text that no production mentions);
    * `nextTok st`        the kind of the item `Lexer::next` would deliver (the parser *peeks* at
                          the raw token and *consumes* with `next`);
    * `eraseX`            a tree with every span set to `⟨0,0⟩` and every doc-comment list to `[]`
                          (the grammar's trees carry no layout);
    * `WF st`             every package-path token has the lexical shape `ns:pkg/seg…(@v)?` (first
                          `/` before first `@`) — guaranteed by the lexer (`tokenize_pathShape`);
    * `Sound`/`Complete`  see `Combinators.lean` / `ParserComplete.lean`;
    * `InLanguage limit src d`  `src` has no forbidden code point, lexes (specification lexer)
                          to `ts`, the brackets of `ts` nest at most `limit` deep (specification
                          deviation D9, `nestingWithin`), and `d ∈ derivations ts`.
  The grammar is a list-of-successes recogniser returning *all* prefix derivations, the parser is
  deterministic; completeness of a nonterminal is therefore stated for derivations whose rest
  satisfies the nonterminal's follow condition (what can come next in a document).
-/
namespace Wac.Props.C12Grammar
open Wac Wac.Ast Wac.Lex Wac.Parse Wac.Spec.Grammar Wac.C12

/-! ### 0. versions -/

/-- the model of `semver::Version::from_str` and the specification's reading of semver.org agree
on every string (`version_valid_iff_semver`) -/
theorem version_valid_iff_semver (s : Str) : Wac.parseVersion s = Wac.Spec.Grammar.semver s :=
  parseVersion_eq_semver s

example : Wac.parseVersion "1.2.3-rc.1+b7".toList = Wac.Spec.Grammar.semver "1.2.3-rc.1+b7".toList ∧
    (Wac.parseVersion "1.2.3-rc.1+b7".toList).isSome = true := by decide

/-! ### 1. expressions (token level, lexer independent) -/

/-- `parse_expr_sound`: what the expression parser returns is a derivation of `expr`; the rest of
the input is a proper suffix; and the grammar's fuel need is bounded by the consumed tokens. -/
theorem parse_expr_sound {pf : Nat} {st st' : PState} {e : Expr}
    (h : parseExpr pf st = .ok (e, st')) :
    Suf st' st ∧ st'.toks.length < st.toks.length ∧
      ∀ gf, st.toks.length + 1 ≤ st'.toks.length + gf → (eraseExpr e, abs st') ∈ gExpr gf (abs st) :=
  parseExpr_sound parseVersion_eq_semver h

/-- `parse_expr_complete`: every derivation of `expr` whose rest does not start with `.` or `[`
(the parser would continue the postfix chain) is the parser's result, for every parser fuel at
least the grammar fuel. -/
theorem parse_expr_complete {gf : Nat} {st : PState} {x : Expr} {r : List STok}
    (h : (x, r) ∈ gExpr gf (abs st))
    (hd : r.head? ≠ some (litTok .Dot)) (hb : r.head? ≠ some (litTok .OpenBracket))
    {pf : Nat} (hpf : gf ≤ pf) :
    ∃ e st', parseExpr pf st = .ok (e, st') ∧ eraseExpr e = x ∧ abs st' = r :=
  (expr_complete parseVersion_eq_semver gf).1 st x r h hd hb pf hpf

/-- the grammar is unambiguous on expressions: two derivations (any fuels) whose rests cannot
continue a postfix chain are the same derivation, and it is the one the parser finds -/
theorem expr_unambiguous {gf gf' : Nat} {st : PState} {x x' : Expr} {r r' : List STok}
    (h : (x, r) ∈ gExpr gf (abs st)) (h' : (x', r') ∈ gExpr gf' (abs st))
    (hd : r.head? ≠ some (litTok .Dot)) (hb : r.head? ≠ some (litTok .OpenBracket))
    (hd' : r'.head? ≠ some (litTok .Dot)) (hb' : r'.head? ≠ some (litTok .OpenBracket)) :
    x = x' ∧ r = r' := by
  obtain ⟨e, s, he, rfl, rfl⟩ := parse_expr_complete h hd hb (Nat.le_max_left gf gf')
  obtain ⟨e', s', he', rfl, rfl⟩ := parse_expr_complete h' hd' hb' (Nat.le_max_right gf gf')
  rw [he] at he'; cases he'; exact ⟨rfl, rfl⟩

/-- non-vacuity: `new a:b@1.2.3 { x, "s": (%y).p["q"], ... }.r ;` (all four argument forms but the
spread, nested parentheses, both postfix forms) -/
def tk (k : Token) (s : String) : LTok := ⟨.ok k, ⟨0, 0⟩, s.toList, []⟩

def exprState : PState := ⟨[
  tk .NewKeyword "new", tk .PackageName "a:b@1.2.3", tk .OpenBrace "{", tk .Ident "x", tk .Comma ",",
  tk .String "\"s\"", tk .Colon ":", tk .OpenParen "(", tk .Ident "%y", tk .CloseParen ")", tk .Dot ".",
  tk .Ident "p", tk .OpenBracket "[", tk .String "\"q\"", tk .CloseBracket "]", tk .Comma ",",
  tk .Ellipsis "...", tk .Ident "w", tk .Comma ",", tk .Ellipsis "...", tk .CloseBrace "}", tk .Dot ".",
  tk .Ident "r", tk .Semicolon ";"], 0, 0, [], 0, 0⟩

/-- (for the examples) the parse succeeded leaving `n` items -/
def okLeaving {α} (n : Nat) (r : PR α) : Bool :=
  match r with
  | .ok (_, st') => st'.toks.length == n
  | .error _ => false

theorem okLeaving_iff {α} {n : Nat} {r : PR α} (h : okLeaving n r = true) :
    ∃ x st', r = .ok (x, st') ∧ st'.toks.length = n := by
  unfold okLeaving at h
  split at h
  · exact ⟨_, _, rfl, by simpa using h⟩
  · cases h

theorem exprState_parses : ∃ e st', parseExpr 10 exprState = .ok (e, st') ∧ st'.toks.length = 1 :=
  okLeaving_iff (by decide +kernel)

example : ∃ x r, (x, r) ∈ gExpr 24 (abs exprState) ∧ r.length = 1 := by
  obtain ⟨e, st', h, hl⟩ := exprState_parses
  exact ⟨_, _, (parse_expr_sound h).2.2 24 (by rw [hl]; decide), by rw [abs_length, hl]⟩

/-! ### 2. delimited lists -/

/-- `parse_delimited` (the fuelled loop of `ast.rs`, with commas) is sound for the grammar's
`p (',' p)* ','?` — for any item parser that is sound — and stops in front of the closing token -/
theorem parse_delimited_sound {α β : Type} (stop : Token) (peeks : List Token) (item : PState → PR α)
    (er : α → β) (p : SP β) (B : Nat)
    (hitem : ∀ st x st1, item st = .ok (x, st1) → Suf st1 st ∧ st1.toks.length < st.toks.length ∧
        (st.toks.length ≤ st1.toks.length + B → (er x, abs st1) ∈ p (abs st)))
    (fuel : Nat) (st : PState) (xs : List α) (st' : PState)
    (h : parseDelimited stop true peeks item fuel st = .ok (xs, st')) :
    Suf st' st ∧ peekTok st' = some stop ∧ xs.length + st'.toks.length ≤ st.toks.length ∧
    (st.toks.length ≤ st'.toks.length + B →
       (xs = [] ∧ st' = st) ∨ SepBy p comma (xs.map er) (abs st) (abs st')) :=
  parseDelimited_commas_sound stop peeks item er p B hitem fuel st xs st' h

/-- … and complete, with **fuel sufficiency**: `fuel > number of items` or
`fuel > remaining tokens` is enough (the second is what the expression parser passes) -/
theorem parse_delimited_complete {α β : Type} (stop : Token) (peeks : List Token)
    (item : PState → PR α) (er : α → β) (p : SP β) (hstop : isLit stop = true) (hne : stop ≠ .Comma)
    (hitem : ∀ st a r1, (a, r1) ∈ p (abs st) →
        (r1.head? = some comma ∨ r1.head? = some (litTok stop)) →
        ∃ x st1, item st = .ok (x, st1) ∧ er x = a ∧ abs st1 = r1 ∧
          st1.toks.length < st.toks.length ∧ peekIn st peeks = true ∧ peekTok st ≠ some stop)
    {xs : List β} {r : List STok} (st : PState) (h : SepBy p comma xs (abs st) r)
    (hr : r.head? = some (litTok stop)) (fuel : Nat)
    (hfuel : xs.length + 1 ≤ fuel ∨ st.toks.length + 1 ≤ fuel) :
    ∃ ys st', parseDelimited stop true peeks item fuel st = .ok (ys, st') ∧ ys.map er = xs ∧
      abs st' = r :=
  parseDelimited_commas_complete stop peeks item er p hstop hne hitem h st rfl hr fuel hfuel

/-- `SepBy` is the relational reading of the grammar's `list1` combinator -/
theorem list1_iff_sepBy {α} (p : SP α) (n : Nat) (xs : List α) (ts r : List STok) :
    (xs, r) ∈ list1 p n ts ↔ SepBy p comma xs ts r ∧ xs.length ≤ n + 1 :=
  mem_list1 p n xs ts r

/-! ### 3. non-empty bodies -/

/-- `nonempty_bodies`: `record r {}`, `variant v {}`, `flags f {}`, `enum e {}` are rejected by the
parser model (error `EmptyType`) and have no derivation at all in the grammar (for every fuel).
(`tuple<>`: by `parse_sound`/`parse_complete`, the grammar's `list1` being non-empty.) -/
theorem nonempty_bodies {st : PState} (pf gf : Nat) :
    (EmptyBody .RecordKeyword st →
      (∃ sp, parseRecordDecl (pf + 1) st = .error (.EmptyType "record" "field" sp)) ∧
        gRecordDecl gf (abs st) = []) ∧
    (EmptyBody .VariantKeyword st →
      (∃ sp, parseVariantDecl (pf + 1) st = .error (.EmptyType "variant" "case" sp)) ∧
        gVariantDecl gf (abs st) = []) ∧
    (EmptyBody .FlagsKeyword st →
      (∃ sp, parseFlagsDecl (pf + 1) st = .error (.EmptyType "flags" "flag" sp)) ∧
        gFlagsDecl gf (abs st) = []) ∧
    (EmptyBody .EnumKeyword st →
      (∃ sp, parseEnumDecl (pf + 1) st = .error (.EmptyType "enum" "case" sp)) ∧
        gEnumDecl gf (abs st) = []) :=
  ⟨fun h => record_empty_rejected h pf gf, fun h => variant_empty_rejected h pf gf,
   fun h => flags_empty_rejected h pf gf, fun h => enum_empty_rejected h pf gf⟩

example : EmptyBody .RecordKeyword
    ⟨[tk .RecordKeyword "record", tk .Ident "r", tk .OpenBrace "{", tk .CloseBrace "}"], 0, 0, [], 0, 0⟩ :=
  ⟨by decide, by decide, by decide, by decide⟩

/-! ### 4. whole documents (token level) -/

/-- `parse_sound`: a token sequence the parser accepts is derivable from the grammar, with the tree
the parser built (up to spans and doc comments) -/
theorem parse_sound (st : PState) (hwf : WF st) (d : Document) (h : parseTokens st = .ok d) :
    eraseDocument d ∈ derivations (abs st) :=
  parseTokens_sound parseVersion_eq_semver (stmtSound parseVersion_eq_semver) st d hwf h

/-- `parse_complete`: every derivation of the whole token sequence is the parser's result; in
particular the fuel `fuelFor` never runs out on a derivable input -/
theorem parse_complete (st : PState) (hwf : WF st) (d' : Document) (h : d' ∈ derivations (abs st)) :
    ∃ d, parseTokens st = .ok d ∧ eraseDocument d = d' :=
  parseTokens_complete parseVersion_eq_semver (stmtSound parseVersion_eq_semver)
    (stmtComplete parseVersion_eq_semver) st hwf d' h

/-- `grammar_unambiguous`: all derivations of a token sequence are equal, and there is at most
one entry in the list of derivations (no derivation is found twice) -/
theorem grammar_unambiguous (st : PState) (hwf : WF st) :
    (∀ d1 ∈ derivations (abs st), ∀ d2 ∈ derivations (abs st), d1 = d2) ∧
    (derivations (abs st)).length ≤ 1 := by
  have h : ∀ d1 ∈ derivations (abs st), ∀ d2 ∈ derivations (abs st), d1 = d2 := fun d1 h1 d2 h2 =>
    derivations_unique parseVersion_eq_semver (stmtSound parseVersion_eq_semver)
      (stmtComplete parseVersion_eq_semver) st hwf d1 d2 h1 h2
  exact ⟨h, derivations_length_le_one _ h⟩

/-- non-vacuity: `package a:b; let x = new c:d { ... }; export x.y as "z";` -/
def docState : PState := ⟨[
  tk .PackageKeyword "package", tk .PackageName "a:b", tk .Semicolon ";",
  tk .LetKeyword "let", tk .Ident "x", tk .Equals "=", tk .NewKeyword "new", tk .PackageName "c:d",
  tk .OpenBrace "{", tk .Ellipsis "...", tk .CloseBrace "}", tk .Semicolon ";",
  tk .ExportKeyword "export", tk .Ident "x", tk .Dot ".", tk .Ident "y", tk .AsKeyword "as",
  tk .String "\"z\"", tk .Semicolon ";"], 0, 0, [], 0, 0⟩

theorem wf_of_noPath (st : PState) (h : st.toks.all (fun t => t.tok? != some .PackagePath) = true) :
    WF st := by
  intro t ht hk
  have := List.all_eq_true.mp h t ht
  simp [tok?_ok hk] at this

theorem docState_wf : WF docState := wf_of_noPath _ (by decide +kernel)

def okStatements (n : Nat) (r : Except ParseError Document) : Bool :=
  match r with
  | .ok d => d.statements.length == n
  | .error _ => false

theorem okStatements_iff {n : Nat} {r : Except ParseError Document} (h : okStatements n r = true) :
    ∃ d, r = .ok d ∧ d.statements.length = n := by
  unfold okStatements at h
  split at h
  · exact ⟨_, rfl, by simpa using h⟩
  · cases h

theorem docState_parses : ∃ d, parseTokens docState = .ok d ∧ d.statements.length = 2 :=
  okStatements_iff (by decide +kernel)

example : ∃ d', d' ∈ derivations (abs docState) := by
  obtain ⟨d, h, _⟩ := docState_parses
  exact ⟨_, parse_sound _ docState_wf d h⟩

/-! ### 5. lexer and screen -/

/-- `lex_spec`: the model lexer is the documented lexer — at every position the longest match of
the documented regular expressions (`Re.longest`) with terminals (keywords) winning ties, white
space and nested comments skipped; the specification has a token sequence exactly when the model
lexer produces no lexical error, and then it is the abstraction of the model's.  (Form feed is
white space for the lexer only; the screen rejects it.) -/
theorem lex_spec (src : Str) (hff : ∀ c ∈ src, c ≠ '\x0c') :
    tokens (src.length + 1) src =
      if (tokenize src).all (fun tk => tk.tok?.isSome)
      then some ((tokenize src).map absTok) else none :=
  Wac.C12.lex_spec src hff

/-- the hand-written identifier recogniser is the longest match of the documented `id` -/
theorem idLen_longest (s : Str) : idLen s = (Re.longest reId s).getD 0 := idLen_eq_longest s

/-- every package-path token the lexer produces has the shape the parser relies on -/
theorem lexer_wf (src : Str) : WF (PState.init src) := wf_init src

/-- `screen_rejects_iff`: a text is rejected by the code-point screen iff it contains a
bidi-override, deprecated or control code point other than tab/CR/LF … -/
theorem screen_rejects_iff (src : Str) :
    (detectInvalidInput src).isSome = src.any forbiddenChar :=
  Wac.C12.screen_rejects_iff src

/-- … at the first such code point, with that code point's byte span and classification, and
before lexing (`Document::parse` returns that lexer error). -/
theorem screen_rejects_at (src : Str) (h : src.any forbiddenChar = true) :
    ∃ e sp pre c post, parseDocument src = .error (.Lexer e sp) ∧ src = pre ++ c :: post ∧
      (∀ d ∈ pre, forbiddenChar d = false) ∧ forbiddenChar c = true ∧ screenChar c = some e ∧
      sp = ⟨utf8Len pre, c.utf8Size⟩ := by
  obtain ⟨e, sp, h1, h2⟩ := screen_before_lexing src h
  obtain ⟨pre, c, post, h3, h4, h5, h6, h7⟩ := Wac.C12.screen_rejects_at src e sp h2
  exact ⟨e, sp, pre, c, post, h1, h3, h4, h5, h6, h7⟩

example : ['a', Char.ofNat 0x202e, 'b'].any forbiddenChar = true := by decide

/-! ### 6. source texts: the parser model against the specification's verdict

`Generated.maxNestingDepth` is the `MAX_NESTING_DEPTH` constant read from `lexer.rs` (specification
deviation D9: an implementation limit on the nesting of `(`, `<`, `{`). -/

/-- a text the parser model accepts is in the documented language, with the parser's tree -/
theorem parse_document_sound (src : Str) (d : Document) (h : parseDocument src = .ok d) :
    InLanguage Generated.maxNestingDepth src (eraseDocument d) :=
  parseDocument_sound parseVersion_eq_semver (stmtSound parseVersion_eq_semver) derivations_no_junk
    src d h

/-- a text of the documented language is accepted by the parser model, with the grammar's tree -/
theorem parse_document_complete (src : Str) (d' : Document)
    (h : InLanguage Generated.maxNestingDepth src d') :
    ∃ d, parseDocument src = .ok d ∧ eraseDocument d = d' :=
  parseDocument_complete parseVersion_eq_semver (stmtSound parseVersion_eq_semver)
    (stmtComplete parseVersion_eq_semver) src d' h

/-- the specification accepts a text with tree `d'` exactly when the parser model accepts it with
a tree that is `d'` up to spans and doc comments -/
theorem verdict_accept_iff (src : Str) (d' : Document) :
    verdictWith Generated.maxNestingDepth src = .accept d' ↔
      ∃ d, parseDocument src = .ok d ∧ eraseDocument d = d' :=
  Wac.C12.verdict_accept_iff parseVersion_eq_semver (stmtSound parseVersion_eq_semver)
    (stmtComplete parseVersion_eq_semver) derivations_no_junk
    (fun ts h => derivations_length_le_one ts h) src d'

/-- the specification never reports an ambiguity -/
theorem verdict_never_ambiguous (src : Str) (n : Nat) :
    verdictWith Generated.maxNestingDepth src ≠ .ambiguous n :=
  verdict_not_ambiguous parseVersion_eq_semver (stmtSound parseVersion_eq_semver)
    (stmtComplete parseVersion_eq_semver) (fun ts h => derivations_length_le_one ts h) src n

/-- acceptance: the parser model accepts a text exactly when the specification does -/
theorem accepts_iff (src : Str) :
    (∃ d, parseDocument src = .ok d) ↔ (∃ d', verdictWith Generated.maxNestingDepth src = .accept d') := by
  constructor
  · rintro ⟨d, h⟩
    exact ⟨_, (verdict_accept_iff src _).mpr ⟨d, h, rfl⟩⟩
  · rintro ⟨d', h⟩
    obtain ⟨d, hd, _⟩ := (verdict_accept_iff src d').mp h
    exact ⟨d, hd⟩

/-- rejection: the parser model rejects a text (with some error) exactly when the specification
rejects it (forbidden code point, not lexable, nesting limit, or not derivable) -/
theorem rejects_iff (src : Str) :
    (∃ e, parseDocument src = .error e) ↔
      (∃ why, verdictWith Generated.maxNestingDepth src = .reject why) := by
  constructor
  · rintro ⟨e, he⟩
    cases hv : verdictWith Generated.maxNestingDepth src with
    | reject why => exact ⟨why, rfl⟩
    | accept d' =>
      obtain ⟨d, hd, _⟩ := (verdict_accept_iff src d').mp hv
      rw [he] at hd; cases hd
    | ambiguous n => exact absurd hv (verdict_never_ambiguous src n)
  · rintro ⟨why, hv⟩
    cases hp : parseDocument src with
    | error e => exact ⟨e, rfl⟩
    | ok d =>
      have := (verdict_accept_iff src _).mpr ⟨d, hp, rfl⟩
      rw [hv] at this; cases this

/-- the nesting limit only removes texts: what is accepted with the limit is accepted, with the
same tree, by the documented language proper (`verdict = verdictWith none`) -/
theorem verdict_of_limited (src : Str) (d' : Document)
    (h : verdictWith Generated.maxNestingDepth src = .accept d') : verdict src = .accept d' := by
  rw [verdictWith_eq] at h
  unfold verdict
  rw [verdictWith_eq]
  cases hs : src.any forbiddenChar with
  | true => simp [hs] at h
  | false =>
    simp only [hs, Bool.false_eq_true, if_false] at h ⊢
    cases ht : tokens (src.length + 1) src with
    | none => simp [ht] at h
    | some ts =>
      simp only [ht] at h ⊢
      cases hn : nestOK Generated.maxNestingDepth 0 ts with
      | false => simp [hn] at h
      | true =>
        simp only [hn, Bool.not_true, Bool.false_eq_true, if_false] at h
        simpa [nestOK] using h

/-- non-vacuity at text level (a comment, a `%`-escaped identifier, a trailing comma) -/
theorem text_parses :
    ∃ d, parseDocument "package a:b; /**/let %x = new c:d { y, };".toList = .ok d ∧
      d.statements.length = 1 :=
  okStatements_iff (by decide +kernel)

example : ∃ d', verdictWith Generated.maxNestingDepth
    "package a:b; /**/let %x = new c:d { y, };".toList = .accept d' := by
  obtain ⟨d, h, _⟩ := text_parses
  exact (accepts_iff _).mp ⟨d, h⟩

end Wac.Props.C12Grammar
