import WacProofs.Props.C06Refine
import WacProofs.Lemmas.GraphAbsDefItem
import WacProofs.Lemmas.GraphToVal
/-
  C06 → C01 bridge ("the graph still encodes", `still_encodes`-style): the graph VALUE the
  encoding theorems (C01–C03) quantify over (`GraphVal`, WacModel/GraphVal.lean), read off a
  state of the graph MODEL through the public queries (`toGraphVal`, WacModel/GraphToVal.lean),
  satisfies the encoder family's well-formedness hypothesis `Spec.WF` for every state the graph
  API can reach — so the encoder theorems apply to every reachable graph.

  Full statement wanted:   Inv ctx g → Spec.WF (toGraphVal ctx vc g).
  It is FALSE as it stands (`wf_needs_single_definition_names`): `WF.defNames` asks that a
  definition is exported under one name only, and `export` on a definition node adds a second
  name (known finding `enc-definition-renamed-by-export`, DESIGN §10 row 4).  Proved:
  `inv_wf_graphVal_partial` with that as an explicit hypothesis on the state, plus what the graph model
  does not contain (the encoder-level kind of an item kind, distinct import names per package).
-/
namespace Wac.Props.C06Bridge
open Wac Wac.Graph Wac.Props.C06 Wac.Props.C06Refine

/-- the encoder-level view of the example universe: kinds ≥ 10 are types, kind 1 an instance -/
def vcW : ValCtx where
  ty k := if k ≥ 10 then { kind := .type } else if k = 1 then { kind := .instance } else { kind := .func }
  bytesId _ := 0

/-! ### definition nodes carry the item kind of their type -/

theorem defItem_init (ctx : Ctx) : DefItem ctx {} := by
  intro n nd ty hn; simp [Graph.node?] at hn

theorem defItem_step (ctx : Ctx) (g g' : Graph) (op : Op) (out : Outcome)
    (h : Inv ctx g) (hu : AliasUnique g) (hd : DefItem ctx g) (hs : step ctx g op = (g', out))
    (hp : out.isPanic = false) : DefItem ctx g' := by
  have ha := abs_step ctx g g' op out h hu hs hp
  rw [defItem_iff_abs]
  have : abs g' = (specStep ctx g.fresh (abs g) op).1 := by rw [ha]
  rw [this]
  exact defItemA_step ctx g.fresh (abs g) op ((defItem_iff_abs ctx g).mp hd)

/-- what every state reached by a history that did not panic satisfies -/
theorem reachable_invariants (ctx : Ctx) (hw : TyWF ctx) : ∀ (ops : List Op) (g : Graph),
    Inv ctx g → AliasUnique g → DefItem ctx g → (∀ o ∈ (run ctx g ops).2, o.isPanic = false) →
    Inv ctx (run ctx g ops).1 ∧ AliasUnique (run ctx g ops).1 ∧ DefItem ctx (run ctx g ops).1
  | [], _, h, hu, hd, _ => ⟨h, hu, hd⟩
  | op :: ops, g, h, hu, hd, hnp => by
    unfold run runWith at hnp ⊢
    cases hst : stepWith .fixed ctx g op with
    | mk g1 out =>
      rw [hst] at hnp
      simp only at hnp ⊢
      cases out with
      | panic s => exact absurd (hnp (.panic s) (by simp)) (by simp [Outcome.isPanic])
      | ok v =>
        simp only at hnp ⊢
        exact reachable_invariants ctx hw ops g1 (inv_step ctx g g1 op (.ok v) h hw hst rfl)
          (aliasUnique_step ctx g g1 op (.ok v) h hw hu hst rfl) (defItem_step ctx g g1 op (.ok v) h hu hd hst rfl)
          (fun o ho => hnp o (List.mem_cons_of_mem _ ho))
      | err e =>
        simp only at hnp ⊢
        exact reachable_invariants ctx hw ops g1 (inv_step ctx g g1 op (.err e) h hw hst rfl)
          (aliasUnique_step ctx g g1 op (.err e) h hw hu hst rfl) (defItem_step ctx g g1 op (.err e) h hu hd hst rfl)
          (fun o ho => hnp o (List.mem_cons_of_mem _ ho))

/-! ### the bridge -/

/-- the graph value of a consistent state is well formed (`Spec.WF`), PARTIAL: with the
    hypothesis `hnames1` that no definition is exported under a second name (see
    `wf_needs_single_definition_names`), and with what the graph model abstracts away: definition
    nodes are types and instances are instances at the encoder level (`hty`, `hinst`), import
    names of a package are distinct (`hnames`) -/
theorem inv_wf_graphVal_partial (ctx : Ctx) (vc : ValCtx) (g : Graph) (h : Inv ctx g) (hd : DefItem ctx g)
    (hty : ∀ ty, (vc.ty (ctx.tyKind ty)).kind = .type)
    (hinst : ∀ id d, g.pkgOf id = .ok d → (vc.ty d.instKind).kind = .instance)
    (hnames : ∀ id d, g.pkgOf id = .ok d → (d.imports.map (·.1)).Nodup)
    (hnames1 : ∀ e ∈ g.exports, ∀ nd, g.node? e.2 = some nd → nd.isDef = true → nd.exp = some e.1) :
    Spec.WF (toGraphVal ctx vc g) := by
  apply wf_toGraphVal vc h ?_ hinst hnames hnames1
  intro n nd hnd hdef
  unfold Node.isDef at hdef
  cases hk : nd.kind with
  | definition ty => rw [hd n nd ty hnd hk]; exact hty ty
  | «import» nm => rw [hk] at hdef; cases hdef
  | instantiation s => rw [hk] at hdef; cases hdef
  | alias => rw [hk] at hdef; cases hdef

-- non-vacuity: the example state of C06Refine meets every hypothesis
example : Inv ctxW gR ∧ DefItem ctxW gR ∧
    (∀ e ∈ gR.exports, ∀ nd, gR.node? e.2 = some nd → nd.isDef = true → nd.exp = some e.1) ∧
    Spec.wfCheck (toGraphVal ctxW vcW gR) = true := by
  refine ⟨by decide, ?_, by decide, by decide⟩
  have := (reachable_invariants ctxW ctxW_wf.2 histR {} (inv_init ctxW) aliasUnique_init (defItem_init ctxW)
    (by decide)).2.2
  exact this

/-- over histories: every graph the API reaches without panicking has a well-formed graph value,
    PARTIAL (same hypotheses as `inv_wf_graphVal_partial`, on the final state) -/
theorem reachable_wf_partial (ctx : Ctx) (vc : ValCtx) (hw : TyWF ctx) (ops : List Op)
    (hnp : ∀ o ∈ (run ctx {} ops).2, o.isPanic = false)
    (hty : ∀ ty, (vc.ty (ctx.tyKind ty)).kind = .type)
    (hinst : ∀ id d, (run ctx {} ops).1.pkgOf id = .ok d → (vc.ty d.instKind).kind = .instance)
    (hnames : ∀ id d, (run ctx {} ops).1.pkgOf id = .ok d → (d.imports.map (·.1)).Nodup)
    (hnames1 : ∀ e ∈ (run ctx {} ops).1.exports, ∀ nd, (run ctx {} ops).1.node? e.2 = some nd →
      nd.isDef = true → nd.exp = some e.1) :
    Spec.WF (toGraphVal ctx vc (run ctx {} ops).1) := by
  obtain ⟨h, _, hd⟩ := reachable_invariants ctx hw ops {} (inv_init ctx) aliasUnique_init (defItem_init ctx) hnp
  exact inv_wf_graphVal_partial ctx vc _ h hd hty hinst hnames hnames1

/-- the full statement `Inv ctx g → Spec.WF (toGraphVal ctx vc g)` is false: a definition exported
    under a second name (`define_type` then `export`) is a consistent, reachable graph whose graph
    value violates `WF.defNames` — the known finding `enc-definition-renamed-by-export`; harness op
    syntax of the history: `def:a:0;exp:0:b` -/
theorem wf_needs_single_definition_names :
    Inv ctxW (run ctxW {} [.defineType ['a'] 0, .exportNode 0 ['b']]).1 ∧
    ¬ Spec.WF (toGraphVal ctxW vcW (run ctxW {} [.defineType ['a'] 0, .exportNode 0 ['b']]).1) := by
  refine ⟨by decide, fun hwf => ?_⟩
  have hnd : (run ctxW {} [.defineType ['a'] 0, .exportNode 0 ['b']]).1.node? 0 =
      some ⟨.definition 0, none, 10, none, some ['b']⟩ := by decide
  have hv := toGraphVal_node? ctxW vcW (run ctxW {} [.defineType ['a'] 0, .exportNode 0 ['b']]).1 0
  rw [hnd] at hv
  simp only [Option.map_some] at hv
  have := hwf.defNames (['a'], 0) (by decide) _ hv rfl
  exact absurd this (by decide)

/-! ### the graph value is what the public queries report -/

/-- `toGraphVal` contains exactly the answers of the public queries: node ids, per node
    `get_instantiation_arguments` (same order) and `get_alias_source`, the export map -/
theorem graphVal_reports_queries (ctx : Ctx) (vc : ValCtx) (g : Graph) (h : Inv ctx g) :
    (toGraphVal ctx vc g).ids = g.nodeIds ∧ (toGraphVal ctx vc g).exports = g.exports ∧
    (∀ n, (toGraphVal ctx vc g).node? n = (g.node? n).map (toNode ctx vc g n)) ∧
    (∀ n nd, g.node? n = some nd →
      getInstantiationArguments g n = .ok (toNode ctx vc g n nd).args ∧
      getAliasSource ctx g n = .ok (toNode ctx vc g n nd).aliasSource) :=
  ⟨toGraphVal_ids ctx vc g, rfl, toGraphVal_node? ctx vc g,
   fun n nd hnd => ⟨toNode_args vc h hnd, toNode_aliasSource vc h n nd⟩⟩

end Wac.Props.C06Bridge
