import WacProofs.Props.C09General
import WacProofs.Lemmas.AggNAllTotal
/-
  C09 — general theorems for the NESTED fragment (`nfragB cs = true`, decidable): every contributor
  is an instance requirement whose interface, and every interface nested in it to any depth, is
  anonymous (no id), has no `uses`, and exports functions, values, `type` exports of function /
  value types, instances of such interfaces and `type` exports of such interfaces (`wrapK`);
  collections are sane (no resources, every defined type unfolds) and separate.
  Requirement names are arbitrary.  Configuration: the repaired code (`Agg.empty`, in particular
  `cfg.nestedMerge`: fix c7305c6 "nested instances are merged recursively on a copy", and
  `cfg.typeMerge`: fix e9ab666, the same for `type` exports of interface type = finding 8).

  Proved: the invariant, `agg_upper_bound_nested`, `agg_greatest_nested`, `agg_perm_nested_partial`
  (when both orders succeed), `lower_redirected_nested`, `canonical_highest_nested`, and
  `merge_interface_nested` (one `merge_interface` call = the specification's `meet`, at every
  nesting depth), and TOTALITY: `fails_iff_incompatible_nested` (never panics; `Ok` exactly when
  every class of semver-compatible requirement names has a common subtype — an order-independent
  condition), `agg_perm_nested` (full: verdict and trees), `merge_interface_nested_fails_iff`.
  Not proved for this fragment: `agg_idempotent` (proved for the flat fragment in C09General).
-/
namespace Wac.Props.C09Nested
open Wac Wac.Spec Wac.AggP Wac.Props.C09General

theorem impN_merged {A : AggState} {n : Str} {F : Forest} (h : ImpN A (A.agg.canonical n) F) :
    MergedTree A n (.instance F) := by
  obtain ⟨e, ti, h1, h2, ⟨f, hf⟩, _⟩ := h
  exact ⟨.instance e, f + 1, h1, by simp [Types.unfoldKind, h2, hf]⟩

theorem nfragB_spec {cs : List Req} (h : nfragB cs = true) :
    (∀ r, r ∈ cs → (nestForest r).isSome = true ∧ r.2.1.uid ≠ 0) ∧ cs.Pairwise (fun a b => a.2.1.uid ≠ b.2.1.uid) := by
  simp only [nfragB, Bool.and_eq_true, List.all_eq_true, decide_eq_true_eq] at h
  exact ⟨fun r hr => h.1 r hr, h.2⟩


/-- **the invariant of the aggregator** after any list of the nested fragment -/
theorem nfrag_invariant (cs : List Req) (hf : nfragB cs = true) (A : AggState)
    (h : aggregateAll cs Agg.empty = .ok A) :
    GInvN (collsOf cs (nfragB_spec hf).2) (withNForests cs).reverse A := by
  obtain ⟨hall, hpw⟩ := nfragB_spec hf
  have hmap := withNForests_map (fun r hr => (hall r hr).1)
  have := ginvN_all (W := collsOf cs hpw) (withNForests cs) [] Agg.empty A
    (ginvN_empty _ (by rintro C ⟨r, hr, rfl⟩; exact (hall r hr).2))
    (by
      intro p hp
      obtain ⟨hm, hfp⟩ := withNForests_mem hp
      exact ⟨(nestForest_spec hfp).1, p.1, hm, rfl⟩)
    (by intro p _ q hq; cases hq)
    (by
      have : ((withNForests cs).map (·.1)).Pairwise (fun a b : Req => a.2.1.uid ≠ b.2.1.uid) := by
        rw [hmap]; exact hpw
      exact (List.pairwise_map (f := fun p : Req × Forest => p.1) (R := fun a b : Req => a.2.1.uid ≠ b.2.1.uid)).1 this)
    (by rw [hmap]; exact h)
  simpa using this.1

theorem mem_withNForests {cs : List Req} (hall : ∀ r, r ∈ cs → (nestForest r).isSome = true) {r : Req} (hr : r ∈ cs) :
    ∃ G, (r, G) ∈ withNForests cs ∧ nestForest r = some G := by
  obtain ⟨G, hG⟩ := Option.isSome_iff_exists.1 (hall r hr)
  refine ⟨G, ?_, hG⟩
  simp only [withNForests, List.mem_filterMap, Option.map_eq_some_iff]
  exact ⟨r, hr, G, hG, rfl⟩


/-- **`agg_upper_bound_nested`** (fragment).  Full statement (DESIGN §7): `aggregateAll cs = .ok A →
∀ contributor (n, t, k) ∈ cs, Sub (unfold A (canon n)) (unfold t k)`.  Proved for every list `cs`
of the fragment: the import under the canonical name of `n` exists, unfolds, and is a subtype of
the contributor's type. -/
theorem agg_upper_bound_nested (cs : List Req) (hf : nfragB cs = true) (A : AggState)
    (h : aggregateAll cs Agg.empty = .ok A) (r : Req) (hr : r ∈ cs) :
    ∃ m c, MergedTree A r.1 m ∧ r.2.1.unfold r.2.2 = some c ∧ sub m c = true := by
  have hG := nfrag_invariant cs hf A h
  obtain ⟨G, hmem, hfG⟩ := mem_withNForests (fun r hr => ((nfragB_spec hf).1 r hr).1) hr
  obtain ⟨F, hF, hs⟩ := hG.tinv.sat (r, G) (by simpa using hmem)
  exact ⟨.instance F, .instance G, impN_merged hF, (nestForest_spec hfG).2, hs⟩


/-- the merged import is the GREATEST type that satisfies all contributors of its class
(needed for order independence; with `agg_upper_bound_nested` it makes the merged import the greatest
common subtype of the class) -/
theorem agg_greatest_nested (cs : List Req) (hf : nfragB cs = true) (A : AggState)
    (h : aggregateAll cs Agg.empty = .ok A) (r : Req) (hr : r ∈ cs) (m : Tree) (hm : MergedTree A r.1 m)
    (X : Tree) (hX : X.namesDistinct = true)
    (hall : ∀ r', r' ∈ cs → compat r'.1 r.1 = true → ∀ c, r'.2.1.unfold r'.2.2 = some c → sub X c = true) :
    sub X m = true := by
  have hG := nfrag_invariant cs hf A h
  have hall' := (nfragB_spec hf).1
  obtain ⟨G, hmem, hfG⟩ := mem_withNForests (fun r hr => (hall' r hr).1) hr
  obtain ⟨F, hF, _⟩ := hG.tinv.sat (r, G) (by simpa using hmem)
  rw [mergedTree_det hm (impN_merged hF)]
  refine hG.tinv.glb _ F hF X hX ?_
  intro p hp hcl
  have hp' : p ∈ withNForests cs := by simpa using hp
  obtain ⟨hpm, hfp⟩ := withNForests_mem hp'
  have hS : ∀ q : Req × Forest, q ∈ withNForests cs → q.1.1 ∈ ((withNForests cs).reverse.map (·.1.1)) := by
    intro q hq; simp only [List.map_reverse, List.mem_reverse, List.mem_map]; exact ⟨q, hq, rfl⟩
  have hc := (hG.ninv.canon_eq_iff (hS p hp') (hS (r, G) hmem)).1 hcl
  exact hall p.1 hpm hc _ (nestForest_spec hfp).2


theorem nfragB_perm {cs cs' : List Req} (hp : cs.Perm cs') (hf : nfragB cs = true) : nfragB cs' = true := by
  obtain ⟨h1, h2⟩ := nfragB_spec hf
  simp only [nfragB, Bool.and_eq_true, List.all_eq_true, decide_eq_true_eq]
  refine ⟨fun r hr => h1 r (hp.mem_iff.2 hr), ?_⟩
  exact (hp.pairwise_iff (fun {a b} (h : a.2.1.uid ≠ b.2.1.uid) => fun e => h e.symm)).1 h2

/-- **`agg_perm`** (fragment, PARTIAL).  Full statement: for a permutation `cs'` of `cs`,
`(aggregateAll cs).map view = (aggregateAll cs').map view` (verdict and name→tree view, order of
imports excluded).  Proved: when both orders succeed, every contributor's merged import is the
same type up to the order of exports (each is a subtype of the other).  Missing: that one order
succeeds iff the other does (needs the failure direction `fails_iff_incompatible`, evaluated by
the driver on every case). -/
theorem agg_perm_nested_partial (cs cs' : List Req) (hp : cs.Perm cs') (hf : nfragB cs = true) (A A' : AggState)
    (h : aggregateAll cs Agg.empty = .ok A) (h' : aggregateAll cs' Agg.empty = .ok A')
    (r : Req) (hr : r ∈ cs) (m m' : Tree) (hm : MergedTree A r.1 m) (hm' : MergedTree A' r.1 m') :
    sub m m' = true ∧ sub m' m = true := by
  have hf' := nfragB_perm hp hf
  have hG := nfrag_invariant cs hf A h
  have hG' := nfrag_invariant cs' hf' A' h'
  obtain ⟨G, hmem, hfG⟩ := mem_withNForests (fun r hr => ((nfragB_spec hf).1 r hr).1) hr
  have hsame : ∀ p, p ∈ (withNForests cs).reverse ↔ p ∈ (withNForests cs').reverse := by
    intro p
    simp only [List.mem_reverse, withNForests]
    exact (hp.filterMap _).mem_iff
  obtain ⟨F, hF, _⟩ := hG.tinv.sat (r, G) (by simpa using hmem)
  obtain ⟨F', hF', _⟩ := hG'.tinv.sat (r, G) ((hsame _).1 (by simpa using hmem))
  rw [mergedTree_det hm (impN_merged hF), mergedTree_det hm' (impN_merged hF')]
  exact ginvN_equiv hG hG' hsame (q := (r, G)) (by simpa using hmem) hF hF'


/-- **`lower_redirected_nested`** (fragment; arbitrary many versions, chains included): all
semver-compatible requirement names end up at one import; a name that is not the import's name is
redirected to it directly (no chain is left) and is not an import itself. -/
theorem lower_redirected_nested (cs : List Req) (hf : nfragB cs = true) (A : AggState)
    (h : aggregateAll cs Agg.empty = .ok A) (r r' : Req) (hr : r ∈ cs) (hr' : r' ∈ cs)
    (hc : compat r'.1 r.1 = true) :
    A.agg.canonical r'.1 = A.agg.canonical r.1 ∧ (amGet A.agg.imports (A.agg.canonical r.1)).isSome = true ∧
      (r'.1 ≠ A.agg.canonical r.1 → amGet A.agg.redirects r'.1 = some (A.agg.canonical r.1) ∧
        amGet A.agg.imports r'.1 = none) := by
  have hG := nfrag_invariant cs hf A h
  have hall' := (nfragB_spec hf).1
  obtain ⟨G, hmem, _⟩ := mem_withNForests (fun r hr => (hall' r hr).1) hr
  obtain ⟨G', hmem', _⟩ := mem_withNForests (fun r hr => (hall' r hr).1) hr'
  have hS : ∀ q : Req × Forest, q ∈ withNForests cs → q.1.1 ∈ ((withNForests cs).reverse.map (·.1.1)) := by
    intro q hq; simp only [List.map_reverse, List.mem_reverse, List.mem_map]; exact ⟨q, hq, rfl⟩
  have hcl : canon A.agg.redirects r'.1 = canon A.agg.redirects r.1 :=
    (hG.ninv.canon_eq_iff (hS (r', G') hmem') (hS (r, G) hmem)).2 hc
  refine ⟨hcl, hG.ninv.canon_imported (hS (r, G) hmem), ?_⟩
  intro hne
  have hne' : r'.1 ≠ canon A.agg.redirects r'.1 := by rw [hcl]; exact hne
  cases hrd : amGet A.agg.redirects r'.1 with
  | none => exact absurd (by unfold canon; rw [hrd]; rfl) hne'
  | some b =>
    have hb : canon A.agg.redirects r'.1 = b := by unfold canon; rw [hrd]; rfl
    refine ⟨?_, (hG.ninv.red r'.1 b hrd).1⟩
    show some b = some (canon A.agg.redirects r.1)
    rw [← hcl, hb]


/-- **`canonical_highest_nested`** (fragment; arbitrary version lists): the canonical name of a
requirement is one of the requirement names of its class, is imported, and no name of the class
has a higher version. -/
theorem canonical_highest_nested (cs : List Req) (hf : nfragB cs = true) (A : AggState)
    (h : aggregateAll cs Agg.empty = .ok A) (r : Req) (hr : r ∈ cs) :
    (∃ r0, r0 ∈ cs ∧ r0.1 = A.agg.canonical r.1 ∧ compat r0.1 r.1 = true) ∧
    ∀ r', r' ∈ cs → compat r'.1 r.1 = true → ∀ k v' vh, altKey r'.1 = some (k, v') →
      altKey (A.agg.canonical r.1) = some (k, vh) → ¬ vh.lt v' = true := by
  have hG := nfrag_invariant cs hf A h
  have hall' := (nfragB_spec hf).1
  obtain ⟨G, hmem, _⟩ := mem_withNForests (fun r hr => (hall' r hr).1) hr
  have hS : ∀ q : Req × Forest, q ∈ withNForests cs → q.1.1 ∈ ((withNForests cs).reverse.map (·.1.1)) := by
    intro q hq; simp only [List.map_reverse, List.mem_reverse, List.mem_map]; exact ⟨q, hq, rfl⟩
  constructor
  · -- the canonical name is imported, hence was seen
    have hin := hG.ninv.from_ _ (hG.ninv.canon_imported (hS (r, G) hmem))
    simp only [List.map_reverse, List.mem_reverse, List.mem_map] at hin
    obtain ⟨q, hq, hqn⟩ := hin
    obtain ⟨hqm, _⟩ := withNForests_mem hq
    refine ⟨q.1, hqm, hqn, ?_⟩
    rw [hqn]
    refine (hG.ninv.canon_eq_iff (by rw [← hqn]; exact hS q hq) (hS (r, G) hmem)).1 ?_
    show canon A.agg.redirects (canon A.agg.redirects r.1) = canon A.agg.redirects r.1
    exact hG.ninv.canon_self (hG.ninv.canon_imported (hS (r, G) hmem))
  · intro r' hr' hc k v' vh hk' hkh
    obtain ⟨hcl, _, _⟩ := lower_redirected_nested cs hf A h r r' hr hr' hc
    obtain ⟨vh', hkc, hnlt⟩ := hG.ninv.canon_key (n := r'.1) hk'
    rw [show canon A.agg.redirects r'.1 = A.agg.canonical r.1 from hcl, hkh] at hkc
    cases hkc
    exact hnlt


/-! ### one `merge_interface` call on nested interfaces -/

/-- **`merge_interface_nested`**: target interface `e` (mutable, unfolding to `F`) and source interface
`id` of a contributor (nested fragment, unfolding to `G`): if `merge_interface` succeeds, the merged
target unfolds to `R` with `meet (.instance F) (.instance G) = some (.instance R)` — the
specification's greatest common subtype: nested instances are merged recursively (on copies) at
every depth, `R ≤ F`, `R ≤ G`, and `R` is the greatest such type. -/
theorem merge_interface_nested {W : Colls} {types : Types} (hW : W.mem types) (hs : Sane types)
    (fuel : Nat) (S : Nat → Prop) (e id : Nat) (s s' : AggState) (F G : Forest) (d : Nat)
    (hT : NState W types S e s F) (hsrc : SrcOK types d id)
    (hG : ∀ si, types.interfaces[id]? = some si → unfoldItems (types.unfoldKind types.fuel) si.exports = some G)
    (hGnd : G.namesDistinct = true) (hcov : Spec.cov (.instance F) = true)
    (h : mergeInterface fuel e types id s = .ok ((), s')) :
    ∃ R, NState W types S e s' R ∧ NStep types.uid e s s' ∧
      meet (.instance F) (.instance G) = some (.instance R) ∧
      sub (.instance R) (.instance F) = true ∧ sub (.instance R) (.instance G) = true ∧
      ∀ X, X.namesDistinct = true → sub X (.instance F) = true → sub X (.instance G) = true →
        sub X (.instance R) = true := by
  obtain ⟨R, h1, h2, h3⟩ := mergeInterface_nest hW hs fuel S e id s s' F G d hT hsrc hG hGnd h
  have hl := meet_lower_bound (.instance F) (.instance G) (.instance R) hcov (nd_instance hT.nd) (nd_instance hGnd) h3
  exact ⟨R, h1, h2, h3, hl.1, hl.2, fun X hX a b =>
    meet_greatest (.instance F) (.instance G) (.instance R) X hcov (nd_instance hT.nd) (nd_instance hGnd) hX h3 a b⟩

/-! ### examples: the nested requirements of finding 1 (notes/C09.md), with versioned names -/

/-- `i: instance { x: instance { a: func() }, y: instance { z: instance { c: func() } } }` -/
def nA : Types :=
  { uid := 1, funcs := [{}],
    interfaces := [{ exports := [(['a'], .func 0)] }, { exports := [(['c'], .func 0)] },
      { exports := [(['z'], .instance 1)] },
      { exports := [(['x'], .instance 0), (['y'], .instance 2)] }] }
/-- `i: instance { x: instance { a: func(), b: func() }, y: instance { z: instance { d: func() } } }` -/
def nB : Types :=
  { uid := 2, funcs := [{}],
    interfaces := [{ exports := [(['a'], .func 0), (['b'], .func 0)] }, { exports := [(['d'], .func 0)] },
      { exports := [(['z'], .instance 1)] },
      { exports := [(['y'], .instance 2), (['x'], .instance 0)] }] }
def qA : Req := ("a:b/c@1.0.0".toList, nA, .instance 3)
def qB : Req := ("a:b/c@1.2.0".toList, nB, .instance 3)

/-- the example list is in the nested fragment (depth 2), aggregates in both orders, and the two
names end at one import named by the higher version -/
example : nfragB [qA, qB] = true ∧ (aggregateAll [qA, qB] Agg.empty).toOption.isSome = true ∧
    (aggregateAll [qB, qA] Agg.empty).toOption.isSome = true ∧
    (aggregateAll [qA, qB] Agg.empty).toOption.map (fun A => A.agg.imports.map (·.1)) = some ["a:b/c@1.2.0".toList] ∧
    [qA, qB].Perm [qB, qA] ∧ compat qA.1 qB.1 = true := by
  refine ⟨by decide +kernel, by decide +kernel, by decide +kernel, by decide +kernel, List.Perm.swap _ _ _, by decide⟩

/-! ### totality, `fails_iff_incompatible`, full order independence -/

/-- every class of semver-compatible requirement names has a common subtype: a type with distinct
names that is a subtype of the requirement of every member of the class -/
def ClassLB (cs : List Req) : Prop :=
  ∀ r, r ∈ cs → ∃ X : Tree, X.namesDistinct = true ∧
    ∀ r', r' ∈ cs → compat r'.1 r.1 = true → ∀ c, r'.2.1.unfold r'.2.2 = some c → sub X c = true

theorem allLB_iff_classLB (cs : List Req) (hall : ∀ r, r ∈ cs → (nestForest r).isSome = true) :
    AllLB (withNForests cs) ↔ ClassLB cs := by
  constructor
  · intro h r hr
    obtain ⟨G, hmem, _⟩ := mem_withNForests hall hr
    obtain ⟨X, hX, hXall⟩ := h (r, G) hmem
    refine ⟨X, hX, fun r' hr' hc c hcu => ?_⟩
    obtain ⟨G', hmem', hfG'⟩ := mem_withNForests hall hr'
    have := hXall (r', G') hmem' hc
    rw [(nestForest_spec hfG').2] at hcu
    cases hcu
    exact this
  · intro h q hq
    obtain ⟨hqm, hfq⟩ := withNForests_mem hq
    obtain ⟨X, hX, hXall⟩ := h q.1 hqm
    refine ⟨X, hX, fun q' hq' hc => ?_⟩
    obtain ⟨hqm', hfq'⟩ := withNForests_mem hq'
    exact hXall q'.1 hqm' hc _ (nestForest_spec hfq').2

/-- **`fails_iff_incompatible_nested`** (nested fragment, full): aggregation never panics; it
succeeds exactly when every class of semver-compatible requirement names has a common subtype
(`ClassLB`, an order-independent condition of the specification: `meet_isSome_iff`); otherwise
it returns an error. -/
theorem fails_iff_incompatible_nested (cs : List Req) (hf : nfragB cs = true) :
    ((∃ A, aggregateAll cs Agg.empty = .ok A) ↔ ClassLB cs) ∧
    (∀ e, aggregateAll cs Agg.empty = .error e → ∃ m, e = .err m) := by
  obtain ⟨hall, hpw⟩ := nfragB_spec hf
  have hmap := withNForests_map (fun r hr => (hall r hr).1)
  have := aggregateAll_ntotal (W := collsOf cs hpw) (withNForests cs) [] Agg.empty
    (ginvN_empty _ (by rintro C ⟨r, hr, rfl⟩; exact (hall r hr).2)) rfl
    (by
      intro p hp
      obtain ⟨hm, hfp⟩ := withNForests_mem hp
      exact ⟨(nestForest_spec hfp).1, p.1, hm, rfl⟩)
    (by intro p _ q hq; cases hq)
    (by
      have : ((withNForests cs).map (·.1)).Pairwise (fun a b : Req => a.2.1.uid ≠ b.2.1.uid) := by
        rw [hmap]; exact hpw
      exact (List.pairwise_map (f := fun p : Req × Forest => p.1) (R := fun a b : Req => a.2.1.uid ≠ b.2.1.uid)).1 this)
  rw [hmap, lbFrom_nil_iff, allLB_iff_classLB cs (fun r hr => (hall r hr).1)] at this
  exact this

/-- `i: instance { x: instance { a: func() } }` against `i: instance { x: func() }` (an instance
against a function under the same name) and against `i: instance { x: instance { a: value u8 } }`
(a mismatch two levels down) -/
def nC : Types := { uid := 3, funcs := [{}], interfaces := [{ exports := [(['x'], .func 0)] }] }
def nD : Types :=
  { uid := 4, interfaces := [{ exports := [(['a'], .value (.prim .u8))] }, { exports := [(['x'], .instance 0)] }] }
def qC : Req := ("a:b/c@1.3.0".toList, nC, .instance 0)
def qD : Req := ("a:b/c@1.0.5".toList, nD, .instance 1)

/-- both directions are exercised: a compatible list succeeds, incompatible ones fail with an
error (not a panic), in every position of the offending requirement -/
example : nfragB [qA, qB] = true ∧ nfragB [qA, qC] = true ∧ nfragB [qA, qB, qD] = true ∧
    (aggregateAll [qA, qB] Agg.empty).toOption.isSome = true ∧
    (aggregateAll [qA, qC] Agg.empty).toOption.isSome = false ∧
    (aggregateAll [qC, qA] Agg.empty).toOption.isSome = false ∧
    (aggregateAll [qA, qB, qD] Agg.empty).toOption.isSome = false ∧
    (aggregateAll [qD, qB, qA] Agg.empty).toOption.isSome = false := by decide +kernel

/-- **`agg_perm_nested`** (nested fragment, FULL): for a permutation of the contributors the
verdict is the same (`Ok` in one order iff `Ok` in the other; an error is never a panic) and, when
it is `Ok`, every contributor's merged import is the same type up to the order of its exports. -/
theorem agg_perm_nested (cs cs' : List Req) (hp : cs.Perm cs') (hf : nfragB cs = true) :
    ((∃ A, aggregateAll cs Agg.empty = .ok A) ↔ (∃ A', aggregateAll cs' Agg.empty = .ok A')) ∧
    (∀ e, aggregateAll cs' Agg.empty = .error e → ∃ m, e = .err m) ∧
    (∀ A A', aggregateAll cs Agg.empty = .ok A → aggregateAll cs' Agg.empty = .ok A' →
      ∀ r, r ∈ cs → ∀ m m', MergedTree A r.1 m → MergedTree A' r.1 m' → sub m m' = true ∧ sub m' m = true) := by
  have hf' := nfragB_perm hp hf
  refine ⟨?_, (fails_iff_incompatible_nested cs' hf').2,
    fun A A' h h' r hr m m' hm hm' => agg_perm_nested_partial cs cs' hp hf A A' h h' r hr m m' hm hm'⟩
  rw [(fails_iff_incompatible_nested cs hf).1, (fails_iff_incompatible_nested cs' hf').1]
  exact ⟨fun h r hr => by
      obtain ⟨X, hX, hall⟩ := h r (hp.mem_iff.2 hr)
      exact ⟨X, hX, fun r' hr' => hall r' (hp.mem_iff.2 hr')⟩,
    fun h r hr => by
      obtain ⟨X, hX, hall⟩ := h r (hp.mem_iff.1 hr)
      exact ⟨X, hX, fun r' hr' => hall r' (hp.mem_iff.1 hr')⟩⟩

example : [qA, qB, qD].Perm [qD, qB, qA] ∧ nfragB [qA, qB, qD] = true := ⟨by decide, by decide +kernel⟩

/-- `i: instance { t: instance { a: func() } }` (an instance where `uA`/`uB` have a `type` export) -/
def uC : Types :=
  { uid := 3, funcs := [{}], interfaces := [{ exports := [(['a'], .func 0)] }, { exports := [(['t'], .instance 0)] }] }

/-- **the requirements of finding 8 are inside the nested fragment**: `type` exports of interface
type (`t: type instance { a }` and `t: type instance { a, b }`, `uA`/`uB` of C09General) are merged
recursively like nested instances, so `agg_upper_bound_nested`, `agg_greatest_nested`,
`fails_iff_incompatible_nested` and `agg_perm_nested` apply to the repaired branch (with the
pinned configuration the upper bound fails: `C09General.type_export_upper_bound_counterexample`).
A `type` export against an instance export of the same name is an error in both orders. -/
example : nfragB [(['i'], uA, .instance 1), (['i'], uB, .instance 1)] = true ∧
    (aggregateAll [(['i'], uA, .instance 1), (['i'], uB, .instance 1)] Agg.empty).toOption.isSome = true ∧
    (aggregateAll [(['i'], uB, .instance 1), (['i'], uA, .instance 1)] Agg.empty).toOption.isSome = true ∧
    nfragB [(['i'], uA, .instance 1), (['i'], uC, .instance 1)] = true ∧
    (aggregateAll [(['i'], uA, .instance 1), (['i'], uC, .instance 1)] Agg.empty).toOption.isSome = false ∧
    (aggregateAll [(['i'], uC, .instance 1), (['i'], uA, .instance 1)] Agg.empty).toOption.isSome = false := by
  decide +kernel

/-- **`merge_interface_nested_fails_iff`**: one `merge_interface` call on the nested fragment, with
enough fuel, never panics, and fails exactly when the specification's merge of the two instance
types is undefined — i.e. (`meet_isSome_iff`) when they have no common subtype. -/
theorem merge_interface_nested_fails_iff {W : Colls} {types : Types} (hW : W.mem types) (hs : Sane types)
    (fuel : Nat) (S : Nat → Prop) (e id m : Nat) (s : AggState) (F G : Forest) (d : Nat)
    (hT : NState W types S e s F) (hcfg : s.cfg.remapReplaced = true) (hsrc : SrcOK types d id)
    (hG : ∀ si, types.interfaces[id]? = some si → unfoldItems (types.unfoldKind m) si.exports = some G)
    (hm : m < types.fuel) (hGnd : G.namesDistinct = true) (hfuel : 2 * m + 2 ≤ fuel) :
    ((∃ s', mergeInterface fuel e types id s = .ok ((), s')) ∨
      (∃ msg, mergeInterface fuel e types id s = .error (.err msg))) ∧
    ((∃ s', mergeInterface fuel e types id s = .ok ((), s')) ↔ ∃ M, meet (.instance F) (.instance G) = some M) := by
  have hG' : ∀ si, types.interfaces[id]? = some si → unfoldItems (types.unfoldKind types.fuel) si.exports = some G :=
    fun si hsi => unfoldItems_fuel_mono (Nat.le_of_lt hm) (hG si hsi)
  rcases mergeInterface_ntotal hW hs fuel S e id m s F G d hT hcfg hsrc hG hm hGnd hfuel with ⟨s1, h1⟩ | ⟨msg, h1, hnone⟩
  · refine ⟨.inl ⟨s1, h1⟩, fun _ => ?_, fun _ => ⟨s1, h1⟩⟩
    obtain ⟨R, _, _, hmeet⟩ := mergeInterface_nest hW hs fuel S e id s s1 F G d hT hsrc hG' hGnd h1
    exact ⟨_, hmeet⟩
  · refine ⟨.inr ⟨msg, h1⟩, ⟨(fun ⟨s1, h2⟩ => by rw [h1] at h2; cases h2), (fun ⟨M, hM⟩ => ?_)⟩⟩
    simp [meet, hnone] at hM

/-! ### equal requirements merge to themselves -/

theorem nfragB_of_snoc {cs : List Req} {r' : Req} (h : nfragB (cs ++ [r']) = true) : nfragB cs = true := by
  obtain ⟨h1, h2⟩ := nfragB_spec h
  simp only [nfragB, Bool.and_eq_true, List.all_eq_true, decide_eq_true_eq]
  exact ⟨fun r hr => h1 r (List.mem_append_left _ hr), (List.pairwise_append.1 h2).1⟩

/-- **`agg_absorb_nested`** (nested fragment; target 3 for a requirement that arrives again from
another collection): after a successful aggregation, aggregating a requirement `r'` of a new
collection whose type equals that of a contributor `r` with a semver-compatible name succeeds, and
every contributor's merged import stays the same type up to the order of exports — equal
requirements merge to themselves, at every nesting depth.  (Re-aggregating `r` itself, i.e. with
the SAME collection uid, is `agg_idempotent`; it is proved for the flat fragment only.) -/
theorem agg_absorb_nested (cs : List Req) (r r' : Req) (hr : r ∈ cs) (hf' : nfragB (cs ++ [r']) = true)
    (hc : compat r.1 r'.1 = true) (htree : r'.2.1.unfold r'.2.2 = r.2.1.unfold r.2.2)
    (A : AggState) (h : aggregateAll cs Agg.empty = .ok A) :
    ∃ A', aggregate r'.1 r'.2.1 r'.2.2 A = .ok ((), A') ∧
      ∀ q, q ∈ cs → ∀ m m', MergedTree A q.1 m → MergedTree A' q.1 m' → sub m m' = true ∧ sub m' m = true := by
  have hf := nfragB_of_snoc hf'
  have hLB := (fails_iff_incompatible_nested cs hf).1.1 ⟨A, h⟩
  -- the extended list has common subtypes, too
  have hLB' : ClassLB (cs ++ [r']) := by
    have key : ∀ x, x ∈ cs → ∃ X : Tree, X.namesDistinct = true ∧
        ∀ r'', r'' ∈ cs ++ [r'] → compat r''.1 x.1 = true → ∀ c, r''.2.1.unfold r''.2.2 = some c → sub X c = true := by
      intro x hx
      obtain ⟨X, hX, hXall⟩ := hLB x hx
      refine ⟨X, hX, fun r'' hr'' hcx c hcu => ?_⟩
      rcases List.mem_append.1 hr'' with h1 | h1
      · exact hXall r'' h1 hcx c hcu
      · simp only [List.mem_singleton] at h1
        subst h1
        exact hXall r hr (compat_trans hc hcx) c (by rw [← htree]; exact hcu)
    intro x hx
    rcases List.mem_append.1 hx with h1 | h1
    · exact key x h1
    · simp only [List.mem_singleton] at h1
      subst h1
      obtain ⟨X, hX, hXall⟩ := key r hr
      exact ⟨X, hX, fun r'' hr'' hcx => hXall r'' hr'' (compat_trans hcx (by rw [compat_comm]; exact hc))⟩
  obtain ⟨A'', hA''⟩ := (fails_iff_incompatible_nested (cs ++ [r']) hf').1.2 hLB'
  have hA0 := hA''
  rw [aggregateAll_snoc, h] at hA0
  simp only at hA0
  cases ha : aggregate r'.1 r'.2.1 r'.2.2 A with
  | error e => rw [ha] at hA0; cases hA0
  | ok us =>
    obtain ⟨u, A'⟩ := us
    rw [ha] at hA0
    simp only [Except.ok.injEq] at hA0
    subst hA0
    refine ⟨A', by cases u; rfl, ?_⟩
    intro q hq m m' hm hm'
    have hG := nfrag_invariant cs hf A h
    have hG' := nfrag_invariant (cs ++ [r']) hf' A' hA''
    have hall := (nfragB_spec hf).1
    have hall' := (nfragB_spec hf').1
    have happ : withNForests (cs ++ [r']) = withNForests cs ++ withNForests [r'] := by
      simp only [withNForests, List.filterMap_append]
    obtain ⟨Gq, hmemq, _⟩ := mem_withNForests (fun r hr => (hall r hr).1) hq
    obtain ⟨G, hmemr, hfG⟩ := mem_withNForests (fun r hr => (hall r hr).1) hr
    have hsub : ∀ p, p ∈ (withNForests cs).reverse → p ∈ (withNForests (cs ++ [r'])).reverse := by
      intro p hp
      rw [happ]
      simp only [List.mem_reverse] at hp ⊢
      exact List.mem_append_left _ hp
    have hcopy : ∀ p', p' ∈ (withNForests (cs ++ [r'])).reverse →
        ∃ p, p ∈ (withNForests cs).reverse ∧ compat p.1.1 p'.1.1 = true ∧ p.2 = p'.2 := by
      intro p' hp'
      rw [happ] at hp'
      simp only [List.mem_reverse] at hp'
      rcases List.mem_append.1 hp' with h1 | h1
      · exact ⟨p', by simpa using h1, compat_refl _, rfl⟩
      · obtain ⟨hm1, hf1⟩ := withNForests_mem h1
        simp only [List.mem_singleton] at hm1
        refine ⟨(r, G), by simpa using hmemr, by rw [hm1]; exact hc, ?_⟩
        have e1 := (nestForest_spec hfG).2
        have e2 := (nestForest_spec hf1).2
        rw [hm1, htree, e1] at e2
        simp only [Option.some.injEq, Tree.instance.injEq] at e2
        exact e2
    have hmemq0 : (q, Gq) ∈ (withNForests cs).reverse := by simpa using hmemq
    obtain ⟨F, hF, _⟩ := hG.tinv.sat (q, Gq) hmemq0
    obtain ⟨F', hF', _⟩ := hG'.tinv.sat (q, Gq) (hsub _ hmemq0)
    rw [mergedTree_det hm (impN_merged hF), mergedTree_det hm' (impN_merged hF')]
    exact ginvN_equiv_ext hG hG' hsub hcopy (q := (q, Gq)) hmemq0 hF hF'

/-- `qB'`: the requirement `qB` once more, from another collection, under a lower version -/
def nB' : Types := { nB with uid := 7 }
def qB' : Req := ("a:b/c@1.1.0".toList, nB', .instance 3)

example : qB ∈ [qA, qB] ∧ nfragB ([qA, qB] ++ [qB']) = true ∧ compat qB.1 qB'.1 = true ∧
    qB'.2.1.unfold qB'.2.2 = qB.2.1.unfold qB.2.2 ∧ (aggregateAll [qA, qB] Agg.empty).toOption.isSome = true := by
  refine ⟨by decide, by decide +kernel, by decide, by decide +kernel, by decide +kernel⟩

end Wac.Props.C09Nested
