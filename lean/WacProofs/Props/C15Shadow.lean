import WacProofs.Lemmas.NameOps
import WacProofs.Props.C15
/-
  C15, second sentence, for EVERY sequence of `NameMap::insert` calls — fresh names, re-insertions
  with `allow_shadowing = true` (accepted, overwrite in place) and re-insertions without it
  (rejected, map unchanged).

  Model: `Wac.NameMap.{insert, get, step, runOps}` (WacModel/Names.lean, NameOps.lean).
  Specification: the effective entries `Wac.Spec.effective` (WacModel/Spec/NameOps.lean: first
  insertion order, last accepted write wins — exact names only) and the semver-aware lookup
  `Wac.Spec.{IsGet, getSpec}` on them (WacModel/Spec/Names.lean).
-/
namespace Wac.Props.C15
open Wac Wac.Spec

variable {β : Type}

-- a sequence with a rejected duplicate (#2), two shadowing overwrites (#3 of the lower version,
-- #5 of the track's highest), a fresh name inserted with the shadowing flag (#4) and an entry
-- of another track (#6)
def exOps : List (Str × Bool × Nat) :=
  [("a:b/c@1.0.0".toList, false, 0), ("a:b/c@1.4.0".toList, false, 1), ("a:b/c@1.4.0".toList, false, 2),
   ("a:b/c@1.0.0".toList, true, 3), ("a:b/c@1.2.9".toList, true, 4), ("a:b/c@1.4.0".toList, true, 5),
   ("a:b/c@2.0.0".toList, false, 6)]

/-- the effective entries have pairwise distinct names -/
theorem effective_names_nodup (ops : List (Str × Bool × β)) : ((effective ops).map (·.1)).Nodup :=
  nodup_effective ops

/-- one more call acts on the effective entries by `effStep` (append / overwrite in place / nothing)
and on the map by one `insert` -/
theorem effective_snoc (ops : List (Str × Bool × β)) (op : Str × Bool × β) :
    effective (ops ++ [op]) = effStep (effective ops) op := by
  unfold effective; rw [effectiveFrom_append]; rfl

theorem runOps_snoc (m : NameMap β) (ops : List (Str × Bool × β)) (op : Str × Bool × β) :
    m.runOps (ops ++ [op]) = (m.runOps ops).step op := by
  rw [runOps_append]; rfl

/-- closed form of the effective entries, name by name: the value stored under `n` is decided by
the calls naming `n` alone — the first defines it, a later one replaces it iff it allows shadowing -/
theorem effective_lookup_eq_stored (ops : List (Str × Bool × β)) (n : Str) :
    lookup (effective ops) n = stored ops n :=
  lookup_effectiveFrom [] ops n

example : stored exOps "a:b/c@1.4.0".toList = some 5 := by decide
example : stored exOps "a:b/c@1.3.0".toList = none := by decide

/-- the implementation rejects a call exactly when the specification does: the name is among
the effective entries and shadowing is not allowed -/
theorem insert_rejected_iff (ops : List (Str × Bool × β)) (n : Str) (sh : Bool) (x : β) :
    (({} : NameMap β).runOps ops).insert n sh x = none ↔ accepts (effective ops) n sh = false := by
  rw [insert_eq_none_iff, (inv_runOps_empty ops).defs n]
  unfold accepts
  cases lookup (effective ops) n <;> cases sh <;> simp

example : ((({} : NameMap Nat).runOps (exOps.take 2)).insert "a:b/c@1.4.0".toList false 2).isNone = true := by decide
example : ((({} : NameMap Nat).runOps (exOps.take 2)).insert "a:b/c@1.4.0".toList true 2).isSome = true := by decide

/-- C15, second sentence, for every call sequence and every query: the answer of `get` is
admissible for the effective entries — the exact match when there is one; otherwise an entry of
the requested track that no entry of that track exceeds in version; nothing when the query has
no track or the track has no entry. -/
theorem runOps_get_isGet (ops : List (Str × Bool × β)) (q : Str) :
    IsGet (effective ops) q ((({} : NameMap β).runOps ops).get q) :=
  inv_get_isGet (inv_runOps_empty ops) q

/-- … and it is the answer of the executable specification the driver evaluates on the
implementation's answers (admissible answers are unique: names are distinct and distinct names
of one track never tie). -/
theorem runOps_get_eq_getSpec (ops : List (Str × Bool × β)) (q : Str) :
    (({} : NameMap β).runOps ops).get q = getSpec (effective ops) q :=
  isGet_unique (nodup_effective ops) (tieFree_always _) q _ _
    (runOps_get_isGet ops q) (getSpec_isGet _ q)

-- non-vacuity: the example sequence, its effective entries and some answers
example : effective exOps =
    [("a:b/c@1.0.0".toList, 3), ("a:b/c@1.4.0".toList, 5), ("a:b/c@1.2.9".toList, 4), ("a:b/c@2.0.0".toList, 6)] := by
  decide
example : (({} : NameMap Nat).runOps exOps).get "a:b/c@1.1.0".toList = some 5 := by decide
example : (({} : NameMap Nat).runOps exOps).get "a:b/c@1.0.0".toList = some 3 := by decide
example : (({} : NameMap Nat).runOps exOps).get "a:b/c@3.0.0".toList = none := by decide
example : getSpec (effective exOps) "a:b/c@1.1.0".toList = some 5 := by decide

/-- every accepted call sets the value stored under exactly its name and nothing else
(in particular a shadowing re-insert) -/
theorem accepted_lookup (ops : List (Str × Bool × β)) (n : Str) (sh : Bool) (x : β)
    (hacc : accepts (effective ops) n sh = true) (n' : Str) :
    lookup (effective (ops ++ [(n, sh, x)])) n' = if n = n' then some x else lookup (effective ops) n' := by
  rw [effective_snoc]; exact lookup_effStep _ n sh x hacc n'

example : accepts (effective (exOps.take 3)) "a:b/c@1.0.0".toList true = true := by decide

/-- a rejected call changes nothing: neither the entries nor any answer -/
theorem rejected_noop (ops : List (Str × Bool × β)) (n : Str) (sh : Bool) (x : β)
    (hrej : accepts (effective ops) n sh = false) :
    effective (ops ++ [(n, sh, x)]) = effective ops ∧
    ∀ q, (({} : NameMap β).runOps (ops ++ [(n, sh, x)])).get q = (({} : NameMap β).runOps ops).get q := by
  have he : effective (ops ++ [(n, sh, x)]) = effective ops := by
    rw [effective_snoc]; exact effStep_rejected _ n sh x hrej
  refine ⟨he, ?_⟩
  intro q
  rw [runOps_get_eq_getSpec, runOps_get_eq_getSpec, he]

example : accepts (effective (exOps.take 2)) "a:b/c@1.4.0".toList false = false := by decide

/-- a shadowing re-insert of a present name overwrites its value in place: same names, same
order -/
theorem shadow_reinsert_entries (ops : List (Str × Bool × β)) (n : Str) (x : β)
    (hpres : lookup (effective ops) n ≠ none) :
    effective (ops ++ [(n, true, x)]) = setValue (effective ops) n x := by
  rw [effective_snoc]
  unfold effStep
  cases hl : lookup (effective ops) n with
  | none => exact absurd hl hpres
  | some y => rfl

/-- a shadowing re-insert changes exactly the answers that were given through the entry of that
name: afterwards a query is answered with the new value iff it was answered by that entry
(`answeredBy`), and as before otherwise -/
theorem shadow_reinsert_get (ops : List (Str × Bool × β)) (n : Str) (x : β) (q : Str)
    (hpres : lookup (effective ops) n ≠ none) :
    (({} : NameMap β).runOps (ops ++ [(n, true, x)])).get q =
      if answeredBy (effective ops) q = some n then some x else (({} : NameMap β).runOps ops).get q := by
  rw [runOps_get_eq_getSpec, runOps_get_eq_getSpec, shadow_reinsert_entries ops n x hpres,
    getSpec_setValue]

/-- … the name itself is answered with the new value, -/
theorem shadow_reinsert_get_self (ops : List (Str × Bool × β)) (n : Str) (x : β)
    (hpres : lookup (effective ops) n ≠ none) :
    (({} : NameMap β).runOps (ops ++ [(n, true, x)])).get n = some x := by
  rw [shadow_reinsert_get ops n x n hpres, answeredBy_exact hpres]; simp

/-- … every other present name keeps its answer, -/
theorem shadow_reinsert_get_other_entry (ops : List (Str × Bool × β)) (n : Str) (x : β) (q : Str)
    (hpres : lookup (effective ops) n ≠ none) (hq : lookup (effective ops) q ≠ none) (hne : q ≠ n) :
    (({} : NameMap β).runOps (ops ++ [(n, true, x)])).get q = (({} : NameMap β).runOps ops).get q := by
  rw [shadow_reinsert_get ops n x q hpres, answeredBy_exact hq]
  have : ¬ (some q = some n) := by intro e; cases e; exact hne rfl
  simp [this]

/-- … and a query answered through the semver fallback (no entry of that exact name, track `t`)
sees the new value iff the re-inserted name is the highest version of the track. -/
theorem shadow_reinsert_get_fallback (ops : List (Str × Bool × β)) (n : Str) (x : β) (q : Str)
    (t : Track) (hpres : lookup (effective ops) n ≠ none)
    (hq : lookup (effective ops) q = none) (ht : trackOf q = some t) :
    (({} : NameMap β).runOps (ops ++ [(n, true, x)])).get q =
      if (highest (onTrack (effective ops) t)).map (·.1) = some n then some x
      else (({} : NameMap β).runOps ops).get q := by
  rw [shadow_reinsert_get ops n x q hpres, answeredBy_fallback hq ht]

-- non-vacuity: after the first five calls of the example the track 1.x holds 1.0.0, 1.4.0, 1.2.9;
-- overwriting the highest (1.4.0) is seen by a fallback query, overwriting 1.0.0 is not
example : lookup (effective (exOps.take 5)) "a:b/c@1.4.0".toList ≠ none := by decide
example : lookup (effective (exOps.take 5)) "a:b/c@1.1.0".toList = none := by decide
example : trackOf "a:b/c@1.1.0".toList = some (.major "a:b/c".toList 1) := by decide
example : (({} : NameMap Nat).runOps (exOps.take 5 ++ [("a:b/c@1.4.0".toList, true, 77)])).get "a:b/c@1.1.0".toList = some 77 := by
  decide
example : (({} : NameMap Nat).runOps (exOps.take 5 ++ [("a:b/c@1.0.0".toList, true, 77)])).get "a:b/c@1.1.0".toList = some 1 := by
  decide
example : (({} : NameMap Nat).runOps (exOps.take 5 ++ [("a:b/c@1.0.0".toList, true, 77)])).get "a:b/c@1.0.0".toList = some 77 := by
  decide

/-- order independence, general form: two call sequences (with any mixture of fresh, shadowing
and rejected calls) that leave the same effective entries up to order answer every query alike -/
theorem runOps_get_order_independent (ops ops' : List (Str × Bool × β)) (q : Str)
    (hp : (effective ops).Perm (effective ops')) :
    (({} : NameMap β).runOps ops).get q = (({} : NameMap β).runOps ops').get q := by
  have a := runOps_get_isGet ops q
  have b := isGet_perm hp.symm (nodup_effective ops') q _ (runOps_get_isGet ops' q)
  exact isGet_unique (nodup_effective ops) (tieFree_always _) q _ _ a b

/-- calls with pairwise distinct names are all accepted, whatever their flags: the effective
entries are the calls themselves -/
theorem effective_of_distinct (ops : List (Str × Bool × β)) (hnd : (ops.map (·.1)).Nodup) :
    effective ops = ops.map (fun o => (o.1, o.2.2)) := by
  unfold effective
  rw [effectiveFrom_fresh [] ops (by intro o _; rfl) hnd]; simp

/-- order independence for call sequences with pairwise distinct names (every call accepted,
with or without the shadowing flag): any reordering answers every query alike -/
theorem runOps_get_perm_of_distinct (ops ops' : List (Str × Bool × β)) (q : Str)
    (hnd : (ops.map (·.1)).Nodup) (hp : ops.Perm ops') :
    (({} : NameMap β).runOps ops).get q = (({} : NameMap β).runOps ops').get q := by
  have hnd' : (ops'.map (·.1)).Nodup := (hp.map _).nodup_iff.mp hnd
  apply runOps_get_order_independent
  rw [effective_of_distinct ops hnd, effective_of_distinct ops' hnd']
  exact hp.map _

-- non-vacuity: two different sequences (one with a rejected call and a shadowing overwrite, one
-- plain) with the same effective entries in different orders
def exA : List (Str × Bool × Nat) :=
  [("a:b/c@1.0.0".toList, false, 0), ("a:b/c@1.4.0".toList, false, 9), ("a:b/c@1.0.0".toList, false, 8),
   ("a:b/c@1.4.0".toList, true, 1)]
def exB : List (Str × Bool × Nat) := [("a:b/c@1.4.0".toList, true, 1), ("a:b/c@1.0.0".toList, false, 0)]
example : effective exA = [("a:b/c@1.0.0".toList, 0), ("a:b/c@1.4.0".toList, 1)] := by decide
example : effective exB = [("a:b/c@1.4.0".toList, 1), ("a:b/c@1.0.0".toList, 0)] := by decide
example : (effective exA).Perm (effective exB) := by decide
example : (exB.map (·.1)).Nodup := by decide

/-- the earlier `insertAll` theorems are the special case "all flags off, no call rejected" -/
theorem insertAll_eq_runOps (es : List (Str × β)) (m0 m : NameMap β)
    (h : m0.insertAll es = some m) :
    m = m0.runOps (es.map fun e => (e.1, false, e.2)) := by
  induction es generalizing m0 with
  | nil => simp only [NameMap.insertAll, Option.some.injEq] at h; exact h.symm
  | cons e es ih =>
    obtain ⟨n, x⟩ := e
    simp only [NameMap.insertAll] at h
    cases hi : m0.insert n false x with
    | none => simp [hi] at h
    | some m1 =>
      simp only [hi] at h
      simp only [List.map_cons, NameMap.runOps, NameMap.step, hi]
      exact ih m1 h

example : (({} : NameMap Nat).insertAll exEntries).isSome = true := by decide

end Wac.Props.C15
