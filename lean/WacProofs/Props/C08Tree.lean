import WacProofs.Lemmas.DecodeCanon
/-
  C08 — decoding a package preserves its component type: the **global** theorems.

  Model: `Wac.Decode.fromBytes` (WacModel/Decode.lean) = `Package::from_bytes` / `TypeConverter` of
  crates/wac-types/src/package.rs over the validator's view `W` of a component.
  Specification: `Wac.Spec.Decode.treeW` (the tree `W` denotes), `canon` (resource leaves numbered by
  first occurrence), `specTree` (S1 of the driver).

  Method (WacProofs/Lemmas/Decode{Ext,Inv,Defined,Val,Func,Res,Open,Mild,Items,World,Entity,Mutual,
  Top,Canon}.lean): a cache invariant `Inv` — every id in the converter's cache denotes, in every
  later arena, the tree of the validator's id, resource leaves renamed by the final resource map —
  is threaded through `component_defined_type`, `component_func_type`, `module_type`, `resource`
  and the mutual recursion `entity` / `ty` / `component_instance_type` / `component_type`, by
  induction on the converter's fuel.  Facts are *robust* (`HK`): they hold in every extension of
  the arena that leaves the closed interfaces/worlds alone, which is what lets them survive the
  filling-in of an interface allocated before its exports are converted.
-/
namespace Wac.Props.C08
open Wac Wac.Decode Wac.Spec.Decode

/-- **decode_tree.**  For every validated component type `w` (field, case, flag, parameter and
top-level names pairwise distinct, as the validator guarantees) that the converter accepts: the
world of the decoded package unfolds — with the default fuel of `Types.unfold` — to the tree of
the validator's view, up to the numbering of resources (`canon`: first-occurrence numbering, which
is exactly how the driver's S1 compares them).  Names, order, sorts, function signatures
(parameter names, order, result, async), value types, nesting of instances and components, and
resource identity (which leaves are the same resource) are all part of the tree. -/
theorem decode_tree (w : WTypes) (d : Decoded) (root : WComp) (t : Tree) (hn : NamesOk w)
    (hroot : w.comps[w.root]? = some root)
    (hi : (root.imports.map (·.1)).Nodup) (he : (root.exports.map (·.1)).Nodup)
    (h : fromBytes w = .ok d) (ht : treeW w = some t) :
    ∃ ta, d.types.unfold (.component d.world) = some ta ∧ canon ta = canon t := by
  obtain ⟨ρ, hinj, hu⟩ := fromBytes_tree w d root t hn hroot hi he h ht
  exact ⟨_, hu, canon_ren hinj t⟩

/-- `decode_tree` in the driver's words: the S1 check of the specification never fires on the
model's own output. -/
theorem decode_spec_tree (w : WTypes) (d : Decoded) (root : WComp) (t : Tree) (hn : NamesOk w)
    (hroot : w.comps[w.root]? = some root)
    (hi : (root.imports.map (·.1)).Nodup) (he : (root.exports.map (·.1)).Nodup)
    (h : fromBytes w = .ok d) (ht : treeW w = some t) :
    specTree w d.types d.world = none := by
  obtain ⟨ta, hu, hc⟩ := decode_tree w d root t hn hroot hi he h ht
  simp [specTree, ht, hu, hc]

/-- **decode_tree, resource-free.**  Without resources the two trees are *equal*. -/
theorem decode_tree_resource_free (w : WTypes) (d : Decoded) (root : WComp) (t : Tree) (hn : NamesOk w)
    (hroot : w.comps[w.root]? = some root)
    (hi : (root.imports.map (·.1)).Nodup) (he : (root.exports.map (·.1)).Nodup)
    (h : fromBytes w = .ok d) (ht : treeW w = some t) (hrf : t.resourceFree = true) :
    d.types.unfold (.component d.world) = some t := by
  obtain ⟨ρ, _, hu⟩ := fromBytes_tree w d root t hn hroot hi he h ht
  rw [hu, renT_resourceFree t hrf]

/-- all hypotheses of `decode_tree`, as a Boolean (for the non-vacuity examples, which are
evaluated by the kernel) -/
def hypsOk (w : WTypes) : Bool :=
  decide (NamesOk w) &&
  match w.comps[w.root]?, fromBytes w, treeW w with
  | some root, .ok _, some _ => decide (root.imports.map (·.1)).Nodup && decide (root.exports.map (·.1)).Nodup
  | _, _, _ => false

theorem hypsOk_spec {w : WTypes} (h : hypsOk w = true) : ∃ d root t, NamesOk w ∧ w.comps[w.root]? = some root ∧
    (root.imports.map (·.1)).Nodup ∧ (root.exports.map (·.1)).Nodup ∧ fromBytes w = .ok d ∧ treeW w = some t := by
  unfold hypsOk at h
  simp only [Bool.and_eq_true, decide_eq_true_eq] at h
  obtain ⟨hn, h⟩ := h
  split at h
  · rename_i root d t hr hd ht
    simp only [Bool.and_eq_true, decide_eq_true_eq] at h
    exact ⟨d, root, t, hn, hr, h.1, h.2, hd, ht⟩
  · cases h

/-- a component with a record, a variant, a list, a function using them, an instance exporting the
function and the record, and a nested component type -/
def exW : WTypes :=
  { root := 1,
    defs := [ { peel := none, body := .record [("x".toList, .prim .u32), ("y".toList, .prim .string)] },
              { peel := none, body := .variant [("a".toList, none), ("b".toList, some (.ty 0))] },
              { peel := none, body := .list (.ty 1) },
              { peel := some 0, body := .record [("x".toList, .prim .u32), ("y".toList, .prim .string)] } ],
    funcs := [ { isAsync := true, params := [("p".toList, .ty 0), ("q".toList, .ty 2)], result := some (.ty 1) } ],
    insts := [ [("rec".toList, .type (.defined 0) (.defined 3)), ("f".toList, .func 0)] ],
    comps := [ { imports := [("v".toList, .value (.prim .bool))], exports := [("g".toList, .func 0)] },
               { imports := [("rec".toList, .type (.defined 0) (.defined 0)), ("a:b/i".toList, .instance 0),
                             ("c".toList, .component 0)],
                 exports := [("f".toList, .func 0), ("i2".toList, .instance 0)] } ] }

/-- non-vacuity of `decode_tree` / `decode_tree_resource_free`: `exW` meets every hypothesis, its
tree is resource-free and has 3 imports and 2 exports -/
example : hypsOk exW = true := by decide +kernel
example : (match treeW exW with
    | some (.component i e) => i.names.length == 3 && e.names.length == 2 && (Tree.component i e).resourceFree
    | _ => false) = true := by decide +kernel
example : ∃ ta, (∃ d, fromBytes exW = .ok d ∧ d.types.unfold (.component d.world) = some ta) := by
  obtain ⟨d, root, t, hn, hr, hi, he, hd, ht⟩ := hypsOk_spec (w := exW) (by decide +kernel)
  obtain ⟨ta, hu, _⟩ := decode_tree exW d root t hn hr hi he hd ht
  exact ⟨ta, d, hd, hu⟩

/-- a component with a resource exported by an imported interface, used through an alias id by a
second interface (`own`, `borrow`), and re-exported -/
def exR : WTypes :=
  { root := 0,
    res := [ { base := 7, peel := none }, { base := 7, peel := some 0 }, { base := 9, peel := none } ],
    defs := [ { peel := none, body := .own 0 }, { peel := none, body := .borrow 1 },
              { peel := none, body := .own 2 } ],
    funcs := [ { isAsync := false, params := [("self".toList, .ty 1)], result := some (.ty 0) },
               { isAsync := false, params := [("o".toList, .ty 2)], result := none } ],
    insts := [ [("r".toList, .type (.res 0) (.res 0))],
               [("r".toList, .type (.res 0) (.res 1)), ("[method]r.m".toList, .func 0),
                ("s".toList, .type (.res 2) (.res 2)), ("k".toList, .func 1)] ],
    comps := [ { imports := [("a:b/i".toList, .instance 0)], exports := [("a:b/j".toList, .instance 1)] } ] }

/-- non-vacuity of `decode_tree` with resources: `exR` meets every hypothesis and its tree is not
resource-free -/
example : hypsOk exR = true := by decide +kernel
example : (match treeW exR with | some t => !t.resourceFree | none => false) = true := by decide +kernel

/-- **decode_lists_exact, strengthened to trees.**  The decoded world lists the component's imports
and exports in order under the same names, and every item denotes the tree of the validator's item
(`NK`: same name, and `RK`: in the decoded collection the converted item unfolds to the validator's
tree with resource leaves renamed by the injective `ρ`). -/
theorem decode_lists_trees (w : WTypes) (d : Decoded) (root : WComp) (hn : NamesOk w)
    (hroot : w.comps[w.root]? = some root)
    (hi : (root.imports.map (·.1)).Nodup) (he : (root.exports.map (·.1)).Nodup)
    (h : fromBytes w = .ok d) :
    ∃ (ρ : Nat → Res) (wd : World), (∀ a b, (ρ a).idx = (ρ b).idx → a = b) ∧
      d.types.worlds[d.world]? = some wd ∧
      wd.imports.map (·.1) = root.imports.map (·.1) ∧ wd.exports.map (·.1) = root.exports.map (·.1) ∧
      (∀ g f, entTrees (entTree w g) root.imports = some f →
        unfoldItems (d.types.unfoldKind (d.types.fuel - 1)) wd.imports = some (renF ρ f)) ∧
      (∀ g f, entTrees (entTree w g) root.exports = some f →
        unfoldItems (d.types.unfoldKind (d.types.fuel - 1)) wd.exports = some (renF ρ f)) := by
  obtain ⟨ρ, st, imports, exports, hinj, _, hext, _, hfuel, hwd, r1, r2⟩ :=
    fromBytes_lists w d root hn hroot hi he h
  have hb : bnd 0 st + 2 ≤ d.types.fuel - 1 := by unfold bnd; omega
  exact ⟨ρ, _, hinj, hwd, All2_named_fst r1, All2_named_fst r2,
    fun g f hf => entTrees_fact r1 g f hf d.types _ hext hb,
    fun g f hf => entTrees_fact r2 g f hf d.types _ hext hb⟩

example : ∃ (ρ : Nat → Res) (d : Decoded) (wd : World), fromBytes exW = .ok d ∧
    d.types.worlds[d.world]? = some wd ∧ wd.imports.map (·.1) = ["rec".toList, "a:b/i".toList, "c".toList] ∧
    (∀ a b, (ρ a).idx = (ρ b).idx → a = b) := by
  obtain ⟨d, root, t, hn, hr, hi, he, hd, ht⟩ := hypsOk_spec (w := exW) (by decide +kernel)
  obtain ⟨ρ, wd, hinj, hwd, him, _⟩ := decode_lists_trees exW d root hn hr hi he hd
  have hroot : root = { imports := [("rec".toList, .type (.defined 0) (.defined 0)), ("a:b/i".toList, .instance 0),
      ("c".toList, .component 0)], exports := [("f".toList, .func 0), ("i2".toList, .instance 0)] } := by
    have : exW.comps[exW.root]? = some _ := hr
    simpa [exW] using this.symm
  exact ⟨ρ, d, wd, hd, hwd, by rw [him, hroot]; rfl, hinj⟩

/-- **decode_func_faithful** (full: cache hit or miss, types included).  In any converter state
that satisfies the cache invariant — every state of a run does, `mutual_ok` — the function type id
that `component_func_type` returns unfolds to the validator's function type: the same async flag,
the validator's parameter names in order, each parameter type and the result type denoting the
validator's types. -/
theorem decode_func_faithful (w : WTypes) (ρ : Nat → Res) (oi ow : List Nat) (c : Nat) (hn : NamesOk w)
    (fuel : Nat) (st st' : St) (f id : Nat) (hinv : Inv w ρ oi ow c st)
    (h : funcType w fuel st f = .ok (st', id)) (g : Nat) (t : Tree) (ht : funcTree w g f = some t) :
    st'.types.unfoldFunc st'.types.fuel id = some (renT ρ t) ∧
    ∃ ft ps r, w.funcs[f]? = some ft ∧ t = .func ft.isAsync ps r ∧
      namedTrees (valTree w g) ft.params = some ps ∧ optTree (valTree w g) ft.result = some r := by
  obtain ⟨_, kk⟩ := funcType_good (ρ := ρ) (oi := oi) (ow := ow) (c := c) hn fuel st f st' id h
  obtain ⟨_, hrf⟩ := kk hinv
  refine ⟨hrf g t ht _ _ (Ext.refl _ _ _) (by rw [Types.fuel_eq]; unfold bnd; omega), ?_⟩
  unfold funcTree at ht
  split at ht
  · cases ht
  · rename_i ft hft
    split at ht
    · rename_i ps r hps hr
      cases ht
      exact ⟨ft, ps, r, hft, rfl, hps, hr⟩
    · cases ht

/-- non-vacuity of `decode_func_faithful`: the function of `exW`, converted in the empty state
(its parameter types are converted on the way) and a second time (cache hit) -/
example : Inv exW (fun _ => default) [] [] 0 {} := (inv_empty _ _).1
example : (match funcType exW 5 {} 0 with
    | .ok (st', _) => (match funcType exW 5 st' 0, funcTree exW 5 0 with
      | .ok _, some (.func a ps _) => a && ps.names == ["p".toList, "q".toList]
      | _, _ => false)
    | _ => false) = true := by decide +kernel

/-- **decode_instance_faithful.**  In any converter state that satisfies the cache invariant, the
interface that `component_instance_type` returns lists the instance type's exports in order and
each denotes the validator's export: it unfolds to the validator's instance tree. -/
theorem decode_instance_faithful (w : WTypes) (ρ : Nat → Res) (hn : NamesOk w) (fuel : Nat) (st st' : St)
    (name : Option Str) (i id : Nat) (hinv : Inv w ρ [] [] 0 st)
    (h : instanceType w fuel st name i = .ok (st', id)) (hcons : Cons ρ st') (g : Nat) (t : Tree)
    (ht : entTree w g (.instance i) = some t) :
    st'.types.unfold (.instance id) = some (renT ρ t) := by
  obtain ⟨_, kk⟩ := (mutual_ok (ρ := ρ) hn fuel).2.2.1 [] [] 0 st (name, i) st' id h
  obtain ⟨_, hrk⟩ := kk ⟨hinv, fun _ hm => (by cases hm), fun _ hm => (by cases hm)⟩ hcons
  exact hrk g t ht _ _ (Ext.refl _ _ _) (by rw [Types.fuel_eq]; unfold bnd; omega)

example (st' : St) : Inv exW (rhoOf st') [] [] 0 {} ∧ Cons (rhoOf st') st' := ⟨(inv_empty _ _).1, cons_rhoOf _⟩
example : (match instanceType exW 6 {} none 0, entTree exW 6 (.instance 0) with
    | .ok _, some (.instance f) => f.names == ["rec".toList, "f".toList]
    | _, _ => false) = true := by decide +kernel

/-- **resource_identity_preserved** (global).  After a successful `from_bytes`, take any two
validator resource ids `r1`, `r2` the converter has converted (they are in its cache, as `id1`,
`id2`).  In the decoded collection both resolve (through their alias chains) to root resources,
and they resolve to the *same* root exactly when the validator's ids denote the same resource
(same base): two references to one resource decode to one resource or an alias chain to it, and
two different resources never collapse. -/
theorem resource_identity_preserved (w : WTypes) (d : Decoded) (root : WComp) (hn : NamesOk w)
    (hroot : w.comps[w.root]? = some root)
    (hi : (root.imports.map (·.1)).Nodup) (he : (root.exports.map (·.1)).Nodup)
    (h : fromBytes w = .ok d) :
    ∃ (st0 st : St) (imports exports : List (Str × ItemKind)),
      topItems w w.fuel {} root.imports = .ok (st0, imports) ∧
      topItems w w.fuel st0 root.exports = .ok (st, exports) ∧
      ∀ r1 r2 id1 id2, lookup st.cache (.any (.res r1)) = some (.resource id1) →
        lookup st.cache (.any (.res r2)) = some (.resource id2) →
        ∃ e1 e2 l1 l2, w.res[r1]? = some e1 ∧ w.res[r2]? = some e2 ∧
          d.types.resLeaf id1 = some l1 ∧ d.types.resLeaf id2 = some l2 ∧
          (l1.idx = l2.idx ↔ e1.base = e2.base) := by
  obtain ⟨ρ, st, imports, exports, hinj, ⟨st0, h1, h2⟩, hext, hinv, _, _, _, _⟩ :=
    fromBytes_lists w d root hn hroot hi he h
  refine ⟨st0, st, imports, exports, h1, h2, ?_⟩
  intro r1 r2 id1 id2 hc1 hc2
  obtain ⟨e1, he1, hl1⟩ := hinv.res r1 id1 hc1
  obtain ⟨e2, he2, hl2⟩ := hinv.res r2 id2 hc2
  refine ⟨e1, e2, _, _, he1, he2, hl1 _ hext, hl2 _ hext, ?_⟩
  constructor
  · exact hinj _ _
  · intro hb; rw [hb]

/-- non-vacuity: in `exR` the validator ids 0 and 1 are one resource (base 7), id 2 another -/
example : hypsOk exR = true := by decide +kernel
example : (match fromBytes exR with
    | .ok d => d.types.resources.map (·.alias.map (·.source)) == [none, some 0, none]
    | _ => false) = true := by decide +kernel

/-! ### used-type provenance across an interface without an id

  Finding (made while trying to prove S3 `specUsesSound` globally): the first version of S3 demanded
  that a used interface has an id, and `∀ w d, fromBytes w = .ok d → specUsesSound d.types = none`
  is FALSE for it: an instance imported under a *plain* name (no `:`) gets no id, yet a later
  interface that refers to one of its types records `uses[u] = (that interface, t)`.  The real code
  does the same (MODEL agrees) and `TypeEncoder::use_aliases` then panicked
  `interface should have an id`.  Replay (harness c08 syntax, corpus/C08/idless-used-interface.case):
  `CASE	c08-corpus-1	N	decode	wat	(component (import "foo" (instance $foo (export "t" (type (sub resource))))) (alias export $foo "t" (type $t)) (import "bar" (instance (export "u" (type (eq $t))))))`
  Repair: in the encoder (an instance without an id is aliased through the index it was imported /
  exported under); dropping the `use` in the decoder instead is *not* enough — the resource of `bar`
  is the resource of `foo`, and without the `use` the encoder cannot say so (`no entry found for
  key` in `export_resource`).  S3 no longer demands an id. -/

/-- the validator's view of the replay above (as printed by the harness) -/
def exPlain : WTypes :=
  { root := 0,
    insts := [ [("t".toList, .type (.res 0) (.res 0))], [("u".toList, .type (.res 0) (.res 1))] ],
    comps := [ { imports := [("foo".toList, .instance 0), ("bar".toList, .instance 1)], exports := [] } ],
    res := [ { base := 0, peel := none }, { base := 0, peel := some 0 } ] }

/-- on the replay: the converter records the provenance `u ↦ (interface 0, t)` although interface 0
has no id, the second resource is an alias of the first, and S3 (without the id clause) holds -/
theorem idless_interface_used :
    (match fromBytes exPlain with
      | .ok d => (specUsesSound d.types).isNone &&
          d.types.interfaces.map (fun i => (i.id, i.uses)) ==
            [(none, []), (none, [("u".toList, { interface := 0, name := some "t".toList })]), (none, [])] &&
          d.types.resources.map (·.alias.map (·.source)) == [none, some 0]
      | _ => false) = true := by decide +kernel

end Wac.Props.C08
