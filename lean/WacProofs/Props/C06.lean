import WacModel.Spec.Graph
import WacProofs.Lemmas.GraphErrors
import WacProofs.Lemmas.Graph
import WacProofs.Lemmas.GraphInvPkg
import WacProofs.Lemmas.GraphInvUnexport
import WacProofs.Lemmas.GraphInvUnsetArg
import WacProofs.Lemmas.GraphInvDefine2
import WacProofs.Lemmas.GraphInvRemove2
import WacProofs.Lemmas.GraphInvUnreg4
import WacProofs.Lemmas.GraphNoPanic2
import WacProofs.Lemmas.GraphQueries
import WacProofs.Lemmas.GraphNoPanic4
import WacModel.GraphProto
/-
  C06 — the graph API stays consistent over every operation history.

  Model: WacModel/Graph.lean (function for function with graph.rs); specification:
  WacModel/Spec/Graph.lean (`Inv`, `LiveIds`).  All theorems quantify over every static
  context `ctx` (packages, kinds, types, subtype verdicts, name validity) and every state.
-/
namespace Wac.Props.C06
open Wac Wac.Graph

/-! ### a small concrete universe for the non-vacuity examples and the counterexamples -/

/-- kind 0 = a function, kind 1 = the instance type of package `p` (exports `a : kind 0`) -/
def ctxW : Ctx where
  kindExports k := if k = 1 then some [(['a'], 0)] else none
  sub a b := a == b
  tyVisits ty := if ty = 0 then [0] else if ty = 1 then [1, 0] else [2, 1, 0]
  tyIsResource _ := false
  tyKind ty := 10 + ty
  validExtern s := !s.isEmpty
  validExport s := !s.isEmpty

/-- package `p`: imports `a : kind 0`, instances have kind 1 -/
def pkgW : PkgDef := ⟨['p'], none, [(['a'], 0)], 1⟩

/-- the small universe is numbered children first -/
theorem ctxW_wf : KindWF ctxW ∧ TyWF ctxW := by
  constructor
  · intro k exps hk p hp
    simp only [ctxW] at hk
    split at hk
    · rename_i h1
      cases hk
      simp only [List.mem_cons, List.not_mem_nil, or_false] at hp
      subst hp; subst h1; decide
    · cases hk
  · have key : ∀ (t u : Nat), u ∈ (if t = 0 then [0] else if t = 1 then [1, 0] else [2, 1, 0]) → u ≤ t := by
      intro t u hu
      split at hu
      · simp only [List.mem_cons, List.not_mem_nil, or_false] at hu; omega
      · split at hu
        · simp only [List.mem_cons, List.not_mem_nil, or_false] at hu; omega
        · simp only [List.mem_cons, List.not_mem_nil, or_false] at hu; omega
    exact fun t u hu => key t u hu

/-- the driver's check of the universe of a case is the assumption of the theorems below -/
theorem universe_check_sound (t : GraphProto.Tables)
    (h : (kindWFUpTo t.ctx t.kinds.size && tyWFUpTo t.ctx t.types.size) = true) :
    KindWF t.ctx ∧ TyWF t.ctx := by
  rw [Bool.and_eq_true] at h
  obtain ⟨hk, ht⟩ := h
  constructor
  · intro k exps hke p hp
    by_cases hlt : k < t.kinds.size
    · unfold kindWFUpTo at hk
      rw [List.all_eq_true] at hk
      have := hk k (List.mem_range.mpr hlt)
      rw [hke] at this
      simp only [List.all_eq_true, decide_eq_true_eq] at this
      exact this p hp
    · have : t.ctx.kindExports k = none := by
        simp only [GraphProto.Tables.ctx]
        rw [Array.getElem?_eq_none (Nat.le_of_not_lt hlt)]
        rfl
      rw [this] at hke; cases hke
  · intro ty u hu
    by_cases hlt : ty < t.types.size
    · unfold tyWFUpTo at ht
      rw [List.all_eq_true] at ht
      have := ht ty (List.mem_range.mpr hlt)
      simp only [List.all_eq_true, decide_eq_true_eq] at this
      exact this u hu
    · have : t.ctx.tyVisits ty = [] := by
        simp only [GraphProto.Tables.ctx]
        rw [Array.getElem?_eq_none (Nat.le_of_not_lt hlt)]
        rfl
      rw [this] at hu; cases hu

/-- the empty graph is consistent -/
theorem inv_init (ctx : Ctx) : Inv ctx {} := by
  constructor <;> simp [Graph.node?]

/-! ### each error is the documented one for the state (one iff per fallible operation) -/

theorem errors_documented (ctx : Ctx) (g : Graph) (e : Err) :
    (∀ d, (step ctx g (.register d)).2 = .err e ↔
        Err.packageAlreadyRegistered d.key = e ∧ (alGet g.pkgMap d.key).isSome = true) ∧
    (∀ name k, (step ctx g (.importItem name k)).2 = .err e ↔
        (∃ n, alGet g.imports name = some n ∧ Err.importAlreadyExists name n = e) ∨
        (alGet g.imports name = none ∧ ctx.validExtern name = false ∧ Err.invalidImportName name = e)) ∧
    (∀ n name, (step ctx g (.exportNode n name)).2 = .err e ↔
        (∃ m, alGet g.exports name = some m ∧ Err.exportAlreadyExists name m = e) ∨
        (alGet g.exports name = none ∧ ctx.validExport name = false ∧ Err.invalidExportName name = e)) ∧
    (∀ n, (step ctx g (.unexport n)).2 = .err e ↔
        ∃ nd, g.node? n = some nd ∧ nd.isDef = true ∧ Err.mustExportDefinition = e) ∧
    (∀ inst ename, (step ctx g (.alias inst ename)).2 = .err e ↔
        ∃ nd, g.node? inst = some nd ∧
          ((ctx.kindExports nd.item = none ∧ Err.nodeIsNotAnInstance inst = e) ∨
           (∃ exps, ctx.kindExports nd.item = some exps ∧ alFull exps ename = none ∧
              Err.instanceMissingExport inst ename = e))) ∧
    (∀ id, (step ctx g (.instantiate id)).2 ≠ .err e) ∧
    (∀ n s, (step ctx g (.setName n s)).2 ≠ .err e) ∧
    (∀ n, (step ctx g (.removeNode n)).2 ≠ .err e) :=
  ⟨fun d => register_err_iff g d e, fun name k => import_err_iff ctx g name k e,
   fun n name => export_err_iff ctx g n name e, fun n => unexport_err_iff .fixed g n e,
   fun inst ename => alias_err_iff ctx g inst ename e,
   (infallible_ops .fixed g e).1, (infallible_ops .fixed g e).2.1, (infallible_ops .fixed g e).2.2⟩

/-- `define_type`: the four documented errors, in the order they are decided -/
theorem errors_documented_define (ctx : Ctx) (g : Graph) (name : Str) (ty : Ty) (e : Err) :
    (step ctx g (.defineType name ty)).2 = .err e ↔
      ((alGet g.defined ty).isSome = true ∧ Err.typeAlreadyDefined = e) ∨
      ((alGet g.defined ty).isSome = false ∧ ctx.tyIsResource ty = true ∧ Err.cannotDefineResource = e) ∨
      ((alGet g.defined ty).isSome = false ∧ ctx.tyIsResource ty = false ∧
        (alGet g.exports name).isSome = true ∧ Err.exportConflict name = e) ∨
      ((alGet g.defined ty).isSome = false ∧ ctx.tyIsResource ty = false ∧
        (alGet g.exports name).isSome = false ∧ ctx.validExtern name = false ∧ Err.invalidExternName name = e) :=
  defineType_err_iff ctx g name ty e

/-- `set_instantiation_argument` / `unset_instantiation_argument` -/
theorem errors_documented_arguments (ctx : Ctx) (g : Graph) (inst : Nat) (name : Str) (arg : Nat) (e : Err) :
    ((step ctx g (.setArg inst name arg)).2 = .err e ↔
      ∃ nd, g.node? inst = some nd ∧
        ((nd.isInst = false ∧ Err.nodeIsNotAnInstantiation inst = e) ∨
         (nd.isInst = true ∧ ∃ pid d, nd.pkg = some pid ∧ g.pkgAt pid = .ok d ∧
           ((alFull d.imports name = none ∧ Err.invalidArgumentName inst name d.name = e) ∨
            (∃ i k, alFull d.imports name = some (i, k) ∧
              ((scanArgs (g.inEdges inst) i arg = some (.ok false) ∧ Err.argumentAlreadyPassed inst name = e) ∨
               (scanArgs (g.inEdges inst) i arg = none ∧ ∃ a, g.node? arg = some a ∧
                  ctx.sub a.item k = false ∧ Err.argumentTypeMismatch name = e))))))) ∧
    ((step ctx g (.unsetArg inst name arg)).2 = .err e ↔
      ∃ nd, g.node? inst = some nd ∧
        ((nd.isInst = false ∧ Err.nodeIsNotAnInstantiation inst = e) ∨
         (nd.isInst = true ∧ ∃ pid d, nd.pkg = some pid ∧ g.pkgAt pid = .ok d ∧
           alFull d.imports name = none ∧ Err.invalidArgumentName inst name d.name = e))) :=
  ⟨setArg_err_iff ctx g inst name arg e, unsetArg_err_iff g inst name arg e⟩

-- non-vacuity: both argument errors occur in the small universe
example : (run ctxW {} [.register pkgW, .instantiate ⟨0, 0⟩, .setArg 0 ['b'] 0]).2.getLast? =
    some (.err (.invalidArgumentName 0 ['b'] ['p'])) := by decide
example : (run ctxW {} [.register pkgW, .instantiate ⟨0, 0⟩, .setArg 0 ['a'] 0]).2.getLast? =
    some (.err (.argumentTypeMismatch ['a'])) := by decide

/-! ### the three defects of the pinned tree (DESIGN §10 rows 1–3), as theorems about the
    model of the pinned code, and their absence in the model of the repaired code -/

/-- row 1: set an argument from an alias, remove the alias, alias again, set again -/
def histStaleSat : List Op :=
  [.register pkgW, .instantiate ⟨0, 0⟩, .instantiate ⟨0, 0⟩, .alias 0 ['a'], .setArg 1 ['a'] 2,
   .removeNode 2, .alias 0 ['a'], .setArg 1 ['a'] 2]

theorem stale_satisfied_set_counterexample :
    ¬ Inv ctxW (runWith .pinned ctxW {} (histStaleSat.take 6)).1 ∧
    (runWith .pinned ctxW {} histStaleSat).2.getLast? = some (.panic .satInsert) ∧
    LiveIds (runWith .pinned ctxW {} (histStaleSat.take 7)).1 (.setArg 1 ['a'] 2) = true := by
  decide

theorem stale_satisfied_set_repaired :
    Inv ctxW (run ctxW {} (histStaleSat.take 6)).1 ∧
    (run ctxW {} histStaleSat).2.getLast? = some (.ok .unit) := by
  decide

/-- row 2: export a node under two names, unexport it -/
def histStaleExport : List Op :=
  [.register pkgW, .instantiate ⟨0, 0⟩, .exportNode 0 ['x'], .exportNode 0 ['y'], .unexport 0, .removeNode 0]

theorem stale_export_name_counterexample :
    ¬ Inv ctxW (runWith .pinned ctxW {} (histStaleExport.take 5)).1 ∧
    ¬ Inv ctxW (runWith .pinned ctxW {} histStaleExport).1 ∧
    getExport (runWith .pinned ctxW {} histStaleExport).1 ['x'] = some 0 ∧
    (runWith .pinned ctxW {} histStaleExport).1.live 0 = false := by
  decide

theorem stale_export_name_repaired :
    Inv ctxW (run ctxW {} histStaleExport).1 ∧ getExport (run ctxW {} histStaleExport).1 ['x'] = none := by
  decide

/-- row 3: a base type defined after two dependants that depend on each other, then removed -/
def histDoubleRemove : List Op :=
  [.defineType ['c'] 2, .defineType ['b'] 1, .defineType ['a'] 0, .removeNode 2]

theorem double_removal_counterexample :
    (runWith .pinned ctxW {} histDoubleRemove).2.getLast? = some (.panic .invalidNodeId) ∧
    LiveIds (runWith .pinned ctxW {} (histDoubleRemove.take 3)).1 (.removeNode 2) = true := by
  decide

theorem double_removal_repaired :
    (run ctxW {} histDoubleRemove).2.getLast? = some (.ok .unit) ∧
    (run ctxW {} histDoubleRemove).1.nodeIds = [] ∧ Inv ctxW (run ctxW {} histDoubleRemove).1 := by
  decide

/-! ### the invariant is preserved by every call (induction step over histories) -/

/-- every call that does not panic keeps the graph consistent -/
theorem inv_step (ctx : Ctx) (g g' : Graph) (op : Op) (out : Outcome)
    (h : Inv ctx g) (hw : TyWF ctx) (hs : step ctx g op = (g', out)) (hp : out.isPanic = false) : Inv ctx g' := by
  unfold step stepWith at hs
  cases op with
  | register d => exact inv_registerPackage h hs
  | unregister id => exact inv_unregisterPackage h hs hp
  | defineType name ty => exact inv_defineType h hw hs
  | importItem name kind => exact inv_importItem h hs
  | instantiate id => exact inv_instantiate h hs
  | alias inst ename => exact inv_aliasInstanceExport h hs
  | setArg inst name arg => exact inv_setArg h hs
  | unsetArg inst name arg => exact inv_unsetArg h hs
  | exportNode n name => exact inv_exportNode h hs
  | unexport n => exact inv_unexport h hs
  | setName n name => exact inv_setNodeName h hs hp
  | removeNode n => exact inv_removeNode h hs

/-- … also a panicking call: in the model a panic leaves the state it was applied to -/
theorem inv_step_any (ctx : Ctx) (g g' : Graph) (op : Op) (out : Outcome)
    (h : Inv ctx g) (hw : TyWF ctx) (hs : step ctx g op = (g', out)) (hpanic : out.isPanic = true → g' = g) :
    Inv ctx g' := by
  cases hp : out.isPanic with
  | false => exact inv_step ctx g g' op out h hw hs hp
  | true => rw [hpanic hp]; exact h

/-- the state reached by any history from any consistent state is consistent, as long as the
    history did not end in a panic -/
theorem inv_run (ctx : Ctx) (hw : TyWF ctx) : ∀ (ops : List Op) (g : Graph), Inv ctx g →
    (∀ o ∈ (run ctx g ops).2, o.isPanic = false) → Inv ctx (run ctx g ops).1
  | [], _, h, _ => h
  | op :: ops, g, h, hnp => by
    unfold run runWith at hnp ⊢
    cases hst : stepWith .fixed ctx g op with
    | mk g1 out =>
      rw [hst] at hnp
      simp only at hnp ⊢
      cases out with
      | panic s =>
        exact absurd (hnp (.panic s) (by simp)) (by simp [Outcome.isPanic])
      | ok v =>
        simp only at hnp ⊢
        have h1 : Inv ctx g1 := inv_step ctx g g1 op (.ok v) h hw hst rfl
        exact inv_run ctx hw ops g1 h1 (fun o ho => hnp o (List.mem_cons_of_mem _ ho))
      | err e =>
        simp only at hnp ⊢
        have h1 : Inv ctx g1 := inv_step ctx g g1 op (.err e) h hw hst rfl
        exact inv_run ctx hw ops g1 h1 (fun o ho => hnp o (List.mem_cons_of_mem _ ho))

/-- C06, first half: after ANY sequence of graph operations from the empty graph that did not
    panic, the graph is consistent (all the bookkeeping of `Inv`) -/
theorem inv_reachable (ctx : Ctx) (hw : TyWF ctx) (ops : List Op)
    (hnp : ∀ o ∈ (run ctx {} ops).2, o.isPanic = false) : Inv ctx (run ctx {} ops).1 :=
  inv_run ctx hw ops {} (inv_init ctx) hnp

-- non-vacuity: a history that uses every operation, with removal and re-creation
example : (∀ o ∈ (run ctxW {} [.register pkgW, .instantiate ⟨0, 0⟩, .instantiate ⟨0, 0⟩, .alias 0 ['a'],
    .setArg 1 ['a'] 2, .exportNode 2 ['x'], .setName 2 ['n'], .importItem ['i'] 0, .defineType ['t'] 1,
    .defineType ['u'] 0, .unsetArg 1 ['a'] 2, .unexport 2, .setArg 1 ['a'] 2, .removeNode 0, .removeNode 4,
    .instantiate ⟨0, 0⟩, .unregister ⟨0, 0⟩, .register pkgW]).2, o.isPanic = false) := by decide

/-! ### no call with live identifiers panics

  Full statement: `no_panic_live : Inv ctx g → LiveIds g op = true → (step ctx g op).2.isPanic = false`
  for every `op`.  Proved for every operation except `remove_node` (`no_panic_live_partial`);
  for `remove_node` what is missing is the termination argument of the recursive cascade within
  the model's fuel (acyclicity of alias / dependency edges, true by construction but not yet a
  conjunct of `Inv`).  The driver checks "no panic with live identifiers" on every call of every
  generated history. -/

/-- the operations covered by `no_panic_live_partial` -/
def notRemoveNode : Op → Bool
  | .removeNode _ => false
  | _ => true

theorem no_panic_live_partial (ctx : Ctx) (g : Graph) (op : Op) (h : Inv ctx g) (hl : LiveIds g op = true)
    (hop : notRemoveNode op = true) : (step ctx g op).2.isPanic = false := by
  unfold step stepWith
  cases op with
  | register d => exact noPanic_register h d
  | unregister id => exact noPanic_unregister h (by simpa [LiveIds] using hl)
  | defineType name ty => exact noPanic_defineType g name ty
  | importItem name kind => exact noPanic_importItem g name kind
  | instantiate id => exact noPanic_instantiate (by simpa [LiveIds] using hl)
  | alias inst ename => exact noPanic_alias (by simpa [LiveIds] using hl) ename
  | setArg inst name arg =>
    simp only [LiveIds, Bool.and_eq_true] at hl
    exact noPanic_setArg h name hl.1 hl.2
  | unsetArg inst name arg =>
    simp only [LiveIds, Bool.and_eq_true] at hl
    exact noPanic_unsetArg h name hl.1
  | exportNode n name => exact noPanic_export (by simpa [LiveIds] using hl) name
  | unexport n => exact noPanic_unexport h (by simpa [LiveIds] using hl)
  | setName n name => exact noPanic_setName (by simpa [LiveIds] using hl) name
  | removeNode n => simp [notRemoveNode] at hop

-- non-vacuity: live identifiers in a non-trivial state
example : LiveIds (run ctxW {} [.register pkgW, .instantiate ⟨0, 0⟩, .instantiate ⟨0, 0⟩, .alias 0 ['a']]).1
    (.setArg 1 ['a'] 2) = true := by decide

/-- C06, no panic: on a consistent graph no call whose identifiers are live panics — including
    `remove_node`, whose recursive cascade terminates: along alias and dependency edges a rank
    (`Node.key`) strictly decreases, given that export kinds are smaller than the instance kind
    (`KindWF`, kinds are finite trees) and that dependency edges go from a type to a type built
    from it (`DepOrder`) -/
theorem no_panic_live (ctx : Ctx) (g : Graph) (op : Op) (h : Inv ctx g) (hw : KindWF ctx)
    (hl : LiveIds g op = true) : (step ctx g op).2.isPanic = false := by
  cases op with
  | removeNode n =>
    unfold step stepWith
    exact noPanic_removeNode h hw (by simpa [LiveIds] using hl)
  | _ => exact no_panic_live_partial ctx g _ h hl rfl

/-- every call of the history mentions live identifiers only (of the state it is applied to) -/
def AllLive (ctx : Ctx) : Graph → List Op → Prop
  | _, [] => True
  | g, op :: ops => LiveIds g op = true ∧ AllLive ctx (step ctx g op).1 ops

/-- C06, second half, over histories: from a consistent state — in particular from the empty
    graph — a history whose calls mention live identifiers only never panics, and ends in a
    consistent state -/
theorem never_panics (ctx : Ctx) (hk : KindWF ctx) (ht : TyWF ctx) : ∀ (ops : List Op) (g : Graph), Inv ctx g →
    AllLive ctx g ops → (∀ o ∈ (run ctx g ops).2, o.isPanic = false) ∧ Inv ctx (run ctx g ops).1
  | [], _, h, _ => And.intro (fun _ ho => nomatch ho) h
  | op :: ops, g, h, hl => by
    obtain ⟨hl1, hl2⟩ := hl
    have hnp := no_panic_live ctx g op h hk hl1
    unfold run runWith
    unfold step at hnp hl2
    cases hst : stepWith .fixed ctx g op with
    | mk g1 out =>
      rw [hst] at hnp hl2
      simp only at hnp hl2
      have h1 : Inv ctx g1 := inv_step ctx g g1 op out h ht hst hnp
      obtain ⟨r1, r2⟩ := never_panics ctx hk ht ops g1 h1 hl2
      cases out with
      | panic s => cases hnp
      | ok v =>
        simp only
        refine ⟨?_, r2⟩
        intro o ho
        rcases List.mem_cons.mp ho with rfl | ho
        · rfl
        · exact r1 o ho
      | err e =>
        simp only
        refine ⟨?_, r2⟩
        intro o ho
        rcases List.mem_cons.mp ho with rfl | ho
        · rfl
        · exact r1 o ho

theorem never_panics_from_empty (ctx : Ctx) (hk : KindWF ctx) (ht : TyWF ctx) (ops : List Op)
    (hl : AllLive ctx {} ops) : (∀ o ∈ (run ctx {} ops).2, o.isPanic = false) ∧ Inv ctx (run ctx {} ops).1 :=
  never_panics ctx hk ht ops {} (inv_init ctx) hl

-- non-vacuity: a history with live identifiers throughout, including cascading removals
example : AllLive ctxW {} [.register pkgW, .instantiate ⟨0, 0⟩, .instantiate ⟨0, 0⟩, .alias 0 ['a'],
    .setArg 1 ['a'] 2, .defineType ['t'] 0, .defineType ['u'] 2, .defineType ['v'] 1, .removeNode 3, .removeNode 0,
    .unregister ⟨0, 0⟩] := by
  simp only [AllLive]
  decide

/-! ### every query reflects exactly the surviving items -/

/-- on a consistent graph the public queries do not fail and only mention live nodes:
    `node_ids` lists exactly the live slots; `get_export` answers with a live node and finds every
    entry of the export map; `get_alias_source` of an alias node is its live source with the name
    of the aliased export; `get_instantiation_arguments` succeeds and every source is live -/
theorem queries_reflect_survivors (ctx : Ctx) (g : Graph) (h : Inv ctx g) :
    (∀ m, m ∈ g.nodeIds ↔ g.live m = true) ∧
    (∀ name n, getExport g name = some n ↔ (name, n) ∈ g.exports) ∧
    (∀ name n, getExport g name = some n → g.live n = true) ∧
    (∀ n nd, g.node? n = some nd → nd.kind = .alias →
      ∃ src ename, getAliasSource ctx g n = .ok (some (src, ename)) ∧ g.live src = true) ∧
    (∀ n, ∃ l, getInstantiationArguments g n = .ok l ∧ ∀ p ∈ l, g.live p.2 = true) :=
  ⟨fun _ => mem_nodeIds,
   fun _ _ => ⟨fun hq => (getExport_live h hq).2, fun hm => getExport_complete h hm⟩,
   fun _ _ hq => (getExport_live h hq).1,
   fun _ _ hnd hk => getAliasSource_alias h hnd hk,
   fun n => getInstantiationArguments_ok h n⟩

/-! ### removal leaves no trace -/

/-- `remove_node n`: afterwards the slot is vacant, no edge mentions it, none of the maps
    refers to it, and the arguments it supplied are unsatisfied again (all of this is `Inv` of
    the new state plus vacancy of `n`); nothing new appeared -/
theorem remove_no_trace (ctx : Ctx) (g g' : Graph) (n : Nat) (h : Inv ctx g)
    (hs : step ctx g (.removeNode n) = (g', .ok .unit)) :
    Inv ctx g' ∧ g'.node? n = none ∧
    (∀ e ∈ g'.edges, e ∈ g.edges ∧ e.src ≠ n ∧ e.dst ≠ n) ∧
    (∀ e ∈ g'.imports, e.2 ≠ n) ∧ (∀ e ∈ g'.exports, e.2 ≠ n) ∧ (∀ e ∈ g'.defined, e.2 ≠ n) ∧
    (∀ m x, g'.node? m = some x → ∀ i ∈ x.sat, ∃ e ∈ g'.edges, e.dst = m ∧ e.kind = .arg i ∧ e.src ≠ n) := by
  have hinv : Inv ctx g' := by
    unfold step stepWith at hs
    exact inv_removeNode h hs
  obtain ⟨hgone, hsh⟩ := removeNode_gone h (by simpa [step, stepWith] using hs)
  -- in a consistent graph nothing refers to a vacant slot
  have hedge : ∀ e ∈ g'.edges, e.src ≠ n ∧ e.dst ≠ n := by
    intro e he
    obtain ⟨⟨s, hs'⟩, ⟨d, hd'⟩⟩ := hinv.edge_live he
    refine ⟨fun e' => ?_, fun e' => ?_⟩
    · rw [e', hgone] at hs'; cases hs'
    · rw [e', hgone] at hd'; cases hd'
  refine ⟨hinv, hgone, fun e he => ⟨hsh.1 e he, hedge e he⟩, ?_, ?_, ?_, ?_⟩
  · intro e he e'
    obtain ⟨x, hx, _⟩ := hinv.importsLive' e he
    rw [e', hgone] at hx; cases hx
  · intro e he e'
    obtain ⟨x, hx, _⟩ := hinv.exportsLive' e he
    rw [e', hgone] at hx; cases hx
  · intro e he e'
    obtain ⟨x, hx, _⟩ := hinv.definedLive' e he
    rw [e', hgone] at hx; cases hx
  · intro m x hx i hi
    have hn := hinv.node hx
    have h2 := hn.2.1
    cases hk : x.kind with
    | instantiation sat =>
      rw [hk] at h2
      simp only at h2
      have : i ∈ sat := by simpa [Node.sat, hk] using hi
      obtain ⟨e, he, hd, hkk⟩ := h2.2.1 i this
      exact ⟨e, he, hd, hkk, (hedge e he).1⟩
    | definition ty => simp [Node.sat, hk] at hi
    | «import» nm => simp [Node.sat, hk] at hi
    | alias => simp [Node.sat, hk] at hi

/-- `unregister_package id`: afterwards the graph is consistent, no surviving node refers to
    the package (instantiations of it and the aliases that inherited its id are gone — and with
    `Inv` their edges, map entries and the satisfied indices they supplied), the id is dead and
    its key is free for a new registration -/
theorem unregister_no_trace (ctx : Ctx) (g g' : Graph) (id : PkgId) (h : Inv ctx g)
    (hs : step ctx g (.unregister id) = (g', .ok .unit)) :
    Inv ctx g' ∧ (∀ m x, g'.node? m = some x → x.pkg ≠ some id) ∧ g'.pkgLive id = false ∧
    ∃ d, g.pkgOf id = .ok d ∧ getPackageByName g' d.key = none := by
  have hinv : Inv ctx g' := by
    unfold step stepWith at hs
    exact inv_unregisterPackage h hs rfl
  have hs' : unregisterPackage .fixed g id = (g', .ok .unit) := by simpa [step, stepWith] using hs
  obtain ⟨slot, d, g1, hslot, hgen, hd, hc, _, rfl⟩ := unregister_full hs'
  obtain ⟨_, hused, _, _, _⟩ := inv_unregMid h hc
  have hlt : id.index < g.pkgs.length := by
    rcases Nat.lt_or_ge id.index g.pkgs.length with hl | hl
    · exact hl
    · rw [List.getElem?_eq_none hl] at hslot; cases hslot
  refine ⟨hinv, hused, ?_, d, ?_, ?_⟩
  · have hp : (vacate (unregMid g g1 id) g id d slot.gen).pkgs = g.pkgs.set id.index ⟨none, slot.gen + 1⟩ := rfl
    unfold Graph.pkgLive Graph.pkgOf
    rw [hp, List.getElem?_set_self hlt]
    have : slot.gen + 1 ≠ id.gen := by omega
    simp [this]
  · unfold Graph.pkgOf
    rw [hslot]
    simp [hgen, hd]
  · unfold getPackageByName
    show alGet (alErase g.pkgMap d.key) d.key = none
    rw [Wac.Graph.alGet_none_iff]
    intro hmem
    obtain ⟨e, he, hk⟩ := List.mem_map.mp hmem
    exact ((alErase_mem h.pkgMapKeys e).mp he).2 hk

/-! ### stale package identifiers -/

/-- an unregistered package id is rejected by every call that takes one (generation check),
    also after the slot has been reused by a new registration -/
theorem stale_package_id_rejected (lg : Legacy) (g g' : Graph) (id : PkgId)
    (h : unregisterPackage lg g id = (g', .ok .unit)) :
    (instantiate g' id).2 = .panic .invalidPackageId ∧
    (unregisterPackage lg g' id).2 = .panic .invalidPackageId ∧
    ∀ d g'' id', registerPackage g' d = (g'', .ok (.pkg id')) →
      id' ≠ id ∧ (instantiate g'' id).2 = .panic .invalidPackageId := by
  obtain ⟨slot, d0, hslot, hgen, _, hpkgs, hfree, _⟩ := unregister_ok_shape h
  have hlt : id.index < g.pkgs.length := by
    rcases Nat.lt_or_ge id.index g.pkgs.length with h | h
    · exact h
    · rw [List.getElem?_eq_none h] at hslot; cases hslot
  have hget : g'.pkgs[id.index]? = some ⟨none, slot.gen + 1⟩ := by
    rw [hpkgs, List.getElem?_set_self hlt]
  have hne : slot.gen + 1 ≠ id.gen := by omega
  refine ⟨?_, ?_, ?_⟩
  · simp [instantiate, Graph.pkgOf, hget, hne]
  · simp [unregisterPackage, hget, hne]
  · intro d g'' id' hreg
    unfold registerPackage at hreg
    split at hreg
    · simp at hreg
    · rw [hfree] at hreg
      simp only [hget] at hreg
      simp only [Option.isSome_none, Bool.false_eq_true, ↓reduceIte, Prod.mk.injEq, Outcome.ok.injEq,
        Val.pkg.injEq] at hreg
      obtain ⟨hg, hid⟩ := hreg
      subst hid
      refine ⟨?_, ?_⟩
      · intro h; have := congrArg PkgId.gen h; simp at this; omega
      · subst hg
        simp [instantiate, Graph.pkgOf, List.getElem?_set_self (hpkgs ▸ by simpa using hlt : id.index < g'.pkgs.length), hne]

-- non-vacuity: register, unregister, register again: the first id is dead, the second differs
example : (run ctxW {} [.register pkgW, .unregister ⟨0, 0⟩, .register pkgW, .instantiate ⟨0, 0⟩]).2 =
    [.ok (.pkg ⟨0, 0⟩), .ok .unit, .ok (.pkg ⟨0, 1⟩), .panic .invalidPackageId] := by decide

end Wac.Props.C06
