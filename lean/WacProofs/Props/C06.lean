import WacModel.Spec.Graph
namespace Wac.Props.C06
open Wac Wac.Graph

/-- the empty graph is consistent -/
theorem inv_init (ctx : Ctx) : Inv ctx {} := by
  constructor <;> simp [Graph.node?]

end Wac.Props.C06
