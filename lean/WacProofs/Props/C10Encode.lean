import WacProofs.Props.C10Post
import WacProofs.Props.C06Bridge
import WacProofs.Props.C01Scoped
import WacProofs.Lemmas.PlugEncode
/-
  C10 — plugging, `plug_encodes_valid` (joins C01), structural part.

  DESIGN §7: "`plug_preserves_inv` (joins C06) so `plug_encodes_valid` (joins C01)".  The encoder
  model and its theorems (C01/C02: `encode_no_panic`, `encode_total`, `encode_wellscoped`,
  `encode_args_exact` under `Spec.WF g` / `Spec.Closed g`) and the bridge from a state of the
  graph model to the encoder's graph value (C06Bridge: `toGraphVal`, `inv_wf_graphVal_partial`)
  are composed here with `plug_preserves_inv`:

    plug_result_wf_closed     Inv g → Enc g → ValOk → plug = Ok → WF (toGraphVal g') ∧ Closed (toGraphVal g')
    plug_encode_no_panic      … → encode (toGraphVal g') o ≠ panic
    plug_encode_total         … → encode (toGraphVal g') o is a skeleton or a documented error
    plug_encode_wellscoped    … → every index operand of the skeleton is in scope
    plug_encode_args_exact_partial
    plug_fresh_encodes        the same for `plug` on a graph in which only packages were registered
                              (what `wac plug` does): `Enc` needs no hypothesis there

  `Enc ctx g` (WacProofs/Lemmas/PlugEncode.lean) is what the bridge needs beyond the C06
  invariant: no self edge, no definition exported under a second name (the bridge's `hnames1`,
  known finding `enc-definition-renamed-by-export`), definitions carry the item kind of their
  type.  `plug` preserves it (`plug_enc`): it only adds instantiation and alias nodes, alias and
  argument edges between different nodes, and export-map entries for alias nodes.  It holds of
  every graph without nodes, so for `wac plug` all bridge hypotheses about the *graph* are
  discharged.  What remains (`ValOk`) is about the value context `vc`, which the graph model does
  not contain: the encoder-level kind of item kinds and distinct import names per package.

  Type-semantic validity of the encoding (no Lean model of the validator) stays with the
  wasmparser oracle per case.
-/
namespace Wac.Props.C10
open Wac Wac.Graph Wac.Props.C01 Wac.Props.C06 Wac.Props.C06Bridge

/-- what the graph model abstracts away and the encoder needs to know (the bridge's side
    hypotheses on the value context): type definitions are types, package worlds and everything
    that has exports are instances at the encoder level, import names of a package are distinct -/
structure ValOk (ctx : Ctx) (vc : ValCtx) (g : Graph) : Prop where
  defsAreTypes : ∀ ty, (vc.ty (ctx.tyKind ty)).kind = .type
  worldsAreInstances : ∀ id d, g.pkgOf id = .ok d → (vc.ty d.instKind).kind = .instance
  exportersAreInstances : ∀ k exps, ctx.kindExports k = some exps → (vc.ty k).kind = .instance
  importNamesDistinct : ∀ id d, g.pkgOf id = .ok d → (d.imports.map (·.1)).Nodup

theorem plug_socket_registered {ctx : Ctx} {g : Graph} {plugs : List PkgId} {socket : PkgId}
    (hok : (plug ctx g plugs socket).2 = .ok) : ∃ socketD, g.pkgOf socket = .ok socketD := by
  cases hp : g.pkgOf socket with
  | ok d => exact ⟨d, rfl⟩
  | error s =>
    unfold plug at hok
    rw [hp] at hok
    cases hok

/-! ### example universe: `ctxP`, socket `s` importing `a`, `b`; plug `p` exporting `a` -/

/-- encoder-level view of `ctxP`: kind 0 is a function, kinds 1–3 are instances, kinds ≥ 10 types -/
def vcP : ValCtx where
  ty k := if k ≥ 10 then { kind := .type } else if k = 0 then { kind := .func } else { kind := .instance }
  bytesId d := d.instKind

/-- only the two packages registered, no node: the graph `wac plug` calls `plug` on -/
def gP : Graph := registerAll {} [socketP, plugP]

theorem gP_pkgs {id : PkgId} {d : PkgDef} (hd : gP.pkgOf id = .ok d) : d = socketP ∨ d = plugP := by
  obtain ⟨sl, hsl, hslp⟩ := pkgOf_ok_slot hd
  have hp : gP.pkgs = [⟨some socketP, 0⟩, ⟨some plugP, 0⟩] := by decide
  rw [hp] at hsl
  have hm := List.mem_of_getElem? hsl
  simp only [List.mem_cons, List.not_mem_nil, or_false] at hm
  rcases hm with rfl | rfl
  · left; simp only [Option.some.injEq] at hslp; exact hslp.symm
  · right; simp only [Option.some.injEq] at hslp; exact hslp.symm

theorem valOk_P : ValOk ctxP vcP gP := by
  refine ⟨?_, ?_, ?_, ?_⟩
  · intro ty; simp [vcP, ctxP]
  · intro id d hd
    rcases gP_pkgs hd with rfl | rfl <;> decide
  · intro k exps hk
    have hk3 : k = 1 ∨ k = 2 ∨ k = 3 := by
      simp only [ctxP] at hk
      split at hk
      · left; assumption
      · split at hk
        · right; left; assumption
        · split at hk
          · right; right; assumption
          · cases hk
    rcases hk3 with rfl | rfl | rfl <;> decide
  · intro id d hd
    rcases gP_pkgs hd with rfl | rfl <;> decide

/-! ### the theorems -/

/-- `plug_encodes_valid`, hypotheses of the encoder theorems: the graph value of the graph a
    successful `plug` returns is well formed and closed -/
theorem plug_result_wf_closed (ctx : Ctx) (vc : ValCtx) (g : Graph) (plugs : List PkgId) (socket : PkgId)
    (h : Inv ctx g) (he : Enc ctx g) (hv : ValOk ctx vc g) (hok : (plug ctx g plugs socket).2 = .ok) :
    Spec.WF (toGraphVal ctx vc (plug ctx g plugs socket).1) ∧
    Spec.Closed (toGraphVal ctx vc (plug ctx g plugs socket).1) := by
  obtain ⟨socketD, hs⟩ := plug_socket_registered hok
  have hinv' := plug_preserves_inv ctx g plugs socket h
  have he' := plug_enc h he plugs socket
  have hpk : (plug ctx g plugs socket).1.pkgs = g.pkgs :=
    (C10Post.plug_post ctx g h plugs socket socketD hs hok).2.2.1
  refine ⟨?_, closed_toGraphVal vc hinv' he'.noSelf hv.exportersAreInstances⟩
  exact inv_wf_graphVal_partial ctx vc _ hinv' he'.defItem hv.defsAreTypes
    (fun id d hd => hv.worldsAreInstances id d (by rw [pkgOf_congr hpk] at hd; exact hd))
    (fun id d hd => hv.importNamesDistinct id d (by rw [pkgOf_congr hpk] at hd; exact hd))
    he'.defNames

-- non-vacuity: the graph `wac plug` starts from meets every hypothesis and `plug` succeeds
example : Inv ctxP gP ∧ Enc ctxP gP ∧ ValOk ctxP vcP gP ∧ (plug ctxP gP [⟨1, 0⟩] ⟨0, 0⟩).2 = .ok :=
  ⟨by decide, (registerAll_pristine (ctx := ctxP) [socketP, plugP] {} (inv_init ctxP) ⟨rfl, rfl, rfl⟩).2.enc,
   valOk_P, by decide⟩

/-- `plug_encode_no_panic`: encoding the result of a successful `plug` reaches none of the
    encoder's panic sites (`unwrap`s, index lookups, `assert!`s), for either option value -/
theorem plug_encode_no_panic (ctx : Ctx) (vc : ValCtx) (g : Graph) (plugs : List PkgId) (socket : PkgId)
    (h : Inv ctx g) (he : Enc ctx g) (hv : ValOk ctx vc g) (hok : (plug ctx g plugs socket).2 = .ok) :
    ∀ (o : Opts) (site : String), encode (toGraphVal ctx vc (plug ctx g plugs socket).1) o ≠ .panic site := by
  obtain ⟨wf, cl⟩ := plug_result_wf_closed ctx vc g plugs socket h he hv hok
  exact fun o => encode_no_panic wf cl

example : ∀ (o : Opts) (site : String), encode (toGraphVal ctxP vcP (plug ctxP gP [⟨1, 0⟩] ⟨0, 0⟩).1) o ≠ .panic site :=
  plug_encode_no_panic ctxP vcP gP _ _ (by decide)
    (registerAll_pristine (ctx := ctxP) [socketP, plugP] {} (inv_init ctxP) ⟨rfl, rfl, rfl⟩).2.enc valOk_P (by decide)

/-- `plug_encode_total`: the encoder's outcome on the result of a successful `plug` is a skeleton
    or one of the documented errors (a cycle, an implicit-import conflict, an import-type merge
    conflict — `encode_errors_documented`) -/
theorem plug_encode_total (ctx : Ctx) (vc : ValCtx) (g : Graph) (plugs : List PkgId) (socket : PkgId)
    (h : Inv ctx g) (he : Enc ctx g) (hv : ValOk ctx vc g) (hok : (plug ctx g plugs socket).2 = .ok) (o : Opts) :
    (∃ s, encode (toGraphVal ctx vc (plug ctx g plugs socket).1) o = .ok s) ∨
    (∃ e, encode (toGraphVal ctx vc (plug ctx g plugs socket).1) o = .error e ∧
      ((∃ n, e = .cycle n) ∨ (∃ nm i m, e = .implicitConflict nm i m) ∨ (∃ nm a b, e = .mergeConflict nm a b))) := by
  obtain ⟨wf, cl⟩ := plug_result_wf_closed ctx vc g plugs socket h he hv hok
  rcases encode_total (o := o) wf cl with h1 | ⟨e, h2⟩
  · exact Or.inl h1
  · refine Or.inr ⟨e, h2, ?_⟩
    cases e with
    | cycle n => exact Or.inl ⟨n, rfl⟩
    | implicitConflict nm i m => exact Or.inr (Or.inl ⟨nm, i, m, rfl⟩)
    | mergeConflict nm a b => exact Or.inr (Or.inr ⟨nm, a, b, rfl⟩)

/-- `plug_encode_wellscoped`: every index operand of the skeleton encoded from the result of a
    successful `plug` is below the counter of its index space at that point -/
theorem plug_encode_wellscoped (ctx : Ctx) (vc : ValCtx) (g : Graph) (plugs : List PkgId) (socket : PkgId)
    (h : Inv ctx g) (he : Enc ctx g) (hv : ValOk ctx vc g) (hok : (plug ctx g plugs socket).2 = .ok)
    (o : Opts) (s : Skeleton) (hs : encode (toGraphVal ctx vc (plug ctx g plugs socket).1) o = .ok s) :
    Spec.WellScoped s = true :=
  encode_wellscoped (plug_result_wf_closed ctx vc g plugs socket h he hv hok).1 hs

-- non-vacuity: the example plug does encode (both option values); its skeleton instantiates the
-- plug (no argument) and the socket (`a` from the plug, `b` implicit) and is well scoped
example : (match encode (toGraphVal ctxP vcP (plug ctxP gP [⟨1, 0⟩] ⟨0, 0⟩).1) {} with
    | .ok s => Spec.WellScoped s && decide (Spec.instArgNames s = [[], [['a'], ['b']]])
    | _ => false) = true := by decide

/-- `plug_encode_args_exact`, PARTIAL.
    Full statement wanted: the instantiate item the skeleton has for the socket instantiation
    `g.fresh.node` supplies exactly the matched import names (then the unmatched ones).
    Proved: (1) every instantiate item of the skeleton lists the argument edges of ONE
    instantiation node of the graph value (adjacency order), then the imports of its package no
    edge provides (world order) — `encode_args_exact` on the plug result; (2) the socket
    instantiation `g.fresh.node` is an instantiation node of the graph value (slot of the socket
    package) and every explicit argument name it has is the import name `o.1` of an offer of a
    plug of the list (`only_offers_passed` read through `toGraphVal`).
    Missing: the converse of (2) for the same node (`plug_supplies_matches` speaks about "a new
    instantiation of the socket", not syntactically `g.fresh.node`), and that the item of (1)
    belonging to the socket instantiation is identified (the encoder theorem is existential in the
    node). -/
theorem plug_encode_args_exact_partial (ctx : Ctx) (vc : ValCtx) (g : Graph) (plugs : List PkgId) (socket : PkgId)
    (socketD : PkgDef) (h : Inv ctx g) (he : Enc ctx g) (hv : ValOk ctx vc g) (hs : g.pkgOf socket = .ok socketD)
    (hok : (plug ctx g plugs socket).2 = .ok) :
    (∀ (o : Opts) (s : Skeleton), encode (toGraphVal ctx vc (plug ctx g plugs socket).1) o = .ok s →
      ∀ c args, Item.instantiate c args ∈ s →
        ∃ n ∈ (toGraphVal ctx vc (plug ctx g plugs socket).1).nodes, ∃ slot sat p,
          n.kind = .instantiation slot sat ∧ (toGraphVal ctx vc (plug ctx g plugs socket).1).pkg? slot = some p ∧
          args.map (·.1) = n.args.map (·.1) ++ (Spec.unsatisfiedByArgs n p).map (·.name)) ∧
    (∃ v, (toGraphVal ctx vc (plug ctx g plugs socket).1).node? g.fresh.node = some v ∧
      (∃ sat, v.kind = .instantiation socket.index sat) ∧
      ∀ nm ∈ v.args.map (·.1), ∃ p ∈ plugs, ∃ plugD, g.pkgOf p = .ok plugD ∧
        ∃ o ∈ offers ctx socketD plugD, o.1 = nm) := by
  obtain ⟨wf, _⟩ := plug_result_wf_closed ctx vc g plugs socket h he hv hok
  refine ⟨fun o s hs' => encode_args_exact wf hs', ?_⟩
  obtain ⟨_, hsi, hpk, honly, _⟩ := C10Post.plug_post ctx g h plugs socket socketD hs hok
  generalize (plug ctx g plugs socket).1 = g' at hsi hpk honly ⊢
  obtain ⟨x, hx, hxi, hxp⟩ := hsi
  obtain ⟨sat, hxk⟩ : ∃ sat, x.kind = .instantiation sat := by
    unfold Node.isInst at hxi
    cases hq : x.kind <;> rw [hq] at hxi <;> first | exact ⟨_, rfl⟩ | cases hxi
  -- the package the socket instantiation refers to is the socket
  have hdef : instDef g' g.fresh.node = some socketD := by
    obtain ⟨sl, hsl, hslp⟩ := pkgOf_ok_slot hs
    unfold instDef
    rw [hx]
    simp only [hxp, hpk, hsl, hslp]
  refine ⟨toNode ctx vc g' g.fresh.node x, by rw [toGraphVal_node?, hx]; rfl, ⟨sat, ?_⟩, ?_⟩
  · show toNodeKind x = _
    unfold toNodeKind
    rw [hxk, hxp]
  · intro nm hnm
    obtain ⟨a, ha, rfl⟩ := List.mem_map.mp hnm
    unfold Wac.Node.args at ha
    rw [mem_argsOf] at ha
    obtain ⟨j, hj⟩ := ha
    have hj' : (Wac.EdgeW.arg j a.1, a.2) ∈ (g'.inEdges g.fresh.node).map fun e => (edgeW ctx g' e, e.src) := hj
    obtain ⟨e, he1, hee⟩ := List.mem_map.mp hj'
    obtain ⟨hmem, hdst⟩ := mem_inEdges.mp he1
    obtain ⟨p, hp, plugD, hpd, o, ho, pi, j', idx, k, k', _, _, hfull, _, hkind⟩ := honly e hmem hdst
    refine ⟨p, hp, plugD, hpd, o, ho, ?_⟩
    simp only [Prod.mk.injEq] at hee
    have hw := hee.1
    unfold edgeW at hw
    rw [hkind] at hw
    simp only [Wac.EdgeW.arg.injEq] at hw
    rw [← hw.2, hdst]
    unfold argName
    rw [hdef]
    simp only [alFull_get hfull]

-- non-vacuity: the socket instantiation (node 0) of the example has the one argument `a`
example : gP.fresh.node = 0 ∧
    ((toGraphVal ctxP vcP (plug ctxP gP [⟨1, 0⟩] ⟨0, 0⟩).1).node? 0).map (fun v => v.args.map (·.1)) = some [['a']] ∧
    offers ctxP socketP plugP = [(['a'], ['a'])] := by decide

/-- `plug_fresh_encodes` — what `wac plug` does: `plug` on a graph in which only packages were
    registered (`registerAll {} ds`: `register_package` for each, no node yet).  Every hypothesis
    of the bridge that is about the graph is discharged (`Inv`, `Enc`: in particular no definition
    is exported under a second name, the bridge's `hnames1`); what remains is `ValOk`, about the
    value context.  The graph value of the result is well formed and closed, encoding it never
    panics, ends in a skeleton or a documented error, and every skeleton is well scoped. -/
theorem plug_fresh_encodes (ctx : Ctx) (vc : ValCtx) (ds : List PkgDef) (plugs : List PkgId) (socket : PkgId)
    (hv : ValOk ctx vc (registerAll {} ds)) (hok : (plug ctx (registerAll {} ds) plugs socket).2 = .ok) :
    Spec.WF (toGraphVal ctx vc (plug ctx (registerAll {} ds) plugs socket).1) ∧
    Spec.Closed (toGraphVal ctx vc (plug ctx (registerAll {} ds) plugs socket).1) ∧
    (∀ (o : Opts) (site : String),
      encode (toGraphVal ctx vc (plug ctx (registerAll {} ds) plugs socket).1) o ≠ .panic site) ∧
    (∀ o : Opts, (∃ s, encode (toGraphVal ctx vc (plug ctx (registerAll {} ds) plugs socket).1) o = .ok s) ∨
      (∃ e, encode (toGraphVal ctx vc (plug ctx (registerAll {} ds) plugs socket).1) o = .error e)) ∧
    (∀ (o : Opts) (s : Skeleton),
      encode (toGraphVal ctx vc (plug ctx (registerAll {} ds) plugs socket).1) o = .ok s → Spec.WellScoped s = true) := by
  obtain ⟨hi, hp⟩ := registerAll_pristine (ctx := ctx) ds {} (inv_init ctx) ⟨rfl, rfl, rfl⟩
  obtain ⟨wf, cl⟩ := plug_result_wf_closed ctx vc _ plugs socket hi hp.enc hv hok
  exact ⟨wf, cl, fun o => encode_no_panic wf cl, fun o => encode_total wf cl, fun o s hs => encode_wellscoped wf hs⟩

-- non-vacuity: `gP` is such a graph
example : gP = registerAll {} [socketP, plugP] ∧ ValOk ctxP vcP (registerAll {} [socketP, plugP]) ∧
    (plug ctxP (registerAll {} [socketP, plugP]) [⟨1, 0⟩] ⟨0, 0⟩).2 = .ok := ⟨rfl, valOk_P, by decide⟩

end Wac.Props.C10
