import WacProofs.Lemmas.ElabPkg3
/-
  C05 — WIT declarations in WAC mean what WIT means: `elab_denotes`, fragment by fragment.

  Model: `Wac.Elab.elabPkg` (WacModel/Elab.lean) = the declaration elaboration of resolution.rs.
  Specification: `Wac.Spec.Wit.denotePkg` (WacModel/Spec/Wit.lean) = the component-model type a WIT
  interface / world denotes.

  Full statement (`elab_denotes`):
    ∀ p T env, elabPkg p = .ok T → denotePkg [] 0 p = some env →
      (∀ k-th interface (n, items) of p:  T.unfold (.instance k) ≃ .instance (env.ifaces n)) ∧
      (∀ k-th world (n, items) of p:  the explicit imports / exports of T.worlds[k] ≃ env.worlds n)
  where `≃` is the comparison of the driver (`canonN`: exports in any order, resources identified
  nominally).

  Proved here, for packages without worlds:
    * `elab_denotes_values_funcs_partial` / `_rf`: interfaces of value-type declarations (records,
      variants, enums, flags, `type` aliases over tuples/options/results/lists and earlier names)
      and functions — *equality* of the trees, in declaration order;
    * `elab_denotes_interfaces_partial`: interfaces with all kinds of items — `use` of earlier
      interfaces of the package (renames, identity preserved), value-type declarations, `resource`
      declarations with constructors / methods / statics (`[constructor]r`, `[method]r.m` with
      `self: borrow<r>`, `[static]r.m`), aliases of resources, functions — equality of the trees
      up to an injective renaming `ρ` of the resource leaves (specification: number of the
      declaration; arena: root resource), in declaration order.  This is stronger than the driver's
      `≃` on two counts (order kept, resources identified by identity instead of by name).
  Missing for the full statement: worlds (imports / exports / includes): `worldItems` is
  `interfaceItems` with two lists and `addIfAbsent` on the specification side, `worldInclude` vs
  `includeInto` (spec lemmas `include_*` exist); packages that refer to other packages
  (`resolve_package_path` is C08's model).
-/
namespace Wac.Props.C05
open Wac Wac.Elab Wac.Spec.Wit Wac.Decode

/-- **elab_denotes** (fragment: interfaces of value-type declarations and functions; packages
without worlds).  For every declared interface, in order, the interface the resolver allocates
unfolds — with the default fuel of `Types.unfold` — to exactly the instance type the WIT
specification denotes: the same export names in declaration order, each record / variant / enum /
flags / alias / tuple / option / result / list type and each function signature (parameter names,
order, types, result) the one WIT prescribes.  `res` lists, per interface, its arena index and its
denotation; `env.ifaces` holds the same denotations under the local name and the full id.
(`renT ρ` is the identity on these trees: no resource is declared in the fragment; see
`elab_denotes_values_funcs_rf`.) -/
theorem elab_denotes_values_funcs_partial (p : Pkg) (T : Types) (env : Env) (ρ : Nat → Res)
    (hw : p.worlds = []) (hvf : ∀ ni ∈ p.ifaces, ∀ it ∈ ni.2, isVF it = true)
    (h : elabPkg p = .ok T) (hd : denotePkg [] 0 p = some env)
    (hnd : ∀ nx ∈ env.ifaces, (nx.2.map (·.1)).Nodup) :
    ∃ res : List (Nat × List (Str × Tree)), res.length = p.ifaces.length ∧
      env.ifaces = (List.zip p.ifaces res).flatMap (fun x => [(x.1.1, x.2.2), (p.idOf x.1.1, x.2.2)]) ∧
      ∀ ie ∈ res, T.unfold (.instance ie.1) = some (renT ρ (.instance (Forest.ofList ie.2))) := by
  obtain ⟨st, hst, rfl⟩ := elabPkg_ifaces p hw T h
  have hden := denotePkg_ifaces p hw env hd
  obtain ⟨_, _, res, henv, _, hall⟩ := elabIfaces_ok (ρ := ρ) p p.ifaces _ _ _ _ hvf hst hden hnd
  refine ⟨res, (All2_length hall).symm, by simpa using henv, ?_⟩
  exact All2_right (fun _ ie hk => hk st.types _ (Ext.refl _ _ _) (by rw [Types.fuel_eq]; unfold kb vb; omega)) hall

/-- the same with plain equality when the denoted instance type mentions no resource -/
theorem elab_denotes_values_funcs_rf (p : Pkg) (T : Types) (env : Env)
    (hw : p.worlds = []) (hvf : ∀ ni ∈ p.ifaces, ∀ it ∈ ni.2, isVF it = true)
    (h : elabPkg p = .ok T) (hd : denotePkg [] 0 p = some env)
    (hnd : ∀ nx ∈ env.ifaces, (nx.2.map (·.1)).Nodup) :
    ∃ res : List (Nat × List (Str × Tree)), res.length = p.ifaces.length ∧
      env.ifaces = (List.zip p.ifaces res).flatMap (fun x => [(x.1.1, x.2.2), (p.idOf x.1.1, x.2.2)]) ∧
      ∀ ie ∈ res, (Tree.instance (Forest.ofList ie.2)).resourceFree = true →
        T.unfold (.instance ie.1) = some (.instance (Forest.ofList ie.2)) ∧
        canonN ((T.unfold (.instance ie.1)).getD .none) = canonN (.instance (Forest.ofList ie.2)) := by
  obtain ⟨res, hl, henv, hall⟩ := elab_denotes_values_funcs_partial p T env (fun _ => default) hw hvf h hd hnd
  refine ⟨res, hl, henv, ?_⟩
  intro ie hie hrf
  have := hall ie hie
  rw [renT_resourceFree _ hrf] at this
  exact ⟨this, by rw [this]; rfl⟩

/-! ### interfaces with resources and `use` -/

/-- **elab_denotes** (packages without worlds; interfaces with *all* kinds of items: `use` of
earlier interfaces of the package with renames, value-type declarations, `resource` declarations
with constructors / methods / statics, aliases of resources, functions).  For every declared
interface, in order, the interface the resolver allocates unfolds — default fuel — to the instance
type the WIT specification denotes, up to the injective renaming `ρ` of resource leaves
(`Res.idx` of the specification = the number of the declaration, ↦ the root resource the resolver
allocated for it): the same export names in declaration order (`[constructor]r`, `[method]r.m`
with `self: borrow<r>`, `[static]r.m` included), the same types, and two leaves are the same
resource in the arena exactly when they are the same resource in the specification — in
particular a `use`d or aliased resource *is* the resource it names.
Hypotheses: the keys of `env.ifaces` (local names and full ids) are pairwise distinct, and so are
the export names of every interface (both hold of any WIT-valid package). -/
theorem elab_denotes_interfaces_partial (p : Pkg) (T : Types) (env : Env)
    (hw : p.worlds = []) (h : elabPkg p = .ok T) (hd : denotePkg [] 0 p = some env)
    (hkeys : (p.ifaces.flatMap (fun ni => [ni.1, p.idOf ni.1])).Nodup)
    (hnd : ∀ nx ∈ env.ifaces, (nx.2.map (·.1)).Nodup) :
    ∃ (ρ : Nat → Res) (res : List (Nat × List (Str × Tree))),
      (∀ a b, (ρ a).idx = (ρ b).idx → a = b) ∧ res.length = p.ifaces.length ∧
      env.ifaces = (List.zip p.ifaces res).flatMap (fun x => [(x.1.1, x.2.2), (p.idOf x.1.1, x.2.2)]) ∧
      ∀ ie ∈ res, T.unfold (.instance ie.1) = some (renT ρ (.instance (Forest.ofList ie.2))) := by
  obtain ⟨st, hst, rfl⟩ := elabPkg_ifaces p hw T h
  have hden := denotePkg_ifaces p hw env hd
  obtain ⟨_, _, newR, res, _, hp, hr, henv, kk⟩ := elabIfacesAll_ok p p.ifaces _ _ _ _ hst hden
  refine ⟨rhoE st.types newR, res, rhoE_inj st.types newR hp (fun x hx => (hr x hx).2), ?_, by simpa using henv, ?_⟩
  · obtain ⟨_, hall⟩ := kk (rhoE st.types newR) [] rfl (consE_rhoE st.types newR)
      (fun path i hpi => by simp [alGet] at hpi) (by simpa using hkeys) hnd
    exact (All2_length hall).symm
  · obtain ⟨_, hall⟩ := kk (rhoE st.types newR) [] rfl (consE_rhoE st.types newR)
      (fun path i hpi => by simp [alGet] at hpi) (by simpa using hkeys) hnd
    exact All2_right (fun _ ie hk => hk st.types _ (Ext.refl _ _ _) (by rw [Types.fuel_eq]; unfold kb vb; omega)) hall

/-- the package
```
package t:p;
interface a { record r { x: u32, y: string }  type l = list<r>;  variant v { none, some(l) }
              enum e { p, q }  flags fl { r, w }  type t = tuple<u8, option<r>>;
              f: func(p: l, q: result<v, e>) -> t; }
interface b { type z = result<_, string>;  g: func(); }
``` -/
def exP : Pkg :=
  { name := "t:p".toList,
    ifaces :=
      [ ("a".toList,
          [ .record "r".toList [("x".toList, .prim .u32), ("y".toList, .prim .string)],
            .alias "l".toList (.list (.id "r".toList)),
            .variant "v".toList [("none".toList, none), ("some".toList, some (.id "l".toList))],
            .enum "e".toList ["p".toList, "q".toList],
            .flags "fl".toList ["r".toList, "w".toList],
            .alias "t".toList (.tuple [.prim .u8, .option (.id "r".toList)]),
            .func "f".toList { params := [("p".toList, .id "l".toList),
                                          ("q".toList, .result (some (.id "v".toList)) (some (.id "e".toList)))],
                               result := some (.id "t".toList) } ]),
        ("b".toList,
          [ .alias "z".toList (.result none (some (.prim .string))),
            .func "g".toList { params := [], result := none } ]) ] }

/-- the arenas `elabPkg` builds for `exP`.  (`AstResolver::ty` is compiled by well-founded recursion,
which the kernel does not unfold; the elaboration is evaluated with its equation lemmas.) -/
def exT : Types :=
  { defined :=
      [ .record [("x".toList, .prim .u32), ("y".toList, .prim .string)], .list (.defined 0), .alias (.defined 1),
        .variant [("none".toList, none), ("some".toList, some (.defined 2))],
        .enum ["p".toList, "q".toList], .flags ["r".toList, "w".toList],
        .option (.defined 0), .tuple [.prim .u8, .defined 6], .alias (.defined 7),
        .result (some (.defined 3)) (some (.defined 4)),
        .result none (some (.prim .string)), .alias (.defined 10) ],
    funcs := [ { params := [("p".toList, .defined 2), ("q".toList, .defined 9)], result := some (.defined 8) }, {} ],
    interfaces :=
      [ { id := some "t:p/a".toList,
          exports := [("r".toList, .type (.value (.defined 0))), ("l".toList, .type (.value (.defined 2))),
                      ("v".toList, .type (.value (.defined 3))), ("e".toList, .type (.value (.defined 4))),
                      ("fl".toList, .type (.value (.defined 5))), ("t".toList, .type (.value (.defined 8))),
                      ("f".toList, .func 0)] },
        { id := some "t:p/b".toList,
          exports := [("z".toList, .type (.value (.defined 11))), ("g".toList, .func 1)] } ] }

set_option maxRecDepth 4000 in
theorem elabPkg_exP : elabPkg exP = .ok exT := by
  simp [exP, exT, elabPkg, idOf, Pkg.idOf, interfaceDecl, interfaceItems, itemTypeDecl, itemTypeDecl.go, typeAlias,
    Elab.funcType, namedTys, Elab.ty, Elab.ty.go, register, localItem, Elab.addDefined, Elab.addFunc,
    Elab.addInterface, alGet, alInsert, List.eraseDups, List.eraseDupsBy, List.eraseDupsBy.loop, bind, Except.bind,
    pure, Except.pure, List.foldlM]

/-- non-vacuity: `exP` meets every hypothesis of `elab_denotes_values_funcs_partial` -/
example : ∃ T env, exP.worlds = [] ∧ (∀ ni ∈ exP.ifaces, ∀ it ∈ ni.2, isVF it = true) ∧
    elabPkg exP = .ok T ∧ denotePkg [] 0 exP = some env ∧ (∀ nx ∈ env.ifaces, (nx.2.map (·.1)).Nodup) := by
  have hden : (match denotePkg [] 0 exP with
      | some env => env.ifaces.all fun nx => decide (nx.2.map (·.1)).Nodup
      | none => false) = true := by decide +kernel
  split at hden
  · rename_i env henv
    refine ⟨exT, env, rfl, by decide, elabPkg_exP, henv, ?_⟩
    intro nx hnx
    exact of_decide_eq_true (List.all_eq_true.mp hden nx hnx)
  · cases hden

/-- its interfaces export 7 and 2 items and are resource-free -/
example : (match denotePkg [] 0 exP with
    | some env => env.ifaces.map (fun nx => (nx.2.length, (Tree.instance (Forest.ofList nx.2)).resourceFree)) ==
        [(7, true), (7, true), (2, true), (2, true)]
    | none => false) = true := by decide +kernel

/-- and the conclusion, evaluated: the two arena interfaces unfold to the two denotations -/
example : (match denotePkg [] 0 exP with
    | some env =>
      exT.unfold (.instance 0) == (alGet env.ifaces "a".toList).map (fun ex => .instance (Forest.ofList ex)) &&
      exT.unfold (.instance 1) == (alGet env.ifaces "b".toList).map (fun ex => .instance (Forest.ofList ex))
    | none => false) = true := by decide +kernel

/-- the package
```
package t:q;
interface a { resource r { constructor(); m: func(); s: static func(); }  type h = r; }
interface b { use a.{r as q, h};  type k = q;  f: func(); }
```
(no type expression is elaborated, so the kernel can evaluate `elabPkg`: `AstResolver::ty` is
compiled by well-founded recursion) -/
def exQ : Pkg :=
  { name := "t:q".toList,
    ifaces :=
      [ ("a".toList,
          [ .resource "r".toList
              [ .ctor [], .method "m".toList false { params := [], result := none },
                .method "s".toList true { params := [], result := none } ],
            .alias "h".toList (.id "r".toList) ]),
        ("b".toList,
          [ .use "a".toList [("r".toList, some "q".toList), ("h".toList, none)],
            .alias "k".toList (.id "q".toList),
            .func "f".toList { params := [], result := none } ]) ] }

/-- non-vacuity of `elab_denotes_interfaces_partial`: `exQ` is elaborated and denoted, keys and
export names are distinct; interface `a` exports `r`, `[constructor]r`, `[method]r.m`,
`[static]r.s`, `h`; the arena has one root resource and three aliases of it (`h`, and in `b`: `k`;
`q` and `h` are the *same* items as in `a`) -/
example : (match elabPkg exQ, denotePkg [] 0 exQ with
    | .ok T, some env =>
      exQ.worlds.isEmpty &&
      decide (exQ.ifaces.flatMap (fun ni => [ni.1, exQ.idOf ni.1])).Nodup &&
      env.ifaces.all (fun nx => decide (nx.2.map (·.1)).Nodup) &&
      (alGet env.ifaces "a".toList).map (fun ex => ex.map (·.1)) ==
        some ["r".toList, "[constructor]r".toList, "[method]r.m".toList, "[static]r.s".toList, "h".toList] &&
      (alGet env.ifaces "b".toList).map (fun ex => ex.map (·.1)) ==
        some ["q".toList, "h".toList, "k".toList, "f".toList] &&
      T.resources.map (·.alias.map (·.source)) == [none, some 0, some 0] &&
      (T.interfaces.map (·.exports.map (·.2)))[1]? ==
        some [.type (.resource 0), .type (.resource 1), .type (.resource 2), .func 3]
    | _, _ => false) = true := by decide +kernel

/-- the conclusion on `exQ`, evaluated: every resource leaf of interface `b` is the one root
resource (index 0), as in the specification where all of them are resource number 0 -/
example : (match elabPkg exQ, denotePkg [] 0 exQ with
    | .ok T, some env =>
      (match T.unfold (.instance 1), alGet env.ifaces "b".toList with
        | some (.instance f), some ex =>
          f.toList.map (fun nt => match nt.2 with | .type (.resource r) => some r.idx | _ => none) ==
            [some 0, some 0, some 0, none] &&
          ex.map (fun nt => match nt.2 with | .type (.resource r) => some r.idx | _ => none) ==
            [some 0, some 0, some 0, none]
        | _, _ => false)
    | _, _ => false) = true := by decide +kernel

end Wac.Props.C05
