import WacProofs.Props.C02
import WacProofs.Lemmas.EncAgg2
/-
  C02, second layer — the hypotheses of `wiring_encode_partial` about the name-level
  aggregation are discharged:

  * `canonical_is_canon`  : the name the aggregator model assigns to an implied import name is the
                            specification's `Spec.canon` (one class per name-or-semver-track, named
                            for the highest version; uses C15: `altKey_track`, `keyRep_eq_iff`,
                            `tieFree_always`, `highest_spec`);
  * `implicit_kind`, `explicit_kind` : the two kind conjuncts of `AggHyp`;
  * `aggHyp_holds`        : `AggHyp g agg` from `WF g` and `IfaceNamed agg`;
  * `wiring_encode`       : `core (wiring s) = core (specWiring g o.define (others g order))`.

  Full statement asked for:

      theorem wiring_encode : WF g → toposort g = .ok order → encode g o = .ok s →
          core (wiring s) = core (specWiring g o.define (others g order))

  What is proved carries ONE remaining hypothesis, `IfaceNamed agg` (the `ifaceNamed` conjunct
  of `AggHyp`, decidable, evaluated by the driver on every real case), and it cannot be dropped:
  `wiring_encode_iface_counterexample` below is a well-formed graph value on which the model —
  and the real encoder, on which the plan was replayed — wires the argument `dep:t/t@1.0.0` of an
  instantiation to the import `dep:t/t@1.2.0` that only exists as the *dependency interface* of
  another import, although `1.0.0` is the highest (the only) implied import name of its track.
  `WF.defNames` is still needed too (`wiring_encode_counterexample` in `C02.lean`: the pinned
  definition-rename shape).

  `Props/C02Graph.lean` replaces `IfaceNamed agg` by a hypothesis on the graph value,
  `ForeignSingle g` (`WacModel/Spec/Foreign.lean`): `wiring_encode_graph`.
-/
namespace Wac.Props.C02
open Wac Wac.Spec

/-! ### the specification only reads the naming on the implied names -/

theorem importTerms_congr {g : GraphVal} {cn cn' : Str → Str} (h : ∀ name ∈ impliedNames g, cn name = cn' name) :
    importTerms g cn = importTerms g cn' := by
  unfold importTerms
  apply List.filterMap_congr
  intro n hn
  unfold importTerm1
  cases hk : n.kind with
  | «import» nm =>
    simp only
    rw [h nm ((mem_impliedNames g nm).mpr (Or.inr ⟨n, hn, hk⟩))]
  | instantiation slot sat => rfl
  | «alias» => rfl
  | definition => rfl

theorem specNode_congr {g : GraphVal} {cn cn' : Str → Str} (h : ∀ name ∈ impliedNames g, cn name = cn' name)
    (d : Bool) (s : SpecSt) (id : Nat) : specNode g cn d s id = specNode g cn' d s id := by
  unfold specNode
  cases hn : g.node? id with
  | none => rfl
  | some n =>
    simp only
    cases hk : n.kind with
    | instantiation slot sat =>
      simp only
      cases hp : g.pkg? slot with
      | none => rfl
      | some p =>
        simp only
        unfold specInst
        have : ((unsatisfiedByArgs n p).map fun r => (r.name, r.ty.kind, Term.imp (cn r.name))) =
            (unsatisfiedByArgs n p).map fun r => (r.name, r.ty.kind, Term.imp (cn' r.name)) := by
          apply List.map_congr_left
          intro r hr
          rw [h r.name ((mem_impliedNames g r.name).mpr
            (Or.inl ⟨n, (node?_mem hn).1, slot, sat, p, hk, hp, r, hr, rfl⟩))]
        simp only [this]
    | «import» nm => rfl
    | «alias» => rfl
    | definition => rfl

theorem specWiringWith_congr {g : GraphVal} {cn cn' : Str → Str} (h : ∀ name ∈ impliedNames g, cn name = cn' name)
    (d : Bool) (ord : List Nat) : specWiringWith g cn d ord = specWiringWith g cn' d ord := by
  unfold specWiringWith
  have hf : specNode g cn d = specNode g cn' d := by
    funext s id; exact specNode_congr h d s id
  rw [hf, importTerms_congr h]

/-! ### the aggregation hypotheses -/

/-- every import node is in the list of import nodes the encoder resolves -/
theorem importsOf_complete {g : GraphVal} {order : List Nat} (wf : WF g) (ht : toposort g = .ok order) :
    ∀ nd ∈ g.nodes, nd.isImport = true → nd.id ∈ importsOf g order := by
  intro nd hnd hi
  have hin : nd.id ∈ order := (toposort_complete ht).2 _ (List.mem_map_of_mem (f := (·.id)) hnd)
  have : isImportNode g nd.id = true := by
    simp [isImportNode, node?_of_mem wf.idsNodup hnd, hi]
  exact List.mem_filter.mpr ⟨hin, this⟩

/-- `canonical_is_canon`: for every import name the composition implies, the name the model's
    aggregator resolves it to (`canonical_import_name`) is the highest version among the implied
    names of its semver track — the name itself when it has no track -/
theorem canonical_is_canon {g : GraphVal} {order : List Nat} {agg : Agg} (wf : WF g) (ht : toposort g = .ok order)
    (hagg : aggOf g (importsOf g order) = some agg) :
    ∀ name ∈ impliedNames g, agg.canonical name = canon g name :=
  canonical_eq_canon wf (importsOf_complete wf ht) hagg

/-- `implicitKind`: every unsatisfied argument resolves to an import of its own kind -/
theorem implicit_kind {g : GraphVal} {importNodes : List Nat} {agg : Agg} (hagg : aggOf g importNodes = some agg) :
    ∀ n ∈ g.nodes, ∀ slot sat p, n.kind = .instantiation slot sat → g.pkg? slot = some p →
      ∀ r ∈ unsatisfied p sat, aggKind agg r.name = some r.ty.kind :=
  implicitKind_holds hagg

/-- `explicitKind`: every explicit import resolves to an import of its own kind -/
theorem explicit_kind {g : GraphVal} {order : List Nat} {agg : Agg} (wf : WF g) (ht : toposort g = .ok order)
    (hagg : aggOf g (importsOf g order) = some agg) :
    ∀ n ∈ g.nodes, ∀ nm, n.kind = .import nm → aggKind agg nm = some n.ty.kind :=
  explicitKind_holds wf (importsOf_complete wf ht) hagg

/-- the remaining hypothesis: an instance import of a named interface either has a name that
    does not stand for the interface, or is imported under the interface's name, or the
    interface is mentioned by nothing else (`AggHyp.ifaceNamed`) -/
def IfaceNamed (agg : Agg) : Prop :=
  ∀ e ∈ fixedImports agg, e.2.kind = .instance → e.2.iface = none ∨ e.2.iface = some e.1 ∨
    ∃ i, e.2.iface = some i ∧ (providesIface e.1 i = false ∨
      (privIn (fixedImports agg) i ∧ ∀ e' ∈ fixedImports agg, e'.1 ≠ e.1 → e'.2.iface ≠ some i))

def ifaceNamedCheck (agg : Agg) : Bool := (fixedImports agg).all (ifaceEntryOk (fixedImports agg))

theorem ifaceNamedCheck_sound {agg : Agg} (h : ifaceNamedCheck agg = true) : IfaceNamed agg := by
  simp only [ifaceNamedCheck, List.all_eq_true] at h
  intro e he hk
  have := h e he
  unfold ifaceEntryOk at this
  cases hif : e.2.iface with
  | none => exact Or.inl rfl
  | some i =>
    simp only [hif, hk, bne_self_eq_false, Bool.false_or, Bool.or_eq_true, beq_iff_eq, Bool.and_eq_true,
      decide_eq_true_eq, List.all_eq_true, bne_iff_ne, ne_eq] at this
    rcases this with (h | h) | ⟨h3, h4⟩
    · exact Or.inr (Or.inl (by rw [h]))
    · exact Or.inr (Or.inr ⟨i, rfl, Or.inl (by simpa using h)⟩)
    · refine Or.inr (Or.inr ⟨i, rfl, Or.inr ⟨h3, ?_⟩⟩)
      intro e' he' hne
      rcases h4 e' he' with h5 | h5
      · exact absurd h5 hne
      · exact h5

/-- `aggHyp_holds`: everything `wiring_encode_partial` assumes about the aggregated imports,
    from well-formedness and `IfaceNamed` -/
theorem aggHyp_holds {g : GraphVal} {order : List Nat} {agg : Agg} (wf : WF g) (ht : toposort g = .ok order)
    (hagg : aggOf g (importsOf g order) = some agg) (hif : IfaceNamed agg) : AggHyp g agg :=
  ⟨hif, implicit_kind hagg, explicit_kind wf ht hagg⟩

/-- `wiring_encode`: the wiring read back from the encoder's output is the wiring the graph
    designates, with every shared import named for the highest version of its semver track -/
theorem wiring_encode {g : GraphVal} {o : Opts} {s : Skeleton} {order : List Nat} {agg : Agg}
    (wf : WF g) (ht : toposort g = .ok order) (hagg : aggOf g (importsOf g order) = some agg)
    (hif : IfaceNamed agg) (he : encode g o = .ok s) :
    core (wiring s) = core (specWiring g o.define (others g order)) := by
  rw [wiring_encode_partial wf ht hagg (aggHyp_holds wf ht hagg hif) he]
  unfold specWiring
  rw [specWiringWith_congr (canonical_is_canon wf ht hagg)]

/-- a successful encoding went through a toposort and an aggregation -/
theorem encode_ok_stages {g : GraphVal} {o : Opts} {s : Skeleton} (he : encode g o = .ok s) :
    ∃ order agg, toposort g = .ok order ∧ aggOf g (importsOf g order) = some agg := by
  unfold encode at he
  cases hst : encodeSt g o with
  | error e => simp [hst] at he
  | panic p => simp [hst] at he
  | ok st =>
    unfold encodeSt at hst
    cases ht : toposort g with
    | fuel => simp [ht] at hst
    | cycle n => simp [ht] at hst
    | ok order =>
      simp only [ht] at hst
      refine ⟨order, ?_⟩
      cases h1 : encodeImports g (order.filter (isImportNode g)) {} with
      | error e => simp [h1] at hst
      | panic p => simp [h1] at hst
      | ok st1 =>
        unfold encodeImports at h1
        unfold aggOf importsOf
        cases hr : resolveInsts g g.nodes {} with
        | error e => simp [hr] at h1
        | panic p => simp [hr] at h1
        | ok r =>
          simp only [hr] at h1 ⊢
          cases hx : resolveExplicit g r.first (order.filter (isImportNode g)) r.agg [] with
          | error e => simp [hx] at h1
          | panic p => simp [hx] at h1
          | ok ae =>
            obtain ⟨a, ex⟩ := ae
            exact ⟨a, trivial, rfl⟩

/-- `wiring_encode`, from the encoding alone: the toposort order and the aggregation exist -/
theorem wiring_encode' {g : GraphVal} {o : Opts} {s : Skeleton} (wf : WF g) (he : encode g o = .ok s) :
    ∃ order agg, toposort g = .ok order ∧ aggOf g (importsOf g order) = some agg ∧
      (IfaceNamed agg → core (wiring s) = core (specWiring g o.define (others g order))) := by
  obtain ⟨order, agg, ht, hagg⟩ := encode_ok_stages he
  exact ⟨order, agg, ht, hagg, fun hif => wiring_encode wf ht hagg hif he⟩

/-! ### non-vacuity -/

theorem exGraph_ifaceNamed : IfaceNamed exAgg := ifaceNamedCheck_sound (by decide)

/-- `exGraph` (two instantiations of one package, shared implicit interface import, alias used
    twice, node exported under two names) meets the hypotheses of `wiring_encode` -/
example : core (wiring exSkel) = core (specWiring exGraph true (others exGraph exOrder)) :=
  wiring_encode exGraph_wf exGraph_toposort exGraph_agg exGraph_ifaceNamed exGraph_encode

/-! #### a diamond with sharing, an alias of an alias, two versions of one interface

  packages `base` (no imports), `left` (imports `a`, `x:y/i@1.2.0`), `right` (imports `a`,
  `x:y/i@1.0.0`), `join` (imports `l`, `r`); nodes: 0 = instantiate `base`, 1 = alias `out` of 0
  (an instance), 2 = alias `inner` of 1 (alias of an alias), 3 = instantiate `right` with `a` ← 2,
  4 = instantiate `left` with `a` ← 2, 5 = instantiate `join` with `r` ← 3 and `l` ← 4, exported
  as `out`.  The interface imports of `left` and `right` stay implicit: one shared import, named
  for the higher version. -/

def dI10 : Str := ['x', ':', 'y', '/', 'i', '@', '1', '.', '0', '.', '0']
def dI12 : Str := ['x', ':', 'y', '/', 'i', '@', '1', '.', '2', '.', '0']

def exDiamond : GraphVal :=
  { pkgs := [
      { slot := 0, name := ['t', ':', 'b'], version := none, bytesId := 0, imports := [] },
      { slot := 1, name := ['t', ':', 'l'], version := none, bytesId := 1,
        imports := [{ name := ['a'], ty := { kind := .func } },
                    { name := dI12, ty := { kind := .instance, iface := some dI12 } }] },
      { slot := 2, name := ['t', ':', 'r'], version := some ['0', '.', '3', '.', '0'], bytesId := 2,
        imports := [{ name := ['a'], ty := { kind := .func } },
                    { name := dI10, ty := { kind := .instance, iface := some dI10 } }] },
      { slot := 3, name := ['t', ':', 'j'], version := none, bytesId := 3,
        imports := [{ name := ['l'], ty := { kind := .instance } }, { name := ['r'], ty := { kind := .instance } }] }],
    nodes := [
      { id := 0, kind := .instantiation 0 [], ty := { kind := .instance }, name := some ['b'], succ := [1] },
      { id := 1, kind := .alias, ty := { kind := .instance }, inc := [(.alias ['o', 'u', 't'], 0)], succ := [2] },
      { id := 2, kind := .alias, ty := { kind := .func }, name := some ['f'],
        inc := [(.alias ['i', 'n', 'n', 'e', 'r'], 1)], succ := [4, 3] },
      { id := 3, kind := .instantiation 2 [0], ty := { kind := .instance }, inc := [(.arg 0 ['a'], 2)], succ := [5] },
      { id := 4, kind := .instantiation 1 [0], ty := { kind := .instance }, inc := [(.arg 0 ['a'], 2)], succ := [5] },
      { id := 5, kind := .instantiation 3 [0, 1], ty := { kind := .instance },
        inc := [(.arg 1 ['r'], 3), (.arg 0 ['l'], 4)] }],
    exports := [(['o', 'u', 't'], 5)] }

def exDiamondOrder : List Nat := [0, 1, 2, 3, 4, 5]
def exDiamondAgg : Agg :=
  { imports := [(dI12, { kind := .instance, iface := some dI12 })],
    redirects := [(dI10, dI12)],
    ifaces := [dI12] }
def exDiamondSkel : Skeleton :=
  match encode exDiamond { define := true } with
  | .ok s => s
  | _ => []

theorem exDiamond_wf : WF exDiamond := wfCheck_sound (by decide)
theorem exDiamond_toposort : toposort exDiamond = .ok exDiamondOrder := by decide
theorem exDiamond_agg : aggOf exDiamond (importsOf exDiamond exDiamondOrder) = some exDiamondAgg := by decide
theorem exDiamond_ifaceNamed : IfaceNamed exDiamondAgg := ifaceNamedCheck_sound (by decide)
theorem exDiamond_encode : encode exDiamond { define := true } = .ok exDiamondSkel := by rfl

/-- the hypotheses of `wiring_encode` hold for the diamond; its conclusion is not trivial: the
    `x:y/i@1.0.0` argument of `right` and the `x:y/i@1.2.0` argument of `left` are both the one
    import `x:y/i@1.2.0` (= `canon`), both get the same alias of an alias as `a` -/
example :
    core (wiring exDiamondSkel) = core (specWiring exDiamond true (others exDiamond exDiamondOrder)) ∧
    canon exDiamond dI10 = dI12 ∧
    ((wiring exDiamondSkel).insts.map fun i => i.args.map (·.2.2)) =
      [[],
       [.aliasOf (.aliasOf (.inst 0) ['o', 'u', 't']) ['i', 'n', 'n', 'e', 'r'], .imp dI12],
       [.aliasOf (.aliasOf (.inst 0) ['o', 'u', 't']) ['i', 'n', 'n', 'e', 'r'], .imp dI12],
       [.inst 1, .inst 2]] ∧
    (wiring exDiamondSkel).comps = [0, 2, 1, 3] :=
  ⟨wiring_encode exDiamond_wf exDiamond_toposort exDiamond_agg exDiamond_ifaceNamed exDiamond_encode,
   by decide, by decide, by decide⟩

example : ∀ name ∈ impliedNames exDiamond, exDiamondAgg.canonical name = canon exDiamond name :=
  canonical_is_canon exDiamond_wf exDiamond_toposort exDiamond_agg

/-- the kind conjuncts on `exGraph` (an explicit import `f`, an implicit interface import) and on
    the diamond (two versions of one interface resolve to one instance import) -/
example : AggHyp exGraph exAgg ∧ AggHyp exDiamond exDiamondAgg ∧
    aggKind exDiamondAgg dI10 = some .instance ∧ aggKind exAgg ['f'] = some .func :=
  ⟨aggHyp_holds exGraph_wf exGraph_toposort exGraph_agg exGraph_ifaceNamed,
   aggHyp_holds exDiamond_wf exDiamond_toposort exDiamond_agg exDiamond_ifaceNamed, by decide, by decide⟩

/-! #### `IfaceNamed` cannot be dropped (finding `enc-dependency-interface-shadows-import`)

  WIT worlds of the C03 harness: `old` imports `dep:t/t@1.0.0` and `test:usr/u` (which uses
  `dep:t/t@1.0.0`), `newv` imports `dep:t/t@1.2.0` and `test:usr/v` (which uses `dep:t/t@1.2.0`).
  Nodes: 0 = instantiate `newv` with `dep:t/t@1.2.0` ← node 2, 1 = instantiate `old`, 2 = explicit
  import `xi1` of the interface `dep:t/t@1.2.0`.  The implied import names are `test:usr/v`,
  `dep:t/t@1.0.0`, `test:usr/u`, `xi1`: `dep:t/t@1.0.0` is the only implied name of its track, so
  it is the designated import for the argument of `old`.  The encoder imports the *dependency*
  `dep:t/t@1.2.0` of `test:usr/v` first and then takes it for the import `dep:t/t@1.0.0`
  (`provides_interface`): the argument is wired to `dep:t/t@1.2.0` and no import is named
  `dep:t/t@1.0.0`.  With `old` created before `newv` the import is named `dep:t/t@1.0.0`
  (C03: the interface depends on creation order).  Replayed on the real encoder:
  plan `pkgs [witv:old, witv:newv] nodes [Inst(0), Inst(1), Import{xi1 : witv:newv."dep:t/t@1.2.0"}]
  args [(1, "dep:t/t@1.2.0", 2)]`, creation orders `[0,1,2]` and `[1,0,2]`. -/

def cD10 : Str := ['d', 'e', 'p', ':', 't', '/', 't', '@', '1', '.', '0', '.', '0']
def cD12 : Str := ['d', 'e', 'p', ':', 't', '/', 't', '@', '1', '.', '2', '.', '0']
def cU : Str := ['t', 'e', 's', 't', ':', 'u', 's', 'r', '/', 'u']
def cV : Str := ['t', 'e', 's', 't', ':', 'u', 's', 'r', '/', 'v']

def exIfaceDep : GraphVal :=
  { pkgs := [
      { slot := 0, name := ['o', 'l', 'd'], version := none, bytesId := 0,
        imports := [{ name := cD10, ty := { kind := .instance, iface := some cD10 } },
                    { name := cU, ty := { kind := .instance, iface := some cU, deps := [cD10] } }] },
      { slot := 1, name := ['n', 'e', 'w', 'v'], version := none, bytesId := 1,
        imports := [{ name := cD12, ty := { kind := .instance, iface := some cD12 } },
                    { name := cV, ty := { kind := .instance, iface := some cV, deps := [cD12] } }] }],
    nodes := [
      { id := 0, kind := .instantiation 1 [0], ty := { kind := .instance }, inc := [(.arg 0 cD12, 2)] },
      { id := 1, kind := .instantiation 0 [], ty := { kind := .instance } },
      { id := 2, kind := .import ['x', 'i', '1'], ty := { kind := .instance, iface := some cD12 }, succ := [0] }],
    exports := [] }

def exIfaceDepSkel : Skeleton :=
  match encode exIfaceDep { define := true } with
  | .ok s => s
  | _ => []

theorem exIfaceDep_encode : encode exIfaceDep { define := true } = .ok exIfaceDepSkel := by rfl

/-- without `IfaceNamed` the equation is false: on this well-formed graph value the argument
    `dep:t/t@1.0.0` of `old` is wired to the import `dep:t/t@1.2.0`, the designated import is
    `dep:t/t@1.0.0` (the highest implied name of the track), and no import has that name -/
theorem wiring_encode_iface_counterexample :
    WF exIfaceDep ∧ toposort exIfaceDep = .ok [1, 2, 0] ∧
    ¬ (core (wiring exIfaceDepSkel) = core (specWiring exIfaceDep true (others exIfaceDep [1, 2, 0]))) ∧
    ((wiring exIfaceDepSkel).insts.map fun i => i.args.map (·.2.2)) =
      [[.imp cD12, .imp cU], [.imp ['x', 'i', '1'], .imp cV]] ∧
    ((specWiring exIfaceDep true (others exIfaceDep [1, 2, 0])).insts.map fun i => i.args.map (·.2.2)) =
      [[.imp cD10, .imp cU], [.imp ['x', 'i', '1'], .imp cV]] ∧
    (wiring exIfaceDepSkel).imports.map (·.1) = [cD12, cV, cU, ['x', 'i', '1']] ∧
    (∀ agg, aggOf exIfaceDep (importsOf exIfaceDep [1, 2, 0]) = some agg → ¬ IfaceNamed agg) := by
  refine ⟨wfCheck_sound (by decide), by decide, by decide, by decide, by decide, by decide, ?_⟩
  intro agg hagg hif
  have h := wiring_encode (wfCheck_sound (by decide)) (by decide) hagg hif exIfaceDep_encode
  revert h
  decide

end Wac.Props.C02
