import WacProofs.Props.C02Full
import WacProofs.Props.C03Names
import WacProofs.Lemmas.EncIface2
/-
  C02 / C03 with hypotheses on the graph value only.

  `IfaceNamed agg` (the hypothesis `wiring_encode` still carries) is a property of the
  aggregator's result.  Here it is derived from `ForeignSingle g`
  (`WacModel/Spec/Foreign.lean`, executable `foreignSingleCheck`): the interface of every implied
  request is its own name or not semver-compatible with it, and a dependency interface (or the
  interface of an import under a foreign name) that is semver-compatible with an implied import
  name is that name.  The counterexamples `exIfaceDep` / `creation_order_counterexample` violate
  exactly this (`dep:t/t@1.2.0` is a dependency of `test:usr/v` and semver-compatible with the
  implied import `dep:t/t@1.0.0`).

      wiring_encode_graph : WF g → ForeignSingle g → toposort g = .ok order → encode g o = .ok s →
          core (wiring s) = core (specWiring g o.define (others g order))
-/
namespace Wac.Props.C02
open Wac Wac.Spec

/-- `IfaceNamed` holds for every well-formed graph value that meets `ForeignSingle` -/
theorem ifaceNamed_of_foreignSingle {g : GraphVal} {importNodes : List Nat} {agg : Agg} (wf : WF g)
    (fs : ForeignSingle g) (hagg : aggOf g importNodes = some agg) : IfaceNamed agg :=
  ifaceNamed_of_iinv (aggOf_iinv wf fs hagg)

/-- `aggHyp_holds`, from hypotheses on the graph alone -/
theorem aggHyp_holds_graph {g : GraphVal} {order : List Nat} {agg : Agg} (wf : WF g) (fs : ForeignSingle g)
    (ht : toposort g = .ok order) (hagg : aggOf g (importsOf g order) = some agg) : AggHyp g agg :=
  aggHyp_holds wf ht hagg (ifaceNamed_of_foreignSingle wf fs hagg)

/-- `wiring_encode`, from hypotheses on the graph alone -/
theorem wiring_encode_graph {g : GraphVal} {o : Opts} {s : Skeleton} {order : List Nat} (wf : WF g)
    (fs : ForeignSingle g) (ht : toposort g = .ok order) (he : encode g o = .ok s) :
    core (wiring s) = core (specWiring g o.define (others g order)) := by
  obtain ⟨order', agg, ht', hagg⟩ := encode_ok_stages he
  rw [ht] at ht'
  injection ht' with ht'
  subst ht'
  exact wiring_encode wf ht hagg (ifaceNamed_of_foreignSingle wf fs hagg) he

example : ForeignSingle exDiamond ∧ ForeignSingle exGraph ∧ ¬ ForeignSingle exIfaceDep := by
  refine ⟨foreignSingleCheck_sound (by decide), foreignSingleCheck_sound (by decide), ?_⟩
  intro h
  have := h.single cD12 (by decide) cD10 (by decide) (by decide)
  revert this
  decide

example : core (wiring exDiamondSkel) = core (specWiring exDiamond true (others exDiamond exDiamondOrder)) :=
  wiring_encode_graph exDiamond_wf (foreignSingleCheck_sound (by decide)) exDiamond_toposort exDiamond_encode

end Wac.Props.C02

namespace Wac.Props.C03
open Wac Wac.Spec

/-- `encode_import_names`, from hypotheses on the graph alone -/
theorem encode_import_names_graph {g : GraphVal} {o : Opts} {s : Skeleton} (wf : WF g) (fs : ForeignSingle g)
    (he : encode g o = .ok s) :
    (∀ r ∈ impliedReqs g, (canon g r.name, r.ty.kind) ∈ importItems s) ∧
    ∃ agg, ∀ x ∈ importItems s, ImpAllowed g agg o x.1 x.2 := by
  obtain ⟨order, agg, ht, hagg⟩ := C02.encode_ok_stages he
  have h := encode_import_names wf ht hagg (C02.ifaceNamed_of_foreignSingle wf fs hagg) he
  exact ⟨h.1, agg, h.2.1⟩

theorem foreignSingle_same {g g' : GraphVal} (h : SameComposition g g') (fs : ForeignSingle g) : ForeignSingle g' := by
  have hn := sameComposition_names h
  constructor
  · intro r hr i hi
    exact fs.own r ((h.reqs r).mpr hr) i hi
  · intro f hf x hx hc
    refine fs.single f ?_ x ((hn x).mpr hx) hc
    obtain ⟨r, hr, hfr⟩ := List.mem_flatMap.mp hf
    exact List.mem_flatMap.mpr ⟨r, (h.reqs r).mpr hr, hfr⟩

/-- `creation_order_invariant`, from hypotheses on the graph values alone: two encodings of a
    composition whose nodes were created in different orders (`Reordered ρ g g'`) export the same
    `(name, kind)` pairs, and both import every implied import under the same name (the highest
    version of its class) with its kind.  (The remaining import items are dependency interfaces
    and package components, `encode_imports_sound`; under `ForeignSingle` no dependency interface
    is on the track of another implied version.) -/
theorem creation_order_invariant {ρ : Nat → Nat} {g g' : GraphVal} {o : Opts} {s s' : Skeleton}
    (hre : Reordered ρ g g') (wf : WF g) (wf' : WF g') (fs : ForeignSingle g)
    (hde : DefsExported g) (hde' : DefsExported g')
    (he : encode g o = .ok s) (he' : encode g' o = .ok s') :
    (∀ x, x ∈ exportItems s ↔ x ∈ exportItems s') ∧
    (∀ r ∈ impliedReqs g, (canon g r.name, r.ty.kind) ∈ importItems s ∧ (canon g r.name, r.ty.kind) ∈ importItems s') := by
  obtain ⟨order, agg, ht, hagg⟩ := C02.encode_ok_stages he
  obtain ⟨order', agg', ht', hagg'⟩ := C02.encode_ok_stages he'
  have hsame := reordered_sameComposition hre wf'
  exact creation_order_invariant_renamed hre wf wf' hde hde' ht ht' hagg hagg'
    (C02.ifaceNamed_of_foreignSingle wf fs hagg)
    (C02.ifaceNamed_of_foreignSingle wf' (foreignSingle_same hsame fs) hagg') he he'

example : (∀ x, x ∈ exportItems C02.exDiamondSkel ↔ x ∈ exportItems exDiamondSkel') ∧
    (∀ r ∈ impliedReqs C02.exDiamond, (canon C02.exDiamond r.name, r.ty.kind) ∈ importItems C02.exDiamondSkel ∧
      (canon C02.exDiamond r.name, r.ty.kind) ∈ importItems exDiamondSkel') :=
  creation_order_invariant (o := { define := true }) exDiamond'_reordered C02.exDiamond_wf (wfCheck_sound (by decide))
    (foreignSingleCheck_sound (by decide)) (defsExportedCheck_sound (by decide)) (defsExportedCheck_sound (by decide))
    C02.exDiamond_encode (by rfl)

end Wac.Props.C03
