import WacModel.Aggregate
import WacModel.Spec.Merge
import WacProofs.Lemmas.Sub
import WacProofs.Lemmas.Merge
/-
  C09 — merged import requirements satisfy every contributor, order-independently.

  Model: `Wac.aggregate` / `Wac.aggregateAll` (WacModel/Aggregate.lean) = `TypeAggregator::aggregate`
  with the shared `SubtypeChecker`.  `Agg.emptyPinned` runs the model of the pinned snapshot,
  `Agg.empty` the model of the repaired code (fix commits d46aa12, 755b7a5 of the repository).
  Specification: `Wac.Spec.meet` / `compatibleAll` / `canonicalSpec` (WacModel/Spec/Merge.lean),
  evaluated by the driver on the implementation's own output for every permutation.

  Full statements (DESIGN §7 C09) and their status:
  * `agg_upper_bound : aggregateAll cs = .ok A → ∀ contributor (n, t, k) ∈ cs,
       subNames (unfold A (canon n)) (unfold t k)` — FALSE for the pinned code (nested instances:
    `agg_upper_bound_counterexample`); for the repaired code it is checked by the driver on every
    case (SPEC) and proved here on the witness (`agg_upper_bound_fixed_witness`); a general proof
    for the model is not done (PARTIAL).  It stays false for component-typed requirements
    (`agg_upper_bound_component_counterexample`, known finding).
  * `agg_perm`, `instance_merge_union`, `equal_merge_self`, `agg_idempotent`, `canonical_highest`,
    `lower_redirected`, `fails_iff_incompatible`: evaluated by the driver on every case; proved
    here on witnesses only (PARTIAL), except the specification-side facts below.
-/
namespace Wac.Props.C09
open Wac Wac.Spec

/-- the merged import a requirement name ends up with, as a tree -/
def mergedTree (s0 : AggState) (reqs : List (Str × Types × ItemKind)) (n : Str) : Option Tree :=
  match aggregateAll reqs s0 with
  | .ok s => (amGet s.agg.imports (s.agg.canonical n)).bind s.agg.types.unfold
  | .error _ => none

/-! ### nested instances (DESIGN §10 row 14) -/

/-- contributor A: `i: instance { x: instance { a: func() } }` -/
def tA : Types :=
  { uid := 1, funcs := [{}], interfaces := [{ exports := [(['a'], .func 0)] }, { exports := [(['x'], .instance 0)] }] }
/-- contributor B: `i: instance { x: instance { a: func(), b: func() } }` -/
def tB : Types :=
  { uid := 2, funcs := [{}],
    interfaces := [{ exports := [(['a'], .func 0), (['b'], .func 0)] }, { exports := [(['x'], .instance 0)] }] }

def treeA : Tree := (tA.unfold (.instance 1)).getD .none
def treeB : Tree := (tB.unfold (.instance 1)).getD .none

/-- **`agg_upper_bound` is false for the pinned code**: aggregating A then B succeeds, but the
merged import `i` (nested `x` keeps only `a`) does not satisfy contributor B — in both orders. -/
theorem agg_upper_bound_counterexample :
    ¬ (∀ (reqs : List (Str × Types × ItemKind)) (n : Str) (t : Types) (k : ItemKind) (m c : Tree),
        (n, t, k) ∈ reqs → mergedTree Agg.emptyPinned reqs n = some m → t.unfold k = some c →
        subNames m c = true) := by
  intro h
  have := h [(['i'], tA, .instance 1), (['i'], tB, .instance 1)] ['i'] tB (.instance 1)
    ((mergedTree Agg.emptyPinned [(['i'], tA, .instance 1), (['i'], tB, .instance 1)] ['i']).getD .none) treeB
    (by simp) (by decide +kernel) (by decide +kernel)
  revert this
  decide +kernel

theorem agg_upper_bound_counterexample_other_order :
    (mergedTree Agg.emptyPinned [(['i'], tB, .instance 1), (['i'], tA, .instance 1)] ['i']).map
      (fun m => subNames m treeB) = some false := by decide +kernel

/-- with the repair the same requirements merge to the union at every level, in both orders -/
theorem agg_upper_bound_fixed_witness :
    (mergedTree Agg.empty [(['i'], tA, .instance 1), (['i'], tB, .instance 1)] ['i']).map
      (fun m => subNames m treeA && subNames m treeB) = some true ∧
    (mergedTree Agg.empty [(['i'], tB, .instance 1), (['i'], tA, .instance 1)] ['i']).map
      (fun m => subNames m treeA && subNames m treeB) = some true := by
  constructor <;> decide +kernel

/-- … and the result is what the specification says: equivalent to the meet of the two
requirements (each a subtype of the other; the export order may differ) -/
theorem instance_merge_union_witness :
    ((mergedTree Agg.empty [(['i'], tA, .instance 1), (['i'], tB, .instance 1)] ['i']).bind fun m =>
      (meet treeA treeB).map fun s => sub m s && sub s m) = some true := by decide +kernel

/-! ### component-typed requirements (known finding) -/

/-- `i: component { import a: func() }` -/
def tC1 : Types := { uid := 1, funcs := [{}], worlds := [{ imports := [(['a'], .func 0)] }] }
/-- `i: component { }` -/
def tC2 : Types := { uid := 2, worlds := [{}] }

/-- the merged component type imports `a`, so it is not a subtype of the requirement without
imports: `merge_world` merges imports like exports (also after the repairs) -/
theorem agg_upper_bound_component_counterexample :
    (mergedTree Agg.empty [(['i'], tC1, .component 0), (['i'], tC2, .component 0)] ['i']).map
      (fun m => subNames m ((tC2.unfold (.component 0)).getD .none)) = some false := by decide +kernel

/-! ### names: highest version canonical, lower names redirected, three-version chain -/

def tF : Types := { uid := 1, funcs := [{}], interfaces := [{ exports := [(['f'], .func 0)] }] }
def tG : Types := { uid := 2, funcs := [{}], interfaces := [{ exports := [(['g'], .func 0)] }] }
def tH : Types := { uid := 3, funcs := [{}], interfaces := [{ exports := [(['h'], .func 0)] }] }

def chain (order : List (Str × Types × ItemKind)) : Option (List Str × List Str) :=
  match aggregateAll order Agg.empty with
  | .ok s => some (s.agg.imports.map (·.1),
      ["a:b/c@0.2.0".toList, "a:b/c@0.2.1".toList, "a:b/c@0.2.5".toList].map s.agg.canonical)
  | .error _ => none

/-- **`canonical_highest` / `lower_redirected`** on the three-version chain, every order: one import
named by the highest version, both lower names redirected to it (including the redirect that
was created first and has to be re-pointed) -/
def r020 : Str × Types × ItemKind := ("a:b/c@0.2.0".toList, tF, .instance 0)
def r021 : Str × Types × ItemKind := ("a:b/c@0.2.1".toList, tG, .instance 0)
def r025 : Str × Types × ItemKind := ("a:b/c@0.2.5".toList, tH, .instance 0)
def chainWant : Option (List Str × List Str) :=
  some (["a:b/c@0.2.5".toList], ["a:b/c@0.2.5".toList, "a:b/c@0.2.5".toList, "a:b/c@0.2.5".toList])

theorem canonical_highest_chain :
    chain [r020, r021, r025] = chainWant ∧ chain [r020, r025, r021] = chainWant ∧
    chain [r021, r020, r025] = chainWant ∧ chain [r021, r025, r020] = chainWant ∧
    chain [r025, r020, r021] = chainWant ∧ chain [r025, r021, r020] = chainWant := by
  refine ⟨?_, ?_, ?_, ?_, ?_, ?_⟩ <;> decide +kernel

/-- names on different tracks stay separate imports -/
theorem tracks_stay_separate :
    (aggregateAll [("a:b/c@0.2.0".toList, tF, .instance 0), ("a:b/c@0.3.0".toList, tG, .instance 0)] Agg.empty).toOption.map
      (fun s => s.agg.imports.map (·.1)) = some ["a:b/c@0.2.0".toList, "a:b/c@0.3.0".toList] := by
  decide +kernel

/-! ### equal requirements, idempotence, failure -/

def tFn (uid : Nat) (async : Bool) : Types := { uid := uid, funcs := [{ isAsync := async }] }

/-- **`equal_merge_self`** (witness): equal function requirements from two collections merge to
that function; **`agg_idempotent`**: aggregating a requirement twice changes nothing -/
theorem equal_merge_self_witness :
    (mergedTree Agg.empty [(['f'], tFn 1 false, .func 0), (['f'], tFn 2 false, .func 0)] ['f']) =
      (tFn 1 false).unfold (.func 0) ∧
    (aggregateAll [(['i'], tB, .instance 1), (['i'], tB, .instance 1)] Agg.empty).toOption.map (fun s => s.agg.types.unfold (.instance 1)) =
      (aggregateAll [(['i'], tB, .instance 1)] Agg.empty).toOption.map (fun s => s.agg.types.unfold (.instance 1)) := by
  constructor <;> decide +kernel

/-- **`fails_iff_incompatible`** (witness): requirements that disagree on an item fail in both
orders, and the specification calls them incompatible -/
theorem fails_incompatible_witness :
    (aggregateAll [(['f'], tFn 1 false, .func 0), (['f'], tFn 2 true, .func 0)] Agg.empty).toOption.isNone = true ∧
    (aggregateAll [(['f'], tFn 2 true, .func 0), (['f'], tFn 1 false, .func 0)] Agg.empty).toOption.isNone = true ∧
    compatibleAll [(['f'], ((tFn 1 false).unfold (.func 0)).getD .none), (['f'], ((tFn 2 true).unfold (.func 0)).getD .none)] = false := by
  refine ⟨?_, ?_, ?_⟩ <;> decide +kernel

/-! ### specification side -/

/-- **`agg_upper_bound`, specification side**: the merge of two requirements, when it exists,
satisfies both — for requirements without component / core-module types in merged positions
(`cov`; the fragment where the implementation is expected to agree with the specification) -/
theorem meet_upper_bound (a b m : Tree) (hc : cov a = true) (ha : a.namesDistinct = true)
    (hb : b.namesDistinct = true) (hm : meet a b = some m) : sub m a = true ∧ sub m b = true :=
  meet_lower_bound a b m hc ha hb hm

example : cov treeA = true ∧ treeA.namesDistinct = true ∧ treeB.namesDistinct = true ∧ (meet treeA treeB).isSome = true := by
  decide +kernel

/-- **`instance_merge_union`, specification side**: merged instance requirements export exactly the
union of the export names -/
theorem instance_merge_union_spec (ea eb : Forest) (m : Tree) (hm : meet (.instance ea) (.instance eb) = some m) :
    ∃ M, m = .instance M ∧ ∀ k, M.hasName k = (ea.hasName k || eb.hasName k) :=
  meet_instance_names ea eb m hm

/-- the merge of equal requirements is the requirement (`equal_merge_self`, specification) -/
theorem meet_self_eqKind (t : Tree) (h : isEqKind t = true) : meet t t = some t := by
  cases t <;> simp [isEqKind] at h <;> simp [meet]

/-- requirements of different kinds never merge (`fails_iff_incompatible`, one direction) -/
theorem meet_eqKind_ne (a b : Tree) (h : isEqKind a = true) (hne : a ≠ b) : meet a b = none := by
  cases a <;> simp [isEqKind] at h <;> simp [meet, hne]

end Wac.Props.C09
