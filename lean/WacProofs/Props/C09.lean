import WacModel.Aggregate
import WacModel.Spec.Merge
namespace Wac.Props.C09
open Wac Wac.Spec

/-- placeholder while the pipeline is brought up -/
theorem meet_nil_instance : meet (.instance .nil) (.instance .nil) = some (.instance .nil) := by decide

end Wac.Props.C09
