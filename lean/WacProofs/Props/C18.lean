import WacProofs.Lemmas.FsLookup
/-
  C18 — file-system dependency lookup follows the documented layout and precedence.

  `resolveKey` / `resolve` : model of `FileSystemPackageResolver::resolve` (WacModel/FsLookup.lean)
  `specStep` / `specResolve` / `decision` : the decision table written from README.md and the
  property statement (WacModel/Spec/FsLookup.lean).

  All theorems quantify over every file system (`FS = Path → Entry`), every configuration
  (root, overrides, mode, both cargo features), every encoder (`Codec`) and every key whose name
  segments are non-empty (`wellFormedName`, the shape the WAC parser produces).
-/
namespace Wac.Props.C18
open Wac Wac.FsLookup Wac.Spec.FsLookup Wac.Lemmas.FsLookup

/-! ### a small concrete world used by the non-vacuity examples -/

def exCfg (wat wit mode : Bool) (ov : List (Str × Path)) : Config :=
  { root := ["deps".toList], overrides := ov, errorOnUnknown := mode, featWat := wat, featWit := wit }
def exCodec : Codec :=
  { witDir := fun _ => some "WITDIR".toList, witFile := fun _ => some "WITFILE".toList,
    wat := fun s => some ("PARSED:".toList ++ s) }
def kPlain : Key := { name := "ns:pkg".toList, version := none }
def kVer : Key := { name := "ns:pkg".toList, version := some ⟨0, 0, 1, [], []⟩ }
def p (l : List String) : Path := l.map String.toList

deriving instance DecidableEq for Except

/-! ### extension handling -/

/-- `append_extension` appends to the last component, whatever it contains:
    `a/b/0.0.1` becomes `a/b/0.0.1.wasm`, never `a/b/0.0.wasm`. -/
theorem append_extension_never_replaces (q : Path) (l ext : Str) :
    appendExtension (q ++ [l]) ext = q ++ [l ++ '.' :: ext] := by
  simp [appendExtension]

/-- the `set_extension("wat")` / `set_extension("wasm")` calls that follow only exchange the
    extension that was appended; the component itself (e.g. a version `0.0.1`) stays whole. -/
theorem set_extension_keeps_component (q : Path) (l e ext : Str) (hl : l ≠ []) (he : '.' ∉ e) (hne : e ≠ []) :
    setExtension (appendExtension (q ++ [l]) e) ext = q ++ [l ++ '.' :: ext] := by
  rw [append_extension_never_replaces]; exact setExtension_appended q l e ext hl he hne

example : setExtension (appendExtension (p ["deps", "ns", "pkg", "0.0.1"]) extWasm) extWat = p ["deps", "ns", "pkg", "0.0.1.wat"] := by decide

/-- the path the resolver builds is the documented layout `<deps>/ns/name[/<version>]` -/
theorem path_layout (root : Path) (key : Key) : layoutPath root key = layout root key :=
  layoutPath_eq_layout root key

example : layoutPath (p ["deps"]) kVer = p ["deps", "ns", "pkg", "0.0.1"] := by decide

/-! ### the decision table -/

/-- Main theorem, one key: on every row the documentation speaks about, the resolver (after
    `fix: prefer a .wat file`) does exactly what the decision table says. -/
theorem resolveKey_eq_spec (cfg : Config) (codec : Codec) (fs : FS) (key : Key) (span : Span) (s : Step)
    (hwf : wellFormedName key.name = true) (h : specStep cfg codec fs key span = some s) :
    resolveKey cfg codec fs key span = s :=
  resolveKeyWith_eq_spec isFile cfg codec fs key span s hwf rfl h

example : specStep (exCfg true true true []) exCodec
    (FS.ofList [(p ["deps", "ns", "pkg.wat"], .file "(component)".toList), (p ["deps", "ns", "pkg.wasm"], .file "BIN".toList)])
    kPlain "sp".toList = some (.loaded "PARSED:(component)".toList) := by decide

/-- The rows the documentation is silent about, exactly: no applicable override, and either a
    directory at the package path in a build without WIT support, or (nothing better found and)
    a *directory* named `<name>.wasm` in a build with WIT support. -/
theorem undocumented_iff (cfg : Config) (codec : Codec) (fs : FS) (key : Key) (span : Span) :
    specStep cfg codec fs key span = none ↔
      applicableOverride cfg key = none ∧
      ((fs (layout cfg.root key) = .dir ∧ cfg.featWit = false) ∨
       (fs (layout cfg.root key) ≠ .dir ∧
        ¬ (cfg.featWat = true ∧ isFile fs (withExt (layout cfg.root key) extWat) = true) ∧
        fs (withExt (layout cfg.root key) extWasm) = .dir ∧ cfg.featWit = true)) := by
  rw [specStep_eq]
  simp only [decision]
  cases hov : applicableOverride cfg key with
  | some q => cases hq : fs q <;> simp <;> (split <;> simp_all)
  | none =>
    simp only [true_and]
    cases hb : fs (layout cfg.root key) <;> cases hw : cfg.featWat <;> cases hi : cfg.featWit <;>
      cases hwt : fs (withExt (layout cfg.root key) extWat) <;>
      cases hws : fs (withExt (layout cfg.root key) extWasm) <;> simp [isFile, hwt]

/-- Main theorem, whole request: keys are processed in request order, the first failing key's
    error is returned, otherwise every key found, in request order, with the documented bytes. -/
theorem resolve_eq_spec (cfg : Config) (codec : Codec) (fs : FS) (keys : List (Key × Span))
    (r : Except Err (List (Key × Bytes)))
    (hwf : ∀ k ∈ keys, wellFormedName k.1.name = true)
    (h : specResolve cfg codec fs keys = some r) :
    resolve cfg codec fs keys = r := by
  simp only [resolve, resolveWith]
  induction keys generalizing r with
  | nil => simp [specResolve] at h; simp [resolveLoop, h]
  | cons k rest ih =>
    obtain ⟨key, span⟩ := k
    have hwfk : wellFormedName key.name = true := hwf (key, span) (by simp)
    have hwfr : ∀ k ∈ rest, wellFormedName k.1.name = true := fun k hk => hwf k (by simp [hk])
    simp only [specResolve] at h
    cases hs : specStep cfg codec fs key span with
    | none => simp [hs] at h
    | some st =>
      have hm : resolveKeyWith isFile cfg codec fs key span = st :=
        resolveKey_eq_spec cfg codec fs key span st hwfk hs
      simp only [hs] at h
      simp only [resolveLoop, hm]
      cases st with
      | fail e => simp at h; subst h; simp
      | skipped => exact ih r hwfr h
      | loaded b =>
        simp only [List.nil_append] at h ⊢
        rw [resolveLoop_acc]
        cases hr : specResolve cfg codec fs rest with
        | none => simp [hr] at h
        | some rr =>
          have := ih rr hwfr hr
          simp only [hr] at h
          cases rr with
          | error e => simp at h; subst h; simp [this]
          | ok l => simp at h; subst h; simp [this]

example : specResolve (exCfg false true false []) exCodec
    (FS.ofList [(p ["deps", "ns", "pkg.wasm"], .file "BIN".toList)])
    [(kVer, "s0".toList), (kPlain, "s1".toList)] = some (.ok [(kPlain, "BIN".toList)]) := by decide

/-! ### the code as pinned violates the table (finding, repaired by `fix: prefer a .wat file`) -/

/-- With text support enabled, a *directory* named `<name>.wat` hides the `<name>.wasm` file:
    the pinned code probes the `.wat` candidate with `Path::exists`. -/
theorem pinned_counterexample :
    ¬ (∀ (cfg : Config) (codec : Codec) (fs : FS) (key : Key) (span : Span) (s : Step),
        wellFormedName key.name = true → specStep cfg codec fs key span = some s →
        resolveKeyOrig cfg codec fs key span = s) := by
  intro h
  have := h (exCfg true true true []) exCodec
    (FS.ofList [(p ["deps", "ns", "pkg.wat"], .dir), (p ["deps", "ns", "pkg.wasm"], .file "BIN".toList)])
    kPlain "sp".toList (.loaded "BIN".toList) (by decide) (by decide)
  revert this
  decide

/-- what does hold for the pinned code: the table, away from a directory at `<base>.wat`.
    Full statement (false, see `pinned_counterexample`): the same without `hnodir`. -/
theorem pinned_eq_spec_partial (cfg : Config) (codec : Codec) (fs : FS) (key : Key) (span : Span) (s : Step)
    (hwf : wellFormedName key.name = true)
    (hnodir : fs (withExt (layout cfg.root key) extWat) ≠ .dir)
    (h : specStep cfg codec fs key span = some s) :
    resolveKeyOrig cfg codec fs key span = s := by
  refine resolveKeyWith_eq_spec pathExists cfg codec fs key span s hwf ?_ h
  cases hw : fs (withExt (layout cfg.root key) extWat) <;> simp_all [pathExists, isFile]



/-! ### the README sentences, one by one (each for the repaired resolver, every file system) -/

/-- "a directory there is read as a WIT package" -/
theorem dir_is_wit (cfg : Config) (codec : Codec) (fs : FS) (key : Key) (span : Span)
    (hwf : wellFormedName key.name = true) (hov : applicableOverride cfg key = none)
    (hwit : cfg.featWit = true) (hdir : fs (layout cfg.root key) = .dir) :
    resolveKey cfg codec fs key span = encoded key span (codec.witDir (layout cfg.root key)) := by
  apply resolveKey_eq_spec _ _ _ _ _ _ hwf
  simp [specStep_eq, decision, hov, hdir, hwit]

example : applicableOverride (exCfg true true true []) kPlain = none ∧
    FS.ofList [(p ["deps", "ns", "pkg"], .dir)] (layout (exCfg true true true []).root kPlain) = .dir := by decide

/-- "a `.wat` file is preferred over `.wasm` when text support is enabled": whatever is at
    `<base>.wasm`, the parsed `.wat` is returned. -/
theorem wat_preferred_when_enabled (cfg : Config) (codec : Codec) (fs : FS) (key : Key) (span : Span) (src : Bytes)
    (hwf : wellFormedName key.name = true) (hov : applicableOverride cfg key = none)
    (hwat : cfg.featWat = true) (hnd : fs (layout cfg.root key) ≠ .dir)
    (hfile : fs (withExt (layout cfg.root key) extWat) = .file src) :
    resolveKey cfg codec fs key span = encoded key span (codec.wat src) := by
  apply resolveKey_eq_spec _ _ _ _ _ _ hwf
  simp only [specStep_eq, decision, hov, hwat, hfile]

example : FS.ofList [(p ["deps", "ns", "pkg.wat"], .file "T".toList), (p ["deps", "ns", "pkg.wasm"], .file "B".toList)]
    (withExt (layout (exCfg true true true []).root kPlain) extWat) = .file "T".toList := by decide

/-- "otherwise the `.wasm` file is used", and its bytes are returned exactly -/
theorem wasm_used_otherwise (cfg : Config) (codec : Codec) (fs : FS) (key : Key) (span : Span) (bytes : Bytes)
    (hwf : wellFormedName key.name = true) (hov : applicableOverride cfg key = none)
    (hnd : fs (layout cfg.root key) ≠ .dir)
    (hnowat : cfg.featWat = false ∨ isFile fs (withExt (layout cfg.root key) extWat) = false)
    (hfile : fs (withExt (layout cfg.root key) extWasm) = .file bytes) :
    resolveKey cfg codec fs key span = .loaded bytes := by
  apply resolveKey_eq_spec _ _ _ _ _ _ hwf
  simp only [specStep_eq, decision, hov, hfile]
  cases hb : fs (layout cfg.root key) <;> cases hw : cfg.featWat <;>
    cases hwt : fs (withExt (layout cfg.root key) extWat) <;> simp_all [isFile]

example : isFile (FS.ofList [(p ["deps", "ns", "pkg.wat"], .dir), (p ["deps", "ns", "pkg.wasm"], .file "B".toList)])
    (withExt (layout (exCfg true true true []).root kPlain) extWat) = false := by decide

/-- "an explicit override applies to unversioned references only": for a versioned key the
    overrides play no role at all. -/
theorem override_unversioned_only (cfg : Config) (codec : Codec) (fs : FS) (key : Key) (span : Span)
    (v : Version) (hv : key.version = some v) (ov : List (Str × Path)) :
    resolveKey cfg codec fs key span = resolveKey { cfg with overrides := ov } codec fs key span := by
  simp only [resolveKey, resolveKeyWith, choosePathWith, hv, Option.isNone_some, Bool.false_eq_true, if_false]
  have hd : defaultPathWith isFile cfg fs key = defaultPathWith isFile { cfg with overrides := ov } fs key := rfl
  have hl : ∀ q, loadPath cfg codec fs key span q = loadPath { cfg with overrides := ov } codec fs key span q :=
    fun _ => rfl
  cases amGet cfg.overrides key.name <;> cases amGet ov key.name <;> simp [hd, hl]

/-- "... and must exist": an applicable override that is not a regular file is an error for
    that key, whatever the `deps` directory holds. -/
theorem override_must_exist (cfg : Config) (codec : Codec) (fs : FS) (key : Key) (span : Span) (q : Path)
    (hwf : wellFormedName key.name = true) (hov : applicableOverride cfg key = some q)
    (hmissing : isFile fs q = false) :
    resolveKey cfg codec fs key span = .fail (.resolutionFailure key.name span) := by
  apply resolveKey_eq_spec _ _ _ _ _ _ hwf
  simp only [specStep_eq, decision, hov]
  cases hq : fs q <;> simp_all [isFile]

example : applicableOverride (exCfg true true true [("ns:pkg".toList, p ["ov", "x.wasm"])]) kPlain = some (p ["ov", "x.wasm"]) ∧
    applicableOverride (exCfg true true true [("ns:pkg".toList, p ["ov", "x.wasm"])]) kVer = none := by decide

/-- an applicable override that exists is what is loaded (decoded according to its own
    extension), whatever the `deps` directory holds -/
theorem override_wins (cfg : Config) (codec : Codec) (fs : FS) (key : Key) (span : Span) (q : Path) (c : Bytes)
    (hwf : wellFormedName key.name = true) (hov : applicableOverride cfg key = some q)
    (hfile : fs q = .file c) :
    resolveKey cfg codec fs key span =
      match fileSource cfg q c with
      | .witFile src => encoded key span (codec.witFile src)
      | .wat src => encoded key span (codec.wat src)
      | .binary b => .loaded b
      | .witDir _ => .skipped := by
  apply resolveKey_eq_spec _ _ _ _ _ _ hwf
  simp only [specStep_eq, decision, hov, hfile]
  cases hs : fileSource cfg q c <;> simp
  exfalso
  simp only [fileSource] at hs
  split at hs
  · simp at hs
  · split at hs <;> simp at hs

/-- "a missing package is skipped or reported as unknown according to the resolver's mode" -/
theorem missing_skipped_or_unknown (cfg : Config) (codec : Codec) (fs : FS) (key : Key) (span : Span)
    (hwf : wellFormedName key.name = true) (hov : applicableOverride cfg key = none)
    (hnd : fs (layout cfg.root key) ≠ .dir)
    (hnowat : cfg.featWat = false ∨ isFile fs (withExt (layout cfg.root key) extWat) = false)
    (hnowasm : fs (withExt (layout cfg.root key) extWasm) = .absent) :
    resolveKey cfg codec fs key span =
      if cfg.errorOnUnknown then .fail (.unknownPackage key.name span) else .skipped := by
  apply resolveKey_eq_spec _ _ _ _ _ _ hwf
  simp only [specStep_eq, decision, hov, hnowasm, missingStep]
  cases hb : fs (layout cfg.root key) <;> cases hw : cfg.featWat <;>
    cases hwt : fs (withExt (layout cfg.root key) extWat) <;> simp_all [isFile]

example : (FS.ofList []) (withExt (layout (exCfg true true true []).root kVer) extWasm) = .absent := by decide

/-- "the bytes returned are exactly the file's component bytes (or the encoding of the WIT/WAT
    found)": on every documented row, whatever is returned for a key is the content of a file
    at an applicable override or at `<base>.wasm`, or an encoder's output for the directory
    `<base>` / a file at the override or `<base>.wat`; nothing else is ever produced. -/
theorem bytes_exact (cfg : Config) (codec : Codec) (fs : FS) (key : Key) (span : Span) (b : Bytes)
    (hwf : wellFormedName key.name = true) (hdoc : specStep cfg codec fs key span ≠ none)
    (h : resolveKey cfg codec fs key span = .loaded b) :
    (∃ q, applicableOverride cfg key = some q ∧
        (fs q = .file b ∨ ∃ src, fs q = .file src ∧ (codec.witFile src = some b ∨ codec.wat src = some b))) ∨
    (applicableOverride cfg key = none ∧
      (codec.witDir (layout cfg.root key) = some b ∧ fs (layout cfg.root key) = .dir ∨
       (∃ src, fs (withExt (layout cfg.root key) extWat) = .file src ∧ codec.wat src = some b) ∨
       fs (withExt (layout cfg.root key) extWasm) = .file b)) := by
  cases hs : specStep cfg codec fs key span with
  | none => exact absurd hs hdoc
  | some st =>
    have hm := resolveKey_eq_spec cfg codec fs key span st hwf hs
    rw [hm] at h
    subst h
    rw [specStep_eq] at hs
    simp only [decision] at hs
    cases hov : applicableOverride cfg key with
    | some q =>
      left
      refine ⟨q, rfl, ?_⟩
      simp only [hov] at hs
      cases hq : fs q with
      | absent => simp [hq] at hs
      | dir => simp [hq] at hs
      | file c =>
        simp only [hq] at hs
        cases hsrc : fileSource cfg q c with
        | witDir d =>
          exfalso
          simp only [fileSource] at hsrc
          split at hsrc
          · simp at hsrc
          · split at hsrc <;> simp at hsrc
        | witFile src =>
          have hc : src = c := by
            simp only [fileSource] at hsrc
            split at hsrc
            · simpa using hsrc.symm
            · split at hsrc <;> simp at hsrc
          subst hc
          simp only [hsrc, Option.some.injEq] at hs
          right; refine ⟨src, rfl, Or.inl ?_⟩
          cases hw : codec.witFile src <;> simp_all [encoded]
        | wat src =>
          have hc : src = c := by
            simp only [fileSource] at hsrc
            split at hsrc
            · simp at hsrc
            · split at hsrc
              · simpa using hsrc.symm
              · simp at hsrc
          subst hc
          simp only [hsrc, Option.some.injEq] at hs
          right; refine ⟨src, rfl, Or.inr ?_⟩
          cases hw : codec.wat src <;> simp_all [encoded]
        | binary bb =>
          have hc : bb = c := by
            simp only [fileSource] at hsrc
            split at hsrc
            · simp at hsrc
            · split at hsrc
              · simp at hsrc
              · simpa using hsrc.symm
          subst hc
          simp only [hsrc, Option.some.injEq, Step.loaded.injEq] at hs
          left; rw [hs]
    | none =>
      right
      refine ⟨rfl, ?_⟩
      simp only [hov] at hs
      cases hb : fs (layout cfg.root key) <;> cases hw : cfg.featWat <;> cases hi : cfg.featWit <;>
        cases hwt : fs (withExt (layout cfg.root key) extWat) <;>
        cases hws : fs (withExt (layout cfg.root key) extWasm) <;>
        simp_all [encoded, missingStep] <;>
        first
          | (split at hs <;> (simp_all; done))
          | (cases hc : codec.witDir (layout cfg.root key) <;> (simp_all; done))
          | (rename_i src; cases hc : codec.wat src <;> (simp_all; done))

example : resolveKey (exCfg true true false []) exCodec
    (FS.ofList [(p ["deps", "ns", "pkg.wat"], .file "T".toList)]) kPlain "sp".toList = .loaded "PARSED:T".toList := by decide

/-! ### only the documented places are consulted -/

/-- The result for a key depends on the file system only at the applicable override path and at
    `<base>`, `<base>.wat`, `<base>.wasm`: two file systems that agree there give the same result
    (the resolver never looks anywhere else, e.g. never at `<base minus a version component>.wasm`). -/
theorem only_documented_paths_consulted (cfg : Config) (codec : Codec) (fs fs' : FS) (key : Key) (span : Span)
    (hwf : wellFormedName key.name = true)
    (hov : ∀ q, amGet cfg.overrides key.name = some q → fs q = fs' q)
    (hbase : fs (layout cfg.root key) = fs' (layout cfg.root key))
    (hwat : fs (withExt (layout cfg.root key) extWat) = fs' (withExt (layout cfg.root key) extWat))
    (hwasm : fs (withExt (layout cfg.root key) extWasm) = fs' (withExt (layout cfg.root key) extWasm)) :
    resolveKey cfg codec fs key span = resolveKey cfg codec fs' key span := by
  obtain ⟨q, l, hl, hne⟩ := layout_last cfg.root key hwf
  rw [hl] at hbase; rw [hl, withExt_append] at hwat hwasm
  have hload : ∀ (r : Path), fs r = fs' r →
      loadPath cfg codec fs key span r = loadPath cfg codec fs' key span r := by
    intro r hr; unfold loadPath isDir; rw [hr]
  have hdef : defaultPathWith isFile cfg fs key = defaultPathWith isFile cfg fs' key := by
    rw [defaultPathWith_eq isFile cfg fs key q l hl hne, defaultPathWith_eq isFile cfg fs' key q l hl hne]
    unfold isDir isFile; rw [hbase, hwat]
  have hdefload : loadPath cfg codec fs key span (defaultPathWith isFile cfg fs key) =
      loadPath cfg codec fs' key span (defaultPathWith isFile cfg fs' key) := by
    rw [← hdef]
    apply hload
    rw [defaultPathWith_eq isFile cfg fs key q l hl hne]
    split
    · exact hbase
    · split
      · split
        · exact hwat
        · exact hwasm
      · exact hwasm
  simp only [resolveKey, resolveKeyWith, choosePathWith]
  cases hg : amGet cfg.overrides key.name with
  | none => exact hdefload
  | some r =>
    have hr := hov r hg
    cases hv : key.version.isNone with
    | false => simpa using hdefload
    | true =>
      have hfile : isFile fs r = isFile fs' r := by unfold isFile; rw [hr]
      simp only [if_true, hfile]
      cases hf : isFile fs' r <;> simp [hload r hr]

example : resolveKey (exCfg true true true []) exCodec (FS.ofList [(p ["deps", "ns", "pkg.wasm"], .file "B".toList)]) kPlain "sp".toList =
    resolveKey (exCfg true true true []) exCodec
      (FS.ofList [(p ["deps", "ns", "pkg.wasm"], .file "B".toList), (p ["deps", "ns.wasm"], .file "X".toList),
                  (p ["deps", "ns", "pk.wasm"], .dir)]) kPlain "sp".toList := by decide

end Wac.Props.C18
