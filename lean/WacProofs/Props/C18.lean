import WacProofs.Lemmas.FsLookup
/-
  C18 — file-system dependency lookup follows the documented layout and precedence.

  `resolveKey` / `resolve` : model of `FileSystemPackageResolver::resolve` (WacModel/FsLookup.lean)
  `specStep` / `specResolve` / `decision` : the decision table written from README.md and the
  property statement (WacModel/Spec/FsLookup.lean).

  All theorems quantify over every file system (`FS = Path → Entry`), every configuration
  (root, overrides, mode, both cargo features), every encoder (`Codec`) and every key whose name
  segments are non-empty (`wellFormedName`, the shape the WAC parser produces).
-/
namespace Wac.Props.C18
open Wac Wac.FsLookup Wac.Spec.FsLookup Wac.Lemmas.FsLookup

/-! ### a small concrete world used by the non-vacuity examples -/

def exCfg (wat wit mode : Bool) (ov : List (Str × Path)) : Config :=
  { root := ["deps".toList], overrides := ov, errorOnUnknown := mode, featWat := wat, featWit := wit }
def exCodec : Codec :=
  { witDir := fun _ => some "WITDIR".toList, witFile := fun _ => some "WITFILE".toList,
    wat := fun s => some ("PARSED:".toList ++ s) }
def kPlain : Key := { name := "ns:pkg".toList, version := none }
def kVer : Key := { name := "ns:pkg".toList, version := some ⟨0, 0, 1, [], []⟩ }
def p (l : List String) : Path := l.map String.toList

deriving instance DecidableEq for Except

/-! ### extension handling -/

/-- `append_extension` appends to the last component, whatever it contains:
    `a/b/0.0.1` becomes `a/b/0.0.1.wasm`, never `a/b/0.0.wasm`. -/
theorem append_extension_never_replaces (q : Path) (l ext : Str) :
    appendExtension (q ++ [l]) ext = q ++ [l ++ '.' :: ext] := by
  simp [appendExtension]

/-- the `set_extension("wat")` / `set_extension("wasm")` calls that follow only exchange the
    extension that was appended; the component itself (e.g. a version `0.0.1`) stays whole. -/
theorem set_extension_keeps_component (q : Path) (l e ext : Str) (hl : l ≠ []) (he : '.' ∉ e) (hne : e ≠ []) :
    setExtension (appendExtension (q ++ [l]) e) ext = q ++ [l ++ '.' :: ext] := by
  rw [append_extension_never_replaces]; exact setExtension_appended q l e ext hl he hne

example : setExtension (appendExtension (p ["deps", "ns", "pkg", "0.0.1"]) extWasm) extWat = p ["deps", "ns", "pkg", "0.0.1.wat"] := by decide

/-- the path the resolver builds is the documented layout `<deps>/ns/name[/<version>]` -/
theorem path_layout (root : Path) (key : Key) : layoutPath root key = layout root key :=
  layoutPath_eq_layout root key

example : layoutPath (p ["deps"]) kVer = p ["deps", "ns", "pkg", "0.0.1"] := by decide

/-! ### the decision table -/

/-- Main theorem, one key: on every row the documentation speaks about, the resolver (after
    `fix: prefer a .wat file`) does exactly what the decision table says. -/
theorem resolveKey_eq_spec (cfg : Config) (codec : Codec) (fs : FS) (key : Key) (span : Span) (s : Step)
    (hwf : wellFormedName key.name = true) (h : specStep cfg codec fs key span = some s) :
    resolveKey cfg codec fs key span = s :=
  resolveKeyWith_eq_spec isFile cfg codec fs key span s hwf rfl h

example : specStep (exCfg true true true []) exCodec
    (FS.ofList [(p ["deps", "ns", "pkg.wat"], .file "(component)".toList), (p ["deps", "ns", "pkg.wasm"], .file "BIN".toList)])
    kPlain "sp".toList = some (.loaded "PARSED:(component)".toList) := by decide

/-- The rows the documentation is silent about, exactly: no applicable override, and either a
    directory at the package path in a build without WIT support, or (nothing better found and)
    a *directory* named `<name>.wasm` in a build with WIT support. -/
theorem undocumented_iff (cfg : Config) (codec : Codec) (fs : FS) (key : Key) (span : Span) :
    specStep cfg codec fs key span = none ↔
      applicableOverride cfg key = none ∧
      ((fs (layout cfg.root key) = .dir ∧ cfg.featWit = false) ∨
       (fs (layout cfg.root key) ≠ .dir ∧
        ¬ (cfg.featWat = true ∧ isFile fs (withExt (layout cfg.root key) extWat) = true) ∧
        fs (withExt (layout cfg.root key) extWasm) = .dir ∧ cfg.featWit = true)) := by
  rw [specStep_eq]
  simp only [decision]
  cases hov : applicableOverride cfg key with
  | some q => cases hq : fs q <;> simp <;> (split <;> simp_all)
  | none =>
    simp only [true_and]
    cases hb : fs (layout cfg.root key) <;> cases hw : cfg.featWat <;> cases hi : cfg.featWit <;>
      cases hwt : fs (withExt (layout cfg.root key) extWat) <;>
      cases hws : fs (withExt (layout cfg.root key) extWasm) <;> simp [isFile, hwt]

/-- the accumulator of the loop only ever grows at the end -/
theorem resolveLoop_acc (step : Key → Span → Step) (keys : List (Key × Span)) (acc : List (Key × Bytes)) :
    resolveLoop step keys acc =
      match resolveLoop step keys [] with
      | .ok l => .ok (acc ++ l)
      | .error e => .error e := by
  induction keys generalizing acc with
  | nil => simp [resolveLoop]
  | cons k rest ih =>
    obtain ⟨key, span⟩ := k
    simp only [resolveLoop]
    cases step key span with
    | fail e => simp
    | skipped => exact ih acc
    | loaded b =>
      simp only [List.nil_append]
      rw [ih (acc ++ [(key, b)]), ih [(key, b)]]
      cases resolveLoop step rest [] <;> simp

/-- Main theorem, whole request: keys are processed in request order, the first failing key's
    error is returned, otherwise every key found, in request order, with the documented bytes. -/
theorem resolve_eq_spec (cfg : Config) (codec : Codec) (fs : FS) (keys : List (Key × Span))
    (r : Except Err (List (Key × Bytes)))
    (hwf : ∀ k ∈ keys, wellFormedName k.1.name = true)
    (h : specResolve cfg codec fs keys = some r) :
    resolve cfg codec fs keys = r := by
  simp only [resolve, resolveWith]
  induction keys generalizing r with
  | nil => simp [specResolve] at h; simp [resolveLoop, h]
  | cons k rest ih =>
    obtain ⟨key, span⟩ := k
    have hwfk : wellFormedName key.name = true := hwf (key, span) (by simp)
    have hwfr : ∀ k ∈ rest, wellFormedName k.1.name = true := fun k hk => hwf k (by simp [hk])
    simp only [specResolve] at h
    cases hs : specStep cfg codec fs key span with
    | none => simp [hs] at h
    | some st =>
      have hm : resolveKeyWith isFile cfg codec fs key span = st :=
        resolveKey_eq_spec cfg codec fs key span st hwfk hs
      simp only [hs] at h
      simp only [resolveLoop, hm]
      cases st with
      | fail e => simp at h; subst h; simp
      | skipped => exact ih r hwfr h
      | loaded b =>
        simp only [List.nil_append] at h ⊢
        rw [resolveLoop_acc]
        cases hr : specResolve cfg codec fs rest with
        | none => simp [hr] at h
        | some rr =>
          have := ih rr hwfr hr
          simp only [hr] at h
          cases rr with
          | error e => simp at h; subst h; simp [this]
          | ok l => simp at h; subst h; simp [this]

example : specResolve (exCfg false true false []) exCodec
    (FS.ofList [(p ["deps", "ns", "pkg.wasm"], .file "BIN".toList)])
    [(kVer, "s0".toList), (kPlain, "s1".toList)] = some (.ok [(kPlain, "BIN".toList)]) := by decide

/-! ### the code as pinned violates the table (finding, repaired by `fix: prefer a .wat file`) -/

/-- With text support enabled, a *directory* named `<name>.wat` hides the `<name>.wasm` file:
    the pinned code probes the `.wat` candidate with `Path::exists`. -/
theorem pinned_counterexample :
    ¬ (∀ (cfg : Config) (codec : Codec) (fs : FS) (key : Key) (span : Span) (s : Step),
        wellFormedName key.name = true → specStep cfg codec fs key span = some s →
        resolveKeyOrig cfg codec fs key span = s) := by
  intro h
  have := h (exCfg true true true []) exCodec
    (FS.ofList [(p ["deps", "ns", "pkg.wat"], .dir), (p ["deps", "ns", "pkg.wasm"], .file "BIN".toList)])
    kPlain "sp".toList (.loaded "BIN".toList) (by decide) (by decide)
  revert this
  decide

/-- what does hold for the pinned code: the table, away from a directory at `<base>.wat`.
    Full statement (false, see `pinned_counterexample`): the same without `hnodir`. -/
theorem pinned_eq_spec_partial (cfg : Config) (codec : Codec) (fs : FS) (key : Key) (span : Span) (s : Step)
    (hwf : wellFormedName key.name = true)
    (hnodir : fs (withExt (layout cfg.root key) extWat) ≠ .dir)
    (h : specStep cfg codec fs key span = some s) :
    resolveKeyOrig cfg codec fs key span = s := by
  refine resolveKeyWith_eq_spec pathExists cfg codec fs key span s hwf ?_ h
  cases hw : fs (withExt (layout cfg.root key) extWat) <;> simp_all [pathExists, isFile]



end Wac.Props.C18
