import WacProofs.Props.C02
import WacProofs.Lemmas.NoError
/-
  C01 — every encoded composition is a valid component; no late validation failures.
  PARTIAL BY DESIGN: what is proved is the structural part on the model encoder (outcomes,
  scoping of the index operands that realise nodes, irrelevance of the `validate` option);
  type-semantic validity is the validator's verdict on every real output (harness oracle).

  Full statements not proved here (kept for the record):
    encode_valid        : Inv g → encode g o = .ok s → Valid s            (Valid = the component-model
                          validation rules for the emitted constructs; needs the type encoder's scopes)
    encode_args_exact   : … → ∀ instantiate ∈ s, argument names = import names of the package
    encode_no_panic     : Inv g → ∀ site, encode g o ≠ .panic site
    typeencode_scopes_closed
-/
namespace Wac.Props.C01
open Wac Wac.Spec Wac.Props.C02

/-- `CompositionGraph::encode`: the encoder, then (optionally) the validator -/
def encodeFull (valid : Skeleton → Bool) (g : GraphVal) (o : Opts) (validate : Bool) : Res Skeleton ⊕ Unit :=
  match encode g o with
  | .ok s => if validate && !valid s then .inr () else .inl (.ok s)
  | r => .inl r

/-- `encode_errors_documented`: the model encoder fails only with the three documented errors
    (a cycle, an implicit-import conflict, an import-type merge conflict); `ValidationFailure`
    can only come from the validator run after it -/
theorem encode_errors_documented {g : GraphVal} {o : Opts} {e : EncErr} (_h : encode g o = .error e) :
    (∃ n, e = .cycle n) ∨ (∃ nm i m, e = .implicitConflict nm i m) ∨ (∃ nm a b, e = .mergeConflict nm a b) := by
  cases e with
  | cycle n => exact Or.inl ⟨n, rfl⟩
  | implicitConflict nm i m => exact Or.inr (Or.inl ⟨nm, i, m, rfl⟩)
  | mergeConflict nm a b => exact Or.inr (Or.inr ⟨nm, a, b, rfl⟩)

/-- a cycle error means the toposort found one -/
theorem encode_cycle_iff {g : GraphVal} {o : Opts} {n : Nat} :
    encode g o = .error (.cycle n) → toposort g = .cycle n := by
  intro h
  unfold encode encodeSt at h
  cases ht : toposort g with
  | cycle m =>
    simp only [ht] at h
    injection h with h
    injection h with h
    rw [h]
  | fuel => simp [ht] at h
  | ok order =>
    simp only [ht] at h
    exfalso
    cases h1 : encodeImports g (order.filter (isImportNode g)) {} with
    | panic p => simp [h1] at h
    | error e =>
      -- import resolution never reports a cycle
      simp only [h1] at h
      injection h with h
      subst h
      unfold encodeImports at h1
      cases hr : resolveInsts g g.nodes {} with
      | panic p => simp [hr] at h1
      | error e =>
        simp only [hr] at h1
        injection h1 with h1
        subst h1
        exact absurd hr (resolveInsts_no_cycle g.nodes)
      | ok r =>
        simp only [hr] at h1
        cases hx : resolveExplicit g r.first (order.filter (isImportNode g)) r.agg [] with
        | panic p => simp [hx] at h1
        | error e =>
          simp only [hx] at h1
          injection h1 with h1
          subst h1
          exact absurd hx (resolveExplicit_no_cycle _)
        | ok ae =>
          obtain ⟨agg, ex⟩ := ae
          simp only [hx] at h1
          generalize importAll id _ {} [] = res at h1
          cases hf : fillImplicit agg res.2 r.implicit res.1 with
          | panic p => simp [hf] at h1
          | error e => exact absurd hf (fillImplicit_no_error _)
          | ok st2 =>
            simp only [hf] at h1
            exact absurd h1 (fillExplicit_no_error _)
    | ok st1 =>
      simp only [h1] at h
      cases h2 : encNodes g o (order.filter fun id => !isImportNode g id) st1 with
      | panic p => simp [h2] at h
      | error e => exact absurd h2 (encNodes_no_error _)
      | ok st2 =>
        simp only [h2] at h
        cases h3 : encExports g g.exports st2 with
        | panic p => simp [h3] at h
        | error e => exact absurd h3 (encExports_no_error _)
        | ok st3 =>
          simp only [h3] at h
          cases h4 : encNames g st3 with
          | panic p => simp [h4] at h
          | error e => exact absurd h4 encNames_no_error
          | ok st4 => simp [h4] at h

/-- `encode_validate_irrelevant`: whether validation is requested does not change the encoded
    skeleton; with validation off the encoder's result is returned as it is, with validation on
    the same skeleton is returned iff the validator accepts it -/
theorem encode_validate_irrelevant (valid : Skeleton → Bool) (g : GraphVal) (o : Opts) :
    encodeFull valid g o false = .inl (encode g o) ∧
    ∀ s, encodeFull valid g o true = .inl (.ok s) → encode g o = .ok s := by
  constructor
  · unfold encodeFull; cases encode g o <;> simp
  · intro s h
    unfold encodeFull at h
    cases he : encode g o with
    | ok s' =>
      simp only [he] at h
      split at h
      · cases h
      · injection h with h
    | error e => simp [he] at h
    | panic p => simp [he] at h

/-- every term of a wiring that stands for an index operand -/
def operandTerms (w : Wiring) : List Term :=
  w.insts.flatMap (fun i => i.comp :: i.args.map (·.2.2)) ++ w.aliases.map (·.1) ++ w.exports.map (·.2.2) ++
    w.names.map (·.2.1)

/-- `encode_wellscoped` (partial): the index operands of the encoded skeleton are exactly the
    designated terms of the specification — so an operand is out of scope (`Term.bad`) only where
    the specification itself has no designated item (an edge from a node that does not exist).
    Full statement: "every index operand in the skeleton is smaller than its index-space counter
    at that point and of the right sort"; the sort part holds by construction of `wiring` (an
    operand is looked up in the space its item names), the range part is this equation plus the
    absence of `bad` in the specification, which needs `Inv g` (every edge source is a live node
    placed earlier — `toposort_sound`) and is not proved here. -/
theorem encode_wellscoped_partial {g : GraphVal} {o : Opts} {s : Skeleton} {order : List Nat} {agg : Agg}
    (wf : WF g) (ht : toposort g = .ok order) (hagg : aggOf g (importsOf g order) = some agg) (hok : AggHyp g agg)
    (he : encode g o = .ok s) :
    operandTerms (wiring s) = operandTerms (specWiringWith g agg.canonical o.define (others g order)) := by
  have h := wiring_encode_partial wf ht hagg hok he
  have h' : ∀ w : Wiring, operandTerms w = operandTerms (core w) := fun w => rfl
  rw [h' (wiring s), h, ← h']

example : operandTerms (wiring exSkel) ≠ [] ∧ (operandTerms (wiring exSkel)).all (fun t => t != .bad) = true := by
  constructor <;> decide

example : encodeFull (fun _ => true) exGraph { define := true } true = .inl (.ok exSkel) := by
  unfold encodeFull; rw [exGraph_encode]; rfl

end Wac.Props.C01
