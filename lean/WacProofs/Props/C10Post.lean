import WacProofs.Props.C10
import WacProofs.Lemmas.PlugOnly
import WacProofs.Lemmas.GraphAbsQueries
/-
  C10 — plugging, the clauses that were checked by the executable post-condition only:

    "every other socket import remains an import of the result"       unmatched_stay_imports
    "nothing but the offers is passed"                                only_offers_passed
    "every socket export is exported under its own name"
      (and nothing else is exported)                                  plug_result_exports

  All three are about the node `si = g.fresh.node` — the identifier `instantiate` hands out for
  the socket instantiation (`Graph.fresh`, WacModel/Spec/GraphAbs.lean) — so they speak about
  the same instantiation (`plug_post`).
-/
namespace Wac.Props.C10Post
open Wac Wac.Graph Wac.Props.C10

/-- after a successful `plug`, about the socket instantiation `si = g.fresh.node`:
    * it is new and an instantiation of the socket package;
    * (`only_offers_passed`) every edge into it is the argument edge of an offer: it comes from
      the alias of export `o.2` of an instantiation of a plug `p` of the list, `(o.1, o.2)` being
      an offer of `p` in the sense of the specification (`offers`: same name, failing that the
      first semver-compatible import, kept iff the subtype verdict holds), at the index of the
      socket import `o.1`;
    * every entry of the export map is an old one or carries the name of a socket export. -/
theorem plug_post (ctx : Ctx) (g : Graph) (h : Inv ctx g) (plugs : List PkgId) (socket : PkgId)
    (socketD : PkgDef) (hs : g.pkgOf socket = .ok socketD) (hok : (plug ctx g plugs socket).2 = .ok) :
    g.node? g.fresh.node = none ∧ InstOf (plug ctx g plugs socket).1 g.fresh.node socket ∧
    (plug ctx g plugs socket).1.pkgs = g.pkgs ∧
    (∀ e ∈ (plug ctx g plugs socket).1.edges, e.dst = g.fresh.node →
      ∃ p ∈ plugs, ∃ plugD, g.pkgOf p = .ok plugD ∧ ∃ o ∈ offers ctx socketD plugD,
        ∃ pi j idx k k', InstOf (plug ctx g plugs socket).1 pi p ∧
          alFull (ctx.pkgExports plugD) o.2 = some (j, k) ∧ alFull socketD.imports o.1 = some (idx, k') ∧
          (⟨pi, e.src, .alias j⟩ : Edge) ∈ (plug ctx g plugs socket).1.edges ∧ e.kind = .arg idx) ∧
    (∀ x ∈ (plug ctx g plugs socket).1.exports, x ∈ g.exports ∨ x.1 ∈ (ctx.pkgExports socketD).map (·.1)) := by
  have hinv' := plug_inv h plugs socket
  cases hres : plug ctx g plugs socket with
  | mk g' out =>
    rw [hres] at hok hinv'
    simp only at hok hinv' ⊢
    subst hok
    unfold plug at hres
    rw [hs] at hres
    simp only at hres
    have hi : instantiate g socket =
        ((g.addNode ⟨.instantiation [], some socket, socketD.instKind, none, none⟩).1,
         .ok (.node (g.addNode ⟨.instantiation [], some socket, socketD.instKind, none, none⟩).2)) := by
      unfold instantiate
      rw [hs]
    have hinv1 : Inv ctx (g.addNode ⟨.instantiation [], some socket, socketD.instKind, none, none⟩).1 :=
      inv_instantiate h hi
    have a := added_of_addNode h ⟨.instantiation [], some socket, socketD.instKind, none, none⟩
    have hf := addNode_fresh g ⟨.instantiation [], some socket, socketD.instKind, none, none⟩
    rw [hi] at hres
    simp only at hres
    rw [hf] at hres a
    generalize (g.addNode ⟨.instantiation [], some socket, socketD.instKind, none, none⟩).1 = g1 at hres hinv1 a
    generalize g.fresh.node = si at hres a ⊢
    -- no edge enters the new node
    have ho1 : OnlyFrom ctx g1 si (fun _ _ => False) := by
      intro e he hd
      rw [a.edges] at he
      obtain ⟨_, ⟨y, hy⟩⟩ := h.edge_live he
      rw [hd, a.fresh] at hy
      cases hy
    have hsi1 : ∃ x, g1.node? si = some x := ⟨_, a.new⟩
    cases hpa : plugAll ctx si socketD plugs g1 with
    | mk g2 o =>
      rw [hpa] at hres
      cases o with
      | some o' =>
        simp only [Prod.mk.injEq] at hres
        have := plugAll_some si socketD plugs g1 g2 o' hpa
        rw [hres.2] at this
        cases this
      | none =>
        simp only at hres
        have hinv2 : Inv ctx g2 := plugAll_inv si socketD plugs g1 g2 none hinv1 hpa
        have k12 := plugAll_keeps si socketD plugs g1 g2 none hinv1 hpa
        obtain ⟨ho2, hx2⟩ := plugAll_only si socketD plugs g1 g2 _ hinv1 hsi1 ho1 hpa
        cases hga : getInstantiationArguments g2 si with
        | error s => rw [hga] at hres; simp at hres
        | ok l =>
          rw [hga] at hres
          cases l with
          | nil => simp at hres
          | cons x r =>
            simp only at hres
            cases hex : exportSocket ctx si ((ctx.pkgExports socketD).map (·.1)) g2 with
            | mk g3 o3 =>
              rw [hex] at hres
              cases o3 with
              | some o'' =>
                simp only [Prod.mk.injEq] at hres
                have := exportSocket_some si _ g2 g3 o'' hex
                rw [hres.2] at this
                cases this
              | none =>
                simp only [Prod.mk.injEq, and_true] at hres
                subst hres
                obtain ⟨k23, _⟩ := exportSocket_spec si _ g2 g3 hinv2 hex
                obtain ⟨ho3, hx3⟩ := exportSocket_only si _ g2 g3 _ hinv2 (live_keeps k12 hsi1) ho2 hex
                have k13 := k12.trans k23
                have hpk : g3.pkgs = g.pkgs := k13.pkgs.trans a.pkgs
                have hsi : InstOf g3 si socket := (InstOf.mono ⟨_, a.new, rfl, rfl⟩ k13)
                refine ⟨a.fresh, hsi, hpk, ?_, ?_⟩
                · intro e he hd
                  obtain ⟨p, pr, hA, pi, j, idx, hpi, hai, hargi, hedge, hkind⟩ := ho3 e he hd
                  rcases hA with hA | ⟨hp, plugD, hpd, hpr⟩
                  · exact hA.elim
                  · have hpd0 : g.pkgOf p = .ok plugD := by rw [← pkgOf_congr a.pkgs]; exact hpd
                    have hpd3 : g3.pkgOf p = .ok plugD := by rw [pkgOf_congr hpk]; exact hpd0
                    rw [plugExports_eq_offers] at hpr
                    obtain ⟨o, ho, hoe⟩ := List.mem_map.mp hpr
                    obtain ⟨k, hk⟩ := aliasIdx_pkgExports hinv' hpi hpd3 hai
                    obtain ⟨k', hk'⟩ := argIdx_imports hsi (by rw [pkgOf_congr hpk]; exact hs) hargi
                    rw [← hoe] at hk hk'
                    exact ⟨p, hp, plugD, hpd0, o, ho, pi, j, idx, k, k', hpi, hk, hk', hedge, hkind⟩
                · intro x hx
                  rcases hx3 x hx with h' | h'
                  · have := hx2 x h'
                    rw [a.exports] at this
                    exact Or.inl this
                  · exact Or.inr h'

/-- `only_offers_passed`: after a successful `plug`, nothing but the offers is passed to the socket
    instantiation — every edge into it is the argument edge, at the index of socket import `o.1`,
    from the alias of export `o.2` of an instantiation of a plug that offers `(o.1, o.2)` -/
theorem only_offers_passed (ctx : Ctx) (g : Graph) (h : Inv ctx g) (plugs : List PkgId) (socket : PkgId)
    (socketD : PkgDef) (hs : g.pkgOf socket = .ok socketD) (hok : (plug ctx g plugs socket).2 = .ok) :
    ∀ e ∈ (plug ctx g plugs socket).1.edges, e.dst = g.fresh.node →
      ∃ p ∈ plugs, ∃ plugD, g.pkgOf p = .ok plugD ∧ ∃ o ∈ offers ctx socketD plugD,
        ∃ pi j idx k k', InstOf (plug ctx g plugs socket).1 pi p ∧
          alFull (ctx.pkgExports plugD) o.2 = some (j, k) ∧ alFull socketD.imports o.1 = some (idx, k') ∧
          (⟨pi, e.src, .alias j⟩ : Edge) ∈ (plug ctx g plugs socket).1.edges ∧ e.kind = .arg idx :=
  (plug_post ctx g h plugs socket socketD hs hok).2.2.2.1

-- non-vacuity: a successful plug; the only edge into the socket instantiation (node 0) is the offer
example : (plug ctxP (run ctxP {} [.register socketP, .register plugP]).1 [⟨1, 0⟩] ⟨0, 0⟩).2 = .ok ∧
    (run ctxP {} [.register socketP, .register plugP]).1.fresh.node = 0 ∧
    ((plug ctxP (run ctxP {} [.register socketP, .register plugP]).1 [⟨1, 0⟩] ⟨0, 0⟩).1.edges.filter
      (fun e => e.dst == 0)) = [⟨2, 0, .arg 0⟩] := by decide

/-- `unmatched_stay_imports`: after a successful `plug`, a socket import (at index `idx`, name
    `nm`, kind `k`) that no plug of the list offers anything for has no argument edge at the
    socket instantiation, and is an (implicit) import of the result: `imports()` lists it -/
theorem unmatched_stay_imports (ctx : Ctx) (g : Graph) (h : Inv ctx g) (plugs : List PkgId) (socket : PkgId)
    (socketD : PkgDef) (hs : g.pkgOf socket = .ok socketD) (hok : (plug ctx g plugs socket).2 = .ok)
    (idx : Nat) (nm : Str) (k : Kind) (himp : socketD.imports[idx]? = some (nm, k))
    (hun : ∀ p ∈ plugs, ∀ plugD, g.pkgOf p = .ok plugD → ∀ o ∈ offers ctx socketD plugD,
      ∀ k', alFull socketD.imports o.1 ≠ some (idx, k')) :
    (∀ e ∈ (plug ctx g plugs socket).1.edges, ¬ (e.dst = g.fresh.node ∧ e.kind = .arg idx)) ∧
    ∃ l, importsQuery (plug ctx g plugs socket).1 = .ok l ∧ (nm, k, none) ∈ l := by
  have hinv' := plug_inv h plugs socket
  obtain ⟨_, hsi, hpk, honly, _⟩ := plug_post ctx g h plugs socket socketD hs hok
  generalize (plug ctx g plugs socket).1 = g' at hinv' hsi hpk honly ⊢
  have hno : ∀ e ∈ g'.edges, ¬ (e.dst = g.fresh.node ∧ e.kind = .arg idx) := by
    rintro e he ⟨hd, hk⟩
    obtain ⟨p, hp, plugD, hpd, o, ho, pi, j, idx', k1, k2, _, _, hfull, _, hkind⟩ := honly e he hd
    rw [hk] at hkind
    cases hkind
    exact hun p hp plugD hpd o ho k2 hfull
  refine ⟨hno, (abs g').importsQuery, importsQuery_abs hinv', ?_⟩
  obtain ⟨x, hx, hinst, hpkg⟩ := hsi
  unfold Abs.importsQuery
  apply List.mem_append_left
  rw [List.mem_flatMap]
  refine ⟨g.fresh.node, ?_, ?_⟩
  · rw [← nodeIds_abs]
    exact mem_nodeIds.mpr (live_iff.mpr ⟨x, hx⟩)
  · unfold Abs.implicitImports
    rw [abs_node_some hx]
    simp only
    rw [abs_isInst, hinst]
    simp only [↓reduceIte]
    have hip : (abs g').instPkg x.abs = some socketD := by
      unfold Abs.instPkg
      have : x.abs.pkg = some socket := hpkg
      rw [this]
      show (g'.pkgOf socket).toOption = some socketD
      rw [pkgOf_congr hpk, hs]; rfl
    rw [hip]
    simp only
    rw [List.mem_filterMap]
    refine ⟨(idx, (nm, k)), mem_zip_range _ himp, ?_⟩
    simp only
    have : ((abs g').arg g.fresh.node idx).isSome = false := by
      cases hq : ((abs g').arg g.fresh.node idx).isSome with
      | false => rfl
      | true =>
        exfalso
        have hq' : (argOfE g'.edges g.fresh.node idx).isSome = true := hq
        obtain ⟨e, he, hd, hk⟩ := argOfE_isSome.mp hq'
        exact hno e he ⟨hd, hk⟩
    rw [this]
    rfl

-- non-vacuity: the socket import `b` (index 1) is offered by nobody and stays an import
example : importsQuery (plug ctxP (run ctxP {} [.register socketP, .register plugP]).1 [⟨1, 0⟩] ⟨0, 0⟩).1 =
    .ok [(['b'], 0, none)] := by decide
example : ∀ o ∈ offers ctxP socketP plugP, ∀ k', alFull socketP.imports o.1 ≠ some (1, k') := by
  have h1 : offers ctxP socketP plugP = [(['a'], ['a'])] := by decide
  have h2 : alFull socketP.imports ['a'] = some (0, 0) := by decide
  rw [h1]
  intro o ho k'
  simp only [List.mem_cons, List.not_mem_nil, or_false] at ho
  subst ho
  rw [h2]
  simp

/-- `plug_result_exports`: after a successful `plug` every socket export is exported under its
    own name (from the socket instantiation `g.fresh.node`, by `socket_exports_reexported`'s
    alias edge), and nothing else is exported: every entry of the export map is an entry the graph
    had before or carries the name of a socket export — on a graph without exports (only
    registered packages, as `plug` is used) the exported names are exactly the socket's -/
theorem plug_result_exports (ctx : Ctx) (g : Graph) (h : Inv ctx g) (plugs : List PkgId) (socket : PkgId)
    (socketD : PkgDef) (hs : g.pkgOf socket = .ok socketD) (hok : (plug ctx g plugs socket).2 = .ok) :
    (∀ nm ∈ (ctx.pkgExports socketD).map (·.1), ∃ a, getExport (plug ctx g plugs socket).1 nm = some a) ∧
    (∀ x ∈ (plug ctx g plugs socket).1.exports, x ∈ g.exports ∨ x.1 ∈ (ctx.pkgExports socketD).map (·.1)) ∧
    (g.exports = [] → ∀ nm, (getExport (plug ctx g plugs socket).1 nm).isSome = true ↔
      nm ∈ (ctx.pkgExports socketD).map (·.1)) := by
  obtain ⟨_, _, _, _, hexp⟩ := plug_post ctx g h plugs socket socketD hs hok
  obtain ⟨si, nd, _, _, _, _, hre⟩ := socket_exports_reexported ctx g h plugs socket socketD hs hok
  have h1 : ∀ nm ∈ (ctx.pkgExports socketD).map (·.1), ∃ a, getExport (plug ctx g plugs socket).1 nm = some a := by
    intro nm hnm
    obtain ⟨a, _, _, hget, _⟩ := hre nm hnm
    exact ⟨a, hget⟩
  refine ⟨h1, hexp, ?_⟩
  intro hempty nm
  constructor
  · intro hsome
    cases hq : getExport (plug ctx g plugs socket).1 nm with
    | none => rw [hq] at hsome; cases hsome
    | some a =>
      rcases hexp (nm, a) (alGet_eq_some_mem hq) with h' | h'
      · rw [hempty] at h'; cases h'
      · exact h'
  · intro hnm
    obtain ⟨a, ha⟩ := h1 nm hnm
    rw [ha]; rfl

-- non-vacuity: a socket with an export `a`; the result exports exactly `a`
example : (plug ctxP (run ctxP {} [.register plugP, .register ⟨['t'], none, [(['a'], 0)], 2⟩]).1
    [⟨0, 0⟩] ⟨1, 0⟩).1.exports.map (·.1) = [['a']] := by decide

end Wac.Props.C10Post
