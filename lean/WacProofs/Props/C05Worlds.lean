import WacProofs.Lemmas.ElabWorldEx
import WacProofs.Props.C05
/-
  C05 — WIT declarations in WAC mean what WIT means: `elab_denotes` for **worlds**.

  Model: `Wac.Elab.elabPkg` (WacModel/Elab.lean: `world_decl`, `world_items`, `world_item_path`,
  `world_include`, `use_type`, `item_type_decl`, `inline_interface` of resolution.rs).
  Specification: `Wac.Spec.Wit.denotePkg` / `denoteWorld` / `includeInto` (WacModel/Spec/Wit.lean).

  Full statement (`elab_denotes`):
    ∀ p T env, elabPkg p = .ok T → denotePkg deps 0 p = some env →
      (∀ k-th interface (n, items) of p:  T.unfold (.instance k) ≃ .instance (env.ifaces n)) ∧
      (∀ k-th world (n, items) of p:  the explicit imports / exports of T.worlds[k] ≃ env.worlds n)
  where `≃` is the comparison of the driver (`canonN`: exports in any order, resources identified
  nominally) and `deps` the interfaces of the packages the source refers to.

  Proved here, for **single-package sources** (`deps = []`), every kind of interface item and every
  kind of world item:
    * `elab_denotes_worlds_partial` — every interface unfolds to its denoted instance type and every
      world to its denoted component type: the same import names and the same export names in
      declaration order (included items after the world's own, renamed once per item on the import
      and on the export side), each with the denoted type, all up to one injective renaming `ρ` of
      the resource leaves (specification: number of the declaration; arena: root resource) — so
      two leaves are the same resource in the arena exactly when they are in the specification, across
      imports, exports, inline interfaces, used and included items.  This is stronger than the
      driver's `≃` on two counts (order kept; identity instead of names).  Default fuel.
    * `elab_denotes_worlds_canon` — the executable form: the trees are equal after first-occurrence
      numbering of the resource leaves (`Spec.Decode.canon`).
    * per fragment, in the order the fragments were attacked (each is the theorem above restricted
      to the fragment, next to an example of the fragment, plus what is specific to it):
        1. `elab_denotes_worlds_funcs_inline_partial` (`import f: func(…)`, `export g: func(…)`,
           `import i: interface {…}`, `export i: interface {…}`), `world_func_item_denotes`,
           `world_inline_item_denotes`;
        2. `elab_denotes_worlds_named_partial` (+ `import ifc;` / `export ifc;`), `world_named_item`:
           the item is keyed by the id of the interface and *is* the declared interface (the same
           arena index — the instance tree of `elab_denotes_interfaces_partial`);
        3. `elab_denotes_worlds_types_partial` (+ world-level `use ifc.{t as u}`, records, variants,
           enums, flags, aliases, resources), `world_use_preserves_identity`: the used type is the
           same arena item, imported under the local name, provenance `(interface, original name
           iff renamed)` recorded (the implicit interface import of the encoder is derived from it);
        4. `include w2;` / `include w2 with { a as b }`: `world_include_is_includeInto`,
           `include_elab_keeps_own`, `include_elab_adds_renamed`, `include_elab_keeps_ids` (the
           model-side images of the specification theorems `include_keeps_own`, `include_adds_renamed`,
           `include_keeps_ids` of Props/C05.lean).
  Hypotheses (all hold of WIT-valid packages): `hkeys` (names and ids of the interfaces pairwise
  distinct), `hnd` (export names of every interface pairwise distinct), `pkgWorldsFreshB p`
  (specification side: no world-level `use` / type declaration / resource function re-declares a
  name the world already imports; export names of every inline interface pairwise distinct).
  What `pkgWorldsFreshB` excludes: a world-level type declared under the name of an earlier
  function / interface import (`world w { import f: func(); enum f { a } }`).  WIT rejects it, so it
  is outside the property's quantifier; the model `Elab.itemTypeDecl` overwrites the import there
  (`alInsert`) while the real `item_type_decl` / `resource_decl` trip `assert!(prev.is_none())` —
  a panic of the resolver on an invalid text, reported in notes/C05-worlds.md (a C14 matter).
  Missing for the full statement: sources that refer to other packages (`resolve_package_path`
  decodes a dependency — C08's model, `decode_tree`).
-/
namespace Wac.Props.C05Worlds
open Wac Wac.Elab Wac.Spec.Wit Wac.Decode Wac.Props.C05

/-! ### the theorem -/

/-- **elab_denotes** (single-package sources; interfaces and worlds with *all* kinds of items:
function and inline-interface imports/exports, named interface imports/exports, world-level `use`
and type / resource declarations, `include … with`).  For every declared world, in order, the
world the resolver allocates unfolds — default fuel — to the component type the WIT specification
denotes, up to the injective renaming `ρ` of resource leaves: the same explicit import names and
the same export names in order, each item with the denoted type, the same resource identities
(`ρ` is one renaming for the whole package: interfaces and worlds share it).  The world is
recorded under the id of the package version (`p.idOf`).  The interfaces are covered as in
`elab_denotes_interfaces_partial` (which asked for `p.worlds = []`). -/
theorem elab_denotes_worlds_partial (p : Pkg) (T : Types) (env : Env)
    (h : elabPkg p = .ok T) (hd : denotePkg [] 0 p = some env)
    (hkeys : (p.ifaces.flatMap (fun ni => [ni.1, p.idOf ni.1])).Nodup)
    (hnd : ∀ nx ∈ env.ifaces, (nx.2.map (·.1)).Nodup)
    (hfresh : pkgWorldsFreshB p = true) :
    ∃ (ρ : Nat → Res) (resI : List (Nat × List (Str × Tree))) (resW : List (Nat × WorldD)),
      (∀ a b, (ρ a).idx = (ρ b).idx → a = b) ∧
      resI.length = p.ifaces.length ∧ resW.length = p.worlds.length ∧
      env.ifaces = (List.zip p.ifaces resI).flatMap (fun x => [(x.1.1, x.2.2), (p.idOf x.1.1, x.2.2)]) ∧
      env.worlds = (List.zip p.worlds resW).map (fun x => (x.1.1, x.2.2)) ∧
      (∀ ie ∈ resI, T.unfold (.instance ie.1) = some (renT ρ (.instance (Forest.ofList ie.2)))) ∧
      (∀ we ∈ resW, T.unfold (.component we.1) =
        some (renT ρ (.component (Forest.ofList we.2.imports) (Forest.ofList we.2.exports)))) ∧
      (∀ (k : Nat) (nw : Str × List WItem) (we : Nat × WorldD), p.worlds[k]? = some nw → resW[k]? = some we →
        ∃ wd, T.worlds[we.1]? = some wd ∧ wd.id = some (p.idOf nw.1)) :=
  elabPkgAll_ok p T env h hd hkeys hnd hfresh

/-- the same in executable form: after numbering the resource leaves in order of first occurrence
(`Spec.Decode.canon`, which is what "equal up to an injective renaming" computes to) the world of
the arena and the denoted world are the *same tree* — names, order, sorts, signatures, value
types, nesting, resource identity. -/
theorem elab_denotes_worlds_canon (p : Pkg) (T : Types) (env : Env)
    (h : elabPkg p = .ok T) (hd : denotePkg [] 0 p = some env)
    (hkeys : (p.ifaces.flatMap (fun ni => [ni.1, p.idOf ni.1])).Nodup)
    (hnd : ∀ nx ∈ env.ifaces, (nx.2.map (·.1)).Nodup)
    (hfresh : pkgWorldsFreshB p = true) :
    ∃ (resW : List (Nat × WorldD)), resW.length = p.worlds.length ∧
      env.worlds = (List.zip p.worlds resW).map (fun x => (x.1.1, x.2.2)) ∧
      ∀ we ∈ resW, (T.unfold (.component we.1)).map Wac.Spec.Decode.canon =
        some (Wac.Spec.Decode.canon (.component (Forest.ofList we.2.imports) (Forest.ofList we.2.exports))) := by
  obtain ⟨ρ, _, resW, hinj, _, hl, _, hw, _, hall, _⟩ := elab_denotes_worlds_partial p T env h hd hkeys hnd hfresh
  exact ⟨resW, hl, hw, fun we hwe => canon_of_ren hinj (hall we hwe)⟩

/-! ### example package -/

/-- the interfaces
```
interface a { resource r { constructor(); m: func(); }  enum e { x, y }  type h = r; }
interface b { use a.{r as q, e};  flags fl { u, v }  g: func(); }
``` -/
def exIfaces : List (Str × List Item) :=
  [ ("a".toList,
      [ .resource "r".toList [.ctor [], .method "m".toList false { params := [], result := none }],
        .enum "e".toList ["x".toList, "y".toList],
        .alias "h".toList (.id "r".toList) ]),
    ("b".toList,
      [ .use "a".toList [("r".toList, some "q".toList), ("e".toList, none)],
        .flags "fl".toList ["u".toList, "v".toList],
        .func "g".toList { params := [], result := none } ]) ]

/-- fragment 1:
```
world base { import f: func();  export f: func();
             import inl: interface { resource s { constructor(); }  k: func(); }
             export out: interface { enum z { p, q } } }
```
(`f` is both imported and exported: separate name spaces) -/
def exBase : Str × List WItem :=
  ("base".toList,
    [ .externFunc true "f".toList { params := [], result := none },
      .externFunc false "f".toList { params := [], result := none },
      .externIface true "inl".toList
        [ .resource "s".toList [.ctor []], .func "k".toList { params := [], result := none } ],
      .externIface false "out".toList [ .enum "z".toList ["p".toList, "q".toList] ] ])

/-- fragment 2: `world named { import a;  export b; }` -/
def exNamed : Str × List WItem :=
  ("named".toList, [ .externPath true "a".toList, .externPath false "b".toList ])

/-- fragment 3:
```
world tys { use a.{r as rr, e};  flags wf { c, d }
            resource wr { constructor(); sm: static func(); }  type al = rr;  export run: func(); }
``` -/
def exTys : Str × List WItem :=
  ("tys".toList,
    [ .item (.use "a".toList [("r".toList, some "rr".toList), ("e".toList, none)]),
      .item (.flags "wf".toList ["c".toList, "d".toList]),
      .item (.resource "wr".toList [.ctor [], .method "sm".toList true { params := [], result := none }]),
      .item (.alias "al".toList (.id "rr".toList)),
      .externFunc false "run".toList { params := [], result := none } ])

/-- fragment 4:
```
world inc { import own: func();  include base with { f as g, inl as inl2 };
            include named;  include tys with { e as e2 }; }
```
(`f` of `base` is imported *and* exported: both are renamed to `g`) -/
def exInc : Str × List WItem :=
  ("inc".toList,
    [ .externFunc true "own".toList { params := [], result := none },
      .include "base".toList [("f".toList, "g".toList), ("inl".toList, "inl2".toList)],
      .include "named".toList [],
      .include "tys".toList [("e".toList, "e2".toList)] ])

/-- `package t:p@1.2.0;` with the two interfaces and the four worlds -/
def exW : Pkg :=
  { name := "t:p".toList, version := some "1.2.0".toList, ifaces := exIfaces,
    worlds := [exBase, exNamed, exTys, exInc] }

/-- non-vacuity of `elab_denotes_worlds_partial` / `_canon`: `exW` is elaborated and denoted and
meets every hypothesis -/
example : ∃ T env, elabPkg exW = .ok T ∧ denotePkg [] 0 exW = some env ∧
    (exW.ifaces.flatMap (fun ni => [ni.1, exW.idOf ni.1])).Nodup ∧
    (∀ nx ∈ env.ifaces, (nx.2.map (·.1)).Nodup) ∧ pkgWorldsFreshB exW = true :=
  worldHyps_of_B exW (by decide +kernel)

/-- the conclusion on `exW`, evaluated: the four worlds of the arena unfold to the four denoted
component types (equal after first-occurrence numbering of the resources) -/
example : worldConclB exW = true := by decide +kernel

/-- … and the names: the included items come after the world's own, `f` ↦ `g` on both sides,
`inl` ↦ `inl2`, the interface ids are kept, the used type `e` of `tys` arrives as `e2` -/
example : worldNames exW 3 =
    some (["own", "g", "inl2", "t:p/a@1.2.0", "rr", "e2", "wf", "wr", "[constructor]wr", "[static]wr.sm", "al"],
          ["g", "out", "t:p/b@1.2.0", "run"]) := by decide +kernel

/-! ### fragment 1: function and inline-interface imports / exports -/

/-- items of fragment 1 -/
def isFuncOrInline : WItem → Bool
  | .externFunc _ _ _ | .externIface _ _ _ => true
  | _ => false

/-- **fragment 1** — worlds whose items are `import f: func(…)`, `export g: func(…)`,
`import i: interface {…}`, `export i: interface {…}`: `T.unfold (component w)` is `denote`'s world
tree — the same explicit import and export names in declaration order, each function with the
denoted signature, each inline interface with the denoted instance type (its resources fresh, the
same identities inside and outside the interface). -/
theorem elab_denotes_worlds_funcs_inline_partial (p : Pkg) (T : Types) (env : Env)
    (_hfrag : ∀ nw ∈ p.worlds, ∀ wi ∈ nw.2, isFuncOrInline wi = true)
    (h : elabPkg p = .ok T) (hd : denotePkg [] 0 p = some env)
    (hkeys : (p.ifaces.flatMap (fun ni => [ni.1, p.idOf ni.1])).Nodup)
    (hnd : ∀ nx ∈ env.ifaces, (nx.2.map (·.1)).Nodup)
    (hfresh : pkgWorldsFreshB p = true) :
    ∃ (ρ : Nat → Res) (resW : List (Nat × WorldD)),
      (∀ a b, (ρ a).idx = (ρ b).idx → a = b) ∧ resW.length = p.worlds.length ∧
      env.worlds = (List.zip p.worlds resW).map (fun x => (x.1.1, x.2.2)) ∧
      ∀ we ∈ resW, T.unfold (.component we.1) =
        some (renT ρ (.component (Forest.ofList we.2.imports) (Forest.ofList we.2.exports))) := by
  obtain ⟨ρ, _, resW, hinj, _, hl, _, hw, _, hall, _⟩ := elab_denotes_worlds_partial p T env h hd hkeys hnd hfresh
  exact ⟨ρ, resW, hinj, hl, hw, hall⟩

/-- non-vacuity: the package `world base {…}` is in the fragment and meets the hypotheses -/
example : (∀ nw ∈ ({ name := "t:p".toList, worlds := [exBase] } : Pkg).worlds, ∀ wi ∈ nw.2, isFuncOrInline wi = true) ∧
    ∃ T env, elabPkg { name := "t:p".toList, worlds := [exBase] } = .ok T ∧
      denotePkg [] 0 { name := "t:p".toList, worlds := [exBase] } = some env ∧
      (({ name := "t:p".toList, worlds := [exBase] } : Pkg).ifaces.flatMap
        (fun ni => [ni.1, ({ name := "t:p".toList, worlds := [exBase] } : Pkg).idOf ni.1])).Nodup ∧
      (∀ nx ∈ env.ifaces, (nx.2.map (·.1)).Nodup) ∧
      pkgWorldsFreshB { name := "t:p".toList, worlds := [exBase] } = true :=
  ⟨by decide, worldHyps_of_B _ (by decide +kernel)⟩

/-- the conclusion, evaluated; the world imports `f`, `inl` and exports `f`, `out`, in this order -/
example : worldConclB { name := "t:p".toList, worlds := [exBase] } = true ∧
    worldNames { name := "t:p".toList, worlds := [exBase] } 0 = some (["f", "inl"], ["f", "out"]) := by
  decide +kernel

/-- one `import f: func(…)` / `export f: func(…)` item (relative to the simulation of the scopes
and of the two lists built so far): the function type the resolver allocates unfolds to the denoted
signature, and the item is *appended* under its name to the imports resp. exports. -/
theorem world_func_item_denotes {ρ : Nat → Res} {st st1 : Elab.St} {wd wd1 : World} {imp : Bool} {n : Str} {sg : Sig}
    (h : worldItems st [.externFunc imp n sg] wd = .ok (st1, wd1))
    (s : Scope) (imps exps : List (Str × Tree)) (t : Tree) (ht : sigTree s [] sg none = some t)
    (hsim : Sim ρ st.types st.scope s.binds)
    (hI : ExpRel ρ st.types wd.imports imps) (hE : ExpRel ρ st.types wd.exports exps) :
    Sim ρ st1.types st1.scope s.binds ∧
    ExpRel ρ st1.types wd1.imports (if imp then imps ++ [(n, t)] else imps) ∧
    ExpRel ρ st1.types wd1.exports (if imp then exps else exps ++ [(n, t)]) := by
  rw [worldItems_single] at h
  obtain ⟨f, hf, hcase⟩ := worldStep_externFunc h
  obtain ⟨g1, _, _, k1⟩ := funcPush_ok hf
  obtain ⟨hsim1, kp⟩ := k1 ρ s t hsim ht
  rcases hcase with ⟨rfl, hfr, rfl⟩ | ⟨rfl, hfr, rfl⟩
  · simp only [if_true]
    have := kp _ _ n hI hfr
    rw [addIfAbsent_fresh _ _ _ (hI.get_none n hfr)] at this
    exact ⟨hsim1, this, hE.mono g1⟩
  · simp only [Bool.false_eq_true, if_false]
    have := kp _ _ n hE hfr
    rw [addIfAbsent_fresh _ _ _ (hE.get_none n hfr)] at this
    exact ⟨hsim1, hI.mono g1, this⟩

/-- non-vacuity: `import f: func();` into the empty world -/
example : (match worldItems {} [.externFunc true "f".toList { params := [], result := none }] {} with
      | .ok (_, wd1) => wd1.imports == [("f".toList, .func 0)]
      | .error _ => false) = true ∧
    sigTree {} [] { params := [], result := none } none = some (.func false .nil .none) :=
  ⟨by decide +kernel, by decide +kernel⟩

/-- one `import i: interface {…}` / `export i: interface {…}` item: the inline interface the
resolver allocates unfolds to the denoted instance type (exports in declaration order, its
resources numbered from `next`), and the item is appended under its name. -/
theorem world_inline_item_denotes {st st1 : Elab.St} {wd wd1 : World} {imp : Bool} {n : Str} {items : List Item}
    (h : worldItems st [.externIface imp n items] wd = .ok (st1, wd1))
    (ifaces : List (Str × List (Str × Tree))) (next next' : Nat) (ex : List (Str × Tree))
    (hden : denoteItems [] ifaces next items = some (next', ex)) (hnd : (ex.map (·.1)).Nodup) :
    ∃ newR : List Nat, next' = next + newR.length ∧
      ∀ (ρ : Nat → Res) (RL : List Nat) (imps exps : List (Str × Tree)), RL.length = next →
        ConsE ρ (RL ++ newR) st1.types → RootSim ρ st.types st.root ifaces →
        ExpRel ρ st.types wd.imports imps → ExpRel ρ st.types wd.exports exps →
        ExpRel ρ st1.types wd1.imports (if imp then imps ++ [(n, .instance (Forest.ofList ex))] else imps) ∧
        ExpRel ρ st1.types wd1.exports (if imp then exps else exps ++ [(n, .instance (Forest.ofList ex))]) := by
  rw [worldItems_single] at h
  obtain ⟨i, hdec, hcase⟩ := worldStep_externIface h
  obtain ⟨g1, _, _, k1⟩ := ifacePush_ok hdec
  obtain ⟨newR, hn, _, _, kk⟩ := k1 ifaces next next' ex hden
  refine ⟨newR, hn, ?_⟩
  intro ρ RL imps exps hRL hcons hrs hI hE
  have kp := kk ρ RL hRL hcons hrs hnd
  rcases hcase with ⟨rfl, hfr, rfl⟩ | ⟨rfl, hfr, rfl⟩
  · simp only [if_true]
    have := kp _ _ n hI hfr
    rw [addIfAbsent_fresh _ _ _ (hI.get_none n hfr)] at this
    exact ⟨this, hE.mono g1⟩
  · simp only [Bool.false_eq_true, if_false]
    have := kp _ _ n hE hfr
    rw [addIfAbsent_fresh _ _ _ (hE.get_none n hfr)] at this
    exact ⟨hI.mono g1, this⟩

/-- non-vacuity: `export out: interface { enum z { p, q } }` into the empty world -/
example : (match worldItems {} [.externIface false "out".toList [.enum "z".toList ["p".toList, "q".toList]]] {} with
      | .ok (_, wd1) => wd1.exports == [("out".toList, .instance 0)]
      | .error _ => false) = true ∧
    denoteItems [] [] 0 [.enum "z".toList ["p".toList, "q".toList]] =
      some (0, [("z".toList, .type (.enum ["p".toList, "q".toList]))]) :=
  ⟨by decide +kernel, by decide +kernel⟩

/-! ### fragment 2: named interface items -/

/-- items of fragments 1–2 -/
def isExtern : WItem → Bool
  | .externFunc _ _ _ | .externIface _ _ _ | .externPath _ _ => true
  | _ => false

/-- **fragment 2** — additionally `import ifc;` / `export ifc;`: the world imports / exports the
interface under its id with the instance tree `elab_denotes_interfaces_partial` gives the
interface (`resI` and `resW` are related by `env`: `denoteWorld` looks the interface up in
`env.ifaces`, and `ρ` is the same renaming for both). -/
theorem elab_denotes_worlds_named_partial (p : Pkg) (T : Types) (env : Env)
    (_hfrag : ∀ nw ∈ p.worlds, ∀ wi ∈ nw.2, isExtern wi = true)
    (h : elabPkg p = .ok T) (hd : denotePkg [] 0 p = some env)
    (hkeys : (p.ifaces.flatMap (fun ni => [ni.1, p.idOf ni.1])).Nodup)
    (hnd : ∀ nx ∈ env.ifaces, (nx.2.map (·.1)).Nodup)
    (hfresh : pkgWorldsFreshB p = true) :
    ∃ (ρ : Nat → Res) (resI : List (Nat × List (Str × Tree))) (resW : List (Nat × WorldD)),
      (∀ a b, (ρ a).idx = (ρ b).idx → a = b) ∧
      resI.length = p.ifaces.length ∧ resW.length = p.worlds.length ∧
      env.ifaces = (List.zip p.ifaces resI).flatMap (fun x => [(x.1.1, x.2.2), (p.idOf x.1.1, x.2.2)]) ∧
      env.worlds = (List.zip p.worlds resW).map (fun x => (x.1.1, x.2.2)) ∧
      (∀ ie ∈ resI, T.unfold (.instance ie.1) = some (renT ρ (.instance (Forest.ofList ie.2)))) ∧
      (∀ we ∈ resW, T.unfold (.component we.1) =
        some (renT ρ (.component (Forest.ofList we.2.imports) (Forest.ofList we.2.exports)))) := by
  obtain ⟨ρ, resI, resW, hinj, hlI, hlW, hi, hw, hallI, hallW, _⟩ :=
    elab_denotes_worlds_partial p T env h hd hkeys hnd hfresh
  exact ⟨ρ, resI, resW, hinj, hlI, hlW, hi, hw, hallI, hallW⟩

/-- non-vacuity: interfaces `a`, `b` and the worlds `base`, `named` -/
example : (∀ nw ∈ ({ name := "t:p".toList, ifaces := exIfaces, worlds := [exBase, exNamed] } : Pkg).worlds,
      ∀ wi ∈ nw.2, isExtern wi = true) ∧
    worldHypsB { name := "t:p".toList, ifaces := exIfaces, worlds := [exBase, exNamed] } = true ∧
    worldConclB { name := "t:p".toList, ifaces := exIfaces, worlds := [exBase, exNamed] } = true ∧
    worldNames { name := "t:p".toList, ifaces := exIfaces, worlds := [exBase, exNamed] } 1 =
      some (["t:p/a"], ["t:p/b"]) :=
  ⟨by decide, by decide +kernel, by decide +kernel, by decide +kernel⟩

/-- `import ifc;` / `export ifc;`: the item is keyed by the *id* the resolver gave the interface
when it was declared and refers to the declared interface itself (arena index `i` of the root
scope entry) — hence to the instance tree of the interface theorem; nothing is allocated. -/
theorem world_named_item {st st1 : Elab.St} {wd wd1 : World} {imp : Bool} {path : Str}
    (h : worldItems st [.externPath imp path] wd = .ok (st1, wd1)) :
    st1 = st ∧ ∃ i itf id, alGet st.root path = some (.iface i) ∧ st.types.interfaces[i]? = some itf ∧
      itf.id = some id ∧
      ((imp = true ∧ alGet wd.imports id = none ∧ wd1 = { wd with imports := wd.imports ++ [(id, .instance i)] }) ∨
       (imp = false ∧ alGet wd.exports id = none ∧ wd1 = { wd with exports := wd.exports ++ [(id, .instance i)] })) := by
  rw [worldItems_single] at h
  obtain ⟨hst, i, itf, id, h1, h2, h3, hcase⟩ := worldStep_externPath h
  refine ⟨hst, i, itf, id, h1, h2, h3, ?_⟩
  rcases hcase with ⟨hi, hfr, rfl⟩ | ⟨hi, hfr, rfl⟩
  · exact Or.inl ⟨hi, hfr, by rw [alInsert_fresh _ _ _ (alGet_none_not_mem _ _ hfr)]⟩
  · exact Or.inr ⟨hi, hfr, by rw [alInsert_fresh _ _ _ (alGet_none_not_mem _ _ hfr)]⟩

/-- a state in which interface 0 — exporting the resource `r` — is declared as `i` with id `a:b/i` -/
def exSt : Elab.St :=
  { types := { resources := [{ name := "r".toList }],
               interfaces := [{ id := some "a:b/i".toList, exports := [("r".toList, .type (.resource 0))] }] },
    root := [("i".toList, .iface 0)] }

/-- non-vacuity: `import i;` -/
example : (match worldItems exSt [.externPath true "i".toList] {} with
    | .ok (_, wd1) => wd1 == { imports := [("a:b/i".toList, .instance 0)] }
    | .error _ => false) = true := by decide +kernel

/-! ### fragment 3: world-level `use` and type declarations -/

/-- items of fragments 1–3 -/
def isNotInclude : WItem → Bool
  | .include _ _ => false
  | _ => true

/-- **fragment 3** — additionally world-level `use ifc.{t as u}` and world-level type
declarations (records, variants, enums, flags, aliases, resources with constructors / methods /
statics): each is a *type import* of the world under the local name (the resource functions
`[constructor]r`, `[method]r.m`, `[static]r.s` are imports too), a used type with the identity it
has in the interface (the same `ρ`-leaf), a declared resource with a fresh one. -/
theorem elab_denotes_worlds_types_partial (p : Pkg) (T : Types) (env : Env)
    (_hfrag : ∀ nw ∈ p.worlds, ∀ wi ∈ nw.2, isNotInclude wi = true)
    (h : elabPkg p = .ok T) (hd : denotePkg [] 0 p = some env)
    (hkeys : (p.ifaces.flatMap (fun ni => [ni.1, p.idOf ni.1])).Nodup)
    (hnd : ∀ nx ∈ env.ifaces, (nx.2.map (·.1)).Nodup)
    (hfresh : pkgWorldsFreshB p = true) :
    ∃ (ρ : Nat → Res) (resI : List (Nat × List (Str × Tree))) (resW : List (Nat × WorldD)),
      (∀ a b, (ρ a).idx = (ρ b).idx → a = b) ∧
      resI.length = p.ifaces.length ∧ resW.length = p.worlds.length ∧
      env.ifaces = (List.zip p.ifaces resI).flatMap (fun x => [(x.1.1, x.2.2), (p.idOf x.1.1, x.2.2)]) ∧
      env.worlds = (List.zip p.worlds resW).map (fun x => (x.1.1, x.2.2)) ∧
      (∀ ie ∈ resI, T.unfold (.instance ie.1) = some (renT ρ (.instance (Forest.ofList ie.2)))) ∧
      (∀ we ∈ resW, T.unfold (.component we.1) =
        some (renT ρ (.component (Forest.ofList we.2.imports) (Forest.ofList we.2.exports)))) := by
  obtain ⟨ρ, resI, resW, hinj, hlI, hlW, hi, hw, hallI, hallW, _⟩ :=
    elab_denotes_worlds_partial p T env h hd hkeys hnd hfresh
  exact ⟨ρ, resI, resW, hinj, hlI, hlW, hi, hw, hallI, hallW⟩

/-- non-vacuity: interfaces `a`, `b` and the worlds `base`, `named`, `tys`; in `tys` the used
resource `rr` and its alias `al` are the resource `r` of interface `a` (arena root 0; the arena has
the roots `r` (0), `s` of `inl` (2) and `wr` (3)), the declared `wr` is a fresh one -/
example : (∀ nw ∈ ({ name := "t:p".toList, ifaces := exIfaces, worlds := [exBase, exNamed, exTys] } : Pkg).worlds,
      ∀ wi ∈ nw.2, isNotInclude wi = true) ∧
    worldHypsB { name := "t:p".toList, ifaces := exIfaces, worlds := [exBase, exNamed, exTys] } = true ∧
    worldConclB { name := "t:p".toList, ifaces := exIfaces, worlds := [exBase, exNamed, exTys] } = true ∧
    worldNames { name := "t:p".toList, ifaces := exIfaces, worlds := [exBase, exNamed, exTys] } 2 =
      some (["rr", "e", "wf", "wr", "[constructor]wr", "[static]wr.sm", "al"], ["run"]) ∧
    (match elabPkg { name := "t:p".toList, ifaces := exIfaces, worlds := [exBase, exNamed, exTys] } with
      | .ok T => (match T.unfold (.component 2) with
        | some (.component i _) =>
          i.toList.map (fun nt => match nt.2 with | .type (.resource r) => some r.idx | _ => none) ==
            [some 0, none, none, some 3, none, none, some 0]
        | _ => false)
      | .error _ => false) = true :=
  ⟨by decide, by decide +kernel, by decide +kernel, by decide +kernel, by decide +kernel⟩

/-- **world-level `use` preserves identity**: `use i.{n as m}` in a world imports the *same arena
item* as `i`'s export `n` under the local name, records the provenance `(i, original name iff
renamed)` — from which the encoder derives the implicit import of `i` — and allocates nothing. -/
theorem world_use_preserves_identity (st st1 : Elab.St) (wd wd1 : World) (path n : Str) (as_ : Option Str) (i : Nat)
    (itf : Interface) (t : Ty)
    (hroot : alGet st.root path = some (.iface i)) (hitf : st.types.interfaces[i]? = some itf)
    (hexp : alGet itf.exports n = some (.type t)) (hval : (∃ r, t = .resource r) ∨ (∃ v, t = .value v))
    (h : worldItems st [.item (.use path [(n, as_)])] wd = .ok (st1, wd1)) :
    alGet wd1.imports (as_.getD n) = some (.type t) ∧
    alGet wd1.uses (as_.getD n) = some { interface := i, name := as_.map fun _ => n } ∧
    alGet st1.scope (as_.getD n) = some (.ty t) ∧ st1.types = st.types ∧ wd1.exports = wd.exports := by
  rw [worldItems_single] at h
  simp only [worldStep] at h
  split at h
  · rename_i st2 uses imports hu
    cases h
    obtain ⟨h1, h2, h3, h4⟩ := use_preserves_identity st _ path n as_ i itf t wd.uses _ wd.imports _ hroot hitf hexp hval hu
    exact ⟨h1, h2, h3, h4, rfl⟩
  · cases h

/-- non-vacuity: `use i.{r as q};` in a world, `i` exports the resource `r` -/
example : (match worldItems exSt [.item (.use "i".toList [("r".toList, some "q".toList)])] {} with
    | .ok (_, wd1) => wd1 == { imports := [("q".toList, .type (.resource 0))],
                               uses := [("q".toList, { interface := 0, name := some "r".toList })] }
    | .error _ => false) = true := by decide +kernel

/-! ### fragment 4: `include` -/

/-- **`include w2 with { a as b, … }` is `includeInto`** (relative to the simulation of the
including world's lists and of the worlds declared so far): the included world `w2` is known to
the specification, and the imports and the exports of the world after the include correspond —
item by item, in order — to `includeInto` of the denotations: every item of `w2` the world does
not have yet, a plain name renamed by the `with` list *once* (`alGet withs n`, not transitively),
on the import side **and** on the export side (a name of `w2` that is both imported and exported is
renamed in both lists), an interface id never; names already present keep the including world's
own item.  Success of the model excludes a clash of a (renamed) plain name
(`WorldIncludeConflict`). -/
theorem world_include_is_includeInto {ρ : Nat → Res} {st : Elab.St} {wn : Str} {withs : List (Str × Str)} {wd wd' : World}
    (h : worldInclude st wn withs wd = .ok wd')
    (worlds : List (Str × WorldD)) (imps exps : List (Str × Tree))
    (hws : WorldSim ρ st.types st.root worlds)
    (hI : ExpRel ρ st.types wd.imports imps) (hE : ExpRel ρ st.types wd.exports exps) :
    wd'.id = wd.id ∧ ∃ dW, alGet worlds wn = some dW ∧
      ExpRel ρ st.types wd'.imports (includeInto imps dW.imports withs) ∧
      ExpRel ρ st.types wd'.exports (includeInto exps dW.exports withs) :=
  ⟨(worldInclude_ok h).1, (worldInclude_ok h).2 ρ worlds imps exps hws hI hE⟩

/-- a state in which the world `base` (arena index 0) imports and exports a function `a` -/
def exStW : Elab.St :=
  { types := { funcs := [{}, {}, {}],
               worlds := [{ id := some "t:p/base".toList, imports := [("a".toList, .func 0)],
                            exports := [("a".toList, .func 1)] }] },
    root := [("base".toList, .world 0)] }

/-- non-vacuity (model side): `include base with { a as b }` into a world that imports `own`
renames the import and the export -/
example : (match worldInclude exStW "base".toList [("a".toList, "b".toList)] { imports := [("own".toList, .func 2)] } with
    | .ok wd1 => wd1 == { imports := [("own".toList, .func 2), ("b".toList, .func 0)],
                          exports := [("b".toList, .func 1)] }
    | .error _ => false) = true := by decide +kernel

/-- the model-side image of `include_keeps_own`: an item the including world has keeps its name
and its type through an include. -/
theorem include_elab_keeps_own {ρ : Nat → Res} {st : Elab.St} {wn : Str} {withs : List (Str × Str)} {wd wd' : World}
    (h : worldInclude st wn withs wd = .ok wd')
    (worlds : List (Str × WorldD)) (imps exps : List (Str × Tree))
    (hws : WorldSim ρ st.types st.root worlds)
    (hI : ExpRel ρ st.types wd.imports imps) (hE : ExpRel ρ st.types wd.exports exps)
    (n : Str) (t : Tree) (hown : alGet imps n = some t) :
    ∃ k, alGet wd'.imports n = some k ∧ HK [] [] st.types (kb st.types) k (renT ρ t) := by
  obtain ⟨_, dW, _, h1, _⟩ := world_include_is_includeInto h worlds imps exps hws hI hE
  have hspec := include_keeps_own imps dW.imports withs n t hown
  rcases h1.get n with ⟨_, hnone⟩ | ⟨k, t', hk, ht', hkk, _⟩
  · rw [hspec] at hnone; cases hnone
  · rw [hspec] at ht'; cases ht'
    exact ⟨k, hk, hkk⟩

/-- the model-side image of `include_adds_renamed`: the one plain import `n` of the included
world arrives under its replacement `m` with its type. -/
theorem include_elab_adds_renamed {ρ : Nat → Res} {st : Elab.St} {wn : Str} {withs : List (Str × Str)} {wd wd' : World}
    (h : worldInclude st wn withs wd = .ok wd')
    (worlds : List (Str × WorldD)) (imps exps : List (Str × Tree))
    (hws : WorldSim ρ st.types st.root worlds)
    (hI : ExpRel ρ st.types wd.imports imps) (hE : ExpRel ρ st.types wd.exports exps)
    (dW : WorldD) (hdW : alGet worlds wn = some dW) (n : Str) (t : Tree) (hone : dW.imports = [(n, t)])
    (hplain : n.contains ':' = false) (m : Str) (hw : alGet withs n = some m) (hfree : alGet imps m = none) :
    ∃ k, alGet wd'.imports m = some k ∧ HK [] [] st.types (kb st.types) k (renT ρ t) := by
  obtain ⟨_, dW', hdW', h1, _⟩ := world_include_is_includeInto h worlds imps exps hws hI hE
  rw [hdW] at hdW'; cases hdW'
  rw [hone] at h1
  have hspec := include_adds_renamed imps withs n t hplain m hw hfree
  rcases h1.get m with ⟨_, hnone⟩ | ⟨k, t', hk, ht', hkk, _⟩
  · rw [hspec] at hnone; cases hnone
  · rw [hspec] at ht'; cases ht'
    exact ⟨k, hk, hkk⟩

/-- the model-side image of `include_keeps_ids`: the one interface import of the included world
(keyed by an id) arrives under the same id, whatever the `with` list says. -/
theorem include_elab_keeps_ids {ρ : Nat → Res} {st : Elab.St} {wn : Str} {withs : List (Str × Str)} {wd wd' : World}
    (h : worldInclude st wn withs wd = .ok wd')
    (worlds : List (Str × WorldD)) (imps exps : List (Str × Tree))
    (hws : WorldSim ρ st.types st.root worlds)
    (hI : ExpRel ρ st.types wd.imports imps) (hE : ExpRel ρ st.types wd.exports exps)
    (dW : WorldD) (hdW : alGet worlds wn = some dW) (n : Str) (t : Tree) (hone : dW.imports = [(n, t)])
    (hid : n.contains ':' = true) (hfree : alGet imps n = none) :
    ∃ k, alGet wd'.imports n = some k ∧ HK [] [] st.types (kb st.types) k (renT ρ t) := by
  obtain ⟨_, dW', hdW', h1, _⟩ := world_include_is_includeInto h worlds imps exps hws hI hE
  rw [hdW] at hdW'; cases hdW'
  rw [hone] at h1
  have hspec := include_keeps_ids imps withs n t hid hfree
  rcases h1.get n with ⟨_, hnone⟩ | ⟨k, t', hk, ht', hkk, _⟩
  · rw [hspec] at hnone; cases hnone
  · rw [hspec] at ht'; cases ht'
    exact ⟨k, hk, hkk⟩

end Wac.Props.C05Worlds
