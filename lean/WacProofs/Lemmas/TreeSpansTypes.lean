import WacProofs.Lemmas.TreeSpansParse
/-
  C14 (tree spans), layer 4a: types, declarations, interfaces, worlds and import statements — one
  `t_parseXxx` per parse function: on success the state invariant holds and every span of the
  tree is in the source (leaves: the span is the byte range of the spelling).
-/
namespace Wac.Lemmas.TreeSpans
open Wac Wac.Ast Wac.Lex Wac.Parse Wac.Lemmas Wac.Lemmas.LexSpans Wac.Lemmas.ParseSpans Wac.Spec.TreeSpans

theorem t_parseType {src} : ∀ (fuel : Nat) (st : PState), TInv src st → GoodT src (parseType fuel st) := by
  intro fuel
  induction fuel with
  | zero => intro st hi; exact goodT_err
  | succ fuel ih =>
    intro st hi
    unfold parseType
    tree_tac [ih]
macro_rules | `(tactic| tree_lemma) => `(tactic| exact t_parseType _ _ (by tinv_tac))

theorem t_parseNamedType {src fuel st} (hi : TInv src st) : GoodT src (parseNamedType fuel st) := by
  unfold parseNamedType
  tree_tac
macro_rules | `(tactic| tree_lemma) => `(tactic| exact t_parseNamedType (by tinv_tac))

theorem t_parseResultList {src fuel st} (hi : TInv src st) : GoodT src (parseResultList fuel st) := by
  unfold parseResultList
  tree_tac
macro_rules | `(tactic| tree_lemma) => `(tactic| exact t_parseResultList (by tinv_tac))

theorem t_parseFuncType {src fuel st} (hi : TInv src st) : GoodT src (parseFuncType fuel st) := by
  unfold parseFuncType
  tree_tac
macro_rules | `(tactic| tree_lemma) => `(tactic| exact t_parseFuncType (by tinv_tac))

theorem t_parseFuncTypeRef {src fuel st} (hi : TInv src st) : GoodT src (parseFuncTypeRef fuel st) := by
  unfold parseFuncTypeRef
  tree_tac
macro_rules | `(tactic| tree_lemma) => `(tactic| exact t_parseFuncTypeRef (by tinv_tac))

theorem t_parseConstructor {src fuel st} (hi : TInv src st) : GoodT src (parseConstructor fuel st) := by
  unfold parseConstructor
  tree_tac
macro_rules | `(tactic| tree_lemma) => `(tactic| exact t_parseConstructor (by tinv_tac))

theorem t_parseMethod {src fuel st} (hi : TInv src st) : GoodT src (parseMethod fuel st) := by
  unfold parseMethod
  tree_tac
macro_rules | `(tactic| tree_lemma) => `(tactic| exact t_parseMethod (by tinv_tac))

theorem t_parseResourceMethod {src fuel st} (hi : TInv src st) : GoodT src (parseResourceMethod fuel st) := by
  unfold parseResourceMethod
  tree_tac
macro_rules | `(tactic| tree_lemma) => `(tactic| exact t_parseResourceMethod (by tinv_tac))

theorem t_parseResourceDecl {src fuel st} (hi : TInv src st) : GoodT src (parseResourceDecl fuel st) := by
  unfold parseResourceDecl
  tree_tac
macro_rules | `(tactic| tree_lemma) => `(tactic| exact t_parseResourceDecl (by tinv_tac))

theorem t_parseVariantCase {src fuel st} (hi : TInv src st) : GoodT src (parseVariantCase fuel st) := by
  unfold parseVariantCase
  tree_tac
macro_rules | `(tactic| tree_lemma) => `(tactic| exact t_parseVariantCase (by tinv_tac))

theorem t_parseVariantDecl {src fuel st} (hi : TInv src st) : GoodT src (parseVariantDecl fuel st) := by
  unfold parseVariantDecl
  tree_tac
macro_rules | `(tactic| tree_lemma) => `(tactic| exact t_parseVariantDecl (by tinv_tac))

theorem t_parseField {src fuel st} (hi : TInv src st) : GoodT src (parseField fuel st) := by
  unfold parseField
  dsimp only
  apply goodT_bind (t_parseNamedType hi)
  rintro ⟨n, st'⟩ h1 h2
  refine goodT_ok h1 ?_
  simp_all [SpanOK.ok, Field.spansIn, NamedType.spansIn, parseDocs_ok]
macro_rules | `(tactic| tree_lemma) => `(tactic| exact t_parseField (by tinv_tac))

theorem t_parseRecordDecl {src fuel st} (hi : TInv src st) : GoodT src (parseRecordDecl fuel st) := by
  unfold parseRecordDecl
  tree_tac
macro_rules | `(tactic| tree_lemma) => `(tactic| exact t_parseRecordDecl (by tinv_tac))

theorem t_parseFlag {src st} (hi : TInv src st) : GoodT src (parseFlag st) := by
  unfold parseFlag
  tree_tac
macro_rules | `(tactic| tree_lemma) => `(tactic| exact t_parseFlag (by tinv_tac))

theorem t_parseFlagsDecl {src fuel st} (hi : TInv src st) : GoodT src (parseFlagsDecl fuel st) := by
  unfold parseFlagsDecl
  tree_tac
macro_rules | `(tactic| tree_lemma) => `(tactic| exact t_parseFlagsDecl (by tinv_tac))

theorem t_parseEnumCase {src st} (hi : TInv src st) : GoodT src (parseEnumCase st) := by
  unfold parseEnumCase
  tree_tac
macro_rules | `(tactic| tree_lemma) => `(tactic| exact t_parseEnumCase (by tinv_tac))

theorem t_parseEnumDecl {src fuel st} (hi : TInv src st) : GoodT src (parseEnumDecl fuel st) := by
  unfold parseEnumDecl
  tree_tac
macro_rules | `(tactic| tree_lemma) => `(tactic| exact t_parseEnumDecl (by tinv_tac))

theorem t_parseTypeAliasKind {src fuel st} (hi : TInv src st) : GoodT src (parseTypeAliasKind fuel st) := by
  unfold parseTypeAliasKind
  tree_tac
macro_rules | `(tactic| tree_lemma) => `(tactic| exact t_parseTypeAliasKind (by tinv_tac))

theorem t_parseTypeAlias {src fuel st} (hi : TInv src st) : GoodT src (parseTypeAlias fuel st) := by
  unfold parseTypeAlias
  tree_tac
macro_rules | `(tactic| tree_lemma) => `(tactic| exact t_parseTypeAlias (by tinv_tac))

theorem t_parseTypeDecl {src fuel st} (hi : TInv src st) : GoodT src (parseTypeDecl fuel st) := by
  unfold parseTypeDecl
  tree_tac
macro_rules | `(tactic| tree_lemma) => `(tactic| exact t_parseTypeDecl (by tinv_tac))

theorem t_parseItemTypeDecl {src fuel st} (hi : TInv src st) : GoodT src (parseItemTypeDecl fuel st) := by
  unfold parseItemTypeDecl
  tree_tac
macro_rules | `(tactic| tree_lemma) => `(tactic| exact t_parseItemTypeDecl (by tinv_tac))

theorem t_parseUsePath {src st} (hi : TInv src st) : GoodT src (parseUsePath st) := by
  unfold parseUsePath
  tree_tac
macro_rules | `(tactic| tree_lemma) => `(tactic| exact t_parseUsePath (by tinv_tac))

theorem t_parseUseItem {src st} (hi : TInv src st) : GoodT src (parseUseItem st) := by
  unfold parseUseItem
  tree_tac
macro_rules | `(tactic| tree_lemma) => `(tactic| exact t_parseUseItem (by tinv_tac))

theorem t_parseUse {src fuel st} (hi : TInv src st) : GoodT src (parseUse fuel st) := by
  unfold parseUse
  tree_tac
macro_rules | `(tactic| tree_lemma) => `(tactic| exact t_parseUse (by tinv_tac))

theorem t_parseInterfaceExport {src fuel st} (hi : TInv src st) : GoodT src (parseInterfaceExport fuel st) := by
  unfold parseInterfaceExport
  tree_tac
macro_rules | `(tactic| tree_lemma) => `(tactic| exact t_parseInterfaceExport (by tinv_tac))

theorem t_parseInterfaceItem {src fuel st} (hi : TInv src st) : GoodT src (parseInterfaceItem fuel st) := by
  unfold parseInterfaceItem
  tree_tac
macro_rules | `(tactic| tree_lemma) => `(tactic| exact t_parseInterfaceItem (by tinv_tac))

theorem t_parseInterfaceDecl {src fuel st} (hi : TInv src st) : GoodT src (parseInterfaceDecl fuel st) := by
  unfold parseInterfaceDecl
  tree_tac
macro_rules | `(tactic| tree_lemma) => `(tactic| exact t_parseInterfaceDecl (by tinv_tac))

theorem t_parseInlineInterface {src fuel st} (hi : TInv src st) : GoodT src (parseInlineInterface fuel st) := by
  unfold parseInlineInterface
  tree_tac
macro_rules | `(tactic| tree_lemma) => `(tactic| exact t_parseInlineInterface (by tinv_tac))

theorem t_parseExternType {src fuel st} (hi : TInv src st) : GoodT src (parseExternType fuel st) := by
  unfold parseExternType
  tree_tac
macro_rules | `(tactic| tree_lemma) => `(tactic| exact t_parseExternType (by tinv_tac))

theorem t_parseNamedWorldItem {src fuel st} (hi : TInv src st) : GoodT src (parseNamedWorldItem fuel st) := by
  unfold parseNamedWorldItem
  tree_tac
macro_rules | `(tactic| tree_lemma) => `(tactic| exact t_parseNamedWorldItem (by tinv_tac))

theorem t_parseWorldItemPath {src fuel st} (hi : TInv src st) : GoodT src (parseWorldItemPath fuel st) := by
  unfold parseWorldItemPath
  tree_tac
macro_rules | `(tactic| tree_lemma) => `(tactic| exact t_parseWorldItemPath (by tinv_tac))

theorem t_parseWorldImport {src fuel st} (hi : TInv src st) : GoodT src (parseWorldImport fuel st) := by
  unfold parseWorldImport
  tree_tac
macro_rules | `(tactic| tree_lemma) => `(tactic| exact t_parseWorldImport (by tinv_tac))

theorem t_parseWorldExport {src fuel st} (hi : TInv src st) : GoodT src (parseWorldExport fuel st) := by
  unfold parseWorldExport
  tree_tac
macro_rules | `(tactic| tree_lemma) => `(tactic| exact t_parseWorldExport (by tinv_tac))

theorem t_parseWorldRef {src st} (hi : TInv src st) : GoodT src (parseWorldRef st) := by
  unfold parseWorldRef
  tree_tac
macro_rules | `(tactic| tree_lemma) => `(tactic| exact t_parseWorldRef (by tinv_tac))

theorem t_parseWorldIncludeItem {src st} (hi : TInv src st) : GoodT src (parseWorldIncludeItem st) := by
  unfold parseWorldIncludeItem
  tree_tac
macro_rules | `(tactic| tree_lemma) => `(tactic| exact t_parseWorldIncludeItem (by tinv_tac))

theorem t_parseWorldInclude {src fuel st} (hi : TInv src st) : GoodT src (parseWorldInclude fuel st) := by
  unfold parseWorldInclude
  tree_tac
macro_rules | `(tactic| tree_lemma) => `(tactic| exact t_parseWorldInclude (by tinv_tac))

theorem t_parseWorldItem {src fuel st} (hi : TInv src st) : GoodT src (parseWorldItem fuel st) := by
  unfold parseWorldItem
  tree_tac
macro_rules | `(tactic| tree_lemma) => `(tactic| exact t_parseWorldItem (by tinv_tac))

theorem t_parseWorldDecl {src fuel st} (hi : TInv src st) : GoodT src (parseWorldDecl fuel st) := by
  unfold parseWorldDecl
  tree_tac
macro_rules | `(tactic| tree_lemma) => `(tactic| exact t_parseWorldDecl (by tinv_tac))

theorem t_parseTypeStatement {src fuel st} (hi : TInv src st) : GoodT src (parseTypeStatement fuel st) := by
  unfold parseTypeStatement
  tree_tac
macro_rules | `(tactic| tree_lemma) => `(tactic| exact t_parseTypeStatement (by tinv_tac))

theorem t_parseExternName {src st} (hi : TInv src st) : GoodT src (parseExternName st) := by
  unfold parseExternName
  tree_tac
macro_rules | `(tactic| tree_lemma) => `(tactic| exact t_parseExternName (by tinv_tac))

theorem t_parseImportType {src fuel st} (hi : TInv src st) : GoodT src (parseImportType fuel st) := by
  unfold parseImportType
  tree_tac
macro_rules | `(tactic| tree_lemma) => `(tactic| exact t_parseImportType (by tinv_tac))

theorem t_parseImportStatement {src fuel st} (hi : TInv src st) : GoodT src (parseImportStatement fuel st) := by
  unfold parseImportStatement
  tree_tac
macro_rules | `(tactic| tree_lemma) => `(tactic| exact t_parseImportStatement (by tinv_tac))

end Wac.Lemmas.TreeSpans
