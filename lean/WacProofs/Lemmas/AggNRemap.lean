import WacProofs.Lemmas.AggNest
/-
  C09 general theorems, part 17: `remap_interface` / `remap_item_kind` on NESTED anonymous source
  interfaces (no `uses`, no id; exports are functions, values and instances of such interfaces):
  a fresh frozen copy with the same tree is appended; nothing that exists is touched.
-/
namespace Wac.AggP
open Wac Wac.Spec

/-- source interfaces of the nested fragment, up to nesting depth `d` -/
def SrcOK (types : Types) : Nat → Nat → Prop
  | 0, _ => False
  | d + 1, i => ∃ si, types.interfaces[i]? = some si ∧ si.uses = [] ∧ si.id = none ∧
      ∀ x : Str × ItemKind, x ∈ si.exports → LeafK x.2 ∨ ∃ b t, x.2 = wrapK b t ∧ SrcOK types d t

/-- source kinds of the nested fragment -/
def SrcK (types : Types) (d : Nat) (k : ItemKind) : Prop := LeafK k ∨ ∃ b t, k = wrapK b t ∧ SrcOK types d t

/-- a generalisation of `mapMList_inv` in which the monotonicity of the per-element
postcondition may use the invariant -/
theorem mapMList_inv' {α β : Type} {f : α → AggM β} {I : AggState → Prop} {R : AggState → AggState → Prop}
    {Q : AggState → α → β → Prop}
    (hrefl : ∀ s, R s s) (htrans : ∀ s s' s'', R s s' → R s' s'' → R s s'')
    (hmono : ∀ s s' a b, I s → R s s' → Q s a b → Q s' a b) :
    ∀ (l : List α), (∀ a ∈ l, ∀ s b s', I s → f a s = .ok (b, s') → I s' ∧ R s s' ∧ Q s' a b) →
      ∀ s bs s', I s → mapMList f l s = .ok (bs, s') → I s' ∧ R s s' ∧ All2 (Q s') l bs
  | [], _, s, bs, s', hI, h => by
    simp only [mapMList, run_pure, Except.ok.injEq, Prod.mk.injEq] at h
    obtain ⟨rfl, rfl⟩ := h
    exact ⟨hI, hrefl _, .nil⟩
  | a :: l, hf, s, bs, s', hI, h => by
    simp only [mapMList, bind_ok, run_pure, Except.ok.injEq, Prod.mk.injEq] at h
    obtain ⟨b, s1, h1, bs', s2, h2, rfl, rfl⟩ := h
    obtain ⟨hI1, hR1, hQ1⟩ := hf a List.mem_cons_self s b s1 hI h1
    obtain ⟨hI2, hR2, hQ2⟩ := mapMList_inv' hrefl htrans hmono l (fun a' ha' => hf a' (List.mem_cons_of_mem _ ha')) s1 bs' s2 hI1 h2
    exact ⟨hI2, htrans _ _ _ hR1 hR2, .cons (hmono _ _ _ _ hI1 hR2 hQ1) hQ2⟩

/-- what a nested remap may change: arenas grow, interfaces are appended, nothing existing changes -/
structure NRStep (u : Nat) (s s' : AggState) : Prop where
  ext : Ext s.agg.types s'.agg.types
  len : s.agg.types.interfaces.length ≤ s'.agg.types.interfaces.length
  same : ∀ j, j < s.agg.types.interfaces.length → s'.agg.types.interfaces[j]? = s.agg.types.interfaces[j]?
  worlds : s'.agg.types.worlds = s.agg.types.worlds
  modules : s'.agg.types.modules = s.agg.types.modules
  chk : s'.chk = s.chk
  cfg : s'.cfg = s.cfg
  imports : s'.agg.imports = s.agg.imports
  imap : s'.agg.interfaces = s.agg.interfaces
  redirects : s'.agg.redirects = s.agg.redirects
  keys : ∀ g, g.ty.hasId = true → (alGet s'.agg.remapped g).isSome = true →
    (alGet s.agg.remapped g).isSome = true ∨ g.uid = u

theorem NRStep.refl (u : Nat) (s : AggState) : NRStep u s s :=
  ⟨Ext.refl _, Nat.le_refl _, fun _ _ => rfl, rfl, rfl, rfl, rfl, rfl, rfl, rfl, fun _ _ h => .inl h⟩

theorem NRStep.trans {u : Nat} {s s' s'' : AggState} (h1 : NRStep u s s') (h2 : NRStep u s' s'') : NRStep u s s'' :=
  ⟨h1.ext.trans h2.ext, Nat.le_trans h1.len h2.len,
    fun j hj => (h2.same j (Nat.lt_of_lt_of_le hj h1.len)).trans (h1.same j hj),
    h2.worlds.trans h1.worlds, h2.modules.trans h1.modules, h2.chk.trans h1.chk, h2.cfg.trans h1.cfg,
    h2.imports.trans h1.imports, h2.imap.trans h1.imap, h2.redirects.trans h1.redirects, fun g hid h => by
      rcases h2.keys g hid h with h | h
      · exact h1.keys g hid h
      · exact .inr h⟩

theorem NRStep.frame {u : Nat} {s s' : AggState} (h : NRStep u s s') (S : Nat → Prop) :
    Frame S s.agg.types s'.agg.types := ⟨h.ext, h.len, fun j hj _ => h.same j hj⟩

theorem Step.toNRStep {u : Nat} {s s' : AggState} (h : Step u s s') : NRStep u s s' :=
  ⟨h.ext, by rw [h.ifaces], fun j _ => by rw [h.ifaces], h.worlds, h.modules, h.chk, h.cfg, h.imports, h.imap,
    h.redirects, fun g _ hg => h.keys g hg⟩

/-- invariant of the state during nested remaps of the contributor `types` -/
structure NI (W : Colls) (types : Types) (S : Nat → Prop) (s : AggState) : Prop where
  ainv : AInv W s
  iwf : IWF s.agg.types S
  sb : ∀ j, S j → j < s.agg.types.interfaces.length
  ik : ∀ i i', alGet s.agg.remapped (GTy.mk' types (.interface i)) = some (.interface i') →
    ¬ S i' ∧ i' < s.agg.types.interfaces.length ∧
      ∀ t, HasTree types (.instance i) t → HasTree s.agg.types (.instance i') t
  ish : ∀ i ty, alGet s.agg.remapped (GTy.mk' types (.interface i)) = some ty → ∃ i', ty = .interface i'

/-- the copy `k'` is frozen and unfolds to whatever `k` unfolds to -/
def PostNK (types : Types) (S : Nat → Prop) (s' : AggState) (k k' : ItemKind) : Prop :=
  FrozenK s'.agg.types S k' ∧ ∀ t, HasTree types k t → HasTree s'.agg.types k' t

theorem HasTree.frame {S : Nat → Prop} {T T' : Types} {k : ItemKind} {t : Tree} (hw : IWF T S) (hf : Frame S T T')
    (hk : FrozenK T S k) (h : HasTree T k t) : HasTree T' k t := by
  obtain ⟨n, hn⟩ := h; exact ⟨n, unfold_frame hw hf n k t hk hn⟩

theorem PostNK.mono {W : Colls} {types : Types} {S : Nat → Prop} {u : Nat} {s s' : AggState} {k k' : ItemKind}
    (hI : NI W types S s) (h : NRStep u s s') (hp : PostNK types S s k k') : PostNK types S s' k k' :=
  ⟨hp.1.frame (h.frame S), fun t ht => (hp.2 t ht).frame hI.iwf (h.frame S) hp.1⟩

/-- the `type` export of an interface has the tree of the instance, under `type` -/
theorem hasTree_type_iff (T : Types) (i : Nat) (t : Tree) :
    HasTree T (.type (.interface i)) t ↔ ∃ t0, t = .type t0 ∧ HasTree T (.instance i) t0 := by
  constructor
  · rintro ⟨n, hn⟩
    cases n with
    | zero => simp [Types.unfoldKind] at hn
    | succ n =>
      simp only [Types.unfoldKind] at hn
      cases hi : T.interfaces[i]? with
      | none => simp [hi] at hn
      | some itf =>
        simp only [hi] at hn
        obtain ⟨F, hF, rfl⟩ := Option.map_eq_some_iff.1 hn
        exact ⟨.instance F, rfl, n + 1, by simp only [Types.unfoldKind, hi, hF, Option.map_some]⟩
  · rintro ⟨t0, rfl, n, hn⟩
    cases n with
    | zero => simp [Types.unfoldKind] at hn
    | succ n =>
      simp only [Types.unfoldKind] at hn
      cases hi : T.interfaces[i]? with
      | none => simp [hi] at hn
      | some itf =>
        simp only [hi] at hn
        obtain ⟨F, hF, rfl⟩ := Option.map_eq_some_iff.1 hn
        exact ⟨n + 1, by simp only [Types.unfoldKind, hi, hF, Option.map_some]⟩

theorem postNK_type {types : Types} {S : Nat → Prop} {s' : AggState} {i i' : Nat}
    (h : PostNK types S s' (.instance i) (.instance i')) : PostNK types S s' (.type (.interface i)) (.type (.interface i')) := by
  obtain ⟨hf, ht⟩ := h
  refine ⟨?_, fun t ht0 => ?_⟩
  · rcases hf with h | ⟨b, t, h1, h2, h3⟩
    · cases h
    · obtain ⟨rfl, rfl⟩ := wrapK_inj (b := false) h1
      exact .inr ⟨true, _, rfl, h2, h3⟩
  · obtain ⟨t0, rfl, h0⟩ := (hasTree_type_iff types i t).1 ht0
    exact (hasTree_type_iff _ i' _).2 ⟨t0, rfl, ht t0 h0⟩

section nremap
variable {W : Colls} {types : Types} (hW : W.mem types) (hs : Sane types) {S : Nat → Prop}
include hW hs

omit hs in
/-- a leaf remap keeps the nested invariant -/
theorem ni_of_step {s s' : AggState} (hI : NI W types S s) (hr : RInv W s') (hst : Step types.uid s s') :
    NI W types S s' := by
  have hish : ∀ i ty, alGet s'.agg.remapped (GTy.mk' types (.interface i)) = some ty → ∃ i', ty = .interface i' := by
    intro i ty hg
    have hg' : alGet s.agg.remapped (GTy.mk' types (.interface i)) = some ty := by
      have := hst.ikeys (GTy.mk' types (.interface i)).uid i
      simp only [GTy.mk'] at this hg ⊢
      rw [← this]; exact hg
    exact hI.ish i ty hg'
  refine ⟨⟨hr, by rw [hst.chk]; exact hI.ainv.cinv.ext hst.ext, hst.ext.resources.trans hI.ainv.nores⟩, ?_, ?_, ?_, hish⟩
  · intro j itf hj x hx
    rw [hst.ifaces] at hj
    have := hI.iwf j itf hj x hx
    rcases this with h | ⟨b, t, h1, h2, h3⟩
    · exact .inl h
    · exact .inr ⟨b, t, h1, h2, by rw [hst.ifaces]; exact h3⟩
  · intro j hj; rw [hst.ifaces]; exact hI.sb j hj
  · intro i i' hg
    have hg' : alGet s.agg.remapped (GTy.mk' types (.interface i)) = some (.interface i') := by
      have := hst.ikeys (GTy.mk' types (.interface i)).uid i
      simp only [GTy.mk'] at this hg ⊢
      rw [← this]; exact hg
    obtain ⟨a, b, c⟩ := hI.ik i i' hg'
    refine ⟨a, by rw [hst.ifaces]; exact b, fun t ht => ?_⟩
    exact (c t ht).frame hI.iwf (hst.toNRStep.frame S) (.inr ⟨false, i', rfl, a, b⟩)

/-- the spec of `remap_interface` at a given fuel -/
def IfaceSpec (W : Colls) (types : Types) (S : Nat → Prop) (f : Nat) : Prop :=
  ∀ d id s id' s', NI W types S s → SrcOK types d id → remapInterface f types id s = .ok (id', s') →
    NI W types S s' ∧ NRStep types.uid s s' ∧ PostNK types S s' (.instance id) (.instance id') ∧
      (alGet s.agg.remapped (GTy.mk' types (.interface id)) = none →
        id' + 1 = s'.agg.types.interfaces.length ∧ IWF s'.agg.types (fun j => S j ∨ j = id'))

/-- the spec of `remap_item_kind` on source kinds of the nested fragment -/
def KindSpec (W : Colls) (types : Types) (S : Nat → Prop) (f : Nat) : Prop :=
  ∀ d k s k' s', NI W types S s → SrcK types d k → remapKind f types k s = .ok (k', s') →
    NI W types S s' ∧ NRStep types.uid s s' ∧ PostNK types S s' k k'

theorem kindSpec_succ (f : Nat) (hi : IfaceSpec W types S f) : KindSpec W types S (f + 1) := by
  intro d k s k' s' hI hk h
  rcases hk with hk | ⟨w, t, rfl, hsrc⟩
  · obtain ⟨a, b, c1, c2⟩ := remapKind_leaf_spec hW hs (f + 1) k hk s k' s' hI.ainv.rinv h
    refine ⟨ni_of_step hW hI a b, b.toNRStep, .inl c1, fun t ht => ⟨_, c2 t ht⟩⟩
  · cases w with
    | false =>
      simp only [wrapK, remapKind, bind_ok, run_pure, Except.ok.injEq, Prod.mk.injEq] at h
      obtain ⟨id', s1, h1, rfl, rfl⟩ := h
      obtain ⟨a, b, c, _⟩ := hi d t s id' s1 hI hsrc h1
      exact ⟨a, b, c⟩
    | true =>
      simp only [wrapK, remapKind, bind_ok, run_pure, Except.ok.injEq, Prod.mk.injEq] at h
      obtain ⟨id', s1, h1, rfl, rfl⟩ := h
      obtain ⟨a, b, c, _⟩ := hi d t s id' s1 hI hsrc h1
      exact ⟨a, b, postNK_type c⟩

omit hW hs in
theorem unfoldItems_of_all2' {types T : Types} {S : Nat → Prop} :
    ∀ {E E' : List (Str × ItemKind)},
      All2 (fun (a b : Str × ItemKind) => b.1 = a.1 ∧ FrozenK T S b.2 ∧
        ∀ t, HasTree types a.2 t → HasTree T b.2 t) E E' →
      ∀ N G, unfoldItems (types.unfoldKind N) E = some G →
        (∃ M, unfoldItems (T.unfoldKind M) E' = some G) ∧ ∀ x, x ∈ E' → FrozenK T S x.2
  | _, _, .nil, N, G, hG => by
    simp only [unfoldItems, Option.some.injEq] at hG
    subst hG
    exact ⟨⟨0, rfl⟩, fun x hx => by cases hx⟩
  | _, _, .cons (a := a) (b := b) (l := l) (l' := l') hq hr, N, G, hG => by
    obtain ⟨na, ka⟩ := a
    obtain ⟨nb, kb⟩ := b
    obtain ⟨hn, hl, hu⟩ := hq
    simp only at hn hl hu
    subst hn
    obtain ⟨t, G', h1, h2, rfl⟩ := unfoldItems_cons nb ka l G hG
    obtain ⟨⟨M, ih1⟩, ih2⟩ := unfoldItems_of_all2' hr N G' h2
    obtain ⟨M', hM'⟩ := hu t ⟨N, h1⟩
    refine ⟨⟨max M M', ?_⟩, ?_⟩
    · simp only [unfoldItems, unfoldKind_mono T (Nat.le_max_right M M') _ _ hM',
        unfoldItems_fuel_mono (Nat.le_max_left M M') ih1]
    · intro x hx
      rcases List.mem_cons.1 hx with rfl | hx
      · exact hl
      · exact ih2 x hx

theorem ifaceSpec_succ (f : Nat) (hk : KindSpec W types S f) : IfaceSpec W types S (f + 1) := by
  intro d id s id' s' hI hsrc h
  cases d with
  | zero => exact hsrc.elim
  | succ d =>
    obtain ⟨si, hsi, huses, hid, hexp⟩ := hsrc
    rw [remapInterface] at h
    simp only [hsi, bind_ok, run_pure, run_getAgg, Except.ok.injEq, Prod.mk.injEq] at h
    obtain ⟨_, _, ⟨rfl, rfl⟩, _, _, ⟨rfl, rfl⟩, h⟩ := h
    simp only [hid, run_remappedGet, bind_ok, Except.ok.injEq, Prod.mk.injEq] at h
    obtain ⟨_, _, ⟨rfl, rfl⟩, h⟩ := h
    cases hg : alGet s.agg.remapped (GTy.mk' types (.interface id)) with
    | some ty =>
      rw [hg] at h
      cases ty with
      | interface i' =>
        simp only [run_pure, Except.ok.injEq, Prod.mk.injEq] at h
        obtain ⟨rfl, rfl⟩ := h
        obtain ⟨a, b, c⟩ := hI.ik id i' hg
        exact ⟨hI, NRStep.refl _ _, ⟨.inr ⟨false, i', rfl, a, b⟩, c⟩, fun hn => by cases hn⟩
      | _ => simp [run_apanic] at h
    | none =>
      rw [hg] at h
      cases f with
      | zero => simp only [remapUses, bind_ok, run_apanic, reduceCtorEq, false_and, exists_false] at h
      | succ f =>
      simp only [huses, remapUses, mapMList, bind_ok, run_pure, run_getAgg, run_modifyTypes, run_remappedInsertNew,
        Except.ok.injEq, Prod.mk.injEq] at h
      obtain ⟨_, _, ⟨rfl, rfl⟩, E', s2, hmap, _, _, ⟨rfl, rfl⟩, _, s3, ⟨_, rfl⟩, _, s4, hins, rfl, rfl⟩ := h
      split at hins
      · cases hins
      · simp only [Except.ok.injEq, Prod.mk.injEq, true_and] at hins
        subst hins
        -- the exports are copied one by one
        obtain ⟨hI2, hst2, hall⟩ := mapMList_inv' (I := NI W types S) (R := NRStep types.uid)
          (Q := fun s (a b : Str × ItemKind) => b.1 = a.1 ∧ PostNK types S s a.2 b.2) (NRStep.refl _)
          (fun _ _ _ => NRStep.trans)
          (by intro s s' a b hI0 hst ⟨h1, h2⟩; exact ⟨h1, h2.mono hI0 hst⟩)
          si.exports
          (by
            intro a ha s b s' hI0 h0
            simp only [bind_ok, run_pure, Except.ok.injEq, Prod.mk.injEq] at h0
            obtain ⟨kb, s1, h1, rfl, rfl⟩ := h0
            have := hk d a.2 s kb s1 hI0 (hexp a ha) h1
            exact ⟨this.1, this.2.1, rfl, this.2.2⟩)
          s E' s2 hI hmap
        -- the final state: the new interface is appended and recorded
        have hall' : All2 (fun (a b : Str × ItemKind) => b.1 = a.1 ∧ FrozenK s2.agg.types S b.2 ∧
            ∀ t, HasTree types a.2 t → HasTree s2.agg.types b.2 t) si.exports E' :=
          hall.mono (fun a b ⟨h1, h2, h3⟩ => ⟨h1, h2, h3⟩)
        have hnewS : ¬ S s2.agg.types.interfaces.length := fun hc => Nat.lt_irrefl _ (hI2.sb _ hc)
        have hext3 : Ext s2.agg.types { s2.agg.types with interfaces := s2.agg.types.interfaces ++ [{ id := none, uses := [], exports := E' }] } :=
          ext_of_eq rfl rfl rfl rfl
        have hfr3 : Frame S s2.agg.types { s2.agg.types with interfaces := s2.agg.types.interfaces ++ [{ id := none, uses := [], exports := E' }] } :=
          ⟨hext3, by simp, fun j hj _ => by simp [List.getElem?_append_left hj]⟩
        have hstep3 : NRStep types.uid s2 { s2 with agg := { s2.agg with
            types := { s2.agg.types with interfaces := s2.agg.types.interfaces ++ [{ id := none, uses := [], exports := E' }] },
            remapped := alInsert s2.agg.remapped (GTy.mk' types (.interface id)) (.interface s2.agg.types.interfaces.length) } } := by
          refine ⟨hext3, by simp, fun j hj => by simp [List.getElem?_append_left hj], rfl, rfl, rfl, rfl, rfl, rfl, rfl, ?_⟩
          intro g _ hg'
          simp only [alGet_alInsert] at hg'
          split at hg'
          · rename_i he
            right
            rw [← eq_of_beq he]
            exact gty_uid_of_hasId _ _ rfl
          · exact .inl hg'
        have hfroz : ∀ x, x ∈ E' → FrozenK s2.agg.types S x.2 := by
          intro x hx
          have : ∀ {E E' : List (Str × ItemKind)}, All2 (fun (a b : Str × ItemKind) => b.1 = a.1 ∧ FrozenK s2.agg.types S b.2 ∧
              ∀ t, HasTree types a.2 t → HasTree s2.agg.types b.2 t) E E' → ∀ x, x ∈ E' → FrozenK s2.agg.types S x.2 := by
            intro E E' hA
            induction hA with
            | nil => intro x hx; cases hx
            | cons hq _ ih =>
              intro x hx
              rcases List.mem_cons.1 hx with rfl | hx
              · exact hq.2.1
              · exact ih x hx
          exact this hall' x hx
        have hish : ∀ i ty, alGet (alInsert s2.agg.remapped (GTy.mk' types (.interface id))
            (.interface s2.agg.types.interfaces.length)) (GTy.mk' types (.interface i)) = some ty → ∃ i', ty = .interface i' := by
          intro i ty hg0
          simp only [alGet_alInsert] at hg0
          split at hg0
          · cases hg0; exact ⟨_, rfl⟩
          · exact hI2.ish i ty hg0
        refine ⟨⟨?_, ?_, ?_, ?_, hish⟩, hst2.trans hstep3, ⟨?_, ?_⟩, fun _ => ⟨by simp, ?_⟩⟩
        · -- AInv
          refine ⟨⟨?_, hI2.ainv.rinv.closed.same_defined hext3 rfl,
            hI2.ainv.rinv.shape.insert _ _ (fun d hd => by simp [GTy.mk'] at hd) (fun f hf => by simp [GTy.mk'] at hf)⟩,
            hI2.ainv.cinv.ext hext3, hI2.ainv.nores⟩
          intro C hC
          obtain ⟨k1, k2⟩ := hI2.ainv.rinv.sound.ext hext3 C hC
          refine ⟨fun d v' hg0 t ht => ?_, fun f0 f0' hg0 t ht => ?_⟩
          · simp only [alGet_alInsert] at hg0
            split at hg0
            · rename_i he
              have := eq_of_beq he
              simp only [GTy.mk', GTy.mk.injEq] at this
              cases this.2
            · exact k1 d v' hg0 t ht
          · simp only [alGet_alInsert] at hg0
            split at hg0
            · rename_i he
              have := eq_of_beq he
              simp only [GTy.mk', GTy.mk.injEq] at this
              cases this.2
            · exact k2 f0 f0' hg0 t ht
        · -- IWF
          intro j itf hj x hx
          simp only at hj
          rcases Nat.lt_or_ge j s2.agg.types.interfaces.length with hlt | hge
          · rw [List.getElem?_append_left hlt] at hj
            exact (hI2.iwf j itf hj x hx).frame hfr3
          · have : j = s2.agg.types.interfaces.length := by
              have := getElem?_lt hj
              simp at this; omega
            subst this
            simp at hj
            subst hj
            exact (hfroz x hx).frame hfr3
        · intro j hj
          have := hI2.sb j hj
          simp; omega
        · -- interface keys
          intro i i' hg0
          simp only [alGet_alInsert] at hg0
          split at hg0
          · rename_i he
            obtain ⟨_, hty⟩ := gty_mk_inj hW hW (ty := .interface id) rfl (eq_of_beq he)
            cases hty
            cases hg0
            refine ⟨hnewS, by simp, fun t ht => ?_⟩
            -- the new interface unfolds to the source tree
            obtain ⟨N, hN⟩ := ht
            cases N with
            | zero => simp [Types.unfoldKind] at hN
            | succ N =>
              simp only [Types.unfoldKind, hsi] at hN
              obtain ⟨G, hG, rfl⟩ := Option.map_eq_some_iff.1 hN
              obtain ⟨⟨M, hM⟩, _⟩ := unfoldItems_of_all2' hall' N G hG
              refine ⟨M + 1, ?_⟩
              simp only [Types.unfoldKind, List.getElem?_concat_length]
              rw [unfoldItems_frame hI2.iwf hfr3 hfroz hM]
              rfl
          · obtain ⟨a, b, c⟩ := hI2.ik i i' hg0
            refine ⟨a, by simp; omega, fun t ht => (c t ht).frame hI2.iwf hfr3 (.inr ⟨false, i', rfl, a, b⟩)⟩
        · exact .inr ⟨false, _, rfl, hnewS, by simp⟩
        · intro t ht
          obtain ⟨N, hN⟩ := ht
          cases N with
          | zero => simp [Types.unfoldKind] at hN
          | succ N =>
            simp only [Types.unfoldKind, hsi] at hN
            obtain ⟨G, hG, rfl⟩ := Option.map_eq_some_iff.1 hN
            obtain ⟨⟨M, hM⟩, _⟩ := unfoldItems_of_all2' hall' N G hG
            refine ⟨M + 1, ?_⟩
            simp only [Types.unfoldKind, List.getElem?_concat_length]
            rw [unfoldItems_frame hI2.iwf hfr3 hfroz hM]
            rfl

        · -- nothing refers to the new interface
          intro j itf hj x hx
          simp only at hj
          have lift : ∀ y : Str × ItemKind, FrozenK s2.agg.types S y.2 →
              FrozenK { s2.agg.types with interfaces := s2.agg.types.interfaces ++ [{ id := none, uses := [], exports := E' }] }
                (fun j => S j ∨ j = s2.agg.types.interfaces.length) y.2 := by
            rintro y (h | ⟨b, t, h1, h2, h3⟩)
            · exact .inl h
            · refine .inr ⟨b, t, h1, ?_, by simp; omega⟩
              rintro (hc | hc)
              · exact h2 hc
              · exact absurd hc (Nat.ne_of_lt h3)
          rcases Nat.lt_or_ge j s2.agg.types.interfaces.length with hlt | hge
          · rw [List.getElem?_append_left hlt] at hj
            exact lift x (hI2.iwf j itf hj x hx)
          · have : j = s2.agg.types.interfaces.length := by
              have := getElem?_lt hj
              simp at this; omega
            subst this
            simp at hj
            subst hj
            exact lift x (hfroz x hx)

/-- **`remap_interface` / `remap_item_kind` on the nested fragment** (every fuel) -/
theorem remapNest_spec : ∀ f, IfaceSpec W types S f ∧ KindSpec W types S f
  | 0 => by
    constructor
    · intro d id s id' s' _ _ h; simp [remapInterface, run_apanic] at h
    · intro d k s k' s' _ _ h; simp [remapKind, run_apanic] at h
  | f + 1 => by
    obtain ⟨hi, hk⟩ := remapNest_spec f
    exact ⟨ifaceSpec_succ hW hs f hk, kindSpec_succ hW hs f hi⟩

end nremap

end Wac.AggP
