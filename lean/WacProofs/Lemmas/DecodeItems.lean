import WacProofs.Lemmas.DecodeMild
/-
  C08 `decode_tree`, part 9: the export loop of `component_instance_type`, the import and export
  loops of `component_type`.
-/
namespace Wac.Decode
open Wac Wac.Spec.Decode

/-- the invariant together with "open ids exist" -/
def InvR (w : WTypes) (ρ : Nat → Res) (oi ow : List Nat) (c : Nat) (st : St) : Prop :=
  Inv w ρ oi ow c st ∧ (∀ i ∈ oi, i < st.types.interfaces.length) ∧ (∀ i ∈ ow, i < st.types.worlds.length)

/-- like `Good`, for the calls that may allocate resources: `ρ` has to agree with the resource map
of the state *returned* -/
def GoodC {α β : Type} (ρ : Nat → Res) (P : St → Prop) (f : St → α → Outcome (St × β))
    (R : St → α → β → Prop) : Prop :=
  ∀ st x st' y, f st x = .ok (st', y) → Frame st st' ∧ (P st → Cons ρ st' → P st' ∧ R st' x y)

section
variable {w : WTypes} {ρ : Nat → Res} {oi ow : List Nat} {c : Nat}

theorem InvR.frame {st st' : St} (h : InvR w ρ oi ow c st) (hf : Frame st st') (hi : Inv w ρ oi ow c st') :
    InvR w ρ oi ow c st' :=
  ⟨hi, fun i hm => Nat.lt_of_lt_of_le (h.2.1 i hm) hf.ext.interfaces_len,
    fun i hm => Nat.lt_of_lt_of_le (h.2.2 i hm) hf.ext.worlds_len⟩

theorem Good.toC {α β : Type} {f : St → α → Outcome (St × β)} {R : St → α → β → Prop}
    (h : Good (Inv w ρ oi ow c) f R) : GoodC ρ (InvR w ρ oi ow c) f R := by
  intro st x st' y hh
  obtain ⟨fr, k⟩ := h st x st' y hh
  exact ⟨fr, fun hP _ => ⟨hP.frame fr (k hP.1).1, (k hP.1).2⟩⟩

/-! ### `component_instance_type`: one export -/

/-- the `use_or_own` part of one iteration of the export loop -/
def afterInst (w : WTypes) (st : St) (id : Nat) (ne : Str × WEnt) (exp : ItemKind) : Outcome St :=
  match ne.2 with
  | .type referenced created =>
    match useOrOwn w st (.interface id) ne.1 referenced created with
    | .ok st => .ok (clearSelfOwner st id exp)
    | .err e => .err e
    | .panic p => .panic p
  | _ => .ok st

theorem afterInst_mild {st st' : St} {id : Nat} {ne : Str × WEnt} {exp : ItemKind}
    (h : afterInst w st id ne exp = .ok st') : Mild st st' := by
  unfold afterInst at h
  split at h
  · split at h
    · rename_i st1 hu
      cases h
      exact (useOrOwn_mild hu).trans (clearSelfOwner_mild _ _ _)
    · cases h
    · cases h
  · cases h; exact Mild.refl _

theorem instanceExportStep_eq (ent : St → Str → WEnt → Outcome (St × ItemKind)) (id : Nat) (st : St)
    (ne : Str × WEnt) : instanceExportStep w ent id st ne =
    match ent st ne.1 ne.2 with
    | .ok (st, exp) =>
      match afterInst w st id ne exp with
      | .ok st =>
        match st.types.interfaces[id]? with
        | none => .panic "component_instance_type: dangling interface"
        | some itf =>
          if (alGet itf.exports ne.1).isSome then .panic "component_instance_type: assert!(prev.is_none())"
          else .ok (modifyInterface st id fun x => { x with exports := alInsert x.exports ne.1 exp })
      | .err e => .err e
      | .panic p => .panic p
    | .err e => .err e
    | .panic p => .panic p := by
  rfl

theorem Ext.ofModifyInterface (st : St) (id : Nat) (f : Interface → Interface) :
    Ext [id] [] st.types (modifyInterface st id f).types := by
  refine ⟨rfl, fun _ _ h => h, fun _ _ h => h, fun _ _ h => h, fun _ x h => ⟨x, h, rfl, rfl⟩, ?_,
    fun _ x _ h => ⟨x, h, rfl, rfl⟩⟩
  intro i x hi hx
  simp only [modifyInterface, getElem?_modify', hx, Option.map_some]
  split
  · rename_i heq; subst heq; simp at hi
  · exact ⟨_, rfl, rfl⟩

theorem Ext.ofModifyWorld (st : St) (id : Nat) (f : World → World) :
    Ext [] [id] st.types (modifyWorld st id f).types := by
  refine ⟨rfl, fun _ _ h => h, fun _ _ h => h, fun _ _ h => h, fun _ x h => ⟨x, h, rfl, rfl⟩,
    fun _ x _ h => ⟨x, h, rfl⟩, ?_⟩
  intro i x hi hx
  simp only [modifyWorld, getElem?_modify', hx, Option.map_some]
  split
  · rename_i heq; subst heq; simp at hi
  · exact ⟨_, rfl, rfl, rfl⟩

/-- named items correspond -/
abbrev NK (w : WTypes) (ρ : Nat → Res) (oi ow : List Nat) (c : Nat) (st : St) :
    Str × WEnt → Str × ItemKind → Prop :=
  fun x y => x.1 = y.1 ∧ RK w ρ oi ow c st x.2 y.2

theorem instStep_ok {ent : St → Str → WEnt → Outcome (St × ItemKind)} {id : Nat}
    (hE : GoodC ρ (InvR w ρ (id :: oi) ow (c + 1)) (fun st (x : Str × WEnt) => ent st x.1 x.2)
      (fun st x k => RK w ρ (id :: oi) ow (c + 1) st x.2 k))
    {cur st' : St} {ne : Str × WEnt} (h : instanceExportStep w ent id cur ne = .ok st') :
    FrameO [id] [] cur st' ∧
    (∀ ks, InvR w ρ (id :: oi) ow (c + 1) cur →
      (∃ itf, cur.types.interfaces[id]? = some itf ∧ itf.exports = ks) → Cons ρ st' →
      ∃ k, InvR w ρ (id :: oi) ow (c + 1) st' ∧
        (∃ itf, st'.types.interfaces[id]? = some itf ∧ itf.exports = ks ++ [(ne.1, k)]) ∧
        RK w ρ (id :: oi) ow (c + 1) st' ne.2 k) := by
  rw [instanceExportStep_eq] at h
  split at h
  · rename_i st1 exp hent
    obtain ⟨f1, k1⟩ := hE cur ne st1 exp hent
    split at h
    · rename_i st2 haft
      have hm := afterInst_mild haft
      split at h
      · cases h
      · rename_i itf2 hitf2
        split at h
        · cases h
        · rename_i hfresh
          cases h
          have hmod := Ext.ofModifyInterface st2 id (fun x => { x with exports := alInsert x.exports ne.1 exp })
          have hsz : Types.size (modifyInterface st2 id
              (fun x => { x with exports := alInsert x.exports ne.1 exp })).types = Types.size st2.types := by
            simp [modifyInterface, Types.size]
          have f12 : Frame cur st2 := f1.trans hm.frame
          refine ⟨f12.toO.trans ⟨hmod, by omega, fun _ _ hh => hh⟩, ?_⟩
          intro ks hP hitf hcons
          have hcons2 : Cons ρ st2 := Cons.backO (oi := [id]) (ow := []) ⟨hmod, by omega, fun _ _ hh => hh⟩ hcons
          have hcons1 : Cons ρ st1 := Cons.back hm.frame hcons2
          obtain ⟨p1, r1⟩ := k1 hP hcons1
          have p2 : InvR w ρ (id :: oi) ow (c + 1) st2 := p1.frame hm.frame (p1.1.mild hm)
          obtain ⟨itf, hitf, hks⟩ := hitf
          obtain ⟨itf2', hitf2', hex2⟩ := f12.ext.interfaces id itf (by simp) hitf
          rw [hitf2] at hitf2'; cases hitf2'
          have hex : itf2.exports = ks := hex2.trans hks
          have hins : alInsert itf2.exports ne.1 exp = ks ++ [(ne.1, exp)] := by
            rw [hex]
            apply alInsert_fresh
            apply alGet_none_not_mem
            rw [← hex]
            simpa using hfresh
          have hmod' : Ext (id :: oi) ow st2.types (modifyInterface st2 id
              (fun x => { x with exports := alInsert x.exports ne.1 exp })).types :=
            hmod.weaken (fun i hi => by simp at hi; simp [hi]) (fun _ hi => by cases hi)
          refine ⟨exp, ⟨p2.1.stepO hmod' (by omega) rfl rfl, ?_, ?_⟩, ?_, ?_⟩
          · intro i hi
            have := p2.2.1 i hi
            simpa [modifyInterface] using this
          · intro i hi
            have := p2.2.2 i hi
            simpa [modifyInterface] using this
          · refine ⟨{ itf2 with exports := alInsert itf2.exports ne.1 exp }, ?_, hins⟩
            simp [modifyInterface, getElem?_modify', hitf2]
          · exact ((r1.mono hm.frame).monoO hmod' (by omega))
    · cases h
    · cases h
  · cases h
  · cases h

theorem instLoop_ok {ent : St → Str → WEnt → Outcome (St × ItemKind)} {id : Nat}
    (hE : GoodC ρ (InvR w ρ (id :: oi) ow (c + 1)) (fun st (x : Str × WEnt) => ent st x.1 x.2)
      (fun st x k => RK w ρ (id :: oi) ow (c + 1) st x.2 k)) :
    ∀ (es : List (Str × WEnt)) (cur st' : St), forM (instanceExportStep w ent id) cur es = .ok st' →
    FrameO [id] [] cur st' ∧
    (∀ done ks, InvR w ρ (id :: oi) ow (c + 1) cur →
      (∃ itf, cur.types.interfaces[id]? = some itf ∧ itf.exports = ks) →
      All2 (NK w ρ (id :: oi) ow (c + 1) cur) done ks → Cons ρ st' →
      ∃ ks', InvR w ρ (id :: oi) ow (c + 1) st' ∧
        (∃ itf, st'.types.interfaces[id]? = some itf ∧ itf.exports = ks') ∧
        All2 (NK w ρ (id :: oi) ow (c + 1) st') (done ++ es) ks') := by
  intro es
  induction es with
  | nil =>
    intro cur st' h
    simp only [forM] at h
    cases h
    refine ⟨FrameO.refl _ _ _, ?_⟩
    intro done ks hP hitf hall _
    exact ⟨ks, hP, hitf, by simpa using hall⟩
  | cons ne es ih =>
    intro cur st' h
    simp only [forM] at h
    split at h
    · rename_i st1 hstep
      obtain ⟨f1, k1⟩ := instStep_ok hE hstep
      obtain ⟨f2, k2⟩ := ih st1 st' h
      refine ⟨f1.trans f2, ?_⟩
      intro done ks hP hitf hall hcons
      obtain ⟨k, p1, hitf1, r1⟩ := k1 ks hP hitf (Cons.backO f2 hcons)
      have hw : Ext (id :: oi) ow cur.types st1.types :=
        f1.ext.weaken (fun i hi => by simp at hi; simp [hi]) (fun _ hi => by cases hi)
      have hall1 : All2 (NK w ρ (id :: oi) ow (c + 1) st1) (done ++ [ne]) (ks ++ [(ne.1, k)]) :=
        All2.append (All2.imp (fun x y hxy => ⟨hxy.1, hxy.2.monoO hw f1.size⟩) hall) ⟨rfl, r1⟩
      obtain ⟨ks', p2, hitf2, hall2⟩ := k2 (done ++ [ne]) (ks ++ [(ne.1, k)]) p1 hitf1 hall1 hcons
      exact ⟨ks', p2, hitf2, by simpa using hall2⟩
    · cases h
    · cases h

end

end Wac.Decode
