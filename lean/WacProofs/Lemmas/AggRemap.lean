import WacProofs.Lemmas.AggUnfold
/-
  C09 general theorems, part 3: `remap_value_type` / `remap_defined_type` / `remap_func_type` copy a
  value type / function type of a contributor's collection into the aggregator's collection such
  that it unfolds to the same tree; they only append to the value-level arenas and record sound
  entries in `remapped`.
-/
namespace Wac.AggP
open Wac Wac.Spec

/-- the part of `remapped` the remap functions consult: entries for defined types and function
types of the collections of `W` point at types of `T` with the same tree -/
def RemapSound (W : Colls) (T : Types) (R : List (GTy × Ty)) : Prop :=
  ∀ C, W.mem C →
    (∀ d v', alGet R (GTy.mk' C (.value (.defined d))) = some (.value v') →
      ∀ t, HasVT C (.defined d) t → HasVT T v' t) ∧
    (∀ f f', alGet R (GTy.mk' C (.func f)) = some (.func f') → ∀ t, HasFn C f t → HasFn T f' t)

/-- entries of `remapped` for defined types / function types point at value types / function types
(so `remap_value_type`, `remap_defined_type`, `remap_func_type` do not hit their `expected a …`
panics once `cfg.remapReplaced` holds) -/
def TableShape (R : List (GTy × Ty)) : Prop :=
  (∀ uid d ty, alGet R ⟨uid, .value (.defined d)⟩ = some ty → ∃ v, ty = .value v) ∧
  (∀ uid f ty, alGet R ⟨uid, .func f⟩ = some ty → ∃ f', ty = .func f')

theorem TableShape.insert {R : List (GTy × Ty)} (h : TableShape R) (g : GTy) (ty0 : Ty)
    (hv : ∀ d, g.ty = .value (.defined d) → ∃ v, ty0 = .value v)
    (hf : ∀ f, g.ty = .func f → ∃ f', ty0 = .func f') : TableShape (alInsert R g ty0) := by
  refine ⟨fun uid d ty hg => ?_, fun uid f ty hg => ?_⟩
  · rw [alGet_alInsert] at hg
    split at hg
    · rename_i he
      have := eq_of_beq he
      subst this
      cases hg
      exact hv d rfl
    · exact h.1 uid d ty hg
  · rw [alGet_alInsert] at hg
    split at hg
    · rename_i he
      have := eq_of_beq he
      subst this
      cases hg
      exact hf f rfl
    · exact h.2 uid f ty hg

/-- invariant of the aggregator state used by the remap functions -/
structure RInv (W : Colls) (s : AggState) : Prop where
  sound : RemapSound W s.agg.types s.agg.remapped
  closed : Closed s.agg.types
  shape : TableShape s.agg.remapped

/-- what a remap step may change: it appends to the value-level arenas and adds `remapped`
entries for ids of the collection with uid `u` -/
structure Step (u : Nat) (s s' : AggState) : Prop where
  ext : Ext s.agg.types s'.agg.types
  ifaces : s'.agg.types.interfaces = s.agg.types.interfaces
  worlds : s'.agg.types.worlds = s.agg.types.worlds
  modules : s'.agg.types.modules = s.agg.types.modules
  chk : s'.chk = s.chk
  cfg : s'.cfg = s.cfg
  imports : s'.agg.imports = s.agg.imports
  imap : s'.agg.interfaces = s.agg.interfaces
  redirects : s'.agg.redirects = s.agg.redirects
  keys : ∀ g, (alGet s'.agg.remapped g).isSome = true → (alGet s.agg.remapped g).isSome = true ∨ g.uid = u
  ikeys : ∀ uid i, alGet s'.agg.remapped ⟨uid, .interface i⟩ = alGet s.agg.remapped ⟨uid, .interface i⟩

theorem Step.refl (u : Nat) (s : AggState) : Step u s s :=
  ⟨Ext.refl _, rfl, rfl, rfl, rfl, rfl, rfl, rfl, rfl, fun _ h => .inl h, fun _ _ => rfl⟩

theorem Step.trans {u : Nat} {s s' s'' : AggState} (h1 : Step u s s') (h2 : Step u s' s'') : Step u s s'' :=
  ⟨h1.ext.trans h2.ext, h2.ifaces.trans h1.ifaces, h2.worlds.trans h1.worlds, h2.modules.trans h1.modules,
    h2.chk.trans h1.chk, h2.cfg.trans h1.cfg, h2.imports.trans h1.imports, h2.imap.trans h1.imap,
    h2.redirects.trans h1.redirects, fun g h => by
      rcases h2.keys g h with h | h
      · exact h1.keys g h
      · exact .inr h, fun uid i => (h2.ikeys uid i).trans (h1.ikeys uid i)⟩

/-- the copy `v'` (in the aggregator's collection after the step) unfolds to whatever `v` unfolds to -/
def PostVT (types : Types) (s' : AggState) (v v' : ValueType) : Prop :=
  ∀ t, HasVT types v t → s'.agg.types.unfoldVT (s'.agg.types.defined.length + 1) v' = some t

theorem PostVT.mono {types : Types} {u : Nat} {s s' : AggState} {v v' : ValueType} (h : Step u s s')
    (hp : PostVT types s v v') : PostVT types s' v v' := by
  intro t ht
  have h1 := h.ext.unfoldVT _ _ _ (hp t ht)
  obtain ⟨l, hl⟩ := h.ext.defined
  exact unfoldVT_mono _ (by rw [hl]; simp) _ _ h1

/-! ### `remap_resource`: never succeeds with a change when the contributor has no resources -/

theorem remapResource_nores {types : Types} (hs : Sane types) :
    ∀ (n r : Nat) (s : AggState) (r' : Nat) (s' : AggState), remapResource n types r s = .ok (r', s') → s' = s
  | 0, r, s, r', s', h => by simp [remapResource, run_apanic] at h
  | n + 1, r, s, r', s', h => by
    rw [remapResource] at h
    simp only [bind_ok, run_remappedGet, Except.ok.injEq, Prod.mk.injEq] at h
    obtain ⟨o, s1, ⟨rfl, rfl⟩, h⟩ := h
    cases hg : alGet s.agg.remapped (GTy.mk' types (Ty.resource r)) with
    | some ty =>
      rw [hg] at h
      cases ty <;> simp only [run_pure, run_apanic, Except.ok.injEq, Prod.mk.injEq, reduceCtorEq] at h
      exact h.2.symm
    | none =>
      rw [hg] at h
      have : types.resources[r]? = none := by simp [hs.nores]
      simp only [this, bind_ok, run_apanic, reduceCtorEq, false_and, exists_false] at h

/-! ### pushing a new defined type / function type -/

def pushDefined (s : AggState) (x : DefinedType) : AggState :=
  { s with agg := { s.agg with types := { s.agg.types with defined := s.agg.types.defined ++ [x] } } }

def pushFunc (s : AggState) (x : FuncType) : AggState :=
  { s with agg := { s.agg with types := { s.agg.types with funcs := s.agg.types.funcs ++ [x] } } }

def setRemapped (s : AggState) (g : GTy) (v : Ty) : AggState :=
  { s with agg := { s.agg with remapped := alInsert s.agg.remapped g v } }

theorem ext_pushDefined (T : Types) (x : DefinedType) : Ext T { T with defined := T.defined ++ [x] } :=
  ⟨rfl, ⟨[x], rfl⟩, ⟨[], by simp⟩, rfl⟩

theorem ext_pushFunc (T : Types) (x : FuncType) : Ext T { T with funcs := T.funcs ++ [x] } :=
  ⟨rfl, ⟨[], by simp⟩, ⟨[x], rfl⟩, rfl⟩

theorem gty_uid_of_hasId (types : Types) (ty : Ty) (h : ty.hasId = true) : (GTy.mk' types ty).uid = types.uid := by
  simp [GTy.mk', h]

/-- soundness of `remapped` is kept by extending the collection -/
theorem RemapSound.ext {W : Colls} {T T' : Types} {R : List (GTy × Ty)} (h : RemapSound W T R) (he : Ext T T') :
    RemapSound W T' R := by
  intro C hC
  obtain ⟨h1, h2⟩ := h C hC
  exact ⟨fun d v' hg t ht => (h1 d v' hg t ht).ext he, fun f f' hg t ht => (h2 f f' hg t ht).ext he⟩

theorem gty_mk_inj {W : Colls} {C C' : Types} (hC : W.mem C) (hC' : W.mem C') {ty ty' : Ty} (hid : ty.hasId = true)
    (h : GTy.mk' C ty = GTy.mk' C' ty') : C = C' ∧ ty = ty' := by
  simp only [GTy.mk', GTy.mk.injEq] at h
  obtain ⟨hu, rfl⟩ := h
  simp only [hid, ↓reduceIte] at hu
  exact ⟨W.inj C C' hC hC' hu, rfl⟩

/-! ### the value level -/

section remap
variable {W : Colls} {types : Types} (hW : W.mem types) (hs : Sane types)
include hW hs

/-- closing step of `remap_defined_type`: the components have been copied (`DRel`), the new
defined type is appended and recorded -/
theorem push_defined_spec (s : AggState) (hI : RInv W s) (id : Nat) (dt dt' : DefinedType)
    (hdt : types.defined[id]? = some dt) (hrel : DRel (PostVT types s) dt dt') :
    let s' := setRemapped (pushDefined s dt') (GTy.mk' types (.value (.defined id)))
      (.value (.defined s.agg.types.defined.length))
    RInv W s' ∧ Step types.uid s s' ∧ PostVT types s' (.defined id) (.defined s.agg.types.defined.length) := by
  intro s'
  have hext : Ext s.agg.types s'.agg.types := ext_pushDefined _ _
  have hlen : s'.agg.types.defined.length = s.agg.types.defined.length + 1 := by
    simp [s', setRemapped, pushDefined]
  have hget : s'.agg.types.defined[s.agg.types.defined.length]? = some dt' := by
    simp [s', setRemapped, pushDefined]
  -- the new entry unfolds to whatever the source unfolds to
  have hpost : ∀ t, HasVT types (.defined id) t →
      s'.agg.types.unfoldVT (s.agg.types.defined.length + 2) (.defined s.agg.types.defined.length) = some t := by
    intro t ⟨m, hm⟩
    cases m with
    | zero => simp [Types.unfoldVT] at hm
    | succ m =>
      simp only [Types.unfoldVT, hdt] at hm
      simp only [Types.unfoldVT, hget]
      refine unfoldDefined_congr (Q := PostVT types s) ?_ hrel t hm
      intro v v' t0 hq hv
      exact hext.unfoldVT _ _ _ (hq t0 ⟨m, hv⟩)
  have hstep : Step types.uid s s' := by
    refine ⟨hext, rfl, rfl, rfl, rfl, rfl, rfl, rfl, rfl, ?_, ?_⟩
    · intro g hg
      simp only [s', setRemapped, pushDefined, alGet_alInsert] at hg
      split at hg
      · rename_i he
        right
        rw [eq_of_beq he |>.symm]
        exact gty_uid_of_hasId _ _ rfl
      · exact .inl hg
    · intro uid i
      simp only [s', setRemapped, pushDefined, alGet_alInsert]
      split
      · rename_i he
        have := eq_of_beq he
        simp [GTy.mk'] at this
      · rfl
  have hshape : TableShape s'.agg.remapped :=
    hI.shape.insert _ _ (fun _ _ => ⟨_, rfl⟩) (fun f hf => by simp [GTy.mk'] at hf)
  refine ⟨⟨?_, ?_, hshape⟩, hstep, ?_⟩
  · -- RemapSound
    intro C hC
    obtain ⟨h1, h2⟩ := hI.sound.ext hext C hC
    refine ⟨fun d v' hg t ht => ?_, fun f f' hg t ht => ?_⟩
    · simp only [s', setRemapped, pushDefined, alGet_alInsert] at hg
      split at hg
      · rename_i he
        obtain ⟨rfl, hty⟩ := gty_mk_inj hW hC rfl (eq_of_beq he)
        cases hty
        cases hg
        exact ⟨_, hpost t ht⟩
      · exact h1 d v' hg t ht
    · simp only [s', setRemapped, pushDefined, alGet_alInsert] at hg
      split at hg
      · rename_i he
        obtain ⟨_, hty⟩ := gty_mk_inj hW hC rfl (eq_of_beq he)
        cases hty
      · exact h2 f f' hg t ht
  · -- Closed
    intro d hd
    rw [hlen] at hd
    rcases Nat.lt_or_ge d s.agg.types.defined.length with hlt | hge
    · obtain ⟨t, ht⟩ := hI.closed d hlt
      exact ⟨t, hext.unfoldVT _ _ _ ht⟩
    · have : d = s.agg.types.defined.length := by omega
      subst this
      have hin : id < types.defined.length := by
        rcases Nat.lt_or_ge id types.defined.length with h | h
        · exact h
        · rw [List.getElem?_eq_none h] at hdt; cases hdt
      obtain ⟨t, ht⟩ := hs.total id hin
      exact ⟨t, hpost t ht⟩
  · intro t ht
    rw [hlen]
    exact unfoldVT_mono _ (by omega) _ _ (hpost t ht)

/-- the constructor dispatch of `remap_defined_type` -/
def remapShape (rv : ValueType → AggM ValueType) : DefinedType → AggM DefinedType
  | .tuple ts => do pure (DefinedType.tuple (← mapMList rv ts))
  | .list t => do pure (DefinedType.list (← rv t))
  | .fixedSizeList t n => do pure (DefinedType.fixedSizeList (← rv t) n)
  | .option t => do pure (DefinedType.option (← rv t))
  | .result ok err => do
    let ok' ← mapMOpt rv ok
    let err' ← mapMOpt rv err
    pure (DefinedType.result ok' err')
  | .variant cs => do
    pure (DefinedType.variant (← mapMList (fun (c : Str × Option ValueType) => do
      return (c.1, ← mapMOpt rv c.2)) cs))
  | .record fs => do
    pure (DefinedType.record (← mapMList (fun (f : Str × ValueType) => do return (f.1, ← rv f.2)) fs))
  | .flags ns => pure (DefinedType.flags ns)
  | .enum ns => pure (DefinedType.enum ns)
  | .alias t => do pure (DefinedType.alias (← rv t))
  | .stream t => do pure (DefinedType.stream (← mapMOpt rv t))
  | .future t => do pure (DefinedType.future (← mapMOpt rv t))

/-- the tail of `remap_defined_type`: append and record -/
def definedTail (types : Types) (id : Nat) (defined : DefinedType) : AggM Nat := do
  let ag ← getAgg
  let newId := ag.types.defined.length
  modifyTypes fun t => { t with defined := t.defined ++ [defined] }
  remappedInsertNew types (.value (.defined id)) (.value (.defined newId))
  return newId

omit hW hs in
theorem remapDefined_succ (n : Nat) (id : Nat) : remapDefined (n + 1) types id = (do
    match ← remappedGet types (.value (.defined id)) with
    | some (.value (.defined id')) => return id'
    | some _ => apanic "expected a defined type"
    | none =>
      match types.defined[id]? with
      | none => apanic "defined type index"
      | some dt => remapShape (remapValueType n types) dt >>= definedTail types id) := by
  rw [remapDefined]
  congr 1
  funext o
  split
  · rfl
  · rename_i hx
    split
    · rename_i heq; cases heq; exact absurd rfl (hx _)
    · rfl
    · rename_i heq; cases heq
  · cases types.defined[id]? with
    | none => rfl
    | some dt =>
      simp only [pure_bind]
      cases dt <;> simp only [remapShape, bind_assoc, pure_bind] <;> rfl

omit hW hs in
theorem definedTail_ok {id : Nat} {x : DefinedType} {s : AggState} {d' : Nat} {s' : AggState}
    (h : definedTail types id x s = .ok (d', s')) :
    d' = s.agg.types.defined.length ∧
      s' = setRemapped (pushDefined s x) (GTy.mk' types (.value (.defined id)))
        (.value (.defined s.agg.types.defined.length)) := by
  simp only [definedTail, bind_ok, run_getAgg, run_modifyTypes, run_remappedInsertNew, run_pure,
    Except.ok.injEq, Prod.mk.injEq] at h
  obtain ⟨ag, s1, ⟨rfl, rfl⟩, u, s2, ⟨_, rfl⟩, u', s3, h3, rfl, rfl⟩ := h
  split at h3
  · cases h3
  · simp only [Except.ok.injEq, Prod.mk.injEq, true_and] at h3
    exact ⟨rfl, h3.symm⟩

/-- what a value-level remap function has to satisfy -/
def VTSpec (W : Colls) (types : Types) (rv : ValueType → AggM ValueType) : Prop :=
  ∀ v s v' s', RInv W s → rv v s = .ok (v', s') → RInv W s' ∧ Step types.uid s s' ∧ PostVT types s' v v'

omit hW hs in
theorem mapMOpt_spec {rv : ValueType → AggM ValueType} (hrv : VTSpec W types rv) (o : Option ValueType)
    (s : AggState) (o' : Option ValueType) (s' : AggState) (hI : RInv W s) (h : mapMOpt rv o s = .ok (o', s')) :
    RInv W s' ∧ Step types.uid s s' ∧ ORel (PostVT types s') o o' := by
  have := mapMOpt_inv (I := RInv W) (R := Step types.uid) (Q := PostVT types) (Step.refl _) o
    (fun a _ s b s' hI h => hrv a s b s' hI h) s o' s' hI h
  refine ⟨this.1, this.2.1, ?_⟩
  have h3 := this.2.2
  cases o <;> cases o' <;> simp only [ORel] <;> simp at h3 <;> exact h3

omit hW hs in
theorem remapShape_spec {rv : ValueType → AggM ValueType} (hrv : VTSpec W types rv) (dt : DefinedType)
    (s : AggState) (dt' : DefinedType) (s' : AggState) (hI : RInv W s) (h : remapShape rv dt s = .ok (dt', s')) :
    RInv W s' ∧ Step types.uid s s' ∧ DRel (PostVT types s') dt dt' := by
  have hmono : ∀ s s' a b, Step types.uid s s' → PostVT types s a b → PostVT types s' a b :=
    fun s s' a b hst hp => hp.mono hst
  cases dt with
  | tuple ts =>
    simp only [remapShape, bind_ok, run_pure, Except.ok.injEq, Prod.mk.injEq] at h
    obtain ⟨ts', s1, h1, rfl, rfl⟩ := h
    have := mapMList_inv (I := RInv W) (R := Step types.uid) (Q := PostVT types) (Step.refl _)
      (fun _ _ _ => Step.trans) hmono ts (fun a _ s b s' hI h => hrv a s b s' hI h) s ts' s1 hI h1
    exact ⟨this.1, this.2.1, by simpa only [DRel] using this.2.2⟩
  | list t =>
    simp only [remapShape, bind_ok, run_pure, Except.ok.injEq, Prod.mk.injEq] at h
    obtain ⟨t', s1, h1, rfl, rfl⟩ := h
    have := hrv t s t' s1 hI h1
    exact ⟨this.1, this.2.1, by simpa only [DRel] using this.2.2⟩
  | fixedSizeList t n =>
    simp only [remapShape, bind_ok, run_pure, Except.ok.injEq, Prod.mk.injEq] at h
    obtain ⟨t', s1, h1, rfl, rfl⟩ := h
    have := hrv t s t' s1 hI h1
    exact ⟨this.1, this.2.1, by simp only [DRel, and_true]; exact this.2.2⟩
  | option t =>
    simp only [remapShape, bind_ok, run_pure, Except.ok.injEq, Prod.mk.injEq] at h
    obtain ⟨t', s1, h1, rfl, rfl⟩ := h
    have := hrv t s t' s1 hI h1
    exact ⟨this.1, this.2.1, by simpa only [DRel] using this.2.2⟩
  | result ok err =>
    simp only [remapShape, bind_ok, run_pure, Except.ok.injEq, Prod.mk.injEq] at h
    obtain ⟨ok', s1, h1, err', s2, h2, rfl, rfl⟩ := h
    have a := mapMOpt_spec hrv ok s ok' s1 hI h1
    have b := mapMOpt_spec hrv err s1 err' s2 a.1 h2
    refine ⟨b.1, a.2.1.trans b.2.1, ?_⟩
    simp only [DRel]
    refine ⟨?_, b.2.2⟩
    have := a.2.2
    cases ok <;> cases ok' <;> simp only [ORel] at this ⊢
    exact this.mono b.2.1
  | variant cs =>
    simp only [remapShape, bind_ok, run_pure, Except.ok.injEq, Prod.mk.injEq] at h
    obtain ⟨cs', s1, h1, rfl, rfl⟩ := h
    have := mapMList_inv (I := RInv W) (R := Step types.uid)
      (Q := fun s (c c' : Str × Option ValueType) => c.1 = c'.1 ∧ ORel (PostVT types s) c.2 c'.2) (Step.refl _)
      (fun _ _ _ => Step.trans)
      (by
        intro s s' a b hst ⟨h1, h2⟩
        refine ⟨h1, ?_⟩
        cases ha : a.2 <;> cases hb : b.2 <;> rw [ha, hb] at h2 <;> simp only [ORel] at h2 ⊢
        exact h2.mono hst)
      cs
      (by
        intro a _ s b s' hI h
        simp only [bind_ok, run_pure, Except.ok.injEq, Prod.mk.injEq] at h
        obtain ⟨o', s1, h1, rfl, rfl⟩ := h
        have := mapMOpt_spec hrv a.2 s o' s1 hI h1
        exact ⟨this.1, this.2.1, rfl, this.2.2⟩)
      s cs' s1 hI h1
    exact ⟨this.1, this.2.1, by simpa only [DRel] using this.2.2⟩
  | record fs =>
    simp only [remapShape, bind_ok, run_pure, Except.ok.injEq, Prod.mk.injEq] at h
    obtain ⟨fs', s1, h1, rfl, rfl⟩ := h
    have := mapMList_inv (I := RInv W) (R := Step types.uid)
      (Q := fun s (c c' : Str × ValueType) => c.1 = c'.1 ∧ PostVT types s c.2 c'.2) (Step.refl _)
      (fun _ _ _ => Step.trans)
      (by intro s s' a b hst ⟨h1, h2⟩; exact ⟨h1, h2.mono hst⟩)
      fs
      (by
        intro a _ s b s' hI h
        simp only [bind_ok, run_pure, Except.ok.injEq, Prod.mk.injEq] at h
        obtain ⟨o', s1, h1, rfl, rfl⟩ := h
        have := hrv a.2 s o' s1 hI h1
        exact ⟨this.1, this.2.1, rfl, this.2.2⟩)
      s fs' s1 hI h1
    exact ⟨this.1, this.2.1, by simpa only [DRel] using this.2.2⟩
  | flags ns =>
    simp only [remapShape, run_pure, Except.ok.injEq, Prod.mk.injEq] at h
    obtain ⟨rfl, rfl⟩ := h
    exact ⟨hI, Step.refl _ _, by simp only [DRel]⟩
  | enum ns =>
    simp only [remapShape, run_pure, Except.ok.injEq, Prod.mk.injEq] at h
    obtain ⟨rfl, rfl⟩ := h
    exact ⟨hI, Step.refl _ _, by simp only [DRel]⟩
  | alias t =>
    simp only [remapShape, bind_ok, run_pure, Except.ok.injEq, Prod.mk.injEq] at h
    obtain ⟨t', s1, h1, rfl, rfl⟩ := h
    have := hrv t s t' s1 hI h1
    exact ⟨this.1, this.2.1, by simpa only [DRel] using this.2.2⟩
  | stream t =>
    simp only [remapShape, bind_ok, run_pure, Except.ok.injEq, Prod.mk.injEq] at h
    obtain ⟨t', s1, h1, rfl, rfl⟩ := h
    have := mapMOpt_spec hrv t s t' s1 hI h1
    exact ⟨this.1, this.2.1, by simpa only [DRel] using this.2.2⟩
  | future t =>
    simp only [remapShape, bind_ok, run_pure, Except.ok.injEq, Prod.mk.injEq] at h
    obtain ⟨t', s1, h1, rfl, rfl⟩ := h
    have := mapMOpt_spec hrv t s t' s1 hI h1
    exact ⟨this.1, this.2.1, by simpa only [DRel] using this.2.2⟩

/-- `remap_defined_type` copies a defined type -/
def DSpec (W : Colls) (types : Types) (n : Nat) : Prop :=
  ∀ d s d' s', RInv W s → remapDefined n types d s = .ok (d', s') →
    RInv W s' ∧ Step types.uid s s' ∧ PostVT types s' (.defined d) (.defined d')

theorem remapDefined_step (n : Nat) (hv : VTSpec W types (remapValueType n types)) : DSpec W types (n + 1) := by
  intro d s d' s' hI h
  rw [remapDefined_succ] at h
  simp only [bind_ok, run_remappedGet, Except.ok.injEq, Prod.mk.injEq] at h
  obtain ⟨o, s0, ⟨rfl, rfl⟩, h⟩ := h
  cases hg : alGet s.agg.remapped (GTy.mk' types (.value (.defined d))) with
  | some ty =>
    rw [hg] at h
    have hhit : ∀ id', ty = .value (.defined id') → d' = id' ∧ s' = s →
        RInv W s' ∧ Step types.uid s s' ∧ PostVT types s' (.defined d) (.defined d') := by
      rintro id' rfl ⟨rfl, rfl⟩
      refine ⟨hI, Step.refl _ _, fun t ht => ?_⟩
      exact hI.closed.hasVT ((hI.sound types hW).1 d _ hg t ht)
    cases ty with
    | value v =>
      cases v with
      | defined id' =>
        simp only [run_pure, Except.ok.injEq, Prod.mk.injEq] at h
        exact hhit id' rfl ⟨h.1.symm, h.2.symm⟩
      | _ => simp [run_apanic] at h
    | _ => simp [run_apanic] at h
  | none =>
    rw [hg] at h
    cases hdt : types.defined[d]? with
    | none => simp [hdt, run_apanic] at h
    | some dt =>
      simp only [hdt, bind_ok] at h
      obtain ⟨dt', s1, h1, h2⟩ := h
      obtain ⟨hI1, hst1, hrel⟩ := remapShape_spec hv dt s dt' s1 hI h1
      obtain ⟨rfl, rfl⟩ := definedTail_ok h2
      obtain ⟨hI2, hst2, hp⟩ := push_defined_spec hW hs s1 hI1 d dt dt' hdt hrel
      exact ⟨hI2, hst1.trans hst2, hp⟩

theorem remapValueType_step (n : Nat) (hd : DSpec W types n) : VTSpec W types (remapValueType (n + 1) types) := by
  intro v s v' s' hI h
  cases v with
  | prim p =>
    simp only [remapValueType, run_pure, Except.ok.injEq, Prod.mk.injEq] at h
    obtain ⟨rfl, rfl⟩ := h
    refine ⟨hI, Step.refl _ _, fun t ⟨m, hm⟩ => ?_⟩
    cases m with
    | zero => simp [Types.unfoldVT] at hm
    | succ m => simpa [Types.unfoldVT] using hm
  | borrow r =>
    simp only [remapValueType, bind_ok, run_pure, Except.ok.injEq, Prod.mk.injEq] at h
    obtain ⟨r', s1, h1, rfl, rfl⟩ := h
    have := remapResource_nores hs n r s r' s1 h1
    subst this
    exact ⟨hI, Step.refl _ _, fun t ht => absurd ht (hs.no_borrow r t)⟩
  | own r =>
    simp only [remapValueType, bind_ok, run_pure, Except.ok.injEq, Prod.mk.injEq] at h
    obtain ⟨r', s1, h1, rfl, rfl⟩ := h
    have := remapResource_nores hs n r s r' s1 h1
    subst this
    exact ⟨hI, Step.refl _ _, fun t ht => absurd ht (hs.no_own r t)⟩
  | defined d =>
    simp only [remapValueType, bind_ok, run_get, run_remappedGet, Except.ok.injEq, Prod.mk.injEq] at h
    obtain ⟨_, _, ⟨rfl, rfl⟩, o, s0, ⟨rfl, rfl⟩, h⟩ := h
    have hmiss : (∃ d1 s1, remapDefined n types d s = .ok (d1, s1) ∧ v' = .defined d1 ∧ s' = s1) →
        RInv W s' ∧ Step types.uid s s' ∧ PostVT types s' (.defined d) v' := by
      rintro ⟨d1, s1, h1, rfl, rfl⟩
      exact hd d s d1 s' hI h1
    generalize s.cfg.remapReplaced = b at h
    cases hg : alGet s.agg.remapped (GTy.mk' types (.value (.defined d))) with
    | none =>
      rw [hg] at h
      cases b <;>
      · simp only [bind_ok, run_pure, Except.ok.injEq, Prod.mk.injEq] at h
        obtain ⟨d1, s1, h1, rfl, rfl⟩ := h
        exact hmiss ⟨d1, s1, h1, rfl, rfl⟩
    | some ty =>
      rw [hg] at h
      cases b with
      | false =>
        simp only [bind_ok, run_pure, Except.ok.injEq, Prod.mk.injEq] at h
        obtain ⟨d1, s1, h1, rfl, rfl⟩ := h
        exact hmiss ⟨d1, s1, h1, rfl, rfl⟩
      | true =>
        cases ty with
        | value v0 =>
          simp only [run_pure, Except.ok.injEq, Prod.mk.injEq] at h
          obtain ⟨rfl, rfl⟩ := h
          refine ⟨hI, Step.refl _ _, fun t ht => ?_⟩
          exact hI.closed.hasVT ((hI.sound types hW).1 d _ hg t ht)
        | _ =>
          simp only [bind_ok, run_pure, Except.ok.injEq, Prod.mk.injEq] at h
          obtain ⟨d1, s1, h1, rfl, rfl⟩ := h
          exact hmiss ⟨d1, s1, h1, rfl, rfl⟩

/-- **`remap_value_type` / `remap_defined_type` copy value types faithfully** (any fuel) -/
theorem remapVT_spec : ∀ n, VTSpec W types (remapValueType n types) ∧ DSpec W types n
  | 0 => by
    constructor
    · intro v s v' s' _ h; simp [remapValueType, run_apanic] at h
    · intro d s d' s' _ h; simp [remapDefined, run_apanic] at h
  | n + 1 => by
    obtain ⟨hv, hd⟩ := remapVT_spec n
    exact ⟨remapValueType_step hW hs n hd, remapDefined_step hW hs n hv⟩

/-! ### function types -/

def PostFn (types : Types) (s' : AggState) (f f' : Nat) : Prop :=
  ∀ t, HasFn types f t → s'.agg.types.unfoldFunc (s'.agg.types.defined.length + 1) f' = some t

/-- **`remap_func_type` copies a function type faithfully** -/
theorem remapFunc_spec (n : Nat) (f : Nat) (s : AggState) (f' : Nat) (s' : AggState) (hI : RInv W s)
    (h : remapFunc n types f s = .ok (f', s')) :
    RInv W s' ∧ Step types.uid s s' ∧ PostFn types s' f f' := by
  cases n with
  | zero => simp [remapFunc, run_apanic] at h
  | succ n =>
  have hv := (remapVT_spec hW hs n).1
  rw [remapFunc] at h
  simp only [bind_ok, run_remappedGet, Except.ok.injEq, Prod.mk.injEq] at h
  obtain ⟨o, s0, ⟨rfl, rfl⟩, h⟩ := h
  cases hg : alGet s.agg.remapped (GTy.mk' types (.func f)) with
  | some ty =>
    rw [hg] at h
    cases ty with
    | func id' =>
      simp only [run_pure, Except.ok.injEq, Prod.mk.injEq] at h
      obtain ⟨rfl, rfl⟩ := h
      refine ⟨hI, Step.refl _ _, fun t ht => ?_⟩
      obtain ⟨m, hm⟩ := (hI.sound types hW).2 f _ hg t ht
      exact hI.closed.fn_fuel hm
    | _ => simp [run_apanic] at h
  | none =>
    rw [hg] at h
    cases hft : types.funcs[f]? with
    | none => simp only [hft, bind_ok, run_apanic, reduceCtorEq, false_and, exists_false] at h
    | some ft =>
      simp only [hft, bind_ok, run_pure, run_getAgg, run_modifyTypes, run_remappedInsertNew, Except.ok.injEq,
        Prod.mk.injEq] at h
      obtain ⟨_, _, ⟨rfl, rfl⟩, ps', s1, h1, r', s2, h2, ag, s3, ⟨rfl, rfl⟩, u, s4, ⟨_, rfl⟩, u', s5, h5, rfl, rfl⟩ := h
      have hmono : ∀ s s' a b, Step types.uid s s' → PostVT types s a b → PostVT types s' a b :=
        fun s s' a b hst hp => hp.mono hst
      obtain ⟨hI1, hst1, hps⟩ := mapMList_inv (I := RInv W) (R := Step types.uid)
        (Q := fun s (c c' : Str × ValueType) => c.1 = c'.1 ∧ PostVT types s c.2 c'.2) (Step.refl _)
        (fun _ _ _ => Step.trans)
        (by intro s s' a b hst ⟨h1, h2⟩; exact ⟨h1, h2.mono hst⟩)
        ft.params
        (by
          intro a _ s b s' hI h
          simp only [bind_ok, run_pure, Except.ok.injEq, Prod.mk.injEq] at h
          obtain ⟨o', s1, h1, rfl, rfl⟩ := h
          have := hv a.2 s o' s1 hI h1
          exact ⟨this.1, this.2.1, rfl, this.2.2⟩)
        s ps' s1 hI h1
      obtain ⟨hI2, hst2, hr⟩ := mapMOpt_spec hv ft.result s1 r' s2 hI1 h2
      split at h5
      · cases h5
      · simp only [Except.ok.injEq, Prod.mk.injEq, true_and] at h5
        subst h5
        have hps2 : All2 (fun (c c' : Str × ValueType) => c.1 = c'.1 ∧ PostVT types s2 c.2 c'.2) ft.params ps' :=
          hps.mono (fun a b ⟨h1, h2⟩ => ⟨h1, h2.mono hst2⟩)
        have hext : Ext s2.agg.types (pushFunc s2 { params := ps', result := r', isAsync := ft.isAsync }).agg.types :=
          ext_pushFunc _ _
        have hstep3 : Step types.uid s2 (setRemapped (pushFunc s2 { params := ps', result := r', isAsync := ft.isAsync })
            (GTy.mk' types (.func f)) (.func s2.agg.types.funcs.length)) := by
          refine ⟨hext, rfl, rfl, rfl, rfl, rfl, rfl, rfl, rfl, ?_, ?_⟩
          · intro g hg'
            simp only [setRemapped, pushFunc, alGet_alInsert] at hg'
            split at hg'
            · rename_i he
              right
              rw [eq_of_beq he |>.symm]
              exact gty_uid_of_hasId _ _ rfl
            · exact .inl hg'
          · intro uid i
            simp only [setRemapped, pushFunc, alGet_alInsert]
            split
            · rename_i he
              have := eq_of_beq he
              simp [GTy.mk'] at this
            · rfl
        have hpost : ∀ t, HasFn types f t →
            (pushFunc s2 { params := ps', result := r', isAsync := ft.isAsync }).agg.types.unfoldFunc
              (s2.agg.types.defined.length + 1) s2.agg.types.funcs.length = some t := by
          intro t ⟨m, hm⟩
          simp only [Types.unfoldFunc, hft] at hm
          have hget : (pushFunc s2 { params := ps', result := r', isAsync := ft.isAsync }).agg.types.funcs[s2.agg.types.funcs.length]?
              = some { params := ps', result := r', isAsync := ft.isAsync } := by simp [pushFunc]
          simp only [Types.unfoldFunc, hget]
          have H : ∀ v v' t, PostVT types s2 v v' → types.unfoldVT m v = some t →
              (pushFunc s2 { params := ps', result := r', isAsync := ft.isAsync }).agg.types.unfoldVT
                (s2.agg.types.defined.length + 1) v' = some t :=
            fun v v' t0 hq hv => hext.unfoldVT _ _ _ (hq t0 ⟨m, hv⟩)
          split at hm
          · rename_i psT rT g1 g2
            rw [unfoldNamed_congr H hps2 psT g1, unfoldOpt_congr H hr rT g2]
            exact hm
          · cases hm
        refine ⟨⟨?_, ?_, hI2.shape.insert _ _ (fun d hd => by simp [GTy.mk'] at hd) (fun _ _ => ⟨_, rfl⟩)⟩,
          (hst1.trans hst2).trans hstep3, ?_⟩
        · intro C hC
          obtain ⟨k1, k2⟩ := hI2.sound.ext hext C hC
          refine ⟨fun d v' hg' t ht => ?_, fun f0 f0' hg' t ht => ?_⟩
          · simp only [setRemapped, pushFunc, alGet_alInsert] at hg'
            split at hg'
            · rename_i he
              obtain ⟨_, hty⟩ := gty_mk_inj hW hC rfl (eq_of_beq he)
              cases hty
            · exact k1 d v' hg' t ht
          · simp only [setRemapped, pushFunc, alGet_alInsert] at hg'
            split at hg'
            · rename_i he
              obtain ⟨rfl, hty⟩ := gty_mk_inj hW hC rfl (eq_of_beq he)
              cases hty
              cases hg'
              exact ⟨_, hpost t ht⟩
            · exact k2 f0 f0' hg' t ht
        · intro d hd
          obtain ⟨t, ht⟩ := hI2.closed d (by simpa [setRemapped, pushFunc] using hd)
          exact ⟨t, hext.unfoldVT _ _ _ ht⟩
        · intro t ht
          have := hpost t ht
          simpa [setRemapped, pushFunc] using this

/-! ### leaf kinds -/

/-- the copy of a leaf kind unfolds to the same tree -/
def PostK (types : Types) (s' : AggState) (k k' : ItemKind) : Prop :=
  LeafK k' ∧ ∀ t, HasTree types k t → s'.agg.types.unfoldKind (s'.agg.types.defined.length + 2) k' = some t

/-- **`remap_item_kind` on functions and values** -/
theorem remapKind_leaf_spec (n : Nat) (k : ItemKind) (hk : LeafK k) (s : AggState) (k' : ItemKind) (s' : AggState)
    (hI : RInv W s) (h : remapKind n types k s = .ok (k', s')) :
    RInv W s' ∧ Step types.uid s s' ∧ PostK types s' k k' := by
  cases n with
  | zero => simp [remapKind, run_apanic] at h
  | succ n =>
    cases k with
    | func f =>
      simp only [remapKind, bind_ok, run_pure, Except.ok.injEq, Prod.mk.injEq] at h
      obtain ⟨f', s1, h1, rfl, rfl⟩ := h
      obtain ⟨a, b, c⟩ := remapFunc_spec hW hs n f s f' s1 hI h1
      refine ⟨a, b, trivial, fun t ⟨m, hm⟩ => ?_⟩
      cases m with
      | zero => simp [Types.unfoldKind] at hm
      | succ m =>
        simp only [Types.unfoldKind] at hm ⊢
        exact c t ⟨m, hm⟩
    | value v =>
      simp only [remapKind, bind_ok, run_pure, Except.ok.injEq, Prod.mk.injEq] at h
      obtain ⟨v', s1, h1, rfl, rfl⟩ := h
      obtain ⟨a, b, c⟩ := (remapVT_spec hW hs n).1 v s v' s1 hI h1
      refine ⟨a, b, trivial, fun t ⟨m, hm⟩ => ?_⟩
      cases m with
      | zero => simp [Types.unfoldKind] at hm
      | succ m =>
        simp only [Types.unfoldKind] at hm ⊢
        obtain ⟨x, hx, rfl⟩ := Option.map_eq_some_iff.1 hm
        rw [c x ⟨m, hx⟩]; rfl
    | type ty =>
      cases ty with
      | func f =>
        simp only [remapKind, bind_ok, run_pure, Except.ok.injEq, Prod.mk.injEq] at h
        obtain ⟨f', s1, h1, rfl, rfl⟩ := h
        obtain ⟨a, b, c⟩ := remapFunc_spec hW hs n f s f' s1 hI h1
        refine ⟨a, b, trivial, fun t ⟨m, hm⟩ => ?_⟩
        cases m with
        | zero => simp [Types.unfoldKind] at hm
        | succ m =>
          simp only [Types.unfoldKind] at hm ⊢
          obtain ⟨x, hx, rfl⟩ := Option.map_eq_some_iff.1 hm
          rw [c x ⟨m, hx⟩]; rfl
      | value v =>
        simp only [remapKind, bind_ok, run_pure, Except.ok.injEq, Prod.mk.injEq] at h
        obtain ⟨v', s1, h1, rfl, rfl⟩ := h
        obtain ⟨a, b, c⟩ := (remapVT_spec hW hs n).1 v s v' s1 hI h1
        refine ⟨a, b, trivial, fun t ⟨m, hm⟩ => ?_⟩
        cases m with
        | zero => simp [Types.unfoldKind] at hm
        | succ m =>
          simp only [Types.unfoldKind] at hm ⊢
          obtain ⟨x, hx, rfl⟩ := Option.map_eq_some_iff.1 hm
          rw [c x ⟨m, hx⟩]; rfl
      | _ => cases hk
    | «instance» _ => cases hk
    | component _ => cases hk
    | module _ => cases hk

end remap

end Wac.AggP
