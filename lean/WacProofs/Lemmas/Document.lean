import WacProofs.Lemmas.Statements
/-
  C12 proofs: the document level.  `parseStatements` (the `while lexer.peek().is_some()` loop) and
  `parseTokens` (`Document::parse` after lexing) against `gDocument` / `derivations`, given
  statement-level soundness and completeness (`StmtSound`, `StmtComplete`, discharged in
  `Interfaces*.lean`).
-/
namespace Wac.C12
open Wac Wac.Ast Wac.Lex Wac.Parse Wac.Spec.Grammar

/-- statement-level soundness, as needed by the document level -/
def StmtSound : Prop :=
  ∀ pf st s st', WF st → parseStatement pf st = .ok (s, st') → Sound eraseStatement gStatement 0 st s st'

/-- statement-level completeness, as needed by the document level -/
def StmtComplete : Prop :=
  ∀ gf st, WF st → ∀ x r, (x, r) ∈ gStatement gf (abs st) → ∀ pf, gf + 2 ≤ pf →
    ∃ s st', parseStatement pf st = .ok (s, st') ∧ eraseStatement s = x ∧ abs st' = r

theorem effToks_length (d : Nat) (toks : List LTok) : (effToks d toks).length = toks.length := by
  induction toks generalizing d with
  | nil => rfl
  | cons a r ih => rw [effToks_cons]; simp [ih]

theorem eff_length (st : PState) : (eff st).length = st.toks.length := effToks_length _ _

theorem toks_nil_of_abs_nil {st : PState} (h : abs st = []) : st.toks = [] := by
  have : (abs st).length = st.toks.length := by simp [abs, eff_length]
  rw [h] at this
  exact List.eq_nil_of_length_eq_zero this.symm

theorem parseStatements_sound (hS : StmtSound) (pf n : Nat) (st : PState) (ss : List Statement)
    (st' : PState) (hwf : WF st) (h : parseStatements pf n st = .ok (ss, st')) :
    st'.toks = [] ∧ ss.length ≤ st.toks.length ∧
      ∀ gf, st.toks.length ≤ gf → Many (gStatement gf) (ss.map eraseStatement) (abs st) [] := by
  induction n generalizing st ss st' with
  | zero => simp [parseStatements] at h
  | succ n ih =>
    unfold parseStatements at h
    split at h
    · rename_i hp
      cases h
      have : st.toks = [] := by simpa [PState.peek] using hp
      exact ⟨this, by simp, fun gf _ => by rw [abs_nil this]; exact .nil _⟩
    · simp only [Except.bind_eq_ok, Prod.exists] at h
      obtain ⟨s, st1, hs, rest, st2, hrest, h3⟩ := h
      cases h3
      obtain ⟨hsuf, hlt, hm⟩ := hS _ _ _ _ hwf hs
      obtain ⟨h1, h2, h3⟩ := ih _ _ _ (hwf.suf hsuf) hrest
      refine ⟨h1, by simp; omega, fun gf hgf => ?_⟩
      exact .cons (hm gf (by omega)) (h3 gf (by omega))

theorem parseStatements_complete (hS : StmtSound) (hC : StmtComplete) (gf pf : Nat) (hpf : gf + 2 ≤ pf)
    {xs : List Statement} {ts r : List STok} (hm : Many (gStatement gf) xs ts r) (hr : r = [])
    (st : PState) (hts : ts = abs st) (hwf : WF st) (n : Nat) (hn : st.toks.length < n) :
    ∃ ss st', parseStatements pf n st = .ok (ss, st') ∧ ss.map eraseStatement = xs := by
  induction hm generalizing st n with
  | nil =>
    subst hts
    obtain ⟨m, rfl⟩ : ∃ m, n = m + 1 := ⟨n - 1, by omega⟩
    have : st.toks = [] := toks_nil_of_abs_nil hr
    exact ⟨[], st, by simp [parseStatements, PState.peek, this], rfl⟩
  | cons h1 _ ih =>
    subst hts
    obtain ⟨m, rfl⟩ : ∃ m, n = m + 1 := ⟨n - 1, by omega⟩
    obtain ⟨s, st1, hs, rfl, rfl⟩ := hC gf st hwf _ _ h1 pf hpf
    obtain ⟨hsuf, hlt, _⟩ := hS _ _ _ _ hwf hs
    obtain ⟨ss, st', hrec, hss⟩ := ih hr st1 rfl (hwf.suf hsuf) m (by omega)
    have hne : st.peek ≠ none := by
      intro hp
      have : st.toks = [] := by simpa [PState.peek] using hp
      rw [this] at hlt; simp at hlt
    refine ⟨s :: ss, st', ?_, by simp [hss]⟩
    unfold parseStatements
    split
    · rename_i hp; exact absurd hp hne
    · simp [hs, hrec]

theorem mem_derivations (d : Document) (ts : List STok) :
    d ∈ derivations ts ↔ (d, []) ∈ gDocument (ts.length + 2) ts := by
  unfold derivations
  simp only [List.mem_map, List.mem_filter, Prod.exists]
  constructor
  · rintro ⟨d', r, ⟨h1, h2⟩, rfl⟩
    have : r = [] := by simpa using h2
    subst this; exact h1
  · intro h
    exact ⟨d, [], ⟨h, by simp⟩, rfl⟩

theorem abs_length (st : PState) : (abs st).length = st.toks.length := by simp [abs, eff_length]

theorem abs_eq_nil_iff (st : PState) : abs st = [] ↔ st.toks = [] :=
  ⟨toks_nil_of_abs_nil, abs_nil⟩

/-- **soundness of the parser model** (given statement-level soundness): an accepted token
sequence is derivable from the grammar, with the tree the parser built (up to spans and docs) -/
theorem parseTokens_sound (hV : SemverAgree) (hS : StmtSound) (st : PState) (d : Document)
    (hwf : WF st) (h : parseTokens st = .ok d) : eraseDocument d ∈ derivations (abs st) := by
  rw [mem_derivations, abs_length]
  simp only [parseTokens, parsePackageDirective, Except.bind_eq_ok, Prod.exists, parseToken_eq_ok,
    parsePackageName_eq_ok, parseOptional_eq_ok, parsePackagePath_eq_ok] at h
  obtain ⟨dir, st4, ⟨t1, st1, ⟨k1, rfl, rfl⟩, pkg, st2, ⟨k2, hpkg, rfl⟩, tg, st3, htg, t4, st4', ⟨k4, rfl, rfl⟩,
    hdir⟩, ss, st5, hss, hd⟩ := h
  cases hdir; cases hd
  have l1 := len_of_nextTok k1
  have l2 := len_of_nextTok k2
  have l4 := len_of_nextTok k4
  have hagree := pkgNameAt_agree hV (tokAt (adv st))
  rw [hpkg] at hagree
  rcases htg with ⟨k3, path, ⟨k3', hpath, rfl⟩, rfl⟩ | ⟨k3, _, rfl, rfl⟩
  · -- with `targets`
    have l3 := len_of_nextTok k3
    have l3' := len_of_nextTok k3'
    have hwf3 : WF (adv (adv (adv st))) := hwf.adv.adv.adv
    have hpagree := pkgPathAt_agree hV (tokAt (adv (adv (adv st)))) (hwf3.shape k3')
    rw [hpath] at hpagree
    have hwf5 : WF (adv (adv (adv (adv (adv st))))) := hwf3.adv.adv
    obtain ⟨h1, h2, h3⟩ := parseStatements_sound hS _ _ _ _ _ hwf5 hss
    simp [gDocument, k1, k2, k3, k3', mem_gPackageName, mem_gPackagePath, mem_many, and_assoc, ← hagree,
      ← hpagree, eraseDocument, erasePackageDirective]
    exact ⟨k4, _, _, h3 _ (by omega), by simp; omega, rfl, rfl⟩
  · -- without
    have hwf3 : WF (adv (adv (adv st))) := hwf.adv.adv.adv
    obtain ⟨h1, h2, h3⟩ := parseStatements_sound hS _ _ _ _ _ hwf3 hss
    simp [gDocument, k1, k2, mem_gPackageName, mem_gPackagePath, mem_many, and_assoc, ← hagree,
      eraseDocument, erasePackageDirective]
    right
    exact ⟨k4, _, _, h3 _ (by omega), by simp; omega, rfl, rfl⟩

/-- **completeness of the parser model** (given the statement level): every derivation of the
whole token sequence is the tree the parser returns (up to spans and docs) -/
theorem parseTokens_complete (hV : SemverAgree) (hS : StmtSound) (hC : StmtComplete) (st : PState)
    (hwf : WF st) (d' : Document) (h : d' ∈ derivations (abs st)) :
    ∃ d, parseTokens st = .ok d ∧ eraseDocument d = d' := by
  rw [mem_derivations, abs_length] at h
  simp [gDocument, mem_gPackageName, mem_gPackagePath, mem_many, and_assoc] at h
  obtain ⟨k1, k2, pkg', hpkg, hrest⟩ := h
  have hagree := pkgNameAt_agree hV (tokAt (adv st))
  rw [hpkg] at hagree
  obtain ⟨pkg, hpkg0, rfl⟩ := Option.map_eq_some_iff.mp hagree
  have l1 := len_of_nextTok k1
  have l2 := len_of_nextTok k2
  have hfuel : st.toks.length + 2 + 2 ≤ fuelFor st.toks.length := by unfold fuelFor; omega
  rcases hrest with ⟨k3, k3', tg, r2, ⟨path', hpath, rfl, rfl⟩, u, r3, hsemi, ss', r4, hm, _, rfl, rfl⟩ |
    ⟨k3, ss', r4, hm, _, rfl, rfl⟩
  · -- with `targets`
    have hwf3 : WF (adv (adv (adv st))) := hwf.adv.adv.adv
    have hpagree := pkgPathAt_agree hV (tokAt (adv (adv (adv st)))) (hwf3.shape k3')
    rw [hpath] at hpagree
    obtain ⟨path, hpath0, rfl⟩ := Option.map_eq_some_iff.mp hpagree
    simp at hsemi
    obtain ⟨k4, rfl⟩ := hsemi
    have l3 := len_of_nextTok k3
    have l3' := len_of_nextTok k3'
    have l4 := len_of_nextTok k4
    obtain ⟨ss, st', hss, rfl⟩ := parseStatements_complete hS hC _ _ hfuel hm rfl _ rfl hwf3.adv.adv
      ((adv (adv (adv (adv (adv st))))).toks.length + 1) (by omega)
    have hopt : parseOptional (adv (adv st)) .TargetsKeyword parsePackagePath =
        .ok (some path, adv (adv (adv (adv st)))) :=
      parseOptional_eq_ok.mpr (.inl ⟨k3, path, parsePackagePath_eq_ok.mpr ⟨k3', hpath0, rfl⟩, rfl⟩)
    refine ⟨⟨parseDocs st, ⟨pkg, some path⟩, ss⟩, ?_, ?_⟩
    · simp only [parseTokens, parsePackageDirective, parseToken_ok k1,
        parsePackageName_eq_ok.mpr ⟨k2, hpkg0, rfl⟩, hopt, parseToken_ok k4, hss, Except.ok_bind]
    · simp [eraseDocument, erasePackageDirective]
  · -- without
    have l3 := len_of_nextTok k3
    obtain ⟨ss, st', hss, rfl⟩ := parseStatements_complete hS hC _ _ hfuel hm rfl _ rfl hwf.adv.adv.adv
      ((adv (adv (adv st))).toks.length + 1) (by omega)
    have hopt : parseOptional (adv (adv st)) .TargetsKeyword parsePackagePath =
        .ok (none, adv (adv st)) :=
      parseOptional_eq_ok.mpr (.inr ⟨by simp [k3], peekErr_of_nextTok k3, rfl, rfl⟩)
    refine ⟨⟨parseDocs st, ⟨pkg, none⟩, ss⟩, ?_, ?_⟩
    · simp only [parseTokens, parsePackageDirective, parseToken_ok k1,
        parsePackageName_eq_ok.mpr ⟨k2, hpkg0, rfl⟩, hopt, parseToken_ok k3, hss, Except.ok_bind]
    · simp [eraseDocument, erasePackageDirective]

/-- the grammar is unambiguous on every token sequence the parser can be run on (given the
statement level): any two derivations are equal -/
theorem derivations_unique (hV : SemverAgree) (hS : StmtSound) (hC : StmtComplete) (st : PState)
    (hwf : WF st) (d1 d2 : Document) (h1 : d1 ∈ derivations (abs st)) (h2 : d2 ∈ derivations (abs st)) :
    d1 = d2 := by
  obtain ⟨e1, he1, rfl⟩ := parseTokens_complete hV hS hC st hwf d1 h1
  obtain ⟨e2, he2, rfl⟩ := parseTokens_complete hV hS hC st hwf d2 h2
  rw [he1] at he2
  cases he2; rfl

end Wac.C12
