import WacProofs.Lemmas.CheckerKind
/- helper definitions for the statements of WacProofs/Props/C07.lean -/
namespace Wac.Props.C07
open Wac Wac.Spec

/-- the family {at, bt} of the (at most) two collections of one check -/
def pairColls (at_ bt : Types) (hu : at_.uid = bt.uid → at_ = bt) : Colls where
  mem s := s = at_ ∨ s = bt
  inj s t hs ht h := by
    rcases hs with rfl | rfl <;> rcases ht with rfl | rfl
    · rfl
    · exact hu h
    · exact (hu h.symm).symm
    · rfl

theorem memoSound_nil (W : Colls) : MemoSound W [] := by
  intro _ _ _ _ _ _ h; cases h

mutual
theorem eraseRes_of_resourceFree : ∀ t : Tree, t.resourceFree = true → eraseRes t = t
  | .none, _ => rfl | .prim _, _ => rfl | .flags _, _ => rfl | .enum _, _ => rfl | .module _, _ => rfl
  | .own _, h => by simp [Tree.resourceFree] at h
  | .borrow _, h => by simp [Tree.resourceFree] at h
  | .resource _, h => by simp [Tree.resourceFree] at h
  | .tuple f, h => by simp only [Tree.resourceFree] at h; simp [eraseRes, eraseResF_of_resourceFree f h]
  | .variant f, h => by simp only [Tree.resourceFree] at h; simp [eraseRes, eraseResF_of_resourceFree f h]
  | .record f, h => by simp only [Tree.resourceFree] at h; simp [eraseRes, eraseResF_of_resourceFree f h]
  | .instance f, h => by simp only [Tree.resourceFree] at h; simp [eraseRes, eraseResF_of_resourceFree f h]
  | .list t, h => by simp only [Tree.resourceFree] at h; simp [eraseRes, eraseRes_of_resourceFree t h]
  | .fixedList t _, h => by simp only [Tree.resourceFree] at h; simp [eraseRes, eraseRes_of_resourceFree t h]
  | .option t, h => by simp only [Tree.resourceFree] at h; simp [eraseRes, eraseRes_of_resourceFree t h]
  | .stream t, h => by simp only [Tree.resourceFree] at h; simp [eraseRes, eraseRes_of_resourceFree t h]
  | .future t, h => by simp only [Tree.resourceFree] at h; simp [eraseRes, eraseRes_of_resourceFree t h]
  | .value t, h => by simp only [Tree.resourceFree] at h; simp [eraseRes, eraseRes_of_resourceFree t h]
  | .type t, h => by simp only [Tree.resourceFree] at h; simp [eraseRes, eraseRes_of_resourceFree t h]
  | .result a b, h => by
    simp only [Tree.resourceFree, Bool.and_eq_true] at h
    simp [eraseRes, eraseRes_of_resourceFree a h.1, eraseRes_of_resourceFree b h.2]
  | .func _ ps r, h => by
    simp only [Tree.resourceFree, Bool.and_eq_true] at h
    simp [eraseRes, eraseResF_of_resourceFree ps h.1, eraseRes_of_resourceFree r h.2]
  | .component i e, h => by
    simp only [Tree.resourceFree, Bool.and_eq_true] at h
    simp [eraseRes, eraseResF_of_resourceFree i h.1, eraseResF_of_resourceFree e h.2]
termination_by structural t => t
theorem eraseResF_of_resourceFree : ∀ f : Forest, f.resourceFree = true → eraseResF f = f
  | .nil, _ => rfl
  | .cons n t r, h => by
    simp only [Forest.resourceFree, Bool.and_eq_true] at h
    simp [eraseResF, eraseRes_of_resourceFree t h.1, eraseResF_of_resourceFree r h.2]
termination_by structural f => f
end

/-- on resource-free trees the relation the checker decides *is* the subtype relation -/
theorem subNames_eq_sub (ta tb : Tree) (ha : ta.resourceFree = true) (hb : tb.resourceFree = true) :
    subNames ta tb = sub ta tb := by
  simp [subNames, eraseRes_of_resourceFree ta ha, eraseRes_of_resourceFree tb hb]


/-- the C07 main correspondence, usable from other lemma files -/
theorem check_iff_subNames' (W : Colls) (n : Nat) (c : Checker) (at_ bt : Types) (a b : ItemKind) (ta tb : Tree)
    (hat : W.mem at_) (hbt : W.mem bt) (hm : MemoSound W c.cache)
    (ha : at_.unfoldKind n a = some ta) (hb : bt.unfoldKind n b = some tb)
    (hnda : ta.namesDistinct = true) (hndb : tb.namesDistinct = true) :
    ((isSubtype n c at_ a bt b).1 = .ok ↔ subNames ta tb = true) ∧
    (∀ s, (isSubtype n c at_ a bt b).1 ≠ .panic s) ∧
    MemoSound W (isSubtype n c at_ a bt b).2.cache ∧
    ((isSubtype n c at_ a bt b).1 = .ok → (isSubtype n c at_ a bt b).2.kinds = c.kinds) := by
  have h := isSubtype_spec W n at_ bt hat hbt c a b ta tb hm ha hb hnda hndb
  exact ⟨h.1.1, h.1.2, h.2.1, h.2.2⟩

end Wac.Props.C07
