import WacProofs.Lemmas.CheckerKind
import WacModel.Spec.SubRes
/-
  C07, resource clause lifted from leaves to whole trees.

  (1) `eraseRes` is injective on trees whose resource leaves have injective names;
  (2) hence name-based subtyping (`subNames` = `sub` on the erased trees) and identity-based
      subtyping (`sub`) coincide on such trees — by structural induction over the first tree,
      for `sub`/`sup`/`subShared`/`supAll` together;
  (3) every leaf of a tree unfolded from a collection is one of its `rootResources`.
-/
namespace Wac.Spec
open Wac

/-- names identify the leaves that satisfy `p` -/
def InjOn (p : Res → Bool) : Prop := ∀ r s, p r = true → p s = true → r.name = s.name → r = s

/-! ### (1) `eraseRes` is injective under `InjOn` -/

mutual
theorem eraseRes_inj {p : Res → Bool} (hinj : InjOn p) :
    ∀ a b : Tree, allRes p a = true → allRes p b = true → eraseRes a = eraseRes b → a = b
  | .own r, b, ha, hb, h => by
    cases b with
    | own s =>
      simp only [allRes] at ha hb
      simp only [eraseRes, Tree.own.injEq, eraseR, Res.mk.injEq, true_and] at h
      rw [hinj r s ha hb h]
    | _ => simp [eraseRes] at h
  | .borrow r, b, ha, hb, h => by
    cases b with
    | borrow s =>
      simp only [allRes] at ha hb
      simp only [eraseRes, Tree.borrow.injEq, eraseR, Res.mk.injEq, true_and] at h
      rw [hinj r s ha hb h]
    | _ => simp [eraseRes] at h
  | .resource r, b, ha, hb, h => by
    cases b with
    | resource s =>
      simp only [allRes] at ha hb
      simp only [eraseRes, Tree.resource.injEq, eraseR, Res.mk.injEq, true_and] at h
      rw [hinj r s ha hb h]
    | _ => simp [eraseRes] at h
  | .none, b, _, _, h => by cases b <;> simp [eraseRes] at h ⊢
  | .prim _, b, _, _, h => by cases b <;> simp [eraseRes] at h ⊢ <;> exact h
  | .flags _, b, _, _, h => by cases b <;> simp [eraseRes] at h ⊢ <;> exact h
  | .enum _, b, _, _, h => by cases b <;> simp [eraseRes] at h ⊢ <;> exact h
  | .module _, b, _, _, h => by cases b <;> simp [eraseRes] at h ⊢ <;> exact h
  | .tuple f, b, ha, hb, h => by
    cases b with
    | tuple g =>
      simp only [allRes] at ha hb
      simp only [eraseRes, Tree.tuple.injEq] at h
      rw [eraseResF_inj hinj f g ha hb h]
    | _ => simp [eraseRes] at h
  | .variant f, b, ha, hb, h => by
    cases b with
    | variant g =>
      simp only [allRes] at ha hb
      simp only [eraseRes, Tree.variant.injEq] at h
      rw [eraseResF_inj hinj f g ha hb h]
    | _ => simp [eraseRes] at h
  | .record f, b, ha, hb, h => by
    cases b with
    | record g =>
      simp only [allRes] at ha hb
      simp only [eraseRes, Tree.record.injEq] at h
      rw [eraseResF_inj hinj f g ha hb h]
    | _ => simp [eraseRes] at h
  | .instance f, b, ha, hb, h => by
    cases b with
    | «instance» g =>
      simp only [allRes] at ha hb
      simp only [eraseRes, Tree.instance.injEq] at h
      rw [eraseResF_inj hinj f g ha hb h]
    | _ => simp [eraseRes] at h
  | .list t, b, ha, hb, h => by
    cases b with
    | list u =>
      simp only [allRes] at ha hb
      simp only [eraseRes, Tree.list.injEq] at h
      rw [eraseRes_inj hinj t u ha hb h]
    | _ => simp [eraseRes] at h
  | .fixedList t n, b, ha, hb, h => by
    cases b with
    | fixedList u m =>
      simp only [allRes] at ha hb
      simp only [eraseRes, Tree.fixedList.injEq] at h
      rw [eraseRes_inj hinj t u ha hb h.1, h.2]
    | _ => simp [eraseRes] at h
  | .option t, b, ha, hb, h => by
    cases b with
    | option u =>
      simp only [allRes] at ha hb
      simp only [eraseRes, Tree.option.injEq] at h
      rw [eraseRes_inj hinj t u ha hb h]
    | _ => simp [eraseRes] at h
  | .stream t, b, ha, hb, h => by
    cases b with
    | stream u =>
      simp only [allRes] at ha hb
      simp only [eraseRes, Tree.stream.injEq] at h
      rw [eraseRes_inj hinj t u ha hb h]
    | _ => simp [eraseRes] at h
  | .future t, b, ha, hb, h => by
    cases b with
    | future u =>
      simp only [allRes] at ha hb
      simp only [eraseRes, Tree.future.injEq] at h
      rw [eraseRes_inj hinj t u ha hb h]
    | _ => simp [eraseRes] at h
  | .value t, b, ha, hb, h => by
    cases b with
    | value u =>
      simp only [allRes] at ha hb
      simp only [eraseRes, Tree.value.injEq] at h
      rw [eraseRes_inj hinj t u ha hb h]
    | _ => simp [eraseRes] at h
  | .type t, b, ha, hb, h => by
    cases b with
    | type u =>
      simp only [allRes] at ha hb
      simp only [eraseRes, Tree.type.injEq] at h
      rw [eraseRes_inj hinj t u ha hb h]
    | _ => simp [eraseRes] at h
  | .result t1 t2, b, ha, hb, h => by
    cases b with
    | result u1 u2 =>
      simp only [allRes, Bool.and_eq_true] at ha hb
      simp only [eraseRes, Tree.result.injEq] at h
      rw [eraseRes_inj hinj t1 u1 ha.1 hb.1 h.1, eraseRes_inj hinj t2 u2 ha.2 hb.2 h.2]
    | _ => simp [eraseRes] at h
  | .func x ps r, b, ha, hb, h => by
    cases b with
    | func y qs s =>
      simp only [allRes, Bool.and_eq_true] at ha hb
      simp only [eraseRes, Tree.func.injEq] at h
      rw [h.1, eraseResF_inj hinj ps qs ha.1 hb.1 h.2.1, eraseRes_inj hinj r s ha.2 hb.2 h.2.2]
    | _ => simp [eraseRes] at h
  | .component i e, b, ha, hb, h => by
    cases b with
    | component j g =>
      simp only [allRes, Bool.and_eq_true] at ha hb
      simp only [eraseRes, Tree.component.injEq] at h
      rw [eraseResF_inj hinj i j ha.1 hb.1 h.1, eraseResF_inj hinj e g ha.2 hb.2 h.2]
    | _ => simp [eraseRes] at h
termination_by structural a => a
theorem eraseResF_inj {p : Res → Bool} (hinj : InjOn p) :
    ∀ f g : Forest, allResF p f = true → allResF p g = true → eraseResF f = eraseResF g → f = g
  | .nil, g, _, _, h => by cases g <;> simp [eraseResF] at h ⊢
  | .cons n t r, g, ha, hb, h => by
    cases g with
    | nil => simp [eraseResF] at h
    | cons m u s =>
      simp only [allResF, Bool.and_eq_true] at ha hb
      simp only [eraseResF, Forest.cons.injEq] at h
      rw [h.1, eraseRes_inj hinj t u ha.1 hb.1 h.2.1, eraseResF_inj hinj r s ha.2 hb.2 h.2.2]
termination_by structural f => f
end

theorem beq_erase {p : Res → Bool} (hinj : InjOn p) (a b : Tree)
    (ha : allRes p a = true) (hb : allRes p b = true) : (eraseRes a == eraseRes b) = (a == b) := by
  rw [Bool.eq_iff_iff]
  simp only [beq_iff_eq]
  exact ⟨eraseRes_inj hinj a b ha hb, fun h => by rw [h]⟩

/-! ### forests under erasure -/

theorem get_erase : ∀ (g : Forest) (k : Str), (eraseResF g).get k = (g.get k).map eraseRes
  | .nil, k => by simp [eraseResF, Forest.get]
  | .cons n t r, k => by
    simp only [eraseResF, Forest.get]
    split
    · rfl
    · exact get_erase r k

theorem hasName_erase : ∀ (g : Forest) (k : Str), (eraseResF g).hasName k = g.hasName k
  | .nil, k => by simp [eraseResF, Forest.hasName]
  | .cons n t r, k => by simp only [eraseResF, Forest.hasName, hasName_erase r k]

theorem namesIn_erase : ∀ (f g : Forest), (eraseResF f).namesIn (eraseResF g) = f.namesIn g
  | .nil, g => by simp [eraseResF, Forest.namesIn]
  | .cons n t r, g => by simp only [eraseResF, Forest.namesIn, hasName_erase, namesIn_erase r g]

theorem allResF_get {p : Res → Bool} : ∀ (g : Forest) (k : Str) (t : Tree),
    allResF p g = true → g.get k = some t → allRes p t = true
  | .nil, k, t, _, h => by simp [Forest.get] at h
  | .cons n u r, k, t, ha, h => by
    simp only [allResF, Bool.and_eq_true] at ha
    simp only [Forest.get] at h
    split at h
    · cases h; exact ha.1
    · exact allResF_get r k t ha.2 h

/-! ### (2) name-based = identity-based subtyping -/

theorem isEqKind_erase (a : Tree) : isEqKind (eraseRes a) = isEqKind a := by
  cases a <;> simp [eraseRes, isEqKind]

theorem sup_eqKind_left (a b : Tree) (h : isEqKind a = true) : sup a b = (a == b) := by
  cases a <;> simp [isEqKind] at h <;> simp [sup]

theorem sup_eqKind_right (a b : Tree) (h : isEqKind a = true) : sup b a = (b == a) := by
  cases a <;> simp [isEqKind] at h <;> cases b <;> simp [sup]

/-- the statement proved by structural recursion on `a` -/
def EraseP (p : Res → Bool) (a : Tree) : Prop :=
  ∀ b, allRes p a = true → allRes p b = true →
    sub (eraseRes a) (eraseRes b) = sub a b ∧ sup (eraseRes a) (eraseRes b) = sup a b

def EraseFP (p : Res → Bool) (f : Forest) : Prop :=
  ∀ g, allResF p f = true → allResF p g = true →
    subShared (eraseResF f) (eraseResF g) = subShared f g ∧ supAll (eraseResF f) (eraseResF g) = supAll f g

theorem eraseP_eqKind {p : Res → Bool} (hinj : InjOn p) (a : Tree) (h : isEqKind a = true) : EraseP p a := by
  intro b ha hb
  have he : isEqKind (eraseRes a) = true := by rw [isEqKind_erase]; exact h
  rw [sub_eqKind_left _ _ he, sub_eqKind_left _ _ h, sup_eqKind_left _ _ he, sup_eqKind_left _ _ h]
  exact ⟨beq_erase hinj a b ha hb, beq_erase hinj a b ha hb⟩

/-- a non-equality kind against an equality kind -/
theorem eraseP_right_eqKind {p : Res → Bool} (hinj : InjOn p) (a b : Tree) (h : isEqKind b = true)
    (ha : allRes p a = true) (hb : allRes p b = true) :
    sub (eraseRes a) (eraseRes b) = sub a b ∧ sup (eraseRes a) (eraseRes b) = sup a b := by
  have he : isEqKind (eraseRes b) = true := by rw [isEqKind_erase]; exact h
  rw [sub_eqKind_right _ _ he, sub_eqKind_right _ _ h, sup_eqKind_right _ _ he, sup_eqKind_right _ _ h]
  exact ⟨beq_erase hinj a b ha hb, beq_erase hinj a b ha hb⟩

mutual
theorem tree_erase {p : Res → Bool} (hinj : InjOn p) : ∀ a : Tree, EraseP p a
  | .instance ea => by
    intro b ha hb
    cases b with
    | «instance» eb =>
      simp only [allRes] at ha hb
      have L := forest_erase hinj ea eb ha hb
      simp only [eraseRes, sub, sup, namesIn_erase, L.1, L.2, and_self]
    | component _ _ => simpa [eraseRes, sub, sup] using beq_erase hinj _ _ ha hb
    | module _ => simpa [eraseRes, sub, sup] using beq_erase hinj _ _ ha hb
    | type _ => simpa [eraseRes, sub, sup] using beq_erase hinj _ _ ha hb
    | _ => exact eraseP_right_eqKind hinj _ _ rfl ha hb
  | .component ia ea => by
    intro b ha hb
    cases b with
    | component ib eb =>
      simp only [allRes, Bool.and_eq_true] at ha hb
      have Li := forest_erase hinj ia ib ha.1 hb.1
      have Le := forest_erase hinj ea eb ha.2 hb.2
      simp only [eraseRes, sub, sup, namesIn_erase, Li.1, Li.2, Le.1, Le.2, and_self]
    | «instance» _ => simpa [eraseRes, sub, sup] using beq_erase hinj _ _ ha hb
    | module _ => simpa [eraseRes, sub, sup] using beq_erase hinj _ _ ha hb
    | type _ => simpa [eraseRes, sub, sup] using beq_erase hinj _ _ ha hb
    | _ => exact eraseP_right_eqKind hinj _ _ rfl ha hb
  | .module m => by
    intro b ha hb
    cases b with
    | module _ => simp [eraseRes, sub, sup]
    | «instance» _ => simpa [eraseRes, sub, sup] using beq_erase hinj _ _ ha hb
    | component _ _ => simpa [eraseRes, sub, sup] using beq_erase hinj _ _ ha hb
    | type _ => simpa [eraseRes, sub, sup] using beq_erase hinj _ _ ha hb
    | _ => exact eraseP_right_eqKind hinj _ _ rfl ha hb
  | .type ta => by
    intro b ha hb
    cases b with
    | type tb =>
      simp only [allRes] at ha hb
      have L := tree_erase hinj ta tb ha hb
      simp only [eraseRes, sub, sup, L.1, L.2, and_self]
    | «instance» _ => simpa [eraseRes, sub, sup] using beq_erase hinj _ _ ha hb
    | component _ _ => simpa [eraseRes, sub, sup] using beq_erase hinj _ _ ha hb
    | module _ => simpa [eraseRes, sub, sup] using beq_erase hinj _ _ ha hb
    | _ => exact eraseP_right_eqKind hinj _ _ rfl ha hb
  | .none => eraseP_eqKind hinj _ rfl
  | .prim _ => eraseP_eqKind hinj _ rfl
  | .own _ => eraseP_eqKind hinj _ rfl
  | .borrow _ => eraseP_eqKind hinj _ rfl
  | .tuple _ => eraseP_eqKind hinj _ rfl
  | .list _ => eraseP_eqKind hinj _ rfl
  | .fixedList _ _ => eraseP_eqKind hinj _ rfl
  | .option _ => eraseP_eqKind hinj _ rfl
  | .result _ _ => eraseP_eqKind hinj _ rfl
  | .variant _ => eraseP_eqKind hinj _ rfl
  | .record _ => eraseP_eqKind hinj _ rfl
  | .flags _ => eraseP_eqKind hinj _ rfl
  | .enum _ => eraseP_eqKind hinj _ rfl
  | .stream _ => eraseP_eqKind hinj _ rfl
  | .future _ => eraseP_eqKind hinj _ rfl
  | .func _ _ _ => eraseP_eqKind hinj _ rfl
  | .value _ => eraseP_eqKind hinj _ rfl
  | .resource _ => eraseP_eqKind hinj _ rfl
termination_by structural a => a
theorem forest_erase {p : Res → Bool} (hinj : InjOn p) : ∀ f : Forest, EraseFP p f
  | .nil => by intro g _ _; simp [eraseResF, subShared, supAll]
  | .cons n t r => by
    intro g ha hb
    simp only [allResF, Bool.and_eq_true] at ha
    have Lr := forest_erase hinj r g ha.2 hb
    simp only [eraseResF, subShared, supAll, get_erase, Lr.1, Lr.2]
    cases hg : g.get n with
    | none => simp
    | some tb =>
      have Lt := tree_erase hinj t tb ha.1 (allResF_get g n tb hb hg)
      simp only [Option.map_some, Lt.1, Lt.2, and_self]
termination_by structural f => f
end

/-- **name-based and identity-based subtyping coincide** on trees whose resource leaves are
identified by their names -/
theorem subNames_eq_sub_of_injOn {p : Res → Bool} (hinj : InjOn p) (a b : Tree)
    (ha : allRes p a = true) (hb : allRes p b = true) : subNames a b = sub a b :=
  (tree_erase hinj a b ha hb).1

/-! ### `namesInjective` -/

theorem injOn_of_namesInjective (l : List Res) (h : namesInjective l = true) :
    InjOn (fun x => l.contains x) := by
  intro r s hr hs hn
  simp only [List.contains_iff_mem] at hr hs
  simp only [namesInjective, List.all_eq_true] at h
  have := h r hr s hs
  simpa [hn] using this

/-! ### (3) leaves of unfolded trees are root resources of the collection -/

theorem rootsFrom_mem (uid : Nat) : ∀ (l : List Resource) (i j : Nat) (res : Resource),
    l[j]? = some res → res.alias = none → ({ uid := uid, idx := i + j, name := res.name } : Res) ∈ rootsFrom uid i l
  | [], _, _, _, h, _ => by simp at h
  | r :: rs, i, 0, res, h, ha => by
    simp only [List.getElem?_cons_zero, Option.some.injEq] at h
    subst h
    simp [rootsFrom, ha]
  | r :: rs, i, j + 1, res, h, ha => by
    simp only [List.getElem?_cons_succ] at h
    have := rootsFrom_mem uid rs (i + 1) j res h ha
    have e : i + 1 + j = i + (j + 1) := by omega
    rw [e] at this
    simp only [rootsFrom]
    split
    · exact List.mem_cons_of_mem _ this
    · exact this

theorem resolveResource_root (t : Types) : ∀ (fuel r r' : Nat), t.resolveResource fuel r = some r' →
    ∃ res, t.resources[r']? = some res ∧ res.alias = none
  | 0, _, _, h => by simp [Types.resolveResource] at h
  | fuel + 1, r, r', h => by
    simp only [Types.resolveResource] at h
    cases hr : t.resources[r]? with
    | none => simp [hr] at h
    | some res =>
      simp only [hr] at h
      cases hal : res.alias with
      | none =>
        simp only [hal, Option.some.injEq] at h
        subst h
        exact ⟨res, hr, hal⟩
      | some al =>
        simp only [hal] at h
        exact resolveResource_root t fuel _ r' h

theorem resLeaf_root (t : Types) (r : Nat) (x : Res) (h : t.resLeaf r = some x) : x ∈ rootResources t := by
  simp only [Types.resLeaf] at h
  cases hr : t.resolveResource (t.resources.length + 1) r with
  | none => simp [hr] at h
  | some r' =>
    simp only [hr] at h
    obtain ⟨res, h1, h2⟩ := resolveResource_root t _ r r' hr
    simp only [h1, Option.some.injEq] at h
    subst h
    have := rootsFrom_mem t.uid t.resources 0 r' res h1 h2
    simpa [rootResources] using this

/-- `u` only produces trees whose leaves satisfy `p` -/
def VAll (p : Res → Bool) (u : ValueType → Option Tree) : Prop := ∀ v t, u v = some t → allRes p t = true

theorem unfoldOpt_allRes {p : Res → Bool} {u : ValueType → Option Tree} (h : VAll p u) (a : Option ValueType) (t : Tree)
    (ha : unfoldOpt u a = some t) : allRes p t = true := by
  cases a with
  | none => simp [unfoldOpt] at ha; subst ha; simp [allRes]
  | some x => exact h x t (by simpa [unfoldOpt] using ha)

theorem unfoldUnnamed_allRes {p : Res → Bool} {u : ValueType → Option Tree} (h : VAll p u) :
    ∀ (l : List ValueType) (F : Forest), unfoldUnnamed u l = some F → allResF p F = true
  | [], F, hl => by simp [unfoldUnnamed] at hl; subst hl; simp [allResF]
  | a :: l, F, hl => by
    simp only [unfoldUnnamed] at hl
    split at hl
    · rename_i t fr h1 h2
      simp only [Option.some.injEq] at hl; subst hl
      simp only [allResF, Bool.and_eq_true]
      exact ⟨h a t h1, unfoldUnnamed_allRes h l fr h2⟩
    · cases hl

theorem unfoldNamed_allRes {p : Res → Bool} {u : ValueType → Option Tree} (h : VAll p u) :
    ∀ (l : List (Str × ValueType)) (F : Forest), unfoldNamed u l = some F → allResF p F = true
  | [], F, hl => by simp [unfoldNamed] at hl; subst hl; simp [allResF]
  | (n, a) :: l, F, hl => by
    simp only [unfoldNamed] at hl
    split at hl
    · rename_i t fr h1 h2
      simp only [Option.some.injEq] at hl; subst hl
      simp only [allResF, Bool.and_eq_true]
      exact ⟨h a t h1, unfoldNamed_allRes h l fr h2⟩
    · cases hl

theorem unfoldNamedOpt_allRes {p : Res → Bool} {u : ValueType → Option Tree} (h : VAll p u) :
    ∀ (l : List (Str × Option ValueType)) (F : Forest), unfoldNamedOpt u l = some F → allResF p F = true
  | [], F, hl => by simp [unfoldNamedOpt] at hl; subst hl; simp [allResF]
  | (n, a) :: l, F, hl => by
    simp only [unfoldNamedOpt] at hl
    split at hl
    · rename_i t fr h1 h2
      simp only [Option.some.injEq] at hl; subst hl
      simp only [allResF, Bool.and_eq_true]
      exact ⟨unfoldOpt_allRes h a t h1, unfoldNamedOpt_allRes h l fr h2⟩
    · cases hl

theorem unfoldDefined_allRes {p : Res → Bool} {u : ValueType → Option Tree} (h : VAll p u) (x : DefinedType) (t : Tree)
    (hx : unfoldDefined u x = some t) : allRes p t = true := by
  cases x <;> simp only [unfoldDefined] at hx
  case alias a => exact h a t hx
  case tuple ts =>
    obtain ⟨F, hF, rfl⟩ := Option.map_eq_some_iff.1 hx
    simpa [allRes] using unfoldUnnamed_allRes h ts F hF
  case list a =>
    obtain ⟨F, hF, rfl⟩ := Option.map_eq_some_iff.1 hx
    simpa [allRes] using h a F hF
  case fixedSizeList a n =>
    obtain ⟨F, hF, rfl⟩ := Option.map_eq_some_iff.1 hx
    simpa [allRes] using h a F hF
  case option a =>
    obtain ⟨F, hF, rfl⟩ := Option.map_eq_some_iff.1 hx
    simpa [allRes] using h a F hF
  case result ok err =>
    split at hx
    · rename_i a b h1 h2
      simp only [Option.some.injEq] at hx; subst hx
      simp only [allRes, Bool.and_eq_true]
      exact ⟨unfoldOpt_allRes h ok a h1, unfoldOpt_allRes h err b h2⟩
    · cases hx
  case variant cs =>
    obtain ⟨F, hF, rfl⟩ := Option.map_eq_some_iff.1 hx
    simpa [allRes] using unfoldNamedOpt_allRes h cs F hF
  case record fs =>
    obtain ⟨F, hF, rfl⟩ := Option.map_eq_some_iff.1 hx
    simpa [allRes] using unfoldNamed_allRes h fs F hF
  case flags => simp only [Option.some.injEq] at hx; subst hx; simp [allRes]
  case enum => simp only [Option.some.injEq] at hx; subst hx; simp [allRes]
  case stream a =>
    obtain ⟨F, hF, rfl⟩ := Option.map_eq_some_iff.1 hx
    simpa [allRes] using unfoldOpt_allRes h a F hF
  case future a =>
    obtain ⟨F, hF, rfl⟩ := Option.map_eq_some_iff.1 hx
    simpa [allRes] using unfoldOpt_allRes h a F hF

theorem unfoldVT_allRes (t : Types) {p : Res → Bool} (hp : ∀ x ∈ rootResources t, p x = true) :
    ∀ n, VAll p (t.unfoldVT n)
  | 0 => by intro v tr h; simp [Types.unfoldVT] at h
  | n + 1 => by
    intro v tr h
    cases v with
    | prim q => simp [Types.unfoldVT] at h; subst h; simp [allRes]
    | own r =>
      simp only [Types.unfoldVT] at h
      obtain ⟨x, hx, rfl⟩ := Option.map_eq_some_iff.1 h
      simpa [allRes] using hp x (resLeaf_root t r x hx)
    | borrow r =>
      simp only [Types.unfoldVT] at h
      obtain ⟨x, hx, rfl⟩ := Option.map_eq_some_iff.1 h
      simpa [allRes] using hp x (resLeaf_root t r x hx)
    | defined d =>
      simp only [Types.unfoldVT] at h
      cases hd : t.defined[d]? with
      | none => simp [hd] at h
      | some x =>
        simp only [hd] at h
        exact unfoldDefined_allRes (unfoldVT_allRes t hp n) x tr h

theorem unfoldFunc_allRes (t : Types) {p : Res → Bool} (hp : ∀ x ∈ rootResources t, p x = true)
    (n f : Nat) (tr : Tree) (h : t.unfoldFunc n f = some tr) : allRes p tr = true := by
  simp only [Types.unfoldFunc] at h
  cases hf : t.funcs[f]? with
  | none => simp [hf] at h
  | some ft =>
    simp only [hf] at h
    split at h
    · rename_i ps r h1 h2
      simp only [Option.some.injEq] at h; subst h
      simp only [allRes, Bool.and_eq_true]
      exact ⟨unfoldNamed_allRes (unfoldVT_allRes t hp n) _ ps h1, unfoldOpt_allRes (unfoldVT_allRes t hp n) _ r h2⟩
    · cases h

def KAll (p : Res → Bool) (u : ItemKind → Option Tree) : Prop := ∀ k t, u k = some t → allRes p t = true

theorem unfoldItems_allRes {p : Res → Bool} {u : ItemKind → Option Tree} (h : KAll p u) :
    ∀ (l : List (Str × ItemKind)) (F : Forest), unfoldItems u l = some F → allResF p F = true
  | [], F, hl => by simp [unfoldItems] at hl; subst hl; simp [allResF]
  | (n, k) :: l, F, hl => by
    simp only [unfoldItems] at hl
    split at hl
    · rename_i t fr h1 h2
      simp only [Option.some.injEq] at hl; subst hl
      simp only [allResF, Bool.and_eq_true]
      exact ⟨h k t h1, unfoldItems_allRes h l fr h2⟩
    · cases hl

/-- every resource leaf of a tree unfolded from a collection is a root resource of it -/
theorem unfoldKind_allRes (t : Types) {p : Res → Bool} (hp : ∀ x ∈ rootResources t, p x = true) :
    ∀ n, KAll p (t.unfoldKind n)
  | 0 => by intro k tr h; simp [Types.unfoldKind] at h
  | n + 1 => by
    have ih := unfoldKind_allRes t hp n
    intro k tr h
    cases k with
    | func f => simp only [Types.unfoldKind] at h; exact unfoldFunc_allRes t hp n f tr h
    | value v =>
      simp only [Types.unfoldKind] at h
      obtain ⟨x, hx, rfl⟩ := Option.map_eq_some_iff.1 h
      simpa [allRes] using unfoldVT_allRes t hp n v x hx
    | module m =>
      simp only [Types.unfoldKind] at h
      obtain ⟨x, _, rfl⟩ := Option.map_eq_some_iff.1 h
      simp [allRes]
    | «instance» i =>
      simp only [Types.unfoldKind] at h
      cases hi : t.interfaces[i]? with
      | none => simp [hi] at h
      | some itf =>
        simp only [hi] at h
        obtain ⟨F, hF, rfl⟩ := Option.map_eq_some_iff.1 h
        simpa [allRes] using unfoldItems_allRes ih _ F hF
    | component w =>
      simp only [Types.unfoldKind] at h
      cases hw : t.worlds[w]? with
      | none => simp [hw] at h
      | some wd =>
        simp only [hw] at h
        split at h
        · rename_i i e h1 h2
          simp only [Option.some.injEq] at h; subst h
          simp only [allRes, Bool.and_eq_true]
          exact ⟨unfoldItems_allRes ih _ i h1, unfoldItems_allRes ih _ e h2⟩
        · cases h
    | type ty =>
      cases ty with
      | resource r =>
        simp only [Types.unfoldKind] at h
        obtain ⟨x, hx, rfl⟩ := Option.map_eq_some_iff.1 h
        simpa [allRes] using hp x (resLeaf_root t r x hx)
      | func f =>
        simp only [Types.unfoldKind] at h
        obtain ⟨x, hx, rfl⟩ := Option.map_eq_some_iff.1 h
        simpa [allRes] using unfoldFunc_allRes t hp n f x hx
      | value v =>
        simp only [Types.unfoldKind] at h
        obtain ⟨x, hx, rfl⟩ := Option.map_eq_some_iff.1 h
        simpa [allRes] using unfoldVT_allRes t hp n v x hx
      | module m =>
        simp only [Types.unfoldKind] at h
        obtain ⟨x, _, rfl⟩ := Option.map_eq_some_iff.1 h
        simp [allRes]
      | interface i =>
        simp only [Types.unfoldKind] at h
        cases hi : t.interfaces[i]? with
        | none => simp [hi] at h
        | some itf =>
          simp only [hi] at h
          obtain ⟨F, hF, rfl⟩ := Option.map_eq_some_iff.1 h
          simpa [allRes] using unfoldItems_allRes ih _ F hF
      | world w =>
        simp only [Types.unfoldKind] at h
        cases hw : t.worlds[w]? with
        | none => simp [hw] at h
        | some wd =>
          simp only [hw] at h
          split at h
          · rename_i i e h1 h2
            simp only [Option.some.injEq] at h; subst h
            simp only [allRes, Bool.and_eq_true]
            exact ⟨unfoldItems_allRes ih _ i h1, unfoldItems_allRes ih _ e h2⟩
          · cases h

/-- one collection: injectivity on its own root resources is the predicate on the pair (t, t) -/
theorem resourceNamesInjective_self (t : Types) (h : namesInjective (rootResources t) = true) :
    resourceNamesInjective t t = true := by
  simp only [namesInjective, List.all_eq_true] at h
  simp only [resourceNamesInjective, namesInjective, List.all_eq_true, List.mem_append]
  intro r hr s hs
  exact h r (hr.elim id id) s (hs.elim id id)

/-- the bridge used by the property theorems: under `resourceNamesInjective`, for trees unfolded
from the two collections, name-based and identity-based subtyping coincide -/
theorem subNames_eq_sub_of_resourceNamesInjective (at_ bt : Types) (n m : Nat) (a b : ItemKind) (ta tb : Tree)
    (ha : at_.unfoldKind n a = some ta) (hb : bt.unfoldKind m b = some tb)
    (hinj : resourceNamesInjective at_ bt = true) : subNames ta tb = sub ta tb := by
  have hI := injOn_of_namesInjective _ hinj
  refine subNames_eq_sub_of_injOn hI ta tb ?_ ?_
  · exact unfoldKind_allRes at_ (fun x hx => by simp [hx]) n a ta ha
  · exact unfoldKind_allRes bt (fun x hx => by simp [hx]) m b tb hb

end Wac.Spec
