import WacProofs.Lemmas.PrinterLayoutTypes
/-
  C13, layout layer: the printer functions for expressions (`postfix_expr`, `expr`, `primary_expr`
  with `new_expr` and its argument loop) and for the statements built from them (`let`, `export`,
  `import`, the package directive, the document) keep the lexing invariant and write the tokens of
  the token-level printer.
-/
set_option linter.unusedSimpArgs false
set_option linter.unusedVariables false

namespace Wac.Lemmas.PrinterLayout
open Wac Wac.Ast Wac.Lex Wac.Print Wac.PrintTok Wac.Lemmas.PrinterLex Wac.Lemmas.PrinterErase

/-! ### postfix expressions -/

theorem postfixExpr_inv (e : PostfixExpr) (hw : e.wf = true) {p : PS} {ts : List PTok} {S : Stop}
    (h : Inv p ts [] S) (hS : ∀ c r, (c = '.' ∨ c = '[') → S (c :: r) = true) :
    Inv (Print.postfixExpr p e) (ts ++ PrintTok.postfixExpr e) [] stopW := by
  cases e with
  | Access a =>
    have hw' : a.id.wf = true := by simpa [PostfixExpr.wf] using hw
    have h1 := h.dot_ident (fun r => hS '.' r (Or.inl rfl)) a.id hw'
    exact h1.cast (by simp [Print.postfixExpr]) (by simp [PrintTok.postfixExpr, kw])
  | NamedAccess a =>
    have hw' : a.string.wf = true := by simpa [PostfixExpr.wf] using hw
    have h1 := h.lit_lbracket (fun r => hS '[' r (Or.inr rfl))
    have h2 := h1.str a.string hw' (fun _ => rfl)
    have h3 := h2.lit_rbracket (fun _ => rfl)
    exact (stopW_le_sAny h3).cast (by simp [Print.postfixExpr])
      (by simp [PrintTok.postfixExpr, kw, PrintTok.string])

/-- the loop over the postfix expressions of an expression -/
theorem postfixExprs_inv (es : List PostfixExpr) (hw : ∀ e ∈ es, e.wf = true) :
    ∀ {p : PS} {ts : List PTok}, Inv p ts [] stopW →
    Inv (es.foldl Print.postfixExpr p) (ts ++ es.flatMap PrintTok.postfixExpr) [] stopW := by
  induction es with
  | nil => intro p ts h; simpa using h
  | cons e r ih =>
    intro p ts h
    have h1 := postfixExpr_inv e (hw e (by simp)) h
      (fun c r hc => by rcases hc with rfl | rfl <;> rfl)
    have h2 := ih (fun e' he' => hw e' (List.mem_cons_of_mem _ he')) h1
    exact h2.cast (by simp) (by simp)

/-! ### expressions -/

theorem wf_expr_mk (s : Span) (pr : PrimaryExpr) (post : List PostfixExpr) :
    Expr.wf (.mk s pr post) = (pr.wf && post.all PostfixExpr.wf) := rfl
theorem wf_primary_new (s : Span) (pkg : PackageName) (args : List InstantiationArgument) :
    PrimaryExpr.wf (.New (.mk s pkg args)) = (pkg.wf && wfArgs args) := rfl
theorem wf_primary_nested (s : Span) (inner : Expr) :
    PrimaryExpr.wf (.Nested (.mk s inner)) = inner.wf := rfl
theorem wf_primary_ident (id : Ident) : PrimaryExpr.wf (.Ident id) = id.wf := rfl
theorem wfArgs_nil : wfArgs [] = true := rfl
theorem wfArgs_inferred (id : Ident) (r : List InstantiationArgument) :
    wfArgs (.Inferred id :: r) = (id.wf && wfArgs r) := rfl
theorem wfArgs_spread (id : Ident) (r : List InstantiationArgument) :
    wfArgs (.Spread id :: r) = (id.wf && wfArgs r) := rfl
theorem wfArgs_named (n : InstantiationArgumentName) (e : Expr) (r : List InstantiationArgument) :
    wfArgs (.Named (.mk n e) :: r) = ((n.wf && e.wf) && wfArgs r) := rfl
theorem wfArgs_fill (s : Span) (r : List InstantiationArgument) :
    wfArgs (.Fill s :: r) = (true && wfArgs r) := rfl
theorem tok_exprArgs_nil : PrintTok.exprArgs [] = [] := rfl

/-- the `new` expression, given the lemma for its arguments -/
theorem primaryExpr_new_inv (s : Span) (pkg : PackageName) (args : List InstantiationArgument)
    (hpkg : pkg.wf = true)
    (ih : ∀ {p : PS} {ts : List PTok}, Inv p ts [] sAny →
      Inv (Print.exprArgs p args) (ts ++ PrintTok.exprArgs args) [] sAny)
    {p : PS} {ts : List PTok} {S : Stop} (h : Inv p ts [] S) (hS : WordOK S) :
    Inv (Print.primaryExpr p (.New (.mk s pkg args)))
      (ts ++ PrintTok.primaryExpr (.New (.mk s pkg args))) [] stopW := by
  have h1 := h.lit_new_sp hS
  have h2 := h1.pkgName pkg hpkg wordOK_sAny
  have h3 := h2.lit_sp_lb (fun _ => rfl)
  rw [tok_primaryExpr_new]
  by_cases e1 : args = []
  · subst e1
    have h4 := h3.lit_rb (fun _ => rfl)
    exact (stopW_le_sAny h4).cast rfl
      (by simp [tok_exprArgs_nil, kw, obrace, cbrace, PrintTok.packageName])
  by_cases e2 : ∃ sp, args = [.Fill sp]
  · obtain ⟨sp, rfl⟩ := e2
    have h4 := h3.lit_fill_only (fun _ => rfl)
    exact (stopW_le_sAny h4).cast rfl
      (by simp [tok_exprArgs_fill, tok_exprArgs_nil, kw, obrace, cbrace, ellipsis, PrintTok.packageName])
  have e2' : ∀ sp, args ≠ [.Fill sp] := fun sp hh => e2 ⟨sp, hh⟩
  have h4 := (h3.nl (fun _ => rfl)).inc
  have h5 := ih h4
  have h6 := h5.dec.indent
  have h7 := h6.lit_rb (fun _ => rfl)
  rw [primaryExpr_new_big _ _ _ _ e1 e2']
  exact (stopW_le_sAny h7).cast rfl
    (by simp [kw, obrace, cbrace, PrintTok.packageName])

mutual
theorem expr_inv (e : Expr) (hw : e.wf = true) {p : PS} {ts : List PTok} {S : Stop}
    (h : Inv p ts [] S) (hS : WordOK S) (hP : ∀ r, S ('(' :: r) = true) :
    Inv (Print.expr p e) (ts ++ PrintTok.expr e) [] stopW :=
  match e, hw with
  | .mk _ primary post, hw => by
    rw [wf_expr_mk, Bool.and_eq_true, List.all_eq_true] at hw
    have h1 := primaryExpr_inv primary hw.1 h hS hP
    have h2 := postfixExprs_inv post hw.2 h1
    rw [expr_mk, tok_expr_mk]
    exact h2.cast rfl (by simp)
theorem primaryExpr_inv (e : PrimaryExpr) (hw : e.wf = true) {p : PS} {ts : List PTok} {S : Stop}
    (h : Inv p ts [] S) (hS : WordOK S) (hP : ∀ r, S ('(' :: r) = true) :
    Inv (Print.primaryExpr p e) (ts ++ PrintTok.primaryExpr e) [] stopW :=
  match e, hw with
  | .New (.mk s pkg args), hw => by
    rw [wf_primary_new, Bool.and_eq_true] at hw
    exact primaryExpr_new_inv s pkg args hw.1 (fun h' => exprArgs_inv args hw.2 h') h hS
  | .Nested (.mk _ inner), hw => by
    rw [wf_primary_nested] at hw
    have h1 := h.lit_lp hP
    have h2 := expr_inv inner hw h1 wordOK_sAny (fun _ => rfl)
    have h3 := h2.lit_rp (fun _ => rfl)
    rw [tok_primaryExpr_nested]
    exact (stopW_le_sAny h3).cast rfl (by simp [kw, oparen, cparen])
  | .Ident id, hw => by
    rw [wf_primary_ident] at hw
    exact (h.ident id hw hS).cast rfl (by simp [PrintTok.primaryExpr, PrintTok.ident])
theorem exprArgs_inv (args : List InstantiationArgument) (hw : wfArgs args = true)
    {p : PS} {ts : List PTok} (h : Inv p ts [] sAny) :
    Inv (Print.exprArgs p args) (ts ++ PrintTok.exprArgs args) [] sAny :=
  match args, hw with
  | [], _ => h.cast rfl (by simp [tok_exprArgs_nil])
  | .Inferred id :: r, hw => by
    rw [wfArgs_inferred, Bool.and_eq_true] at hw
    have h1 := h.indent
    have h2 := h1.ident id hw.1 wordOK_sAny
    have h3 := h2.lit_comma (fun _ => rfl)
    have h4 := h3.nl (fun _ => rfl)
    have h5 := exprArgs_inv r hw.2 h4
    rw [exprArgs_inferred, tok_exprArgs_inferred]
    exact h5.cast rfl (by simp [kw, comma, PrintTok.ident])
  | .Spread id :: r, hw => by
    rw [wfArgs_spread, Bool.and_eq_true] at hw
    have h1 := h.indent.lit_ellipsis (fun _ => rfl)
    have h2 := h1.ident id hw.1 wordOK_sAny
    have h3 := h2.lit_comma (fun _ => rfl)
    have h4 := h3.nl (fun _ => rfl)
    have h5 := exprArgs_inv r hw.2 h4
    rw [exprArgs_spread, tok_exprArgs_spread]
    exact h5.cast rfl (by simp [kw, comma, ellipsis, PrintTok.ident])
  | .Named (.mk (.Ident id) e) :: r, hw => by
    rw [wfArgs_named, Bool.and_eq_true, Bool.and_eq_true] at hw
    have hid : id.wf = true := hw.1.1
    have h1 := h.indent.ident id hid wordOK_sAny
    have h2 := h1.lit_colon_sp (fun _ hr => hr)
    have h3 := expr_inv e hw.1.2 h2 wordOK_sAny (fun _ => rfl)
    have h4 := h3.lit_comma (fun _ => rfl)
    have h5 := h4.nl (fun _ => rfl)
    have h6 := exprArgs_inv r hw.2 h5
    rw [exprArgs_named_ident, tok_exprArgs_named]
    exact h6.cast rfl (by simp [kw, comma, colon, PrintTok.argName, PrintTok.ident])
  | .Named (.mk (.String s) e) :: r, hw => by
    rw [wfArgs_named, Bool.and_eq_true, Bool.and_eq_true] at hw
    have hs : s.wf = true := hw.1.1
    have h1 := h.indent.str s hs (fun _ => rfl)
    have h2 := h1.lit_colon_sp (fun _ _ => rfl)
    have h3 := expr_inv e hw.1.2 h2 wordOK_sAny (fun _ => rfl)
    have h4 := h3.lit_comma (fun _ => rfl)
    have h5 := h4.nl (fun _ => rfl)
    have h6 := exprArgs_inv r hw.2 h5
    rw [exprArgs_named_string, tok_exprArgs_named]
    exact h6.cast rfl (by simp [kw, comma, colon, PrintTok.argName, PrintTok.string])
  | .Fill _ :: r, hw => by
    rw [wfArgs_fill, Bool.and_eq_true] at hw
    rw [exprArgs_fill, tok_exprArgs_fill]
    by_cases hr : r.isEmpty = true
    · rw [if_pos hr, if_pos hr]
      have h1 := h.indent.lit_ellipsis (fun _ => rfl)
      have h2 := h1.nl (fun _ => rfl)
      have h3 := exprArgs_inv r hw.2 h2
      exact h3.cast rfl (by simp [kw, ellipsis])
    · rw [if_neg hr, if_neg hr]
      have h1 := h.indent.lit_ellipsis_comma (fun _ => rfl)
      have h2 := h1.nl (fun _ => rfl)
      have h3 := exprArgs_inv r hw.2 h2
      exact h3.cast rfl (by simp [kw, ellipsis, comma])
end

/-! ### statements -/

/-- the name of an `import … as name` / `export … as name` -/
theorem externName_inv (n : ExternName) (hw : n.wf = true) {p : PS} {ts : List PTok}
    (h : Inv p ts [] sAny) :
    Inv (p.write (externNameSrc n)) (ts ++ [PrintTok.externName n]) [] stopW := by
  cases n with
  | Ident id =>
    have hw' : id.wf = true := by simpa [ExternName.wf] using hw
    exact (h.ident id hw' wordOK_sAny).cast (by simp [externNameSrc])
      (by simp [PrintTok.externName, PrintTok.ident])
  | String s =>
    have hw' : s.wf = true := by simpa [ExternName.wf] using hw
    exact (stopW_le_sAny (h.str s hw' (fun _ => rfl))).cast (by simp [externNameSrc])
      (by simp [PrintTok.externName, PrintTok.string])

theorem letStatement_inv (s : LetStatement) (hw : s.wf = true) {p : PS} {ts : List PTok}
    (h : Inv p ts [] sAny) :
    Inv (Print.letStatement p s) (ts ++ PrintTok.letStatement s) [] sAny := by
  have hw' : s.id.wf = true ∧ s.expr.wf = true := by simpa [LetStatement.wf] using hw
  have h1 := ((h.docs s.docs).indent.lit_let_sp wordOK_sAny).ident s.id hw'.1 wordOK_sAny
  have h2 := h1.lit_eq (fun _ => rfl)
  have h3 := expr_inv s.expr hw'.2 h2 wordOK_sAny (fun _ => rfl)
  have h4 := h3.lit_semi (fun _ => rfl)
  exact h4.cast (by simp [Print.letStatement])
    (by simp [PrintTok.letStatement, dkw, kw, semi, PrintTok.ident])

theorem exportStatement_inv (s : ExportStatement) (hw : s.wf = true) {p : PS} {ts : List PTok}
    (h : Inv p ts [] sAny) :
    Inv (Print.exportStatement p s) (ts ++ PrintTok.exportStatement s) [] sAny := by
  have hw' : s.expr.wf = true ∧ s.options.wf = true := by simpa [ExportStatement.wf] using hw
  have h1 := (h.docs s.docs).indent.lit_export_sp wordOK_sAny
  have h2 := expr_inv s.expr hw'.1 h1 wordOK_sAny (fun _ => rfl)
  unfold Print.exportStatement PrintTok.exportStatement
  cases hk : s.options with
  | None =>
    have h3 := h2.lit_semi (fun _ => rfl)
    exact h3.cast (by simp) (by simp [dkw, kw, semi])
  | Spread sp =>
    have h3 := (h2.lit_ellipsis (fun _ => rfl)).lit_semi (fun _ => rfl)
    exact h3.cast (by simp) (by simp [dkw, kw, semi, ellipsis])
  | Rename n =>
    have hn : n.wf = true := by have := hw'.2; rw [hk] at this; simpa [ExportOptions.wf] using this
    have h3 := externName_inv n hn (h2.lit_as (fun _ => rfl))
    have h4 := h3.lit_semi (fun _ => rfl)
    exact h4.cast (by simp) (by simp [dkw, kw, semi])

/-- the package directive, at the start of the document (`ds`: the document's doc comments) -/
theorem packageDirective_inv (ds : List DocComment) (d : PackageDirective) (hw : d.wf = true) :
    Inv (Print.packageDirective (Print.docs ⟨[], 0, false⟩ ds) d) (PrintTok.packageDirective ds d)
      [] sAny := by
  have hw' := hw
  simp only [PackageDirective.wf, Bool.and_eq_true] at hw'
  have h1 := (Inv.init.docs ds).indent.lit_package_sp wordOK_sAny
  have h2 := h1.pkgName d.package hw'.1 wordOK_sAny
  unfold Print.packageDirective PrintTok.packageDirective
  cases hk : d.targets with
  | none =>
    have h3 := (h2.lit_semi_nl (fun _ => rfl)).nl (fun _ => rfl)
    exact h3.cast (by simp) (by simp [dkw, kw, semi, PrintTok.packageName])
  | some t =>
    have ht : t.wf = true := by have := hw'.2; rw [hk] at this; simpa using this
    have h3 := (h2.lit_targets (fun _ => rfl)).pkgPath t ht wordOK_sAny
    have h4 := (h3.lit_semi_nl (fun _ => rfl)).nl (fun _ => rfl)
    exact h4.cast (by simp [Print.packagePath])
      (by simp [dkw, kw, semi, PrintTok.packageName, PrintTok.packagePath])

/-- `import_statement`, given the lemma for the import type -/
theorem importStatement_inv (s : ImportStatement) (hw : s.wf = true)
    (hty : ∀ {p : PS} {ts : List PTok}, Inv p ts [] sAny →
      Inv (Print.importType p s.ty) (ts ++ PrintTok.importType s.ty) [] stopWP)
    {p : PS} {ts : List PTok} (h : Inv p ts [] sAny) :
    Inv (Print.importStatement p s) (ts ++ PrintTok.importStatement s) [] sAny := by
  have hw' := hw
  simp only [ImportStatement.wf, Bool.and_eq_true] at hw'
  have h1 := ((h.docs s.docs).indent.lit_import_sp wordOK_sAny).ident s.id hw'.1.1 wordOK_sAny
  unfold Print.importStatement PrintTok.importStatement
  cases hk : s.name with
  | none =>
    have h2 := h1.lit_colon_sp (fun _ hr => hr)
    have h3 := (hty h2).lit_semi (fun _ => rfl)
    exact h3.cast (by simp) (by simp [dkw, kw, semi, colon, PrintTok.ident])
  | some n =>
    have hn : n.wf = true := by have := hw'.1.2; rw [hk] at this; simpa using this
    have h2 := externName_inv n hn (h1.lit_as (fun _ => rfl))
    have h3 := h2.lit_colon_sp (fun _ hr => hr)
    have h4 := (hty h3).lit_semi (fun _ => rfl)
    exact h4.cast (by simp) (by simp [dkw, kw, semi, colon, PrintTok.ident])

/-- `statement`, given the lemmas for import types and for type statements -/
theorem statement_inv (s : Statement) (hw : s.wf = true)
    (hty : ∀ (t : ImportType), t.wf = true → ∀ {p : PS} {ts : List PTok}, Inv p ts [] sAny →
      Inv (Print.importType p t) (ts ++ PrintTok.importType t) [] stopWP)
    (hts : ∀ (t : TypeStatement), t.wf = true → ∀ {p : PS} {ts : List PTok}, Inv p ts [] sAny →
      Inv (Print.typeStatement p t) (ts ++ PrintTok.typeStatement t) [] sAny)
    {p : PS} {ts : List PTok} (h : Inv p ts [] sAny) :
    Inv (Print.statement p s) (ts ++ PrintTok.statement s) [] sAny := by
  cases s with
  | Import s =>
    have hw' : s.wf = true := by simpa [Statement.wf] using hw
    have hs : s.ty.wf = true := by
      have := hw'; simp only [ImportStatement.wf, Bool.and_eq_true] at this; exact this.2
    exact importStatement_inv s hw' (fun h' => hty s.ty hs h') h
  | Type' s => exact hts s (by simpa [Statement.wf] using hw) h
  | Let s => exact letStatement_inv s (by simpa [Statement.wf] using hw) h
  | Export s => exact exportStatement_inv s (by simpa [Statement.wf] using hw) h

/-- the loop over the statements of a document -/
theorem statements_inv (stmts : List Statement)
    (hst : ∀ s ∈ stmts, ∀ (p : PS) (ts : List PTok), Inv p ts [] sAny →
      Inv (Print.statement p s) (ts ++ PrintTok.statement s) [] sAny)
    {p : PS} {ts : List PTok} (h : Inv p ts [] sAny) :
    Inv (Print.separated p Print.statement stmts) (ts ++ stmts.flatMap PrintTok.statement) [] sAny :=
  separated_inv Print.statement PrintTok.statement stmts hst h

/-- the document: the lexer reads the printed text as the tokens of the token-level printer -/
theorem layout_tokens_of (d : Document) (hd : d.directive.wf = true)
    (hst : ∀ s ∈ d.statements, ∀ (p : PS) (ts : List PTok), Inv p ts [] sAny →
      Inv (Print.statement p s) (ts ++ PrintTok.statement s) [] sAny) :
    Wac.PrintTok.tokenizeE (Print.document d) = Wac.PrintTok.printTokens d := by
  have h1 := packageDirective_inv d.docs d.directive hd
  have h2 := statements_inv d.statements hst h1
  exact h2.final rfl

/-- the document, given the lemmas for import types and for type statements -/
theorem layout_tokens_of_wf (d : Document) (hw : d.wf = true)
    (hty : ∀ (t : ImportType), t.wf = true → ∀ {p : PS} {ts : List PTok}, Inv p ts [] sAny →
      Inv (Print.importType p t) (ts ++ PrintTok.importType t) [] stopWP)
    (hts : ∀ (t : TypeStatement), t.wf = true → ∀ {p : PS} {ts : List PTok}, Inv p ts [] sAny →
      Inv (Print.typeStatement p t) (ts ++ PrintTok.typeStatement t) [] sAny) :
    Wac.PrintTok.tokenizeE (Print.document d) = Wac.PrintTok.printTokens d := by
  have hw' : d.directive.wf = true ∧ ∀ s ∈ d.statements, s.wf = true := by
    simpa [Document.wf, List.all_eq_true] using hw
  exact layout_tokens_of d hw'.1 (fun s hs p ts h => statement_inv s (hw'.2 s hs) hty hts h)

end Wac.Lemmas.PrinterLayout
