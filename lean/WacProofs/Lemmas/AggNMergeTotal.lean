import WacProofs.Lemmas.AggNTotal
/-
  C09 general theorems, part 22: `merge_interface` on NESTED interfaces never panics and fails
  exactly when the specification's merge of the two instance types is undefined
  (`meetShared F G = none`), at every nesting depth.
-/
namespace Wac.AggP
open Wac Wac.Spec

/-- the loop over the source exports is total: it succeeds, or stops with an error at a shared
name whose two trees have no merge -/
theorem nest_loop_total {W : Colls} {types : Types} {S : Nat → Prop} {e u d : Nat} {f : Str × ItemKind → AggM Unit}
    {C : AggState → Prop} (m : Nat) (hm : m ≤ types.fuel)
    (hstep : ∀ (n : Str) (sk : ItemKind) (s s' : AggState) (F : Forest) (ts : Tree),
      NState W types S e s F → SrcK types d sk → types.unfoldKind types.fuel sk = some ts → ts.namesDistinct = true →
      f (n, sk) s = .ok ((), s') →
      NStep u e s s' ∧ ((∃ tf r, F.get n = some tf ∧ meet tf ts = some r ∧ NState W types S e s' (setF F n r)) ∨
        (F.hasName n = false ∧ NState W types S e s' (snoc F n ts))))
    (hC : ∀ s s', C s → NStep u e s s' → C s')
    (htot : ∀ (n : Str) (sk : ItemKind) (s : AggState) (F : Forest) (ts : Tree),
      NState W types S e s F → C s → SrcK types d sk → types.unfoldKind m sk = some ts → ts.namesDistinct = true →
      (∃ s', f (n, sk) s = .ok ((), s')) ∨
        (∃ msg tf, f (n, sk) s = .error (.err msg) ∧ F.get n = some tf ∧ meet tf ts = none)) :
    ∀ (Q : List (Str × ItemKind)) (G : Forest) (s : AggState) (F : Forest), NState W types S e s F → C s →
      (∀ x, x ∈ Q → SrcK types d x.2) → unfoldItems (types.unfoldKind m) Q = some G → G.namesDistinct = true →
      (∃ s', forMList f Q s = .ok ((), s')) ∨ (∃ msg, forMList f Q s = .error (.err msg) ∧ meetShared F G = none)
  | [], G, s, F, _, _, _, _, _ => .inl ⟨s, rfl⟩
  | (n, sk) :: Q, G, s, F, hT, hc, hl, hG, hnd => by
    obtain ⟨ts, G', hts, hG', rfl⟩ := unfoldItems_cons n sk Q G hG
    simp only [Forest.namesDistinct, Bool.and_eq_true, Bool.not_eq_true'] at hnd
    obtain ⟨⟨hn', htsnd⟩, hG'nd⟩ := hnd
    have hlQ : ∀ x, x ∈ Q → SrcK types d x.2 := fun x hx => hl x (List.mem_cons_of_mem _ hx)
    have hsk := hl (n, sk) List.mem_cons_self
    rcases htot n sk s F ts hT hc hsk hts htsnd with ⟨s1, h1⟩ | ⟨msg, tf, h1, hf, hnone⟩
    · obtain ⟨hm1, hcase⟩ := hstep n sk s s1 F ts hT hsk (unfoldKind_mono _ hm _ _ hts) htsnd h1
      have hc1 := hC s s1 hc hm1
      rcases hcase with ⟨tf, r, hf, hmeet, hT1⟩ | ⟨hhas, hT1⟩
      · rcases nest_loop_total m hm hstep hC htot Q G' s1 (setF F n r) hT1 hc1 hlQ hG' hG'nd with ⟨s2, h2⟩ | ⟨msg, h2, hnone⟩
        · exact .inl ⟨s2, by simp only [forMList, run_bind, h1, h2]⟩
        · refine .inr ⟨msg, by simp only [forMList, run_bind, h1, h2], ?_⟩
          rw [meetShared_cons_present F G' n ts tf r (keysNd_of_nd F hT.nd) hf hmeet hn']; exact hnone
      · rcases nest_loop_total m hm hstep hC htot Q G' s1 (snoc F n ts) hT1 hc1 hlQ hG' hG'nd with ⟨s2, h2⟩ | ⟨msg, h2, hnone⟩
        · exact .inl ⟨s2, by simp only [forMList, run_bind, h1, h2]⟩
        · refine .inr ⟨msg, by simp only [forMList, run_bind, h1, h2], ?_⟩
          rw [meetShared_cons_absent F G' n ts hhas]
          rw [meetShared_snoc F G' n ts hn'] at hnone
          cases hq : meetShared F G' with
          | none => rfl
          | some M => rw [hq] at hnone; cases hnone
    · exact .inr ⟨msg, by simp only [forMList, run_bind, h1], meetShared_cons_present_none F G' n ts tf hf hnone⟩

section ntot
variable {W : Colls} {types : Types} (hW : W.mem types) (hs : Sane types) {S : Nat → Prop} {e : Nat}

/-- the state in which a nested instance is merged: the target's nested interface has been copied
to the end of the arena, and the copy is the only additional mutable interface -/
theorem nstate_push {s0 : AggState} {F0 : Forest} (hT : NState W types S e s0 F0) {ti : Interface}
    (hti : s0.agg.types.interfaces[e]? = some ti) {n : Str} {w : Bool} {t : Nat}
    (hsome : amGet ti.exports n = some (wrapK w t))
    {copy : Interface} (hcopy : s0.agg.types.interfaces[t]? = some copy) :
    ∃ Ft, F0.get n = some (wrapT w (.instance Ft)) ∧
      NState W types (fun j => S j ∨ j = s0.agg.types.interfaces.length) s0.agg.types.interfaces.length
        (pushIface s0 copy) Ft := by
  obtain ⟨ti', hti', m, hm⟩ := hT.itf
  rw [hti] at hti'; cases hti'
  have hmem : (n, wrapK w t) ∈ ti.exports := alGet_mem _ _ _ (by rw [← amGet_eq_alGet]; exact hsome)
  obtain ⟨tf, htf, hFn⟩ := (unfoldItems_get ti.exports F0 n hm).2 _ (by rw [← amGet_eq_alGet]; exact hsome)
  have htfnd : tf.namesDistinct = true := Forest.nd_get F0 n tf hT.nd hFn
  obtain ⟨m', rfl⟩ : ∃ m', m = m' + 1 := by
    cases m with
    | zero => simp [Types.unfoldKind] at htf
    | succ m' => exact ⟨m', rfl⟩
  rw [unfoldKind_wrapK] at htf
  simp only [hcopy] at htf
  obtain ⟨Ft, hFt, rfl⟩ := Option.map_eq_some_iff.1 htf
  have hFtnd : Ft.namesDistinct = true := by simpa [nd_wrapT, Tree.namesDistinct] using htfnd
  let L := s0.agg.types.interfaces.length
  let S' : Nat → Prop := fun j => S j ∨ j = L
  have hextP : Ext s0.agg.types (pushIface s0 copy).agg.types := ext_of_eq rfl rfl rfl rfl
  have hfrP : ∀ S0 : Nat → Prop, Frame S0 s0.agg.types (pushIface s0 copy).agg.types := fun S0 =>
    ⟨hextP, by simp [pushIface], fun j hj _ => by simp [pushIface, List.getElem?_append_left hj]⟩
  have hfzS' : ∀ k, FrozenK s0.agg.types S k → FrozenK (pushIface s0 copy).agg.types S' k := by
    rintro k (h | ⟨w', t', rfl, h2, h3⟩)
    · exact .inl h
    · refine .inr ⟨w', t', rfl, ?_, by simp [pushIface]; omega⟩
      rintro (hc | hc)
      · exact h2 hc
      · exact absurd hc (Nat.ne_of_lt h3)
  refine ⟨Ft, hFn, ⟨hT.ni.ainv.of_same hextP rfl rfl rfl, ?_, ?_, ?_, hT.ni.ish⟩, hT.nested, .inr rfl,
    ⟨copy, by simp [pushIface], m', ?_⟩, hFtnd⟩
  · intro j itf hj x hx
    rcases Nat.lt_or_ge j L with hlt | hge
    · have : s0.agg.types.interfaces[j]? = some itf := by
        simpa [pushIface, List.getElem?_append_left hlt] using hj
      exact hfzS' _ (hT.ni.iwf j itf this x hx)
    · have hjL : j = L := by
        have := getElem?_lt hj
        simp [pushIface] at this; omega
      subst hjL
      have : itf = copy := by simpa [pushIface, L] using hj.symm
      subst this
      exact hfzS' _ (hT.ni.iwf t itf hcopy x hx)
  · rintro j (hj | hj)
    · have := hT.ni.sb j hj; simp [pushIface]; omega
    · subst hj; simp [pushIface]
  · intro i i' hg
    obtain ⟨a, b, c⟩ := hT.ni.ik i i' hg
    refine ⟨?_, by simp [pushIface]; omega, fun t0 ht0 => (c t0 ht0).frame hT.ni.iwf (hfrP S) (.inr ⟨false, i', rfl, a, b⟩)⟩
    rintro (hc | hc)
    · exact a hc
    · exact absurd hc (Nat.ne_of_lt b)
  · exact unfoldItems_frame hT.ni.iwf (hfrP S) (hT.ni.iwf t copy hcopy) hFt

/-- what totality says at a given fuel: `m` is the unfolding rank of the source exports -/
def MergeTot (W : Colls) (types : Types) (fuel : Nat) : Prop :=
  ∀ (S : Nat → Prop) (e id m : Nat) (s : AggState) (F G : Forest) (d : Nat), NState W types S e s F →
    s.cfg.remapReplaced = true → SrcOK types d id →
    (∀ si, types.interfaces[id]? = some si → unfoldItems (types.unfoldKind m) si.exports = some G) →
    m < types.fuel → G.namesDistinct = true → 2 * m + 2 ≤ fuel →
    (∃ s', mergeInterface fuel e types id s = .ok ((), s')) ∨
      (∃ msg, mergeInterface fuel e types id s = .error (.err msg) ∧ meetShared F G = none)

omit hW hs in
theorem source_instance_rank {w : Bool} {i m : Nat} {ts : Tree} (hts : types.unfoldKind m (wrapK w i) = some ts) :
    ∃ m' G, m = m' + 1 ∧ ts = wrapT w (.instance G) ∧ ∀ si, types.interfaces[i]? = some si →
      unfoldItems (types.unfoldKind m') si.exports = some G := by
  cases m with
  | zero => simp [Types.unfoldKind] at hts
  | succ m' =>
    rw [unfoldKind_wrapK] at hts
    cases hi : types.interfaces[i]? with
    | none => simp [hi] at hts
    | some si =>
      simp only [hi] at hts
      obtain ⟨G, hG, rfl⟩ := Option.map_eq_some_iff.1 hts
      exact ⟨m', G, rfl, rfl, fun si' hsi' => by cases hsi'; exact hG⟩

omit hW hs in
theorem meet_eqK_wrap {a : Tree} (w : Bool) (G : Forest) (h : isEqK a = true) : meet a (wrapT w (.instance G)) = none := by
  rw [meet_eqK a _ h]
  have : (a == wrapT w (Tree.instance G)) = false := by
    rw [Bool.eq_false_iff]; intro hc
    have : a = wrapT w (.instance G) := by simpa using hc
    subst this
    cases w <;> simp [wrapT, isEqK, isEqKind] at h
  simp [this]

omit hW hs in
theorem meet_wrap_eqK (w : Bool) (F : Forest) {b : Tree} (h : isEqK b = true) : meet (wrapT w (.instance F)) b = none := by
  cases w with
  | false => exact meet_instance_eqK F h
  | true =>
    cases b with
    | type b' =>
      have h' : isEqKind b' = true := h
      simp only [wrapT, meet, meet_instance_eqK F (isEqK_of_eqKind h'), Option.map_none]
    | _ => simp [wrapT, meet]

omit hW hs in
theorem meet_wrap_ne (w : Bool) (F G : Forest) : meet (wrapT w (.instance F)) (wrapT (!w) (.instance G)) = none := by
  cases w <;> simp [wrapT, meet]

include hW hs in
/-- one iteration of the loop is total -/
theorem mergeExport_ntotal {fuel : Nat} (hIHt : MergeTot W types fuel) {d m : Nat} (n : Str) (sk : ItemKind)
    (s0 : AggState) (F0 : Forest) (ts : Tree) (hT0 : NState W types S e s0 F0) (hcfg : s0.cfg.remapReplaced = true)
    (hsk : SrcK types d sk) (hm : m < types.fuel) (hts : types.unfoldKind m sk = some ts)
    (htsnd : ts.namesDistinct = true) (hfuel : 2 * m + 1 ≤ fuel) :
    (∃ s1, mergeExportBody fuel e types (n, sk) s0 = .ok ((), s1)) ∨
      (∃ msg tf, mergeExportBody fuel e types (n, sk) s0 = .error (.err msg) ∧ F0.get n = some tf ∧ meet tf ts = none) := by
  obtain ⟨ti, hti, mt, hmt⟩ := hT0.itf
  have hts' : types.unfoldKind types.fuel sk = some ts := unfoldKind_mono _ (Nat.le_of_lt hm) _ _ hts
  simp only [mergeExportBody, run_bind, run_getAgg, hti, run_pure, run_get]
  cases hget : amGet ti.exports n with
  | none =>
    obtain ⟨k', s2, hr, _, _⟩ := (remapNest_total hW hs m).1 fuel d sk ts s0 ⟨hT0.ni, hcfg⟩ hsk hts hfuel
    left
    simp only [run_pure, Bool.not_false, ↓reduceIte, run_bind, hr, run_modifyTypes]
    exact ⟨_, rfl⟩
  | some tk =>
    have hmem : (n, tk) ∈ ti.exports := alGet_mem _ _ _ (by rw [← amGet_eq_alGet]; exact hget)
    have hcinv := hT0.ni.ainv.cinv
    obtain ⟨tf, htf, hFn⟩ := (unfoldItems_get ti.exports F0 n hmt).2 tk (by rw [← amGet_eq_alGet]; exact hget)
    rcases hT0.ni.iwf e ti hti _ hmem with ltk | ⟨wt, t, rfl, hnS, htl⟩ <;> rcases hsk with lk | ⟨ws, sid, rfl, hsrc⟩
    · -- leaf / leaf
      obtain ⟨r, c', hr, _, _, hne, tf', hFn', hiff⟩ :=
        keepExport_core hW hs (e := e) hT0.ni.ainv hT0.nd hmt hget ltk lk hts' htsnd
      rw [hFn] at hFn'; cases hFn'
      have heqf : isEqK tf = true := eqKind_unfoldLeaf ltk htf
      have hbad : r ≠ .ok → meet tf ts = none := by
        intro hr0
        have hne' : tf ≠ ts := fun h => hr0 (hiff.2 h.symm)
        rw [meet_eqK tf ts heqf]
        have : (tf == ts) = false := by simpa using hne'
        simp [this]
      have key : ∀ (X : AggM Unit), (do
            let __do_lift ← chkSubtype types sk s0.agg.types tk
            match __do_lift with
              | R.ok => do
                modifyAgg fun ag =>
                    { types := ag.types, imports := ag.imports,
                      remapped := alInsert ag.remapped (GTy.mk' types sk.ty) tk.ty,
                      interfaces := ag.interfaces, redirects := ag.redirects }
                let skip ← pure true
                if (!skip) = true then X else pure ()
              | x => do
                let ag ← getAgg
                withCtx (toString "mismatched type for export `" ++ toString (strS n) ++ toString "`")
                    (chkSubtypeQ ag.types tk types sk)
                let skip ← pure false
                if (!skip) = true then X else pure () : AggM Unit) s0 = .ok ((), keepState s0 c' (GTy.mk' types sk.ty) tk.ty) ∨
          ∃ msg, (do
            let __do_lift ← chkSubtype types sk s0.agg.types tk
            match __do_lift with
              | R.ok => do
                modifyAgg fun ag =>
                    { types := ag.types, imports := ag.imports,
                      remapped := alInsert ag.remapped (GTy.mk' types sk.ty) tk.ty,
                      interfaces := ag.interfaces, redirects := ag.redirects }
                let skip ← pure true
                if (!skip) = true then X else pure ()
              | x => do
                let ag ← getAgg
                withCtx (toString "mismatched type for export `" ++ toString (strS n) ++ toString "`")
                    (chkSubtypeQ ag.types tk types sk)
                let skip ← pure false
                if (!skip) = true then X else pure () : AggM Unit) s0 = .error (.err msg) ∧ meet tf ts = none := by
        intro X
        simp only [run_bind, hr]
        cases r with
        | ok =>
          left
          simp only [run_bind, run_modifyAgg, run_pure, Bool.not_true, Bool.false_eq_true, ↓reduceIte]
          rfl
        | err m0 =>
          obtain ⟨m', hm'⟩ := hne (by simp)
          right
          refine ⟨(s!"mismatched type for export `{strS n}`" ++ ": " ++ m'), ?_, hbad (by simp)⟩
          simp only [run_bind, run_getAgg, withCtx, hm']
        | panic m0 =>
          obtain ⟨m', hm'⟩ := hne (by simp)
          right
          refine ⟨(s!"mismatched type for export `{strS n}`" ++ ": " ++ m'), ?_, hbad (by simp)⟩
          simp only [run_bind, run_getAgg, withCtx, hm']
      have fin : ∀ {x : Except AErr (Unit × AggState)},
          (x = .ok ((), keepState s0 c' (GTy.mk' types sk.ty) tk.ty) ∨ ∃ msg, x = .error (.err msg) ∧ meet tf ts = none) →
          (∃ s1, x = .ok ((), s1)) ∨ (∃ msg tf', x = .error (.err msg) ∧ F0.get n = some tf' ∧ meet tf' ts = none) := by
        rintro x (h | ⟨msg, h, h'⟩)
        · exact .inl ⟨_, h⟩
        · exact .inr ⟨msg, tf, h, hFn, h'⟩
      cases tk with
      | func _ => exact fin (key _)
      | value _ => exact fin (key _)
      | type ty =>
        cases ty with
        | func _ => exact fin (key _)
        | value _ => exact fin (key _)
        | _ => cases ltk
      | _ => cases ltk
    · -- target leaf, source instance / type of interface: the kinds cannot be related
      right
      obtain ⟨⟨m1, h1⟩, _⟩ := chk_mismatch s0 hcinv types s0.agg.types (wrapK ws sid) tk
        (innerFalls_wrap_leaf ltk ws sid) (.inl (wrapK_not_leaf ws sid))
      obtain ⟨_, ⟨m2, h2⟩⟩ := chk_mismatch s0 hcinv s0.agg.types types tk (wrapK ws sid)
        (innerFalls_leaf_wrap ltk ws sid) (.inr (wrapK_not_leaf ws sid))
      obtain ⟨_, Gs, _, rfl, _⟩ := source_instance_rank hts
      have hnone : meet tf (wrapT ws (.instance Gs)) = none := meet_eqK_wrap ws Gs (eqKind_unfoldLeaf ltk htf)
      refine ⟨(s!"mismatched type for export `{strS n}`" ++ ": " ++ m2), tf, ?_, hFn, hnone⟩
      cases ws <;> simp only [wrapK] at h1 h2 ⊢ <;>
        (cases tk with
          | func _ => simp only [run_bind, h1, run_getAgg, withCtx, h2]
          | value _ => simp only [run_bind, h1, run_getAgg, withCtx, h2]
          | type ty =>
            cases ty with
            | func _ => simp only [run_bind, h1, run_getAgg, withCtx, h2]
            | value _ => simp only [run_bind, h1, run_getAgg, withCtx, h2]
            | _ => cases ltk
          | _ => cases ltk)
    · -- target instance / type of interface, source leaf
      right
      obtain ⟨⟨m1, h1⟩, _⟩ := chk_mismatch s0 hcinv types s0.agg.types sk (wrapK wt t)
        (innerFalls_leaf_wrap lk wt t) (.inr (wrapK_not_leaf wt t))
      obtain ⟨_, ⟨m2, h2⟩⟩ := chk_mismatch s0 hcinv s0.agg.types types (wrapK wt t) sk
        (innerFalls_wrap_leaf lk wt t) (.inl (wrapK_not_leaf wt t))
      obtain ⟨_, Ft, _, rfl, _⟩ := source_instance_rank htf
      have hnone : meet (wrapT wt (.instance Ft)) ts = none := meet_wrap_eqK wt Ft (eqKind_unfoldLeaf lk hts)
      refine ⟨(s!"mismatched type for export `{strS n}`" ++ ": " ++ m2), wrapT wt (.instance Ft), ?_, hFn, hnone⟩
      cases wt <;> simp only [wrapK] at h1 h2 ⊢ <;>
        (cases sk with
          | func _ => simp only [run_bind, h1, run_getAgg, withCtx, h2]
          | value _ => simp only [run_bind, h1, run_getAgg, withCtx, h2]
          | type ty =>
            cases ty with
            | func _ => simp only [run_bind, h1, run_getAgg, withCtx, h2]
            | value _ => simp only [run_bind, h1, run_getAgg, withCtx, h2]
            | _ => cases lk
          | _ => cases lk)
    · -- both nested kinds
      obtain ⟨copy, hcopy⟩ : ∃ copy, s0.agg.types.interfaces[t]? = some copy :=
        ⟨s0.agg.types.interfaces[t], by simp [List.getElem?_eq_getElem htl]⟩
      obtain ⟨Ft, hFt, hTP⟩ := nstate_push hT0 hti hget hcopy
      obtain ⟨m', Gs, rfl, rfl, hGs⟩ := source_instance_rank hts
      have hGsnd : Gs.namesDistinct = true := by simpa [nd_wrapT, Tree.namesDistinct] using htsnd
      have hrec := hIHt _ s0.agg.types.interfaces.length sid m' (pushIface s0 copy) Ft Gs d hTP hcfg hsrc hGs
        (by omega) hGsnd (by omega)
      cases wt with
      | false =>
        cases ws with
        | false =>
          simp only [wrapK, hT0.nested.1, ↓reduceIte, hcopy, run_bind, run_pure, run_modifyTypes]
          rcases hrec with ⟨s2, h2⟩ | ⟨msg, h2, hnone⟩
          · left
            have h2' : mergeInterface fuel s0.agg.types.interfaces.length types sid
                { s0 with agg := { s0.agg with types := { s0.agg.types with interfaces := s0.agg.types.interfaces ++ [copy] } } } =
                .ok ((), s2) := h2
            simp only [withCtx, h2', run_pure, Bool.not_true, Bool.false_eq_true, ↓reduceIte]
            exact ⟨_, rfl⟩
          · right
            have h2' : mergeInterface fuel s0.agg.types.interfaces.length types sid
                { s0 with agg := { s0.agg with types := { s0.agg.types with interfaces := s0.agg.types.interfaces ++ [copy] } } } =
                .error (.err msg) := h2
            refine ⟨(s!"mismatched type for export `{strS n}`" ++ ": " ++ msg), _, ?_, hFt, by rw [meet_wrapT]; simp [meet, hnone]⟩
            simp only [withCtx, h2']
        | true =>
          right
          obtain ⟨⟨m1, h1⟩, _⟩ := chk_mismatch s0 hcinv types s0.agg.types (wrapK true sid) (wrapK false t) rfl
            (.inl (wrapK_not_leaf true sid))
          obtain ⟨_, ⟨m2, h2⟩⟩ := chk_mismatch s0 hcinv s0.agg.types types (wrapK false t) (wrapK true sid) rfl
            (.inl (wrapK_not_leaf false t))
          refine ⟨(s!"mismatched type for export `{strS n}`" ++ ": " ++ m2), _, ?_, hFt, meet_wrap_ne false Ft Gs⟩
          simp only [wrapK] at h1 h2 ⊢
          simp only [run_bind, h1, run_getAgg, withCtx, h2]
      | true =>
        cases ws with
        | false =>
          right
          obtain ⟨⟨m1, h1⟩, _⟩ := chk_mismatch s0 hcinv types s0.agg.types (wrapK false sid) (wrapK true t) rfl
            (.inl (wrapK_not_leaf false sid))
          obtain ⟨_, ⟨m2, h2⟩⟩ := chk_mismatch s0 hcinv s0.agg.types types (wrapK true t) (wrapK false sid) rfl
            (.inl (wrapK_not_leaf true t))
          refine ⟨(s!"mismatched type for export `{strS n}`" ++ ": " ++ m2), _, ?_, hFt, meet_wrap_ne true Ft Gs⟩
          simp only [wrapK] at h1 h2 ⊢
          simp only [run_bind, h1, run_getAgg, withCtx, h2]
        | true =>
          simp only [wrapK, hT0.nested.2, ↓reduceIte, hcopy, run_bind, run_pure, run_modifyTypes]
          rcases hrec with ⟨s2, h2⟩ | ⟨msg, h2, hnone⟩
          · left
            have h2' : mergeInterface fuel s0.agg.types.interfaces.length types sid
                { s0 with agg := { s0.agg with types := { s0.agg.types with interfaces := s0.agg.types.interfaces ++ [copy] } } } =
                .ok ((), s2) := h2
            simp only [withCtx, h2', run_pure, Bool.not_true, Bool.false_eq_true, ↓reduceIte]
            exact ⟨_, rfl⟩
          · right
            have h2' : mergeInterface fuel s0.agg.types.interfaces.length types sid
                { s0 with agg := { s0.agg with types := { s0.agg.types with interfaces := s0.agg.types.interfaces ++ [copy] } } } =
                .error (.err msg) := h2
            refine ⟨(s!"mismatched type for export `{strS n}`" ++ ": " ++ msg), _, ?_, hFt, by rw [meet_wrapT]; simp [meet, hnone]⟩
            simp only [withCtx, h2']

include hW hs in
/-- **`merge_interface` on nested interfaces is total**: with enough fuel it returns `Ok`, or an
error exactly because the specification's merge is undefined; it never panics -/
theorem mergeInterface_ntotal : ∀ fuel, MergeTot W types fuel
  | 0 => by
    intro S e id m s F G d _ _ _ _ _ _ hf
    omega
  | fuel + 1 => by
    intro S e id m s F G d hT hcfg hsrc hG hm hGnd hfuel
    cases d with
    | zero => exact hsrc.elim
    | succ d =>
      obtain ⟨si, hsi, huses, _, hexp⟩ := hsrc
      rw [mergeInterface_succ]
      simp only [hsi, run_bind, run_pure, huses, mergeUsedTypes, forMList]
      exact nest_loop_total (u := types.uid) (d := d) (C := fun s => s.cfg.remapReplaced = true) m (Nat.le_of_lt hm)
        (fun n sk s0 s1 F0 ts hT0 hsk hts htsnd hb =>
          mergeExport_nstep hW hs (mergeInterface_nest hW hs fuel) n sk s0 s1 F0 ts hT0 hsk hts htsnd hb)
        (fun s s' hc hst => by rw [hst.cfg]; exact hc)
        (fun n sk s0 F0 ts hT0 hc hsk hts htsnd =>
          mergeExport_ntotal hW hs (mergeInterface_ntotal fuel) n sk s0 F0 ts hT0 hc hsk hm hts htsnd (by omega))
        si.exports G s F hT hcfg hexp (hG si hsi) hGnd

end ntot

end Wac.AggP
