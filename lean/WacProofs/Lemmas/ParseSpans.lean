import WacModel.Parser
import WacModel.AstJson
import WacProofs.Lemmas.LexSpans
/-
  Every diagnostic of the parser model points inside the source, on character boundaries
  (induction over the parse functions with an invariant on the lexer state).
-/
namespace Wac.Lemmas.ParseSpans
open Wac Wac.Lex Wac.Parse Wac.Ast Wac.Lemmas Wac.Lemmas.LexSpans

/-- `sp` is the byte range of some sub-list of `src` -/
def GoodSpan (src : Str) (sp : Span) : Prop := ∃ text, Slice src sp text

/-- the invariant of the lexer state between two parser calls -/
structure Inv (src : Str) (st : PState) : Prop where
  src_eq : st.src = src
  len_eq : st.srcLen = utf8Len src
  toks : ∀ t ∈ st.toks, Slice src t.span t.text
  last : st.lastEnd = st.srcLen ∨ GoodSpan src ⟨st.lastStart, st.lastEnd - st.lastStart⟩

/-- the span carried by a diagnostic is good -/
def GoodErr (src : Str) (e : ParseError) : Prop :=
  match e with
  | .Lexer _ s | .Expected _ _ s | .ExpectedEither _ _ _ s | .ExpectedMultiple _ _ _ s
  | .EmptyType _ _ s => GoodSpan src s
  | .InvalidVersion _ s => s.offset + s.len ≤ utf8Len src
  | .Panic _ => True
  | .OutOfFuel => True

theorem charAt_good (b : Nat) : ∀ (s : Str) (pos : Nat) (pre : Str), pos = utf8Len pre →
    GoodSpan (pre ++ s) ⟨(charAt b pos s).1, (charAt b pos s).2⟩ := by
  intro s
  induction s with
  | nil => intro pos pre h; exact ⟨[], pre, [], by simp, by simp [charAt, h], by simp [charAt]⟩
  | cons c r ih =>
    intro pos pre h
    unfold charAt
    split
    · exact ⟨[c], pre, r, by simp, by simp [h], by simp⟩
    · have := ih (pos + c.utf8Size) (pre ++ [c]) (by simp [h])
      simpa using this

theorem span_good {src st} (hi : Inv src st) : GoodSpan src st.span := by
  unfold PState.span
  split
  · have := charAt_good (st.lastStart - 1) st.src 0 [] (by simp)
    simpa [hi.src_eq] using this
  · rename_i h
    rcases hi.last with h' | h'
    · exact absurd h' h
    · exact h'

/-- what `next` does to the state, whatever the bracket bookkeeping -/
theorem next_cons {st : PState} {t : LTok} {r : List LTok} (h : st.toks = t :: r) :
    st.next.2.toks = r ∧ st.next.2.src = st.src ∧ st.next.2.srcLen = st.srcLen ∧
    st.next.2.lastStart = t.span.offset ∧ st.next.2.lastEnd = t.span.offset + t.span.len ∧
    ∃ t', st.next.1 = some t' ∧ t'.span = t.span ∧ t'.text = t.text ∧ t'.docs = t.docs ∧
      (∀ k, t'.res = .ok k → t.res = .ok k) := by
  simp only [PState.next, h]
  cases hres : t.res with
  | error e => simp [hres]
  | ok k =>
    by_cases h1 : isOpenBracket k = true
    · by_cases h2 : tooDeep (st.depth + 1) = true <;> simp [h1, h2, hres]
    · by_cases h3 : isCloseBracket k = true <;> simp [h1, h3, hres]

theorem next_nil {st : PState} (h : st.toks = []) :
    st.next.1 = none ∧ st.next.2.toks = [] ∧ st.next.2.src = st.src ∧ st.next.2.srcLen = st.srcLen ∧
    st.next.2.lastEnd = st.srcLen := by
  simp [PState.next, h]

theorem next_inv {src st} (hi : Inv src st) : Inv src st.next.2 := by
  cases hts : st.toks with
  | nil =>
    obtain ⟨_, h2, h3, h4, h5⟩ := next_nil hts
    exact ⟨by rw [h3]; exact hi.src_eq, by rw [h4]; exact hi.len_eq, by simp [h2], Or.inl (by rw [h5, h4])⟩
  | cons t r =>
    obtain ⟨h1, h2, h3, h4, h5, _⟩ := next_cons hts
    have ht : GoodSpan src t.span := ⟨_, hi.toks t (by simp [hts])⟩
    refine ⟨by rw [h2]; exact hi.src_eq, by rw [h3]; exact hi.len_eq, ?_, Or.inr ?_⟩
    · intro t' h'; rw [h1] at h'; exact hi.toks t' (by simp [hts, h'])
    · rw [h4, h5]; simpa using ht

theorem next_tok {src st t} (hi : Inv src st) (h : st.next.1 = some t) : Slice src t.span t.text := by
  cases hts : st.toks with
  | nil => have := (next_nil hts).1; simp [this] at h
  | cons t0 r =>
    obtain ⟨_, _, _, _, _, t', h1, h2, h3, _⟩ := next_cons hts
    rw [h1] at h
    cases h
    rw [h2, h3]; exact hi.toks t0 (by simp [hts])

/-- a parse step respects the invariant: on success the new state satisfies it, on failure the
diagnostic is good -/
def Good {α : Type} (src : Str) (r : Except ParseError (α × PState)) : Prop :=
  match r with
  | .ok (_, st') => Inv src st'
  | .error e => GoodErr src e

theorem good_ok {α : Type} {src : Str} {a : α} {st : PState} (hi : Inv src st) :
    Good src (.ok (a, st) : Except ParseError (α × PState)) := hi

theorem good_err {α : Type} {src : Str} {e : ParseError} (h : GoodErr src e) :
    Good src (.error e : Except ParseError (α × PState)) := h

theorem good_bind {α β : Type} {src : Str} {x : Except ParseError (α × PState)}
    {f : α × PState → Except ParseError (β × PState)}
    (hx : Good src x) (hf : ∀ p : α × PState, x = .ok p → Inv src p.2 → Good src (f p)) :
    Good src (x >>= f) := by
  cases x with
  | error e => exact hx
  | ok p => exact hf p rfl hx

theorem lookaheadError_good {src st} (hi : Inv src st) (attempts : List Token) :
    GoodErr src (lookaheadError st attempts) := by
  unfold lookaheadError
  have hsp := span_good hi
  cases hp : st.peek with
  | none =>
    simp only []
    split <;> simp [GoodErr, hsp]
  | some t =>
    have ht : GoodSpan src t.span := ⟨_, hi.toks t (by
      simp [PState.peek] at hp; exact List.mem_of_mem_head? hp)⟩
    simp only []
    cases t.res with
    | ok k => simp only []; split <;> simp [GoodErr, ht]
    | error e => simp [GoodErr, ht]

theorem good_parseToken {src st} (hi : Inv src st) (k : Token) : Good src (parseToken st k) := by
  unfold parseToken
  have hn := next_inv hi
  cases hts : st.toks with
  | nil =>
    have h1 := (next_nil hts).1
    rw [show st.next = (st.next.1, st.next.2) from rfl, h1]
    exact good_err (by simp [GoodErr]; exact span_good hn)
  | cons t0 r =>
    obtain ⟨_, _, _, _, _, t', h1, h2, _⟩ := next_cons hts
    have ht : GoodSpan src t'.span := ⟨_, next_tok hi h1⟩
    rw [show st.next = (st.next.1, st.next.2) from rfl, h1]
    simp only []
    cases t'.res with
    | ok found =>
      simp only []
      split
      · exact good_ok hn
      · exact good_err (by simp [GoodErr, ht])
    | error e => exact good_err (by simp [GoodErr, ht])

theorem good_parseOptional {α : Type} {src st} (hi : Inv src st) (k : Token)
    {cb : PState → Except ParseError (α × PState)} (hcb : ∀ st', Inv src st' → Good src (cb st')) :
    Good src (parseOptional st k cb) := by
  unfold parseOptional
  cases hp : st.peek with
  | none => exact good_ok hi
  | some t =>
    have ht : GoodSpan src t.span := ⟨_, hi.toks t (by
      simp [PState.peek] at hp; exact List.mem_of_mem_head? hp)⟩
    simp only []
    cases t.res with
    | error e => exact good_err (by simp [GoodErr, ht])
    | ok k' =>
      simp only []
      split
      · have h1 := good_parseToken hi k
        cases hpt : parseToken st k with
        | error e => rw [hpt] at h1; exact good_err h1
        | ok p =>
          rw [hpt] at h1
          simp only []
          have h2 := hcb p.2 h1
          cases hc : cb p.2 with
          | error e => rw [hc] at h2; exact good_err h2
          | ok q => rw [hc] at h2; exact good_ok h2
      · exact good_ok hi

theorem good_parseDelimited {α : Type} {src} (stop : Token) (commas : Bool) (peeks : List Token)
    {item : PState → Except ParseError (α × PState)} (hitem : ∀ st', Inv src st' → Good src (item st')) :
    ∀ (fuel : Nat) (st : PState), Inv src st → Good src (parseDelimited stop commas peeks item fuel st) := by
  intro fuel
  induction fuel with
  | zero => intro st _; exact good_err (by simp [GoodErr])
  | succ fuel ih =>
    intro st hi
    unfold parseDelimited
    split
    · exact good_ok hi
    · split
      · exact good_err (lookaheadError_good hi _)
      · have h1 := hitem st hi
        cases hit : item st with
        | error e => rw [hit] at h1; exact good_err h1
        | ok p =>
          rw [hit] at h1
          obtain ⟨x, st1⟩ := p
          simp only []
          split
          · split
            · exact good_ok h1
            · split
              · have h2 := good_parseToken h1 .Comma
                cases hc : parseToken st1 .Comma with
                | error e => rw [hc] at h2; exact good_err h2
                | ok q =>
                  rw [hc] at h2
                  obtain ⟨_, st2⟩ := q
                  simp only []
                  have h3 := ih st2 h2
                  cases hr : parseDelimited stop commas peeks item fuel st2 with
                  | error e => rw [hr] at h3; exact good_err h3
                  | ok q2 => rw [hr] at h3; obtain ⟨xs, st3⟩ := q2; exact good_ok h3
              · have h3 := ih st1 h1
                cases hr : parseDelimited stop commas peeks item fuel st1 with
                | error e => rw [hr] at h3; exact good_err h3
                | ok q2 => rw [hr] at h3; obtain ⟨xs, st3⟩ := q2; exact good_ok h3
          · exact good_err (lookaheadError_good h1 _)

/-- the token returned by a successful `parse_token` is a slice of the source -/
theorem parseToken_slice {src st k t st'} (hi : Inv src st) (h : parseToken st k = .ok (t, st')) :
    Slice src t.span t.text := by
  unfold parseToken at h
  cases hts : st.toks with
  | nil =>
    have h1 := (next_nil hts).1
    rw [show st.next = (st.next.1, st.next.2) from rfl, h1] at h
    simp at h
  | cons t0 r =>
    obtain ⟨_, _, _, _, _, t', h1, _⟩ := next_cons hts
    have ht := next_tok hi h1
    rw [show st.next = (st.next.1, st.next.2) from rfl, h1] at h
    simp only [] at h
    cases hr : t'.res with
    | error e => simp [hr] at h
    | ok found =>
      simp only [hr] at h
      split at h
      · simp at h; rw [← h.1]; exact ht
      · simp at h

theorem good_bind_pure {α β : Type} {src : Str} {x : Except ParseError α}
    {f : α → Except ParseError (β × PState)}
    (hx : ∀ e, x = .error e → GoodErr src e) (hf : ∀ a, x = .ok a → Good src (f a)) : Good src (x >>= f) := by
  cases x with
  | error e => exact hx e rfl
  | ok a => exact hf a rfl

theorem length_le_utf8Len (s : Str) : s.length ≤ utf8Len s := by
  induction s with
  | nil => simp
  | cons c r ih => have := utf8Size_pos c; simp; omega

theorem findIdx_lt {s : Str} {c : Char} {i : Nat} (h : findIdx s c = some i) : i < s.length := by
  simp only [findIdx] at h
  split at h <;> simp_all

theorem parseVersionAt_err {src s span at? e} (hs : Slice src span s)
    (h : parseVersionAt s span at? = .error e) (hat : ∀ i, at? = some i → i < s.length) : GoodErr src e := by
  unfold parseVersionAt at h
  split at h
  · simp at h
  · rename_i i
    simp only [] at h
    split at h
    · simp at h
    · simp at h
      subst h
      have hb := hs.in_bounds
      have hi := hat i rfl
      have hl := length_le_utf8Len s
      obtain ⟨pre, post, _, _, h2⟩ := hs
      simp only [GoodErr]
      omega

theorem next_inv' {src st o st'} (hi : Inv src st) (h : st.next = (o, st')) : Inv src st' := by
  have := next_inv hi
  rw [h] at this
  exact this

/-- find the invariant of the current state -/
syntax "inv_tac" : tactic
macro_rules | `(tactic| inv_tac) => `(tactic| first
  | assumption
  | exact next_inv (by assumption)
  | exact next_inv' (by assumption) (by assumption))

/-- extensible: one rule per proved parse function -/
syntax "good_lemma" : tactic
macro_rules | `(tactic| good_lemma) => `(tactic| exact good_parseToken (by inv_tac) _)

/-- discharge `Good src (do …)` goals for functions built from already treated ones; the optional
terms are induction hypotheses `∀ st, Inv src st → Good src (f st)` -/
syntax "good_tac" ("[" term,* "]")? : tactic
macro_rules
  | `(tactic| good_tac) => `(tactic| good_tac [])
  | `(tactic| good_tac [$ts,*]) => `(tactic| repeat (first
      | assumption
      | exact good_ok (by inv_tac)
      | exact good_err (lookaheadError_good (by inv_tac) _)
      | (focus (apply good_err; simp [GoodErr]; done))
      | (apply good_err; simp only [GoodErr]; refine ⟨_, parseToken_slice ?_ (by assumption)⟩; assumption)
      | good_lemma
      $[| exact $ts _ (by inv_tac)]*
      | exact next_inv ‹_›
      | exact next_inv' ‹_› ‹_›
      | (apply good_bind)
      | (apply good_parseDelimited)
      | (apply good_parseOptional)
      | (intro p heq hp; obtain ⟨a, st⟩ := p; dsimp only at hp ⊢)
      | (intro st' hst')
      | split
      | dsimp only))

end Wac.Lemmas.ParseSpans
