import WacProofs.Lemmas.PlugOnly
import WacProofs.Lemmas.GraphToVal
import WacProofs.Lemmas.GraphAbsDefItem
import WacModel.Spec.Scoped
/-
  C10 → C01 (`plug_encodes_valid`, structural part): what the steps of `plug` preserve beyond the
  C06 invariant so that the encoder theorems apply to the graph `plug` returns.

  * `Enc ctx g`: no self edge (`NoSelf`), no definition exported under a second name (`DefNames`,
    the bridge hypothesis `hnames1` of `inv_wf_graphVal_partial`), definition nodes carry the item
    kind of their type (`DefItem`).  Every step of `plug` (`instantiate`, `alias_instance_export`,
    `set_instantiation_argument` of an alias node, `export` of an alias node) preserves it:
    `plug_enc`.
  * `closed_toGraphVal`: the graph value of a consistent state without self edges is `Closed`
    (the second hypothesis of `encode_no_panic`).
  * `registerAll`: a graph in which only packages were registered is `Pristine` (no node, edge,
    export), hence `Enc` and `Inv`.
-/
namespace Wac.Graph
open Wac Wac.HashSites

/-- no edge from a node to itself -/
def NoSelf (g : Graph) : Prop := ∀ e ∈ g.edges, e.src ≠ e.dst

/-- a definition node that is the target of an export-map entry carries that name -/
def DefNames (g : Graph) : Prop :=
  ∀ e ∈ g.exports, ∀ nd, g.node? e.2 = some nd → nd.isDef = true → nd.exp = some e.1

structure Enc (ctx : Ctx) (g : Graph) : Prop where
  noSelf : NoSelf g
  defNames : DefNames g
  defItem : DefItem ctx g

/-- a step that leaves definition nodes alone, adds export entries for non-definitions only and
    adds no self edge -/
theorem Enc.of_step {ctx : Ctx} {g g' : Graph} (he : Enc ctx g)
    (hd : ∀ n nd, g'.node? n = some nd → nd.isDef = true → g.node? n = some nd)
    (hx : ∀ x ∈ g'.exports, x ∈ g.exports ∨ ∀ nd, g'.node? x.2 = some nd → nd.isDef = false)
    (hs : ∀ e ∈ g'.edges, e ∈ g.edges ∨ e.src ≠ e.dst) : Enc ctx g' := by
  refine ⟨?_, ?_, ?_⟩
  · intro e hE
    rcases hs e hE with h1 | h1
    · exact he.noSelf e h1
    · exact h1
  · intro x hX nd hnd hdef
    rcases hx x hX with h1 | h1
    · exact he.defNames x h1 nd (hd _ nd hnd hdef) hdef
    · rw [h1 nd hnd] at hdef; cases hdef
  · intro n nd ty hnd hk
    have hdef : nd.isDef = true := by unfold Node.isDef; rw [hk]
    exact he.defItem n nd ty (hd n nd hnd hdef) hk

theorem enc_addNode {ctx : Ctx} {g : Graph} (h : Inv ctx g) (he : Enc ctx g) (nd0 : Node)
    (h0 : nd0.isDef = false) : Enc ctx (g.addNode nd0).1 := by
  have a := added_of_addNode h nd0
  refine he.of_step ?_ ?_ ?_
  · intro n nd hnd hdef
    rw [a.node] at hnd
    split at hnd
    · cases hnd; rw [h0] at hdef; cases hdef
    · exact hnd
  · intro x hx; rw [a.exports] at hx; exact Or.inl hx
  · intro e hE; rw [a.edges] at hE; exact Or.inl hE

theorem enc_addEdge {ctx : Ctx} {g : Graph} (he : Enc ctx g) (s d : Nat) (k : EdgeKind) (hsd : s ≠ d) :
    Enc ctx (g.addEdge s d k) := by
  refine he.of_step (fun n nd hnd _ => hnd) (fun x hx => Or.inl hx) ?_
  intro e hE
  have hE' : e ∈ (⟨s, d, k⟩ : Edge) :: g.edges := hE
  rcases List.mem_cons.mp hE' with rfl | h1
  · exact Or.inr hsd
  · exact Or.inl h1

theorem enc_setNode {ctx : Ctx} {g : Graph} (he : Enc ctx g) {n : Nat} {old : Node} (hn : g.node? n = some old)
    (nd' : Node) (h0 : nd'.isDef = false) : Enc ctx (g.setNode n nd') := by
  have hnode := node?_set (g := g) (g' := g.setNode n nd') (i := n) (x := some nd') rfl (node?_eq_some_lt hn)
  refine he.of_step ?_ (fun x hx => Or.inl hx) (fun e hE => Or.inl hE)
  intro m nd hnd hdef
  rw [hnode] at hnd
  split at hnd
  · cases hnd; rw [h0] at hdef; cases hdef
  · exact hnd

theorem enc_insertExport {ctx : Ctx} {g : Graph} (he : Enc ctx g) (name : Str) (n : Nat)
    (hnone : alGet g.exports name = none) (hn : ∀ nd, g.node? n = some nd → nd.isDef = false) :
    Enc ctx { g with exports := alInsert g.exports name n } := by
  refine he.of_step (fun _ _ hnd _ => hnd) ?_ (fun e hE => Or.inl hE)
  intro x hx
  have hx' : x ∈ alInsert g.exports name n := hx
  rcases (alInsert_mem hnone x).mp hx' with h1 | h1
  · exact Or.inl h1
  · right; subst h1; exact hn

theorem enc_instantiate {ctx : Ctx} {g : Graph} (h : Inv ctx g) (he : Enc ctx g) (id : PkgId) :
    Enc ctx (instantiate g id).1 := by
  unfold instantiate
  split
  · exact he
  · exact enc_addNode h he _ rfl

theorem enc_alias {ctx : Ctx} {g : Graph} (h : Inv ctx g) (he : Enc ctx g) (inst : Nat) (ename : Str) :
    Enc ctx (aliasInstanceExport ctx g inst ename).1 := by
  unfold aliasInstanceExport
  split
  · exact he
  · rename_i nd hnd
    split
    · exact he
    · split
      · exact he
      · rename_i i k _
        split
        · exact he
        · have a := added_of_addNode h ⟨.alias, nd.pkg, k, none, none⟩
          refine enc_addEdge (enc_addNode h he _ rfl) _ _ _ ?_
          intro heq
          rw [heq, a.fresh] at hnd
          cases hnd

theorem enc_setArg {ctx : Ctx} {g : Graph} (he : Enc ctx g) (inst : Nat) (name : Str) (arg : Nat)
    (ha : ∃ x, g.node? arg = some x ∧ x.isAlias = true) : Enc ctx (setArg ctx g inst name arg).1 := by
  unfold setArg
  split
  · exact he
  · rename_i nd hnd
    split
    · rename_i sat hk
      split
      · exact he
      · split
        · exact he
        · split
          · exact he
          · split
            · exact he
            · exact he
            · exact he
            · split
              · exact he
              · split
                · exact he
                · split
                  · exact he
                  · simp only
                    refine enc_setNode (enc_addEdge he _ _ _ ?_) (old := nd) hnd _ ?_
                    · intro heq
                      obtain ⟨x, hx, hxa⟩ := ha
                      rw [heq, hnd] at hx
                      cases hx
                      unfold Node.isAlias at hxa
                      rw [hk] at hxa
                      cases hxa
                    · simp [Node.isDef]
    · exact he

theorem enc_exportNode {ctx : Ctx} {g : Graph} (he : Enc ctx g) (n : Nat) (name : Str)
    (ha : ∀ x, g.node? n = some x → x.isAlias = true) : Enc ctx (exportNode ctx g n name).1 := by
  unfold exportNode
  split
  · exact he
  · rename_i hnone
    split
    · exact he
    · split
      · exact he
      · rename_i nd hnd
        have hal := ha nd hnd
        have hkind : nd.kind = .alias := by
          unfold Node.isAlias at hal
          cases hk : nd.kind <;> rw [hk] at hal <;> first | rfl | cases hal
        have hnd' : (match nd.kind with
              | .definition _ => if ctx.exportRenamesDefinition then { nd with exp := some name } else nd
              | _ => { nd with exp := some name }).isDef = false := by
          rw [hkind]; simp [Node.isDef]
        have hnode := node?_set (g := g) (g' := g.setNode n (match nd.kind with
              | .definition _ => if ctx.exportRenamesDefinition then { nd with exp := some name } else nd
              | _ => { nd with exp := some name })) (i := n) (x := some _) rfl (node?_eq_some_lt hnd)
        refine enc_insertExport (enc_setNode he hnd _ hnd') name n hnone ?_
        intro nd2 h2
        rw [hnode] at h2
        simp only [↓reduceIte, Option.some.injEq] at h2
        rw [← h2]; exact hnd'

/-- the node `alias_instance_export` returns is an alias node -/
theorem alias_result_isAlias {ctx : Ctx} {g g2 : Graph} (h : Inv ctx g) {inst a : Nat} {ename : Str}
    (hs : aliasInstanceExport ctx g inst ename = (g2, .ok (.node a))) :
    ∃ x, g2.node? a = some x ∧ x.isAlias = true := by
  have h2 : Inv ctx g2 := inv_aliasInstanceExport h hs
  obtain ⟨_, hk⟩ := alias_keeps h inst ename
  rw [hs] at hk
  obtain ⟨nd, exps, i, k, _, _, _, hedge⟩ := hk a rfl
  obtain ⟨s, _, d, hd, hkk⟩ := h2.edges _ hedge
  simp only at hkk
  exact ⟨d, Option.mem_def.mp hd, hkk.1⟩

/-! ### the loops of `plug` -/

theorem plugOne_enc {ctx : Ctx} (si : Nat) (p : PkgId) : ∀ (l : List (Str × Str)) (g g' : Graph) (inst : Option Nat)
    (o : Option PlugOutcome), Inv ctx g → Enc ctx g → plugOne ctx si p l g inst = (g', o) → Enc ctx g'
  | [], g, g', inst, o, h, he, hs => by
    simp only [plugOne, Prod.mk.injEq] at hs
    rw [← hs.1]; exact he
  | (plugName, socketName) :: rest, g, g', inst, o, h, he, hs => by
    unfold plugOne at hs
    have key : ∀ (g1 : Graph) (i : Nat), Inv ctx g1 → Enc ctx g1 →
        (match aliasInstanceExport ctx g1 i plugName with
          | (g2, .ok (.node a)) =>
            match setArg ctx g2 si socketName a with
            | (g3, .ok _) => plugOne ctx si p rest g3 (some i)
            | (g3, .err e) => (g3, some (.graphError e))
            | (g3, .panic s) => (g3, some (.panic s))
          | (g2, .err e) => (g2, some (.graphError e))
          | (g2, .panic s) => (g2, some (.panic s))
          | (g2, .ok _) => (g2, some (.panic .invalidNodeId))) = (g', o) → Enc ctx g' := by
      intro g1 i h1 he1 hs1
      have he2' := enc_alias h1 he1 i plugName
      cases ha : aliasInstanceExport ctx g1 i plugName with
      | mk g2 oa =>
        have h2 : Inv ctx g2 := inv_aliasInstanceExport h1 ha
        rw [ha] at hs1 he2'
        have he2 : Enc ctx g2 := he2'
        cases oa with
        | ok v =>
          cases v with
          | node a =>
            simp only at hs1
            have he3' := enc_setArg he2 si socketName a (alias_result_isAlias h1 ha)
            cases hsa : setArg ctx g2 si socketName a with
            | mk g3 os =>
              have h3 : Inv ctx g3 := inv_setArg h2 hsa
              rw [hsa] at hs1 he3'
              have he3 : Enc ctx g3 := he3'
              cases os with
              | ok v' => exact plugOne_enc si p rest g3 g' (some i) o h3 he3 hs1
              | err e => simp only [Prod.mk.injEq] at hs1; rw [← hs1.1]; exact he3
              | panic s => simp only [Prod.mk.injEq] at hs1; rw [← hs1.1]; exact he3
          | unit => simp only [Prod.mk.injEq] at hs1; rw [← hs1.1]; exact he2
          | pkg id => simp only [Prod.mk.injEq] at hs1; rw [← hs1.1]; exact he2
        | err e => simp only [Prod.mk.injEq] at hs1; rw [← hs1.1]; exact he2
        | panic s => simp only [Prod.mk.injEq] at hs1; rw [← hs1.1]; exact he2
    cases inst with
    | some i =>
      simp only at hs
      exact key g i h he hs
    | none =>
      simp only at hs
      have he1' := enc_instantiate h he p
      cases hi : instantiate g p with
      | mk g1 oi =>
        have h1 : Inv ctx g1 := inv_instantiate h hi
        rw [hi] at hs he1'
        have he1 : Enc ctx g1 := he1'
        cases oi with
        | ok v =>
          cases v with
          | node i => simp only at hs; exact key g1 i h1 he1 hs
          | unit => simp only [Prod.mk.injEq] at hs; rw [← hs.1]; exact he1
          | pkg id => simp only [Prod.mk.injEq] at hs; rw [← hs.1]; exact he1
        | err e => simp only [Prod.mk.injEq] at hs; rw [← hs.1]; exact he1
        | panic s => simp only [Prod.mk.injEq] at hs; rw [← hs.1]; exact he1

theorem plugAll_enc {ctx : Ctx} (si : Nat) (socketD : PkgDef) : ∀ (ps : List PkgId) (g g' : Graph)
    (o : Option PlugOutcome), Inv ctx g → Enc ctx g → plugAll ctx si socketD ps g = (g', o) → Enc ctx g'
  | [], g, g', o, h, he, hs => by
    simp only [plugAll, Prod.mk.injEq] at hs
    rw [← hs.1]; exact he
  | p :: ps, g, g', o, h, he, hs => by
    unfold plugAll at hs
    cases hp : g.pkgOf p with
    | error s => rw [hp] at hs; simp only [Prod.mk.injEq] at hs; rw [← hs.1]; exact he
    | ok plugD =>
      rw [hp] at hs
      simp only at hs
      cases h1 : plugOne ctx si p (plugExports ctx plugD socketD) g none with
      | mk g1 o1 =>
        have hi1 : Inv ctx g1 := plugOne_inv si p _ g g1 none o1 h h1
        have he1 : Enc ctx g1 := plugOne_enc si p _ g g1 none o1 h he h1
        rw [h1] at hs
        cases o1 with
        | some oo => simp only [Prod.mk.injEq] at hs; rw [← hs.1]; exact he1
        | none => exact plugAll_enc si socketD ps g1 g' o hi1 he1 hs

theorem exportSocket_enc {ctx : Ctx} (si : Nat) : ∀ (names : List Str) (g g' : Graph) (o : Option PlugOutcome),
    Inv ctx g → Enc ctx g → exportSocket ctx si names g = (g', o) → Enc ctx g'
  | [], g, g', o, h, he, hs => by
    simp only [exportSocket, Prod.mk.injEq] at hs
    rw [← hs.1]; exact he
  | name :: rest, g, g', o, h, he, hs => by
    unfold exportSocket at hs
    have he1' := enc_alias h he si name
    cases ha : aliasInstanceExport ctx g si name with
    | mk g1 oa =>
      have h1 : Inv ctx g1 := inv_aliasInstanceExport h ha
      rw [ha] at hs he1'
      have he1 : Enc ctx g1 := he1'
      cases oa with
      | ok v =>
        cases v with
        | node a =>
          simp only at hs
          obtain ⟨x, hx, hxa⟩ := alias_result_isAlias h ha
          have he2' := enc_exportNode he1 a name (fun y hy => by rw [hx] at hy; cases hy; exact hxa)
          cases hex : exportNode ctx g1 a name with
          | mk g2 oe =>
            have h2 : Inv ctx g2 := inv_exportNode h1 hex
            rw [hex] at hs he2'
            have he2 : Enc ctx g2 := he2'
            cases oe with
            | ok v' => exact exportSocket_enc si rest g2 g' o h2 he2 hs
            | err e => simp only [Prod.mk.injEq] at hs; rw [← hs.1]; exact he2
            | panic s => simp only [Prod.mk.injEq] at hs; rw [← hs.1]; exact he2
        | unit => simp only [Prod.mk.injEq] at hs; rw [← hs.1]; exact he1
        | pkg id => simp only [Prod.mk.injEq] at hs; rw [← hs.1]; exact he1
      | err e => simp only [Prod.mk.injEq] at hs; rw [← hs.1]; exact he1
      | panic s => simp only [Prod.mk.injEq] at hs; rw [← hs.1]; exact he1

/-- whatever `plug` returns, the graph it leaves has no self edge, no renamed definition and
    well-kinded definitions, when the graph it started from had -/
theorem plug_enc {ctx : Ctx} {g : Graph} (h : Inv ctx g) (he : Enc ctx g) (plugs : List PkgId) (socket : PkgId) :
    Enc ctx (plug ctx g plugs socket).1 := by
  unfold plug
  cases hp : g.pkgOf socket with
  | error s => exact he
  | ok socketD =>
    simp only
    have he1' := enc_instantiate h he socket
    cases hi : instantiate g socket with
    | mk g1 oi =>
      have h1 : Inv ctx g1 := inv_instantiate h hi
      rw [hi] at he1'
      have he1 : Enc ctx g1 := he1'
      cases oi with
      | ok v =>
        cases v with
        | node si =>
          simp only
          cases ha : plugAll ctx si socketD plugs g1 with
          | mk g2 o2 =>
            have h2 : Inv ctx g2 := plugAll_inv si socketD plugs g1 g2 o2 h1 ha
            have he2 : Enc ctx g2 := plugAll_enc si socketD plugs g1 g2 o2 h1 he1 ha
            cases o2 with
            | some oo => exact he2
            | none =>
              simp only
              cases hargs : getInstantiationArguments g2 si with
              | error s => exact he2
              | ok l =>
                cases l with
                | nil => exact he2
                | cons x r =>
                  simp only
                  cases hex : exportSocket ctx si ((ctx.pkgExports socketD).map (·.1)) g2 with
                  | mk g3 o3 =>
                    have he3 : Enc ctx g3 := exportSocket_enc si _ g2 g3 o3 h2 he2 hex
                    cases o3 <;> exact he3
        | unit => exact he1
        | pkg id => exact he1
      | err e => exact he1
      | panic s => exact he1

/-! ### a graph in which only packages were registered -/

/-- `register_package` for each package in turn (a duplicate key is an error that leaves the
    graph as it was): what `wac plug` does before calling `plug` -/
def registerAll (g : Graph) : List PkgDef → Graph
  | [] => g
  | d :: ds => registerAll (registerPackage g d).1 ds

/-- no node, no edge, no export -/
def Pristine (g : Graph) : Prop := g.nodes = [] ∧ g.edges = [] ∧ g.exports = []

theorem registerPackage_pristine {g : Graph} (hp : Pristine g) (d : PkgDef) : Pristine (registerPackage g d).1 := by
  unfold registerPackage
  split
  · exact hp
  · split
    · split
      · exact hp
      · split
        · exact hp
        · exact hp
    · exact hp

theorem registerAll_pristine {ctx : Ctx} : ∀ (ds : List PkgDef) (g : Graph), Inv ctx g → Pristine g →
    Inv ctx (registerAll g ds) ∧ Pristine (registerAll g ds)
  | [], _, h, hp => ⟨h, hp⟩
  | d :: ds, g, h, hp => by
    unfold registerAll
    exact registerAll_pristine ds _ (inv_registerPackage (out := (registerPackage g d).2) h rfl)
      (registerPackage_pristine hp d)

theorem Pristine.enc {ctx : Ctx} {g : Graph} (hp : Pristine g) : Enc ctx g := by
  obtain ⟨h1, h2, h3⟩ := hp
  refine ⟨?_, ?_, ?_⟩
  · intro e he; rw [h2] at he; cases he
  · intro e he; rw [h3] at he; cases he
  · intro n nd ty hn; simp [Graph.node?, h1] at hn

/-! ### the graph value of a consistent state without self edges is closed -/

theorem closed_toGraphVal {ctx : Ctx} (vc : ValCtx) {g : Graph} (h : Inv ctx g) (hns : NoSelf g)
    (hki : ∀ k exps, ctx.kindExports k = some exps → (vc.ty k).kind = .instance) :
    Spec.Closed (toGraphVal ctx vc g) := by
  refine ⟨?_, ?_, ?_, ?_, ?_, ?_, ?_⟩
  · -- succLive
    intro v hv m hm
    obtain ⟨n, nd, hnd, rfl⟩ := mem_toGraphVal_nodes hv
    rw [toGraphVal_ids]
    have hm' : m ∈ (g.outEdges n).map (·.dst) := hm
    obtain ⟨e, he, rfl⟩ := List.mem_map.mp hm'
    obtain ⟨_, _, d, hd, _⟩ := h.edges e (mem_outEdges.mp he).1
    exact mem_nodeIds.mpr (live_iff.mpr ⟨d, Option.mem_def.mp hd⟩)
  · -- srcLive
    intro v hv e he
    obtain ⟨n, nd, hnd, rfl⟩ := mem_toGraphVal_nodes hv
    have he' : e ∈ (g.inEdges n).map fun e => (edgeW ctx g e, e.src) := he
    obtain ⟨e0, he0, rfl⟩ := List.mem_map.mp he'
    obtain ⟨hmem, hdst⟩ := mem_inEdges.mp he0
    obtain ⟨s, hs, _, _, _⟩ := h.edges e0 hmem
    refine ⟨?_, ?_⟩
    · rw [toGraphVal_ids]; exact mem_nodeIds.mpr (live_iff.mpr ⟨s, Option.mem_def.mp hs⟩)
    · show e0.src ≠ n
      rw [← hdst]; exact hns e0 hmem
  · -- pkgLive
    intro v hv slot sat hk
    obtain ⟨n, nd, hnd, rfl⟩ := mem_toGraphVal_nodes hv
    have hk' : toNodeKind nd = .instantiation slot sat := hk
    unfold toNodeKind at hk'
    cases hkk : nd.kind with
    | definition ty => rw [hkk] at hk'; cases hk'
    | «import» nm => rw [hkk] at hk'; cases hk'
    | «alias» => rw [hkk] at hk'; cases hk'
    | instantiation sat' =>
      rw [hkk] at hk'
      simp only [Wac.NodeKind.instantiation.injEq] at hk'
      obtain ⟨hslot, _⟩ := hk'
      have h2 := (h.node hnd).2.1
      rw [hkk] at h2
      simp only at h2
      obtain ⟨_, _, pid, hpid, pd, hpd, _⟩ := h2
      rw [Option.mem_def] at hpid
      rw [hpid] at hslot
      simp only at hslot
      obtain ⟨sl, hsl, hslp⟩ := pkgOf_ok_slot (toOption_mem.mp hpd)
      rw [toGraphVal_pkg?]
      unfold pkgEntry
      rw [← hslot, hsl]
      simp [hslp]
  · -- instEdges
    intro v hv slot sat hk e he
    obtain ⟨n, nd, hnd, rfl⟩ := mem_toGraphVal_nodes hv
    have hk' : toNodeKind nd = .instantiation slot sat := hk
    have hinst : ∃ sat', nd.kind = .instantiation sat' := by
      unfold toNodeKind at hk'
      cases hq : nd.kind <;> rw [hq] at hk' <;> first | exact ⟨_, rfl⟩ | cases hk'
    obtain ⟨sat', hq⟩ := hinst
    have he' : e ∈ (g.inEdges n).map fun e => (edgeW ctx g e, e.src) := he
    obtain ⟨e0, he0, rfl⟩ := List.mem_map.mp he'
    obtain ⟨hmem, hdst⟩ := mem_inEdges.mp he0
    obtain ⟨s, hs, d, hd, hkk⟩ := h.edges e0 hmem
    rw [hdst, Option.mem_def, hnd] at hd
    have hdn : d = nd := (Option.some.inj hd).symm
    subst hdn
    show ∃ i nm, edgeW ctx g e0 = .arg i nm
    unfold edgeW
    cases hek : e0.kind with
    | arg i => exact ⟨i, _, rfl⟩
    | «alias» j =>
      rw [hek] at hkk
      simp only at hkk
      have := hkk.1
      simp [Node.isAlias, hq] at this
    | dep =>
      rw [hek] at hkk
      simp only at hkk
      obtain ⟨_, _, td, htd, _⟩ := hkk
      simp [Node.defTy, hq] at htd
  · -- aliasSrc
    intro v hv hk
    obtain ⟨n, nd, hnd, rfl⟩ := mem_toGraphVal_nodes hv
    have hk' : toNodeKind nd = .alias := hk
    have hq : nd.kind = .alias := by
      unfold toNodeKind at hk'
      cases hq : nd.kind <;> rw [hq] at hk' <;> first | rfl | cases hk'
    have h2 := (h.node hnd).2.1
    rw [hq] at h2
    simp only at h2
    obtain ⟨e0, he0⟩ := List.length_eq_one_iff.mp h2
    have hin : e0 ∈ g.inEdges n := by rw [he0]; exact List.mem_singleton.mpr rfl
    obtain ⟨hmem, hdst⟩ := mem_inEdges.mp hin
    obtain ⟨s, hs, d, hd, hkk⟩ := h.edges e0 hmem
    rw [hdst, Option.mem_def, hnd] at hd
    have hdn : d = nd := (Option.some.inj hd).symm
    subst hdn
    cases hek : e0.kind with
    | arg i =>
      rw [hek] at hkk
      simp only at hkk
      have := hkk.2.1
      simp [Node.isInst, hq] at this
    | dep =>
      rw [hek] at hkk
      simp only at hkk
      obtain ⟨_, _, td, htd, _⟩ := hkk
      simp [Node.defTy, hq] at htd
    | «alias» j =>
      rw [hek] at hkk
      simp only at hkk
      obtain ⟨_, _, exps, hexps, _⟩ := hkk
      refine ⟨e0.src, aliasName ctx g e0.src j, toNode ctx vc g e0.src s, ?_, ?_, ?_⟩
      · show Wac.Node.aliasSource (toNode ctx vc g n d) = _
        unfold Wac.Node.aliasSource toNode
        simp only [he0, List.map_cons, List.map_nil, edgeW, hek, List.findSome?_cons, List.findSome?_nil]
      · rw [toGraphVal_node?, Option.mem_def.mp hs]; rfl
      · show (vc.ty s.item).kind = .instance
        exact hki _ exps (Option.mem_def.mp hexps)
  · -- defNamed
    intro v hv hk
    obtain ⟨n, nd, hnd, rfl⟩ := mem_toGraphVal_nodes hv
    have hk' : toNodeKind nd = .definition := hk
    unfold toNodeKind at hk'
    cases hq : nd.kind with
    | definition ty =>
      have h2 := (h.node hnd).2.1
      rw [hq] at h2
      exact h2.2
    | «import» nm => rw [hq] at hk'; cases hk'
    | «alias» => rw [hq] at hk'; cases hk'
    | instantiation sat' => rw [hq] at hk'; cases hk'
  · -- exportsLive
    intro e he
    obtain ⟨nd, hnd, _⟩ := h.exportsLive e he
    rw [toGraphVal_ids]
    exact mem_nodeIds.mpr (live_iff.mpr ⟨nd, Option.mem_def.mp hnd⟩)

end Wac.Graph
