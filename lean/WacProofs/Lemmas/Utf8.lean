import WacModel.Lexer
namespace Wac.Lemmas
open Wac Wac.Lex

theorem utf8Len_foldl (a : Nat) (s : Str) :
    s.foldl (fun n c => n + c.utf8Size) a = a + utf8Len s := by
  unfold utf8Len
  induction s generalizing a with
  | nil => simp
  | cons c r ih =>
    simp only [List.foldl_cons]
    rw [ih (a + c.utf8Size), ih (0 + c.utf8Size)]
    omega

@[simp] theorem utf8Len_nil : utf8Len [] = 0 := rfl

@[simp] theorem utf8Len_cons (c : Char) (r : Str) : utf8Len (c :: r) = c.utf8Size + utf8Len r := by
  have := utf8Len_foldl (0 + c.utf8Size) r
  simp [utf8Len, List.foldl_cons] at this ⊢
  omega

@[simp] theorem utf8Len_append (a b : Str) : utf8Len (a ++ b) = utf8Len a + utf8Len b := by
  induction a with
  | nil => simp
  | cons c r ih => simp [ih]; omega

theorem utf8Size_pos (c : Char) : 0 < c.utf8Size := by
  simp only [Char.utf8Size]
  repeat' split
  all_goals omega

theorem utf8Len_take_drop (n : Nat) (s : Str) : utf8Len (s.take n) + utf8Len (s.drop n) = utf8Len s := by
  rw [← utf8Len_append, List.take_append_drop]

end Wac.Lemmas
