import WacModel.Lexer
import WacProofs.Lemmas.TokenAbs
import WacProofs.Lemmas.LexSpecStep
/-
  C12 proofs, lexical layer 4: the lexer model is the documented longest-match lexer.

  `lex_spec`: on a text without form feeds (the model's skip pattern `[ \t\r\n\f]+` contains the
  form feed, the white space of the specification is ` \n\r\t`; a form feed is a control character
  and is rejected by the code-point screen before the lexer runs), the token sequence of the
  specification, `Wac.Spec.Grammar.tokens`, is the abstraction (`Wac.C12.absTok`) of the token
  stream of the model, `Wac.Lex.tokenize`, when that contains no lexical error, and there is no
  token sequence otherwise.
-/
namespace Wac.C12
open Wac Wac.Lex Wac.Spec.Grammar

/-- what the specification must say about a text the model turns into `l` -/
def specOf (l : List LTok) : Option (List STok) :=
  if l.all (fun tk => tk.tok?.isSome) then some (l.map absTok) else none

theorem specOf_cons_ok (k : Token) (sp : Ast.Span) (tx : Str) (d : List Ast.DocComment)
    (l : List LTok) :
    specOf (⟨.ok k, sp, tx, d⟩ :: l) = (specOf l).map (absTok ⟨.ok k, sp, tx, d⟩ :: ·) := by
  unfold specOf
  simp [LTok.tok?]

theorem specOf_cons_err (e : LexError) (sp : Ast.Span) (tx : Str) (d : List Ast.DocComment)
    (l : List LTok) : specOf (⟨.error e, sp, tx, d⟩ :: l) = none := by
  simp [specOf, LTok.tok?]

/-! ### comments -/

theorem skipComment_eq (d : Nat) (s : Str) : skipComment d s = skipBlock d s := by
  fun_induction skipBlock d s with
  | case1 d => simp [skipComment]
  | case2 d r ih => simp [skipComment, ih]
  | case3 r => simp [skipComment]
  | case4 d r h ih => simp [skipComment, h, ih]
  | case5 d s r h1 h2 ih =>
    rw [← ih]
    conv => lhs; unfold skipComment
    split
    · rename_i h; cases h
    · rename_i h; cases h; exact absurd rfl (h2 _ rfl)
    · rename_i h; cases h; exact absurd rfl (h1 _ rfl)
    · rename_i h; cases h; rfl

/-- the text after a block comment is a proper suffix -/
theorem skipBlock_suffix (d : Nat) (s rest : Str) (h : skipBlock d s = some rest) :
    ∃ pre, s = pre ++ rest ∧ 0 < pre.length := by
  fun_induction skipBlock d s with
  | case1 d => cases h
  | case2 d r ih =>
    obtain ⟨pre, hp, _⟩ := ih h
    exact ⟨'/' :: '*' :: pre, by rw [hp]; rfl, by simp⟩
  | case3 r =>
    simp at h
    exact ⟨['*', '/'], by rw [h]; rfl, by simp⟩
  | case4 d r hd ih =>
    obtain ⟨pre, hp, _⟩ := ih h
    exact ⟨'*' :: '/' :: pre, by rw [hp]; rfl, by simp⟩
  | case5 d a r _ _ ih =>
    obtain ⟨pre, hp, _⟩ := ih h
    exact ⟨a :: pre, by rw [hp]; rfl, by simp⟩

/-! ### unfolding the two lexers -/

theorem lexAll_skip {fuel pos : Nat} {s : Str} {prevPos : Nat} {prev : Str} {n : Nat}
    (h : lexStep s = .skip n) (hn : n ≠ 0) :
    lexAll (fuel + 1) pos s prevPos prev =
      lexAll fuel (pos + utf8Len (s.take n)) (s.drop n) prevPos prev := by
  rw [lexAll, h]
  simp only [if_neg hn]

theorem lexAll_tok {fuel pos : Nat} {s : Str} {prevPos : Nat} {prev : Str}
    {res : Except LexError Token} {n : Nat} (h : lexStep s = .tok res n) :
    ∃ sp d n', n' = (if n = 0 then 1 else n) ∧ ∃ pos' pp' pv',
      lexAll (fuel + 1) pos s prevPos prev =
        ⟨res, sp, s.take n', d⟩ :: lexAll fuel pos' (s.drop n') pp' pv' := by
  rw [lexAll, h]
  exact ⟨_, _, _, rfl, _, _, _, rfl⟩

theorem lexAll_nil (fuel pos prevPos : Nat) (prev : Str) : lexAll (fuel + 1) pos [] prevPos prev = [] := by
  rw [lexAll]
  rfl

/-- the white space of the specification -/
def isBlank (c : Char) : Bool := c == ' ' || c == '\n' || c == '\r' || c == '\t'

theorem tokens_cons (fuel : Nat) (c : Char) (r : Str) :
    tokens (fuel + 1) (c :: r) =
      if isBlank c then tokens fuel r
      else if c == '/' && r.head? == some '/' then tokens fuel ((c :: r).dropWhile (· != '\n'))
      else if c == '/' && r.head? == some '*' then
        match skipComment 0 (r.drop 1) with
        | some rest => if rest.length < (c :: r).length then tokens fuel rest else none
        | none => none
      else
        match best (candidates (c :: r)) with
        | some (k, n) =>
          if n = 0 then none else
          (tokens fuel ((c :: r).drop n)).map fun ts => ⟨k, (c :: r).take n⟩ :: ts
        | none => none := by
  rw [tokens]
  rfl

theorem isBlank_eq {c : Char} (hc : c ≠ '\x0c') : isBlank c = isSkipChar c := by
  have : (c == '\x0c') = false := by simpa using hc
  unfold isBlank isSkipChar
  rw [this, Bool.or_false]
  cases (c == ' ') <;> cases (c == '\n') <;> cases (c == '\r') <;> cases (c == '\t') <;> rfl

/-- the specification skips white space one character at a time -/
theorem tokens_blanks (k : Nat) : ∀ (fuel : Nat) (r : Str), k ≤ r.length →
    (∀ c ∈ r.take k, isBlank c = true) → tokens (fuel + k) r = tokens fuel (r.drop k) := by
  induction k with
  | zero => intro fuel r _ _; rfl
  | succ k ih =>
    intro fuel r hk hall
    cases r with
    | nil => simp at hk
    | cons a r' =>
      rw [← Nat.add_assoc, tokens_cons, if_pos (hall a (by simp)), List.drop_succ_cons]
      exact ih fuel r' (by simpa using hk) fun c hc => hall c (by
        rw [List.take_succ_cons]; exact List.mem_cons_of_mem _ hc)

/-! ### the theorem -/

theorem lex_spec_aux (n : Nat) : ∀ (s : Str), s.length = n → (∀ c ∈ s, c ≠ '\x0c') →
    ∀ (fuel fuel' pos prevPos : Nat) (prev : Str), s.length < fuel → s.length < fuel' →
      tokens fuel s = specOf (lexAll fuel' pos s prevPos prev) := by
  induction n using Nat.strongRecOn with
  | ind n ih =>
  intro s hlen hff fuel fuel' pos prevPos prev hf hf'
  obtain ⟨f, rfl⟩ : ∃ f, fuel = f + 1 := ⟨fuel - 1, by omega⟩
  obtain ⟨f', rfl⟩ : ∃ f', fuel' = f' + 1 := ⟨fuel' - 1, by omega⟩
  cases s with
  | nil =>
    rw [lexAll_nil, tokens]
    rfl
  | cons c r =>
    have hcff : c ≠ '\x0c' := hff c List.mem_cons_self
    have hrff : ∀ x ∈ r, x ≠ '\x0c' := fun x hx => hff x (List.mem_cons_of_mem _ hx)
    simp only [List.length_cons] at hlen hf hf'
    rw [tokens_cons]
    by_cases hb : isSkipChar c = true
    · -- white space
      rw [isBlank_eq hcff, if_pos hb]
      have hstep : lexStep (c :: r) = .skip (1 + (r.takeWhile isSkipChar).length) := by
        simp [lexStep, hb]
      have hk : (r.takeWhile isSkipChar).length ≤ r.length := by
        have := congrArg List.length (take_length_takeWhile isSkipChar r)
        rw [List.length_take] at this
        omega
      rw [lexAll_skip hstep (by omega), Nat.add_comm 1, List.drop_succ_cons]
      obtain ⟨f0, rfl⟩ : ∃ f0, f = f0 + (r.takeWhile isSkipChar).length :=
        ⟨f - (r.takeWhile isSkipChar).length, by omega⟩
      rw [tokens_blanks _ f0 r hk (by
        intro x hx
        rw [take_length_takeWhile] at hx
        rw [isBlank_eq (hrff x ((List.takeWhile_prefix _).subset hx))]
        exact mem_takeWhile_imp hx)]
      refine ih _ (by rw [List.length_drop]; omega) _ rfl
        (fun x hx => hrff x (List.mem_of_mem_drop hx)) _ _ _ _ _
        (by rw [List.length_drop]; omega) (by rw [List.length_drop]; omega)
    · have h1 : isSkipChar c = false := by simpa using hb
      rw [isBlank_eq hcff, h1, if_neg (by simp)]
      by_cases h2 : (c == '/' && r.head? == some '/') = true
      · -- line comment
        rw [if_pos h2]
        have hstep : lexStep (c :: r) = .skip ((c :: r).takeWhile (· != '\n')).length := by
          simp only [lexStep, h1, h2, Bool.false_eq_true, if_false, if_true]
        have hc : c = '/' := by
          rw [Bool.and_eq_true] at h2; simpa using h2.1
        have hpos : 0 < ((c :: r).takeWhile (· != '\n')).length := by
          subst hc
          rw [List.takeWhile_cons_of_pos (by decide)]
          simp
        have hle : ((c :: r).takeWhile (· != '\n')).length ≤ (c :: r).length := by
          have := congrArg List.length (take_length_takeWhile (· != '\n') (c :: r))
          rw [List.length_take] at this
          omega
        rw [lexAll_skip hstep (by omega), drop_length_takeWhile]
        have hdl : ((c :: r).dropWhile (· != '\n')).length < r.length + 1 := by
          rw [← drop_length_takeWhile, List.length_drop, List.length_cons]
          omega
        refine ih _ (by rw [← hlen]; exact hdl) _ rfl
          (fun x hx => hff x ((List.dropWhile_suffix _).subset hx)) _ _ _ _ _ (by omega) (by omega)
      · have h2' : (c == '/' && r.head? == some '/') = false := by simpa using h2
        rw [if_neg h2]
        by_cases h3 : (c == '/' && r.head? == some '*') = true
        · -- block comment
          rw [if_pos h3, skipComment_eq]
          cases hsk : skipBlock 0 (r.drop 1) with
          | none =>
            have hstep : lexStep (c :: r) = .tok (.error .UnterminatedComment) (c :: r).length := by
              simp only [lexStep, h1, h2', h3, hsk, Bool.false_eq_true, if_false, if_true]
            obtain ⟨sp, d, n', _, pos', pp', pv', he⟩ :=
              lexAll_tok (fuel := f') (pos := pos) (prevPos := prevPos) (prev := prev) hstep
            rw [he, specOf_cons_err]
          | some rest =>
            have hstep : lexStep (c :: r) = .skip ((c :: r).length - rest.length) := by
              simp only [lexStep, h1, h2', h3, hsk, Bool.false_eq_true, if_false, if_true]
            obtain ⟨pre, hpre, _⟩ := skipBlock_suffix _ _ _ hsk
            have hr : r = r.take 1 ++ r.drop 1 := (List.take_append_drop 1 r).symm
            have hs : c :: r = (c :: (r.take 1 ++ pre)) ++ rest := by
              rw [List.cons_append, List.append_assoc, ← hpre, ← hr]
            have hrl : rest.length < (c :: r).length := by
              have := congrArg List.length hs
              simp only [List.length_append, List.length_cons] at this ⊢
              omega
            dsimp only
            rw [if_pos hrl]
            have hdrop : (c :: r).drop ((c :: r).length - rest.length) = rest := by
              have : (c :: r).length - rest.length = (c :: (r.take 1 ++ pre)).length := by
                have := congrArg List.length hs
                rw [List.length_append] at this
                omega
              rw [this]
              conv => lhs; rw [hs]
              exact List.drop_left' rfl
            rw [lexAll_skip hstep (by omega), hdrop]
            simp only [List.length_cons] at hrl
            refine ih _ (by omega) _ rfl (fun x hx => hff x ?_) _ _ _ _ _ (by omega) (by omega)
            rw [hs]
            exact List.mem_append_right _ hx
        · -- a token or a lexical error
          have h3' : (c == '/' && r.head? == some '*') = false := by simpa using h3
          rw [if_neg h3]
          have hspec := lexStep_spec c r h1 h2' h3'
          generalize hst : lexStep (c :: r) = st at hspec
          cases hspec with
          | err e m hbest =>
            obtain ⟨sp, d, n', _, pos', pp', pv', he⟩ :=
              lexAll_tok (fuel := f') (pos := pos) (prevPos := prevPos) (prev := prev) hst
            rw [he, specOf_cons_err, hbest]
          | ok k m kd hm hle hbest habs =>
            obtain ⟨sp, d, n', hn', pos', pp', pv', he⟩ :=
              lexAll_tok (fuel := f') (pos := pos) (prevPos := prevPos) (prev := prev) hst
            rw [if_neg (by omega)] at hn'
            subst hn'
            rw [he, specOf_cons_ok, habs, hbest]
            dsimp only
            rw [if_neg (by omega)]
            simp only [List.length_cons] at hle
            rw [ih _ (by rw [← hlen, List.length_drop, List.length_cons]; omega) _ rfl
              (fun x hx => hff x (List.mem_of_mem_drop hx)) f f' pos' pp' pv'
              (by rw [List.length_drop, List.length_cons]; omega)
              (by rw [List.length_drop, List.length_cons]; omega)]

/-- **the model lexer is the documented longest-match lexer**: on a text without form feeds (the
code-point screen rejects them, they are control characters) the specification's token sequence is
the abstraction of the model lexer's output when that contains no lexical error, and there is none
otherwise -/
theorem lex_spec (src : Str) (hff : ∀ c ∈ src, c ≠ '\x0c') :
    Wac.Spec.Grammar.tokens (src.length + 1) src =
      if (Wac.Lex.tokenize src).all (fun tk => tk.tok?.isSome)
      then some ((Wac.Lex.tokenize src).map Wac.C12.absTok) else none :=
  lex_spec_aux src.length src rfl hff _ _ _ _ _ (Nat.lt_succ_self _) (Nat.lt_succ_self _)

end Wac.C12
