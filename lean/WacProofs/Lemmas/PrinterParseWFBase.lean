import WacProofs.Lemmas.PrinterTokOK
/-
  C13, base layer of "every tree the parser model returns is well-formed": the postcondition
  calculus for the `Except`-with-state parser functions (`Post`), the lexer-state lemmas, the
  combinators (`parseToken`, `parseOptional`, `parseDelimited`) and the leaves (`parseIdent`,
  `parseString`, `parsePackageName`, `parsePackagePath`).

  `Post r P`: if the parse result `r` is a success `(x, st')` then `P x` holds and all tokens still
  to be read in `st'` are OK.  All parser functions only ever drop tokens from the front of the
  state, so `ToksOK` is an invariant.
-/
namespace Wac.Lemmas.PrinterWF
open Wac Wac.Ast Wac.Lex Wac.Parse

/-- postcondition of a parse result: on success the value satisfies `P` and the remaining tokens are OK -/
def Post {α : Type} (r : PR α) (P : α → Prop) : Prop :=
  ∀ x st', r = .ok (x, st') → P x ∧ ToksOK st'

theorem Post_ok {α : Type} {P : α → Prop} {x : α} {st : PState} (hx : P x) (hst : ToksOK st) :
    Post (.ok (x, st) : PR α) P := by
  intro y st' h; cases h; exact ⟨hx, hst⟩

theorem Post_pure {α : Type} {P : α → Prop} {x : α} {st : PState} (hx : P x) (hst : ToksOK st) :
    Post (pure (x, st) : PR α) P := Post_ok hx hst

theorem Post_error {α : Type} {P : α → Prop} {e : ParseError} : Post (.error e : PR α) P := by
  intro y st' h; cases h

theorem Post_throw {α : Type} {P : α → Prop} {e : ParseError} : Post (throw e : PR α) P := by
  intro y st' h; cases h

theorem Post_bind {α β : Type} {r : PR α} {f : α × PState → PR β} {Q : α → Prop} {P : β → Prop}
    (hr : Post r Q) (hf : ∀ a st1, Q a → ToksOK st1 → Post (f (a, st1)) P) : Post (r >>= f) P := by
  intro y st' h
  cases r with
  | error e => cases h
  | ok p =>
    obtain ⟨a, st1⟩ := p
    obtain ⟨ha, hst1⟩ := hr a st1 rfl
    exact hf a st1 ha hst1 y st' h

theorem Post_mono {α : Type} {r : PR α} {Q P : α → Prop} (hr : Post r Q) (h : ∀ a, Q a → P a) :
    Post r P := by
  intro x st' e; obtain ⟨hx, hs⟩ := hr x st' e; exact ⟨h x hx, hs⟩

/-- `do let (a, st) ← r; .ok (g a, st)` -/
theorem Post_map {α β : Type} {r : PR α} {g : α → β} {Q : α → Prop} {P : β → Prop}
    (hr : Post r Q) (h : ∀ a, Q a → P (g a)) :
    Post (r >>= fun p => match p with | (a, st) => (.ok (g a, st) : PR β)) P :=
  Post_bind hr (fun a _ ha hst => Post_ok (h a ha) hst)

/-- `pbind e => a st ha hst`: the goal is `Post (r >>= f) P`; `e : Post r Q`; continue with
`Post (f (a, st)) P` under `ha : Q a`, `hst : ToksOK st` -/
macro "pbind " e:term " => " a:term:max st:term:max ha:term:max hst:term:max : tactic =>
  `(tactic| (refine Post_bind $e ?_; intro $a:term $st:term $ha:term $hst:term; dsimp only))

/-! ### the lexer state -/

/-- what `next` returns: nothing at the end of input; otherwise the head token — possibly with its
`res` replaced by the nesting error — and a state whose tokens are the tail -/
theorem next_cases (st : PState) :
    (st.toks = [] ∧ st.next.1 = none ∧ st.next.2.toks = []) ∨
    ∃ a r, st.toks = a :: r ∧ st.next.2.toks = r ∧
      (st.next.1 = some a ∨ st.next.1 = some { a with res := .error .NestingTooDeep }) := by
  unfold PState.next
  cases hs : st.toks with
  | nil => left; exact ⟨rfl, rfl, rfl⟩
  | cons a r =>
    right
    refine ⟨a, r, rfl, ?_⟩
    dsimp only
    cases a.res with
    | error e => exact ⟨rfl, .inl rfl⟩
    | ok k =>
      dsimp only
      split
      · split
        · exact ⟨rfl, .inr rfl⟩
        · exact ⟨rfl, .inl rfl⟩
      · split
        · exact ⟨rfl, .inl rfl⟩
        · exact ⟨rfl, .inl rfl⟩

theorem ToksOK_next {st : PState} (h : ToksOK st) : ToksOK st.next.2 := by
  rcases next_cases st with ⟨_, _, h2⟩ | ⟨a, r, hs, h2, _⟩
  · intro t ht; rw [h2] at ht; cases ht
  · intro t ht; rw [h2] at ht
    exact h t (by rw [hs]; exact List.mem_cons_of_mem _ ht)

theorem peek_mem {st : PState} {t : LTok} (h : st.peek = some t) : t ∈ st.toks := by
  unfold PState.peek at h
  cases hs : st.toks with
  | nil => rw [hs] at h; cases h
  | cons a r => rw [hs] at h; cases h; exact List.mem_cons_self ..

/-- `parse_token` -/
theorem parseToken_post {st : PState} (k : Token) (hst : ToksOK st) :
    Post (parseToken st k) (fun t => TokOK t ∧ t.res = .ok k) := by
  intro t st' h
  unfold parseToken at h
  have hok := ToksOK_next hst
  rcases next_cases st with ⟨_, h1, _⟩ | ⟨a, r, hs, _, h1⟩
  · revert h hok h1
    cases st.next with
    | mk o s2 => intro h hok h1; dsimp only at h1; subst h1; cases h
  · have ha := hst a (by rw [hs]; exact List.mem_cons_self ..)
    revert h hok h1
    cases st.next with
    | mk o s2 =>
      intro h hok h1
      dsimp only at h1 hok
      rcases h1 with h1 | h1
      · subst h1
        dsimp only at h
        cases hr : a.res with
        | error e => rw [hr] at h; cases h
        | ok found =>
          rw [hr] at h
          dsimp only at h
          by_cases hf : found = k
          · rw [if_pos hf] at h
            cases h
            exact ⟨⟨ha, by rw [hr, hf]⟩, hok⟩
          · rw [if_neg hf] at h; cases h
      · subst h1
        cases h

/-- `parse_optional`, generic in the callback -/
theorem parseOptional_post {α : Type} {st : PState} (k : Token) {cb : PState → PR α} {P : α → Prop}
    (hst : ToksOK st) (hcb : ∀ st1, ToksOK st1 → Post (cb st1) P) :
    Post (parseOptional st k cb) (fun o => ∀ a, o = some a → P a) := by
  intro o st' h
  unfold parseOptional at h
  split at h
  · split at h
    · split at h
      · split at h
        · cases h
        · rename_i t1 st1 hp
          have hst1 := (parseToken_post k hst t1 st1 hp).2
          split at h
          · rename_i a st2 hc
            obtain ⟨ha, hs2⟩ := hcb _ hst1 a st2 hc
            cases h
            exact ⟨fun b hb => by cases hb; exact ha, hs2⟩
          · cases h
      · cases h; exact ⟨fun b hb => (by cases hb), hst⟩
    · cases h
  · cases h; exact ⟨fun b hb => (by cases hb), hst⟩

/-- `parse_delimited`, generic in the item parser -/
theorem parseDelimited_post {α : Type} (stop : Token) (withCommas : Bool) (peeks : List Token)
    {item : PState → PR α} {P : α → Prop} (hitem : ∀ st1, ToksOK st1 → Post (item st1) P) :
    ∀ (fuel : Nat) {st : PState}, ToksOK st →
      Post (parseDelimited stop withCommas peeks item fuel st) (fun xs => ∀ x ∈ xs, P x) := by
  intro fuel
  induction fuel with
  | zero => intro st _; unfold parseDelimited; exact Post_error
  | succ fuel ih =>
    intro st hst xs st' h
    unfold parseDelimited at h
    split at h
    · cases h; exact ⟨fun x hx => (by cases hx), hst⟩
    · split at h
      · cases h
      · split at h
        · cases h
        · rename_i x st1 hi
          obtain ⟨hx, hst1⟩ := hitem st hst x st1 hi
          split at h
          · split at h
            · cases h
              exact ⟨fun y hy => by
                rcases List.mem_singleton.mp hy with rfl; exact hx, hst1⟩
            · split at h
              · split at h
                · cases h
                · rename_i t st2 hc
                  have hst2 := (parseToken_post .Comma hst1 t st2 hc).2
                  split at h
                  · cases h
                  · rename_i ys st3 hd
                    obtain ⟨hys, hst3⟩ := ih hst2 ys st3 hd
                    cases h
                    refine ⟨fun y hy => ?_, hst3⟩
                    rcases List.mem_cons.mp hy with rfl | hy
                    · exact hx
                    · exact hys y hy
              · split at h
                · cases h
                · rename_i ys st3 hd
                  obtain ⟨hys, hst3⟩ := ih hst1 ys st3 hd
                  cases h
                  refine ⟨fun y hy => ?_, hst3⟩
                  rcases List.mem_cons.mp hy with rfl | hy
                  · exact hx
                  · exact hys y hy
          · cases h

/-! ### leaves -/

theorem parseIdent_post {st : PState} (hst : ToksOK st) :
    Post (parseIdent st) (fun i => i.wf = true) := by
  unfold parseIdent
  pbind parseToken_post .Ident hst => t st1 ht hst1
  obtain ⟨hok, hres⟩ := ht
  have hk : t.text ≠ [] ∧ idLen t.text = t.text.length ∧ lookupKeyword t.text = none := by
    unfold TokOK at hok; rw [hres] at hok; exact hok
  split
  · rename_i r htext
    rw [htext] at hk
    exact Post_ok (by simp [Ident.wf, Ident.raw, hk]) hst1
  · rename_i hne
    refine Post_ok ?_ hst1
    have h1 : t.text.head? ≠ some '%' := by
      intro h
      cases htx : t.text with
      | nil => rw [htx] at h; cases h
      | cons c r => rw [htx] at h; cases h; exact hne r htx
    simp [Ident.wf, Ident.raw, hk, h1]

theorem parseString_post {st : PState} (hst : ToksOK st) :
    Post (parseString st) (fun s => s.wf = true) := by
  unfold parseString
  pbind parseToken_post .String hst => t st1 ht hst1
  obtain ⟨hok, hres⟩ := ht
  have hk : ∃ v : Str, t.text = '"' :: (v ++ ['"']) ∧ v.contains '"' = false := by
    unfold TokOK at hok; rw [hres] at hok; exact hok
  obtain ⟨v, hv, hc⟩ := hk
  refine Post_ok ?_ hst1
  have : (t.text.drop 1).take (t.text.length - 2) = v := by
    rw [hv]; simp
  simp only [StringLit.wf, this, hc]; rfl

/-- a bind over a plain `Except` value (no state) -/
theorem Post_bindE {β γ : Type} {r : Except ParseError β} {f : β → PR γ} {P : γ → Prop}
    (hf : ∀ b, r = .ok b → Post (f b) P) : Post (r >>= f) P := by
  cases r with
  | error e => exact Post_error
  | ok b => exact hf b rfl

theorem parseVersionAt_ok {s : Str} {span : Span} {v : Option Version}
    (h : parseVersionAt s span (findIdx s '@') = .ok v) : versionField s = some v := by
  unfold parseVersionAt at h
  unfold versionField
  split at h
  · rename_i he; rw [he]; cases h; rfl
  · rename_i i he
    rw [he]
    dsimp only at h ⊢
    split at h
    · rename_i ver hv; cases h; rw [hv]; rfl
    · cases h

theorem parsePackageName_post {st : PState} (hst : ToksOK st) :
    Post (parsePackageName st) (fun p => p.wf = true) := by
  unfold parsePackageName
  pbind parseToken_post .PackageName hst => t st1 ht hst1
  obtain ⟨hok, hres⟩ := ht
  have hk : t.text ≠ [] ∧ packageNameTokLen t.text = t.text.length := by
    unfold TokOK at hok; rw [hres] at hok; exact hok
  refine Post_bindE fun v hv => Post_ok ?_ hst1
  simp [PackageName.wf, hk, parseVersionAt_ok hv, packageNameField]
  cases findIdx t.text '@' <;> rfl

theorem parsePackagePath_post {st : PState} (hst : ToksOK st) :
    Post (parsePackagePath st) (fun p => p.wf = true) := by
  unfold parsePackagePath
  pbind parseToken_post .PackagePath hst => t st1 ht hst1
  obtain ⟨hok, hres⟩ := ht
  have hk : t.text ≠ [] ∧ packagePathTokLen t.text = t.text.length := by
    unfold TokOK at hok; rw [hres] at hok; exact hok
  split
  · exact Post_error
  · rename_i slash hs
    refine Post_bindE fun v hv => Post_ok ?_ hst1
    simp [PackagePath.wf, hk, parseVersionAt_ok hv, packagePathFields, hs]

end Wac.Lemmas.PrinterWF
