import WacProofs.Lemmas.GraphNoPanic3
/-
  `remove_node` with a live id does not panic (fuel of the model = slots + 1).
-/
namespace Wac.Graph
open Wac Wac.HashSites

theorem belowCount_le (g : Graph) (k : Bool × Nat) : belowCount g k ≤ g.nodes.length := by
  unfold belowCount
  exact Nat.le_trans List.countP_le_length (by simp)

theorem noPanic_removeNode {ctx : Ctx} {g : Graph} (h : Inv ctx g) (hw : KindWF ctx)
    {n : Nat} (hl : g.live n = true) : (removeNode .fixed g n).2.isPanic = false := by
  obtain ⟨nd, hnd⟩ := live_iff.mp hl
  obtain ⟨g', hr, _⟩ := removeNodeAux_ok hw (g.nodes.length + 1) g n nd h h.depOrder hnd
    (Nat.lt_succ_of_le (belowCount_le g nd.key))
  unfold removeNode
  rw [hr]
  rfl

end Wac.Graph
