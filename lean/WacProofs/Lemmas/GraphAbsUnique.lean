import WacProofs.Lemmas.GraphAbsRemoveSet
import WacProofs.Lemmas.GraphAbsOps2
/-
  C06 refinement: "one alias node per (instance, export)" (`AliasUnique`) is an invariant.
  It is proved on the abstract state: the alias map `aliasOf` stays injective under every
  abstract operation, and on a consistent graph injectivity of `(abs g).aliasOf` is `AliasUnique g`.
-/
namespace Wac.Graph
open Wac Wac.HashSites

/-- the alias map is injective: an (instance, export) pair has at most one alias node -/
def AbsAliasUnique (a : Abs) : Prop := ∀ t t' p, a.aliasOf t = some p → a.aliasOf t' = some p → t = t'

theorem aliasUnique_iff_abs {ctx : Ctx} {g : Graph} (h : Inv ctx g) : AliasUnique g ↔ AbsAliasUnique (abs g) := by
  constructor
  · intro hu t t' p h1 h2
    obtain ⟨s, j⟩ := p
    exact hu _ (h.abs_alias.mp h1) _ (h.abs_alias.mp h2) rfl rfl rfl
  · intro hu e1 he1 e2 he2 hk hsrc hkind
    cases hk1 : e1.kind with
    | alias j =>
      have m1 : e1 = ⟨e1.src, e1.dst, .alias j⟩ := by cases e1; simp only at hk1; subst hk1; rfl
      have m2 : e2 = ⟨e1.src, e2.dst, .alias j⟩ := by
        cases e2; simp only at hsrc hkind; rw [hk1] at hkind; subst hsrc; subst hkind; rfl
      rw [m1] at he1
      rw [m2] at he2
      exact hu _ _ _ (h.abs_alias.mpr he1) (h.abs_alias.mpr he2)
    | arg j => rw [hk1] at hk; cases hk
    | dep => rw [hk1] at hk; cases hk

theorem absAliasUnique_removeSet {a : Abs} (hu : AbsAliasUnique a) (S : Nat → Bool) :
    AbsAliasUnique (a.removeSet S) := by
  have key : ∀ t p, (a.removeSet S).aliasOf t = some p → a.aliasOf t = some p := by
    intro t p h
    have h' : (if S t = true then none else (a.aliasOf t).filter (fun p => !S p.1)) = some p := h
    split at h'
    · cases h'
    · exact (filter_eq_some_iff'.mp h').1
  intro t t' p h1 h2
  exact hu t t' p (key t p h1) (key t' p h2)

/-- a state whose alias map is that of `a` -/
theorem absAliasUnique_congr {a a' : Abs} (hu : AbsAliasUnique a) (h : a'.aliasOf = a.aliasOf) : AbsAliasUnique a' := by
  intro t t' p h1 h2
  rw [h] at h1 h2
  exact hu t t' p h1 h2

/-- the alias map stays injective under every abstract operation (`hcap`: alias nodes are
    below the capacity, so that `findAlias` sees all of them) -/
theorem absAliasUnique_step (ctx : Ctx) (fr : Fresh) (a : Abs) (op : Op) (hu : AbsAliasUnique a)
    (hcap : ∀ t p, a.aliasOf t = some p → t < a.cap) (hfr : a.aliasOf fr.node = none) :
    AbsAliasUnique (specStep ctx fr a op).1 := by
  cases op with
  | register d =>
    simp only [specStep]
    split <;> exact absAliasUnique_congr hu rfl
  | unregister id =>
    simp only [specStep]
    split
    · exact hu
    · exact absAliasUnique_congr (absAliasUnique_removeSet hu _) rfl
  | defineType name ty =>
    simp only [specStep]
    repeat' split
    all_goals exact absAliasUnique_congr hu rfl
  | importItem name kind =>
    simp only [specStep]
    repeat' split
    all_goals exact absAliasUnique_congr hu rfl
  | instantiate id =>
    simp only [specStep]
    repeat' split
    all_goals exact absAliasUnique_congr hu rfl
  | alias inst ename =>
    simp only [specStep]
    split
    · exact hu
    · split
      · exact hu
      · split
        · exact hu
        · rename_i i k _
          split
          · exact hu
          · rename_i hnone
            -- a new alias: no alias node of this export existed
            intro t t' p h1 h2
            have e1 : ∀ x, (upd a.aliasOf fr.node (some (inst, i))) x =
                if x = fr.node then some (inst, i) else a.aliasOf x := fun _ => rfl
            have h1' : (if t = fr.node then some (inst, i) else a.aliasOf t) = some p := h1
            have h2' : (if t' = fr.node then some (inst, i) else a.aliasOf t') = some p := h2
            have hno : ∀ x, a.aliasOf x = some (inst, i) → False := by
              intro x hx
              unfold Abs.findAlias at hnone
              rw [List.find?_eq_none] at hnone
              exact hnone x (List.mem_range.mpr (hcap x _ hx)) (by simpa using hx)
            by_cases ht : t = fr.node <;> by_cases ht' : t' = fr.node
            · rw [ht, ht']
            · rw [if_pos ht] at h1'; rw [if_neg ht'] at h2'
              cases h1'
              exact absurd h2' (fun hh => hno t' hh)
            · rw [if_neg ht] at h1'; rw [if_pos ht'] at h2'
              cases h2'
              exact absurd h1' (fun hh => hno t hh)
            · rw [if_neg ht] at h1'; rw [if_neg ht'] at h2'
              exact hu t t' p h1' h2'
  | setArg inst name arg =>
    simp only [specStep]
    repeat' split
    all_goals exact absAliasUnique_congr hu rfl
  | unsetArg inst name arg =>
    simp only [specStep]
    repeat' split
    all_goals exact absAliasUnique_congr hu rfl
  | exportNode n name =>
    simp only [specStep]
    repeat' split
    all_goals exact absAliasUnique_congr hu rfl
  | unexport n =>
    simp only [specStep]
    repeat' split
    all_goals exact absAliasUnique_congr hu rfl
  | setName n name =>
    simp only [specStep]
    repeat' split
    all_goals exact absAliasUnique_congr hu rfl
  | removeNode n =>
    simp only [specStep]
    split
    · exact hu
    · exact absAliasUnique_removeSet hu _

end Wac.Graph
