import WacModel.Spec.FsLookup
/-
  Helper lemmas for C18: the `std::path` string helpers of the model against the
  component-wise / suffix-wise notions of the specification.
-/
namespace Wac.Lemmas.FsLookup
open Wac Wac.FsLookup Wac.Spec.FsLookup

theorem splitLastDot_nodot (e : Str) (h : '.' ∉ e) : splitLastDot e = none := by
  induction e with
  | nil => rfl
  | cons c r ih =>
    simp only [List.mem_cons, not_or] at h
    have hc : (c == '.') = false := by
      simp only [beq_eq_false_iff_ne, ne_eq]; exact fun h' => h.1 h'.symm
    simp [splitLastDot, ih h.2, hc]

theorem splitLastDot_append (s e : Str) (h : '.' ∉ e) :
    splitLastDot (s ++ '.' :: e) = some (s, e) := by
  induction s with
  | nil => simp [splitLastDot, splitLastDot_nodot e h]
  | cons c r ih => simp [splitLastDot, ih]

/-- characterisation of the split at the last dot -/
theorem splitLastDot_eq_some (f b a : Str) :
    splitLastDot f = some (b, a) ↔ f = b ++ '.' :: a ∧ '.' ∉ a := by
  constructor
  · intro h
    induction f generalizing b with
    | nil => simp [splitLastDot] at h
    | cons c r ih =>
      simp only [splitLastDot] at h
      cases hr : splitLastDot r with
      | some p =>
        obtain ⟨b', a'⟩ := p
        simp only [hr, Option.some.injEq, Prod.mk.injEq] at h
        obtain ⟨rfl, rfl⟩ := h
        obtain ⟨h1, h2⟩ := ih b' hr
        exact ⟨by simp [h1], h2⟩
      | none =>
        simp only [hr] at h
        by_cases hc : c = '.'
        · subst hc
          simp only [beq_self_eq_true, if_true, Option.some.injEq, Prod.mk.injEq] at h
          obtain ⟨rfl, rfl⟩ := h
          refine ⟨by simp, ?_⟩
          intro hm
          -- a dot in `r` would have produced a split
          have : ∀ (r : Str), '.' ∈ r → splitLastDot r ≠ none := by
            intro r
            induction r with
            | nil => simp
            | cons d t iht =>
              intro hm
              simp only [splitLastDot]
              cases ht : splitLastDot t with
              | some p => simp
              | none =>
                simp only [List.mem_cons] at hm
                rcases hm with hd | hd
                · subst hd; simp
                · exact absurd ht (iht hd)
          exact this r hm hr
        · have : (c == '.') = false := by simp [hc]
          simp [this] at h
  · rintro ⟨rfl, h⟩
    exact splitLastDot_append b a h

theorem getLast?_append_singleton {α} (p : List α) (l : α) : (p ++ [l]).getLast? = some l := by
  simp

theorem dropLast_append_singleton {α} (p : List α) (l : α) : (p ++ [l]).dropLast = p := by
  simp

/-- `set_extension` after an appended extension only exchanges that extension: the stem — in
    particular a version such as `0.0.1` — is kept whole. -/
theorem setExtension_appended (p : Path) (l e ext : Str) (hl : l ≠ []) (he : '.' ∉ e) (hne : e ≠ []) :
    setExtension (p ++ [l ++ '.' :: e]) ext = p ++ [l ++ '.' :: ext] := by
  have hdd : (l ++ '.' :: e) ≠ ['.', '.'] := by
    intro h
    match l, hl with
    | [c], _ =>
      simp only [List.cons_append, List.nil_append, List.cons.injEq] at h
      exact hne h.2.2
    | c :: d :: t, _ =>
      simp only [List.cons_append, List.cons.injEq] at h
      have := h.2.2
      simp at this
  have hb : l.isEmpty = false := by
    cases l with
    | nil => exact absurd rfl hl
    | cons _ _ => rfl
  have hdd' : ((l ++ '.' :: e) == ['.', '.']) = false := by
    simp only [beq_eq_false_iff_ne, ne_eq]; exact hdd
  simp [setExtension, fileStem, fileName, rsplitFileAtDot, hdd', splitLastDot_append l e he, hb]

theorem withExt_append (p : Path) (l ext : Str) : withExt (p ++ [l]) ext = p ++ [l ++ '.' :: ext] := by
  induction p with
  | nil => simp [withExt]
  | cons c r ih =>
    cases r with
    | nil => simp [withExt]
    | cons d t => simp only [List.cons_append] at ih ⊢; rw [withExt, ih]; simp

theorem appendExtension_eq_withExt (p : Path) (ext : Str) : appendExtension p ext = withExt p ext := by
  rcases List.eq_nil_or_concat p with rfl | ⟨q, l, rfl⟩
  · simp [appendExtension, withExt]
  · simp [withExt_append, appendExtension]


theorem extension_concat (p : Path) (f : Str) :
    extension (p ++ [f]) =
      if f = ['.', '.'] then none else
      match splitLastDot f with
      | none => none
      | some (b, a) => if b = [] then none else some a := by
  have hl : (p ++ [f]).getLast? = some f := by simp
  simp only [extension, fileName, hl]
  by_cases hdd : f = ['.', '.']
  · simp [hdd]
  · simp only [beq_iff_eq, hdd, if_false, rsplitFileAtDot]
    cases hs : splitLastDot f with
    | none => simp
    | some ba =>
      obtain ⟨b, a⟩ := ba
      by_cases hb : b = [] <;> simp [hb]

/-- the Rust `Path::extension() == Some(ext)` test is the suffix test of the specification -/
theorem extension_eq_hasExt (q : Path) (ext : Str) (hd : '.' ∉ ext) (hne : ext ≠ []) :
    (extension q == some ext) = hasExt q ext := by
  rcases List.eq_nil_or_concat q with rfl | ⟨p, f, rfl⟩
  · simp [extension, fileName, hasExt]
  · rw [List.concat_eq_append, Bool.eq_iff_iff, extension_concat]
    have hl : (p ++ [f]).getLast? = some f := by simp
    simp only [beq_iff_eq, hasExt, hl, Bool.and_eq_true, decide_eq_true_eq, List.isSuffixOf_iff_suffix]
    constructor
    · intro h
      by_cases hdd : f = ['.', '.']
      · simp [hdd] at h
      · simp only [hdd, if_false] at h
        cases hs : splitLastDot f with
        | none => simp [hs] at h
        | some ba =>
          obtain ⟨b, a⟩ := ba
          simp only [hs] at h
          by_cases hb : b = []
          · simp [hb] at h
          · simp only [hb, if_false, Option.some.injEq] at h
            subst h
            obtain ⟨rfl, _⟩ := (splitLastDot_eq_some _ _ _).1 hs
            refine ⟨⟨b, rfl⟩, ?_⟩
            have : b.length > 0 := by
              cases b with
              | nil => exact absurd rfl hb
              | cons _ _ => simp
            simp; omega
    · rintro ⟨⟨b, rfl⟩, hlen⟩
      have hb : b ≠ [] := by
        intro hb; subst hb; simp at hlen
      have hdd : (b ++ '.' :: ext) ≠ ['.', '.'] := by
        intro h
        have := congrArg List.length h
        have h1 : b.length > 0 := by cases b with | nil => exact absurd rfl hb | cons _ _ => simp
        have h2 : ext.length > 0 := by cases ext with | nil => exact absurd rfl hne | cons _ _ => simp
        simp at this; omega
      simp [hdd, splitLastDot_append b ext hd, hb]

theorem segments_ne_nil (s : Str) : segments s ≠ [] := by
  cases s with
  | nil => simp [segments]
  | cons c r =>
    simp only [segments]
    split
    · simp
    · split <;> simp

theorem segments_cons (s : Str) : ∃ x xs, segments s = x :: xs := by
  cases h : segments s with
  | nil => exact absurd h (segments_ne_nil s)
  | cons x xs => exact ⟨x, xs, rfl⟩

theorem splitColon_go_eq (acc s : Str) (x : Str) (xs : List Str) (h : segments s = x :: xs) :
    splitColon.go acc s = (acc.reverse ++ x) :: xs := by
  induction s generalizing acc x xs with
  | nil => simp [segments] at h; simp [splitColon.go, h]
  | cons c r ih =>
    obtain ⟨y, ys, hr⟩ := segments_cons r
    by_cases hc : c = ':'
    · subst hc
      simp only [segments, beq_self_eq_true, if_true, hr, List.cons.injEq] at h
      obtain ⟨rfl, rfl⟩ := h
      simp only [splitColon.go, beq_self_eq_true, if_true, List.append_nil]
      rw [ih [] y ys hr]; simp
    · have hc' : (c == ':') = false := by simp [hc]
      simp only [segments, hc', hr] at h
      simp only [Bool.false_eq_true, if_false, List.cons.injEq] at h
      obtain ⟨hx, hxs⟩ := h
      subst hx hxs
      simp only [splitColon.go, hc']
      rw [ih (c :: acc) y ys hr]; simp

theorem splitColon_eq_segments (s : Str) : splitColon s = segments s := by
  obtain ⟨x, xs, h⟩ := segments_cons s
  rw [splitColon, splitColon_go_eq [] s x xs h, h]; simp

theorem layoutPath_eq_layout (root : Path) (key : Key) : layoutPath root key = layout root key := by
  simp only [layoutPath, layout, splitColon_eq_segments]
  cases key.version <;> simp

theorem amGet_eq_find {β} (m : List (Str × β)) (k : Str) :
    amGet m k = (m.find? (fun o => o.1 == k)).map (·.2) := by
  induction m with
  | nil => simp [amGet]
  | cons e r ih =>
    obtain ⟨k', v⟩ := e
    simp only [amGet, List.find?_cons]
    by_cases h : (k' == k) = true
    · simp [h]
    · simp only [Bool.not_eq_true] at h
      simp [h, ih]


theorem extension_appended (q : Path) (l e : Str) (hl : l ≠ []) (he : '.' ∉ e) (hne : e ≠ []) :
    extension (q ++ [l ++ '.' :: e]) = some e := by
  have hdd : (l ++ '.' :: e) ≠ ['.', '.'] := by
    intro h
    have := congrArg List.length h
    have h1 : l.length > 0 := by cases l with | nil => exact absurd rfl hl | cons _ _ => simp
    have h2 : e.length > 0 := by cases e with | nil => exact absurd rfl hne | cons _ _ => simp
    simp at this; omega
  simp [extension_concat, hdd, splitLastDot_append l e he, hl]

theorem renderVersion_ne_nil (v : Version) : renderVersion v ≠ [] := by
  simp [renderVersion]

/-- the layout path ends in a non-empty component -/
theorem layout_last (root : Path) (key : Key) (hwf : wellFormedName key.name = true) :
    ∃ q l, layout root key = q ++ [l] ∧ l ≠ [] := by
  cases hv : key.version with
  | some v =>
    exact ⟨root ++ segments key.name, renderVersion v, by simp [layout, hv], renderVersion_ne_nil v⟩
  | none =>
    rcases List.eq_nil_or_concat (segments key.name) with h | ⟨i, l, h⟩
    · exact absurd h (segments_ne_nil _)
    · refine ⟨root ++ i, l, by simp [layout, hv, h], ?_⟩
      simp only [wellFormedName, h, List.all_eq_true] at hwf
      have := hwf l (by simp)
      intro hl; subst hl; simp at this

/-- closed form of the `_ =>` arm for a layout path `q ++ [l]` -/
theorem defaultPathWith_eq (probe : FS → Path → Bool) (cfg : Config) (fs : FS) (key : Key) (q : Path) (l : Str)
    (hbase : layout cfg.root key = q ++ [l]) (hl : l ≠ []) :
    defaultPathWith probe cfg fs key =
      if isDir fs (q ++ [l]) then q ++ [l]
      else if cfg.featWat then
        (if probe fs (q ++ [l ++ '.' :: extWat]) then q ++ [l ++ '.' :: extWat]
         else q ++ [l ++ '.' :: extWasm])
      else q ++ [l ++ '.' :: extWasm] := by
  have h1 : setExtension (q ++ [l ++ '.' :: extWasm]) extWat = q ++ [l ++ '.' :: extWat] :=
    setExtension_appended q l _ _ hl (by decide) (by decide)
  have h2 : setExtension (q ++ [l ++ '.' :: extWat]) extWasm = q ++ [l ++ '.' :: extWasm] :=
    setExtension_appended q l _ _ hl (by decide) (by decide)
  simp only [defaultPathWith, layoutPath_eq_layout, hbase, appendExtension_eq_withExt, withExt_append, h1, h2]
  by_cases hd : isDir fs (q ++ [l]) = true
  · simp [hd]
  · simp only [hd]
    by_cases hw : cfg.featWat = true
    · by_cases hp : probe fs (q ++ [l ++ '.' :: extWat]) = true <;> simp_all
    · simp [hw]


/-- what the specification does with an encoder result -/
def encoded (key : Key) (span : Span) : Option Bytes → Step
  | some b => .loaded b
  | none => .fail (.resolutionFailure key.name span)

def missingStep (cfg : Config) (key : Key) (span : Span) : Step :=
  if cfg.errorOnUnknown then .fail (.unknownPackage key.name span) else .skipped

theorem loadPath_file (cfg : Config) (codec : Codec) (fs : FS) (key : Key) (span : Span) (p : Path) (c : Bytes)
    (hf : fs p = .file c) :
    loadPath cfg codec fs key span p =
      match fileSource cfg p c with
      | .witFile src => encoded key span (codec.witFile src)
      | .wat src => encoded key span (codec.wat src)
      | .binary b => .loaded b
      | .witDir _ => .skipped := by
  have hwit := extension_eq_hasExt p extWit (by decide) (by decide)
  have hwat := extension_eq_hasExt p extWat (by decide) (by decide)
  simp only [loadPath, isDir, hf, hwit, hwat, fileSource]
  by_cases h1 : cfg.featWit = true <;> by_cases h2 : hasExt p extWit = true <;>
    by_cases h3 : cfg.featWat = true <;> by_cases h4 : hasExt p extWat = true <;>
    simp [h1, h2, h3, h4, encoded] <;> (try (cases codec.witFile c <;> simp)) <;>
    (try (cases codec.wat c <;> simp))

theorem loadPath_dir (cfg : Config) (codec : Codec) (fs : FS) (key : Key) (span : Span) (p : Path)
    (hf : fs p = .dir) :
    loadPath cfg codec fs key span p =
      if cfg.featWit then encoded key span (codec.witDir p) else missingStep cfg key span := by
  simp only [loadPath, isDir, hf, missingStep]
  by_cases h1 : cfg.featWit = true
  · simp [h1, encoded]; cases codec.witDir p <;> simp
  · simp [h1]

theorem loadPath_absent (cfg : Config) (codec : Codec) (fs : FS) (key : Key) (span : Span) (p : Path)
    (hf : fs p = .absent) (hext : extension p ≠ some extWit) :
    loadPath cfg codec fs key span p = missingStep cfg key span := by
  have : (extension p == some extWit) = false := by simp [hext]
  simp only [loadPath, isDir, hf, missingStep, this]
  by_cases h1 : cfg.featWit = true <;> simp [h1]


theorem specStep_eq (cfg : Config) (codec : Codec) (fs : FS) (key : Key) (span : Span) :
    specStep cfg codec fs key span =
      match decision cfg fs key with
      | .load (.witDir p) => some (encoded key span (codec.witDir p))
      | .load (.witFile src) => some (encoded key span (codec.witFile src))
      | .load (.wat src) => some (encoded key span (codec.wat src))
      | .load (.binary bytes) => some (.loaded bytes)
      | .missing => some (missingStep cfg key span)
      | .overrideMissing => some (.fail (.resolutionFailure key.name span))
      | .undocumented => none := by
  simp only [specStep, missingStep]
  split <;> simp [encoded] <;> (split <;> simp_all)

/-- the model's override lookup is the specification's -/
theorem override_cases (cfg : Config) (key : Key) :
    (applicableOverride cfg key = none ∧
      (amGet cfg.overrides key.name = none ∨ key.version.isNone = false)) ∨
    (∃ p, applicableOverride cfg key = some p ∧ amGet cfg.overrides key.name = some p ∧
      key.version.isNone = true) := by
  simp only [applicableOverride, amGet_eq_find]
  cases hv : key.version with
  | some v => simp
  | none =>
    cases hf : cfg.overrides.find? (fun o => o.1 == key.name) with
    | none => simp
    | some o => simp

/-- Main lemma.  `probe` is only ever applied to `<base>.wat`; the resolver agrees with the
    decision table whenever the probe answers "is it a regular file?" there. -/
theorem resolveKeyWith_eq_spec (probe : FS → Path → Bool) (cfg : Config) (codec : Codec) (fs : FS)
    (key : Key) (span : Span) (s : Step)
    (hwf : wellFormedName key.name = true)
    (hprobe : probe fs (withExt (layout cfg.root key) extWat) = isFile fs (withExt (layout cfg.root key) extWat))
    (h : specStep cfg codec fs key span = some s) :
    resolveKeyWith probe cfg codec fs key span = s := by
  rw [specStep_eq] at h
  obtain ⟨q, l, hbase, hl⟩ := layout_last cfg.root key hwf
  have hdef := defaultPathWith_eq probe cfg fs key q l hbase hl
  rw [hbase, withExt_append] at hprobe
  have hextwat : extension (q ++ [l ++ '.' :: extWat]) = some extWat :=
    extension_appended q l extWat hl (by decide) (by decide)
  have hextwasm : extension (q ++ [l ++ '.' :: extWasm]) = some extWasm :=
    extension_appended q l extWasm hl (by decide) (by decide)
  -- the default arm, in closed form
  have hdefault : applicableOverride cfg key = none →
      loadPath cfg codec fs key span (defaultPathWith probe cfg fs key) = s := by
    intro hov
    simp only [decision, hov, hbase, withExt_append] at h
    rw [hdef, hprobe]
    cases hb : fs (q ++ [l]) with
    | dir =>
      simp only [hb] at h
      simp only [isDir, hb, if_true]
      rw [loadPath_dir _ _ _ _ _ _ hb]
      by_cases hw : cfg.featWit = true
      · simp only [hw, if_true] at h ⊢; simpa using h
      · simp [hw] at h
    | absent | file _ =>
      simp only [hb] at h
      simp only [isDir, hb]
      cases hwt : fs (q ++ [l ++ '.' :: extWat]) with
      | file src =>
        by_cases hw : cfg.featWat = true
        · simp only [hw, hwt] at h
          simp only [hw, isFile, hwt, if_true, Bool.false_eq_true, if_false]
          rw [loadPath_file _ _ _ _ _ _ _ hwt]
          have : hasExt (q ++ [l ++ '.' :: extWat]) extWat = true := by
            rw [← extension_eq_hasExt _ _ (by decide) (by decide), hextwat]; simp
          have h2 : hasExt (q ++ [l ++ '.' :: extWat]) extWit = false := by
            rw [← extension_eq_hasExt _ _ (by decide) (by decide), hextwat]; decide
          simp only [fileSource, this, h2, hw]
          simpa using h
        · simp only [hw, hwt] at h
          simp only [hw, Bool.false_eq_true, if_false]
          cases hws : fs (q ++ [l ++ '.' :: extWasm]) with
          | file b =>
            simp only [hws] at h
            rw [loadPath_file _ _ _ _ _ _ _ hws]
            have h1 : hasExt (q ++ [l ++ '.' :: extWasm]) extWat = false := by
              rw [← extension_eq_hasExt _ _ (by decide) (by decide), hextwasm]; decide
            have h2 : hasExt (q ++ [l ++ '.' :: extWasm]) extWit = false := by
              rw [← extension_eq_hasExt _ _ (by decide) (by decide), hextwasm]; decide
            simp only [fileSource, h1, h2]
            simpa using h
          | dir =>
            simp only [hws] at h
            rw [loadPath_dir _ _ _ _ _ _ hws]
            by_cases hi : cfg.featWit = true
            · simp [hi] at h
            · simp only [hi] at h ⊢; simpa using h
          | absent =>
            simp only [hws] at h
            rw [loadPath_absent _ _ _ _ _ _ hws (by rw [hextwasm]; decide)]
            simpa using h
      | absent | dir =>
        have hnf : isFile fs (q ++ [l ++ '.' :: extWat]) = false := by simp [isFile, hwt]
        have hsel : (if cfg.featWat = true then
              (if isFile fs (q ++ [l ++ '.' :: extWat]) = true then q ++ [l ++ '.' :: extWat]
               else q ++ [l ++ '.' :: extWasm])
            else q ++ [l ++ '.' :: extWasm]) = q ++ [l ++ '.' :: extWasm] := by
          simp [hnf]
        simp only [Bool.false_eq_true, if_false, hsel]
        have h'' : (match fs (q ++ [l ++ '.' :: extWasm]) with
            | .file bytes => some (Step.loaded bytes)
            | .dir => if cfg.featWit = true then none else some (missingStep cfg key span)
            | .absent => some (missingStep cfg key span)) = some s := by
          cases hw : cfg.featWat <;> simp only [hw, hwt] at h <;>
            (cases hws : fs (q ++ [l ++ '.' :: extWasm]) <;> simp only [hws] at h ⊢) <;>
            first
              | exact h
              | (by_cases hi : cfg.featWit = true <;> simp only [hi, if_true, if_false] at h ⊢ <;> exact h)
              | skip
        cases hws : fs (q ++ [l ++ '.' :: extWasm]) with
        | file b =>
          simp only [hws] at h''
          rw [loadPath_file _ _ _ _ _ _ _ hws]
          have h1 : hasExt (q ++ [l ++ '.' :: extWasm]) extWat = false := by
            rw [← extension_eq_hasExt _ _ (by decide) (by decide), hextwasm]; decide
          have h2 : hasExt (q ++ [l ++ '.' :: extWasm]) extWit = false := by
            rw [← extension_eq_hasExt _ _ (by decide) (by decide), hextwasm]; decide
          simp only [fileSource, h1, h2]
          simpa using h''
        | dir =>
          simp only [hws] at h''
          rw [loadPath_dir _ _ _ _ _ _ hws]
          by_cases hi : cfg.featWit = true
          · simp [hi] at h''
          · simp only [hi] at h'' ⊢; simpa using h''
        | absent =>
          simp only [hws] at h''
          rw [loadPath_absent _ _ _ _ _ _ hws (by rw [hextwasm]; decide)]
          simpa using h''
  -- the override arm
  rcases override_cases cfg key with ⟨hov, hm⟩ | ⟨p, hov, hm, hv⟩
  · have := hdefault hov
    simp only [resolveKeyWith, choosePathWith]
    rcases hm with hm | hm
    · simp only [hm]; exact this
    · cases hg : amGet cfg.overrides key.name with
      | none => simp only []; exact this
      | some p => simp only [hm, Bool.false_eq_true, if_false]; exact this
  · simp only [decision, hov] at h
    simp only [resolveKeyWith, choosePathWith, hm, hv, if_true]
    cases hp : fs p with
    | file c =>
      simp only [hp] at h
      simp only [isFile, hp, Bool.not_true, Bool.false_eq_true, if_false]
      rw [loadPath_file _ _ _ _ _ _ _ hp]
      cases hs : fileSource cfg p c with
      | witDir d =>
        exfalso
        simp only [fileSource] at hs
        split at hs
        · simp at hs
        · split at hs <;> simp at hs
      | witFile src => simp only [hs] at h ⊢; simpa using h
      | wat src => simp only [hs] at h ⊢; simpa using h
      | binary b => simp only [hs] at h ⊢; simpa using h
    | absent | dir =>
      simp only [hp] at h
      simp only [isFile, hp, Bool.not_false, if_true]
      simpa using h

/-- the accumulator of the loop only ever grows at the end -/
theorem resolveLoop_acc (step : Key → Span → Step) (keys : List (Key × Span)) (acc : List (Key × Bytes)) :
    resolveLoop step keys acc =
      match resolveLoop step keys [] with
      | .ok l => .ok (acc ++ l)
      | .error e => .error e := by
  induction keys generalizing acc with
  | nil => simp [resolveLoop]
  | cons k rest ih =>
    obtain ⟨key, span⟩ := k
    simp only [resolveLoop]
    cases step key span with
    | fail e => simp
    | skipped => exact ih acc
    | loaded b =>
      simp only [List.nil_append]
      rw [ih (acc ++ [(key, b)]), ih [(key, b)]]
      cases resolveLoop step rest [] <;> simp

end Wac.Lemmas.FsLookup
