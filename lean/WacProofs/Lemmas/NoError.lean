import WacProofs.Lemmas.EncodeImports2
/-
  Which phases of the encoder model can return an *error* (as opposed to a panic value): only
  the toposort (cycle) and import resolution (conflicts).
-/
namespace Wac

theorem resolveArgs_no_cycle {g : GraphVal} {inst : Nat} (reqs : List ImportReq) {r : Resolved} {n : Nat} :
    resolveArgs g inst reqs r ≠ .error (.cycle n) := by
  induction reqs generalizing r with
  | nil => simp [resolveArgs]
  | cons q reqs ih =>
    simp only [resolveArgs]
    split
    · simp
    · split
      · simp
      · exact ih

theorem resolveInsts_no_cycle {g : GraphVal} (nodes : List Node) {r : Resolved} {n : Nat} :
    resolveInsts g nodes r ≠ .error (.cycle n) := by
  induction nodes generalizing r with
  | nil => simp [resolveInsts]
  | cons nd nodes ih =>
    simp only [resolveInsts]
    split
    · split
      · simp
      · split
        · exact ih
        · rename_i e he
          intro h
          injection h with h
          subst h
          exact resolveArgs_no_cycle _ he
        · simp
    · exact ih

theorem resolveExplicit_no_cycle {g : GraphVal} {first : List (Str × Nat)} (ns : List Nat) {a : Agg}
    {ex : List (Str × Nat)} {n : Nat} : resolveExplicit g first ns a ex ≠ .error (.cycle n) := by
  induction ns generalizing a ex with
  | nil => simp [resolveExplicit]
  | cons m ns ih =>
    simp only [resolveExplicit]
    split
    · simp
    · split
      · split
        · simp
        · exact ih
      · exact ih

theorem fillImplicit_no_error {agg : Agg} {enc : List (Str × (Kind × Nat))} (L : List (Str × Nat)) {st : EncSt}
    {e : EncErr} : fillImplicit agg enc L st ≠ .error e := by
  induction L generalizing st with
  | nil => simp [fillImplicit]
  | cons x L ih =>
    obtain ⟨name, node⟩ := x
    simp only [fillImplicit]
    split
    · simp
    · exact ih

theorem fillExplicit_no_error {agg : Agg} {enc : List (Str × (Kind × Nat))} (L : List (Str × Nat)) {st : EncSt}
    {e : EncErr} : fillExplicit agg enc L st ≠ .error e := by
  induction L generalizing st with
  | nil => simp [fillExplicit]
  | cons x L ih =>
    obtain ⟨name, node⟩ := x
    simp only [fillExplicit]
    split
    · simp
    · exact ih

theorem explicitArgs_no_error {g : GraphVal} {st : EncSt} (inc : List (EdgeW × Nat)) :
    ∀ e : EncErr, explicitArgs g st inc ≠ .error e := by
  intro e
  induction inc generalizing e with
  | nil => simp [explicitArgs]
  | cons x inc ih =>
    obtain ⟨w, src⟩ := x
    simp only [explicitArgs]
    split
    · simp
    · split
      · simp
      · split
        · split
          · simp
          · rename_i e' he'
            exact absurd he' (ih e')
          · simp
        · simp

theorem encNode_no_error {g : GraphVal} {o : Opts} {st : EncSt} {id : Nat} {e : EncErr} :
    encNode g o st id ≠ .error e := by
  unfold encNode
  split
  · simp
  · rename_i n hn
    have key : ∀ r : Res (EncSt × Nat), (∀ e', r ≠ .error e') →
        (match r with
          | .error e => Res.error e
          | .panic s => Res.panic s
          | .ok (st', idx) =>
            match natGet st'.nodeIdx id with
            | some _ => Res.panic "assert!(prev.is_none())"
            | none => Res.ok { st' with nodeIdx := st'.nodeIdx ++ [(id, idx)] }) ≠ .error e := by
      intro r hr
      cases r with
      | error e' => exact absurd rfl (hr e')
      | panic s => simp
      | ok pr =>
        obtain ⟨s1, i⟩ := pr
        simp only
        split <;> simp
    apply key
    intro e'
    cases hk : n.kind with
    | definition =>
      simp only
      unfold encDefinition
      split <;> simp
    | alias =>
      simp only
      unfold encAlias
      split
      · simp
      · split
        · simp
        · split
          · simp
          · split <;> simp
    | «import» nm => simp
    | instantiation slot sat =>
      simp only
      unfold encInstantiation
      split
      · simp
      · intro h
        dsimp only at h
        split at h
        · rename_i e'' he''
          exact absurd he'' (explicitArgs_no_error _ _)
        · simp at h
        · simp at h

theorem encNodes_no_error {g : GraphVal} {o : Opts} (ids : List Nat) {st : EncSt} {e : EncErr} :
    encNodes g o ids st ≠ .error e := by
  induction ids generalizing st with
  | nil => simp [encNodes]
  | cons id ids ih =>
    simp only [encNodes]
    split
    · exact ih
    · rename_i e' he'
      exact absurd he' encNode_no_error
    · simp

theorem encExports_no_error {g : GraphVal} (exps : List (Str × Nat)) {st : EncSt} {e : EncErr} :
    encExports g exps st ≠ .error e := by
  induction exps generalizing st with
  | nil => simp [encExports]
  | cons x exps ih =>
    obtain ⟨name, id⟩ := x
    simp only [encExports]
    split
    · simp
    · split
      · exact ih
      · split
        · simp
        · exact ih

theorem nameEntries_no_error {st : EncSt} {k : Kind} (nodes : List Node) :
    ∀ e : EncErr, nameEntries st k nodes ≠ .error e := by
  intro e
  induction nodes generalizing e with
  | nil => simp [nameEntries]
  | cons n nodes ih =>
    simp only [nameEntries]
    split
    · exact ih e
    · split
      · exact ih e
      · split
        · simp
        · split
          · simp
          · rename_i e' he'
            exact absurd he' (ih e')
          · simp

theorem allNameEntries_no_error {st : EncSt} {nodes : List Node} (ks : List Kind) :
    ∀ e : EncErr, allNameEntries st nodes ks ≠ .error e := by
  intro e
  induction ks generalizing e with
  | nil => simp [allNameEntries]
  | cons k ks ih =>
    simp only [allNameEntries]
    split
    · rename_i e' he'
      exact absurd he' (nameEntries_no_error _ _)
    · simp
    · split
      · simp
      · rename_i e' he'
        exact absurd he' (ih e')
      · simp

theorem encNames_no_error {g : GraphVal} {st : EncSt} {e : EncErr} : encNames g st ≠ .error e := by
  unfold encNames
  split
  · rename_i e' he'
    exact absurd he' (allNameEntries_no_error _ _)
  · simp
  · simp
  · simp

end Wac
