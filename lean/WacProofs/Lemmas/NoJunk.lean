import WacModel.Spec.Grammar
import WacProofs.Lemmas.GrammarBasics
import WacProofs.Lemmas.ParserBasics
import WacProofs.Lemmas.Combinators
/-
  C12 proofs: a derivation of the grammar specification never consumes a `junk` token (the
  abstraction `⟨.lit, []⟩` of a lexical-error item: a "terminal" with empty text, which no
  production mentions).  `Consumes p`: every result of `p` is reached by consuming a junk-free
  prefix of the input.  Closure lemmas for the combinators (`pure`, `fail`, `t`, `class_`, `>>=`,
  `<+>`, `opt`, `many`, `list1`, `list0`), then bottom-up through every nonterminal with the
  tactic `consumes` (one syntactic step at a time, reducible transparency only, so that no
  grammar function is ever unfolded by unification), up to `gDocument_consumes` and
  `derivations_no_junk`.  `Consumes.length_le`: results never lengthen the input.
-/
namespace Wac.C12
open Wac Wac.Ast Wac.Spec.Grammar

/-- every result of `p` is obtained by consuming a junk-free prefix of the input -/
def Consumes {α} (p : SP α) : Prop :=
  ∀ ts x r, (x, r) ∈ p ts → ∃ pre, ts = pre ++ r ∧ junk ∉ pre

def Shrinks {α} (p : SP α) : Prop := ∀ ts x r, (x, r) ∈ p ts → r.length ≤ ts.length

theorem Consumes.length_le {α} {p : SP α} (h : Consumes p) : Shrinks p := by
  intro ts x r hm
  obtain ⟨pre, rfl, _⟩ := h ts x r hm
  simp

theorem Consumes.pure {α} (a : α) : Consumes (Pure.pure a : SP α) := by
  intro ts x r hm
  simp only [pure_apply, List.mem_singleton, Prod.mk.injEq] at hm
  exact ⟨[], by simp [hm.2], by simp⟩

theorem Consumes.fail {α} : Consumes (Wac.Spec.Grammar.fail : SP α) := by
  intro ts x r hm
  simp at hm

theorem Consumes.t {s : String} (hs : s.toList ≠ []) : Consumes (t s) := by
  intro ts x r hm
  rw [mem_t] at hm
  refine ⟨[⟨.lit, s.toList⟩], by simp [hm], ?_⟩
  simp only [List.mem_singleton, junk]
  intro h
  injection h with _ h2
  exact hs h2.symm

theorem Consumes.t_of_ne {s : String} (hs : s ≠ "") : Consumes (Wac.Spec.Grammar.t s) :=
  Consumes.t (by simpa using hs)

theorem Consumes.class_ {k : SKind} (hk : k ≠ .lit) : Consumes (class_ k) := by
  intro ts x r hm
  cases ts with
  | nil => simp [Wac.Spec.Grammar.class_] at hm
  | cons a l =>
    simp only [Wac.Spec.Grammar.class_] at hm
    split at hm
    · rename_i h
      simp only [List.mem_singleton, Prod.mk.injEq] at hm
      refine ⟨[a], by simp [hm.2], ?_⟩
      simp only [List.mem_singleton, junk]
      intro h2
      apply hk
      rw [← h2] at h
      exact (by simpa [junk] using h : SKind.lit = k).symm
    · simp at hm

theorem Consumes.bind {α β} {p : SP α} {f : α → SP β} (hp : Consumes p) (hf : ∀ a, Consumes (f a)) :
    Consumes (p >>= f) := by
  intro ts x r hm
  simp only [bind_apply, List.mem_flatMap, Prod.exists] at hm
  obtain ⟨a, r1, h1, h2⟩ := hm
  obtain ⟨pre1, rfl, hj1⟩ := hp _ _ _ h1
  obtain ⟨pre2, rfl, hj2⟩ := hf a _ _ _ h2
  exact ⟨pre1 ++ pre2, by simp, by simp [hj1, hj2]⟩

theorem Consumes.alt {α} {p q : SP α} (hp : Consumes p) (hq : Consumes q) : Consumes (p <+> q) := by
  intro ts x r hm
  simp only [alt_apply, List.mem_append] at hm
  rcases hm with hm | hm
  · exact hp _ _ _ hm
  · exact hq _ _ _ hm

theorem Consumes.opt {α} {p : SP α} (hp : Consumes p) : Consumes (opt p) := by
  unfold Wac.Spec.Grammar.opt
  exact Consumes.alt (Consumes.bind hp fun _ => Consumes.pure _) (Consumes.pure _)

theorem Consumes.many {α} {p : SP α} (hp : Consumes p) (n : Nat) : Consumes (many p n) := by
  induction n with
  | zero => unfold Wac.Spec.Grammar.many; exact Consumes.pure _
  | succ n ih =>
    unfold Wac.Spec.Grammar.many
    exact Consumes.alt (Consumes.bind hp fun _ => Consumes.bind ih fun _ => Consumes.pure _) (Consumes.pure _)

theorem Consumes.list1 {α} {p : SP α} (hp : Consumes p) (n : Nat) : Consumes (list1 p n) := by
  unfold Wac.Spec.Grammar.list1
  have hc : Consumes (Wac.Spec.Grammar.t ",") := Consumes.t (by decide)
  exact Consumes.bind hp fun _ =>
    Consumes.bind (Consumes.many (Consumes.bind hc fun _ => hp) n) fun _ =>
      Consumes.bind (Consumes.opt hc) fun _ => Consumes.pure _

theorem Consumes.list0 {α} {p : SP α} (hp : Consumes p) (n : Nat) : Consumes (list0 p n) := by
  unfold Wac.Spec.Grammar.list0
  exact Consumes.alt (Consumes.list1 hp n) (Consumes.pure _)


/-- leaves: already proved nonterminals (extended by `macro_rules` below) -/
syntax "consumes_leaf" : tactic
macro_rules | `(tactic| consumes_leaf) => `(tactic| assumption)

/-- one structural step -/
syntax "consumes_step" : tactic
macro_rules | `(tactic| consumes_step) => `(tactic| first
  | with_reducible exact Consumes.pure _
  | with_reducible exact Consumes.fail
  | (with_reducible refine Consumes.t ?_) <;> decide
  | (with_reducible refine Consumes.class_ ?_) <;> decide
  | with_reducible consumes_leaf
  | with_reducible refine Consumes.bind ?_ (fun _ => ?_)
  | with_reducible apply Consumes.alt
  | with_reducible apply Consumes.opt
  | with_reducible apply Consumes.many
  | with_reducible apply Consumes.list1
  | with_reducible apply Consumes.list0
  | split)

macro "consumes" : tactic => `(tactic| repeat consumes_step)

theorem gId_consumes : Consumes gId := by unfold gId; consumes
macro_rules | `(tactic| consumes_leaf) => `(tactic| exact gId_consumes)
theorem gString_consumes : Consumes gString := by unfold gString; consumes
macro_rules | `(tactic| consumes_leaf) => `(tactic| exact gString_consumes)
theorem gPackageName_consumes : Consumes gPackageName := by unfold gPackageName; consumes
macro_rules | `(tactic| consumes_leaf) => `(tactic| exact gPackageName_consumes)
theorem gPackagePath_consumes : Consumes gPackagePath := by unfold gPackagePath; consumes
macro_rules | `(tactic| consumes_leaf) => `(tactic| exact gPackagePath_consumes)


theorem gType_consumes_aux (fuel : Nat) : Consumes (gType fuel) ∧ Consumes (gTypeOrHole fuel) := by
  induction fuel with
  | zero => exact ⟨by rw [gType]; exact Consumes.fail, by rw [gTypeOrHole]; exact Consumes.fail⟩
  | succ n ih =>
    obtain ⟨h1, h2⟩ := ih
    constructor
    · rw [gType]; consumes
    · rw [gTypeOrHole]; consumes

theorem gType_consumes (fuel : Nat) : Consumes (gType fuel) := (gType_consumes_aux fuel).1
theorem gTypeOrHole_consumes (fuel : Nat) : Consumes (gTypeOrHole fuel) := (gType_consumes_aux fuel).2
macro_rules | `(tactic| consumes_leaf) => `(tactic| exact gType_consumes _)
macro_rules | `(tactic| consumes_leaf) => `(tactic| exact gTypeOrHole_consumes _)

theorem gNamedType_consumes (fuel : Nat) : Consumes (gNamedType fuel) := by unfold gNamedType; consumes
macro_rules | `(tactic| consumes_leaf) => `(tactic| exact gNamedType_consumes _)
theorem gParamList_consumes (fuel : Nat) : Consumes (gParamList fuel) := by unfold gParamList; consumes
macro_rules | `(tactic| consumes_leaf) => `(tactic| exact gParamList_consumes _)
theorem gFuncType_consumes (fuel : Nat) : Consumes (gFuncType fuel) := by unfold gFuncType; consumes
macro_rules | `(tactic| consumes_leaf) => `(tactic| exact gFuncType_consumes _)
theorem gFuncTypeRef_consumes (fuel : Nat) : Consumes (gFuncTypeRef fuel) := by unfold gFuncTypeRef; consumes
macro_rules | `(tactic| consumes_leaf) => `(tactic| exact gFuncTypeRef_consumes _)
theorem gResourceItem_consumes (fuel : Nat) : Consumes (gResourceItem fuel) := by unfold gResourceItem; consumes
macro_rules | `(tactic| consumes_leaf) => `(tactic| exact gResourceItem_consumes _)
theorem gResourceDecl_consumes (fuel : Nat) : Consumes (gResourceDecl fuel) := by unfold gResourceDecl; consumes
macro_rules | `(tactic| consumes_leaf) => `(tactic| exact gResourceDecl_consumes _)
theorem gVariantDecl_consumes (fuel : Nat) : Consumes (gVariantDecl fuel) := by unfold gVariantDecl; consumes
macro_rules | `(tactic| consumes_leaf) => `(tactic| exact gVariantDecl_consumes _)
theorem gRecordDecl_consumes (fuel : Nat) : Consumes (gRecordDecl fuel) := by unfold gRecordDecl; consumes
macro_rules | `(tactic| consumes_leaf) => `(tactic| exact gRecordDecl_consumes _)
theorem gFlagsDecl_consumes (fuel : Nat) : Consumes (gFlagsDecl fuel) := by unfold gFlagsDecl; consumes
macro_rules | `(tactic| consumes_leaf) => `(tactic| exact gFlagsDecl_consumes _)
theorem gEnumDecl_consumes (fuel : Nat) : Consumes (gEnumDecl fuel) := by unfold gEnumDecl; consumes
macro_rules | `(tactic| consumes_leaf) => `(tactic| exact gEnumDecl_consumes _)
theorem gTypeAlias_consumes (fuel : Nat) : Consumes (gTypeAlias fuel) := by unfold gTypeAlias; consumes
macro_rules | `(tactic| consumes_leaf) => `(tactic| exact gTypeAlias_consumes _)
theorem gTypeDecl_consumes (fuel : Nat) : Consumes (gTypeDecl fuel) := by unfold gTypeDecl; consumes
macro_rules | `(tactic| consumes_leaf) => `(tactic| exact gTypeDecl_consumes _)
theorem gItemTypeDecl_consumes (fuel : Nat) : Consumes (gItemTypeDecl fuel) := by unfold gItemTypeDecl; consumes
macro_rules | `(tactic| consumes_leaf) => `(tactic| exact gItemTypeDecl_consumes _)
theorem gUse_consumes (fuel : Nat) : Consumes (gUse fuel) := by unfold gUse; consumes
macro_rules | `(tactic| consumes_leaf) => `(tactic| exact gUse_consumes _)
theorem gInterfaceItem_consumes (fuel : Nat) : Consumes (gInterfaceItem fuel) := by unfold gInterfaceItem; consumes
macro_rules | `(tactic| consumes_leaf) => `(tactic| exact gInterfaceItem_consumes _)
theorem gInlineInterface_consumes (fuel : Nat) : Consumes (gInlineInterface fuel) := by unfold gInlineInterface; consumes
macro_rules | `(tactic| consumes_leaf) => `(tactic| exact gInlineInterface_consumes _)
theorem gWorldItemPath_consumes (fuel : Nat) : Consumes (gWorldItemPath fuel) := by unfold gWorldItemPath; consumes
macro_rules | `(tactic| consumes_leaf) => `(tactic| exact gWorldItemPath_consumes _)
theorem gWorldItem_consumes (fuel : Nat) : Consumes (gWorldItem fuel) := by unfold gWorldItem; consumes
macro_rules | `(tactic| consumes_leaf) => `(tactic| exact gWorldItem_consumes _)
theorem gTypeStatement_consumes (fuel : Nat) : Consumes (gTypeStatement fuel) := by unfold gTypeStatement; consumes
macro_rules | `(tactic| consumes_leaf) => `(tactic| exact gTypeStatement_consumes _)
theorem gExternName_consumes : Consumes gExternName := by unfold gExternName; consumes
macro_rules | `(tactic| consumes_leaf) => `(tactic| exact gExternName_consumes)
theorem gImportStatement_consumes (fuel : Nat) : Consumes (gImportStatement fuel) := by unfold gImportStatement; consumes
macro_rules | `(tactic| consumes_leaf) => `(tactic| exact gImportStatement_consumes _)
theorem gPostfix_consumes : Consumes gPostfix := by unfold gPostfix; consumes
macro_rules | `(tactic| consumes_leaf) => `(tactic| exact gPostfix_consumes)

theorem gExpr_consumes_aux (fuel : Nat) :
    Consumes (gExpr fuel) ∧ Consumes (gPrimary fuel) ∧ Consumes (gArg fuel) := by
  induction fuel with
  | zero =>
    exact ⟨by rw [gExpr]; exact Consumes.fail, by rw [gPrimary]; exact Consumes.fail,
      by rw [gArg]; exact Consumes.fail⟩
  | succ n ih =>
    obtain ⟨h1, h2, h3⟩ := ih
    refine ⟨?_, ?_, ?_⟩
    · rw [gExpr]; consumes
    · rw [gPrimary]; consumes
    · rw [gArg]; consumes

theorem gExpr_consumes (fuel : Nat) : Consumes (gExpr fuel) := (gExpr_consumes_aux fuel).1
theorem gPrimary_consumes (fuel : Nat) : Consumes (gPrimary fuel) := (gExpr_consumes_aux fuel).2.1
theorem gArg_consumes (fuel : Nat) : Consumes (gArg fuel) := (gExpr_consumes_aux fuel).2.2
macro_rules | `(tactic| consumes_leaf) => `(tactic| exact gExpr_consumes _)
theorem gStatement_consumes (fuel : Nat) : Consumes (gStatement fuel) := by unfold gStatement; consumes
macro_rules | `(tactic| consumes_leaf) => `(tactic| exact gStatement_consumes _)

theorem gDocument_consumes (fuel : Nat) : Consumes (gDocument fuel) := by unfold gDocument; consumes

theorem derivations_no_junk (ts : List STok) (d : Document) (h : d ∈ derivations ts) : junk ∉ ts := by
  unfold derivations at h
  simp only [List.mem_map, List.mem_filter, Prod.exists] at h
  obtain ⟨d', r, ⟨hm, hr⟩, _⟩ := h
  obtain ⟨pre, he, hj⟩ := gDocument_consumes _ _ _ _ hm
  have : r = [] := by simpa using hr
  subst this
  rw [he]; simpa using hj

end Wac.C12
