import WacProofs.Lemmas.AggNMerge
/-
  C09 general theorems, part 21: TOTALITY on the NESTED fragment.  `remap_interface` /
  `remap_item_kind` on nested anonymous source interfaces never fail (no dangling index, no
  `expected an interface` panic, and the `prev.is_none()` assertion of `remapped.insert` holds
  because the interface keys added while the exports are copied have a strictly smaller unfolding
  rank than the interface itself).
-/
namespace Wac.AggP
open Wac Wac.Spec

/-- invariant for totality on the nested fragment -/
structure TIN (W : Colls) (types : Types) (S : Nat → Prop) (s : AggState) : Prop where
  ni : NI W types S s
  cfg : s.cfg.remapReplaced = true

theorem TIN.ti {W : Colls} {types : Types} {S : Nat → Prop} {s : AggState} (h : TIN W types S s) : TI W s :=
  ⟨h.ni.ainv.rinv, h.cfg⟩

/-- the keys a nested remap adds: defined-type keys, function-type keys, and interface keys of
unfolding rank at most `m` -/
def NKN (types : Types) (m : Nat) (s s' : AggState) : Prop :=
  ∀ g, (alGet s'.agg.remapped g).isSome = true → (alGet s.agg.remapped g).isSome = true ∨
    (∃ d, g = GTy.mk' types (.value (.defined d))) ∨ (∃ f, g = GTy.mk' types (.func f)) ∨
    ∃ i, g = GTy.mk' types (.interface i) ∧ (types.unfoldKind m (.instance i)).isSome = true

theorem NKN.refl (types : Types) (m : Nat) (s : AggState) : NKN types m s s := fun _ h => .inl h

theorem NKN.trans {types : Types} {m : Nat} {s s' s'' : AggState} (h1 : NKN types m s s') (h2 : NKN types m s' s'') :
    NKN types m s s'' := by
  intro g hg
  rcases h2 g hg with h | h
  · exact h1 g h
  · exact .inr h

theorem NKN.mono {types : Types} {m m' : Nat} (hm : m ≤ m') {s s' : AggState} (h : NKN types m s s') :
    NKN types m' s s' := by
  intro g hg
  rcases h g hg with h | h | h | ⟨i, rfl, hi⟩
  · exact .inl h
  · exact .inr (.inl h)
  · exact .inr (.inr (.inl h))
  · obtain ⟨t, ht⟩ := Option.isSome_iff_exists.1 hi
    exact .inr (.inr (.inr ⟨i, rfl, by rw [unfoldKind_mono types hm _ _ ht]; rfl⟩))

theorem NKL.toNKN {types : Types} {m : Nat} {s s' : AggState} (h : NKL types s s') : NKN types m s s' := by
  intro g hg
  rcases h g hg with h | h | h
  · exact .inl h
  · exact .inr (.inl h)
  · exact .inr (.inr (.inl h))

theorem unfoldItems_mem_isSome {u : ItemKind → Option Tree} : ∀ (E : List (Str × ItemKind)) (F : Forest),
    unfoldItems u E = some F → ∀ x, x ∈ E → (u x.2).isSome = true
  | [], _, _, x, hx => by cases hx
  | (n, k) :: E, F, h, x, hx => by
    obtain ⟨t, fr, h1, h2, _⟩ := unfoldItems_cons n k E F h
    rcases List.mem_cons.1 hx with rfl | hx
    · rw [h1]; rfl
    · exact unfoldItems_mem_isSome E fr h2 x hx

section ntotal
variable {W : Colls} {types : Types} (hW : W.mem types) (hs : Sane types) {S : Nat → Prop}
include hW hs

def KTotal (W : Colls) (types : Types) (S : Nat → Prop) (m : Nat) : Prop :=
  ∀ n d k t s, TIN W types S s → SrcK types d k → types.unfoldKind m k = some t → 2 * m + 1 ≤ n →
    ∃ k' s', remapKind n types k s = .ok (k', s') ∧ TIN W types S s' ∧ NKN types m s s'

def ITotal (W : Colls) (types : Types) (S : Nat → Prop) (m : Nat) : Prop :=
  ∀ n d id t s, TIN W types S s → SrcOK types d id → types.unfoldKind (m + 1) (.instance id) = some t →
    2 * m + 2 ≤ n → alGet s.agg.remapped (GTy.mk' types (.interface id)) = none →
    ∃ id' s', remapInterface n types id s = .ok (id', s') ∧ TIN W types S s' ∧ NKN types (m + 1) s s'

theorem kTotal_of (m : Nat) (hi : ∀ m', m' + 1 = m → ITotal W types S m') : KTotal W types S m := by
  intro n d k t s hI hk hu hn
  obtain ⟨n', rfl⟩ : ∃ n', n = n' + 1 := ⟨n - 1, by omega⟩
  rcases hk with lk | ⟨w, i, rfl, hsrc⟩
  · obtain ⟨k', s', h1, _, h3⟩ := remapKind_leaf_total hW hs m (n' + 1) k lk t s hI.ti hu hn
    obtain ⟨a, b, _⟩ := (remapNest_spec hW hs (n' + 1)).2 d k s k' s' hI.ni (.inl lk) h1
    exact ⟨k', s', h1, ⟨a, by rw [b.cfg]; exact hI.cfg⟩, h3.toNKN⟩
  · cases m with
    | zero => simp [Types.unfoldKind] at hu
    | succ m' =>
      -- the instance tree under the wrapper
      have hu0 : ∃ t0, types.unfoldKind (m' + 1) (.instance i) = some t0 := by
        rw [unfoldKind_wrapK] at hu
        cases hi' : types.interfaces[i]? with
        | none => simp [hi'] at hu
        | some itf =>
          simp only [hi'] at hu
          obtain ⟨F, hF, _⟩ := Option.map_eq_some_iff.1 hu
          exact ⟨.instance F, by simp only [Types.unfoldKind, hi', hF, Option.map_some]⟩
      obtain ⟨t0, hu0⟩ := hu0
      have key : ∃ id' s', remapInterface n' types i s = .ok (id', s') ∧ TIN W types S s' ∧ NKN types (m' + 1) s s' := by
        cases hg : alGet s.agg.remapped (GTy.mk' types (.interface i)) with
        | some ty =>
          obtain ⟨i', rfl⟩ := hI.ni.ish i ty hg
          refine ⟨i', s, ?_, hI, NKN.refl _ _ _⟩
          obtain ⟨n'', rfl⟩ : ∃ n'', n' = n'' + 1 := ⟨n' - 1, by omega⟩
          cases d with
          | zero => exact hsrc.elim
          | succ d =>
            obtain ⟨si, hsi, _, hid, _⟩ := hsrc
            rw [remapInterface]
            simp only [hsi, run_bind, run_pure, run_getAgg, hid, run_remappedGet, hg]
        | none => exact hi m' rfl n' d i t0 s hI hsrc hu0 (by omega) hg
      obtain ⟨id', s', h1, h2, h3⟩ := key
      cases w with
      | false => exact ⟨.instance id', s', by simp only [wrapK, remapKind, run_bind, h1, run_pure], h2, h3⟩
      | true => exact ⟨.type (.interface id'), s', by simp only [wrapK, remapKind, run_bind, h1, run_pure], h2, h3⟩

theorem iTotal_of (m : Nat) (hk : KTotal W types S m) (hprev : ∀ m', m' + 1 = m → ITotal W types S m') :
    ITotal W types S m := by
  intro n d id t s hI hsrc hu hn hmiss
  cases hlow : types.unfoldKind m (.instance id) with
  | some t' =>
    cases m with
    | zero => simp [Types.unfoldKind] at hlow
    | succ m' =>
      obtain ⟨id', s', h1, h2, h3⟩ := hprev m' rfl n d id t' s hI hsrc hlow (by omega) hmiss
      exact ⟨id', s', h1, h2, h3.mono (by omega)⟩
  | none =>
    obtain ⟨n', rfl⟩ : ∃ n', n = n' + 2 := ⟨n - 2, by omega⟩
    cases d with
    | zero => exact hsrc.elim
    | succ d =>
      obtain ⟨si, hsi, huses, hid, hexp⟩ := hsrc
      have hu' := hu
      simp only [Types.unfoldKind, hsi] at hu'
      obtain ⟨G, hG, _⟩ := Option.map_eq_some_iff.1 hu'
      -- the exports are copied
      obtain ⟨E', s1, h1, hI1, hK1⟩ := mapMList_total
        (f := fun (e : Str × ItemKind) => do return (e.1, ← remapKind (n' + 1) types e.2))
        (I := TIN W types S) (R := NKN types m) (NKN.refl types m) (fun _ _ _ => NKN.trans) si.exports
        (fun a ha s0 hI0 => by
          obtain ⟨ta, hta⟩ := Option.isSome_iff_exists.1 (unfoldItems_mem_isSome si.exports G hG a ha)
          obtain ⟨k', s1, g1, g2, g3⟩ := hk (n' + 1) d a.2 ta s0 hI0 (hexp a ha) hta (by omega)
          exact ⟨(a.1, k'), s1, by simp only [run_bind, g1, run_pure], g2, g3⟩) s hI
      -- the key of `id` is still free
      have hfree : (alGet s1.agg.remapped (GTy.mk' types (.interface id))).isSome = false := by
        cases hq : (alGet s1.agg.remapped (GTy.mk' types (.interface id))).isSome with
        | false => rfl
        | true =>
          rcases hK1 _ hq with h | ⟨d0, hd0⟩ | ⟨f0, hf0⟩ | ⟨i0, hi0, hi0'⟩
          · rw [hmiss] at h; cases h
          · simp [GTy.mk'] at hd0
          · simp [GTy.mk'] at hf0
          · have : i0 = id := by
              simp only [GTy.mk', GTy.mk.injEq, Ty.interface.injEq] at hi0
              exact hi0.2.symm
            subst this
            rw [hlow] at hi0'; cases hi0'
      have hrun : remapInterface (n' + 2) types id s =
          .ok (s1.agg.types.interfaces.length,
            setRemapped (pushIface s1 { id := none, uses := [], exports := E' }) (GTy.mk' types (.interface id))
              (.interface s1.agg.types.interfaces.length)) := by
        rw [remapInterface]
        simp only [hsi, run_bind, run_pure, run_getAgg, hid, run_remappedGet, hmiss, huses, remapUses, mapMList, h1,
          run_modifyTypes, run_remappedInsertNew]
        simp only [hfree, Bool.false_eq_true, ↓reduceIte]
        rfl
      obtain ⟨a, b, _⟩ := (remapNest_spec hW hs (n' + 2)).1 (d + 1) id s _ _ hI.ni ⟨si, hsi, huses, hid, hexp⟩ hrun
      refine ⟨_, _, hrun, ⟨a, by rw [b.cfg]; exact hI.cfg⟩, ?_⟩
      intro g hg
      simp only [setRemapped, pushIface, alGet_alInsert] at hg
      split at hg
      · rename_i he
        exact .inr (.inr (.inr ⟨id, (eq_of_beq he).symm, by rw [hu]; rfl⟩))
      · exact (hK1.mono (Nat.le_succ m)) g hg

/-- **`remap_item_kind` and `remap_interface` are total on the nested fragment** (every
unfolding rank) -/
theorem remapNest_total : ∀ m, KTotal W types S m ∧ ITotal W types S m
  | 0 => by
    have hk : KTotal W types S 0 := kTotal_of hW hs 0 (fun m' h => by omega)
    exact ⟨hk, iTotal_of hW hs 0 hk (fun m' h => by omega)⟩
  | m + 1 => by
    obtain ⟨_, hi⟩ := remapNest_total m
    have hk : KTotal W types S (m + 1) := kTotal_of hW hs (m + 1) (fun m' h => by
      have : m' = m := by omega
      subst this; exact hi)
    exact ⟨hk, iTotal_of hW hs (m + 1) hk (fun m' h => by
      have : m' = m := by omega
      subst this; exact hi)⟩

end ntotal

/-! ### forests: where the merge is undefined -/

/-- the first source entry is shared with the target and the two trees have no merge -/
theorem meetShared_cons_present_none : ∀ (F G : Forest) (n : Str) (ts tf : Tree),
    F.get n = some tf → meet tf ts = none → meetShared F (.cons n ts G) = none
  | .nil, _, _, _, _, h, _ => by simp [Forest.get] at h
  | .cons m u rest, G, n, ts, tf, hf, hm => by
    by_cases hmn : (m == n) = true
    · have e : m = n := by simpa using hmn
      subst e
      simp only [Forest.get, BEq.rfl, ↓reduceIte, Option.some.injEq] at hf
      subst hf
      simp only [meetShared, Forest.get, BEq.rfl, ↓reduceIte, hm]
    · have hmn' : (m == n) = false := by simpa using hmn
      simp only [Forest.get, hmn', Bool.false_eq_true, ↓reduceIte] at hf
      have ih := meetShared_cons_present_none rest G n ts tf hf hm
      simp only [meetShared, ih]
      split <;> simp_all

theorem meet_instance_eqK (F : Forest) {b : Tree} (h : isEqK b = true) : meet (.instance F) b = none := by
  cases b <;> simp [isEqK, isEqKind] at h <;> simp [meet]

theorem meet_eqK_instance {a : Tree} (G : Forest) (h : isEqK a = true) : meet a (.instance G) = none := by
  rw [meet_eqK a _ h]
  have : (a == Tree.instance G) = false := by
    rw [Bool.eq_false_iff]; intro hc
    have : a = .instance G := by simpa using hc
    subst this; simp [isEqK, isEqKind] at h
  simp [this]

end Wac.AggP
