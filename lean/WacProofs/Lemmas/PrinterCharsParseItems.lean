import WacProofs.Lemmas.PrinterCharsParseDecls
/-
  C13, "the parser puts only characters of the tokens into the leaves": `use`, interface items and
  declarations, extern types, world items and declarations, type statements, import statements.
-/
namespace Wac.Lemmas.PrinterChars
open Wac Wac.Ast Wac.Lex Wac.Parse

variable {q : Char → Bool}

theorem parseUsePath_chars {st : PState} (hst : ToksChars q st) :
    PostC q (parseUsePath st) (fun p => p.chars q = true) := by
  unfold parseUsePath
  split
  · cbind parsePackagePath_chars hst => p st1 hp hst1
    exact PostC_ok (by simpa [UsePath.chars] using hp) hst1
  · cbind parseIdent_chars hst => id st1 hid hst1
    exact PostC_ok (by simpa [UsePath.chars] using hid) hst1
  · exact PostC_error

theorem parseUseItem_chars {st : PState} (hst : ToksChars q st) :
    PostC q (parseUseItem st) (fun u => u.chars q = true) := by
  unfold parseUseItem
  cbind parseIdent_chars hst => id st1 hid hst1
  cbind parseOptional_chars _ hst1 (fun _ h => parseIdent_chars h) => a st2 ha hst2
  refine PostC_ok ?_ hst2
  cases a with
  | none => simp [UseItem.chars, hid]
  | some x => simp [UseItem.chars, hid, ha x rfl]

theorem parseUse_chars (fuel : Nat) {st : PState} (hst : ToksChars q st) :
    PostC q (parseUse fuel st) (fun u => u.chars q = true) := by
  unfold parseUse
  cbind parseToken_chars _ hst => _ st1 _ hst1
  cbind parseUsePath_chars hst1 => p st2 hp hst2
  cbind parseToken_chars _ hst2 => _ st3 _ hst3
  cbind parseToken_chars _ hst3 => _ st4 _ hst4
  cbind parseDelimited_chars _ _ _ (fun _ h => parseUseItem_chars h) fuel hst4 => is st5 his hst5
  cbind parseToken_chars _ hst5 => _ st6 _ hst6
  cbind parseToken_chars _ hst6 => _ st7 _ hst7
  exact PostC_ok (by simpa [Use.chars, parseDocs_chars hst, hp, List.all_eq_true] using his) hst7

theorem parseInterfaceExport_chars (fuel : Nat) {st : PState} (hst : ToksChars q st) :
    PostC q (parseInterfaceExport fuel st) (fun e => e.chars q = true) := by
  unfold parseInterfaceExport
  cbind parseIdent_chars hst => id st1 hid hst1
  cbind parseToken_chars _ hst1 => _ st2 _ hst2
  cbind parseFuncTypeRef_chars fuel hst2 => ty st3 hty hst3
  cbind parseToken_chars _ hst3 => _ st4 _ hst4
  exact PostC_ok (by simp [InterfaceExport.chars, parseDocs_chars hst, hid, hty]) hst4

theorem parseInterfaceItem_chars (fuel : Nat) {st : PState} (hst : ToksChars q st) :
    PostC q (parseInterfaceItem fuel st) (fun i => i.chars q = true) := by
  unfold parseInterfaceItem
  split
  · cbind parseUse_chars fuel hst => u st1 hu hst1
    exact PostC_ok (by simpa [InterfaceItem.chars] using hu) hst1
  · split
    · cbind parseInterfaceExport_chars fuel hst => e st1 he hst1
      exact PostC_ok (by simpa [InterfaceItem.chars] using he) hst1
    · split
      · cbind parseItemTypeDecl_chars fuel hst => d st1 hd hst1
        exact PostC_ok (by simpa [InterfaceItem.chars] using hd) hst1
      · exact PostC_error

theorem parseInterfaceDecl_chars (fuel : Nat) {st : PState} (hst : ToksChars q st) :
    PostC q (parseInterfaceDecl fuel st) (fun d => d.chars q = true) := by
  unfold parseInterfaceDecl
  cbind parseToken_chars _ hst => _ st1 _ hst1
  cbind parseIdent_chars hst1 => id st2 hid hst2
  cbind parseToken_chars _ hst2 => _ st3 _ hst3
  cbind parseDelimited_chars _ _ _ (fun _ h => parseInterfaceItem_chars fuel h) fuel hst3 => is st4 his hst4
  cbind parseToken_chars _ hst4 => _ st5 _ hst5
  exact PostC_ok (by simpa [InterfaceDecl.chars, parseDocs_chars hst, hid, List.all_eq_true] using his) hst5

theorem parseInlineInterface_chars (fuel : Nat) {st : PState} (hst : ToksChars q st) :
    PostC q (parseInlineInterface fuel st) (fun i => i.chars q = true) := by
  unfold parseInlineInterface
  cbind parseToken_chars _ hst => _ st1 _ hst1
  cbind parseToken_chars _ hst1 => _ st2 _ hst2
  cbind parseDelimited_chars _ _ _ (fun _ h => parseInterfaceItem_chars fuel h) fuel hst2 => is st3 his hst3
  cbind parseToken_chars _ hst3 => _ st4 _ hst4
  exact PostC_ok (by simpa [InlineInterface.chars, List.all_eq_true] using his) hst4

theorem parseExternType_chars (fuel : Nat) {st : PState} (hst : ToksChars q st) :
    PostC q (parseExternType fuel st) (fun t => t.chars q = true) := by
  unfold parseExternType
  split
  · cbind parseIdent_chars hst => id st1 hid hst1
    exact PostC_ok (by simpa [ExternType.chars] using hid) hst1
  · cbind parseFuncType_chars fuel hst => f st1 hf hst1
    exact PostC_ok (by simpa [ExternType.chars] using hf) hst1
  · cbind parseInlineInterface_chars fuel hst => i st1 hi hst1
    exact PostC_ok (by simpa [ExternType.chars] using hi) hst1
  · exact PostC_error

theorem parseNamedWorldItem_chars (fuel : Nat) {st : PState} (hst : ToksChars q st) :
    PostC q (parseNamedWorldItem fuel st) (fun n => n.chars q = true) := by
  unfold parseNamedWorldItem
  cbind parseIdent_chars hst => id st1 hid hst1
  cbind parseToken_chars _ hst1 => _ st2 _ hst2
  cbind parseExternType_chars fuel hst2 => ty st3 hty hst3
  exact PostC_ok (by simp [NamedWorldItem.chars, hid, hty]) hst3

theorem parseWorldItemPath_chars (fuel : Nat) {st : PState} (hst : ToksChars q st) :
    PostC q (parseWorldItemPath fuel st) (fun p => p.chars q = true) := by
  unfold parseWorldItemPath
  split
  · cbind parsePackagePath_chars hst => p st1 hp hst1
    exact PostC_ok (by simpa [WorldItemPath.chars] using hp) hst1
  · split
    · cbind parseNamedWorldItem_chars fuel hst => n st1 hn hst1
      exact PostC_ok (by simpa [WorldItemPath.chars] using hn) hst1
    · cbind parseIdent_chars hst => id st1 hid hst1
      exact PostC_ok (by simpa [WorldItemPath.chars] using hid) hst1
  · exact PostC_error

theorem parseWorldImport_chars (fuel : Nat) {st : PState} (hst : ToksChars q st) :
    PostC q (parseWorldImport fuel st) (fun i => docsChars q i.docs = true ∧ i.path.chars q = true) := by
  unfold parseWorldImport
  cbind parseToken_chars _ hst => _ st1 _ hst1
  cbind parseWorldItemPath_chars fuel hst1 => p st2 hp hst2
  cbind parseToken_chars _ hst2 => _ st3 _ hst3
  exact PostC_ok ⟨parseDocs_chars hst, hp⟩ hst3

theorem parseWorldExport_chars (fuel : Nat) {st : PState} (hst : ToksChars q st) :
    PostC q (parseWorldExport fuel st) (fun i => docsChars q i.docs = true ∧ i.path.chars q = true) := by
  unfold parseWorldExport
  cbind parseToken_chars _ hst => _ st1 _ hst1
  cbind parseWorldItemPath_chars fuel hst1 => p st2 hp hst2
  cbind parseToken_chars _ hst2 => _ st3 _ hst3
  exact PostC_ok ⟨parseDocs_chars hst, hp⟩ hst3

theorem parseWorldRef_chars {st : PState} (hst : ToksChars q st) :
    PostC q (parseWorldRef st) (fun r => r.chars q = true) := by
  unfold parseWorldRef
  split
  · cbind parsePackagePath_chars hst => p st1 hp hst1
    exact PostC_ok (by simpa [WorldRef.chars] using hp) hst1
  · cbind parseIdent_chars hst => id st1 hid hst1
    exact PostC_ok (by simpa [WorldRef.chars] using hid) hst1
  · exact PostC_error

theorem parseWorldIncludeItem_chars {st : PState} (hst : ToksChars q st) :
    PostC q (parseWorldIncludeItem st) (fun i => i.chars q = true) := by
  unfold parseWorldIncludeItem
  cbind parseIdent_chars hst => a st1 ha hst1
  cbind parseToken_chars _ hst1 => _ st2 _ hst2
  cbind parseIdent_chars hst2 => b st3 hb hst3
  exact PostC_ok (by simp [WorldIncludeItem.chars, ha, hb]) hst3

theorem parseWorldInclude_chars (fuel : Nat) {st : PState} (hst : ToksChars q st) :
    PostC q (parseWorldInclude fuel st) (fun i => i.chars q = true) := by
  unfold parseWorldInclude
  cbind parseToken_chars _ hst => _ st1 _ hst1
  cbind parseWorldRef_chars hst1 => w st2 hw hst2
  refine PostC_bind (parseOptional_chars _ hst2
    (P := fun is : List WorldIncludeItem => ∀ i ∈ is, i.chars q = true) ?_) ?_
  · intro sa hsa
    cbind parseToken_chars _ hsa => _ sb _ hsb
    cbind parseDelimited_chars _ _ _ (fun _ h => parseWorldIncludeItem_chars h) fuel hsb => is sc his hsc
    cbind parseToken_chars _ hsc => _ sd _ hsd
    exact PostC_ok his hsd
  · intro o st3 ho hst3
    dsimp only
    cbind parseToken_chars _ hst3 => _ st4 _ hst4
    refine PostC_ok ?_ hst4
    cases o with
    | none => simp [WorldInclude.chars, parseDocs_chars hst, hw]
    | some is => simpa [WorldInclude.chars, parseDocs_chars hst, hw, List.all_eq_true] using ho is rfl

theorem parseWorldItem_chars (fuel : Nat) {st : PState} (hst : ToksChars q st) :
    PostC q (parseWorldItem fuel st) (fun i => i.chars q = true) := by
  unfold parseWorldItem
  split
  · cbind parseUse_chars fuel hst => u st1 hu hst1
    exact PostC_ok (by simpa [WorldItem.chars] using hu) hst1
  · split
    · cbind parseWorldImport_chars fuel hst => i st1 hi hst1
      exact PostC_ok (by simpa [WorldItem.chars] using hi) hst1
    · split
      · cbind parseWorldExport_chars fuel hst => e st1 he hst1
        exact PostC_ok (by simpa [WorldItem.chars] using he) hst1
      · split
        · cbind parseWorldInclude_chars fuel hst => i st1 hi hst1
          exact PostC_ok (by simpa [WorldItem.chars] using hi) hst1
        · split
          · cbind parseItemTypeDecl_chars fuel hst => d st1 hd hst1
            exact PostC_ok (by simpa [WorldItem.chars] using hd) hst1
          · exact PostC_error

theorem parseWorldDecl_chars (fuel : Nat) {st : PState} (hst : ToksChars q st) :
    PostC q (parseWorldDecl fuel st) (fun d => d.chars q = true) := by
  unfold parseWorldDecl
  cbind parseToken_chars _ hst => _ st1 _ hst1
  cbind parseIdent_chars hst1 => id st2 hid hst2
  cbind parseToken_chars _ hst2 => _ st3 _ hst3
  cbind parseDelimited_chars _ _ _ (fun _ h => parseWorldItem_chars fuel h) fuel hst3 => is st4 his hst4
  cbind parseToken_chars _ hst4 => _ st5 _ hst5
  exact PostC_ok (by simpa [WorldDecl.chars, parseDocs_chars hst, hid, List.all_eq_true] using his) hst5

theorem parseTypeStatement_chars (fuel : Nat) {st : PState} (hst : ToksChars q st) :
    PostC q (parseTypeStatement fuel st) (fun s => s.chars q = true) := by
  unfold parseTypeStatement
  split
  · cbind parseInterfaceDecl_chars fuel hst => d st1 hd hst1
    exact PostC_ok (by simpa [TypeStatement.chars] using hd) hst1
  · split
    · cbind parseWorldDecl_chars fuel hst => d st1 hd hst1
      exact PostC_ok (by simpa [TypeStatement.chars] using hd) hst1
    · split
      · cbind parseTypeDecl_chars fuel hst => d st1 hd hst1
        exact PostC_ok (by simpa [TypeStatement.chars] using hd) hst1
      · exact PostC_error

/-! ### imports -/

theorem parseImportType_chars (fuel : Nat) {st : PState} (hst : ToksChars q st) :
    PostC q (parseImportType fuel st) (fun t => t.chars q = true) := by
  unfold parseImportType
  split
  · cbind parseFuncType_chars fuel hst => f st1 hf hst1
    exact PostC_ok (by simpa [ImportType.chars] using hf) hst1
  · cbind parseInlineInterface_chars fuel hst => i st1 hi hst1
    exact PostC_ok (by simpa [ImportType.chars] using hi) hst1
  · cbind parsePackagePath_chars hst => p st1 hp hst1
    exact PostC_ok (by simpa [ImportType.chars] using hp) hst1
  · cbind parseIdent_chars hst => id st1 hid hst1
    exact PostC_ok (by simpa [ImportType.chars] using hid) hst1
  · exact PostC_error

end Wac.Lemmas.PrinterChars
