import WacModel.Targets
/-
  Facts about `NameMap` (C15 model) used by C11: a semver-aware lookup returns the exact-name
  entry whenever there is one, and the maps the stand-alone check builds (`all_imports`, the
  component's exports) contain, under each name, the entry the resolver's exact lookup sees.
-/
namespace Wac

theorem amGet_amInsert {β : Type} (d : List (Str × β)) (k n : Str) (v : β) :
    amGet (amInsert d k v) n = if k = n then some v else amGet d n := by
  induction d with
  | nil => by_cases h : k = n <;> simp [amInsert, amGet, h]
  | cons e r ih =>
    obtain ⟨k', v'⟩ := e
    by_cases h1 : k' = k
    · subst h1
      by_cases h2 : k' = n <;> simp [amInsert, amGet, h2]
    · by_cases h2 : k' = n
      · subst h2
        have : ¬ k = k' := fun e => h1 e.symm
        simp [amInsert, amGet, h1, this]
      · simp [amInsert, amGet, h1, h2, ih]

theorem NameMap.insert_shadow_defs {β : Type} (m : NameMap β) (n : Str) (v : β) :
    ((m.insert n true v).getD m).definitions = amInsert m.definitions n v := by
  simp only [NameMap.insert, Bool.not_true, Bool.and_false, Bool.false_eq_true, ↓reduceIte]
  cases altKey n with
  | none => rfl
  | some kv =>
    obtain ⟨k, ver⟩ := kv
    simp only
    cases amGet m.alternate k with
    | none => rfl
    | some pv =>
      obtain ⟨_, p⟩ := pv
      simp only
      split <;> rfl

theorem NameMap.get_exact {β : Type} (m : NameMap β) (n : Str) (v : β) (h : amGet m.definitions n = some v) :
    m.get n = some v := by
  simp [NameMap.get, h]

def insAll {β : Type} (l : List (Str × β)) (m : NameMap β) : NameMap β :=
  l.foldl (fun m e => (m.insert e.1 true e.2).getD m) m

theorem insAll_defs {β : Type} : ∀ (l : List (Str × β)) (m : NameMap β),
    (insAll l m).definitions = l.foldl (fun d e => amInsert d e.1 e.2) m.definitions
  | [], m => rfl
  | e :: r, m => by
    simp only [insAll, List.foldl_cons]
    have := insAll_defs r ((m.insert e.1 true e.2).getD m)
    simp only [insAll] at this
    rw [this, NameMap.insert_shadow_defs]

theorem foldl_amInsert_absent {β : Type} (n : Str) : ∀ (l : List (Str × β)) (d : List (Str × β)),
    (∀ e, e ∈ l → e.1 ≠ n) → amGet (l.foldl (fun d e => amInsert d e.1 e.2) d) n = amGet d n
  | [], d, _ => rfl
  | e :: r, d, h => by
    simp only [List.foldl_cons]
    rw [foldl_amInsert_absent n r _ (fun e' he' => h e' (List.mem_cons_of_mem _ he'))]
    rw [amGet_amInsert]
    simp [h e (List.mem_cons_self)]

theorem amGet_none_of_absent {β : Type} (n : Str) : ∀ (l : List (Str × β)), amGet l n = none → ∀ e, e ∈ l → e.1 ≠ n
  | [], _, e, he => by cases he
  | (k, v) :: r, h, e, he => by
    by_cases hk : k = n
    · simp [amGet, hk] at h
    · simp only [amGet, hk, beq_iff_eq, ↓reduceIte] at h
      rcases List.mem_cons.1 he with rfl | he
      · exact hk
      · exact amGet_none_of_absent n r h e he

theorem foldl_amInsert_present {β : Type} (n : Str) (x : β) : ∀ (l : List (Str × β)) (d : List (Str × β)),
    keysDistinct l = true → amGet l n = some x →
    amGet (l.foldl (fun d e => amInsert d e.1 e.2) d) n = some x
  | [], d, _, h => by simp [amGet] at h
  | (k, v) :: r, d, hd, h => by
    simp only [keysDistinct, Bool.and_eq_true, Bool.not_eq_true', List.any_eq_false] at hd
    simp only [List.foldl_cons]
    by_cases hk : k = n
    · subst hk
      simp [amGet] at h; subst h
      rw [foldl_amInsert_absent k r _ (fun e he => by have := hd.1 e he; simpa using this)]
      rw [amGet_amInsert]; simp
    · simp only [amGet, hk, beq_iff_eq, ↓reduceIte] at h
      exact foldl_amInsert_present n x r _ hd.2 h

/-- the component-export map returns the exported kind under its exact name -/
theorem nameMapOf_get_exact (ge : List (Str × ItemKind)) (hd : keysDistinct ge = true) (n : Str) (k : ItemKind)
    (h : amGet ge n = some k) : (nameMapOf ge).get n = some k := by
  apply NameMap.get_exact
  have := insAll_defs ge ({} : NameMap ItemKind)
  simp only [insAll] at this
  simp only [nameMapOf, this]
  exact foldl_amInsert_present n k ge _ hd h

/-- `all_imports` returns, under an exact name, what the resolver's lookup (used interfaces first,
then declared imports) returns — provided a name that is both implicit and declared has one kind -/
theorem allImports_get_exact (implicit explicit : List (Str × ItemKind))
    (hdi : keysDistinct implicit = true) (hde : keysDistinct explicit = true)
    (hagree : ∀ n a b, amGet implicit n = some a → amGet explicit n = some b → a = b)
    (n : Str) (e : ItemKind)
    (h : (amGet implicit n).orElse (fun _ => amGet explicit n) = some e) :
    (allImports implicit explicit).get n = some e := by
  apply NameMap.get_exact
  have hdefs : (allImports implicit explicit).definitions =
      explicit.foldl (fun d e => amInsert d e.1 e.2) (implicit.foldl (fun d e => amInsert d e.1 e.2) []) := by
    have := insAll_defs (implicit ++ explicit) ({} : NameMap ItemKind)
    simp only [insAll] at this
    simp only [allImports]
    rw [this, List.foldl_append]
  rw [hdefs]
  cases hx : amGet explicit n with
  | some b =>
    cases hi : amGet implicit n with
    | some a =>
      simp [hi] at h; subst h
      rw [hagree n a b hi hx]
      exact foldl_amInsert_present n b explicit _ hde hx
    | none =>
      simp [hi, hx] at h; subst h
      exact foldl_amInsert_present n b explicit _ hde hx
  | none =>
    rw [foldl_amInsert_absent n explicit _ (amGet_none_of_absent n explicit hx)]
    cases hi : amGet implicit n with
    | some a =>
      simp [hi] at h; subst h
      exact foldl_amInsert_present n a implicit _ hdi hi
    | none => simp [hi, hx] at h

end Wac
