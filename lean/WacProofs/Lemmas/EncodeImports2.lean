import WacProofs.Lemmas.EncodeImports3
/-
  `resolve_imports` (what it records) and the two fill loops of `encode_imports`; then the
  initial loop invariant.
-/
namespace Wac
open Wac.Spec

/-! ### what `resolve_imports` records as implicit imports -/

/-- the implicit imports one node contributes: `(import name, node)` per unsatisfied import -/
def implicitOfNode (g : GraphVal) (n : Node) : List (Str × Nat) :=
  match n.kind with
  | .instantiation slot sat =>
    match g.pkg? slot with
    | some p => (unsatisfied p sat).map fun r => (r.name, n.id)
    | none => []
  | _ => []

theorem resolveArgs_implicit {g : GraphVal} {inst : Nat} (reqs : List ImportReq) {r r' : Resolved}
    (h : resolveArgs g inst reqs r = .ok r') :
    r'.implicit = r.implicit ++ reqs.map fun q => (q.name, inst) := by
  induction reqs generalizing r with
  | nil =>
    simp only [resolveArgs] at h
    injection h with h
    subst h
    simp
  | cons q reqs ih =>
    simp only [resolveArgs] at h
    cases hi : g.importNode? q.name with
    | some i => simp [hi] at h
    | none =>
      simp only [hi] at h
      split at h
      · simp at h
      · rw [ih h]
        simp

theorem resolveInsts_implicit {g : GraphVal} (nodes : List Node) {r r' : Resolved}
    (h : resolveInsts g nodes r = .ok r') :
    r'.implicit = r.implicit ++ nodes.flatMap (implicitOfNode g) := by
  induction nodes generalizing r with
  | nil =>
    simp only [resolveInsts] at h
    injection h with h
    subst h
    simp
  | cons n nodes ih =>
    simp only [resolveInsts] at h
    cases hk : n.kind with
    | instantiation slot sat =>
      simp only [hk] at h
      cases hp : g.pkg? slot with
      | none => simp [hp] at h
      | some p =>
        simp only [hp] at h
        cases ha : resolveArgs g n.id (unsatisfied p sat) r with
        | error e => simp [ha] at h
        | panic s => simp [ha] at h
        | ok r1 =>
          simp only [ha] at h
          rw [ih h, resolveArgs_implicit _ ha]
          simp [List.flatMap_cons, implicitOfNode, hk, hp]
    | «import» nm =>
      simp only [hk] at h
      rw [ih h]; simp [List.flatMap_cons, implicitOfNode, hk]
    | alias =>
      simp only [hk] at h
      rw [ih h]; simp [List.flatMap_cons, implicitOfNode, hk]
    | definition =>
      simp only [hk] at h
      rw [ih h]; simp [List.flatMap_cons, implicitOfNode, hk]

theorem implicitOfNode_snd (g : GraphVal) (n : Node) : ∀ e ∈ implicitOfNode g n, e.2 = n.id := by
  intro e he
  unfold implicitOfNode at he
  split at he
  · split at he
    · simp only [List.mem_map] at he
      obtain ⟨r, _, hr⟩ := he
      rw [← hr]
    · simp at he
  · simp at he

/-- the entries recorded for one node are exactly that node's (node indices are distinct) -/
theorem filter_flatMap_implicit (g : GraphVal) (nodes : List Node) (hnd : (nodes.map (·.id)).Nodup)
    (n : Node) (hn : n ∈ nodes) :
    (nodes.flatMap (implicitOfNode g)).filter (fun e => e.2 == n.id) = implicitOfNode g n := by
  induction nodes with
  | nil => simp at hn
  | cons m ms ih =>
    simp only [List.map_cons, List.nodup_cons] at hnd
    simp only [List.flatMap_cons, List.filter_append]
    rcases List.mem_cons.mp hn with e | e
    · subst e
      have h1 : (implicitOfNode g n).filter (fun e => e.2 == n.id) = implicitOfNode g n := by
        apply List.filter_eq_self.mpr
        intro a ha
        simp [implicitOfNode_snd g n a ha]
      have h2 : (ms.flatMap (implicitOfNode g)).filter (fun e => e.2 == n.id) = [] := by
        apply List.filter_eq_nil_iff.mpr
        intro a ha
        simp only [List.mem_flatMap] at ha
        obtain ⟨m', hm', ha'⟩ := ha
        have : a.2 = m'.id := implicitOfNode_snd g m' a ha'
        have hne : m'.id ≠ n.id := fun eq => hnd.1 (eq ▸ List.mem_map_of_mem (f := (·.id)) hm')
        simp [this, hne]
      rw [h1, h2]; simp
    · have hne : m.id ≠ n.id := fun eq => hnd.1 (eq ▸ List.mem_map_of_mem (f := (·.id)) e)
      have h1 : (implicitOfNode g m).filter (fun e => e.2 == n.id) = [] := by
        apply List.filter_eq_nil_iff.mpr
        intro a ha
        simp [implicitOfNode_snd g m a ha, hne]
      rw [h1, ih hnd.2 e]; simp

theorem natGet_some_mem' {β} {m : List (Nat × β)} {k : Nat} {v : β} (h : natGet m k = some v) : (k, v) ∈ m := by
  induction m with
  | nil => simp [natGet_nil] at h
  | cons e m ih =>
    rw [natGet_cons] at h
    by_cases he : e.1 = k
    · simp only [he, ↓reduceIte, Option.some.injEq] at h
      obtain ⟨a, b⟩ := e
      simp only at he h
      subst he h
      simp
    · simp only [he, ↓reduceIte] at h
      exact List.mem_cons_of_mem _ (ih h)

/-! ### `fillImplicit` -/

def implicitList (m : List (Nat × List (Str × Kind × Nat))) (n : Nat) : List (Str × Kind × Nat) :=
  (natGet m n).getD []

theorem implicitList_push (m : List (Nat × List (Str × Kind × Nat))) (node : Nat) (a : Str × Kind × Nat) (n : Nat) :
    implicitList (pushImplicit m node a) n = if node = n then implicitList m n ++ [a] else implicitList m n := by
  induction m with
  | nil =>
    simp only [pushImplicit, implicitList, natGet_cons, natGet_nil]
    by_cases h : node = n <;> simp [h]
  | cons e m ih =>
    obtain ⟨k, l⟩ := e
    simp only [pushImplicit]
    by_cases hk : k = node
    · subst hk
      simp only [beq_self_eq_true, ↓reduceIte, implicitList, natGet_cons]
      by_cases h : k = n <;> simp [h]
    · have hb : (k == node) = false := by simpa using hk
      simp only [hb, Bool.false_eq_true, ↓reduceIte]
      simp only [implicitList, natGet_cons] at ih ⊢
      by_cases h : k = n
      · subst h
        have : ¬ node = k := fun e => hk e.symm
        simp [this]
      · simp only [h, ↓reduceIte]
        exact ih

/-- the arguments recorded for the implicit imports `L` of one node -/
def ImpRel (w : WState) (agg : Agg) (enc : List (Str × (Kind × Nat))) :
    List (Str × Kind × Nat) → List (Str × Nat) → Prop
  | [], [] => True
  | a :: as, e :: es =>
    (a.1 = e.1 ∧ amGet enc (agg.canonical e.1) = some (a.2.1, a.2.2)) ∧ ImpRel w agg enc as es
  | _, _ => False

theorem ImpRel.append {w : WState} {agg : Agg} {enc} {A A' : List (Str × Kind × Nat)} {E E' : List (Str × Nat)}
    (h : ImpRel w agg enc A E) (h' : ImpRel w agg enc A' E') : ImpRel w agg enc (A ++ A') (E ++ E') := by
  induction A generalizing E with
  | nil => cases E <;> simp_all [ImpRel]
  | cons a A ih =>
    cases E with
    | nil => simp [ImpRel] at h
    | cons e E =>
      simp only [ImpRel, List.cons_append] at h ⊢
      exact ⟨h.1, ih h.2⟩

theorem fillImplicit_spec {agg : Agg} {enc : List (Str × (Kind × Nat))} (L : List (Str × Nat)) {st st' : EncSt}
    (he : fillImplicit agg enc L st = .ok st') (w : WState) :
    G st' = G st ∧ st'.nodeIdx = st.nodeIdx ∧ st'.pkgs = st.pkgs ∧ st'.cnt = st.cnt ∧ st'.items = st.items ∧
    ∀ n, ∃ A, implicitList st'.implicit n = implicitList st.implicit n ++ A ∧
      ImpRel w agg enc A (L.filter fun e => e.2 == n) := by
  induction L generalizing st with
  | nil =>
    simp only [fillImplicit] at he
    injection he with he
    subst he
    exact ⟨rfl, rfl, rfl, rfl, rfl, fun n => ⟨[], by simp, by simp [ImpRel]⟩⟩
  | cons e L ih =>
    obtain ⟨name, node⟩ := e
    simp only [fillImplicit] at he
    cases hq : amGet enc (agg.canonical name) with
    | none => simp [hq] at he
    | some ki =>
      obtain ⟨k, idx⟩ := ki
      simp only [hq] at he
      obtain ⟨h1, h2, h3, h4, h5, h6⟩ := ih he
      refine ⟨h1, h2, h3, h4, h5, ?_⟩
      intro n
      obtain ⟨A, hA, hR⟩ := h6 n
      simp only [implicitList_push] at hA
      by_cases hn : node = n
      · subst hn
        simp only [↓reduceIte, List.append_assoc] at hA
        refine ⟨(name, k, idx) :: A, by simpa using hA, ?_⟩
        rw [List.filter_cons]
        simp only [beq_self_eq_true, ↓reduceIte]
        show (name = name ∧ amGet enc (agg.canonical name) = some (k, idx)) ∧ ImpRel w agg enc A _
        exact ⟨⟨rfl, hq⟩, hR⟩
      · simp only [hn, ↓reduceIte] at hA
        refine ⟨A, hA, ?_⟩
        have : ((node == n) = false) := by simpa using hn
        simpa [List.filter_cons, this] using hR

theorem fillExplicit_spec {agg : Agg} {enc : List (Str × (Kind × Nat))} (L : List (Str × Nat)) {st st' : EncSt}
    (he : fillExplicit agg enc L st = .ok st') :
    G st' = G st ∧ st'.implicit = st.implicit ∧ st'.pkgs = st.pkgs ∧ st'.cnt = st.cnt ∧ st'.items = st.items ∧
    ∃ X : List (Nat × Nat), st'.nodeIdx = st.nodeIdx ++ X ∧ X.map (·.1) = L.map (·.2) ∧
      ∀ n idx, (n, idx) ∈ X → ∃ name k, (name, n) ∈ L ∧ amGet enc (agg.canonical name) = some (k, idx) := by
  induction L generalizing st with
  | nil =>
    simp only [fillExplicit] at he
    injection he with he
    subst he
    exact ⟨rfl, rfl, rfl, rfl, rfl, [], by simp, rfl, by simp⟩
  | cons e L ih =>
    obtain ⟨name, node⟩ := e
    simp only [fillExplicit] at he
    cases hq : amGet enc (agg.canonical name) with
    | none => simp [hq] at he
    | some ki =>
      obtain ⟨k, idx⟩ := ki
      simp only [hq] at he
      obtain ⟨h1, h2, h3, h4, h5, X, hX, hXm, hXp⟩ := ih he
      refine ⟨h1, h2, h3, h4, h5, (node, idx) :: X, by simpa using hX, by simp [hXm], ?_⟩
      intro n i hm
      rcases List.mem_cons.mp hm with e1 | e1
      · injection e1 with e1 e2
        subst e1 e2
        exact ⟨name, k, by simp, hq⟩
      · obtain ⟨nm, k', hm', hq'⟩ := hXp n i e1
        exact ⟨nm, k', by simp [hm'], hq'⟩

/-- the explicit imports `resolveExplicit` records: `(name, node)` for every import node of the list -/
theorem resolveExplicit_spec {g : GraphVal} {first : List (Str × Nat)} (ns : List Nat) {a a' : Agg} {ex ex' : List (Str × Nat)}
    (h : resolveExplicit g first ns a ex = .ok (a', ex')) :
    ∃ X, ex' = ex ++ X ∧ (∀ name n, (name, n) ∈ X → ∃ nd, g.node? n = some nd ∧ nd.kind = .import name) ∧
      (∀ n ∈ ns, isImportNode g n = true → n ∈ X.map (·.2)) := by
  induction ns generalizing a ex with
  | nil =>
    simp only [resolveExplicit] at h
    injection h with h
    injection h with h1 h2
    subst h2
    exact ⟨[], by simp, by simp, by simp⟩
  | cons n ns ih =>
    simp only [resolveExplicit] at h
    cases hn : g.node? n with
    | none => simp [hn] at h
    | some nd =>
      simp only [hn] at h
      cases hk : nd.kind with
      | «import» name =>
        simp only [hk] at h
        cases hagg : a.aggregate name nd.ty with
        | none => simp [hagg] at h
        | some a1 =>
          simp only [hagg] at h
          obtain ⟨X, hX, hp, hc⟩ := ih h
          refine ⟨(name, n) :: X, by simp [hX], ?_, ?_⟩
          · intro nm m hm
            rcases List.mem_cons.mp hm with e | e
            · injection e with e1 e2
              subst e1 e2
              exact ⟨nd, hn, hk⟩
            · exact hp nm m e
          · intro m hm hi
            rcases List.mem_cons.mp hm with e | e
            · subst e; simp
            · simp [hc m e hi]
      | instantiation slot sat =>
        simp only [hk] at h
        obtain ⟨X, hX, hp, hc⟩ := ih h
        refine ⟨X, hX, hp, ?_⟩
        intro m hm hi
        rcases List.mem_cons.mp hm with e | e
        · subst e; simp [isImportNode, hn, Node.isImport, hk] at hi
        · exact hc m e hi
      | alias =>
        simp only [hk] at h
        obtain ⟨X, hX, hp, hc⟩ := ih h
        refine ⟨X, hX, hp, ?_⟩
        intro m hm hi
        rcases List.mem_cons.mp hm with e | e
        · subst e; simp [isImportNode, hn, Node.isImport, hk] at hi
        · exact hc m e hi
      | definition =>
        simp only [hk] at h
        obtain ⟨X, hX, hp, hc⟩ := ih h
        refine ⟨X, hX, hp, ?_⟩
        intro m hm hi
        rcases List.mem_cons.mp hm with e | e
        · subst e; simp [isImportNode, hn, Node.isImport, hk] at hi
        · exact hc m e hi

/-! ### the initial invariant -/

theorem importTerm1_fst {cn : Str → Str} {n : Node} {b : Nat × Term} (h : importTerm1 cn n = some b) : b.1 = n.id := by
  unfold importTerm1 at h
  split at h
  · injection h with h; rw [← h]
  · simp at h

theorem natGet_importTerms_aux (cn : Str → Str) (l : List Node) (hnd : (l.map (·.id)).Nodup) {nd : Node}
    (hmem : nd ∈ l) {name : Str} (hk : nd.kind = .import name) :
    natGet (l.filterMap (importTerm1 cn)) nd.id = some (.imp (cn name)) := by
  induction l with
  | nil => simp at hmem
  | cons m ms ih =>
    simp only [List.map_cons, List.nodup_cons] at hnd
    rcases List.mem_cons.mp hmem with e | e
    · subst e
      have : importTerm1 cn nd = some (nd.id, .imp (cn name)) := by simp [importTerm1, hk]
      rw [List.filterMap_cons, this, natGet_cons]
      simp
    · have hne : m.id ≠ nd.id := fun eq => hnd.1 (by rw [eq]; exact List.mem_map_of_mem (f := (·.id)) e)
      rw [List.filterMap_cons]
      cases hb : importTerm1 cn m with
      | none => exact ih hnd.2 e
      | some b =>
        simp only
        rw [natGet_cons, importTerm1_fst hb]
        simp [hne, ih hnd.2 e]

theorem natGet_importTerms {g : GraphVal} (cn : Str → Str) (hnd : g.ids.Nodup) {n : Nat} {nd : Node} {name : Str}
    (hn : g.node? n = some nd) (hk : nd.kind = .import name) :
    natGet (importTerms g cn) n = some (.imp (cn name)) := by
  obtain ⟨hmem, hid⟩ := node?_mem hn
  rw [← hid]
  exact natGet_importTerms_aux cn g.nodes hnd hmem hk

theorem natGet_importTerms_some {g : GraphVal} (cn : Str → Str) {n : Nat} {t : Term}
    (h : natGet (importTerms g cn) n = some t) : ∃ nd ∈ g.nodes, nd.id = n ∧ nd.isImport = true := by
  have := natGet_some_mem h
  simp only [importTerms, List.map_filterMap, List.mem_filterMap] at this
  obtain ⟨nd, hnd, hq⟩ := this
  cases hb : importTerm1 cn nd with
  | none => simp [hb] at hq
  | some b =>
    simp only [hb, Option.map_some, Option.some.injEq] at hq
    refine ⟨nd, hnd, by rw [← hq, importTerm1_fst hb], ?_⟩
    unfold importTerm1 at hb
    split at hb
    · rename_i nm hk; simp [Node.isImport, hk]
    · simp at hb

theorem implRel_to_ok {agg : Agg} {enc : List (Str × (Kind × Nat))} {w : WState} {id : Nat}
    (hkeys : (agg.imports.map (·.1)).Nodup)
    (henc : ∀ nm k idx, amGet enc nm = some (k, idx) → Has w k idx (.imp nm) ∧ ∃ ty, (nm, ty) ∈ agg.imports ∧ k = ty.kind)
    (A : List (Str × Kind × Nat)) (R : List ImportReq)
    (hkind : ∀ r ∈ R, aggKind agg r.name = some r.ty.kind)
    (h : ImpRel w agg enc A (R.map fun r => (r.name, id))) :
    ImplicitOk w agg.canonical A R := by
  induction A generalizing R with
  | nil => cases R <;> simp_all [ImpRel, ImplicitOk]
  | cons a A ih =>
    cases R with
    | nil => simp [ImpRel] at h
    | cons r R =>
      simp only [List.map_cons, ImpRel] at h
      simp only [ImplicitOk]
      obtain ⟨⟨h1, h2⟩, h3⟩ := h
      obtain ⟨hH, ty, hm, hk⟩ := henc _ _ _ h2
      have hak : aggKind agg r.name = some a.2.1 := by
        simp [aggKind, amGet_of_mem_nodup hkeys hm, hk]
      have hr := hkind r (List.mem_cons_self ..)
      rw [hak] at hr
      injection hr with hr
      refine ⟨⟨h1, hr, hH⟩, ih R (fun r' hr' => hkind r' (List.mem_cons_of_mem _ hr')) h3⟩

theorem sync_init : Sync ({} : EncSt) := fun _ => rfl

theorem encodeImports_inv {g : GraphVal} {o : Opts} (wf : WF g) (importNodes : List Nat)
    (hcomplete : ∀ nd ∈ g.nodes, nd.isImport = true → nd.id ∈ importNodes)
    {agg : Agg} (hagg : aggOf g importNodes = some agg) (hok : AggOk g agg)
    {st1 : EncSt} (he : encodeImports g importNodes {} = .ok st1) :
    NodeInv g agg.canonical o st1 { terms := importTerms g agg.canonical } := by
  unfold encodeImports at he
  unfold aggOf at hagg
  cases hr : resolveInsts g g.nodes {} with
  | error e => simp [hr] at he
  | panic s => simp [hr] at he
  | ok r =>
    simp only [hr] at he hagg
    cases hx : resolveExplicit g r.first importNodes r.agg [] with
    | error e => simp [hx] at he
    | panic s => simp [hx] at he
    | ok ae =>
      obtain ⟨agg', explicit⟩ := ae
      simp only [hx, Option.some.injEq] at he hagg
      subst hagg
      -- the import loop
      let fixed := agg'.imports.map fun e => (e.1, agg'.fix e.2)
      let l := (fixed.filter fun e => e.2.kind = .instance) ++ (fixed.filter fun e => ¬ (e.2.kind = .instance))
      have hlsub : ∀ e ∈ l, ∃ e0 ∈ agg'.imports, e = (e0.1, agg'.fix e0.2) := by
        intro e he'
        have : e ∈ fixed := by
          rcases List.mem_append.mp he' with h1 | h1 <;> exact (List.mem_filter.mp h1).1
        obtain ⟨e0, he0, rfl⟩ := List.mem_map.mp this
        exact ⟨e0, he0, rfl⟩
      have hmemiff : ∀ e, e ∈ l ↔ e ∈ fixedImports agg' := by
        intro e
        show e ∈ (fixed.filter fun e => e.2.kind = .instance) ++ (fixed.filter fun e => ¬ (e.2.kind = .instance)) ↔ e ∈ fixed
        simp only [List.mem_append, List.mem_filter, decide_eq_true_eq, decide_not, Bool.not_eq_eq_eq_not,
          Bool.not_true, decide_eq_false_iff_not]
        constructor
        · rintro (h | h) <;> exact h.1
        · intro h
          by_cases hk : e.2.kind = .instance
          · exact Or.inl ⟨h, hk⟩
          · exact Or.inr ⟨h, hk⟩
      have hpriv : ∀ i, privIn (fixedImports agg') i → privIn l i := by
        intro i ⟨h1, h2⟩
        constructor
        · intro hm
          obtain ⟨e, he', heq⟩ := List.mem_map.mp hm
          exact h1 (List.mem_map.mpr ⟨e, (hmemiff e).mp he', heq⟩)
        · intro hm
          simp only [allDepsOf, List.mem_flatMap] at hm h2
          obtain ⟨e, he', hd⟩ := hm
          exact h2 ⟨e, (hmemiff e).mp he', hd⟩
      have hndl : (l.map (·.1)).Nodup := by
        have hfix : (fixed.map (·.1)).Nodup := by
          have : fixed.map (·.1) = agg'.imports.map (·.1) := by simp [fixed, List.map_map, Function.comp_def]
          rw [this]; exact hok.keysNodup
        have hperm : (l.map (·.1)).Perm (fixed.map (·.1)) := by
          apply List.Perm.map
          show ((fixed.filter fun e => decide (e.2.kind = .instance)) ++
            (fixed.filter fun e => decide (¬ (e.2.kind = .instance)))).Perm fixed
          have := List.filter_append_perm (fun e : Str × ItemTy => decide (e.2.kind = .instance)) fixed
          simpa [decide_not] using this
        exact hperm.nodup_iff.mpr hfix
      have hA := importAll_ok2 l hndl
        (fun e he' hk => by
          rcases hok.ifaceNamed e ((hmemiff e).mp he') hk with h | h | ⟨i, h1, h2 | ⟨h2, h3⟩⟩
          · exact Or.inl h
          · exact Or.inr (Or.inl h)
          · exact Or.inr (Or.inr ⟨i, h1, Or.inl h2⟩)
          · exact Or.inr (Or.inr ⟨i, h1, Or.inr ⟨hpriv i h2, fun e' he2 => h3 e' ((hmemiff e').mp he2)⟩⟩))
        l (st := {}) (enc := []) [] (by simp) sync_init
        (fun _ _ h => by simp [amGet] at h) (fun _ h => by simp [amGet] at h)
        (fun _ _ _ h => by simp [amGet] at h)
      generalize hgen : importAll id l {} [] = res at he hA
      obtain ⟨stA, enc⟩ := res
      obtain ⟨fA, hencA⟩ := hA
      simp only [List.nil_append] at hencA
      cases hfi : fillImplicit agg' enc r.implicit stA with
      | error e => simp [l, fixed, hgen, hfi] at he
      | panic s => simp [l, fixed, hgen, hfi] at he
      | ok stB =>
        simp only [l, fixed, hgen, hfi] at he
        obtain ⟨hGB, hniB, hpkB, hcntB, hitB, himpB⟩ := fillImplicit_spec r.implicit hfi (G stA)
        obtain ⟨hG1, himp1, hpk1, hcnt1, hit1, X, hX, hXm, hXp⟩ := fillExplicit_spec explicit he
        obtain ⟨X', hX', hXk, hXc⟩ := resolveExplicit_spec importNodes hx
        simp only [List.nil_append] at hX'
        subst hX'
        have hG : G st1 = G stA := hG1.trans hGB
        have henc : ∀ nm k idx, amGet enc nm = some (k, idx) →
            Has (G stA) k idx (.imp nm) ∧ ∃ ty, (nm, ty) ∈ agg'.imports ∧ k = ty.kind := by
          intro nm k idx hq
          obtain ⟨h1, ty, hm, hk⟩ := hencA nm k idx hq
          obtain ⟨e0, he0, heq⟩ := hlsub _ hm
          injection heq with e1 e2
          exact ⟨h1, e0.2, by rw [e1]; exact he0, by rw [hk, e2]; rfl⟩
        have hnidx : st1.nodeIdx = X := by
          rw [hX, hniB, fA.nodeIdx]; rfl
        have hrimp : r.implicit = g.nodes.flatMap (implicitOfNode g) := by
          have := resolveInsts_implicit g.nodes hr
          simpa using this
        refine
          { sync := ?_, nodes := ?_, dom := ?_, seen := ?_, pkgs := ?_, ncomp := fun _ => rfl,
            insts := by rw [hG, fA.insts]; rfl, aliases := by rw [hG, fA.aliases]; rfl,
            exports := by rw [hG, fA.exports]; rfl, comps := by rw [hG, fA.comps]; rfl,
            names := by rw [hG, fA.names]; rfl, snames := rfl, implicit := ?_ }
        · intro k
          have := fA.sync k
          rw [hG, hcnt1, hcntB]; exact this
        · intro n idx hq
          rw [hnidx] at hq
          have hmem : (n, idx) ∈ X := by
            have := natGet_some_mem' hq
            exact this
          obtain ⟨name, k, hmL, hqe⟩ := hXp n idx hmem
          obtain ⟨nd, hnd, hkd⟩ := hXk name n hmL
          obtain ⟨hH, ty, hmt, hk⟩ := henc _ _ _ hqe
          have hak : aggKind agg' name = some k := by
            simp [aggKind, amGet_of_mem_nodup hok.keysNodup hmt, hk]
          have := hok.explicitKind nd (node?_mem hnd).1 name hkd
          rw [hak] at this
          injection this with this
          rw [hG, kindOf_of_node? hnd, ← this, term_eq_natGet, natGet_importTerms _ wf.idsNodup hnd hkd]
          exact hH
        · intro n
          rw [hnidx]
          constructor
          · intro hq
            cases ht : natGet (importTerms g agg'.canonical) n with
            | none => rfl
            | some t =>
              exfalso
              obtain ⟨nd, hndm, hid, hisI⟩ := natGet_importTerms_some _ ht
              have h1 := hcomplete nd hndm hisI
              have h2 : isImportNode g nd.id = true := by
                simp [isImportNode, node?_of_mem wf.idsNodup hndm, hisI]
              have h3 := hXc nd.id h1 h2
              rw [← hXm, hid] at h3
              exact natGet_none_not_mem hq h3
          · intro ht
            cases hq : natGet X n with
            | none => rfl
            | some idx =>
              exfalso
              have hmem : (n, idx) ∈ X := natGet_some_mem' hq
              obtain ⟨name, k, hmL, _⟩ := hXp n idx hmem
              obtain ⟨nd, hnd, hkd⟩ := hXk name n hmL
              rw [natGet_importTerms _ wf.idsNodup hnd hkd] at ht
              simp at ht
        · rw [hpk1, hpkB, fA.pkgs]; rfl
        · intro slot c hc
          rw [hpk1, hpkB, fA.pkgs] at hc
          simp [natGet] at hc
        · intro n hn slot sat p hk hp _
          rw [himp1, hG]
          obtain ⟨A, hA, hR⟩ := himpB n.id
          have h0 : implicitList stA.implicit n.id = [] := by rw [fA.implicit]; rfl
          rw [h0, List.nil_append] at hA
          show ImplicitOk (G stA) agg'.canonical (implicitList stB.implicit n.id) (unsatisfiedByArgs n p)
          rw [hA]
          have hfil : (r.implicit.filter fun e => e.2 == n.id) = (unsatisfiedByArgs n p).map fun q => (q.name, n.id) := by
            rw [hrimp, filter_flatMap_implicit g g.nodes wf.idsNodup n hn]
            simp [implicitOfNode, hk, hp, wf.satOk n hn slot sat p hk hp]
          rw [hfil] at hR
          refine implRel_to_ok hok.keysNodup henc A _ ?_ hR
          intro q hq
          rw [← wf.satOk n hn slot sat p hk hp] at hq
          exact hok.implicitKind n hn slot sat p hk hp q hq

end Wac
