import WacProofs.Lemmas.PrinterParseWFTypes
/-
  C13, "every tree the parser model returns is well-formed": type declarations (resources with their
  methods, variants, records, flags, enums, aliases; `TypeDecl`, `ItemTypeDecl`).
-/
namespace Wac.Lemmas.PrinterWF
open Wac Wac.Ast Wac.Lex Wac.Parse

theorem parseConstructor_post (fuel : Nat) {st : PState} (hst : ToksOK st) :
    Post (parseConstructor fuel st) (fun c => c.wf = true) := by
  unfold parseConstructor
  pbind parseToken_post _ hst => kw st1 _ hst1
  pbind parseToken_post _ hst1 => _ st2 _ hst2
  pbind parseDelimited_post _ _ _ (fun _ h => parseNamedType_post fuel h) fuel hst2 => ps st3 hps hst3
  pbind parseToken_post _ hst3 => _ st4 _ hst4
  pbind parseToken_post _ hst4 => _ st5 _ hst5
  exact Post_ok (by simpa [Constructor.wf, List.all_eq_true] using hps) hst5

theorem parseMethod_post (fuel : Nat) {st : PState} (hst : ToksOK st) :
    Post (parseMethod fuel st) (fun m => m.wf = true) := by
  unfold parseMethod
  pbind parseIdent_post hst => id st1 hid hst1
  pbind parseToken_post _ hst1 => _ st2 _ hst2
  have hst2' : ToksOK (if peekIs st2 .StaticKeyword = true then st2.next.2 else st2) := by
    split
    · exact ToksOK_next hst2
    · exact hst2
  pbind parseFuncType_post fuel hst2' => ty st3 hty hst3
  pbind parseToken_post _ hst3 => _ st4 _ hst4
  exact Post_ok (by simp [Method.wf, hid, hty]) hst4

theorem parseResourceMethod_post (fuel : Nat) {st : PState} (hst : ToksOK st) :
    Post (parseResourceMethod fuel st) (fun m => m.wf = true) := by
  unfold parseResourceMethod
  split
  · pbind parseConstructor_post fuel hst => c st1 hc hst1
    exact Post_ok (by simpa [ResourceMethod.wf] using hc) hst1
  · pbind parseMethod_post fuel hst => m st1 hm hst1
    exact Post_ok (by simpa [ResourceMethod.wf] using hm) hst1
  · exact Post_error

theorem parseResourceDecl_post (fuel : Nat) {st : PState} (hst : ToksOK st) :
    Post (parseResourceDecl fuel st) (fun d => d.wf = true) := by
  unfold parseResourceDecl
  pbind parseToken_post _ hst => _ st1 _ hst1
  pbind parseIdent_post hst1 => id st2 hid hst2
  split
  · exact Post_ok (by simp [ResourceDecl.wf, hid]) (ToksOK_next hst2)
  · pbind parseToken_post _ hst2 => _ st3 _ hst3
    pbind parseDelimited_post _ _ _ (fun _ h => parseResourceMethod_post fuel h) fuel hst3 => ms st4 hms hst4
    pbind parseToken_post _ hst4 => _ st5 _ hst5
    exact Post_ok (by simpa [ResourceDecl.wf, hid, List.all_eq_true] using hms) hst5
  · exact Post_error

theorem parseVariantCase_post (fuel : Nat) {st : PState} (hst : ToksOK st) :
    Post (parseVariantCase fuel st) (fun c => c.wf = true) := by
  unfold parseVariantCase
  pbind parseIdent_post hst => id st1 hid hst1
  refine Post_bind (parseOptional_post _ hst1 (P := fun t : Ty => t.wf = true) ?_) ?_
  · intro sa hsa
    pbind parseType_post fuel hsa => ty sb hty hsb
    pbind parseToken_post _ hsb => _ sc _ hsc
    exact Post_ok hty hsc
  · intro ty st2 hty hst2
    refine Post_ok ?_ hst2
    cases ty with
    | none => simp [VariantCase.wf, hid]
    | some t => simp [VariantCase.wf, hid, hty t rfl]

theorem parseVariantDecl_post (fuel : Nat) {st : PState} (hst : ToksOK st) :
    Post (parseVariantDecl fuel st) (fun d => d.wf = true) := by
  unfold parseVariantDecl
  pbind parseToken_post _ hst => _ st1 _ hst1
  pbind parseIdent_post hst1 => id st2 hid hst2
  pbind parseToken_post _ hst2 => _ st3 _ hst3
  pbind parseDelimited_post _ _ _ (fun _ h => parseVariantCase_post fuel h) fuel hst3 => cs st4 hcs hst4
  pbind parseToken_post _ hst4 => _ st5 _ hst5
  split
  · exact Post_error
  · rename_i hne
    exact Post_ok (by simp [VariantDecl.wf, hid, List.all_eq_true, hne]; exact hcs) hst5

theorem parseField_post (fuel : Nat) {st : PState} (hst : ToksOK st) :
    Post (parseField fuel st) (fun f => f.wf = true) := by
  unfold parseField
  pbind parseNamedType_post fuel hst => n st1 hn hst1
  exact Post_ok (by simpa [Field.wf, NamedType.wf] using hn) hst1

theorem parseRecordDecl_post (fuel : Nat) {st : PState} (hst : ToksOK st) :
    Post (parseRecordDecl fuel st) (fun d => d.wf = true) := by
  unfold parseRecordDecl
  pbind parseToken_post _ hst => _ st1 _ hst1
  pbind parseIdent_post hst1 => id st2 hid hst2
  pbind parseToken_post _ hst2 => _ st3 _ hst3
  pbind parseDelimited_post _ _ _ (fun _ h => parseField_post fuel h) fuel hst3 => cs st4 hcs hst4
  pbind parseToken_post _ hst4 => _ st5 _ hst5
  split
  · exact Post_error
  · rename_i hne
    exact Post_ok (by simp [RecordDecl.wf, hid, List.all_eq_true, hne]; exact hcs) hst5

theorem parseFlag_post {st : PState} (hst : ToksOK st) :
    Post (parseFlag st) (fun f => f.wf = true) := by
  unfold parseFlag
  pbind parseIdent_post hst => id st1 hid hst1
  exact Post_ok (by simpa [Flag.wf] using hid) hst1

theorem parseFlagsDecl_post (fuel : Nat) {st : PState} (hst : ToksOK st) :
    Post (parseFlagsDecl fuel st) (fun d => d.wf = true) := by
  unfold parseFlagsDecl
  pbind parseToken_post _ hst => _ st1 _ hst1
  pbind parseIdent_post hst1 => id st2 hid hst2
  pbind parseToken_post _ hst2 => _ st3 _ hst3
  pbind parseDelimited_post _ _ _ (fun _ h => parseFlag_post h) fuel hst3 => cs st4 hcs hst4
  pbind parseToken_post _ hst4 => _ st5 _ hst5
  split
  · exact Post_error
  · rename_i hne
    exact Post_ok (by simp [FlagsDecl.wf, hid, List.all_eq_true, hne]; exact hcs) hst5

theorem parseEnumCase_post {st : PState} (hst : ToksOK st) :
    Post (parseEnumCase st) (fun f => f.wf = true) := by
  unfold parseEnumCase
  pbind parseIdent_post hst => id st1 hid hst1
  exact Post_ok (by simpa [EnumCase.wf] using hid) hst1

theorem parseEnumDecl_post (fuel : Nat) {st : PState} (hst : ToksOK st) :
    Post (parseEnumDecl fuel st) (fun d => d.wf = true) := by
  unfold parseEnumDecl
  pbind parseToken_post _ hst => _ st1 _ hst1
  pbind parseIdent_post hst1 => id st2 hid hst2
  pbind parseToken_post _ hst2 => _ st3 _ hst3
  pbind parseDelimited_post _ _ _ (fun _ h => parseEnumCase_post h) fuel hst3 => cs st4 hcs hst4
  pbind parseToken_post _ hst4 => _ st5 _ hst5
  split
  · exact Post_error
  · rename_i hne
    exact Post_ok (by simp [EnumDecl.wf, hid, List.all_eq_true, hne]; exact hcs) hst5

theorem parseTypeAliasKind_post (fuel : Nat) {st : PState} (hst : ToksOK st) :
    Post (parseTypeAliasKind fuel st) (fun k => k.wf = true) := by
  unfold parseTypeAliasKind
  split
  · pbind parseFuncType_post fuel hst => f st1 hf hst1
    exact Post_ok (by simpa [TypeAliasKind.wf] using hf) hst1
  · split
    · pbind parseType_post fuel hst => t st1 ht hst1
      exact Post_ok (by simpa [TypeAliasKind.wf] using ht) hst1
    · exact Post_error

theorem parseTypeAlias_post (fuel : Nat) {st : PState} (hst : ToksOK st) :
    Post (parseTypeAlias fuel st) (fun a => a.wf = true) := by
  unfold parseTypeAlias
  pbind parseToken_post _ hst => _ st1 _ hst1
  pbind parseIdent_post hst1 => id st2 hid hst2
  pbind parseToken_post _ hst2 => _ st3 _ hst3
  pbind parseTypeAliasKind_post fuel hst3 => k st4 hk hst4
  pbind parseToken_post _ hst4 => _ st5 _ hst5
  exact Post_ok (by simp [TypeAlias.wf, hid, hk]) hst5

theorem parseTypeDecl_post (fuel : Nat) {st : PState} (hst : ToksOK st) :
    Post (parseTypeDecl fuel st) (fun d => d.wf = true) := by
  unfold parseTypeDecl
  split
  · pbind parseVariantDecl_post fuel hst => d st1 hd hst1
    exact Post_ok (by simpa [TypeDecl.wf] using hd) hst1
  · pbind parseRecordDecl_post fuel hst => d st1 hd hst1
    exact Post_ok (by simpa [TypeDecl.wf] using hd) hst1
  · pbind parseFlagsDecl_post fuel hst => d st1 hd hst1
    exact Post_ok (by simpa [TypeDecl.wf] using hd) hst1
  · pbind parseEnumDecl_post fuel hst => d st1 hd hst1
    exact Post_ok (by simpa [TypeDecl.wf] using hd) hst1
  · pbind parseTypeAlias_post fuel hst => d st1 hd hst1
    exact Post_ok (by simpa [TypeDecl.wf] using hd) hst1
  · exact Post_error

theorem parseItemTypeDecl_post (fuel : Nat) {st : PState} (hst : ToksOK st) :
    Post (parseItemTypeDecl fuel st) (fun d => d.wf = true) := by
  unfold parseItemTypeDecl
  split
  · pbind parseResourceDecl_post fuel hst => d st1 hd hst1
    exact Post_ok (by simpa [ItemTypeDecl.wf] using hd) hst1
  · pbind parseVariantDecl_post fuel hst => d st1 hd hst1
    exact Post_ok (by simpa [ItemTypeDecl.wf] using hd) hst1
  · pbind parseRecordDecl_post fuel hst => d st1 hd hst1
    exact Post_ok (by simpa [ItemTypeDecl.wf] using hd) hst1
  · pbind parseFlagsDecl_post fuel hst => d st1 hd hst1
    exact Post_ok (by simpa [ItemTypeDecl.wf] using hd) hst1
  · pbind parseEnumDecl_post fuel hst => d st1 hd hst1
    exact Post_ok (by simpa [ItemTypeDecl.wf] using hd) hst1
  · pbind parseTypeAlias_post fuel hst => d st1 hd hst1
    exact Post_ok (by simpa [ItemTypeDecl.wf] using hd) hst1
  · exact Post_error

end Wac.Lemmas.PrinterWF
