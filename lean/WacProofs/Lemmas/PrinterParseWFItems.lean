import WacProofs.Lemmas.PrinterParseWFDecls
/-
  C13, "every tree the parser model returns is well-formed": `use`, interface items and
  declarations, extern types, world items and declarations, type statements, import statements.
-/
namespace Wac.Lemmas.PrinterWF
open Wac Wac.Ast Wac.Lex Wac.Parse

theorem parseUsePath_post {st : PState} (hst : ToksOK st) :
    Post (parseUsePath st) (fun p => p.wf = true) := by
  unfold parseUsePath
  split
  · pbind parsePackagePath_post hst => p st1 hp hst1
    exact Post_ok (by simpa [UsePath.wf] using hp) hst1
  · pbind parseIdent_post hst => id st1 hid hst1
    exact Post_ok (by simpa [UsePath.wf] using hid) hst1
  · exact Post_error

theorem parseUseItem_post {st : PState} (hst : ToksOK st) :
    Post (parseUseItem st) (fun u => u.wf = true) := by
  unfold parseUseItem
  pbind parseIdent_post hst => id st1 hid hst1
  pbind parseOptional_post _ hst1 (fun _ h => parseIdent_post h) => a st2 ha hst2
  refine Post_ok ?_ hst2
  cases a with
  | none => simp [UseItem.wf, hid]
  | some x => simp [UseItem.wf, hid, ha x rfl]

theorem parseUse_post (fuel : Nat) {st : PState} (hst : ToksOK st) :
    Post (parseUse fuel st) (fun u => u.wf = true) := by
  unfold parseUse
  pbind parseToken_post _ hst => _ st1 _ hst1
  pbind parseUsePath_post hst1 => p st2 hp hst2
  pbind parseToken_post _ hst2 => _ st3 _ hst3
  pbind parseToken_post _ hst3 => _ st4 _ hst4
  pbind parseDelimited_post _ _ _ (fun _ h => parseUseItem_post h) fuel hst4 => is st5 his hst5
  pbind parseToken_post _ hst5 => _ st6 _ hst6
  pbind parseToken_post _ hst6 => _ st7 _ hst7
  exact Post_ok (by simpa [Use.wf, hp, List.all_eq_true] using his) hst7

theorem parseInterfaceExport_post (fuel : Nat) {st : PState} (hst : ToksOK st) :
    Post (parseInterfaceExport fuel st) (fun e => e.wf = true) := by
  unfold parseInterfaceExport
  pbind parseIdent_post hst => id st1 hid hst1
  pbind parseToken_post _ hst1 => _ st2 _ hst2
  pbind parseFuncTypeRef_post fuel hst2 => ty st3 hty hst3
  pbind parseToken_post _ hst3 => _ st4 _ hst4
  exact Post_ok (by simp [InterfaceExport.wf, hid, hty]) hst4

theorem parseInterfaceItem_post (fuel : Nat) {st : PState} (hst : ToksOK st) :
    Post (parseInterfaceItem fuel st) (fun i => i.wf = true) := by
  unfold parseInterfaceItem
  split
  · pbind parseUse_post fuel hst => u st1 hu hst1
    exact Post_ok (by simpa [InterfaceItem.wf] using hu) hst1
  · split
    · pbind parseInterfaceExport_post fuel hst => e st1 he hst1
      exact Post_ok (by simpa [InterfaceItem.wf] using he) hst1
    · split
      · pbind parseItemTypeDecl_post fuel hst => d st1 hd hst1
        exact Post_ok (by simpa [InterfaceItem.wf] using hd) hst1
      · exact Post_error

theorem parseInterfaceDecl_post (fuel : Nat) {st : PState} (hst : ToksOK st) :
    Post (parseInterfaceDecl fuel st) (fun d => d.wf = true) := by
  unfold parseInterfaceDecl
  pbind parseToken_post _ hst => _ st1 _ hst1
  pbind parseIdent_post hst1 => id st2 hid hst2
  pbind parseToken_post _ hst2 => _ st3 _ hst3
  pbind parseDelimited_post _ _ _ (fun _ h => parseInterfaceItem_post fuel h) fuel hst3 => is st4 his hst4
  pbind parseToken_post _ hst4 => _ st5 _ hst5
  exact Post_ok (by simpa [InterfaceDecl.wf, hid, List.all_eq_true] using his) hst5

theorem parseInlineInterface_post (fuel : Nat) {st : PState} (hst : ToksOK st) :
    Post (parseInlineInterface fuel st) (fun i => i.wf = true) := by
  unfold parseInlineInterface
  pbind parseToken_post _ hst => _ st1 _ hst1
  pbind parseToken_post _ hst1 => _ st2 _ hst2
  pbind parseDelimited_post _ _ _ (fun _ h => parseInterfaceItem_post fuel h) fuel hst2 => is st3 his hst3
  pbind parseToken_post _ hst3 => _ st4 _ hst4
  exact Post_ok (by simpa [InlineInterface.wf, List.all_eq_true] using his) hst4

theorem parseExternType_post (fuel : Nat) {st : PState} (hst : ToksOK st) :
    Post (parseExternType fuel st) (fun t => t.wf = true) := by
  unfold parseExternType
  split
  · pbind parseIdent_post hst => id st1 hid hst1
    exact Post_ok (by simpa [ExternType.wf] using hid) hst1
  · pbind parseFuncType_post fuel hst => f st1 hf hst1
    exact Post_ok (by simpa [ExternType.wf] using hf) hst1
  · pbind parseInlineInterface_post fuel hst => i st1 hi hst1
    exact Post_ok (by simpa [ExternType.wf] using hi) hst1
  · exact Post_error

theorem parseNamedWorldItem_post (fuel : Nat) {st : PState} (hst : ToksOK st) :
    Post (parseNamedWorldItem fuel st) (fun n => n.wf = true) := by
  unfold parseNamedWorldItem
  pbind parseIdent_post hst => id st1 hid hst1
  pbind parseToken_post _ hst1 => _ st2 _ hst2
  pbind parseExternType_post fuel hst2 => ty st3 hty hst3
  exact Post_ok (by simp [NamedWorldItem.wf, hid, hty]) hst3

theorem parseWorldItemPath_post (fuel : Nat) {st : PState} (hst : ToksOK st) :
    Post (parseWorldItemPath fuel st) (fun p => p.wf = true) := by
  unfold parseWorldItemPath
  split
  · pbind parsePackagePath_post hst => p st1 hp hst1
    exact Post_ok (by simpa [WorldItemPath.wf] using hp) hst1
  · split
    · pbind parseNamedWorldItem_post fuel hst => n st1 hn hst1
      exact Post_ok (by simpa [WorldItemPath.wf] using hn) hst1
    · pbind parseIdent_post hst => id st1 hid hst1
      exact Post_ok (by simpa [WorldItemPath.wf] using hid) hst1
  · exact Post_error

theorem parseWorldImport_post (fuel : Nat) {st : PState} (hst : ToksOK st) :
    Post (parseWorldImport fuel st) (fun i => i.path.wf = true) := by
  unfold parseWorldImport
  pbind parseToken_post _ hst => _ st1 _ hst1
  pbind parseWorldItemPath_post fuel hst1 => p st2 hp hst2
  pbind parseToken_post _ hst2 => _ st3 _ hst3
  exact Post_ok hp hst3

theorem parseWorldExport_post (fuel : Nat) {st : PState} (hst : ToksOK st) :
    Post (parseWorldExport fuel st) (fun i => i.path.wf = true) := by
  unfold parseWorldExport
  pbind parseToken_post _ hst => _ st1 _ hst1
  pbind parseWorldItemPath_post fuel hst1 => p st2 hp hst2
  pbind parseToken_post _ hst2 => _ st3 _ hst3
  exact Post_ok hp hst3

theorem parseWorldRef_post {st : PState} (hst : ToksOK st) :
    Post (parseWorldRef st) (fun r => r.wf = true) := by
  unfold parseWorldRef
  split
  · pbind parsePackagePath_post hst => p st1 hp hst1
    exact Post_ok (by simpa [WorldRef.wf] using hp) hst1
  · pbind parseIdent_post hst => id st1 hid hst1
    exact Post_ok (by simpa [WorldRef.wf] using hid) hst1
  · exact Post_error

theorem parseWorldIncludeItem_post {st : PState} (hst : ToksOK st) :
    Post (parseWorldIncludeItem st) (fun i => i.wf = true) := by
  unfold parseWorldIncludeItem
  pbind parseIdent_post hst => a st1 ha hst1
  pbind parseToken_post _ hst1 => _ st2 _ hst2
  pbind parseIdent_post hst2 => b st3 hb hst3
  exact Post_ok (by simp [WorldIncludeItem.wf, ha, hb]) hst3

theorem parseWorldInclude_post (fuel : Nat) {st : PState} (hst : ToksOK st) :
    Post (parseWorldInclude fuel st) (fun i => i.wf = true) := by
  unfold parseWorldInclude
  pbind parseToken_post _ hst => _ st1 _ hst1
  pbind parseWorldRef_post hst1 => w st2 hw hst2
  refine Post_bind (parseOptional_post _ hst2
    (P := fun is : List WorldIncludeItem => ∀ i ∈ is, i.wf = true) ?_) ?_
  · intro sa hsa
    pbind parseToken_post _ hsa => _ sb _ hsb
    pbind parseDelimited_post _ _ _ (fun _ h => parseWorldIncludeItem_post h) fuel hsb => is sc his hsc
    pbind parseToken_post _ hsc => _ sd _ hsd
    exact Post_ok his hsd
  · intro o st3 ho hst3
    dsimp only
    pbind parseToken_post _ hst3 => _ st4 _ hst4
    refine Post_ok ?_ hst4
    cases o with
    | none => simp [WorldInclude.wf, hw]
    | some is => simpa [WorldInclude.wf, hw, List.all_eq_true] using ho is rfl

theorem parseWorldItem_post (fuel : Nat) {st : PState} (hst : ToksOK st) :
    Post (parseWorldItem fuel st) (fun i => i.wf = true) := by
  unfold parseWorldItem
  split
  · pbind parseUse_post fuel hst => u st1 hu hst1
    exact Post_ok (by simpa [WorldItem.wf] using hu) hst1
  · split
    · pbind parseWorldImport_post fuel hst => i st1 hi hst1
      exact Post_ok (by simpa [WorldItem.wf] using hi) hst1
    · split
      · pbind parseWorldExport_post fuel hst => e st1 he hst1
        exact Post_ok (by simpa [WorldItem.wf] using he) hst1
      · split
        · pbind parseWorldInclude_post fuel hst => i st1 hi hst1
          exact Post_ok (by simpa [WorldItem.wf] using hi) hst1
        · split
          · pbind parseItemTypeDecl_post fuel hst => d st1 hd hst1
            exact Post_ok (by simpa [WorldItem.wf] using hd) hst1
          · exact Post_error

theorem parseWorldDecl_post (fuel : Nat) {st : PState} (hst : ToksOK st) :
    Post (parseWorldDecl fuel st) (fun d => d.wf = true) := by
  unfold parseWorldDecl
  pbind parseToken_post _ hst => _ st1 _ hst1
  pbind parseIdent_post hst1 => id st2 hid hst2
  pbind parseToken_post _ hst2 => _ st3 _ hst3
  pbind parseDelimited_post _ _ _ (fun _ h => parseWorldItem_post fuel h) fuel hst3 => is st4 his hst4
  pbind parseToken_post _ hst4 => _ st5 _ hst5
  exact Post_ok (by simpa [WorldDecl.wf, hid, List.all_eq_true] using his) hst5

theorem parseTypeStatement_post (fuel : Nat) {st : PState} (hst : ToksOK st) :
    Post (parseTypeStatement fuel st) (fun s => s.wf = true) := by
  unfold parseTypeStatement
  split
  · pbind parseInterfaceDecl_post fuel hst => d st1 hd hst1
    exact Post_ok (by simpa [TypeStatement.wf] using hd) hst1
  · split
    · pbind parseWorldDecl_post fuel hst => d st1 hd hst1
      exact Post_ok (by simpa [TypeStatement.wf] using hd) hst1
    · split
      · pbind parseTypeDecl_post fuel hst => d st1 hd hst1
        exact Post_ok (by simpa [TypeStatement.wf] using hd) hst1
      · exact Post_error

/-! ### imports -/

theorem parseImportType_post (fuel : Nat) {st : PState} (hst : ToksOK st) :
    Post (parseImportType fuel st) (fun t => t.wf = true) := by
  unfold parseImportType
  split
  · pbind parseFuncType_post fuel hst => f st1 hf hst1
    exact Post_ok (by simpa [ImportType.wf] using hf) hst1
  · pbind parseInlineInterface_post fuel hst => i st1 hi hst1
    exact Post_ok (by simpa [ImportType.wf] using hi) hst1
  · pbind parsePackagePath_post hst => p st1 hp hst1
    exact Post_ok (by simpa [ImportType.wf] using hp) hst1
  · pbind parseIdent_post hst => id st1 hid hst1
    exact Post_ok (by simpa [ImportType.wf] using hid) hst1
  · exact Post_error

end Wac.Lemmas.PrinterWF
