import WacModel.Spec.Interface
import WacProofs.Lemmas.EncScoped2
import WacProofs.Lemmas.Interface
/-
  Lemmas for the C03 name theorems: the specification's `canon` / `className`, the section
  reader's import and export lists as item lists, where the dependency interfaces of the
  aggregated imports come from, and which names resolve to one import.
-/
namespace Wac
open Wac.Spec

/-! ### the specification's names -/

theorem impliedReqs_names (g : GraphVal) : (impliedReqs g).map (·.name) = impliedNames g := by
  unfold impliedReqs impliedNames
  rw [List.map_append, List.map_flatMap, List.map_filterMap]
  congr 1
  · apply List.flatMap_congr
    intro n _
    unfold reqsOfNode
    cases n.kind with
    | instantiation slot sat =>
      simp only
      cases g.pkg? slot <;> rfl
    | «import» nm => rfl
    | «alias» => rfl
    | definition => rfl
  · apply List.filterMap_congr
    intro n _
    unfold reqOfImport
    cases n.kind <;> rfl

theorem className_eq_canon (g : GraphVal) (name : Str) : className (impliedReqs g) name = canon g name := by
  have h : (impliedReqs g).map (fun r => (r.name, ())) = (impliedNames g).map (fun n => (n, ())) := by
    rw [← impliedReqs_names, List.map_map]; rfl
  unfold className canon
  rw [h]
  cases trackOf name with
  | none => rfl
  | some t =>
    simp only
    cases highest (onTrack ((impliedNames g).map fun n => (n, ())) t) with
    | none => rfl
    | some hi => rfl

theorem mem_impliedReqs_name {g : GraphVal} {r : ImportReq} (h : r ∈ impliedReqs g) : r.name ∈ impliedNames g := by
  rw [← impliedReqs_names]; exact List.mem_map_of_mem (f := (·.name)) h

theorem compatSpec_iff (a b : Str) :
    compatSpec a b = true ↔ a = b ∨ ∃ t, trackOf a = some t ∧ trackOf b = some t := by
  unfold compatSpec
  simp only [Bool.or_eq_true, beq_iff_eq]
  constructor
  · rintro (h | h)
    · exact Or.inl h
    · right
      cases hta : trackOf a with
      | none => simp [hta] at h
      | some ta =>
        cases htb : trackOf b with
        | none => simp [hta, htb] at h
        | some tb =>
          simp only [hta, htb, beq_iff_eq] at h
          exact ⟨ta, rfl, by rw [h]⟩
  · rintro (h | ⟨t, h1, h2⟩)
    · exact Or.inl h
    · right; simp [h1, h2]

/-- what `canon` is, for an implied name: an implied name of the same class that no implied
    name of the class exceeds in version -/
theorem canon_spec {g : GraphVal} {name : Str} (hn : name ∈ impliedNames g) :
    canon g name ∈ impliedNames g ∧ compatSpec name (canon g name) = true ∧
      ∀ m ∈ impliedNames g, compatSpec m name = true → ∀ vm vc, versionOf m = some vm →
        versionOf (canon g name) = some vc → vc.lt vm = false := by
  unfold canon
  cases ht : trackOf name with
  | none =>
    simp only
    refine ⟨hn, by simp [compatSpec], ?_⟩
    intro m _ hc vm vc h1 h2
    rcases (compatSpec_iff m name).mp hc with e | ⟨t, _, h4⟩
    · subst e
      rw [h1] at h2; injection h2 with h2; subst h2
      rw [vlt_false_iff]
    · rw [ht] at h4; cases h4
  | some t =>
    simp only
    have hL : (name, ()) ∈ onTrack ((impliedNames g).map fun n => (n, ())) t := by
      simp only [onTrack, List.mem_filter, List.mem_map]
      exact ⟨⟨name, hn, rfl⟩, by simp [ht]⟩
    have hall : ∀ e ∈ onTrack ((impliedNames g).map fun n => (n, ())) t, ∃ v, versionOf e.1 = some v := by
      intro e he
      simp only [onTrack, List.mem_filter, beq_iff_eq] at he
      exact versionOf_of_track he.2
    have hs := highest_spec _ hall
    cases hh : highest (onTrack ((impliedNames g).map fun n => (n, ())) t) with
    | none =>
      rw [hh] at hs
      rw [hs] at hL; cases hL
    | some hi =>
      rw [hh] at hs
      obtain ⟨hmem, hmax⟩ := hs
      obtain ⟨hname, hu⟩ := hi
      simp only
      simp only [onTrack, List.mem_filter, List.mem_map, beq_iff_eq] at hmem
      obtain ⟨⟨x, hx, hxe⟩, hht⟩ := hmem
      injection hxe with hxe _
      subst hxe
      refine ⟨hx, (compatSpec_iff _ _).mpr (Or.inr ⟨t, ht, hht⟩), ?_⟩
      intro m hm hc vm vc h1 h2
      have hmt : trackOf m = some t := by
        rcases (compatSpec_iff m name).mp hc with e | ⟨t', h3, h4⟩
        · rw [e]; exact ht
        · rw [ht] at h4; injection h4 with h4; rw [h4]; exact h3
      have hmL : (m, ()) ∈ onTrack ((impliedNames g).map fun n => (n, ())) t := by
        simp only [onTrack, List.mem_filter, List.mem_map]
        exact ⟨⟨m, hm, rfl⟩, by simp [hmt]⟩
      have := hmax _ hmL vc vm h2 h1
      simpa using this

/-- names of one class have one canonical name -/
theorem canon_class {g : GraphVal} {a b : Str} (ha : a ∈ impliedNames g) (hc : compatSpec a b = true) :
    canon g a = canon g b := by
  rcases (compatSpec_iff a b).mp hc with e | ⟨t, h1, h2⟩
  · rw [e]
  · unfold canon
    rw [h1, h2]
    simp only
    have hL : (a, ()) ∈ onTrack ((impliedNames g).map fun n => (n, ())) t := by
      simp only [onTrack, List.mem_filter, List.mem_map]
      exact ⟨⟨a, ha, rfl⟩, by simp [h1]⟩
    cases hh : highest (onTrack ((impliedNames g).map fun n => (n, ())) t) with
    | none =>
      exfalso
      have hall : ∀ e ∈ onTrack ((impliedNames g).map fun n => (n, ())) t, ∃ v, versionOf e.1 = some v := by
        intro e he
        simp only [onTrack, List.mem_filter, beq_iff_eq] at he
        exact versionOf_of_track he.2
      have hs := highest_spec _ hall
      rw [hh] at hs
      rw [hs] at hL; cases hL
    | some hi => rfl

/-- `canon` only depends on the set of implied names -/
theorem canon_congr {g g' : GraphVal} (hset : ∀ x, x ∈ impliedNames g ↔ x ∈ impliedNames g') {name : Str}
    (hn : name ∈ impliedNames g) : canon g name = canon g' name := by
  obtain ⟨c1, c2, c3⟩ := canon_spec hn
  obtain ⟨d1, d2, d3⟩ := canon_spec ((hset name).mp hn)
  rcases (compatSpec_iff _ _).mp c2 with e | ⟨t, ht, hct⟩
  · -- `canon g name = name`: no track, or the name is its own highest
    rcases (compatSpec_iff _ _).mp d2 with e' | ⟨t', ht', hdt⟩
    · rw [← e, ← e']
    · -- both on track t'
      have hc : trackOf (canon g name) = some t' := by rw [← e]; exact ht'
      obtain ⟨vc, hvc⟩ := versionOf_of_track hc
      obtain ⟨vd, hvd⟩ := versionOf_of_track hdt
      have k1 := c3 _ ((hset _).mpr d1) ((compatSpec_iff _ _).mpr (Or.inr ⟨t', hdt, ht'⟩)) vd vc hvd hvc
      have k2 := d3 _ ((hset _).mp c1) ((compatSpec_iff _ _).mpr (Or.inr ⟨t', hc, ht'⟩)) vc vd hvc hvd
      have hkey : vc.key = vd.key := le_antisymm ((vlt_false_iff _ _).mp k2) ((vlt_false_iff _ _).mp k1)
      exact tieFree_always [(canon g name, ()), (canon g' name, ())] (canon g name, ()) (by simp)
        (canon g' name, ()) (by simp) t' hc hdt vc vd hvc hvd hkey
  · have hdt : trackOf (canon g' name) = some t := by
      rcases (compatSpec_iff _ _).mp d2 with e' | ⟨t', ht', hdt⟩
      · rw [← e']; exact ht
      · rw [ht] at ht'; injection ht' with ht'; rw [ht']; exact hdt
    obtain ⟨vc, hvc⟩ := versionOf_of_track hct
    obtain ⟨vd, hvd⟩ := versionOf_of_track hdt
    have k1 := c3 _ ((hset _).mpr d1) ((compatSpec_iff _ _).mpr (Or.inr ⟨t, hdt, ht⟩)) vd vc hvd hvc
    have k2 := d3 _ ((hset _).mp c1) ((compatSpec_iff _ _).mpr (Or.inr ⟨t, hct, ht⟩)) vc vd hvc hvd
    have hkey : vc.key = vd.key := le_antisymm ((vlt_false_iff _ _).mp k2) ((vlt_false_iff _ _).mp k1)
    exact tieFree_always [(canon g name, ()), (canon g' name, ())] (canon g name, ()) (by simp)
      (canon g' name, ()) (by simp) t hct hdt vc vd hvc hvd hkey

theorem mem_insertStr (x y : Str) (l : List Str) : y ∈ insertStr x l ↔ y = x ∨ y ∈ l := by
  induction l with
  | nil => simp [insertStr]
  | cons a l ih =>
    unfold insertStr
    by_cases h1 : x = a
    · subst h1
      simp only [↓reduceIte, List.mem_cons]
      constructor
      · intro h; exact Or.inr h
      · rintro (h | h)
        · exact Or.inl h
        · exact h
    · simp only [h1, ↓reduceIte]
      split
      · simp [List.mem_cons]
      · simp only [List.mem_cons, ih]
        constructor
        · rintro (h | h | h)
          · exact Or.inr (Or.inl h)
          · exact Or.inl h
          · exact Or.inr (Or.inr h)
        · rintro (h | h | h)
          · exact Or.inr (Or.inl h)
          · exact Or.inl h
          · exact Or.inr (Or.inr h)

theorem mem_strSet (y : Str) (l : List Str) : y ∈ strSet l ↔ y ∈ l := by
  unfold strSet
  induction l with
  | nil => simp
  | cons a l ih => simp only [List.foldr_cons, mem_insertStr, ih, List.mem_cons]

/-! ### the section reader's import / export lists are the import / export items -/

theorem wstep_imports (s : WState) (it : Item) :
    (wstep s it).w.imports = s.w.imports ++ (match it with | .import n k => [(n, k)] | _ => []) := by
  cases it with
  | «import» n k => simp [wstep, push_w]
  | typeDef => simp [wstep, push_w]
  | component b => simp [wstep, push_w]
  | instantiate c a => simp [wstep, push_w]
  | aliasExport i k n =>
    simp only [wstep]
    split <;> simp [push_w]
  | «export» n k i => simp [wstep, push_w]
  | names es => simp [wstep]

theorem foldl_wstep_imports (l : Skeleton) (s : WState) :
    (l.foldl wstep s).w.imports = s.w.imports ++ importItems l := by
  induction l generalizing s with
  | nil => simp [importItems]
  | cons it l ih =>
    rw [List.foldl_cons, ih, wstep_imports]
    unfold importItems
    cases it <;> simp

theorem wiring_imports (l : Skeleton) : (wiring l).imports = importItems l := by
  unfold wiring wiringSt
  rw [foldl_wstep_imports]; rfl

theorem wstep_exports (s : WState) (it : Item) :
    (wstep s it).w.exports.map (fun e => (e.1, e.2.1)) =
      s.w.exports.map (fun e => (e.1, e.2.1)) ++ (match it with | .export n k _ => [(n, k)] | _ => []) := by
  cases it with
  | «import» n k => simp [wstep, push_w]
  | typeDef => simp [wstep, push_w]
  | component b => simp [wstep, push_w]
  | instantiate c a => simp [wstep, push_w]
  | aliasExport i k n =>
    simp only [wstep]
    split <;> simp [push_w]
  | «export» n k i => simp [wstep, push_w]
  | names es => simp [wstep]

theorem foldl_wstep_exports (l : Skeleton) (s : WState) :
    (l.foldl wstep s).w.exports.map (fun e => (e.1, e.2.1)) =
      s.w.exports.map (fun e => (e.1, e.2.1)) ++ exportItems l := by
  induction l generalizing s with
  | nil => simp [exportItems]
  | cons it l ih =>
    rw [List.foldl_cons, ih, wstep_exports]
    unfold exportItems
    cases it <;> simp

theorem wiring_exports (l : Skeleton) : (wiring l).exports.map (fun e => (e.1, e.2.1)) = exportItems l := by
  unfold wiring wiringSt
  rw [foldl_wstep_exports]; rfl

theorem mem_importItems {l : Skeleton} {n : Str} {k : Kind} : (n, k) ∈ importItems l ↔ Item.import n k ∈ l := by
  unfold importItems
  simp only [List.mem_filterMap]
  constructor
  · rintro ⟨it, hit, h⟩
    cases it <;> simp at h
    obtain ⟨rfl, rfl⟩ := h
    exact hit
  · intro h
    exact ⟨_, h, rfl⟩

theorem mem_exportItems {l : Skeleton} {n : Str} {k : Kind} : (n, k) ∈ exportItems l ↔ ∃ i, Item.export n k i ∈ l := by
  unfold exportItems
  simp only [List.mem_filterMap]
  constructor
  · rintro ⟨it, hit, h⟩
    cases it <;> simp at h
    obtain ⟨rfl, rfl⟩ := h
    exact ⟨_, hit⟩
  · rintro ⟨i, h⟩
    exact ⟨_, h, rfl⟩

/-- an index with provenance `imp name` was allocated by the import item of that name -/
theorem foldl_prov_imp (l : Skeleton) (s : WState) (k : Kind) (nm : Str) :
    Term.imp nm ∈ (l.foldl wstep s).prov k → Term.imp nm ∈ s.prov k ∨ Item.import nm k ∈ l := by
  induction l generalizing s with
  | nil => intro h; exact Or.inl h
  | cons it l ih =>
    intro h
    rw [List.foldl_cons] at h
    rcases ih _ h with h1 | h1
    · rw [wstep_prov] at h1
      split at h1
      · rename_i ha
        rcases List.mem_append.mp h1 with h2 | h2
        · exact Or.inl h2
        · simp only [List.mem_singleton] at h2
          right
          cases it <;> simp [newTerm] at h2
          rename_i n k'
          subst h2
          simp only [Item.alloc, Option.some.injEq] at ha
          subst ha
          simp
      · exact Or.inl h1
    · exact Or.inr (List.mem_cons_of_mem _ h1)

theorem prov_imp_mem (l : Skeleton) (k : Kind) (nm : Str) :
    Term.imp nm ∈ (wiringSt l).prov k → Item.import nm k ∈ l := by
  intro h
  rcases foldl_prov_imp l {} k nm h with h1 | h1
  · simp at h1
  · exact h1

theorem has_imp_item {st : EncSt} {k : Kind} {i : Nat} {nm : Str} (h : Has (G st) k i (.imp nm)) :
    Item.import nm k ∈ st.items := by
  apply prov_imp_mem
  obtain ⟨hlt, hl⟩ := h
  rw [look_eq_getD] at hl
  have : ((G st).prov k)[i]? = some (Term.imp nm) := by
    rw [List.getD_eq_getElem?_getD, List.getElem?_eq_getElem hlt] at hl
    simp only [Option.getD_some] at hl
    rw [List.getElem?_eq_getElem hlt, hl]
  exact List.mem_of_getElem? this

/-! ### where the dependency ids of the aggregated types come from -/

/-- every dependency id of an aggregated type is one of the ids `R` seen so far, and the kind /
    dependency list of a stored type is that of an aggregated request -/
def DepsInv (imps : List (Str × ItemTy)) (R : List Str) : Prop := ∀ e ∈ imps, ∀ d ∈ e.2.deps, d ∈ R

theorem aggregate_deps {a a' : Agg} {name : Str} {ty : ItemTy} {R : List Str} (h : DepsInv a.imports R)
    (ha : a.aggregate name ty = some a') : DepsInv a'.imports (R ++ ty.deps) := by
  have hmono : DepsInv a.imports (R ++ ty.deps) :=
    fun e he d hd => List.mem_append.mpr (Or.inl (h e he d hd))
  unfold Agg.aggregate at ha
  simp only at ha
  have hi : (a.register ty).imports = a.imports := rfl
  cases hq : amGet (a.register ty).imports name with
  | some ex =>
    simp only [hq] at ha
    split at ha
    · injection ha with ha; subst ha; rw [hi]; exact hmono
    · cases ha
  | none =>
    simp only [hq] at ha
    cases hc : (a.register ty).findCompat name with
    | none =>
      simp only [hc] at ha
      injection ha with ha; subst ha
      simp only [hi]
      intro e he d hd
      rcases List.mem_append.mp he with h1 | h1
      · exact hmono e h1 d hd
      · simp only [List.mem_singleton] at h1
        subst h1
        exact List.mem_append.mpr (Or.inr hd)
    | some pr =>
      obtain ⟨exName, exTy⟩ := pr
      simp only [hc] at ha
      obtain ⟨hm, _⟩ := findCompat_some hc
      rw [hi] at hm
      split at ha
      · cases ha
      · split at ha
        · split at ha
          · injection ha with ha; subst ha
            simp only [hi]
            intro e he d hd
            rcases List.mem_append.mp he with h1 | h1
            · exact hmono e (List.mem_filter.mp h1).1 d hd
            · simp only [List.mem_singleton] at h1
              subst h1
              have : (if exTy.iface = some exName then { exTy with iface := some name } else exTy : ItemTy).deps =
                  exTy.deps := by split <;> rfl
              rw [this] at hd
              exact hmono _ hm d hd
          · injection ha with ha; subst ha; exact hmono
        · injection ha with ha; subst ha; rw [hi]; exact hmono

theorem resolveArgs_deps {g : GraphVal} {inst : Nat} (reqs : List ImportReq) {r r' : Resolved} {R : List Str}
    (h : DepsInv r.agg.imports R) (he : resolveArgs g inst reqs r = .ok r') :
    DepsInv r'.agg.imports (R ++ reqs.flatMap (·.ty.deps)) := by
  induction reqs generalizing r R with
  | nil => simp only [resolveArgs] at he; injection he with he; subst he; simpa using h
  | cons q reqs ih =>
    simp only [resolveArgs] at he
    cases hi : g.importNode? q.name with
    | some i => simp [hi] at he
    | none =>
      simp only [hi] at he
      cases ha : r.agg.aggregate q.name q.ty with
      | none => simp [ha] at he
      | some a' =>
        simp only [ha] at he
        have := ih (aggregate_deps h ha) he
        simpa [List.append_assoc] using this

/-- the dependency ids the first loop sees for one node -/
def reqDeps (g : GraphVal) (n : Node) : List Str :=
  match n.kind with
  | .instantiation slot sat =>
    match g.pkg? slot with
    | some p => (unsatisfied p sat).flatMap (·.ty.deps)
    | none => []
  | _ => []

theorem resolveInsts_deps {g : GraphVal} (nodes : List Node) {r r' : Resolved} {R : List Str}
    (h : DepsInv r.agg.imports R) (he : resolveInsts g nodes r = .ok r') :
    DepsInv r'.agg.imports (R ++ nodes.flatMap (reqDeps g)) := by
  induction nodes generalizing r R with
  | nil => simp only [resolveInsts] at he; injection he with he; subst he; simpa using h
  | cons n nodes ih =>
    simp only [resolveInsts] at he
    cases hk : n.kind with
    | instantiation slot sat =>
      simp only [hk] at he
      cases hp : g.pkg? slot with
      | none => simp [hp] at he
      | some p =>
        simp only [hp] at he
        cases ha : resolveArgs g n.id (unsatisfied p sat) r with
        | ok r1 =>
          simp only [ha] at he
          have := ih (resolveArgs_deps _ h ha) he
          simpa [List.flatMap_cons, reqDeps, hk, hp, List.append_assoc] using this
        | error e => simp [ha] at he
        | panic s => simp [ha] at he
    | «import» nm => simp only [hk] at he; simpa [List.flatMap_cons, reqDeps, hk] using ih h he
    | «alias» => simp only [hk] at he; simpa [List.flatMap_cons, reqDeps, hk] using ih h he
    | definition => simp only [hk] at he; simpa [List.flatMap_cons, reqDeps, hk] using ih h he

theorem resolveExplicit_deps {g : GraphVal} {first : List (Str × Nat)} (ns : List Nat) {a a' : Agg}
    {ex ex' : List (Str × Nat)} {R : List Str} (h : DepsInv a.imports R)
    (he : resolveExplicit g first ns a ex = .ok (a', ex')) :
    ∃ X, DepsInv a'.imports (R ++ X) ∧
      ∀ d ∈ X, ∃ n ∈ ns, ∃ nd nm, g.node? n = some nd ∧ nd.kind = .import nm ∧ d ∈ nd.ty.deps := by
  induction ns generalizing a ex R with
  | nil =>
    simp only [resolveExplicit] at he
    injection he with he
    injection he with h1 _
    subst h1
    exact ⟨[], by simpa using h, by simp⟩
  | cons n ns ih =>
    simp only [resolveExplicit] at he
    cases hn : g.node? n with
    | none => simp [hn] at he
    | some nd =>
      simp only [hn] at he
      have hlift : ∀ X : List Str, (∀ d ∈ X, ∃ m ∈ ns, ∃ nd' nm, g.node? m = some nd' ∧ nd'.kind = .import nm ∧ d ∈ nd'.ty.deps) →
          ∀ d ∈ X, ∃ m ∈ n :: ns, ∃ nd' nm, g.node? m = some nd' ∧ nd'.kind = .import nm ∧ d ∈ nd'.ty.deps := by
        intro X hX d hd
        obtain ⟨m, hm, rest⟩ := hX d hd
        exact ⟨m, List.mem_cons_of_mem _ hm, rest⟩
      cases hk : nd.kind with
      | «import» name =>
        simp only [hk] at he
        cases hagg : a.aggregate name nd.ty with
        | none => simp [hagg] at he
        | some a1 =>
          simp only [hagg] at he
          obtain ⟨X, hX, hsrc⟩ := ih (aggregate_deps h hagg) he
          refine ⟨nd.ty.deps ++ X, by simpa [List.append_assoc] using hX, ?_⟩
          intro d hd
          rcases List.mem_append.mp hd with h1 | h1
          · exact ⟨n, List.mem_cons_self .., nd, name, hn, hk, h1⟩
          · exact hlift X hsrc d h1
      | instantiation slot sat =>
        simp only [hk] at he
        obtain ⟨X, hX, hsrc⟩ := ih h he
        exact ⟨X, hX, hlift X hsrc⟩
      | «alias» =>
        simp only [hk] at he
        obtain ⟨X, hX, hsrc⟩ := ih h he
        exact ⟨X, hX, hlift X hsrc⟩
      | definition =>
        simp only [hk] at he
        obtain ⟨X, hX, hsrc⟩ := ih h he
        exact ⟨X, hX, hlift X hsrc⟩

theorem mem_impliedReqs (g : GraphVal) (r : ImportReq) :
    r ∈ impliedReqs g ↔
      (∃ n ∈ g.nodes, ∃ slot sat p, n.kind = .instantiation slot sat ∧ g.pkg? slot = some p ∧ r ∈ unsatisfiedByArgs n p) ∨
      (∃ n ∈ g.nodes, ∃ nm, n.kind = .import nm ∧ r = { name := nm, ty := n.ty }) := by
  unfold impliedReqs
  simp only [List.mem_append, List.mem_flatMap, List.mem_filterMap]
  constructor
  · rintro (⟨n, hn, hx⟩ | ⟨n, hn, hx⟩)
    · left
      unfold reqsOfNode at hx
      cases hk : n.kind with
      | instantiation slot sat =>
        simp only [hk] at hx
        cases hpk : g.pkg? slot with
        | none => simp [hpk] at hx
        | some pk =>
          simp only [hpk] at hx
          exact ⟨n, hn, slot, sat, pk, hk, hpk, hx⟩
      | «import» nm => simp [hk] at hx
      | «alias» => simp [hk] at hx
      | definition => simp [hk] at hx
    · right
      unfold reqOfImport at hx
      cases hk : n.kind with
      | «import» nm =>
        simp only [hk, Option.some.injEq] at hx
        exact ⟨n, hn, nm, hk, hx.symm⟩
      | instantiation slot sat => simp [hk] at hx
      | «alias» => simp [hk] at hx
      | definition => simp [hk] at hx
  · rintro (⟨n, hn, slot, sat, pk, hk, hpk, hr⟩ | ⟨n, hn, nm, hk, rfl⟩)
    · left
      refine ⟨n, hn, ?_⟩
      simp only [reqsOfNode, hk, hpk]
      exact hr
    · right
      exact ⟨n, hn, by simp [reqOfImport, hk]⟩

/-- the dependency ids of the aggregated (stored) types are dependency ids of implied requests -/
theorem aggOf_deps {g : GraphVal} (wf : WF g) {importNodes : List Nat} {agg : Agg}
    (h : aggOf g importNodes = some agg) : ∀ e ∈ agg.imports, ∀ d ∈ e.2.deps, d ∈ impliedDeps g := by
  unfold aggOf at h
  cases hr : resolveInsts g g.nodes {} with
  | error e => simp [hr] at h
  | panic s => simp [hr] at h
  | ok r =>
    simp only [hr] at h
    cases hx : resolveExplicit g r.first importNodes r.agg [] with
    | error e => simp [hx] at h
    | panic s => simp [hx] at h
    | ok ae =>
      obtain ⟨a, ex⟩ := ae
      simp only [hx, Option.some.injEq] at h
      subst h
      have h1 := resolveInsts_deps g.nodes (r := {}) (R := []) (by intro e he; simp at he) hr
      obtain ⟨X, hX, hsrc⟩ := resolveExplicit_deps importNodes h1 hx
      intro e he d hd
      have := hX e he d hd
      unfold impliedDeps
      rw [mem_strSet, List.mem_flatMap]
      simp only [List.nil_append] at this
      rcases List.mem_append.mp this with h2 | h2
      · rw [List.mem_flatMap] at h2
        obtain ⟨n, hn, hdn⟩ := h2
        unfold reqDeps at hdn
        cases hk : n.kind with
        | instantiation slot sat =>
          simp only [hk] at hdn
          cases hp : g.pkg? slot with
          | none => simp [hp] at hdn
          | some p =>
            simp only [hp, List.mem_flatMap] at hdn
            obtain ⟨q, hq, hdq⟩ := hdn
            rw [wf.satOk n hn slot sat p hk hp] at hq
            exact ⟨q, (mem_impliedReqs g q).mpr (Or.inl ⟨n, hn, slot, sat, p, hk, hp, hq⟩), hdq⟩
        | «import» nm => simp [hk] at hdn
        | «alias» => simp [hk] at hdn
        | definition => simp [hk] at hdn
      · obtain ⟨n, _, nd, nm, hnd, hk, hdn⟩ := hsrc d h2
        exact ⟨{ name := nm, ty := nd.ty }, (mem_impliedReqs g _).mpr (Or.inr ⟨nd, (node?_mem hnd).1, nm, hk, rfl⟩), hdn⟩

/-! ### names that resolve to one import -/

theorem compat_cases {a b : Str} (h : compat a b = true) : a = b ∨ SameTrack a b := by
  unfold compat at h
  by_cases hab : a = b
  · exact Or.inl hab
  · right
    have : (a == b) = false := by simpa using hab
    simp only [this, Bool.false_eq_true, ↓reduceIte] at h
    cases ha : altKey a with
    | none => simp [ha] at h
    | some ka =>
      cases hb : altKey b with
      | none => simp [ha, hb] at h
      | some kb =>
        obtain ⟨k1, v1⟩ := ka
        obtain ⟨k2, v2⟩ := kb
        simp only [ha, hb, beq_iff_eq] at h
        subst h
        exact ⟨k1, v1, v2, ha, hb⟩

theorem AInv.canonical_compat {imps reds P} (h : AInv imps reds P) {p q : Str × Kind} (hp : p ∈ P) (hq : q ∈ P)
    (hc : compat p.1 q.1 = true) : canonicalOf reds p.1 = canonicalOf reds q.1 := by
  rcases compat_cases hc with e | hs
  · rw [e]
  · obtain ⟨k1, r1⟩ := h.canonical_facts hp
    obtain ⟨k2, r2⟩ := h.canonical_facts hq
    have s1 : SameTrack p.1 (canonicalOf reds p.1) := by
      rcases r1 with e | ⟨κ, vk, vv, a1, a2, _⟩
      · rw [e]; obtain ⟨κ, va, vb, a1, _⟩ := hs; exact ⟨κ, va, va, a1, a1⟩
      · exact ⟨κ, vk, vv, a1, a2⟩
    have s2 : SameTrack q.1 (canonicalOf reds q.1) := by
      rcases r2 with e | ⟨κ, vk, vv, a1, a2, _⟩
      · rw [e]; obtain ⟨κ, va, vb, _, a2⟩ := hs; exact ⟨κ, vb, vb, a2, a2⟩
      · exact ⟨κ, vk, vv, a1, a2⟩
    obtain ⟨e1, he1, h1⟩ := List.mem_map.mp k1
    obtain ⟨e2, he2, h2⟩ := List.mem_map.mp k2
    have := h.one e1 he1 e2 he2 (by rw [h1, h2]; exact s1.symm.trans (hs.trans s2))
    rw [h1, h2] at this
    exact this

end Wac
