import WacProofs.Lemmas.ParserBasics
/-
  C12 proofs, layer 2: the leaves — identifiers, strings, package names, package paths — on both
  sides (`parseIdent` vs `gId`, …), each characterised by what it needs of the next token
  (`nextTok st = some k`) and what it builds from that token's text.

  Package names/paths carry a version; the parser model uses the model of
  `semver::Version::from_str` (`Wac.parseVersion`), the grammar the specification's reading of
  semver.org (`Spec.Grammar.semver`).  Their agreement is the separate statement `SemverAgree`
  (proved in `SemverAgree.lean` when available); lemmas that compare trees take it as a hypothesis.
-/
namespace Wac.C12
open Wac Wac.Ast Wac.Lex Wac.Parse Wac.Spec.Grammar

theorem Except.bind_eq_ok {ε α β} (x : Except ε α) (f : α → Except ε β) (b : β) :
    (x >>= f) = .ok b ↔ ∃ a, x = .ok a ∧ f a = .ok b := by
  cases x <;> simp [bind, Except.bind]

/-! ### identifiers -/

/-- the identifier the grammar builds from the text of an identifier token -/
def identOf (s : Str) : Ident :=
  match s with
  | '%' :: r => ⟨r, true, z⟩
  | _ => ⟨s, false, z⟩

/-- the identifier the parser builds from an identifier token -/
def identAt (tk : LTok) : Ident :=
  match tk.text with
  | '%' :: r => ⟨r, true, tk.span⟩
  | s => ⟨s, false, tk.span⟩

theorem erase_identAt (tk : LTok) : eraseIdent (identAt tk) = identOf tk.text := by
  unfold identAt identOf eraseIdent
  split <;> simp_all

theorem parseIdent_eq_ok {st st' : PState} {id : Ident} :
    parseIdent st = .ok (id, st') ↔
      nextTok st = some .Ident ∧ id = identAt (tokAt st) ∧ st' = adv st := by
  unfold parseIdent
  simp only [Except.bind_eq_ok, Prod.exists, parseToken_eq_ok]
  constructor
  · rintro ⟨tk, st1, ⟨h1, rfl, rfl⟩, h2⟩
    refine ⟨h1, ?_⟩
    unfold identAt
    split at h2 <;> split <;> simp_all
  · rintro ⟨h1, rfl, rfl⟩
    refine ⟨_, _, ⟨h1, rfl, rfl⟩, ?_⟩
    unfold identAt
    split <;> split <;> simp_all

theorem gId_eq : gId = (class_ .id >>= fun s => pure (identOf s)) := by
  unfold gId
  congr; funext s
  unfold identOf
  split
  · rfl
  · split
    · simp_all
    · rfl

theorem mem_gId {st : PState} {x : Ident} {r : List STok} :
    (x, r) ∈ gId (abs st) ↔
      nextTok st = some .Ident ∧ x = identOf (tokAt st).text ∧ r = abs (adv st) := by
  rw [gId_eq]
  simp only [bind_apply, List.mem_flatMap, Prod.exists, mem_class_id, pure_apply, List.mem_singleton, Prod.mk.injEq]
  constructor
  · rintro ⟨s, r1, ⟨h1, rfl, rfl⟩, rfl, rfl⟩
    exact ⟨h1, rfl, rfl⟩
  · rintro ⟨h1, rfl, rfl⟩
    exact ⟨_, _, ⟨h1, rfl, rfl⟩, rfl, rfl⟩

/-! ### strings -/

def stringOf (s : Str) : StringLit := ⟨(s.drop 1).take (s.length - 2), z⟩
def stringAt (tk : LTok) : StringLit := ⟨(tk.text.drop 1).take (tk.text.length - 2), tk.span⟩

theorem erase_stringAt (tk : LTok) : eraseString (stringAt tk) = stringOf tk.text := rfl

theorem parseString_eq_ok {st st' : PState} {s : StringLit} :
    parseString st = .ok (s, st') ↔
      nextTok st = some .String ∧ s = stringAt (tokAt st) ∧ st' = adv st := by
  unfold parseString
  simp only [Except.bind_eq_ok, Prod.exists, parseToken_eq_ok]
  constructor
  · rintro ⟨tk, st1, ⟨h1, rfl, rfl⟩, h2⟩
    cases h2
    exact ⟨h1, rfl, rfl⟩
  · rintro ⟨h1, rfl, rfl⟩
    exact ⟨_, _, ⟨h1, rfl, rfl⟩, rfl⟩

theorem mem_gString {st : PState} {x : StringLit} {r : List STok} :
    (x, r) ∈ gString (abs st) ↔
      nextTok st = some .String ∧ x = stringOf (tokAt st).text ∧ r = abs (adv st) := by
  unfold gString
  simp only [bind_apply, List.mem_flatMap, Prod.exists, mem_class_string, pure_apply, List.mem_singleton, Prod.mk.injEq]
  constructor
  · rintro ⟨s, r1, ⟨h1, rfl, rfl⟩, rfl, rfl⟩
    exact ⟨h1, rfl, rfl⟩
  · rintro ⟨h1, rfl, rfl⟩
    exact ⟨_, _, ⟨h1, rfl, rfl⟩, rfl, rfl⟩

/-! ### package names and paths -/

/-- the two version parsers agree (the model of `semver::Version::from_str` and the
specification's reading of semver.org) -/
def SemverAgree : Prop := ∀ v : Str, Wac.parseVersion v = Wac.Spec.Grammar.semver v

/-- what the grammar builds from the text of a package-name token -/
def pkgNameOf (s : Str) : Option PackageName :=
  match (splitFirst '@' s).2 with
  | none => some ⟨s, (splitFirst '@' s).1, none, z⟩
  | some v =>
    match semver v with
    | some ver => some ⟨s, (splitFirst '@' s).1, some ver, z⟩
    | none => none

theorem gPackageName_eq : gPackageName = (class_ .packageName >>= fun s =>
    match pkgNameOf s with | some p => pure p | none => fail) := by
  unfold gPackageName pkgNameOf
  congr; funext s
  generalize splitFirst '@' s = p
  obtain ⟨name, v⟩ := p
  cases v with
  | none => rfl
  | some v => dsimp only; cases semver v <;> rfl

theorem mem_gPackageName {st : PState} {x : PackageName} {r : List STok} :
    (x, r) ∈ gPackageName (abs st) ↔
      nextTok st = some .PackageName ∧ pkgNameOf (tokAt st).text = some x ∧ r = abs (adv st) := by
  rw [gPackageName_eq]
  simp only [bind_apply, List.mem_flatMap, Prod.exists, mem_class_packageName]
  constructor
  · rintro ⟨s, r1, ⟨h1, rfl, rfl⟩, h2⟩
    refine ⟨h1, ?_⟩
    cases h : pkgNameOf (tokAt st).text <;> simp_all
  · rintro ⟨h1, h2, rfl⟩
    refine ⟨_, _, ⟨h1, rfl, rfl⟩, ?_⟩
    simp [h2]

theorem take_length_takeWhile {α} (p : α → Bool) (s : List α) :
    s.take (s.takeWhile p).length = s.takeWhile p := by
  induction s with
  | nil => rfl
  | cons a l ih => simp only [List.takeWhile]; split <;> simp [*]

theorem splitFirst_eq_findIdx (c : Char) (s : Str) :
    splitFirst c s = match findIdx s c with
      | some i => (s.take i, some (s.drop (i + 1)))
      | none => (s, none) := by
  unfold splitFirst findIdx
  have hs : s = s.takeWhile (· != c) ++ s.dropWhile (· != c) := (List.takeWhile_append_dropWhile).symm
  by_cases h : (s.takeWhile (· != c)).length < s.length
  · simp only [h, if_true]
    rw [take_length_takeWhile]
  · simp only [h, if_false]
    congr 1
    have h2 := congrArg List.length hs
    rw [List.length_append] at h2
    have : s.dropWhile (· != c) = [] := List.eq_nil_of_length_eq_zero (by omega)
    rw [this] at hs; simpa using hs.symm

/-- what the parser builds from a package-name token (`none`: `InvalidVersion`) -/
def pkgNameAt (tk : LTok) : Option PackageName :=
  match parseVersionAt tk.text tk.span (findIdx tk.text '@') with
  | .ok v => some ⟨tk.text, match findIdx tk.text '@' with | some i => tk.text.take i | none => tk.text, v, tk.span⟩
  | .error _ => none

theorem parsePackageName_eq_ok {st st' : PState} {p : PackageName} :
    parsePackageName st = .ok (p, st') ↔
      nextTok st = some .PackageName ∧ pkgNameAt (tokAt st) = some p ∧ st' = adv st := by
  unfold parsePackageName pkgNameAt
  simp only [Except.bind_eq_ok, Prod.exists, parseToken_eq_ok]
  constructor
  · rintro ⟨tk, st1, ⟨h1, rfl, rfl⟩, v, h2, h3⟩
    cases h3
    generalize findIdx (tokAt st).text '@' = o at *
    simp only [h1, h2, true_and, and_true]
    cases o <;> rfl
  · rintro ⟨h1, h2, rfl⟩
    refine ⟨_, _, ⟨h1, rfl, rfl⟩, ?_⟩
    generalize findIdx (tokAt st).text '@' = o at *
    split at h2
    · rename_i v hv
      refine ⟨v, hv, ?_⟩
      cases h2
      cases o <;> rfl
    · simp at h2

theorem pkgNameAt_agree (hV : SemverAgree) (tk : LTok) :
    (pkgNameAt tk).map erasePackageName = pkgNameOf tk.text := by
  have hV' : ∀ v, parseVersion v = semver v := hV
  unfold pkgNameAt pkgNameOf parseVersionAt
  rw [splitFirst_eq_findIdx]
  cases findIdx tk.text '@' with
  | none => simp [erasePackageName]
  | some i =>
    simp only [hV']
    cases semver (List.drop (i + 1) tk.text) <;> simp [erasePackageName]

/-- what the grammar builds from the text of a package-path token -/
def pkgPathOf (s : Str) : Option PackagePath :=
  match (splitFirst '@' s).2 with
  | none => some ⟨z, s, (splitFirst '/' (splitFirst '@' s).1).1, (splitFirst '/' (splitFirst '@' s).1).2.getD [], none⟩
  | some v =>
    match semver v with
    | some ver => some ⟨z, s, (splitFirst '/' (splitFirst '@' s).1).1, (splitFirst '/' (splitFirst '@' s).1).2.getD [], some ver⟩
    | none => none

theorem gPackagePath_eq : gPackagePath = (class_ .packagePath >>= fun s =>
    match pkgPathOf s with | some p => pure p | none => fail) := by
  unfold gPackagePath pkgPathOf
  congr; funext s
  generalize splitFirst '@' s = p
  obtain ⟨path, v⟩ := p
  dsimp only
  generalize splitFirst '/' path = q
  obtain ⟨name, segs⟩ := q
  cases v with
  | none => rfl
  | some v => dsimp only; cases semver v <;> rfl

theorem mem_gPackagePath {st : PState} {x : PackagePath} {r : List STok} :
    (x, r) ∈ gPackagePath (abs st) ↔
      nextTok st = some .PackagePath ∧ pkgPathOf (tokAt st).text = some x ∧ r = abs (adv st) := by
  rw [gPackagePath_eq]
  simp only [bind_apply, List.mem_flatMap, Prod.exists, mem_class_packagePath]
  constructor
  · rintro ⟨s, r1, ⟨h1, rfl, rfl⟩, h2⟩
    refine ⟨h1, ?_⟩
    cases h : pkgPathOf (tokAt st).text <;> simp_all
  · rintro ⟨h1, h2, rfl⟩
    refine ⟨_, _, ⟨h1, rfl, rfl⟩, ?_⟩
    simp [h2]

/-- what the parser builds from a package-path token (`none`: the `unwrap` panic site when
there is no `/`, or `InvalidVersion`) -/
def pkgPathAt (tk : LTok) : Option PackagePath :=
  match findIdx tk.text '/' with
  | none => none
  | some slash =>
    match parseVersionAt tk.text tk.span (findIdx tk.text '@') with
    | .ok v => some ⟨tk.span, tk.text, tk.text.take slash,
        (tk.text.take ((findIdx tk.text '@').getD tk.text.length)).drop (slash + 1), v⟩
    | .error _ => none

theorem parsePackagePath_eq_ok {st st' : PState} {p : PackagePath} :
    parsePackagePath st = .ok (p, st') ↔
      nextTok st = some .PackagePath ∧ pkgPathAt (tokAt st) = some p ∧ st' = adv st := by
  unfold parsePackagePath pkgPathAt
  simp only [Except.bind_eq_ok, Prod.exists, parseToken_eq_ok]
  constructor
  · rintro ⟨tk, st1, ⟨h1, rfl, rfl⟩, h2⟩
    refine ⟨h1, ?_⟩
    cases hf : findIdx (tokAt st).text '/' with
    | none => simp [hf] at h2
    | some i =>
      simp only [hf, Except.bind_eq_ok] at h2
      obtain ⟨v, hv, h3⟩ := h2
      cases h3
      simp [hv]
  · rintro ⟨h1, h2, rfl⟩
    refine ⟨_, _, ⟨h1, rfl, rfl⟩, ?_⟩
    cases hf : findIdx (tokAt st).text '/' with
    | none => simp [hf] at h2
    | some i =>
      simp only [hf] at h2 ⊢
      split at h2
      · rename_i v hv
        simp only [Except.bind_eq_ok]
        refine ⟨v, hv, ?_⟩
        cases h2; rfl
      · simp at h2

/-- the lexical shape of a package-path token the parser relies on: it contains a `/`, and the
first `/` comes before the first `@` (guaranteed by the token's regular expression) -/
def pathShape (s : Str) : Prop :=
  ∃ i, findIdx s '/' = some i ∧ ∀ j, findIdx s '@' = some j → i < j

theorem findIdx_eq_some {s : Str} {c : Char} {i : Nat} :
    findIdx s c = some i ↔ (s.takeWhile (· != c)).length = i ∧ i < s.length := by
  unfold findIdx
  dsimp only
  split
  · simp; intro h; omega
  · simp; intro h; omega

theorem findIdx_lt {s : Str} {c : Char} {i : Nat} (h : findIdx s c = some i) : i < s.length :=
  (findIdx_eq_some.mp h).2

theorem takeWhile_take {α} (p : α → Bool) (s : List α) (j : Nat) (h : (s.takeWhile p).length < j) :
    (s.take j).takeWhile p = s.takeWhile p := by
  induction s generalizing j with
  | nil => simp
  | cons a l ih =>
    cases j with
    | zero => simp at h
    | succ j =>
      simp only [List.take_succ_cons, List.takeWhile]
      cases hp : p a with
      | false => rfl
      | true =>
        simp only [List.takeWhile, hp, List.length_cons] at h
        rw [ih j (by omega)]

theorem findIdx_take {s : Str} {c : Char} {i j : Nat} (h : findIdx s c = some i) (hij : i < j)
    (hj : j ≤ s.length) : findIdx (s.take j) c = some i := by
  obtain ⟨hi, hl⟩ := findIdx_eq_some.mp h
  rw [findIdx_eq_some, takeWhile_take _ _ _ (by omega)]
  simp [hi]
  omega

theorem pkgPathAt_agree (hV : SemverAgree) (tk : LTok) (hs : pathShape tk.text) :
    (pkgPathAt tk).map erasePackagePath = pkgPathOf tk.text := by
  have hV' : ∀ v, parseVersion v = semver v := hV
  obtain ⟨i, hi, hij⟩ := hs
  unfold pkgPathAt pkgPathOf parseVersionAt
  rw [splitFirst_eq_findIdx '@']
  cases hat : findIdx tk.text '@' with
  | none =>
    simp only [hi, splitFirst_eq_findIdx '/']
    simp [erasePackagePath]
  | some j =>
    have hlt := hij j hat
    have hj := findIdx_lt hat
    simp only [hi, hV', splitFirst_eq_findIdx '/', findIdx_take hi hlt (Nat.le_of_lt hj)]
    cases semver (List.drop (j + 1) tk.text) <;> simp [erasePackagePath, List.take_take]
    omega

end Wac.C12
