import WacProofs.Lemmas.Elab
import WacProofs.Lemmas.DecodeCanon
/-
  C05 `elab_denotes`, part 1: type expressions.  `AstResolver::ty` allocates defined types whose
  unfolding is the tree `tyTree` of the specification, given that the elaboration scope and the
  denotation scope agree (`Sim`).

  The arenas of the elaboration are append-only, so the robust facts of the C08 proof
  (`HV`/`HF`/`HK` over `Ext [] []`: "unfolds to `t` in every extension, with any larger fuel") are
  reused with no open interfaces.  Resource leaves of the denotation (`Res.idx` = the package-wide
  counter of declared resources) are renamed by `ρ` into arena leaves.
-/
namespace Wac.Elab
open Wac Wac.Spec.Wit Wac.Decode

/-- fuel bound for value types of a collection -/
def vb (T : Types) : Nat := Types.size T + 1

/-- the append-only frame of an elaboration call -/
structure Grow (T T' : Types) : Prop where
  ext : Ext [] [] T T'
  size : Types.size T ≤ Types.size T'
  /-- declared interfaces and worlds are never modified (their ids included) -/
  keepI : ∀ (i : Nat) x, T.interfaces[i]? = some x → T'.interfaces[i]? = some x
  keepW : ∀ (i : Nat) x, T.worlds[i]? = some x → T'.worlds[i]? = some x

theorem Grow.refl (T : Types) : Grow T T := ⟨Ext.refl _ _ _, Nat.le_refl _, fun _ _ h => h, fun _ _ h => h⟩
theorem Grow.trans {T T' T'' : Types} (h1 : Grow T T') (h2 : Grow T' T'') : Grow T T'' :=
  ⟨h1.ext.trans h2.ext, Nat.le_trans h1.size h2.size, fun i x h => h2.keepI i x (h1.keepI i x h),
    fun i x h => h2.keepW i x (h1.keepW i x h)⟩

theorem Grow.addDefined (st : St) (d : DefinedType) : Grow st.types (Elab.addDefined st d).1.types := by
  refine ⟨⟨rfl, ?_, fun _ _ h => h, fun _ _ h => h, fun _ x h => ⟨x, h, rfl, rfl⟩,
    fun _ x _ h => ⟨x, h, rfl⟩, fun _ x _ h => ⟨x, h, rfl, rfl⟩⟩, ?_, fun _ _ h => h, fun _ _ h => h⟩
  · intro i x h
    exact getElem?_append_lt' _ _ _ _ h
  · simp [Elab.addDefined, Types.size]

/-! ### resource leaves, with the fuel of `resolve_resource` explicit

`HL` (C08) is stated for the fuel `resLeaf` itself uses; an alias of an alias needs the stronger
"with any fuel ≥ the number of resources". -/

/-- resource id `r` resolves to the root `l.idx` (which is the leaf `l`) in every later arena, with
any fuel `≥` the number of resources of `T` -/
def HR (T : Types) (r : Nat) (l : Res) : Prop :=
  ∀ T' F, Ext [] [] T T' → T.resources.length ≤ F →
    T'.resolveResource F r = some l.idx ∧ ∃ x, T'.resources[l.idx]? = some x ∧ l = ⟨T'.uid, l.idx, x.name⟩

theorem HR.mono {T T1 : Types} {r : Nat} {l : Res} (h : HR T r l) (hg : Grow T T1) : HR T1 r l :=
  fun T' F he hF => h T' F (hg.ext.trans he) (by have := hg.ext.resources_len; omega)

theorem HR.toHL {T : Types} {r : Nat} {l : Res} (h : HR T r l) : HL [] [] T r l := by
  intro T' he
  obtain ⟨h1, x, hx, hl⟩ := h T' (T'.resources.length + 1) he (by have := he.resources_len; omega)
  simp only [Types.resLeaf, h1, hx]
  rw [hl]

theorem Grow.addResource (st : St) (x : Resource) : Grow st.types (Elab.addResource st x).1.types := by
  refine ⟨⟨rfl, fun _ _ h => h, fun _ _ h => h, fun _ _ h => h, ?_,
    fun _ x _ h => ⟨x, h, rfl⟩, fun _ x _ h => ⟨x, h, rfl, rfl⟩⟩, ?_, fun _ _ h => h, fun _ _ h => h⟩
  · intro i y h
    exact ⟨y, getElem?_append_lt' _ _ _ _ h, rfl, rfl⟩
  · simp [Elab.addResource, Types.size]

/-- a freshly pushed root resource -/
theorem HR_root (st : St) (n : Str) :
    HR (Elab.addResource st { name := n, alias := none }).1.types st.types.resources.length
      ⟨st.types.uid, st.types.resources.length, n⟩ := by
  intro T' F he hF
  obtain ⟨y, hy, hyn, hya⟩ := he.resources st.types.resources.length { name := n, alias := none }
    (by simp [Elab.addResource])
  have hya' : y.alias = none := by simpa using hya
  have hlen : (Elab.addResource st { name := n, alias := none }).1.types.resources.length =
      st.types.resources.length + 1 := by simp [Elab.addResource]
  obtain ⟨F', rfl⟩ : ∃ F', F = F' + 1 := ⟨F - 1, by omega⟩
  refine ⟨by simp [Types.resolveResource, hy, hya'], y, hy, ?_⟩
  have : T'.uid = st.types.uid := he.uid
  simp [this, hyn]

/-- a freshly pushed alias of a resource that resolves to `l` -/
theorem HR_alias {st : St} {n : Str} {r : Nat} {o : Option Nat} {l : Res} (h : HR st.types r l) :
    HR (Elab.addResource st { name := n, alias := some { owner := o, source := r } }).1.types
      st.types.resources.length l := by
  intro T' F he hF
  obtain ⟨y, hy, _, hya⟩ := he.resources st.types.resources.length
    { name := n, alias := some { owner := o, source := r } } (by simp [Elab.addResource])
  have hlen : (Elab.addResource st { name := n, alias := some { owner := o, source := r } }).1.types.resources.length =
      st.types.resources.length + 1 := by simp [Elab.addResource]
  obtain ⟨F', rfl⟩ : ∃ F', F = F' + 1 := ⟨F - 1, by omega⟩
  obtain ⟨h1, hx⟩ := h T' F' ((Grow.addResource st _).ext.trans he) (by omega)
  refine ⟨?_, hx⟩
  cases hya' : y.alias with
  | none => rw [hya'] at hya; simp at hya
  | some a =>
    rw [hya'] at hya
    simp only [Option.map_some, Option.some.injEq] at hya
    simp only [Types.resolveResource, hy, hya', hya]
    exact h1

section
variable (ρ : Nat → Res)

/-- one name means the same in the elaboration scope and in the denotation scope -/
def SimB (T : Types) : Option Bound → Option Bind → Prop
  | none, none => True
  | some (.ty (.value v)), some (.val t) => HV [] [] T (vb T) v (renT ρ t)
  | some (.ty (.resource r)), some (.res q) => HR T r (ρ q.idx)
  | _, _ => False

/-- the elaboration scope and the denotation scope agree -/
def Sim (T : Types) (scope : List (Str × Bound)) (binds : List (Str × Bind)) : Prop :=
  ∀ n, SimB ρ T (alGet scope n) (alGet binds n)

variable {ρ}

theorem SimB.mono {T T' : Types} (hg : Grow T T') : ∀ {a : Option Bound} {b : Option Bind},
    SimB ρ T a b → SimB ρ T' a b
  | none, none, _ => trivial
  | some (.ty (.value _)), some (.val _), h => HV.mono h hg.ext (by have := hg.size; unfold vb; omega)
  | some (.ty (.resource _)), some (.res _), h => HR.mono h hg
  | none, some _, h => h.elim
  | some (.ty (.value _)), none, h => h.elim
  | some (.ty (.value _)), some (.res _), h => h.elim
  | some (.ty (.resource _)), none, h => h.elim
  | some (.ty (.resource _)), some (.val _), h => h.elim
  | some (.ty (.func _)), none, h => h.elim
  | some (.ty (.func _)), some _, h => h.elim
  | some (.ty (.interface _)), none, h => h.elim
  | some (.ty (.interface _)), some _, h => h.elim
  | some (.ty (.world _)), none, h => h.elim
  | some (.ty (.world _)), some _, h => h.elim
  | some (.ty (.module _)), none, h => h.elim
  | some (.ty (.module _)), some _, h => h.elim
  | some (.iface _), none, h => h.elim
  | some (.iface _), some _, h => h.elim
  | some (.world _), none, h => h.elim
  | some (.world _), some _, h => h.elim

theorem Sim.mono {T T' : Types} {scope : List (Str × Bound)} {binds : List (Str × Bind)}
    (h : Sim ρ T scope binds) (hg : Grow T T') : Sim ρ T' scope binds :=
  fun n => (h n).mono hg

/-- the result of a successful `ty` call -/
structure TyOk (ρ : Nat → Res) (st st' : St) (v : ValueType) (s : Scope) (g : Nat) (wt : WTy) : Prop where
  grow : Grow st.types st'.types
  scope : st'.scope = st.scope
  root : st'.root = st.root
  tree : Sim ρ st.types st.scope s.binds → ∀ t, tyTree s g wt = some t →
    HV [] [] st'.types (vb st'.types) v (renT ρ t)

theorem tyTree_pos {s : Scope} {g : Nat} {wt : WTy} {t : Tree} (h : tyTree s g wt = some t) : ∃ g', g = g' + 1 := by
  cases g with
  | zero => simp [tyTree] at h
  | succ g' => exact ⟨g', rfl⟩

theorem vb_addDefined (st : St) (d : DefinedType) :
    vb (Elab.addDefined st d).1.types = vb st.types + 1 := by
  simp [vb, Elab.addDefined, Types.size]; omega

/-- a freshly pushed defined type unfolds to what its definition unfolds to -/
theorem HV_new {st : St} {d : DefinedType} {t : Tree}
    (h : ∀ T' F, Ext [] [] st.types T' → vb st.types ≤ F → unfoldDefined (Types.unfoldVT T' F) d = some t) :
    HV [] [] (Elab.addDefined st d).1.types (vb (Elab.addDefined st d).1.types)
      (.defined st.types.defined.length) t := by
  intro T' F he hF
  rw [vb_addDefined] at hF
  obtain ⟨F', rfl⟩ : ∃ F', F = F' + 1 := ⟨F - 1, by omega⟩
  have hd : T'.defined[st.types.defined.length]? = some d := he.defined _ _ (by simp [Elab.addDefined])
  simp only [Types.unfoldVT, hd]
  exact h T' F' ((Grow.addDefined st d).ext.trans he) (by omega)

end

end Wac.Elab
