import WacProofs.Lemmas.LexSpecRe
/-
  C12 proofs, lexical layer 2a: prefix matches and the composition of greedy recognisers.

  `PM r s m`: the prefix of `s` of length `m` belongs to the language of `r`; `IsMax r s n`: `n` is
  the length of the longest such prefix; `NoPM r s`: there is none.  The lemmas say when the
  lengths found by greedy recognisers for the parts of a regular expression add up to the longest
  match of the whole: the characters inside the greedy match of the first part must not be able
  to start the second part (`FirstIn`).
-/
namespace Wac.C12
open Wac Wac.Spec.Grammar Wac.Spec.Grammar.Re

/-- the prefix of length `m` of `s` belongs to the language of `r` -/
def PM (r : Re) (s : Str) (m : Nat) : Prop := m ≤ s.length ∧ Matches r (s.take m)
/-- no prefix of `s` belongs to the language of `r` -/
def NoPM (r : Re) (s : Str) : Prop := ∀ m, ¬ PM r s m
/-- `n` is the length of the longest prefix of `s` in the language of `r` -/
def IsMax (r : Re) (s : Str) (n : Nat) : Prop := PM r s n ∧ ∀ m, PM r s m → m ≤ n
/-- every non-empty word of the language of `b` starts with a character satisfying `P` -/
def FirstIn (b : Re) (P : Char → Prop) : Prop := ∀ c w, Matches b (c :: w) → P c

/-! ### the link with `Re.longest` -/

theorem isLongest_of_isMax {r : Re} {s : Str} {n : Nat} (h : IsMax r s n) : IsLongest r s n :=
  ⟨h.1.1, h.1.2, fun m hm hm' hmm => absurd (h.2 m ⟨hm', hmm⟩) (by omega)⟩

theorem longest_of_isMax {r : Re} {s : Str} {n : Nat} (h : IsMax r s n) : longest r s = some n :=
  longest_eq_some_iff.mpr (isLongest_of_isMax h)

theorem longest_of_noPM {r : Re} {s : Str} (h : NoPM r s) : longest r s = none :=
  longest_eq_none_iff.mpr fun m hm hmm => h m ⟨hm, hmm⟩

/-- a recogniser that returns the length of the longest match, 0 when there is none, of an
expression that does not match the empty string -/
def Recognises (r : Re) (s : Str) (n : Nat) : Prop := (n = 0 ∧ NoPM r s) ∨ (0 < n ∧ IsMax r s n)

theorem Recognises.getD {r : Re} {s : Str} {n : Nat} (h : Recognises r s n) :
    n = (longest r s).getD 0 := by
  rcases h with ⟨h0, h⟩ | ⟨_, h⟩
  · rw [longest_of_noPM h, h0]; rfl
  · rw [longest_of_isMax h]; rfl

theorem Recognises.longest {r : Re} {s : Str} {n : Nat} (h : Recognises r s n) :
    longest r s = if n = 0 then none else some n := by
  rcases h with ⟨h0, h⟩ | ⟨hp, h⟩
  · rw [longest_of_noPM h, if_pos h0]
  · rw [longest_of_isMax h, if_neg (by omega)]

/-! ### lists -/

theorem take_eq_append {s u v : Str} {m : Nat} (hm : m ≤ s.length) (h : s.take m = u ++ v) :
    m = u.length + v.length ∧ u = s.take u.length ∧ v = (s.drop u.length).take v.length := by
  have hl : m = u.length + v.length := by
    have := congrArg List.length h
    rw [List.length_take, List.length_append] at this
    omega
  refine ⟨hl, ?_, ?_⟩
  · have := congrArg (List.take u.length) h
    rw [List.take_take, List.take_left' rfl, Nat.min_eq_left (by omega)] at this
    exact this.symm
  · have := congrArg (List.drop u.length) h
    rw [List.drop_take, List.drop_left' rfl] at this
    have e : m - u.length = v.length := by omega
    rw [e] at this
    exact this.symm

theorem take_length_takeWhile {α} (p : α → Bool) (l : List α) :
    l.take (l.takeWhile p).length = l.takeWhile p := by
  have h := @List.takeWhile_append_dropWhile _ p l
  have := @List.take_left' _ (l.takeWhile p) (l.dropWhile p) _ rfl
  rw [h] at this; exact this

theorem drop_length_takeWhile {α} (p : α → Bool) (l : List α) :
    l.drop (l.takeWhile p).length = l.dropWhile p := by
  have h := @List.takeWhile_append_dropWhile _ p l
  have := @List.drop_left' _ (l.takeWhile p) (l.dropWhile p) _ rfl
  rw [h] at this; exact this

theorem mem_takeWhile_imp {α} {p : α → Bool} {l : List α} {c : α} (h : c ∈ l.takeWhile p) :
    p c = true := by
  induction l with
  | nil => simp at h
  | cons a l ih =>
    by_cases hp : p a = true
    · rw [List.takeWhile_cons_of_pos hp, List.mem_cons] at h
      rcases h with rfl | h
      · exact hp
      · exact ih h
    · rw [List.takeWhile_cons_of_neg hp] at h
      simp at h

theorem le_takeWhile_of_all {α} (p : α → Bool) (l : List α) (m : Nat) (hm : m ≤ l.length)
    (h : ∀ c ∈ l.take m, p c = true) : m ≤ (l.takeWhile p).length := by
  induction l generalizing m with
  | nil => simpa using hm
  | cons a l ih =>
    cases m with
    | zero => exact Nat.zero_le _
    | succ m =>
      rw [List.take_succ_cons] at h
      have ha : p a = true := h a List.mem_cons_self
      rw [List.takeWhile_cons_of_pos ha, List.length_cons]
      exact Nat.succ_le_succ (ih m (by simpa using hm) fun c hc => h c (List.mem_cons_of_mem _ hc))

theorem takeWhile_length_lt {α} (p : α → Bool) (l : List α) (i : Nat) (d : α) (rest : List α)
    (h1 : ∀ c ∈ l.take i, p c = true) (h2 : l.drop i = d :: rest) (hd : p d = false) :
    (l.takeWhile p).length = i := by
  have hi : i < l.length := by
    have := congrArg List.length h2
    rw [List.length_drop, List.length_cons] at this
    omega
  have : l = l.take i ++ d :: rest := by rw [← h2, List.take_append_drop]
  rw [this, List.takeWhile_append_of_pos h1, List.takeWhile_cons_of_neg (by simp [hd])]
  simp; omega

/-- the first character of `s.drop m` is one of the first `n` characters of `s` when `m < n` -/
theorem head_drop_mem_take {s : Str} {m n : Nat} {c : Char} {w : Str} (hmn : m < n)
    (h : s.drop m = c :: w) : c ∈ s.take n := by
  have hm : m < s.length := by
    have := congrArg List.length h
    rw [List.length_drop, List.length_cons] at this
    omega
  rw [List.drop_eq_getElem_cons hm] at h
  rw [List.mem_take_iff_getElem]
  exact ⟨m, by omega, (List.cons.inj h).1⟩

/-! ### prefix matches of the constructions -/

theorem pm_zero {r : Re} {s : Str} : PM r s 0 ↔ Matches r [] := by
  simp [PM]

theorem pm_nil {r : Re} {m : Nat} : PM r [] m ↔ m = 0 ∧ Matches r [] := by
  constructor
  · rintro ⟨h1, h2⟩
    have : m = 0 := by simpa using h1
    subst this
    exact ⟨rfl, by simpa using h2⟩
  · rintro ⟨rfl, h⟩; exact pm_zero.mpr h

theorem pm_eps {s : Str} {m : Nat} : PM eps s m ↔ m = 0 := by
  constructor
  · rintro ⟨h1, h2⟩
    have := congrArg List.length (matches_eps.mp h2)
    rw [List.length_take, List.length_nil] at this
    omega
  · rintro rfl; exact pm_zero.mpr .eps

theorem pm_alt {a b : Re} {s : Str} {m : Nat} : PM (alt a b) s m ↔ PM a s m ∨ PM b s m := by
  simp only [PM, matches_alt]
  constructor
  · rintro ⟨h, h1 | h1⟩
    · exact .inl ⟨h, h1⟩
    · exact .inr ⟨h, h1⟩
  · rintro (⟨h, h1⟩ | ⟨h, h1⟩)
    · exact ⟨h, .inl h1⟩
    · exact ⟨h, .inr h1⟩

theorem pm_seq {a b : Re} {s : Str} {m : Nat} :
    PM (seq a b) s m ↔ ∃ i j, m = i + j ∧ PM a s i ∧ PM b (s.drop i) j := by
  constructor
  · rintro ⟨hm, h⟩
    obtain ⟨u, v, huv, h1, h2⟩ := matches_seq.mp h
    obtain ⟨hl, hu, hv⟩ := take_eq_append hm huv
    refine ⟨u.length, v.length, hl, ⟨by omega, by rw [← hu]; exact h1⟩, ⟨?_, by rw [← hv]; exact h2⟩⟩
    rw [List.length_drop]; omega
  · rintro ⟨i, j, rfl, ⟨hi, h1⟩, ⟨hj, h2⟩⟩
    rw [List.length_drop] at hj
    refine ⟨by omega, ?_⟩
    rw [List.take_add]
    exact .seq h1 h2

theorem pm_star_pos {a : Re} {s : Str} {m : Nat} (h : PM (star a) s m) (hm : 0 < m) :
    ∃ i j, m = i + j ∧ 0 < i ∧ PM a s i ∧ PM (star a) (s.drop i) j := by
  obtain ⟨hle, h⟩ := h
  cases hs : s.take m with
  | nil =>
    have := congrArg List.length hs
    rw [List.length_take, List.length_nil] at this
    omega
  | cons c w =>
    rw [hs] at h
    obtain ⟨u, v, rfl, h1, h2⟩ := star_cons_inv h
    obtain ⟨hl, hu, hv⟩ := take_eq_append (u := c :: u) (v := v) hle hs
    refine ⟨(c :: u).length, v.length, hl, by simp, ⟨by omega, by rw [← hu]; exact h1⟩,
      ⟨?_, by rw [← hv]; exact h2⟩⟩
    rw [List.length_drop]; omega

theorem pm_star_intro {a : Re} {s : Str} {i j : Nat} (h1 : PM a s i) (h2 : PM (star a) (s.drop i) j) :
    PM (star a) s (i + j) := by
  obtain ⟨hi, h1⟩ := h1
  obtain ⟨hj, h2⟩ := h2
  rw [List.length_drop] at hj
  refine ⟨by omega, ?_⟩
  rw [List.take_add]
  exact .starCons h1 h2

/-- one character of a class, then `r` -/
theorem pm_cls_seq {rs : List (Char × Char)} {r : Re} {s : Str} {m : Nat} :
    PM (seq (cls rs) r) s m ↔
      ∃ c t j, s = c :: t ∧ m = j + 1 ∧ inRanges c rs = true ∧ PM r t j := by
  rw [pm_seq]
  constructor
  · rintro ⟨i, j, rfl, ⟨hi, h1⟩, h2⟩
    obtain ⟨c, hc, hin⟩ := matches_cls.mp h1
    have hlen := congrArg List.length hc
    rw [List.length_take] at hlen
    have hi1 : i = 1 := by simp at hlen; omega
    subst hi1
    cases s with
    | nil => simp at hc
    | cons d t =>
      rw [List.take_succ_cons, List.take_zero] at hc
      exact ⟨d, t, j, rfl, by omega, by rw [(List.cons.inj hc).1]; exact hin, by simpa using h2⟩
  · rintro ⟨c, t, j, rfl, rfl, hin, h2⟩
    refine ⟨1, j, by omega, ⟨by simp, ?_⟩, by simpa using h2⟩
    rw [List.take_succ_cons, List.take_zero]
    exact .cls hin

theorem inRanges_single {c d : Char} : inRanges c [(d, d)] = true ↔ c = d := by
  simp only [inRanges, List.any_cons, List.any_nil, Bool.or_false, Bool.and_eq_true,
    decide_eq_true_eq]
  constructor
  · rintro ⟨h1, h2⟩; exact Char.le_antisymm h2 h1
  · rintro rfl; exact ⟨Char.le_refl _, Char.le_refl _⟩

/-- one given character, then `r` -/
theorem pm_chr_seq {d : Char} {r : Re} {s : Str} {m : Nat} :
    PM (seq (cls [(d, d)]) r) s m ↔ ∃ t j, s = d :: t ∧ m = j + 1 ∧ PM r t j := by
  rw [pm_cls_seq]
  constructor
  · rintro ⟨c, t, j, rfl, rfl, hin, h⟩
    rw [inRanges_single] at hin
    subst hin
    exact ⟨t, j, rfl, rfl, h⟩
  · rintro ⟨t, j, rfl, rfl, h⟩
    exact ⟨d, t, j, rfl, rfl, inRanges_single.mpr rfl, h⟩

/-! ### maxima -/

theorem isMax_nil {r : Re} (h : Matches r []) : IsMax r [] 0 :=
  ⟨pm_zero.mpr h, fun m hm => by rw [(pm_nil.mp hm).1]; exact Nat.le_refl _⟩

theorem IsMax.congr {r r' : Re} {s : Str} {n : Nat} (h : IsMax r s n)
    (e : ∀ m, PM r s m ↔ PM r' s m) : IsMax r' s n :=
  ⟨(e n).mp h.1, fun m hm => h.2 m ((e m).mpr hm)⟩

/-- if the prefix matches of `r'` on `c :: t` are those of `r` on `t` shifted by one -/
theorem isMax_shift {r r' : Re} {c : Char} {t : Str} {n : Nat}
    (e : ∀ m, PM r' (c :: t) m ↔ ∃ j, m = j + 1 ∧ PM r t j) (h : IsMax r t n) :
    IsMax r' (c :: t) (n + 1) := by
  refine ⟨(e _).mpr ⟨n, rfl, h.1⟩, fun m hm => ?_⟩
  obtain ⟨j, rfl, hj⟩ := (e m).mp hm
  exact Nat.succ_le_succ (h.2 j hj)

theorem noPM_shift {r r' : Re} {c : Char} {t : Str}
    (e : ∀ m, PM r' (c :: t) m ↔ ∃ j, m = j + 1 ∧ PM r t j) (h : NoPM r t) : NoPM r' (c :: t) := by
  intro m hm
  obtain ⟨j, rfl, hj⟩ := (e m).mp hm
  exact h j hj

theorem pm_chr_seq_cons {d : Char} {r : Re} {t : Str} (m : Nat) :
    PM (seq (cls [(d, d)]) r) (d :: t) m ↔ ∃ j, m = j + 1 ∧ PM r t j := by
  rw [pm_chr_seq]
  constructor
  · rintro ⟨t', j, ht, rfl, h⟩
    cases ht
    exact ⟨j, rfl, h⟩
  · rintro ⟨j, rfl, h⟩
    exact ⟨t, j, rfl, rfl, h⟩

theorem noPM_chr_seq_ne {d : Char} {r : Re} {s : Str} (h : ∀ t, s ≠ d :: t) :
    NoPM (seq (cls [(d, d)]) r) s := by
  intro m hm
  obtain ⟨t, j, ht, _, _⟩ := pm_chr_seq.mp hm
  exact h t ht

/-- only the empty prefix of `s` can match `b` when the first character of `s` cannot start `b` -/
theorem pm_zero_of_first {b : Re} {P : Char → Prop} {s : Str} {k : Nat} (hb : FirstIn b P)
    (hs : ∀ c w, s = c :: w → ¬ P c) (h : PM b s k) : k = 0 := by
  cases k with
  | zero => rfl
  | succ k =>
    cases s with
    | nil => have := h.1; simp at this
    | cons c w =>
      have := h.2
      rw [List.take_succ_cons] at this
      exact absurd (hb _ _ this) (hs c w rfl)

/-- the follow condition from a statement about the characters of the greedy match -/
theorem follow_of_all {b : Re} {P : Char → Prop} {s : Str} {n : Nat} (hb : FirstIn b P)
    (hall : ∀ c ∈ s.take n, ¬ P c) :
    ∀ m, m < n → ∀ k, PM b (s.drop m) k → k = 0 := by
  intro m hm k hk
  exact pm_zero_of_first hb (fun c w hcw => hall c (head_drop_mem_take hm hcw)) hk

theorem isMax_seq {a b : Re} {s : Str} {n k : Nat} (ha : IsMax a s n)
    (hf : ∀ m, PM a s m → m < n → ∀ j, PM b (s.drop m) j → j = 0)
    (hb : IsMax b (s.drop n) k) : IsMax (seq a b) s (n + k) := by
  refine ⟨pm_seq.mpr ⟨n, k, rfl, ha.1, hb.1⟩, fun m hm => ?_⟩
  obtain ⟨i, j, rfl, hi, hj⟩ := pm_seq.mp hm
  have hin := ha.2 i hi
  rcases Nat.lt_or_ge i n with hlt | hge
  · have := hf i hi hlt j hj
    omega
  · have : i = n := by omega
    subst this
    have := hb.2 j hj
    omega

theorem noPM_seq_left {a b : Re} {s : Str} (h : NoPM a s) : NoPM (seq a b) s := by
  intro m hm
  obtain ⟨i, j, rfl, hi, _⟩ := pm_seq.mp hm
  exact h i hi

theorem noPM_seq_right {a b : Re} {s : Str} {n : Nat} (ha : IsMax a s n) (hbn : ¬ Matches b [])
    (hf : ∀ m, PM a s m → m < n → ∀ j, PM b (s.drop m) j → j = 0)
    (hb : NoPM b (s.drop n)) : NoPM (seq a b) s := by
  intro m hm
  obtain ⟨i, j, rfl, hi, hj⟩ := pm_seq.mp hm
  have hin := ha.2 i hi
  rcases Nat.lt_or_ge i n with hlt | hge
  · have := hf i hi hlt j hj
    subst this
    exact hbn (pm_zero.mp hj)
  · have : i = n := by omega
    subst this
    exact hb j hj

theorem isMax_star_zero {a : Re} {s : Str} (h : NoPM a s) : IsMax (star a) s 0 := by
  refine ⟨pm_zero.mpr .starNil, fun m hm => ?_⟩
  rcases Nat.eq_zero_or_pos m with rfl | hpos
  · exact Nat.le_refl _
  · obtain ⟨i, j, _, _, hi, _⟩ := pm_star_pos hm hpos
    exact absurd hi (h i)

theorem isMax_star_step {a : Re} {s : Str} {n k : Nat} (ha : IsMax a s n)
    (hf : ∀ m, PM a s m → m < n → ∀ j, PM (star a) (s.drop m) j → j = 0)
    (hr : IsMax (star a) (s.drop n) k) : IsMax (star a) s (n + k) := by
  refine ⟨pm_star_intro ha.1 hr.1, fun m hm => ?_⟩
  rcases Nat.eq_zero_or_pos m with rfl | hpos
  · exact Nat.zero_le _
  · obtain ⟨i, j, rfl, _, hi, hj⟩ := pm_star_pos hm hpos
    have hin := ha.2 i hi
    rcases Nat.lt_or_ge i n with hlt | hge
    · have := hf i hi hlt j hj
      omega
    · have : i = n := by omega
      subst this
      have := hr.2 j hj
      omega

theorem isMax_opt_none {a : Re} {s : Str} (h : NoPM a s) : IsMax (opt a) s 0 := by
  refine ⟨pm_alt.mpr (.inr (pm_eps.mpr rfl)), fun m hm => ?_⟩
  rcases pm_alt.mp hm with h' | h'
  · exact absurd h' (h m)
  · rw [pm_eps.mp h']; exact Nat.le_refl _

theorem isMax_opt_some {a : Re} {s : Str} {n : Nat} (h : IsMax a s n) : IsMax (opt a) s n := by
  refine ⟨pm_alt.mpr (.inl h.1), fun m hm => ?_⟩
  rcases pm_alt.mp hm with h' | h'
  · exact h.2 m h'
  · rw [pm_eps.mp h']; exact Nat.zero_le _

/-! ### `a+` -/

theorem matches_plus {a : Re} (hn : ¬ Matches a []) {w : Str} :
    Matches (plus a) w ↔ w ≠ [] ∧ Matches (star a) w := by
  unfold plus
  rw [matches_seq]
  constructor
  · rintro ⟨u, v, rfl, h1, h2⟩
    refine ⟨?_, .starCons h1 h2⟩
    intro h
    rw [(List.append_eq_nil_iff.mp h).1] at h1
    exact hn h1
  · rintro ⟨hne, h⟩
    cases w with
    | nil => exact absurd rfl hne
    | cons c w =>
      obtain ⟨u, v, rfl, h1, h2⟩ := star_cons_inv h
      exact ⟨c :: u, v, rfl, h1, h2⟩

theorem pm_plus {a : Re} (hn : ¬ Matches a []) {s : Str} {m : Nat} :
    PM (plus a) s m ↔ 0 < m ∧ PM (star a) s m := by
  unfold PM
  rw [matches_plus hn]
  constructor
  · rintro ⟨h1, h2, h3⟩
    refine ⟨?_, h1, h3⟩
    rcases Nat.eq_zero_or_pos m with rfl | h
    · simp at h2
    · exact h
  · rintro ⟨h1, h2, h3⟩
    refine ⟨h2, ?_, h3⟩
    intro h
    have := congrArg List.length h
    rw [List.length_take, List.length_nil] at this
    omega

theorem recognises_plus {a : Re} (hn : ¬ Matches a []) {s : Str} {n : Nat} (h : IsMax (star a) s n) :
    Recognises (plus a) s n := by
  rcases Nat.eq_zero_or_pos n with rfl | hpos
  · left
    refine ⟨rfl, fun m hm => ?_⟩
    obtain ⟨h1, h2⟩ := (pm_plus hn).mp hm
    have := h.2 m h2
    omega
  · right
    exact ⟨hpos, (pm_plus hn).mpr ⟨hpos, h.1⟩, fun m hm => h.2 m ((pm_plus hn).mp hm).2⟩

theorem not_matches_plus_nil {a : Re} (hn : ¬ Matches a []) : ¬ Matches (plus a) [] := by
  intro h
  exact ((matches_plus hn).mp h).1 rfl

/-! ### first characters -/

theorem firstIn_cls_seq {rs : List (Char × Char)} {b : Re} :
    FirstIn (seq (cls rs) b) (fun c => inRanges c rs = true) := by
  intro c w h
  rcases matches_seq_cons.mp h with ⟨h1, _⟩ | ⟨u, v, _, h1, _⟩
  · obtain ⟨_, h, _⟩ := matches_cls.mp h1; cases h
  · obtain ⟨d, h, hin⟩ := matches_cls.mp h1
    cases h; exact hin

theorem firstIn_chr_seq {d : Char} {b : Re} : FirstIn (seq (cls [(d, d)]) b) (fun c => c = d) := by
  intro c w h
  exact inRanges_single.mp (firstIn_cls_seq c w h)

theorem FirstIn.mono {b : Re} {P Q : Char → Prop} (h : FirstIn b P) (hpq : ∀ c, P c → Q c) :
    FirstIn b Q := fun c w hm => hpq c (h c w hm)

theorem firstIn_star {a : Re} {P : Char → Prop} (h : FirstIn a P) : FirstIn (star a) P := by
  intro c w hm
  obtain ⟨u, v, _, h1, _⟩ := star_cons_inv hm
  exact h c u h1

theorem firstIn_alt {a b : Re} {P : Char → Prop} (ha : FirstIn a P) (hb : FirstIn b P) :
    FirstIn (alt a b) P := by
  intro c w hm
  rcases matches_alt.mp hm with h | h
  · exact ha c w h
  · exact hb c w h

theorem firstIn_eps {P : Char → Prop} : FirstIn eps P := by
  intro c w hm
  cases matches_eps.mp hm

theorem firstIn_opt {a : Re} {P : Char → Prop} (ha : FirstIn a P) : FirstIn (opt a) P :=
  firstIn_alt ha firstIn_eps

/-- the first part is not nullable -/
theorem firstIn_seq {a b : Re} {P : Char → Prop} (hn : ¬ Matches a []) (ha : FirstIn a P) :
    FirstIn (seq a b) P := by
  intro c w hm
  rcases matches_seq_cons.mp hm with ⟨h1, _⟩ | ⟨u, v, _, h1, _⟩
  · exact absurd h1 hn
  · exact ha c u h1

theorem firstIn_plus {a : Re} {P : Char → Prop} (hn : ¬ Matches a []) (ha : FirstIn a P) :
    FirstIn (plus a) P := firstIn_seq hn ha

theorem not_matches_cls_seq_nil {rs : List (Char × Char)} {b : Re} : ¬ Matches (seq (cls rs) b) [] := by
  intro h
  obtain ⟨h1, _⟩ := matches_seq_nil.mp h
  obtain ⟨_, h, _⟩ := matches_cls.mp h1
  cases h

theorem not_matches_seq_nil {a b : Re} (hn : ¬ Matches a []) : ¬ Matches (seq a b) [] :=
  fun h => hn (matches_seq_nil.mp h).1

/-! ### classes of single characters -/

/-- `a*` for an expression `a` matching single characters -/
theorem matches_star_single {a : Re} {q : Char → Bool}
    (hq : ∀ w, Matches a w ↔ ∃ c, w = [c] ∧ q c = true) {w : Str} :
    Matches (star a) w ↔ ∀ c ∈ w, q c = true := by
  induction w with
  | nil => simp [Matches.starNil]
  | cons c w ih =>
    constructor
    · intro h
      obtain ⟨u, v, rfl, h1, h2⟩ := star_cons_inv h
      obtain ⟨d, hd, hqd⟩ := (hq _).mp h1
      cases hd
      intro x hx
      rw [List.nil_append, List.mem_cons] at hx
      rcases hx with rfl | hx
      · exact hqd
      · exact ih.mp h2 x hx
    · intro h
      have h1 : Matches a [c] := (hq _).mpr ⟨c, rfl, h c List.mem_cons_self⟩
      have h2 : Matches (star a) w := ih.mpr fun x hx => h x (List.mem_cons_of_mem _ hx)
      exact .starCons h1 h2

theorem isMax_star_single {a : Re} {q : Char → Bool}
    (hq : ∀ w, Matches a w ↔ ∃ c, w = [c] ∧ q c = true) (s : Str) :
    IsMax (star a) s (s.takeWhile q).length := by
  refine ⟨⟨?_, ?_⟩, fun m hm => ?_⟩
  · have := congrArg List.length (take_length_takeWhile q s)
    rw [List.length_take] at this
    omega
  · rw [take_length_takeWhile, matches_star_single hq]
    exact fun c hc => mem_takeWhile_imp hc
  · exact le_takeWhile_of_all q s m hm.1 ((matches_star_single hq).mp hm.2)

theorem cls_single (rs : List (Char × Char)) :
    ∀ w, Matches (cls rs) w ↔ ∃ c, w = [c] ∧ inRanges c rs = true := fun _ => matches_cls

theorem ncls_single (rs : List (Char × Char)) :
    ∀ w, Matches (ncls rs) w ↔ ∃ c, w = [c] ∧ (!inRanges c rs) = true := by
  intro w
  rw [matches_ncls]
  simp

/-- `[class]*` against `takeWhile` of a predicate that agrees with the class -/
theorem isMax_star_cls {rs : List (Char × Char)} {p : Char → Bool}
    (hp : ∀ c, p c = inRanges c rs) (s : Str) :
    IsMax (star (cls rs)) s (s.takeWhile p).length := by
  have : p = fun c => inRanges c rs := funext hp
  rw [this]
  exact isMax_star_single (cls_single rs) s

/-- `[class]+` against `takeWhile` of a predicate that agrees with the class -/
theorem recognises_plus_cls {rs : List (Char × Char)} {p : Char → Bool}
    (hp : ∀ c, p c = inRanges c rs) (s : Str) :
    Recognises (plus (cls rs)) s (s.takeWhile p).length :=
  recognises_plus (fun h => by obtain ⟨_, h, _⟩ := matches_cls.mp h; cases h) (isMax_star_cls hp s)

end Wac.C12
