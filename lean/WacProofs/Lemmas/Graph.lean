import WacModel.Spec.Graph
/-
  Helper lemmas about the graph model (frames of the primitive operations, the shape of the
  state after `unregister_package`).
-/
namespace Wac.Graph
open Wac

/-- the package table is untouched -/
def PkgFrame (g g' : Graph) : Prop :=
  g'.pkgs = g.pkgs ∧ g'.pkgMap = g.pkgMap ∧ g'.freePkgs = g.freePkgs

theorem PkgFrame.refl (g : Graph) : PkgFrame g g := ⟨rfl, rfl, rfl⟩

theorem PkgFrame.trans {a b c : Graph} (h1 : PkgFrame a b) (h2 : PkgFrame b c) : PkgFrame a c :=
  ⟨h2.1.trans h1.1, h2.2.1.trans h1.2.1, h2.2.2.trans h1.2.2⟩

theorem clearSat_pkgFrame {g g' : Graph} {n i : Nat} (h : g.clearSat n i = .ok g') : PkgFrame g g' := by
  unfold Graph.clearSat at h
  split at h
  · simp at h
  · split at h
    · split at h
      · simp only [Except.ok.injEq] at h
        subst h
        exact ⟨rfl, rfl, rfl⟩
      · simp at h
    · simp at h

theorem clearSatEdges_pkgFrame (sel : Edge → Bool) :
    ∀ (es : List Edge) (g g' : Graph), clearSatEdges g sel es = .ok g' → PkgFrame g g'
  | [], g, g', h => by
    simp only [clearSatEdges, Except.ok.injEq] at h
    subst h; exact PkgFrame.refl _
  | e :: r, g, g', h => by
    unfold clearSatEdges at h
    split at h
    · split at h
      · split at h
        · simp at h
        · rename_i g1 h1
          exact (clearSat_pkgFrame h1).trans (clearSatEdges_pkgFrame sel r g1 g' h)
      · exact clearSatEdges_pkgFrame sel r g g' h
    · exact clearSatEdges_pkgFrame sel r g g' h

theorem rawRemove_pkgFrame {g g' : Graph} {n : Nat} {nd : Node} (h : g.rawRemove n = some (nd, g')) :
    PkgFrame g g' := by
  unfold Graph.rawRemove at h
  split at h
  · simp at h
  · simp only [Option.some.injEq, Prod.mk.injEq] at h
    obtain ⟨_, h⟩ := h
    subst h
    exact ⟨rfl, rfl, rfl⟩

theorem retainNodes_pkgFrame (g : Graph) (id : PkgId) : PkgFrame g (retainNodes g id) := by
  unfold retainNodes
  generalize List.range g.nodes.length = l
  induction l generalizing g with
  | nil => exact PkgFrame.refl _
  | cons i r ih =>
    simp only [List.foldl_cons]
    split
    · split
      · rename_i nd g' h
        exact (rawRemove_pkgFrame h).trans (ih g')
      · exact ih g
    · exact ih g

/-- the package table after a successful `unregister_package` -/
theorem unregister_ok_shape {lg : Legacy} {g g' : Graph} {id : PkgId}
    (h : unregisterPackage lg g id = (g', .ok .unit)) :
    ∃ slot d, g.pkgs[id.index]? = some slot ∧ slot.gen = id.gen ∧ slot.pkg = some d ∧
      g'.pkgs = g.pkgs.set id.index ⟨none, slot.gen + 1⟩ ∧
      g'.freePkgs = id.index :: g.freePkgs ∧ g'.pkgMap = alErase g.pkgMap d.key := by
  unfold unregisterPackage at h
  split at h
  · simp at h
  · rename_i slot hslot
    split at h
    · simp at h
    · rename_i hgen
      split at h
      · rename_i ex de im hex hde him
        dsimp only at h
        split at h
        · simp at h
        · rename_i g1 hc
          have f1 : PkgFrame g g1 := by
            split at hc
            · simp only [Except.ok.injEq] at hc; subst hc; exact PkgFrame.refl _
            · exact clearSatEdges_pkgFrame _ _ _ _ hc
          split at h
          · simp at h
          · rename_i d hd
            split at h
            · simp at h
            · simp only [Prod.mk.injEq, and_true] at h
              have f2 := retainNodes_pkgFrame { g1 with exports := ex, defined := de, imports := im } id
              refine ⟨slot, d, hslot, by simpa using hgen, hd, ?_, ?_, ?_⟩
              · rw [← h]; simp only; rw [f2.1]; simp only [f1.1]
              · rw [← h]; simp only; rw [f2.2.2]; simp only [f1.2.2]
              · rw [← h]; simp only; rw [f2.2.1]; simp only [f1.2.1]
      · simp at h

end Wac.Graph
