import WacModel.Parser
import WacModel.Spec.Grammar
/-
  C12 proofs, layer 0: the abstraction from the parser model's token stream (`Wac.Lex.LTok`:
  token kind or lexical error, span, text, doc comments) to the token sequence of the grammar
  specification (`Wac.Spec.Grammar.STok`: class + text), and the basic facts about the
  list-of-successes combinators of the specification evaluated on abstracted tokens.

  The abstraction is *lexer-independent*: a keyword / punctuation token is mapped to the terminal
  whose text is the documented text of that token kind (`litText`, tied to the generated lexer
  tables by `litText_tables`); the text the `LTok` carries is only used for the four token
  classes (identifier, string, package name, package path), exactly as the parser does.  A
  lexical-error item and the two comment kinds (never produced by the lexer) are mapped to a
  terminal with empty text, which no production of the grammar mentions.  The abstraction is of
  the items *as `Lexer::next` delivers them*: an opening bracket nested deeper than
  `MAX_NESTING_DEPTH` is delivered as the lexical error `NestingTooDeep` (`effToks`).
-/
namespace Wac.C12
open Wac Wac.Ast Wac.Lex Wac.Parse Wac.Spec.Grammar

/-- the documented text of a keyword / punctuation token kind (`""` for the kinds that are not
terminals of the grammar) -/
def litText : Token → String
  | .ImportKeyword => "import" | .WithKeyword => "with" | .TypeKeyword => "type"
  | .TupleKeyword => "tuple" | .ListKeyword => "list" | .OptionKeyword => "option"
  | .ResultKeyword => "result" | .BorrowKeyword => "borrow" | .ResourceKeyword => "resource"
  | .VariantKeyword => "variant" | .RecordKeyword => "record" | .FlagsKeyword => "flags"
  | .EnumKeyword => "enum" | .FuncKeyword => "func" | .StaticKeyword => "static"
  | .ConstructorKeyword => "constructor" | .U8Keyword => "u8" | .S8Keyword => "s8"
  | .U16Keyword => "u16" | .S16Keyword => "s16" | .U32Keyword => "u32" | .S32Keyword => "s32"
  | .U64Keyword => "u64" | .S64Keyword => "s64" | .F32Keyword => "f32" | .F64Keyword => "f64"
  | .CharKeyword => "char" | .BoolKeyword => "bool" | .StringKeyword => "string"
  | .InterfaceKeyword => "interface" | .WorldKeyword => "world" | .ExportKeyword => "export"
  | .NewKeyword => "new" | .LetKeyword => "let" | .UseKeyword => "use"
  | .IncludeKeyword => "include" | .AsKeyword => "as" | .PackageKeyword => "package"
  | .TargetsKeyword => "targets"
  | .Semicolon => ";" | .OpenBrace => "{" | .CloseBrace => "}" | .Colon => ":" | .Equals => "="
  | .OpenParen => "(" | .CloseParen => ")" | .Arrow => "->" | .OpenAngle => "<"
  | .CloseAngle => ">" | .Underscore => "_" | .OpenBracket => "[" | .CloseBracket => "]"
  | .Dot => "." | .Ellipsis => "..." | .Comma => "," | .Slash => "/" | .At => "@"
  | .Comment => "" | .BlockComment => "" | .Ident => "" | .String => "" | .PackageName => ""
  | .PackagePath => ""

/-- the token kinds that are terminals given by their text -/
def isLit (k : Token) : Bool := litText k != ""

/-- `litText` is the text the (generated) lexer tables attach to the token kind -/
theorem litText_tables :
    ∀ e ∈ keywordTable ++ symbolTable, (litText e.2).toList = e.1 := by
  decide

/-- the grammar token an item of the parser's token stream stands for -/
def absTok (tk : LTok) : STok :=
  match tk.res with
  | .error _ => ⟨.lit, []⟩
  | .ok .Ident => ⟨.id, tk.text⟩
  | .ok .String => ⟨.string, tk.text⟩
  | .ok .PackageName => ⟨.packageName, tk.text⟩
  | .ok .PackagePath => ⟨.packagePath, tk.text⟩
  | .ok k => ⟨.lit, (litText k).toList⟩

/-- the items of the token stream as `Iterator::next` delivers them from nesting depth `d`: an
opening bracket beyond the nesting limit is delivered as the lexical error `NestingTooDeep`
(`Lexer::next`, model `PState.next`) -/
def effToks : Nat → List LTok → List LTok
  | _, [] => []
  | d, t :: r =>
    match t.res with
    | .ok k =>
      if isOpenBracket k then
        (if tooDeep (d + 1) then { t with res := .error .NestingTooDeep } else t) :: effToks (d + 1) r
      else if isCloseBracket k then t :: effToks (d - 1) r
      else t :: effToks d r
    | .error _ => t :: effToks d r

/-- the items the parser will be delivered from this state -/
def eff (st : PState) : List LTok := effToks st.depth st.toks

/-- the grammar token sequence the parser state stands for (of the items as delivered) -/
def abs (st : PState) : List STok := (eff st).map absTok

/-- inverse of `litText` on terminals -/
def ofLit : String → Option Token
  | "import" => some .ImportKeyword | "with" => some .WithKeyword | "type" => some .TypeKeyword
  | "tuple" => some .TupleKeyword | "list" => some .ListKeyword | "option" => some .OptionKeyword
  | "result" => some .ResultKeyword | "borrow" => some .BorrowKeyword
  | "resource" => some .ResourceKeyword | "variant" => some .VariantKeyword
  | "record" => some .RecordKeyword | "flags" => some .FlagsKeyword | "enum" => some .EnumKeyword
  | "func" => some .FuncKeyword | "static" => some .StaticKeyword
  | "constructor" => some .ConstructorKeyword | "u8" => some .U8Keyword | "s8" => some .S8Keyword
  | "u16" => some .U16Keyword | "s16" => some .S16Keyword | "u32" => some .U32Keyword
  | "s32" => some .S32Keyword | "u64" => some .U64Keyword | "s64" => some .S64Keyword
  | "f32" => some .F32Keyword | "f64" => some .F64Keyword | "char" => some .CharKeyword
  | "bool" => some .BoolKeyword | "string" => some .StringKeyword
  | "interface" => some .InterfaceKeyword | "world" => some .WorldKeyword
  | "export" => some .ExportKeyword | "new" => some .NewKeyword | "let" => some .LetKeyword
  | "use" => some .UseKeyword | "include" => some .IncludeKeyword | "as" => some .AsKeyword
  | "package" => some .PackageKeyword | "targets" => some .TargetsKeyword
  | ";" => some .Semicolon | "{" => some .OpenBrace | "}" => some .CloseBrace
  | ":" => some .Colon | "=" => some .Equals | "(" => some .OpenParen | ")" => some .CloseParen
  | "->" => some .Arrow | "<" => some .OpenAngle | ">" => some .CloseAngle
  | "_" => some .Underscore | "[" => some .OpenBracket | "]" => some .CloseBracket
  | "." => some .Dot | "..." => some .Ellipsis | "," => some .Comma | "/" => some .Slash
  | "@" => some .At
  | _ => none

theorem ofLit_litText (k : Token) (h : isLit k = true) : ofLit (litText k) = some k := by
  cases k <;> first | rfl | (exact absurd h (by decide))

theorem litText_inj {k k' : Token} (h : isLit k = true) (h' : isLit k' = true)
    (e : litText k = litText k') : k = k' := by
  have := ofLit_litText k h
  rw [e, ofLit_litText k' h'] at this
  exact (Option.some.inj this).symm

end Wac.C12
