import WacProofs.Lemmas.DecodeMutual
/-
  C08 `decode_tree`, part 13: `Package::from_bytes` — the top-level imports and exports, the world
  and the renaming `ρ` read off the final resource map.
-/
namespace Wac.Decode
open Wac Wac.Spec.Decode

section
variable {w : WTypes} {ρ : Nat → Res} {oi ow : List Nat} {c : Nat} {P : St → Prop}

theorem loopM_goodC {α β : Type} {f : St → α → Outcome (St × β)} {R : St → α → β → Prop}
    (hf : GoodC ρ P f R) (hR : Stable R) :
    GoodC ρ P (loopM f) (fun st xs ys => All2 (R st) xs ys) := by
  intro st xs
  induction xs generalizing st with
  | nil =>
    intro st' ys h
    simp only [loopM] at h
    cases h
    exact ⟨Frame.refl _, fun hP _ => ⟨hP, trivial⟩⟩
  | cons x xs ih =>
    intro st' ys h
    simp only [loopM] at h
    split at h
    · rename_i st1 y hy
      obtain ⟨f1, k1⟩ := hf _ _ _ _ hy
      split at h
      · rename_i st2 ys' hys
        cases h
        obtain ⟨f2, k2⟩ := ih _ _ _ hys
        refine ⟨f1.trans f2, fun hP hC => ?_⟩
        obtain ⟨p1, r1⟩ := k1 hP (Cons.back f2 hC)
        obtain ⟨p2, r2⟩ := k2 p1 hC
        exact ⟨p2, hR _ _ _ _ f2 r1, r2⟩
      · cases h
      · cases h
    · cases h
    · cases h

theorem topItems_ok (hn : NamesOk w) (fuel : Nat) :
    GoodC ρ (InvR w ρ [] [] 0) (topItems w fuel) (fun st es ks => All2 (NK w ρ [] [] 0 st) es ks) := by
  have hE := (mutual_ok (ρ := ρ) hn fuel).1 [] [] 0
  unfold topItems
  apply loopM_goodC
  · intro st ne st' y h
    dsimp only at h
    split at h
    · rename_i st1 k hk
      cases h
      obtain ⟨fr, kk⟩ := hE st ne _ _ hk
      exact ⟨fr, fun hP hC => ⟨(kk hP hC).1, rfl, (kk hP hC).2⟩⟩
    · cases h
    · cases h
  · exact fun _ _ _ _ hf h => ⟨h.1, h.2.mono hf⟩

end

/-- the renaming read off a converter state: a base resource of the resource map ↦ its root
resource; any other number ↦ a leaf outside the arena (so that `ρ` is injective) -/
def rhoOf (st : St) (b : Nat) : Res :=
  match lookup st.resourceMap b with
  | some s =>
    match st.types.resources[s]? with
    | some x => ⟨st.types.uid, s, x.name⟩
    | none => ⟨st.types.uid, s, []⟩
  | none => ⟨st.types.uid, st.types.resources.length + b, []⟩

theorem cons_rhoOf (st : St) : Cons (rhoOf st) st := by
  intro b s x hb hx
  simp [rhoOf, hb, hx]

theorem rhoOf_inj {w : WTypes} {ρ : Nat → Res} {oi ow : List Nat} {c : Nat} {st : St}
    (h : Inv w ρ oi ow c st) : ∀ a b, (rhoOf st a).idx = (rhoOf st b).idx → a = b := by
  have hrange : ∀ b0 s0, lookup st.resourceMap b0 = some s0 → s0 < st.types.resources.length := by
    intro b0 s0 h0
    obtain ⟨x, hx, _⟩ := h.rm b0 s0 h0
    exact getElem?_lt_of_some hx
  have hidx : ∀ a, (rhoOf st a).idx =
      match lookup st.resourceMap a with
      | some s => s
      | none => st.types.resources.length + a := by
    intro a
    unfold rhoOf
    split
    · split <;> rfl
    · rfl
  intro a b hab
  rw [hidx a, hidx b] at hab
  cases ha : lookup st.resourceMap a with
  | some s =>
    cases hb : lookup st.resourceMap b with
    | some s' =>
      rw [ha, hb] at hab
      simp only at hab
      subst hab
      exact h.inj a b _ ha hb
    | none =>
      rw [ha, hb] at hab
      simp only at hab
      have := hrange _ _ ha; omega
  | none =>
    cases hb : lookup st.resourceMap b with
    | some s' =>
      rw [ha, hb] at hab
      simp only at hab
      have := hrange _ _ hb; omega
    | none =>
      rw [ha, hb] at hab
      simp only at hab
      omega

theorem inv_empty (w : WTypes) (ρ : Nat → Res) : InvR w ρ [] [] 0 ({} : St) := by
  refine ⟨⟨Nat.zero_le _, ?_, ?_, ?_, ?_, ?_, ?_, ?_, ?_⟩, fun _ h => (by cases h), fun _ h => (by cases h)⟩ <;>
    intros <;> simp_all [lookup]

/-- Shape of a successful `fromBytes`, with the converter states. -/
theorem fromBytes_shape (w : WTypes) (d : Decoded) (h : fromBytes w = .ok d) :
    ∃ root st st' imports exports,
      w.comps[w.root]? = some root ∧
      topItems w w.fuel {} root.imports = .ok (st, imports) ∧
      topItems w w.fuel st root.exports = .ok (st', exports) ∧
      d.world = st'.types.worlds.length ∧
      d.instanceType = st'.types.interfaces.length ∧
      d.types = { st'.types with
        worlds := st'.types.worlds ++
          [{ id := none, uses := [], imports := collectMap imports, exports := collectMap exports }],
        interfaces := st'.types.interfaces ++ [{ id := none, uses := [], exports := collectMap exports }] } := by
  unfold fromBytes at h
  split at h
  · cases h
  · rename_i root hroot
    simp only at h
    split at h
    · rename_i st imports himp
      split at h
      · rename_i st' exports hexp
        simp only [addWorld, addInterface] at h
        cases h
        exact ⟨root, st, st', imports, exports, hroot, himp, hexp, rfl, rfl, rfl⟩
      · cases h
      · cases h
    · cases h
    · cases h

/-- **decode_lists_exact, strengthened to trees**: the decoded world lists the converted imports and
exports of the component — same names, same order — and every item denotes (in the decoded
collection, with the default fuel of `unfold`) the tree of the validator's item, resource leaves
renamed by an injective `ρ`; the resource ids cached by the converter are the leaves `ρ base`. -/
theorem fromBytes_lists (w : WTypes) (d : Decoded) (root : WComp) (hn : NamesOk w)
    (hroot : w.comps[w.root]? = some root)
    (hi : (root.imports.map (·.1)).Nodup) (he : (root.exports.map (·.1)).Nodup)
    (h : fromBytes w = .ok d) :
    ∃ (ρ : Nat → Res) (st : St) (imports exports : List (Str × ItemKind)),
      (∀ a b, (ρ a).idx = (ρ b).idx → a = b) ∧
      (∃ st0, topItems w w.fuel {} root.imports = .ok (st0, imports) ∧
        topItems w w.fuel st0 root.exports = .ok (st, exports)) ∧
      Ext [] [] st.types d.types ∧ Inv w ρ [] [] 0 st ∧
      d.types.fuel = (Types.size st.types + 3) + 1 ∧
      d.types.worlds[d.world]? = some { id := none, uses := [], imports := imports, exports := exports } ∧
      All2 (NK w ρ [] [] 0 st) root.imports imports ∧ All2 (NK w ρ [] [] 0 st) root.exports exports := by
  obtain ⟨root', st, st', imports, exports, hroot', himp, hexp, hworld, _, htypes⟩ := fromBytes_shape w d h
  rw [hroot] at hroot'; cases hroot'
  let ρ := rhoOf st'
  obtain ⟨f1, k1⟩ := topItems_ok (ρ := ρ) hn w.fuel _ _ _ _ himp
  obtain ⟨f2, k2⟩ := topItems_ok (ρ := ρ) hn w.fuel _ _ _ _ hexp
  have hc2 : Cons ρ st' := cons_rhoOf st'
  obtain ⟨p1, r1⟩ := k1 (inv_empty w ρ) (Cons.back f2 hc2)
  obtain ⟨p2, r2⟩ := k2 p1 hc2
  have r1' : All2 (NK w ρ [] [] 0 st') root.imports imports :=
    All2.imp (fun x y hxy => ⟨hxy.1, hxy.2.mono f2⟩) r1
  have hci : collectMap imports = imports :=
    collectMap_nodup _ (by rw [All2_named_fst r1']; exact hi)
  have hce : collectMap exports = exports :=
    collectMap_nodup _ (by rw [All2_named_fst r2]; exact he)
  have hext : Ext [] [] st'.types d.types := by
    rw [htypes]
    refine ⟨rfl, fun _ _ h => h, fun _ _ h => h, fun _ _ h => h, fun _ x h => ⟨x, h, rfl, rfl⟩, ?_, ?_⟩
    · intro i y _ h
      exact ⟨y, getElem?_append_lt' _ _ _ _ h, rfl⟩
    · intro i y _ h
      exact ⟨y, getElem?_append_lt' _ _ _ _ h, rfl, rfl⟩
  have hfuel : d.types.fuel = (Types.size st'.types + 3) + 1 := by
    rw [htypes]
    simp [Types.fuel, Types.size]; omega
  have hwd : d.types.worlds[d.world]? =
      some { id := none, uses := [], imports := imports, exports := exports } := by
    rw [htypes, hworld, hci, hce]
    simp
  exact ⟨ρ, st', imports, exports, rhoOf_inj p2.1, ⟨st, himp, hexp⟩, hext, p2.1, hfuel, hwd, r1', r2⟩

/-- **the decoded world denotes the component's type**, resource leaves renamed by the final
resource map -/
theorem fromBytes_tree (w : WTypes) (d : Decoded) (root : WComp) (t : Tree) (hn : NamesOk w)
    (hroot : w.comps[w.root]? = some root)
    (hi : (root.imports.map (·.1)).Nodup) (he : (root.exports.map (·.1)).Nodup)
    (h : fromBytes w = .ok d) (ht : treeW w = some t) :
    ∃ ρ : Nat → Res, (∀ a b, (ρ a).idx = (ρ b).idx → a = b) ∧
      d.types.unfold (.component d.world) = some (renT ρ t) := by
  obtain ⟨ρ, st', imports, exports, hinj, _, hext, _, hfuel, hwd, r1', r2⟩ :=
    fromBytes_lists w d root hn hroot hi he h
  refine ⟨ρ, hinj, ?_⟩
  unfold treeW at ht
  obtain ⟨g', hg⟩ := entTree_pos ht
  rw [hg] at ht
  simp only [entTree, hroot] at ht
  split at ht
  · rename_i a b ha hb
    cases ht
    have hb' : bnd 0 st' + 2 ≤ Types.size st'.types + 3 := by unfold bnd; omega
    have h1 := entTrees_fact r1' g' a ha d.types _ hext hb'
    have h2 := entTrees_fact r2 g' b hb d.types _ hext hb'
    unfold Types.unfold
    rw [hfuel]
    simp only [Types.unfoldKind, hwd, h1, h2, renT]
  · cases ht

end Wac.Decode
