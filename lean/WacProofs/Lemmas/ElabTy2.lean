import WacProofs.Lemmas.ElabTy
/-
  C05 `elab_denotes`, part 2: `AstResolver::ty` is faithful.
-/
namespace Wac.Elab
open Wac Wac.Spec.Wit Wac.Decode

variable {ρ : Nat → Res}

theorem unfoldUnnamed_all2 {T' : Types} {F : Nat} :
    ∀ {vs : List ValueType} {l : List Tree},
      All2 (fun v t => Types.unfoldVT T' F v = some (renT ρ t)) vs l →
      unfoldUnnamed (Types.unfoldVT T' F) vs = some (renF ρ (Forest.ofList (l.map fun t => ([], t))))
  | [], [], _ => rfl
  | v :: vs, t :: l, ⟨h1, h2⟩ => by
    simp only [unfoldUnnamed, h1, unfoldUnnamed_all2 h2, List.map_cons, Forest.ofList, renF]
  | [], _ :: _, hf => hf.elim
  | _ :: _, [], hf => hf.elim

/-- the list of component types of a tuple -/
theorem go_ok {fuel : Nat}
    (ih : ∀ (st : St) (wt : WTy) (st' : St) (v : ValueType), ty fuel st wt = .ok (st', v) →
      ∀ s g, TyOk ρ st st' v s g wt) :
    ∀ (ts : List WTy) (st st1 : St) (vs : List ValueType), ty.go fuel st ts = .ok (st1, vs) →
      Grow st.types st1.types ∧ st1.scope = st.scope ∧ st1.root = st.root ∧
      ∀ (s : Scope) (g : Nat), Sim ρ st.types st.scope s.binds → ∀ l, ts.mapM (tyTree s g) = some l →
        All2 (fun v t => HV [] [] st1.types (vb st1.types) v (renT ρ t)) vs l := by
  intro ts
  induction ts with
  | nil =>
    intro st st1 vs h
    simp only [ty.go] at h
    cases h
    refine ⟨Grow.refl _, rfl, rfl, ?_⟩
    intro s g _ l hl
    simp only [List.mapM_nil] at hl
    cases hl
    trivial
  | cons t r ihr =>
    intro st st1 vs h
    simp only [ty.go] at h
    split at h
    · rename_i st2 v hv
      split at h
      · rename_i st3 vs' hvs
        cases h
        have k1 := ih _ _ _ _ hv
        obtain ⟨g2, sc2, rt2, k2⟩ := ihr _ _ _ hvs
        have g1 := (k1 default 0).grow
        have sc1 := (k1 default 0).scope
        have rt1 := (k1 default 0).root
        refine ⟨g1.trans g2, sc2.trans sc1, rt2.trans rt1, ?_⟩
        intro s g hsim l hl
        simp only [List.mapM_cons, Option.pure_def, Option.bind_eq_bind] at hl
        obtain ⟨t1, ht1, hl⟩ := Option.bind_eq_some_iff.mp hl
        obtain ⟨l', hl', hl⟩ := Option.bind_eq_some_iff.mp hl
        cases hl
        have hsim2 : Sim ρ st2.types st2.scope s.binds := by rw [sc1]; exact hsim.mono g1
        exact ⟨HV.mono ((k1 s g).tree hsim t1 ht1) g2.ext (by have := g2.size; unfold vb; omega),
          k2 s g hsim2 l' hl'⟩
      · cases h
    · cases h

/-- the optional arms of a `result` -/
def optTy (fuel : Nat) (st : St) : Option WTy → M (St × Option ValueType)
  | none => .ok (st, none)
  | some t =>
    match ty fuel st t with
    | .ok (st, v) => .ok (st, some v)
    | .error e => .error e

theorem ty_result_eq (fuel : Nat) (st : St) (a b : Option WTy) : ty (fuel + 1) st (.result a b) =
    match optTy fuel st a with
    | .ok (st, a) =>
      match optTy fuel st b with
      | .ok (st, b) => let (st, id) := addDefined st (.result a b); .ok (st, .defined id)
      | .error e => .error e
    | .error e => .error e := by
  cases a <;> cases b <;> simp only [ty, optTy] <;> try rfl

def optWTree (s : Scope) (g : Nat) : Option WTy → Option Tree
  | none => some .none
  | some t => tyTree s g t

theorem tyTree_result_eq (s : Scope) (g : Nat) (a b : Option WTy) : tyTree s (g + 1) (.result a b) =
    match optWTree s g a, optWTree s g b with
    | some a, some b => some (.result a b)
    | _, _ => none := by
  cases a <;> cases b <;> simp only [tyTree, optWTree] <;> try rfl

theorem optTy_ok {fuel : Nat}
    (ih : ∀ (st : St) (wt : WTy) (st' : St) (v : ValueType), ty fuel st wt = .ok (st', v) →
      ∀ s g, TyOk ρ st st' v s g wt)
    {st st1 : St} {o : Option WTy} {o' : Option ValueType} (h : optTy fuel st o = .ok (st1, o')) :
    Grow st.types st1.types ∧ st1.scope = st.scope ∧ st1.root = st.root ∧
    ∀ (s : Scope) (g : Nat), Sim ρ st.types st.scope s.binds → ∀ t, optWTree s g o = some t →
      ∀ T' F, Ext [] [] st1.types T' → vb st1.types ≤ F → unfoldOpt (Types.unfoldVT T' F) o' = some (renT ρ t) := by
  cases o with
  | none =>
    simp only [optTy] at h
    cases h
    refine ⟨Grow.refl _, rfl, rfl, ?_⟩
    intro s g _ t ht T' F _ _
    simp only [optWTree] at ht
    cases ht
    rfl
  | some wt =>
    simp only [optTy] at h
    split at h
    · rename_i st2 v hv
      cases h
      have k := ih _ _ _ _ hv
      refine ⟨(k default 0).grow, (k default 0).scope, (k default 0).root, ?_⟩
      intro s g hsim t ht T' F he hF
      simp only [optWTree] at ht
      exact (k s g).tree hsim t ht T' F he hF
    · cases h

theorem ty_ok : ∀ (fuel : Nat) (st : St) (wt : WTy) (st' : St) (v : ValueType),
    ty fuel st wt = .ok (st', v) → ∀ s g, TyOk ρ st st' v s g wt
  | 0, st, wt, st', v, h => by simp [ty] at h
  | fuel + 1, st, wt, st', v, h => by
    have ih := ty_ok fuel
    intro s g
    cases wt with
    | prim p =>
      simp only [ty] at h
      cases h
      refine ⟨Grow.refl _, rfl, rfl, ?_⟩
      intro _ t ht T' F _ hF
      obtain ⟨g', rfl⟩ := tyTree_pos ht
      simp only [tyTree] at ht
      cases ht
      obtain ⟨F', rfl⟩ : ∃ F', F = F' + 1 := ⟨F - 1, by unfold vb at hF; omega⟩
      rfl
    | list t1 =>
      simp only [ty] at h
      split at h
      · rename_i st1 v1 hv1
        cases h
        have k1 := ih _ _ _ _ hv1 s (g - 1)
        refine ⟨k1.grow.trans (Grow.addDefined _ _), k1.scope, k1.root, ?_⟩
        intro hsim t ht
        obtain ⟨g', rfl⟩ := tyTree_pos ht
        simp only [tyTree] at ht
        obtain ⟨t', ht', rfl⟩ := Option.map_eq_some_iff.mp ht
        apply HV_new
        intro T' F he hF
        simp only [unfoldDefined, k1.tree hsim t' ht' T' F he hF, Option.map_some, renT]
      · cases h
    | option t1 =>
      simp only [ty] at h
      split at h
      · rename_i st1 v1 hv1
        cases h
        have k1 := ih _ _ _ _ hv1 s (g - 1)
        refine ⟨k1.grow.trans (Grow.addDefined _ _), k1.scope, k1.root, ?_⟩
        intro hsim t ht
        obtain ⟨g', rfl⟩ := tyTree_pos ht
        simp only [tyTree] at ht
        obtain ⟨t', ht', rfl⟩ := Option.map_eq_some_iff.mp ht
        apply HV_new
        intro T' F he hF
        simp only [unfoldDefined, k1.tree hsim t' ht' T' F he hF, Option.map_some, renT]
      · cases h
    | tuple ts =>
      simp only [ty] at h
      split at h
      · rename_i st1 vs hvs
        cases h
        obtain ⟨g1, sc1, rt1, k1⟩ := go_ok ih _ _ _ _ hvs
        refine ⟨g1.trans (Grow.addDefined _ _), sc1, rt1, ?_⟩
        intro hsim t ht
        obtain ⟨g', rfl⟩ := tyTree_pos ht
        simp only [tyTree] at ht
        obtain ⟨l, hl, rfl⟩ := Option.map_eq_some_iff.mp ht
        apply HV_new
        intro T' F he hF
        have := k1 s g' hsim l hl
        simp only [unfoldDefined,
          unfoldUnnamed_all2 (All2.imp (fun v t hvt => hvt T' F he hF) this), Option.map_some, renT]
      · cases h
    | result a b =>
      rw [ty_result_eq] at h
      split at h
      · rename_i st1 a' ha
        split at h
        · rename_i st2 b' hb
          simp only at h
          cases h
          obtain ⟨g1, sc1, rt1, k1⟩ := optTy_ok ih ha
          obtain ⟨g2, sc2, rt2, k2⟩ := optTy_ok ih hb
          refine ⟨(g1.trans g2).trans (Grow.addDefined _ _), sc2.trans sc1, rt2.trans rt1, ?_⟩
          intro hsim t ht
          obtain ⟨g', rfl⟩ := tyTree_pos ht
          rw [tyTree_result_eq] at ht
          split at ht
          · rename_i ta tb hta htb
            cases ht
            have hsim1 : Sim ρ st1.types st1.scope s.binds := by rw [sc1]; exact hsim.mono g1
            apply HV_new
            intro T' F he hF
            have h1 := k1 s g' hsim ta hta T' F (g2.ext.trans he) (by have := g2.size; unfold vb at hF ⊢; omega)
            have h2 := k2 s g' hsim1 tb htb T' F he hF
            simp only [unfoldDefined, h1, h2, renT]
          · cases ht
        · cases h
      · cases h
    | borrow n =>
      simp only [ty, localItem] at h
      cases hs : alGet st.scope n with
      | none => simp [hs] at h
      | some bd =>
        rw [hs] at h
        simp only at h
        split at h
        · rename_i r heq
          cases heq
          cases h
          refine ⟨Grow.refl _, rfl, rfl, ?_⟩
          intro hsim t ht
          obtain ⟨g', rfl⟩ := tyTree_pos ht
          simp only [tyTree, Scope.get] at ht
          have hn := hsim n
          rw [hs] at hn
          split at ht
          · rename_i q hq
            cases ht
            rw [hq] at hn
            intro T' F he hF
            obtain ⟨F', rfl⟩ : ∃ F', F = F' + 1 := ⟨F - 1, by unfold vb at hF; omega⟩
            simp only [Types.unfoldVT, hn.toHL T' he, Option.map_some, renT]
          · cases ht
        · cases h
        · cases h
    | id n =>
      simp only [ty, localItem] at h
      cases hs : alGet st.scope n with
      | none => simp [hs] at h
      | some bd =>
        rw [hs] at h
        simp only at h
        split at h
        · rename_i r heq
          cases heq
          cases h
          refine ⟨Grow.refl _, rfl, rfl, ?_⟩
          intro hsim t ht
          obtain ⟨g', rfl⟩ := tyTree_pos ht
          simp only [tyTree, Scope.get] at ht
          have hn := hsim n
          rw [hs] at hn
          split at ht
          · rename_i t' hq
            rw [hq] at hn
            exact hn.elim
          · rename_i q hq
            cases ht
            rw [hq] at hn
            intro T' F he hF
            obtain ⟨F', rfl⟩ : ∃ F', F = F' + 1 := ⟨F - 1, by unfold vb at hF; omega⟩
            simp only [Types.unfoldVT, hn.toHL T' he, Option.map_some, renT]
          · cases ht
        · rename_i v' heq
          cases heq
          cases h
          refine ⟨Grow.refl _, rfl, rfl, ?_⟩
          intro hsim t ht
          obtain ⟨g', rfl⟩ := tyTree_pos ht
          simp only [tyTree, Scope.get] at ht
          have hn := hsim n
          rw [hs] at hn
          split at ht
          · rename_i t' hq
            cases ht
            rw [hq] at hn
            exact hn
          · rename_i q hq
            rw [hq] at hn
            exact hn.elim
          · cases ht
        · cases h
        · cases h

end Wac.Elab
