import WacProofs.Lemmas.GraphInv
/-
  `register_package` preserves `Inv`.
-/
namespace Wac.Graph
open Wac Wac.HashSites

/-- package lookups after overwriting slot `i` -/
theorem pkgOf_set {g g' : Graph} {i gen : Nat} {d : PkgDef} (hp : g'.pkgs = g.pkgs.set i ⟨some d, gen⟩)
    (hi : i < g.pkgs.length) (id : PkgId) :
    g'.pkgOf id = if id.index = i then (if gen ≠ id.gen then .error .invalidPackageId else .ok d)
      else g.pkgOf id := by
  unfold Graph.pkgOf
  rw [hp]
  by_cases hid : id.index = i
  · rw [hid, List.getElem?_set_self hi]; simp
  · rw [List.getElem?_set_ne (Ne.symm hid)]; simp [hid]

/-- package lookups after appending a slot -/
theorem pkgOf_append {g g' : Graph} {d : PkgDef} (hp : g'.pkgs = g.pkgs ++ [⟨some d, 0⟩]) (id : PkgId) :
    g'.pkgOf id = if id.index = g.pkgs.length then (if (0 : Nat) ≠ id.gen then .error .invalidPackageId else .ok d)
      else g.pkgOf id := by
  unfold Graph.pkgOf
  rw [hp]
  by_cases hid : id.index = g.pkgs.length
  · rw [hid]; simp
  · simp only [hid, ↓reduceIte]
    rcases Nat.lt_or_ge id.index g.pkgs.length with hl | hl
    · rw [List.getElem?_append_left hl]
    · have : g.pkgs.length < id.index := Nat.lt_of_le_of_ne hl (Ne.symm hid)
      rw [List.getElem?_eq_none (by simp; omega), List.getElem?_eq_none hl]

/-- reuse of the vacant slot `i` (head of the free list) -/
theorem inv_register_reuse {ctx : Ctx} {g g' : Graph} {d : PkgDef} {i : Nat} {r : List Nat} {slot : PkgSlot}
    (h : Inv ctx g) (hfresh : alGet g.pkgMap d.key = none) (hfree : g.freePkgs = i :: r)
    (hslot : g.pkgs[i]? = some slot) (hvac : slot.pkg = none)
    (hn : g'.nodes = g.nodes) (hfn : g'.freeNodes = g.freeNodes) (he : g'.edges = g.edges)
    (him : g'.imports = g.imports) (hde : g'.defined = g.defined) (hex : g'.exports = g.exports)
    (hp : g'.pkgs = g.pkgs.set i ⟨some d, slot.gen⟩) (hfp : g'.freePkgs = r)
    (hm : g'.pkgMap = alInsert g.pkgMap d.key ⟨i, slot.gen⟩) : Inv ctx g' := by
  have hi : i < g.pkgs.length := by
    rcases Nat.lt_or_ge i g.pkgs.length with hl | hl
    · exact hl
    · rw [List.getElem?_eq_none hl] at hslot; cases hslot
  have hnd := h.freePkgsNodup
  rw [hfree, List.nodup_cons] at hnd
  have hpk := pkgOf_set hp hi
  have mono : PkgMono g g' := by
    intro id d' hd'
    rw [hpk]
    by_cases hid : id.index = i
    · -- the slot was vacant: no live id pointed at it
      unfold Graph.pkgOf at hd'
      rw [hid, hslot] at hd'
      simp only [hvac] at hd'
      split at hd' <;> cases hd'
    · simp [hid, hd']
  apply inv_of_pkgTable h hn hfn he him hde hex mono
  · rw [hm]; exact alInsert_keys_nodup hfresh h.pkgMapKeys
  · intro e he'
    rw [hm] at he'
    rcases (alInsert_mem hfresh e).mp he' with he' | rfl
    · obtain ⟨pd, hpd, hk⟩ := h.pkgMapLive e he'
      exact ⟨pd, toOption_mem.mpr (mono _ _ (toOption_mem.mp hpd)), hk⟩
    · refine ⟨d, toOption_mem.mpr ?_, rfl⟩
      rw [hpk]; simp
  · intro j hj slot' hs'
    rw [hp] at hs'
    by_cases hji : j = i
    · subst hji
      rw [List.getElem?_set_self hi] at hs'
      simp only [Option.mem_def, Option.some.injEq] at hs'
      subst hs'
      unfold SlotOk
      simp only
      rw [hm, hfp]
      exact ⟨by rw [alGet_alInsert]; simp, hnd.1⟩
    · rw [List.getElem?_set_ne (Ne.symm hji)] at hs'
      have so := h.slot hs'
      unfold SlotOk at so ⊢
      rw [hm, hfp]
      cases hq : slot'.pkg with
      | none =>
        rw [hq] at so
        simp only at so ⊢
        rw [hfree] at so
        rcases List.mem_cons.mp so with e | e
        · exact absurd e hji
        · exact e
      | some pd =>
        rw [hq] at so
        simp only at so ⊢
        refine ⟨alGet_insert_other hfresh so.1, ?_⟩
        intro hmem
        exact so.2 (by rw [hfree]; exact List.mem_cons_of_mem _ hmem)
  · rw [hfp]; exact hnd.2
  · intro j hj
    rw [hfp] at hj
    rw [hp, List.length_set]
    exact h.freePkgsRange j (by rw [hfree]; exact List.mem_cons_of_mem _ hj)

/-- a new slot at the end -/
theorem inv_register_push {ctx : Ctx} {g g' : Graph} {d : PkgDef}
    (h : Inv ctx g) (hfresh : alGet g.pkgMap d.key = none)
    (hn : g'.nodes = g.nodes) (hfn : g'.freeNodes = g.freeNodes) (he : g'.edges = g.edges)
    (him : g'.imports = g.imports) (hde : g'.defined = g.defined) (hex : g'.exports = g.exports)
    (hp : g'.pkgs = g.pkgs ++ [⟨some d, 0⟩]) (hfp : g'.freePkgs = g.freePkgs)
    (hm : g'.pkgMap = alInsert g.pkgMap d.key ⟨g.pkgs.length, 0⟩) : Inv ctx g' := by
  have hpk := pkgOf_append hp
  have mono : PkgMono g g' := by
    intro id d' hd'
    rw [hpk]
    by_cases hid : id.index = g.pkgs.length
    · unfold Graph.pkgOf at hd'
      rw [hid, List.getElem?_eq_none (Nat.le_refl _)] at hd'
      cases hd'
    · simp [hid, hd']
  apply inv_of_pkgTable h hn hfn he him hde hex mono
  · rw [hm]; exact alInsert_keys_nodup hfresh h.pkgMapKeys
  · intro e he'
    rw [hm] at he'
    rcases (alInsert_mem hfresh e).mp he' with he' | rfl
    · obtain ⟨pd, hpd, hk⟩ := h.pkgMapLive e he'
      exact ⟨pd, toOption_mem.mpr (mono _ _ (toOption_mem.mp hpd)), hk⟩
    · refine ⟨d, toOption_mem.mpr ?_, rfl⟩
      rw [hpk]; simp
  · intro j hj slot' hs'
    rw [hp] at hs' hj
    by_cases hjl : j = g.pkgs.length
    · subst hjl
      simp only [List.getElem?_concat_length, Option.mem_def, Option.some.injEq] at hs'
      subst hs'
      unfold SlotOk
      simp only
      rw [hm, hfp]
      refine ⟨by rw [alGet_alInsert]; simp, ?_⟩
      intro hmem
      exact absurd (h.freePkgsRange _ hmem) (Nat.lt_irrefl _)
    · have hjlt : j < g.pkgs.length := by
        have := List.mem_range.mp hj
        simp only [List.length_append, List.length_cons, List.length_nil] at this
        omega
      rw [List.getElem?_append_left hjlt] at hs'
      have so := h.slot hs'
      unfold SlotOk at so ⊢
      rw [hm, hfp]
      cases hq : slot'.pkg with
      | none => rw [hq] at so; exact so
      | some pd =>
        rw [hq] at so
        simp only at so ⊢
        exact ⟨alGet_insert_other hfresh so.1, so.2⟩
  · rw [hfp]; exact h.freePkgsNodup
  · intro j hj
    rw [hfp] at hj
    rw [hp]
    simp only [List.length_append, List.length_cons, List.length_nil]
    have := h.freePkgsRange j hj
    omega

theorem inv_registerPackage {ctx : Ctx} {g g' : Graph} {d : PkgDef} {out : Outcome}
    (h : Inv ctx g) (hs : registerPackage g d = (g', out)) : Inv ctx g' := by
  unfold registerPackage at hs
  split at hs
  · simp only [Prod.mk.injEq] at hs; rw [← hs.1]; exact h
  · rename_i hfreshB
    have hfresh : alGet g.pkgMap d.key = none := by
      cases hq : alGet g.pkgMap d.key with
      | none => rfl
      | some v => simp [hq] at hfreshB
    split at hs
    · rename_i i r hfree
      split at hs
      · simp only [Prod.mk.injEq] at hs; rw [← hs.1]; exact h
      · rename_i slot hslot
        split at hs
        · simp only [Prod.mk.injEq] at hs; rw [← hs.1]; exact h
        · rename_i hvac
          have hvac' : slot.pkg = none := by
            cases hq : slot.pkg with
            | none => rfl
            | some v => simp [hq] at hvac
          simp only [Prod.mk.injEq] at hs
          rw [← hs.1]
          exact inv_register_reuse h hfresh hfree hslot hvac' rfl rfl rfl rfl rfl rfl rfl rfl rfl
    · simp only [Prod.mk.injEq] at hs
      rw [← hs.1]
      exact inv_register_push h hfresh rfl rfl rfl rfl rfl rfl rfl rfl rfl

end Wac.Graph
