import WacProofs.Lemmas.ElabIface
/-
  C05 `elab_denotes`, part 7: interface declarations and the interfaces of a package.
-/
namespace Wac.Elab
open Wac Wac.Spec.Wit Wac.Decode

variable {ρ : Nat → Res}

theorem Grow.addInterface (st : St) (x : Interface) : Grow st.types (Elab.addInterface st x).1.types := by
  refine ⟨⟨rfl, fun _ _ h => h, fun _ _ h => h, fun _ _ h => h, fun _ x h => ⟨x, h, rfl, rfl⟩, ?_,
    fun _ x _ h => ⟨x, h, rfl, rfl⟩⟩, ?_, ?_, fun _ _ h => h⟩
  · intro i y _ h
    exact ⟨y, getElem?_append_lt' _ _ _ _ h, rfl⟩
  · simp [Elab.addInterface, Types.size] <;> omega
  · intro i y h
    exact getElem?_append_lt' _ _ _ _ h

theorem unfoldItems_expRel {T : Types} :
    ∀ {ks : List (Str × ItemKind)} {out : List (Str × Tree)}, ExpRel ρ T ks out →
      ∀ T' F, Ext [] [] T T' → kb T ≤ F →
        unfoldItems (Types.unfoldKind T' F) ks = some (renF ρ (Forest.ofList out))
  | [], [], _, _, _, _, _ => rfl
  | (n, k) :: ks, (n', t) :: out, ⟨⟨hn, h1⟩, h2⟩, T', F, he, hF => by
    simp only at hn
    subst hn
    simp only [unfoldItems, h1.1 T' F he hF, unfoldItems_expRel h2 T' F he hF, Forest.ofList, renF]
  | [], _ :: _, hf, _, _, _, _ => hf.elim
  | _ :: _, [], hf, _, _, _, _ => hf.elim

theorem denoteItems_eq (container : Str) (ifaces : List (Str × List (Str × Tree))) (next : Nat) (items : List Item) :
    denoteItems container ifaces next items =
      (items.foldlM (denStep container ifaces) ({ next := next }, [])).map fun (s, out) => (s.next, out) := rfl

/-- **an interface declaration denotes what WIT says** (fragment: value types and functions): the
interface the elaboration allocates unfolds, in every later arena, to the instance type whose
exports are the specification's, in declaration order. -/
theorem interfaceDecl_ok {st st' : St} {id : Option Str} {items : List Item} {i : Nat}
    (hvf : ∀ it ∈ items, isVF it = true) (h : interfaceDecl st id items = .ok (st', i)) :
    Grow st.types st'.types ∧ st'.root = st.root ∧ st'.scope = st.scope ∧
    ∀ (container : Str) (ifaces : List (Str × List (Str × Tree))) (next next' : Nat) (out : List (Str × Tree)),
      denoteItems container ifaces next items = some (next', out) → (out.map (·.1)).Nodup →
      HK [] [] st'.types (kb st'.types) (.instance i) (renT ρ (.instance (Forest.ofList out))) := by
  unfold interfaceDecl at h
  simp only at h
  split at h
  · rename_i st1 itf hitems
    cases h
    obtain ⟨g1, rt1, _, k1⟩ := interfaceItems_ok (ρ := ρ) _ _ _ _ _ hvf hitems
    have g2 := Grow.addInterface { st1 with scope := st.scope } itf
    refine ⟨g1.trans g2, rt1, rfl, ?_⟩
    intro container ifaces next next' out hden hnd
    rw [denoteItems_eq] at hden
    obtain ⟨res, hres, hr⟩ := Option.map_eq_some_iff.mp hden
    obtain ⟨s', out'⟩ := res
    cases hr
    have hk := k1 container ifaces { next := next } [] (s', out)
      (fun n => by simp [alGet, Scope.get]; trivial) trivial hres hnd
    obtain ⟨_, hexp⟩ := hk
    intro T' F he hF
    have hsz : kb (Elab.addInterface { st1 with scope := st.scope } itf).1.types = kb st1.types + 1 := by
      simp [kb, vb, Elab.addInterface, Types.size]; omega
    rw [hsz] at hF
    obtain ⟨F', rfl⟩ : ∃ F', F = F' + 1 := ⟨F - 1, by omega⟩
    obtain ⟨itf', hitf', hexp'⟩ := he.interfaces st1.types.interfaces.length itf (by simp)
      (by simp [Elab.addInterface])
    have hi : (Elab.addInterface { st1 with scope := st.scope } itf).2 = st1.types.interfaces.length := rfl
    simp only [Types.unfoldKind, hi, hitf', hexp',
      unfoldItems_expRel hexp T' F' (g2.ext.trans he) (by omega), Option.map_some, renT]
  · cases h

/-- the interface fold of `elabPkg` -/
def elabIfaces (p : Pkg) (ifs : List (Str × List Item)) (st : St) : M St :=
  ifs.foldlM (fun (st : St) (ni : Str × List Item) =>
    match interfaceDecl st (some (idOf p ni.1)) ni.2 with
    | .ok (st, i) => (.ok { st with root := st.root ++ [(ni.1, .iface i)] } : M St)
    | .error e => .error e) st

/-- the interface fold of `denotePkg` -/
def denIfaces (p : Pkg) (ifs : List (Str × List Item)) (env : Env) : Option Env :=
  ifs.foldlM (fun (env : Env) (ni : Str × List Item) =>
    (denoteItems (p.idOf ni.1) env.ifaces env.next ni.2).map fun (next, ex) =>
      let id := p.idOf ni.1
      { env with ifaces := env.ifaces ++ [(ni.1, ex), (id, ex)], ids := env.ids ++ [(ni.1, id), (id, id)], next := next }) env

/-- every interface of the list: the arena index it got and its denotation -/
theorem elabIfaces_ok (p : Pkg) :
    ∀ (ifs : List (Str × List Item)) (st st' : St) (env env' : Env),
      (∀ ni ∈ ifs, ∀ it ∈ ni.2, isVF it = true) →
      elabIfaces p ifs st = .ok st' → denIfaces p ifs env = some env' →
      (∀ nx ∈ env'.ifaces, (nx.2.map (·.1)).Nodup) →
      Grow st.types st'.types ∧ st'.scope = st.scope ∧
      ∃ res : List (Nat × List (Str × Tree)),
        env'.ifaces = env.ifaces ++ (List.zip ifs res).flatMap
          (fun x => [(x.1.1, x.2.2), (p.idOf x.1.1, x.2.2)]) ∧
        st'.root = st.root ++ (List.zip ifs res).map (fun x => (x.1.1, Bound.iface x.2.1)) ∧
        All2 (fun (_ : Str × List Item) (ie : Nat × List (Str × Tree)) =>
          HK [] [] st'.types (kb st'.types) (.instance ie.1) (renT ρ (.instance (Forest.ofList ie.2)))) ifs res := by
  intro ifs
  induction ifs with
  | nil =>
    intro st st' env env' _ h hd _
    simp only [elabIfaces, List.foldlM_nil] at h
    cases h
    simp only [denIfaces, List.foldlM_nil, Option.pure_def, Option.some.injEq] at hd
    subst hd
    exact ⟨Grow.refl _, rfl, [], by simp, by simp, trivial⟩
  | cons ni r ih =>
    intro st st' env env' hvf h hd hnd
    simp only [elabIfaces, List.foldlM_cons] at h
    simp only [denIfaces, List.foldlM_cons, Option.bind_eq_bind] at hd
    obtain ⟨env1, hd1, hd2⟩ := Option.bind_eq_some_iff.mp hd
    obtain ⟨ne, hne, henv1⟩ := Option.map_eq_some_iff.mp hd1
    obtain ⟨next1, ex⟩ := ne
    cases hdec : interfaceDecl st (some (idOf p ni.1)) ni.2 with
    | error e => simp [hdec] at h; cases h
    | ok si =>
      obtain ⟨st1, i⟩ := si
      simp only [hdec] at h
      have h' : elabIfaces p r { st1 with root := st1.root ++ [(ni.1, .iface i)] } = .ok st' := h
      have hd2' : denIfaces p r env1 = some env' := hd2
      obtain ⟨g1, rt1, sc1, k1⟩ := interfaceDecl_ok (ρ := ρ) (hvf ni (List.mem_cons_self ..)) hdec
      obtain ⟨g2, sc2, res, henv, hroot, hall⟩ := ih _ _ _ _
        (fun nj hj => hvf nj (List.mem_cons_of_mem _ hj)) h' hd2' hnd
      have hex_nd : (ex.map (·.1)).Nodup := by
        apply hnd (ni.1, ex)
        rw [henv, ← henv1]
        simp
      have hk := k1 (p.idOf ni.1) env.ifaces env.next next1 ex hne hex_nd
      refine ⟨g1.trans g2, sc2.trans sc1, (i, ex) :: res, ?_, ?_, ?_, ?_⟩
      · rw [henv, ← henv1]
        simp
      · rw [hroot]
        simp [rt1]
      · have hs2 : Types.size st1.types ≤ Types.size st'.types := g2.size
        exact HK.mono hk g2.ext (by unfold kb vb; omega)
      · exact hall

theorem All2_length {α β : Type} {R : α → β → Prop} : ∀ {xs : List α} {ys : List β}, All2 R xs ys → xs.length = ys.length
  | [], [], _ => rfl
  | _ :: _, _ :: _, ⟨_, h⟩ => by simp [All2_length h]
  | [], _ :: _, hf => hf.elim
  | _ :: _, [], hf => hf.elim

theorem All2_right {α β : Type} {R : α → β → Prop} {Q : β → Prop} (hq : ∀ x y, R x y → Q y) :
    ∀ {xs : List α} {ys : List β}, All2 R xs ys → ∀ y ∈ ys, Q y
  | [], [], _, _, hm => by cases hm
  | _ :: _, _ :: _, ⟨h1, h2⟩, y, hm => by
    rcases List.mem_cons.mp hm with rfl | hm
    · exact hq _ _ h1
    · exact All2_right hq h2 y hm
  | [], _ :: _, hf, _, _ => hf.elim
  | _ :: _, [], hf, _, _ => hf.elim

theorem elabPkg_ifaces (p : Pkg) (hw : p.worlds = []) (T : Types) (h : elabPkg p = .ok T) :
    ∃ st, elabIfaces p p.ifaces {} = .ok st ∧ T = st.types := by
  unfold elabPkg at h
  simp only [hw, List.foldlM_nil] at h
  split at h
  · cases h
  · rename_i st hst
    cases h
    exact ⟨st, hst, rfl⟩

theorem denotePkg_ifaces (p : Pkg) (hw : p.worlds = []) (env : Env) (h : denotePkg [] 0 p = some env) :
    denIfaces p p.ifaces { ifaces := [], ids := [], next := 0 } = some env := by
  unfold denotePkg at h
  simp only [hw, List.foldlM_nil, List.map_nil] at h
  split at h
  · cases h
  · rename_i env1 henv
    simp only [Option.pure_def, Option.some.injEq] at h
    subst h
    exact henv

end Wac.Elab
