import WacProofs.Lemmas.Progress
/-
  Fuel sufficiency: with `fuelFor` the model never reports `OutOfFuel`.
  Every lemma has the form `parseX fuel st = .error .OutOfFuel → fuel < 3 * |st.toks| + 3`
  (or `… → False` for functions without recursion/loops).
-/
namespace Wac.Lemmas.NoFuel
open Wac Wac.Lex Wac.Parse Wac.Ast Wac.Lemmas.ParserBasic Wac.Lemmas.ParseSpans Wac.Lemmas.Progress

@[grind →] theorem lookaheadError_ne {st xs} (h : lookaheadError st xs = .OutOfFuel) : False := by
  unfold lookaheadError at h
  repeat' (split at *)
  all_goals simp at h

@[grind →] theorem parseToken_nf {st k} (h : parseToken st k = .error .OutOfFuel) : False := by
  unfold parseToken at h
  repeat' (split at *)
  all_goals simp at h

@[grind →] theorem parseVersionAt_nf {s span a} (h : parseVersionAt s span a = .error .OutOfFuel) : False := by
  simp only [parseVersionAt] at h
  repeat' (split at *)
  all_goals simp at h

/-- unfold, split everything, close the leaves by the forward rules -/
syntax "nofuel_tac " ident " with " ident,+ : tactic
macro_rules
  | `(tactic| nofuel_tac $h with $[$ds],*) =>
    `(tactic| (simp only [$[$ds:ident],*, parseOptional, bind, Except.bind] at $h:ident
               repeat' (split at *)
               all_goals (try contradiction)
               all_goals (try grind)))

@[grind →] theorem parseIdent_nf {st} (h : parseIdent st = .error .OutOfFuel) : False := by
  nofuel_tac h with parseIdent
@[grind →] theorem parseString_nf {st} (h : parseString st = .error .OutOfFuel) : False := by
  nofuel_tac h with parseString
@[grind →] theorem parsePackageName_nf {st} (h : parsePackageName st = .error .OutOfFuel) : False := by
  nofuel_tac h with parsePackageName
@[grind →] theorem parsePackagePath_nf {st} (h : parsePackagePath st = .error .OutOfFuel) : False := by
  nofuel_tac h with parsePackagePath

/-- a delimited list only runs out of fuel if its loop counter is not larger than the number of
remaining tokens, or if an item does (`m`: the item's fuel demand as a monotone function of the
number of remaining tokens) -/
theorem parseDelimited_nf {α : Type} {stop : Token} {commas : Bool} {peeks : List Token}
    {item : PState → Except ParseError (α × PState)} {fuel : Nat} {m : Nat → Nat}
    (hm : ∀ a b, a ≤ b → m a ≤ m b)
    (hprog : ∀ st1 q, item st1 = .ok q → q.2.toks.length + 1 ≤ st1.toks.length)
    (hitem : ∀ st1, item st1 = .error .OutOfFuel → fuel < m st1.toks.length) :
    ∀ (n : Nat) (st : PState), parseDelimited stop commas peeks item n st = .error .OutOfFuel →
      n ≤ st.toks.length ∨ fuel < m st.toks.length := by
  intro n
  induction n with
  | zero => intro st _; exact Or.inl (Nat.zero_le _)
  | succ n ih =>
    intro st h
    unfold parseDelimited at h
    split at h
    · simp at h
    · split at h
      · simp at h; exact (lookaheadError_ne h).elim
      · cases hit : item st with
        | error e =>
          simp only [hit] at h
          simp at h; subst h
          exact Or.inr (hitem st hit)
        | ok q =>
          obtain ⟨x, st1⟩ := q
          have hp := hprog st _ hit
          simp only [hit] at h
          -- the recursive call on a state `s` with `|s.toks| + 1 ≤ |st.toks|`
          have hrec : ∀ s : PState, s.toks.length + 1 ≤ st.toks.length →
              parseDelimited stop commas peeks item n s = .error .OutOfFuel →
              n + 1 ≤ st.toks.length ∨ fuel < m st.toks.length := by
            intro s hs hr
            rcases ih s hr with h1 | h1
            · exact Or.inl (by omega)
            · exact Or.inr (Nat.lt_of_lt_of_le h1 (hm _ _ (by omega)))
          split at h
          · split at h
            · simp at h
            · split at h
              · cases hc : parseToken st1 .Comma with
                | error e => simp only [hc] at h; simp at h; subst h; exact (parseToken_nf hc).elim
                | ok q2 =>
                  obtain ⟨_, st2⟩ := q2
                  have hp2 := parseToken_lt hc
                  simp only [hc] at h
                  cases hr : parseDelimited stop commas peeks item n st2 with
                  | error e =>
                    simp only [hr] at h; simp at h; subst h
                    exact hrec st2 (by simp only [] at hp; omega) hr
                  | ok q3 => simp [hr] at h
              · cases hr : parseDelimited stop commas peeks item n st1 with
                | error e =>
                  simp only [hr] at h; simp at h; subst h
                  exact hrec st1 (by simp only [] at hp; omega) hr
                | ok q3 => simp [hr] at h
          · simp at h; exact (lookaheadError_ne h).elim

theorem parseType_nf : ∀ (fuel : Nat) (st : PState), parseType fuel st = .error .OutOfFuel → fuel ≤ st.toks.length := by
  intro fuel
  induction fuel with
  | zero => intro st _; exact Nat.zero_le _
  | succ fuel ih =>
    intro st h
    have hd : ∀ {stop commas peeks n st1}, parseDelimited stop commas peeks (parseType fuel) n st1 = .error .OutOfFuel →
        n ≤ st1.toks.length ∨ fuel < st1.toks.length + 1 := fun h =>
      parseDelimited_nf (m := fun l => l + 1) (by intro a b hab; omega) (fun _ _ hq => parseType_lt' hq)
        (fun s hs => by have := ih s hs; omega) _ _ h
    simp only [parseType, parseOptional, bind, Except.bind] at h
    repeat' (split at *)
    all_goals (try contradiction)
    all_goals (try grind)

@[grind →] theorem parseType_nf' {fuel st} (h : parseType fuel st = .error .OutOfFuel) : fuel ≤ st.toks.length :=
  parseType_nf fuel st h

@[grind →] theorem delimited_parseType_nf {stop commas peeks fuel n st}
    (h : parseDelimited stop commas peeks (parseType fuel) n st = .error .OutOfFuel) :
    n ≤ st.toks.length ∨ fuel < 3 * st.toks.length + 3 :=
  parseDelimited_nf (m := fun l => 3 * l + 3) (by intro a b hab; omega) (fun _ _ hq => parseType_lt' hq) (fun s hs => by have := parseType_nf' hs; omega) _ _ h

@[grind →] theorem parseNamedType_nf {fuel st} (h : parseNamedType fuel st = .error .OutOfFuel) : fuel < 3 * st.toks.length + 3 := by
  nofuel_tac h with parseNamedType

@[grind →] theorem delimited_parseNamedType_nf {stop commas peeks fuel n st}
    (h : parseDelimited stop commas peeks (parseNamedType fuel) n st = .error .OutOfFuel) :
    n ≤ st.toks.length ∨ fuel < 3 * st.toks.length + 3 :=
  parseDelimited_nf (m := fun l => 3 * l + 3) (by intro a b hab; omega) (fun _ _ hq => parseNamedType_lt hq) (fun _ hs => parseNamedType_nf hs) _ _ h

@[grind →] theorem parseResultList_nf {fuel st} (h : parseResultList fuel st = .error .OutOfFuel) : fuel < 3 * st.toks.length + 3 := by
  nofuel_tac h with parseResultList

@[grind →] theorem parseFuncType_nf {fuel st} (h : parseFuncType fuel st = .error .OutOfFuel) : fuel < 3 * st.toks.length + 3 := by
  nofuel_tac h with parseFuncType

@[grind →] theorem parseFuncTypeRef_nf {fuel st} (h : parseFuncTypeRef fuel st = .error .OutOfFuel) : fuel < 3 * st.toks.length + 3 := by
  nofuel_tac h with parseFuncTypeRef

@[grind →] theorem parseConstructor_nf {fuel st} (h : parseConstructor fuel st = .error .OutOfFuel) : fuel < 3 * st.toks.length + 3 := by
  nofuel_tac h with parseConstructor

@[grind →] theorem parseMethod_nf {fuel st} (h : parseMethod fuel st = .error .OutOfFuel) : fuel < 3 * st.toks.length + 3 := by
  nofuel_tac h with parseMethod

@[grind →] theorem parseResourceMethod_nf {fuel st} (h : parseResourceMethod fuel st = .error .OutOfFuel) : fuel < 3 * st.toks.length + 3 := by
  nofuel_tac h with parseResourceMethod

@[grind →] theorem delimited_parseResourceMethod_nf {stop commas peeks fuel n st}
    (h : parseDelimited stop commas peeks (parseResourceMethod fuel) n st = .error .OutOfFuel) :
    n ≤ st.toks.length ∨ fuel < 3 * st.toks.length + 3 :=
  parseDelimited_nf (m := fun l => 3 * l + 3) (by intro a b hab; omega) (fun _ _ hq => parseResourceMethod_lt hq) (fun _ hs => parseResourceMethod_nf hs) _ _ h

@[grind →] theorem parseResourceDecl_nf {fuel st} (h : parseResourceDecl fuel st = .error .OutOfFuel) : fuel < 3 * st.toks.length + 3 := by
  nofuel_tac h with parseResourceDecl

@[grind →] theorem parseVariantCase_nf {fuel st} (h : parseVariantCase fuel st = .error .OutOfFuel) : fuel < 3 * st.toks.length + 3 := by
  nofuel_tac h with parseVariantCase

@[grind →] theorem delimited_parseVariantCase_nf {stop commas peeks fuel n st}
    (h : parseDelimited stop commas peeks (parseVariantCase fuel) n st = .error .OutOfFuel) :
    n ≤ st.toks.length ∨ fuel < 3 * st.toks.length + 3 :=
  parseDelimited_nf (m := fun l => 3 * l + 3) (by intro a b hab; omega) (fun _ _ hq => parseVariantCase_lt hq) (fun _ hs => parseVariantCase_nf hs) _ _ h

@[grind →] theorem parseVariantDecl_nf {fuel st} (h : parseVariantDecl fuel st = .error .OutOfFuel) : fuel < 3 * st.toks.length + 3 := by
  nofuel_tac h with parseVariantDecl

@[grind →] theorem parseField_nf {fuel st} (h : parseField fuel st = .error .OutOfFuel) : fuel < 3 * st.toks.length + 3 := by
  nofuel_tac h with parseField

@[grind →] theorem delimited_parseField_nf {stop commas peeks fuel n st}
    (h : parseDelimited stop commas peeks (parseField fuel) n st = .error .OutOfFuel) :
    n ≤ st.toks.length ∨ fuel < 3 * st.toks.length + 3 :=
  parseDelimited_nf (m := fun l => 3 * l + 3) (by intro a b hab; omega) (fun _ _ hq => parseField_lt hq) (fun _ hs => parseField_nf hs) _ _ h

@[grind →] theorem parseRecordDecl_nf {fuel st} (h : parseRecordDecl fuel st = .error .OutOfFuel) : fuel < 3 * st.toks.length + 3 := by
  nofuel_tac h with parseRecordDecl

@[grind →] theorem parseFlag_nf {st} (h : parseFlag st = .error .OutOfFuel) : False := by
  nofuel_tac h with parseFlag

@[grind →] theorem delimited_parseFlag_nf {stop commas peeks n st}
    (h : parseDelimited stop commas peeks parseFlag n st = .error .OutOfFuel) : n ≤ st.toks.length := by
  have := parseDelimited_nf (fuel := 0) (m := fun _ => 0) (by intro a b _; exact Nat.le_refl _)
    (fun _ _ hq => parseFlag_lt hq) (fun _ hs => (parseFlag_nf hs).elim) _ _ h
  omega

@[grind →] theorem parseFlagsDecl_nf {fuel st} (h : parseFlagsDecl fuel st = .error .OutOfFuel) : fuel < 3 * st.toks.length + 3 := by
  nofuel_tac h with parseFlagsDecl

@[grind →] theorem parseEnumCase_nf {st} (h : parseEnumCase st = .error .OutOfFuel) : False := by
  nofuel_tac h with parseEnumCase

@[grind →] theorem delimited_parseEnumCase_nf {stop commas peeks n st}
    (h : parseDelimited stop commas peeks parseEnumCase n st = .error .OutOfFuel) : n ≤ st.toks.length := by
  have := parseDelimited_nf (fuel := 0) (m := fun _ => 0) (by intro a b _; exact Nat.le_refl _)
    (fun _ _ hq => parseEnumCase_lt hq) (fun _ hs => (parseEnumCase_nf hs).elim) _ _ h
  omega

@[grind →] theorem parseEnumDecl_nf {fuel st} (h : parseEnumDecl fuel st = .error .OutOfFuel) : fuel < 3 * st.toks.length + 3 := by
  nofuel_tac h with parseEnumDecl

@[grind →] theorem parseTypeAliasKind_nf {fuel st} (h : parseTypeAliasKind fuel st = .error .OutOfFuel) : fuel < 3 * st.toks.length + 3 := by
  nofuel_tac h with parseTypeAliasKind

@[grind →] theorem parseTypeAlias_nf {fuel st} (h : parseTypeAlias fuel st = .error .OutOfFuel) : fuel < 3 * st.toks.length + 3 := by
  nofuel_tac h with parseTypeAlias

@[grind →] theorem parseTypeDecl_nf {fuel st} (h : parseTypeDecl fuel st = .error .OutOfFuel) : fuel < 3 * st.toks.length + 3 := by
  nofuel_tac h with parseTypeDecl

@[grind →] theorem parseItemTypeDecl_nf {fuel st} (h : parseItemTypeDecl fuel st = .error .OutOfFuel) : fuel < 3 * st.toks.length + 3 := by
  nofuel_tac h with parseItemTypeDecl

@[grind →] theorem parseUsePath_nf {st} (h : parseUsePath st = .error .OutOfFuel) : False := by
  nofuel_tac h with parseUsePath

@[grind →] theorem parseUseItem_nf {st} (h : parseUseItem st = .error .OutOfFuel) : False := by
  nofuel_tac h with parseUseItem

@[grind →] theorem delimited_parseUseItem_nf {stop commas peeks n st}
    (h : parseDelimited stop commas peeks parseUseItem n st = .error .OutOfFuel) : n ≤ st.toks.length := by
  have := parseDelimited_nf (fuel := 0) (m := fun _ => 0) (by intro a b _; exact Nat.le_refl _)
    (fun _ _ hq => parseUseItem_lt hq) (fun _ hs => (parseUseItem_nf hs).elim) _ _ h
  omega

@[grind →] theorem parseUse_nf {fuel st} (h : parseUse fuel st = .error .OutOfFuel) : fuel < 3 * st.toks.length + 3 := by
  nofuel_tac h with parseUse

@[grind →] theorem parseInterfaceExport_nf {fuel st} (h : parseInterfaceExport fuel st = .error .OutOfFuel) : fuel < 3 * st.toks.length + 3 := by
  nofuel_tac h with parseInterfaceExport

@[grind →] theorem parseInterfaceItem_nf {fuel st} (h : parseInterfaceItem fuel st = .error .OutOfFuel) : fuel < 3 * st.toks.length + 3 := by
  nofuel_tac h with parseInterfaceItem

@[grind →] theorem delimited_parseInterfaceItem_nf {stop commas peeks fuel n st}
    (h : parseDelimited stop commas peeks (parseInterfaceItem fuel) n st = .error .OutOfFuel) :
    n ≤ st.toks.length ∨ fuel < 3 * st.toks.length + 3 :=
  parseDelimited_nf (m := fun l => 3 * l + 3) (by intro a b hab; omega) (fun _ _ hq => parseInterfaceItem_lt hq) (fun _ hs => parseInterfaceItem_nf hs) _ _ h

@[grind →] theorem parseInterfaceDecl_nf {fuel st} (h : parseInterfaceDecl fuel st = .error .OutOfFuel) : fuel < 3 * st.toks.length + 3 := by
  nofuel_tac h with parseInterfaceDecl

@[grind →] theorem parseInlineInterface_nf {fuel st} (h : parseInlineInterface fuel st = .error .OutOfFuel) : fuel < 3 * st.toks.length + 3 := by
  nofuel_tac h with parseInlineInterface

@[grind →] theorem parseExternType_nf {fuel st} (h : parseExternType fuel st = .error .OutOfFuel) : fuel < 3 * st.toks.length + 3 := by
  nofuel_tac h with parseExternType

@[grind →] theorem parseNamedWorldItem_nf {fuel st} (h : parseNamedWorldItem fuel st = .error .OutOfFuel) : fuel < 3 * st.toks.length + 3 := by
  nofuel_tac h with parseNamedWorldItem

@[grind →] theorem parseWorldItemPath_nf {fuel st} (h : parseWorldItemPath fuel st = .error .OutOfFuel) : fuel < 3 * st.toks.length + 3 := by
  nofuel_tac h with parseWorldItemPath

@[grind →] theorem parseWorldImport_nf {fuel st} (h : parseWorldImport fuel st = .error .OutOfFuel) : fuel < 3 * st.toks.length + 3 := by
  nofuel_tac h with parseWorldImport

@[grind →] theorem parseWorldExport_nf {fuel st} (h : parseWorldExport fuel st = .error .OutOfFuel) : fuel < 3 * st.toks.length + 3 := by
  nofuel_tac h with parseWorldExport

@[grind →] theorem parseWorldRef_nf {st} (h : parseWorldRef st = .error .OutOfFuel) : False := by
  nofuel_tac h with parseWorldRef

@[grind →] theorem parseWorldIncludeItem_nf {st} (h : parseWorldIncludeItem st = .error .OutOfFuel) : False := by
  nofuel_tac h with parseWorldIncludeItem

@[grind →] theorem delimited_parseWorldIncludeItem_nf {stop commas peeks n st}
    (h : parseDelimited stop commas peeks parseWorldIncludeItem n st = .error .OutOfFuel) : n ≤ st.toks.length := by
  have := parseDelimited_nf (fuel := 0) (m := fun _ => 0) (by intro a b _; exact Nat.le_refl _)
    (fun _ _ hq => parseWorldIncludeItem_lt hq) (fun _ hs => (parseWorldIncludeItem_nf hs).elim) _ _ h
  omega

@[grind →] theorem parseWorldInclude_nf {fuel st} (h : parseWorldInclude fuel st = .error .OutOfFuel) : fuel < 3 * st.toks.length + 3 := by
  nofuel_tac h with parseWorldInclude

@[grind →] theorem parseWorldItem_nf {fuel st} (h : parseWorldItem fuel st = .error .OutOfFuel) : fuel < 3 * st.toks.length + 3 := by
  nofuel_tac h with parseWorldItem

@[grind →] theorem delimited_parseWorldItem_nf {stop commas peeks fuel n st}
    (h : parseDelimited stop commas peeks (parseWorldItem fuel) n st = .error .OutOfFuel) :
    n ≤ st.toks.length ∨ fuel < 3 * st.toks.length + 3 :=
  parseDelimited_nf (m := fun l => 3 * l + 3) (by intro a b hab; omega) (fun _ _ hq => parseWorldItem_lt hq) (fun _ hs => parseWorldItem_nf hs) _ _ h

@[grind →] theorem parseWorldDecl_nf {fuel st} (h : parseWorldDecl fuel st = .error .OutOfFuel) : fuel < 3 * st.toks.length + 3 := by
  nofuel_tac h with parseWorldDecl

@[grind →] theorem parseTypeStatement_nf {fuel st} (h : parseTypeStatement fuel st = .error .OutOfFuel) : fuel < 3 * st.toks.length + 3 := by
  nofuel_tac h with parseTypeStatement

@[grind →] theorem parseExternName_nf {st} (h : parseExternName st = .error .OutOfFuel) : False := by
  nofuel_tac h with parseExternName

@[grind →] theorem parseImportType_nf {fuel st} (h : parseImportType fuel st = .error .OutOfFuel) : fuel < 3 * st.toks.length + 3 := by
  nofuel_tac h with parseImportType

@[grind →] theorem parseImportStatement_nf {fuel st} (h : parseImportStatement fuel st = .error .OutOfFuel) : fuel < 3 * st.toks.length + 3 := by
  nofuel_tac h with parseImportStatement

@[grind →] theorem parseInstantiationArgumentName_nf {st} (h : parseInstantiationArgumentName st = .error .OutOfFuel) : False := by
  nofuel_tac h with parseInstantiationArgumentName

@[grind →] theorem parseAccessExpr_nf {st} (h : parseAccessExpr st = .error .OutOfFuel) : False := by
  nofuel_tac h with parseAccessExpr

@[grind →] theorem parseNamedAccessExpr_nf {st} (h : parseNamedAccessExpr st = .error .OutOfFuel) : False := by
  nofuel_tac h with parseNamedAccessExpr

theorem parsePostfix_nf : ∀ (n : Nat) (st : PState), parsePostfix n st = .error .OutOfFuel → n ≤ st.toks.length := by
  intro n
  induction n with
  | zero => intro st _; exact Nat.zero_le _
  | succ n ih =>
    intro st h
    simp only [parsePostfix, bind, Except.bind] at h
    repeat' (split at *)
    all_goals (try contradiction)
    all_goals (try grind)

@[grind →] theorem parsePostfix_nf' {n st} (h : parsePostfix n st = .error .OutOfFuel) : n ≤ st.toks.length :=
  parsePostfix_nf n st h

theorem exprs_nf : ∀ (fuel : Nat),
    (∀ st, parseExpr fuel st = .error .OutOfFuel → fuel < 3 * st.toks.length + 3) ∧
    (∀ st, parsePrimaryExpr fuel st = .error .OutOfFuel → fuel < 3 * st.toks.length + 2) ∧
    (∀ st, parseInstantiationArgument fuel st = .error .OutOfFuel → fuel < 3 * st.toks.length + 1) := by
  intro fuel
  induction fuel with
  | zero => refine ⟨?_, ?_, ?_⟩ <;> intro st _ <;> omega
  | succ fuel ih =>
    obtain ⟨ih1, ih2, ih3⟩ := ih
    have hd : ∀ {stop commas peeks n st1}, parseDelimited stop commas peeks (parseInstantiationArgument fuel) n st1 = .error .OutOfFuel →
        n ≤ st1.toks.length ∨ fuel < 3 * st1.toks.length + 1 := fun h =>
      parseDelimited_nf (m := fun l => 3 * l + 1) (by intro a b hab; omega)
        (fun _ _ hq => parseInstantiationArgument_lt hq) (fun s hs => ih3 s hs) _ _ h
    refine ⟨?_, ?_, ?_⟩ <;> intro st h
    · simp only [parseExpr, bind, Except.bind] at h
      repeat' (split at *)
      all_goals (try contradiction)
      all_goals (try grind)
    · simp only [parsePrimaryExpr, bind, Except.bind] at h
      repeat' (split at *)
      all_goals (try contradiction)
      all_goals (try grind)
    · simp only [parseInstantiationArgument, bind, Except.bind] at h
      repeat' (split at *)
      all_goals (try contradiction)
      all_goals (try grind)

@[grind →] theorem parseExpr_nf {fuel st} (h : parseExpr fuel st = .error .OutOfFuel) : fuel < 3 * st.toks.length + 3 :=
  (exprs_nf fuel).1 st h

@[grind →] theorem parseLetStatement_nf {fuel st} (h : parseLetStatement fuel st = .error .OutOfFuel) : fuel < 3 * st.toks.length + 3 := by
  nofuel_tac h with parseLetStatement

@[grind →] theorem parseExportOptions_nf {st} (h : parseExportOptions st = .error .OutOfFuel) : False := by
  nofuel_tac h with parseExportOptions

@[grind →] theorem parseExportStatement_nf {fuel st} (h : parseExportStatement fuel st = .error .OutOfFuel) : fuel < 3 * st.toks.length + 3 := by
  nofuel_tac h with parseExportStatement

@[grind →] theorem parseStatement_nf {fuel st} (h : parseStatement fuel st = .error .OutOfFuel) : fuel < 3 * st.toks.length + 3 := by
  nofuel_tac h with parseStatement

@[grind →] theorem parsePackageDirective_nf {st} (h : parsePackageDirective st = .error .OutOfFuel) : False := by
  nofuel_tac h with parsePackageDirective

theorem parseStatements_nf (fuel : Nat) : ∀ (n : Nat) (st : PState), parseStatements fuel n st = .error .OutOfFuel →
    n ≤ st.toks.length ∨ fuel < 3 * st.toks.length + 3 := by
  intro n
  induction n with
  | zero => intro st _; exact Or.inl (Nat.zero_le _)
  | succ n ih =>
    intro st h
    simp only [parseStatements, bind, Except.bind] at h
    repeat' (split at *)
    all_goals (try contradiction)
    all_goals (try grind)

/-- with `fuelFor` the parser model never runs out of fuel -/
theorem parseTokens_nf (st : PState) : parseTokens st ≠ .error .OutOfFuel := by
  intro h
  simp only [parseTokens, bind, Except.bind] at h
  repeat' (split at *)
  all_goals (try contradiction)
  all_goals (try (simp at h))
  all_goals (try (subst h))
  all_goals (try (exact (parsePackageDirective_nf (by assumption)).elim))
  all_goals (
    have h1 := parseStatements_nf _ _ _ ‹parseStatements _ _ _ = _›
    have h2 := parsePackageDirective_lt ‹parsePackageDirective _ = Except.ok _›
    simp only [fuelFor] at h1
    omega)

end Wac.Lemmas.NoFuel
