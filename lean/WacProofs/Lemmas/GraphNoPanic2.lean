import WacProofs.Lemmas.GraphNoPanic
import WacProofs.Lemmas.GraphInvUnreg4
/-
  `unregister_package` with a registered package id does not panic on a consistent graph.
-/
namespace Wac.Graph
open Wac Wac.HashSites

/-- the clearing pass succeeds when every argument edge it walks targets an instantiation that
    still has the index, and no two walked edges share a key -/
theorem clearSatEdges_ok (sel : Edge → Bool) : ∀ (es : List Edge) (g : Graph),
    (es.filterMap Edge.argKey).Nodup →
    (∀ e ∈ es, ∀ i, e.kind = .arg i → ∃ x s, g.node? e.dst = some x ∧ x.kind = .instantiation s ∧ i ∈ s) →
    ∃ g', clearSatEdges g sel es = .ok g'
  | [], g, _, _ => ⟨g, rfl⟩
  | e :: r, g, hnd, hall => by
    unfold clearSatEdges
    cases hk : e.kind with
    | arg i =>
      simp only
      have hkey : e.argKey = some (e.dst, i) := by simp [Edge.argKey, hk]
      simp only [List.filterMap_cons, hkey, List.nodup_cons] at hnd
      by_cases hs : sel e = true
      · simp only [hs, ↓reduceIte]
        obtain ⟨x, s, hx, hxk, his⟩ := hall e (List.mem_cons_self ..) i hk
        have hcs : g.clearSat e.dst i = .ok (g.setNode e.dst { x with kind := .instantiation (s.erase i) }) := by
          unfold Graph.clearSat
          rw [hx]
          simp only [hxk]
          simp [his]
        rw [hcs]
        simp only
        apply clearSatEdges_ok sel r _ hnd.2
        intro e' he' i' hk'
        obtain ⟨x', s', hx', hxk', his'⟩ := hall e' (List.mem_cons_of_mem _ he') i' hk'
        have hlt := node?_eq_some_lt hx
        have hnode : ∀ m, (g.setNode e.dst { x with kind := .instantiation (s.erase i) }).node? m =
            if m = e.dst then some { x with kind := .instantiation (s.erase i) } else g.node? m :=
          fun m => node?_set rfl hlt m
        by_cases hd : e'.dst = e.dst
        · rw [hd] at hx'
          rw [hx] at hx'
          cases hx'
          rw [hxk] at hxk'
          cases hxk'
          refine ⟨{ x with kind := .instantiation (s.erase i) }, s.erase i, by rw [hnode, hd]; simp, rfl, ?_⟩
          have hne : i' ≠ i := by
            intro e2
            apply hnd.1
            refine List.mem_filterMap.mpr ⟨e', he', ?_⟩
            simp [Edge.argKey, hk', hd, e2]
          exact (List.mem_erase_of_ne hne).mpr his'
        · exact ⟨x', s', by rw [hnode]; simp [hd, hx'], hxk', his'⟩
      · simp only [hs, Bool.false_eq_true, ↓reduceIte]
        exact clearSatEdges_ok sel r g hnd.2 (fun e' he' => hall e' (List.mem_cons_of_mem _ he'))
    | alias j =>
      simp only
      have hkey : e.argKey = none := by simp [Edge.argKey, hk]
      simp only [List.filterMap_cons, hkey] at hnd
      exact clearSatEdges_ok sel r g hnd (fun e' he' => hall e' (List.mem_cons_of_mem _ he'))
    | dep =>
      simp only
      have hkey : e.argKey = none := by simp [Edge.argKey, hk]
      simp only [List.filterMap_cons, hkey] at hnd
      exact clearSatEdges_ok sel r g hnd (fun e' he' => hall e' (List.mem_cons_of_mem _ he'))

/-- on a consistent graph every argument edge targets an instantiation holding its index -/
theorem Inv.argTargets {ctx : Ctx} {g : Graph} (h : Inv ctx g) :
    ∀ e ∈ g.edges, ∀ i, e.kind = .arg i → ∃ x s, g.node? e.dst = some x ∧ x.kind = .instantiation s ∧ i ∈ s := by
  intro e he i hk
  obtain ⟨_, _, d, hd, hkk⟩ := h.edges e he
  rw [hk] at hkk
  simp only at hkk
  obtain ⟨h1, h2, _⟩ := hkk
  unfold Node.isInst at h2
  cases hkd : d.kind with
  | instantiation s =>
    refine ⟨d, s, hd, hkd, ?_⟩
    simpa [Node.sat, hkd] using h1
  | definition ty => simp [hkd] at h2
  | «import» nm => simp [hkd] at h2
  | alias => simp [hkd] at h2

theorem noPanic_unregister {ctx : Ctx} {g : Graph} (h : Inv ctx g) {id : PkgId} (hl : g.pkgLive id = true) :
    (unregisterPackage .fixed g id).2.isPanic = false := by
  obtain ⟨d, hd⟩ := pkgLive_ok hl
  -- the slot
  unfold Graph.pkgOf at hd
  cases hs : g.pkgs[id.index]? with
  | none => rw [hs] at hd; cases hd
  | some slot =>
    rw [hs] at hd
    simp only at hd
    have hgen : ¬ slot.gen ≠ id.gen := by
      intro hne; simp [hne] at hd
    simp only [hgen, ↓reduceIte] at hd
    cases hp : slot.pkg with
    | none => rw [hp] at hd; cases hd
    | some d' =>
      rw [hp] at hd
      simp only [Except.ok.injEq] at hd
      subst hd
      unfold unregisterPackage
      rw [hs]
      simp only [hgen, ↓reduceIte]
      -- the three `retain`s index live nodes only
      have r1 : retainNotPkg g g.exports id = some (g.exports.filter (fun e => !g.nodePkgIs e.2 id)) := by
        unfold retainNotPkg
        have : g.exports.all (fun e => g.live e.2) = true := by
          rw [List.all_eq_true]
          intro e he
          obtain ⟨x, hx, _⟩ := h.exportsLive' e he
          exact live_iff.mpr ⟨x, hx⟩
        simp [this]
      have r2 : retainNotPkg g g.defined id = some (g.defined.filter (fun e => !g.nodePkgIs e.2 id)) := by
        unfold retainNotPkg
        have : g.defined.all (fun e => g.live e.2) = true := by
          rw [List.all_eq_true]
          intro e he
          obtain ⟨x, hx, _⟩ := h.definedLive' e he
          exact live_iff.mpr ⟨x, hx⟩
        simp [this]
      have r3 : retainNotPkg g g.imports id = some (g.imports.filter (fun e => !g.nodePkgIs e.2 id)) := by
        unfold retainNotPkg
        have : g.imports.all (fun e => g.live e.2) = true := by
          rw [List.all_eq_true]
          intro e he
          obtain ⟨x, hx, _⟩ := h.importsLive' e he
          exact live_iff.mpr ⟨x, hx⟩
        simp [this]
      rw [r1, r2, r3]
      simp only [Legacy.fixed, Bool.false_eq_true, ↓reduceIte]
      obtain ⟨g1, hc⟩ := clearSatEdges_ok (fun e => g.nodePkgIs e.src id && !g.nodePkgIs e.dst id) g.edges g
        h.argUnique h.argTargets
      rw [hc]
      simp only [hp]
      -- the key is in the package map (the loops do not touch it)
      have c := clearSatEdges_spec _ _ _ _ hc
      have fr := retainNodes_pkgFrame
        { g1 with
          exports := g.exports.filter (fun e => !g.nodePkgIs e.2 id)
          defined := g.defined.filter (fun e => !g.nodePkgIs e.2 id)
          imports := g.imports.filter (fun e => !g.nodePkgIs e.2 id) } id
      have so := h.slot hs
      unfold SlotOk at so
      rw [hp] at so
      simp only at so
      have hkey : (alGet (retainNodes
        { g1 with
          exports := g.exports.filter (fun e => !g.nodePkgIs e.2 id)
          defined := g.defined.filter (fun e => !g.nodePkgIs e.2 id)
          imports := g.imports.filter (fun e => !g.nodePkgIs e.2 id) } id).pkgMap d'.key).isNone = false := by
        rw [fr.2.1]
        show (alGet g1.pkgMap d'.key).isNone = false
        rw [c.pkgMap, so.1]; rfl
      rw [hkey]
      rfl

end Wac.Graph
