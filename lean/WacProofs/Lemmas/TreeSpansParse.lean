import WacProofs.Lemmas.TreeSpansLex
/-
  C14 (tree spans), layer 3: the Hoare-style judgement `GoodT src r` — "if the parse step `r`
  succeeds, the new lexer state satisfies `TInv` and every span of the returned tree is in the
  source" — its combinators (`goodT_bind`, `t_parseToken`, `t_parseOptional`, `t_parseDelimited`),
  the leaves (`Ident`, `String`, `PackageName`, `PackagePath`: the span is the byte range of the
  spelling) and the `tree_tac` tactic that treats a parse function built from already treated ones.
-/
namespace Wac.Lemmas.TreeSpans
open Wac Wac.Ast Wac.Lex Wac.Parse Wac.Lemmas Wac.Lemmas.LexSpans Wac.Lemmas.ParseSpans Wac.Spec.TreeSpans

/-- what "every span is in the source" means for a value of type `α` -/
class SpanOK (α : Type) where
  ok : Str → α → Bool

instance : SpanOK Span := ⟨spanIn⟩
instance : SpanOK LTok := ⟨fun src t => spanIn src t.span⟩
instance : SpanOK Bool := ⟨fun _ _ => true⟩
instance : SpanOK Ident := ⟨Ident.spansIn⟩
instance : SpanOK StringLit := ⟨StringLit.spansIn⟩
instance : SpanOK DocComment := ⟨DocComment.spansIn⟩
instance : SpanOK PackageName := ⟨PackageName.spansIn⟩
instance : SpanOK PackagePath := ⟨PackagePath.spansIn⟩
instance : SpanOK Ty := ⟨Ty.spansIn⟩
instance : SpanOK NamedType := ⟨NamedType.spansIn⟩
instance : SpanOK ResultList := ⟨ResultList.spansIn⟩
instance : SpanOK FuncType := ⟨FuncType.spansIn⟩
instance : SpanOK FuncTypeRef := ⟨FuncTypeRef.spansIn⟩
instance : SpanOK Constructor := ⟨Constructor.spansIn⟩
instance : SpanOK Method := ⟨Method.spansIn⟩
instance : SpanOK ResourceMethod := ⟨ResourceMethod.spansIn⟩
instance : SpanOK ResourceDecl := ⟨ResourceDecl.spansIn⟩
instance : SpanOK VariantCase := ⟨VariantCase.spansIn⟩
instance : SpanOK VariantDecl := ⟨VariantDecl.spansIn⟩
instance : SpanOK Field := ⟨Field.spansIn⟩
instance : SpanOK RecordDecl := ⟨RecordDecl.spansIn⟩
instance : SpanOK Flag := ⟨Flag.spansIn⟩
instance : SpanOK FlagsDecl := ⟨FlagsDecl.spansIn⟩
instance : SpanOK EnumCase := ⟨EnumCase.spansIn⟩
instance : SpanOK EnumDecl := ⟨EnumDecl.spansIn⟩
instance : SpanOK TypeAliasKind := ⟨TypeAliasKind.spansIn⟩
instance : SpanOK TypeAlias := ⟨TypeAlias.spansIn⟩
instance : SpanOK TypeDecl := ⟨TypeDecl.spansIn⟩
instance : SpanOK ItemTypeDecl := ⟨ItemTypeDecl.spansIn⟩
instance : SpanOK UseItem := ⟨UseItem.spansIn⟩
instance : SpanOK UsePath := ⟨UsePath.spansIn⟩
instance : SpanOK Use := ⟨Use.spansIn⟩
instance : SpanOK InterfaceExport := ⟨InterfaceExport.spansIn⟩
instance : SpanOK InterfaceItem := ⟨InterfaceItem.spansIn⟩
instance : SpanOK InterfaceDecl := ⟨InterfaceDecl.spansIn⟩
instance : SpanOK InlineInterface := ⟨InlineInterface.spansIn⟩
instance : SpanOK ExternType := ⟨ExternType.spansIn⟩
instance : SpanOK NamedWorldItem := ⟨NamedWorldItem.spansIn⟩
instance : SpanOK WorldItemPath := ⟨WorldItemPath.spansIn⟩
instance : SpanOK WorldImport := ⟨WorldImport.spansIn⟩
instance : SpanOK WorldExport := ⟨WorldExport.spansIn⟩
instance : SpanOK WorldRef := ⟨WorldRef.spansIn⟩
instance : SpanOK WorldIncludeItem := ⟨WorldIncludeItem.spansIn⟩
instance : SpanOK WorldInclude := ⟨WorldInclude.spansIn⟩
instance : SpanOK WorldItem := ⟨WorldItem.spansIn⟩
instance : SpanOK WorldDecl := ⟨WorldDecl.spansIn⟩
instance : SpanOK TypeStatement := ⟨TypeStatement.spansIn⟩
instance : SpanOK ExternName := ⟨ExternName.spansIn⟩
instance : SpanOK ImportType := ⟨ImportType.spansIn⟩
instance : SpanOK ImportStatement := ⟨ImportStatement.spansIn⟩
instance : SpanOK InstantiationArgumentName := ⟨InstantiationArgumentName.spansIn⟩
instance : SpanOK AccessExpr := ⟨AccessExpr.spansIn⟩
instance : SpanOK NamedAccessExpr := ⟨NamedAccessExpr.spansIn⟩
instance : SpanOK PostfixExpr := ⟨PostfixExpr.spansIn⟩
instance : SpanOK Expr := ⟨Expr.spansIn⟩
instance : SpanOK PrimaryExpr := ⟨PrimaryExpr.spansIn⟩
instance : SpanOK InstantiationArgument := ⟨InstantiationArgument.spansIn⟩
instance : SpanOK LetStatement := ⟨LetStatement.spansIn⟩
instance : SpanOK ExportOptions := ⟨ExportOptions.spansIn⟩
instance : SpanOK ExportStatement := ⟨ExportStatement.spansIn⟩
instance : SpanOK Statement := ⟨Statement.spansIn⟩
instance : SpanOK PackageDirective := ⟨PackageDirective.spansIn⟩
instance {α} [SpanOK α] : SpanOK (List α) := ⟨fun src l => l.all (SpanOK.ok src)⟩
instance {α} [SpanOK α] : SpanOK (Option α) := ⟨fun src o => o.all (SpanOK.ok src)⟩
instance {α β} [SpanOK α] [SpanOK β] : SpanOK (α × β) := ⟨fun src p => SpanOK.ok src p.1 && SpanOK.ok src p.2⟩

/-- if the step succeeds, the new state satisfies `TInv` and the value satisfies `P` -/
def GoodTP {α : Type} (src : Str) (P : α → Prop) (r : Except ParseError (α × PState)) : Prop :=
  match r with
  | .ok (a, st') => TInv src st' ∧ P a
  | .error _ => True

/-- if the step succeeds, the new state satisfies `TInv` and every span of the value is in the source -/
abbrev GoodT {α : Type} [SpanOK α] (src : Str) (r : Except ParseError (α × PState)) : Prop :=
  GoodTP src (fun a => SpanOK.ok src a = true) r

theorem goodT_ok {α : Type} {src : Str} {P : α → Prop} {a : α} {st : PState} (hi : TInv src st) (ha : P a) :
    GoodTP src P (.ok (a, st) : Except ParseError (α × PState)) := ⟨hi, ha⟩

theorem goodT_err {α : Type} {src : Str} {P : α → Prop} {e : ParseError} :
    GoodTP src P (.error e : Except ParseError (α × PState)) := trivial

theorem goodTP_elim {α : Type} {src : Str} {P : α → Prop} {r : Except ParseError (α × PState)} {a : α} {st : PState}
    (h : GoodTP src P r) (hr : r = .ok (a, st)) : TInv src st ∧ P a := by
  subst hr; exact h

theorem goodTP_intro {α : Type} {src : Str} {P : α → Prop} {r : Except ParseError (α × PState)}
    (h : ∀ a st, r = .ok (a, st) → TInv src st ∧ P a) : GoodTP src P r := by
  cases r with
  | error e => trivial
  | ok p => exact h p.1 p.2 rfl

theorem goodTP_bind {α β : Type} {src : Str} {P : α → Prop} {Q : β → Prop} {x : Except ParseError (α × PState)}
    {f : α × PState → Except ParseError (β × PState)}
    (hx : GoodTP src P x) (hf : ∀ p : α × PState, x = .ok p → TInv src p.2 → P p.1 → GoodTP src Q (f p)) :
    GoodTP src Q (x >>= f) := by
  cases x with
  | error e => trivial
  | ok p => exact hf p rfl hx.1 hx.2

theorem goodT_bind {α β : Type} [SpanOK α] [SpanOK β] {src : Str} {x : Except ParseError (α × PState)}
    {f : α × PState → Except ParseError (β × PState)}
    (hx : GoodT src x) (hf : ∀ p : α × PState, TInv src p.2 → SpanOK.ok src p.1 = true → GoodT src (f p)) :
    GoodT src (x >>= f) :=
  goodTP_bind hx (fun p _ h1 h2 => hf p h1 h2)

/-! ### `parse_token` -/

/-- a successful `parse_token`: the state advances by the token `t0` at the head, which has the
expected kind and whose span and text the returned token carries -/
theorem parseToken_spec {st : PState} {k : Token} {t : LTok} {st' : PState} (h : parseToken st k = .ok (t, st')) :
    st' = st.next.2 ∧ ∃ t0, st.toks = t0 :: st'.toks ∧ t.span = t0.span ∧ t.text = t0.text ∧ t0.res = .ok k := by
  unfold parseToken at h
  cases hts : st.toks with
  | nil =>
    have h1 := (next_nil hts).1
    rw [show st.next = (st.next.1, st.next.2) from rfl, h1] at h
    simp at h
  | cons t0 r =>
    obtain ⟨hr, _, _, _, _, t', h1, hsp, htx, _, hres⟩ := next_cons hts
    rw [show st.next = (st.next.1, st.next.2) from rfl, h1] at h
    simp only [] at h
    cases hr' : t'.res with
    | error e => simp [hr'] at h
    | ok found =>
      simp only [hr'] at h
      split at h
      · rename_i hfk
        simp at h
        obtain ⟨h2, h3⟩ := h
        subst h2 h3 hfk
        exact ⟨rfl, t0, by rw [hr], hsp, htx, hres _ hr'⟩
      · simp at h

theorem parseToken_ok {src : Str} {st : PState} {k : Token} {t : LTok} {st' : PState} (hi : TInv src st)
    (h : parseToken st k = .ok (t, st')) :
    TInv src st' ∧ Slice src t.span t.text ∧ (k = .String → ∃ body, t.text = '"' :: (body ++ ['"'])) := by
  obtain ⟨h1, t0, h2, h3, h4, h5⟩ := parseToken_spec h
  refine ⟨h1 ▸ next_tinv hi, (parseToken_slice hi.inv h).1, ?_⟩
  intro hk
  subst hk
  rw [h4]
  exact hi.strs t0 (by simp [h2]) h5

theorem t_parseToken {src : Str} {st : PState} (hi : TInv src st) (k : Token) : GoodT src (parseToken st k) :=
  goodTP_intro fun _ _ h =>
    have h' := parseToken_ok hi h
    ⟨h'.1, spanIn_of_slice h'.2.1⟩

/-! ### `parse_optional`, `parse_delimited`, doc comments -/

theorem peek_mem {st : PState} {t : LTok} (hp : st.peek = some t) : t ∈ st.toks := by
  simp [PState.peek] at hp; exact List.mem_of_mem_head? hp

theorem parseDocs_ok {src : Str} {st : PState} (hi : TInv src st) : docsIn src (parseDocs st) = true := by
  unfold parseDocs docsIn
  cases hp : st.peek with
  | none => simp
  | some t =>
    simp only [List.all_eq_true]
    intro d hd
    exact docOk_spansIn (hi.docs t (peek_mem hp) d hd)

theorem t_parseOptional {α : Type} [SpanOK α] {src : Str} {st : PState} (hi : TInv src st) (k : Token)
    {cb : PState → Except ParseError (α × PState)} (hcb : ∀ st', TInv src st' → GoodT src (cb st')) :
    GoodT src (parseOptional st k cb) := by
  unfold parseOptional
  cases hp : st.peek with
  | none => exact goodT_ok hi rfl
  | some t =>
    simp only []
    cases t.res with
    | error e => exact goodT_err
    | ok k' =>
      simp only []
      split
      · have h1 := t_parseToken hi k
        cases hpt : parseToken st k with
        | error e => exact goodT_err
        | ok p =>
          rw [hpt] at h1
          simp only []
          have h2 := hcb p.2 h1.1
          cases hc : cb p.2 with
          | error e => exact goodT_err
          | ok q =>
            rw [hc] at h2
            exact goodT_ok h2.1 (by simpa [SpanOK.ok] using h2.2)
      · exact goodT_ok hi rfl

theorem t_parseDelimited {α : Type} [SpanOK α] {src : Str} (stop : Token) (commas : Bool) (peeks : List Token)
    {item : PState → Except ParseError (α × PState)} (hitem : ∀ st', TInv src st' → GoodT src (item st')) :
    ∀ (fuel : Nat) (st : PState), TInv src st → GoodT src (parseDelimited stop commas peeks item fuel st) := by
  intro fuel
  induction fuel with
  | zero => intro st _; exact goodT_err
  | succ fuel ih =>
    intro st hi
    unfold parseDelimited
    split
    · exact goodT_ok hi rfl
    · split
      · exact goodT_err
      · have h1 := hitem st hi
        cases hit : item st with
        | error e => exact goodT_err
        | ok p =>
          rw [hit] at h1
          obtain ⟨x, st1⟩ := p
          obtain ⟨h1, hx⟩ := h1
          simp only []
          split
          · split
            · exact goodT_ok h1 (by simpa [SpanOK.ok] using hx)
            · split
              · have h2 := t_parseToken h1 .Comma
                cases hc : parseToken st1 .Comma with
                | error e => exact goodT_err
                | ok q =>
                  rw [hc] at h2
                  obtain ⟨_, st2⟩ := q
                  simp only []
                  have h3 := ih st2 h2.1
                  cases hr : parseDelimited stop commas peeks item fuel st2 with
                  | error e => exact goodT_err
                  | ok q2 =>
                    rw [hr] at h3
                    obtain ⟨xs, st3⟩ := q2
                    exact goodT_ok h3.1 (by
                      have := h3.2
                      simp only [SpanOK.ok, List.all_cons, Bool.and_eq_true] at this ⊢
                      exact ⟨hx, this⟩)
              · have h3 := ih st1 h1
                cases hr : parseDelimited stop commas peeks item fuel st1 with
                | error e => exact goodT_err
                | ok q2 =>
                  rw [hr] at h3
                  obtain ⟨xs, st3⟩ := q2
                  exact goodT_ok h3.1 (by
                    have := h3.2
                    simp only [SpanOK.ok, List.all_cons, Bool.and_eq_true] at this ⊢
                    exact ⟨hx, this⟩)
          · exact goodT_err

/-- `next()` after a lookahead: the token it returns is in the source -/
theorem next_some_ok {src : Str} {st st' : PState} {t : LTok} (hi : TInv src st) (h : st.next = (some t, st')) :
    TInv src st' ∧ spanIn src t.span = true := by
  refine ⟨next_tinv' hi h, ?_⟩
  have : st.next.1 = some t := by rw [h]
  exact spanIn_of_slice (next_tok hi.inv this)

/-! ### leaves -/

theorem ident_raw_cases (text : Str) (sp : Span) :
    (match text with
      | '%' :: r => (⟨r, true, sp⟩ : Ident)
      | s => ⟨s, false, sp⟩).raw = text ∧
    (match text with
      | '%' :: r => (⟨r, true, sp⟩ : Ident)
      | s => ⟨s, false, sp⟩).span = sp := by
  split
  · simp [Ident.raw]
  · rename_i h
    refine ⟨?_, rfl⟩
    simp only [Ident.raw]
    rfl

theorem t_parseIdent {src : Str} {st : PState} (hi : TInv src st) : GoodT src (parseIdent st) := by
  unfold parseIdent
  refine goodTP_bind (P := fun t => Slice src t.span t.text) ?_ ?_
  · exact goodTP_intro fun _ _ h => ⟨(parseToken_ok hi h).1, (parseToken_ok hi h).2.1⟩
  · rintro ⟨t, st1⟩ _ h1 h2
    dsimp only at h1 h2 ⊢
    split
    · rename_i r hr
      refine goodT_ok h1 ?_
      simp only [SpanOK.ok, Ident.spansIn, Ident.raw, if_true, beq_iff_eq]
      rw [← hr]; exact textAt_of_slice h2
    · refine goodT_ok h1 ?_
      simp only [SpanOK.ok, Ident.spansIn, Ident.raw, beq_iff_eq]
      exact textAt_of_slice h2

theorem string_value (body : Str) :
    (('"' :: (body ++ ['"'])).drop 1).take (('"' :: (body ++ ['"'])).length - 2) = body := by
  simp

theorem t_parseString {src : Str} {st : PState} (hi : TInv src st) : GoodT src (parseString st) := by
  unfold parseString
  refine goodTP_bind (P := fun t => Slice src t.span t.text ∧ ∃ body, t.text = '"' :: (body ++ ['"'])) ?_ ?_
  · exact goodTP_intro fun _ _ h => ⟨(parseToken_ok hi h).1, (parseToken_ok hi h).2.1, (parseToken_ok hi h).2.2 rfl⟩
  · rintro ⟨t, st1⟩ _ h1 ⟨h2, body, hb⟩
    dsimp only at h1 h2 hb ⊢
    refine goodT_ok h1 ?_
    simp only [SpanOK.ok, StringLit.spansIn, beq_iff_eq]
    rw [hb, string_value, ← hb]
    exact textAt_of_slice h2

theorem t_parsePackageName {src : Str} {st : PState} (hi : TInv src st) : GoodT src (parsePackageName st) := by
  unfold parsePackageName
  refine goodTP_bind (P := fun t => Slice src t.span t.text) ?_ ?_
  · exact goodTP_intro fun _ _ h => ⟨(parseToken_ok hi h).1, (parseToken_ok hi h).2.1⟩
  · rintro ⟨t, st1⟩ _ h1 h2
    dsimp only at h1 h2 ⊢
    cases parseVersionAt t.text t.span (findIdx t.text '@') with
    | error e => exact goodT_err
    | ok v =>
      refine goodT_ok h1 ?_
      simp only [SpanOK.ok, PackageName.spansIn, beq_iff_eq]
      exact textAt_of_slice h2

theorem t_parsePackagePath {src : Str} {st : PState} (hi : TInv src st) : GoodT src (parsePackagePath st) := by
  unfold parsePackagePath
  refine goodTP_bind (P := fun t => Slice src t.span t.text) ?_ ?_
  · exact goodTP_intro fun _ _ h => ⟨(parseToken_ok hi h).1, (parseToken_ok hi h).2.1⟩
  · rintro ⟨t, st1⟩ _ h1 h2
    dsimp only at h1 h2 ⊢
    split
    · exact goodT_err
    · cases parseVersionAt t.text t.span (findIdx t.text '@') with
      | error e => exact goodT_err
      | ok v =>
        refine goodT_ok h1 ?_
        simp only [SpanOK.ok, PackagePath.spansIn, beq_iff_eq]
        exact textAt_of_slice h2

/-! ### leaf facts used by composite spans -/

theorem ident_span_in {src : Str} {i : Ident} (h : i.spansIn src = true) : spanIn src i.span = true := by
  simp only [Ident.spansIn, beq_iff_eq] at h; exact spanIn_of_textAt h

theorem string_span_in {src : Str} {s : StringLit} (h : s.spansIn src = true) : spanIn src s.span = true := by
  simp only [StringLit.spansIn, beq_iff_eq] at h; exact spanIn_of_textAt h

theorem packageName_span_in {src : Str} {p : PackageName} (h : p.spansIn src = true) : spanIn src p.span = true := by
  simp only [PackageName.spansIn, beq_iff_eq] at h; exact spanIn_of_textAt h

theorem packagePath_span_in {src : Str} {p : PackagePath} (h : p.spansIn src = true) : spanIn src p.span = true := by
  simp only [PackagePath.spansIn, beq_iff_eq] at h; exact spanIn_of_textAt h

theorem Ty.allSpansIn_eq (src : Str) (ts : List Ty) : Ty.allSpansIn src ts = ts.all (Ty.spansIn src) := by
  induction ts with
  | nil => rfl
  | cons t r ih => simp [Ty.allSpansIn, ih]

theorem Ty.optSpansIn_eq (src : Str) (o : Option Ty) : Ty.optSpansIn src o = o.all (Ty.spansIn src) := by
  cases o <;> simp [Ty.optSpansIn]

theorem InstantiationArgument.allSpansIn_eq (src : Str) (l : List InstantiationArgument) :
    InstantiationArgument.allSpansIn src l = l.all (InstantiationArgument.spansIn src) := by
  induction l with
  | nil => rfl
  | cons t r ih => simp [InstantiationArgument.allSpansIn, ih]

theorem optAll_eq_true {α} (p : α → Bool) (o : Option α) : o.all p = true ↔ ∀ x, o = some x → p x = true := by
  cases o <;> simp

theorem optAll_getD_none {α} (p : α → Bool) (o : Option (Option α)) :
    (o.getD none).all p = o.all (fun x => x.all p) := by cases o <;> rfl

theorem listAll_getD_nil {α} (p : α → Bool) (o : Option (List α)) :
    (o.getD []).all p = o.all (fun x => x.all p) := by cases o <;> rfl

theorem resultList_getD_empty (src : Str) (o : Option ResultList) :
    ResultList.spansIn src (o.getD .Empty) = o.all (ResultList.spansIn src) := by cases o <;> rfl

/-! ### one-step unfolding of the specification on constructor applications -/

theorem ResultList.spansIn_Empty (src : Str) : ResultList.spansIn src ResultList.Empty = true := rfl
theorem ResultList.spansIn_Scalar (src : Str) (a) : ResultList.spansIn src (ResultList.Scalar a) = a.spansIn src := rfl
theorem FuncTypeRef.spansIn_Func (src : Str) (a) : FuncTypeRef.spansIn src (FuncTypeRef.Func a) = a.spansIn src := rfl
theorem FuncTypeRef.spansIn_Ident (src : Str) (a) : FuncTypeRef.spansIn src (FuncTypeRef.Ident a) = a.spansIn src := rfl
theorem ResourceMethod.spansIn_Constructor (src : Str) (a) : ResourceMethod.spansIn src (ResourceMethod.Constructor a) = a.spansIn src := rfl
theorem ResourceMethod.spansIn_Method (src : Str) (a) : ResourceMethod.spansIn src (ResourceMethod.Method a) = a.spansIn src := rfl
theorem TypeAliasKind.spansIn_Func (src : Str) (a) : TypeAliasKind.spansIn src (TypeAliasKind.Func a) = a.spansIn src := rfl
theorem TypeAliasKind.spansIn_Type (src : Str) (a) : TypeAliasKind.spansIn src (TypeAliasKind.Type' a) = a.spansIn src := rfl
theorem TypeDecl.spansIn_Variant (src : Str) (a) : TypeDecl.spansIn src (TypeDecl.Variant a) = a.spansIn src := rfl
theorem TypeDecl.spansIn_Record (src : Str) (a) : TypeDecl.spansIn src (TypeDecl.Record a) = a.spansIn src := rfl
theorem TypeDecl.spansIn_Flags (src : Str) (a) : TypeDecl.spansIn src (TypeDecl.Flags a) = a.spansIn src := rfl
theorem TypeDecl.spansIn_Enum (src : Str) (a) : TypeDecl.spansIn src (TypeDecl.Enum a) = a.spansIn src := rfl
theorem TypeDecl.spansIn_Alias (src : Str) (a) : TypeDecl.spansIn src (TypeDecl.Alias a) = a.spansIn src := rfl
theorem ItemTypeDecl.spansIn_Resource (src : Str) (a) : ItemTypeDecl.spansIn src (ItemTypeDecl.Resource a) = a.spansIn src := rfl
theorem ItemTypeDecl.spansIn_Variant (src : Str) (a) : ItemTypeDecl.spansIn src (ItemTypeDecl.Variant a) = a.spansIn src := rfl
theorem ItemTypeDecl.spansIn_Record (src : Str) (a) : ItemTypeDecl.spansIn src (ItemTypeDecl.Record a) = a.spansIn src := rfl
theorem ItemTypeDecl.spansIn_Flags (src : Str) (a) : ItemTypeDecl.spansIn src (ItemTypeDecl.Flags a) = a.spansIn src := rfl
theorem ItemTypeDecl.spansIn_Enum (src : Str) (a) : ItemTypeDecl.spansIn src (ItemTypeDecl.Enum a) = a.spansIn src := rfl
theorem ItemTypeDecl.spansIn_Alias (src : Str) (a) : ItemTypeDecl.spansIn src (ItemTypeDecl.Alias a) = a.spansIn src := rfl
theorem UsePath.spansIn_Package (src : Str) (a) : UsePath.spansIn src (UsePath.Package a) = a.spansIn src := rfl
theorem UsePath.spansIn_Ident (src : Str) (a) : UsePath.spansIn src (UsePath.Ident a) = a.spansIn src := rfl
theorem InterfaceItem.spansIn_Use (src : Str) (a) : InterfaceItem.spansIn src (InterfaceItem.Use a) = a.spansIn src := rfl
theorem InterfaceItem.spansIn_Type (src : Str) (a) : InterfaceItem.spansIn src (InterfaceItem.Type' a) = a.spansIn src := rfl
theorem InterfaceItem.spansIn_Export (src : Str) (a) : InterfaceItem.spansIn src (InterfaceItem.Export a) = a.spansIn src := rfl
theorem ExternType.spansIn_Ident (src : Str) (a) : ExternType.spansIn src (ExternType.Ident a) = a.spansIn src := rfl
theorem ExternType.spansIn_Func (src : Str) (a) : ExternType.spansIn src (ExternType.Func a) = a.spansIn src := rfl
theorem ExternType.spansIn_Interface (src : Str) (a) : ExternType.spansIn src (ExternType.Interface a) = a.spansIn src := rfl
theorem WorldItemPath.spansIn_Named (src : Str) (a) : WorldItemPath.spansIn src (WorldItemPath.Named a) = a.spansIn src := rfl
theorem WorldItemPath.spansIn_Package (src : Str) (a) : WorldItemPath.spansIn src (WorldItemPath.Package a) = a.spansIn src := rfl
theorem WorldItemPath.spansIn_Ident (src : Str) (a) : WorldItemPath.spansIn src (WorldItemPath.Ident a) = a.spansIn src := rfl
theorem WorldRef.spansIn_Ident (src : Str) (a) : WorldRef.spansIn src (WorldRef.Ident a) = a.spansIn src := rfl
theorem WorldRef.spansIn_Package (src : Str) (a) : WorldRef.spansIn src (WorldRef.Package a) = a.spansIn src := rfl
theorem WorldItem.spansIn_Use (src : Str) (a) : WorldItem.spansIn src (WorldItem.Use a) = a.spansIn src := rfl
theorem WorldItem.spansIn_Type (src : Str) (a) : WorldItem.spansIn src (WorldItem.Type' a) = a.spansIn src := rfl
theorem WorldItem.spansIn_Import (src : Str) (a) : WorldItem.spansIn src (WorldItem.Import a) = a.spansIn src := rfl
theorem WorldItem.spansIn_Export (src : Str) (a) : WorldItem.spansIn src (WorldItem.Export a) = a.spansIn src := rfl
theorem WorldItem.spansIn_Include (src : Str) (a) : WorldItem.spansIn src (WorldItem.Include a) = a.spansIn src := rfl
theorem TypeStatement.spansIn_Interface (src : Str) (a) : TypeStatement.spansIn src (TypeStatement.Interface a) = a.spansIn src := rfl
theorem TypeStatement.spansIn_World (src : Str) (a) : TypeStatement.spansIn src (TypeStatement.World a) = a.spansIn src := rfl
theorem TypeStatement.spansIn_Type (src : Str) (a) : TypeStatement.spansIn src (TypeStatement.Type' a) = a.spansIn src := rfl
theorem ExternName.spansIn_Ident (src : Str) (a) : ExternName.spansIn src (ExternName.Ident a) = a.spansIn src := rfl
theorem ExternName.spansIn_String (src : Str) (a) : ExternName.spansIn src (ExternName.String a) = a.spansIn src := rfl
theorem ImportType.spansIn_Package (src : Str) (a) : ImportType.spansIn src (ImportType.Package a) = a.spansIn src := rfl
theorem ImportType.spansIn_Func (src : Str) (a) : ImportType.spansIn src (ImportType.Func a) = a.spansIn src := rfl
theorem ImportType.spansIn_Interface (src : Str) (a) : ImportType.spansIn src (ImportType.Interface a) = a.spansIn src := rfl
theorem ImportType.spansIn_Ident (src : Str) (a) : ImportType.spansIn src (ImportType.Ident a) = a.spansIn src := rfl
theorem InstantiationArgumentName.spansIn_Ident (src : Str) (a) : InstantiationArgumentName.spansIn src (InstantiationArgumentName.Ident a) = a.spansIn src := rfl
theorem InstantiationArgumentName.spansIn_String (src : Str) (a) : InstantiationArgumentName.spansIn src (InstantiationArgumentName.String a) = a.spansIn src := rfl
theorem PostfixExpr.spansIn_Access (src : Str) (a) : PostfixExpr.spansIn src (PostfixExpr.Access a) = a.spansIn src := rfl
theorem PostfixExpr.spansIn_NamedAccess (src : Str) (a) : PostfixExpr.spansIn src (PostfixExpr.NamedAccess a) = a.spansIn src := rfl
theorem ExportOptions.spansIn_None (src : Str) : ExportOptions.spansIn src ExportOptions.None = true := rfl
theorem ExportOptions.spansIn_Spread (src : Str) (a : Span) : ExportOptions.spansIn src (ExportOptions.Spread a) = spanIn src a := rfl
theorem ExportOptions.spansIn_Rename (src : Str) (a) : ExportOptions.spansIn src (ExportOptions.Rename a) = a.spansIn src := rfl
theorem Statement.spansIn_Import (src : Str) (a) : Statement.spansIn src (Statement.Import a) = a.spansIn src := rfl
theorem Statement.spansIn_Type (src : Str) (a) : Statement.spansIn src (Statement.Type' a) = a.spansIn src := rfl
theorem Statement.spansIn_Let (src : Str) (a) : Statement.spansIn src (Statement.Let a) = a.spansIn src := rfl
theorem Statement.spansIn_Export (src : Str) (a) : Statement.spansIn src (Statement.Export a) = a.spansIn src := rfl

theorem NamedType.spansIn_mk (src : Str) (id : Ident) (ty : Ty) :
    NamedType.spansIn src ⟨id, ty⟩ = (id.spansIn src && ty.spansIn src) := rfl

theorem FuncType.spansIn_mk (src : Str) (params : List NamedType) (results : ResultList) :
    FuncType.spansIn src ⟨params, results⟩ = (params.all (·.spansIn src) && results.spansIn src) := rfl

theorem Constructor.spansIn_mk (src : Str) (docs : List DocComment) (span : Span) (params : List NamedType) :
    Constructor.spansIn src ⟨docs, span, params⟩ = (docsIn src docs && spanIn src span && params.all (·.spansIn src)) := rfl

theorem Method.spansIn_mk (src : Str) (docs : List DocComment) (id : Ident) (isStatic : Bool) (ty : FuncType) :
    Method.spansIn src ⟨docs, id, isStatic, ty⟩ = (docsIn src docs && id.spansIn src && ty.spansIn src) := rfl

theorem ResourceDecl.spansIn_mk (src : Str) (docs : List DocComment) (id : Ident) (methods : List ResourceMethod) :
    ResourceDecl.spansIn src ⟨docs, id, methods⟩ = (docsIn src docs && id.spansIn src && methods.all (·.spansIn src)) := rfl

theorem VariantCase.spansIn_mk (src : Str) (docs : List DocComment) (id : Ident) (ty : Option Ty) :
    VariantCase.spansIn src ⟨docs, id, ty⟩ = (docsIn src docs && id.spansIn src && Ty.optSpansIn src ty) := rfl

theorem VariantDecl.spansIn_mk (src : Str) (docs : List DocComment) (id : Ident) (cases : List VariantCase) :
    VariantDecl.spansIn src ⟨docs, id, cases⟩ = (docsIn src docs && id.spansIn src && cases.all (·.spansIn src)) := rfl

theorem Field.spansIn_mk (src : Str) (docs : List DocComment) (id : Ident) (ty : Ty) :
    Field.spansIn src ⟨docs, id, ty⟩ = (docsIn src docs && id.spansIn src && ty.spansIn src) := rfl

theorem RecordDecl.spansIn_mk (src : Str) (docs : List DocComment) (id : Ident) (fields : List Field) :
    RecordDecl.spansIn src ⟨docs, id, fields⟩ = (docsIn src docs && id.spansIn src && fields.all (·.spansIn src)) := rfl

theorem Flag.spansIn_mk (src : Str) (docs : List DocComment) (id : Ident) :
    Flag.spansIn src ⟨docs, id⟩ = (docsIn src docs && id.spansIn src) := rfl

theorem FlagsDecl.spansIn_mk (src : Str) (docs : List DocComment) (id : Ident) (flags : List Flag) :
    FlagsDecl.spansIn src ⟨docs, id, flags⟩ = (docsIn src docs && id.spansIn src && flags.all (·.spansIn src)) := rfl

theorem EnumCase.spansIn_mk (src : Str) (docs : List DocComment) (id : Ident) :
    EnumCase.spansIn src ⟨docs, id⟩ = (docsIn src docs && id.spansIn src) := rfl

theorem EnumDecl.spansIn_mk (src : Str) (docs : List DocComment) (id : Ident) (cases : List EnumCase) :
    EnumDecl.spansIn src ⟨docs, id, cases⟩ = (docsIn src docs && id.spansIn src && cases.all (·.spansIn src)) := rfl

theorem TypeAlias.spansIn_mk (src : Str) (docs : List DocComment) (id : Ident) (kind : TypeAliasKind) :
    TypeAlias.spansIn src ⟨docs, id, kind⟩ = (docsIn src docs && id.spansIn src && kind.spansIn src) := rfl

theorem UseItem.spansIn_mk (src : Str) (id : Ident) (asId : Option Ident) :
    UseItem.spansIn src ⟨id, asId⟩ = (id.spansIn src && asId.all (·.spansIn src)) := rfl

theorem Use.spansIn_mk (src : Str) (docs : List DocComment) (path : UsePath) (items : List UseItem) :
    Use.spansIn src ⟨docs, path, items⟩ = (docsIn src docs && path.spansIn src && items.all (·.spansIn src)) := rfl

theorem InterfaceExport.spansIn_mk (src : Str) (docs : List DocComment) (id : Ident) (ty : FuncTypeRef) :
    InterfaceExport.spansIn src ⟨docs, id, ty⟩ = (docsIn src docs && id.spansIn src && ty.spansIn src) := rfl

theorem InterfaceDecl.spansIn_mk (src : Str) (docs : List DocComment) (id : Ident) (items : List InterfaceItem) :
    InterfaceDecl.spansIn src ⟨docs, id, items⟩ = (docsIn src docs && id.spansIn src && items.all (·.spansIn src)) := rfl

theorem InlineInterface.spansIn_mk (src : Str) (items : List InterfaceItem) :
    InlineInterface.spansIn src ⟨items⟩ = (items.all (·.spansIn src)) := rfl

theorem NamedWorldItem.spansIn_mk (src : Str) (id : Ident) (ty : ExternType) :
    NamedWorldItem.spansIn src ⟨id, ty⟩ = (id.spansIn src && ty.spansIn src) := rfl

theorem WorldImport.spansIn_mk (src : Str) (docs : List DocComment) (path : WorldItemPath) :
    WorldImport.spansIn src ⟨docs, path⟩ = (docsIn src docs && path.spansIn src) := rfl

theorem WorldExport.spansIn_mk (src : Str) (docs : List DocComment) (path : WorldItemPath) :
    WorldExport.spansIn src ⟨docs, path⟩ = (docsIn src docs && path.spansIn src) := rfl

theorem WorldIncludeItem.spansIn_mk (src : Str) (fromId : Ident) (toId : Ident) :
    WorldIncludeItem.spansIn src ⟨fromId, toId⟩ = (fromId.spansIn src && toId.spansIn src) := rfl

theorem WorldInclude.spansIn_mk (src : Str) (docs : List DocComment) (world : WorldRef) (withItems : List WorldIncludeItem) :
    WorldInclude.spansIn src ⟨docs, world, withItems⟩ = (docsIn src docs && world.spansIn src && withItems.all (·.spansIn src)) := rfl

theorem WorldDecl.spansIn_mk (src : Str) (docs : List DocComment) (id : Ident) (items : List WorldItem) :
    WorldDecl.spansIn src ⟨docs, id, items⟩ = (docsIn src docs && id.spansIn src && items.all (·.spansIn src)) := rfl

theorem ImportStatement.spansIn_mk (src : Str) (docs : List DocComment) (id : Ident) (name : Option ExternName) (ty : ImportType) :
    ImportStatement.spansIn src ⟨docs, id, name, ty⟩ = (docsIn src docs && id.spansIn src && name.all (·.spansIn src) && ty.spansIn src) := rfl

theorem AccessExpr.spansIn_mk (src : Str) (span : Span) (id : Ident) :
    AccessExpr.spansIn src ⟨span, id⟩ = (spanIn src span && id.spansIn src) := rfl

theorem NamedAccessExpr.spansIn_mk (src : Str) (span : Span) (string : StringLit) :
    NamedAccessExpr.spansIn src ⟨span, string⟩ = (spanIn src span && string.spansIn src) := rfl

theorem LetStatement.spansIn_mk (src : Str) (docs : List DocComment) (id : Ident) (expr : Expr) :
    LetStatement.spansIn src ⟨docs, id, expr⟩ = (docsIn src docs && id.spansIn src && expr.spansIn src) := rfl

theorem ExportStatement.spansIn_mk (src : Str) (docs : List DocComment) (expr : Expr) (options : ExportOptions) :
    ExportStatement.spansIn src ⟨docs, expr, options⟩ = (docsIn src docs && expr.spansIn src && options.spansIn src) := rfl

theorem PackageDirective.spansIn_mk (src : Str) (package : PackageName) (targets : Option PackagePath) :
    PackageDirective.spansIn src ⟨package, targets⟩ = (package.spansIn src && targets.all (·.spansIn src)) := rfl

theorem Document.spansIn_mk (src : Str) (docs : List DocComment) (directive : PackageDirective) (statements : List Statement) :
    Document.spansIn src ⟨docs, directive, statements⟩ = (docsIn src docs && directive.spansIn src && statements.all (·.spansIn src)) := rfl

/-! ### the tactic -/

/-- find `TInv` of the current state -/
syntax "tinv_tac" : tactic
macro_rules | `(tactic| tinv_tac) => `(tactic| first
  | assumption
  | exact next_tinv (by assumption)
  | exact next_tinv' (by assumption) (by assumption))

/-- extensible: one rule per proved parse function -/
syntax "tree_lemma" : tactic
macro_rules | `(tactic| tree_lemma) => `(tactic| exact t_parseToken (by tinv_tac) _)
macro_rules | `(tactic| tree_lemma) => `(tactic| exact t_parseIdent (by tinv_tac))
macro_rules | `(tactic| tree_lemma) => `(tactic| exact t_parseString (by tinv_tac))
macro_rules | `(tactic| tree_lemma) => `(tactic| exact t_parsePackageName (by tinv_tac))
macro_rules | `(tactic| tree_lemma) => `(tactic| exact t_parsePackagePath (by tinv_tac))

/-- close `SpanOK.ok src tree = true` from the facts collected about the parts -/
syntax "tree_fin" : tactic
macro_rules | `(tactic| tree_fin) => `(tactic|
  simp_all [SpanOK.ok, parseDocs_ok, optAll_eq_true, optAll_getD_none, listAll_getD_nil, resultList_getD_empty, spanIn_cover, Ty.allSpansIn_eq, Ty.optSpansIn_eq,
    InstantiationArgument.allSpansIn_eq,
    Ty.spansIn, NamedType.spansIn_mk, ResultList.spansIn_Empty, ResultList.spansIn_Scalar, FuncType.spansIn_mk, FuncTypeRef.spansIn_Func, FuncTypeRef.spansIn_Ident,
    Constructor.spansIn_mk, Method.spansIn_mk, ResourceMethod.spansIn_Constructor, ResourceMethod.spansIn_Method, ResourceDecl.spansIn_mk, VariantCase.spansIn_mk,
    VariantDecl.spansIn_mk, Field.spansIn_mk, RecordDecl.spansIn_mk, Flag.spansIn_mk, FlagsDecl.spansIn_mk, EnumCase.spansIn_mk,
    EnumDecl.spansIn_mk, TypeAliasKind.spansIn_Func, TypeAliasKind.spansIn_Type, TypeAlias.spansIn_mk, TypeDecl.spansIn_Variant, TypeDecl.spansIn_Record, TypeDecl.spansIn_Flags, TypeDecl.spansIn_Enum, TypeDecl.spansIn_Alias, ItemTypeDecl.spansIn_Resource, ItemTypeDecl.spansIn_Variant, ItemTypeDecl.spansIn_Record, ItemTypeDecl.spansIn_Flags, ItemTypeDecl.spansIn_Enum, ItemTypeDecl.spansIn_Alias,
    UseItem.spansIn_mk, UsePath.spansIn_Package, UsePath.spansIn_Ident, Use.spansIn_mk, InterfaceExport.spansIn_mk, InterfaceItem.spansIn_Use, InterfaceItem.spansIn_Type, InterfaceItem.spansIn_Export,
    InterfaceDecl.spansIn_mk, InlineInterface.spansIn_mk, ExternType.spansIn_Ident, ExternType.spansIn_Func, ExternType.spansIn_Interface, NamedWorldItem.spansIn_mk,
    WorldItemPath.spansIn_Named, WorldItemPath.spansIn_Package, WorldItemPath.spansIn_Ident, WorldImport.spansIn_mk, WorldExport.spansIn_mk, WorldRef.spansIn_Ident, WorldRef.spansIn_Package, WorldIncludeItem.spansIn_mk,
    WorldInclude.spansIn_mk, WorldItem.spansIn_Use, WorldItem.spansIn_Type, WorldItem.spansIn_Import, WorldItem.spansIn_Export, WorldItem.spansIn_Include, WorldDecl.spansIn_mk, TypeStatement.spansIn_Interface, TypeStatement.spansIn_World, TypeStatement.spansIn_Type, ExternName.spansIn_Ident, ExternName.spansIn_String,
    ImportType.spansIn_Package, ImportType.spansIn_Func, ImportType.spansIn_Interface, ImportType.spansIn_Ident, ImportStatement.spansIn_mk, InstantiationArgumentName.spansIn_Ident, InstantiationArgumentName.spansIn_String, NamedAccessExpr.spansIn_mk, AccessExpr.spansIn_mk,
    PostfixExpr.spansIn_Access, PostfixExpr.spansIn_NamedAccess, Expr.spansIn, PrimaryExpr.spansIn, NewExpr.spansIn, NestedExpr.spansIn,
    InstantiationArgument.spansIn, NamedInstantiationArgument.spansIn, LetStatement.spansIn_mk,
    ExportOptions.spansIn_None, ExportOptions.spansIn_Spread, ExportOptions.spansIn_Rename, ExportStatement.spansIn_mk, Statement.spansIn_Import, Statement.spansIn_Type, Statement.spansIn_Let, Statement.spansIn_Export, PackageDirective.spansIn_mk])

/-- discharge `GoodT src (do …)` goals for functions built from already treated ones; the optional
terms are induction hypotheses `∀ st, TInv src st → GoodT src (f st)` -/
syntax "tree_tac" ("[" term,* "]")? : tactic
macro_rules
  | `(tactic| tree_tac) => `(tactic| tree_tac [])
  | `(tactic| tree_tac [$ts,*]) => `(tactic| repeat (first
      | assumption
      | exact goodT_err
      | exact next_tinv ‹_›
      | exact next_tinv' ‹_› ‹_›
      | tree_lemma
      $[| exact $ts _ (by tinv_tac)]*
      | (focus (refine goodT_ok (by tinv_tac) ?_; tree_fin; done))
      | (focus (obtain ⟨h1, h2⟩ := next_some_ok ‹TInv _ _› ‹_ = (some _, _)›; refine goodT_ok h1 ?_; tree_fin; done))
      | (apply goodT_bind)
      | (apply t_parseDelimited)
      | (apply t_parseOptional)
      | (intro p hp hok; obtain ⟨a, st⟩ := p; dsimp only at hp hok ⊢)
      | (intro st' hst')
      | split
      | dsimp only))

end Wac.Lemmas.TreeSpans
