import WacModel.Semver
import WacModel.Spec.Grammar
/-
  C12, versions: the model of `semver::Version::from_str` (`Wac.parseVersion`, a sequential
  parser) agrees on every string with the specification's reading of semver.org
  (`Wac.Spec.Grammar.semver`: split at the first `+`, then at the first `-`, then at the dots).

  Route.  Write the input as `core ++ tl` where `core` is the longest prefix without `+`/`-`.
  The specification then is `specOf core pre build` for the `pre`/`build` read off `tl`
  (`semver_nil/plus/minus/minus_plus`).  `specOf` succeeds only on `core = a.b.c` with numeric
  identifiers (`specOf_inv`, `specOf_core`); the model succeeds only on `a.b.c ++ r`
  (`parseVersion_inv`, `parseVersion_core`) and fails when `r` starts with anything but `+`/`-`
  (`parseTail_garbage`).  On a well-formed core both reduce to the tail, where they agree
  (`parseTail_nil/plus/minus`, `buildEnd` against `preOk_eq`, `buildOk_eq`).  `finish` glues.

  Helper lemmas live in `Wac.C12.SemverAgree`; the theorem is `Wac.C12.parseVersion_eq_semver`.
  Core Lean only.
-/
namespace Wac.C12.SemverAgree
open Wac Wac.Spec.Grammar

/-! ### generic list facts -/

theorem takeWhile_app {α} (p : α → Bool) (a r : List α) (h : ∀ x ∈ a, p x = true) :
    (a ++ r).takeWhile p = a ++ r.takeWhile p := by
  induction a with
  | nil => rfl
  | cons x a ih =>
    have hx : p x = true := h x (by simp)
    simp only [List.cons_append, List.takeWhile_cons, hx, if_true]
    rw [ih (fun y hy => h y (by simp [hy]))]

theorem dropWhile_app {α} (p : α → Bool) (a r : List α) (h : ∀ x ∈ a, p x = true) :
    (a ++ r).dropWhile p = r.dropWhile p := by
  induction a with
  | nil => rfl
  | cons x a ih =>
    have hx : p x = true := h x (by simp)
    simp only [List.cons_append, List.dropWhile_cons, hx, if_true]
    exact ih (fun y hy => h y (by simp [hy]))

/-- a tail that stops `takeWhile p` -/
def Stops {α} (p : α → Bool) (r : List α) : Prop := r = [] ∨ ∃ x r', r = x :: r' ∧ p x = false

theorem takeWhile_stops {α} (p : α → Bool) (r : List α) (h : Stops p r) : r.takeWhile p = [] := by
  rcases h with rfl | ⟨x, r', rfl, hx⟩
  · rfl
  · simp [hx]

theorem dropWhile_stops {α} (p : α → Bool) (r : List α) (h : Stops p r) : r.dropWhile p = r := by
  rcases h with rfl | ⟨x, r', rfl, hx⟩
  · rfl
  · simp [hx]

theorem stops_dropWhile {α} (p : α → Bool) (s : List α) : Stops p (s.dropWhile p) := by
  induction s with
  | nil => exact Or.inl rfl
  | cons x s ih =>
    cases hx : p x
    · right; exact ⟨x, s, by simp [hx], hx⟩
    · simpa [List.dropWhile_cons, hx] using ih

theorem takeWhile_all {α} (p : α → Bool) (s : List α) : ∀ x ∈ s.takeWhile p, p x = true := by
  induction s with
  | nil => intro x hx; simp at hx
  | cons y s ih =>
    intro x hx
    cases hy : p y
    · simp [hy] at hx
    · simp only [List.takeWhile_cons, hy, if_true, List.mem_cons] at hx
      rcases hx with rfl | hx
      · exact hy
      · exact ih x hx

theorem takeWhile_app_stops {α} (p : α → Bool) (a r : List α) (h : ∀ x ∈ a, p x = true)
    (hr : Stops p r) : (a ++ r).takeWhile p = a := by
  rw [takeWhile_app p a r h, takeWhile_stops p r hr, List.append_nil]

theorem dropWhile_app_stops {α} (p : α → Bool) (a r : List α) (h : ∀ x ∈ a, p x = true)
    (hr : Stops p r) : (a ++ r).dropWhile p = r := by
  rw [dropWhile_app p a r h, dropWhile_stops p r hr]

theorem all_of_forall {α} (p : α → Bool) (a : List α) : a.all p = true ↔ ∀ x ∈ a, p x = true := by
  simp [List.all_eq_true]

/-- when not every element satisfies `p`, `dropWhile` stops inside the list -/
theorem dropWhile_app_of_not_all {α} (p : α → Bool) (a r : List α) (h : a.all p = false) :
    ∃ x r', (a ++ r).dropWhile p = x :: r' ∧ x ∈ a ∧ p x = false := by
  induction a with
  | nil => simp at h
  | cons y a ih =>
    cases hy : p y
    · exact ⟨y, a ++ r, by simp [hy], by simp, hy⟩
    · have h' : a.all p = false := by simpa [List.all_cons, hy] using h
      obtain ⟨x, r', h1, h2, h3⟩ := ih h'
      exact ⟨x, r', by simpa [List.dropWhile_cons, hy] using h1, by simp [h2], h3⟩

theorem all_and {α} (f g : α → Bool) (l : List α) :
    l.all (fun x => f x && g x) = (l.all f && l.all g) := by
  induction l with
  | nil => rfl
  | cons x l ih =>
    simp only [List.all_cons, ih]
    cases f x <;> cases g x <;> simp

/-! ### `splitOn` -/

theorem splitOn_go_nomem (c : Char) (a : Str) : ∀ (acc : Str), (∀ x ∈ a, (x != c) = true) →
    splitOn.go c acc a = [acc.reverse ++ a] := by
  induction a with
  | nil => intro acc _; simp [splitOn.go]
  | cons y a ih =>
    intro acc h
    have hy : (y == c) = false := by
      have := h y (by simp)
      simpa [bne] using this
    rw [splitOn.go]
    simp only [hy]
    rw [ih (y :: acc) (fun x hx => h x (by simp [hx]))]
    simp

theorem splitOn_go_app (c : Char) (a r : Str) : ∀ (acc : Str), (∀ x ∈ a, (x != c) = true) →
    splitOn.go c acc (a ++ c :: r) = (acc.reverse ++ a) :: splitOn.go c [] r := by
  induction a with
  | nil => intro acc _; simp [splitOn.go]
  | cons y a ih =>
    intro acc h
    have hy : (y == c) = false := by
      have := h y (by simp)
      simpa [bne] using this
    rw [List.cons_append, splitOn.go]
    simp only [hy]
    rw [ih (y :: acc) (fun x hx => h x (by simp [hx]))]
    simp

theorem splitOn_nomem (c : Char) (a : Str) (h : ∀ x ∈ a, (x != c) = true) : splitOn c a = [a] := by
  simp [splitOn, splitOn_go_nomem c a [] h]

theorem splitOn_app (c : Char) (a r : Str) (h : ∀ x ∈ a, (x != c) = true) :
    splitOn c (a ++ c :: r) = a :: splitOn c r := by
  simp [splitOn, splitOn_go_app c a r [] h]

theorem splitOnDot_go_eq (s : Str) : ∀ acc, splitOnDot.go acc s = splitOn.go '.' acc s := by
  induction s with
  | nil => intro acc; simp [splitOnDot.go, splitOn.go]
  | cons y s ih =>
    intro acc
    rw [splitOnDot.go, splitOn.go, ih, ih]

theorem splitOnDot_eq (s : Str) : splitOnDot s = splitOn '.' s := by
  simp [splitOnDot, splitOn, splitOnDot_go_eq]

theorem splitOn_go_all (c : Char) (q : Char → Bool) (s : Str) : ∀ acc,
    (splitOn.go c acc s).all (fun seg => seg.all q) = (acc.all q && s.all (fun x => x == c || q x)) := by
  induction s with
  | nil => intro acc; simp [splitOn.go]
  | cons y s ih =>
    intro acc
    rw [splitOn.go]
    cases hy : (y == c)
    · simp only [Bool.false_eq_true, if_false]
      rw [ih]
      simp only [List.all_cons, hy, Bool.false_or]
      cases q y <;> simp
    · simp only [if_true]
      rw [List.all_cons, ih]
      simp [List.all_cons, hy]

theorem splitOn_all (c : Char) (q : Char → Bool) (s : Str) :
    (splitOn c s).all (fun seg => seg.all q) = s.all (fun x => x == c || q x) := by
  simp [splitOn, splitOn_go_all]

theorem splitOn_unfold (c : Char) (s : Str) :
    splitOn c s = s.takeWhile (· != c) ::
      (match s.dropWhile (· != c) with
       | [] => []
       | _ :: r => splitOn c r) := by
  have hs : s = s.takeWhile (· != c) ++ s.dropWhile (· != c) := (List.takeWhile_append_dropWhile).symm
  have ha := takeWhile_all (· != c) s
  rcases stops_dropWhile (· != c) s with h | ⟨x, r, h, hx⟩
  · rw [h] at hs ⊢
    simp only [List.append_nil] at hs
    rw [← hs]
    exact splitOn_nomem c s (by rw [hs]; exact ha)
  · have hxc : x = c := by simpa [bne] using hx
    subst hxc
    rw [h]
    simp only
    conv => lhs; rw [hs, h]
    exact splitOn_app x _ r ha

theorem splitOn_ne_nil (c : Char) (s : Str) : splitOn c s ≠ [] := by
  rw [splitOn_unfold]; simp

theorem splitOn_cons_inv (c : Char) (s a : Str) (l : List Str) (h : splitOn c s = a :: l) :
    (l = [] ∧ s = a) ∨ (∃ r, s = a ++ c :: r ∧ splitOn c r = l) := by
  have hs : s = s.takeWhile (· != c) ++ s.dropWhile (· != c) := (List.takeWhile_append_dropWhile).symm
  rw [splitOn_unfold] at h
  rcases stops_dropWhile (· != c) s with hd | ⟨x, r, hd, hx⟩
  · rw [hd] at h hs
    simp only [List.cons.injEq] at h
    left
    refine ⟨h.2.symm, ?_⟩
    rw [← h.1]; simpa using hs
  · have hxc : x = c := by simpa [bne] using hx
    subst hxc
    rw [hd] at h hs
    simp only [List.cons.injEq] at h
    right
    exact ⟨r, by rw [← h.1]; exact hs, h.2⟩

/-! ### `splitFirst` -/

theorem splitFirst_nomem (c : Char) (a : Str) (h : ∀ x ∈ a, (x != c) = true) :
    splitFirst c a = (a, none) := by
  have h1 : a.takeWhile (· != c) = a := by
    have := takeWhile_app_stops (· != c) a [] h (Or.inl rfl)
    simpa using this
  simp [splitFirst, h1]

theorem splitFirst_app (c : Char) (a r : Str) (h : ∀ x ∈ a, (x != c) = true) :
    splitFirst c (a ++ c :: r) = (a, some r) := by
  have h1 : (a ++ c :: r).takeWhile (· != c) = a :=
    takeWhile_app_stops (· != c) a (c :: r) h (Or.inr ⟨c, r, rfl, by simp⟩)
  unfold splitFirst
  simp only [h1]
  simp

/-! ### characters -/

/-- the characters `identifier` consumes -/
def iod (c : Char) : Bool := isIdentChar c || c == '.'
/-- neither `+` nor `-` -/
def notPM (c : Char) : Bool := c != '+' && c != '-'

theorem isDig_eq : isDig = isDigit := rfl

theorem isAlnumHyphen_eq : isAlnumHyphen = isIdentChar := by
  funext c
  simp only [isAlnumHyphen, isIdentChar, isDig_eq]
  generalize isDigit c = d
  generalize (decide ('a' ≤ c) && decide (c ≤ 'z')) = l
  generalize (decide ('A' ≤ c) && decide (c ≤ 'Z')) = u
  generalize (c == '-') = m
  cases d <;> cases l <;> cases u <;> cases m <;> rfl

theorem ne_of_pred {p : Char → Bool} {c d : Char} (hd : p d = false) (h : p c = true) : (c != d) = true := by
  cases hcd : (c != d)
  · have : c = d := by simpa [bne] using hcd
    subst this; rw [hd] at h; cases h
  · rfl

theorem isDigit_dot : isDigit '.' = false := by decide
theorem isDigit_plus : isDigit '+' = false := by decide
theorem isDigit_minus : isDigit '-' = false := by decide
theorem iod_plus : iod '+' = false := by decide
theorem isDigit_notPM {c : Char} (h : isDigit c = true) : notPM c = true := by
  simp [notPM, ne_of_pred isDigit_plus h, ne_of_pred isDigit_minus h]
theorem notPM_dot : notPM '.' = true := by decide

/-! ### numeric identifiers -/

theorem numericId_not_digits (a : Str) (h : a.all isDigit = false) : numericId a = none := by
  simp [numericId, isDig_eq, h]

theorem numericId_digits {a : Str} {v : Nat} (h : numericId a = some v) : ∀ x ∈ a, isDigit x = true := by
  cases hall : a.all isDigit
  · rw [numericId_not_digits a hall] at h; cases h
  · exact (all_of_forall _ _).1 hall

theorem numericIdent_app (a r : Str) (ha : ∀ x ∈ a, isDigit x = true) (hr : Stops isDigit r) :
    numericIdent (a ++ r) = (numericId a).map (fun v => (v, r)) := by
  have h1 : (a ++ r).takeWhile isDigit = a := takeWhile_app_stops _ _ _ ha hr
  have h2 : (a ++ r).dropWhile isDigit = r := dropWhile_app_stops _ _ _ ha hr
  have hall : a.all isDig = true := by rw [isDig_eq]; exact (all_of_forall _ _).2 ha
  have hv : a.foldl (fun a c => 10 * a + (c.toNat - '0'.toNat)) 0 = digitsVal a := rfl
  have hp : (2 : Nat) ^ 64 = 18446744073709551616 := by decide
  unfold numericIdent numericId
  simp only [h1, h2, hall, hv, hp, u64Max]
  cases he : a.isEmpty
  · cases hz : (decide (a.length > 1) && a.head? == some '0')
    · by_cases hb : digitsVal a > 18446744073709551615
      · have : ¬ digitsVal a < 18446744073709551616 := by omega
        simp [hb, this]
      · have : digitsVal a < 18446744073709551616 := by omega
        simp [hb, this]
    · simp
  · simp

theorem numericIdent_inv {s r : Str} {v : Nat} (h : numericIdent s = some (v, r)) :
    ∃ a, s = a ++ r ∧ numericId a = some v ∧ Stops isDigit r := by
  have hs : s = s.takeWhile isDigit ++ s.dropWhile isDigit := (List.takeWhile_append_dropWhile).symm
  have hst := stops_dropWhile isDigit s
  rw [hs, numericIdent_app _ _ (takeWhile_all isDigit s) hst] at h
  cases hn : numericId (s.takeWhile isDigit) with
  | none => rw [hn] at h; cases h
  | some w =>
    rw [hn] at h
    simp only [Option.map_some, Option.some.injEq, Prod.mk.injEq] at h
    refine ⟨s.takeWhile isDigit, ?_, ?_, ?_⟩
    · rw [← h.2]; exact hs
    · rw [hn, h.1]
    · rw [← h.2]; exact hst

theorem eatDot_inv {s r : Str} (h : eatDot s = some r) : s = '.' :: r := by
  unfold eatDot at h
  split at h
  · cases h; rfl
  · cases h

theorem stops_dot (r : Str) : Stops isDigit ('.' :: r) := Or.inr ⟨'.', r, rfl, isDigit_dot⟩

/-- the model on a well-formed core -/
theorem parseVersion_core {a b c : Str} {ma mi pa : Nat} (ha : numericId a = some ma)
    (hb : numericId b = some mi) (hc : numericId c = some pa) (r : Str) (hr : Stops isDigit r) :
    parseVersion (a ++ '.' :: (b ++ '.' :: (c ++ r))) = parseTail ma mi pa r := by
  unfold parseVersion
  rw [numericIdent_app a _ (numericId_digits ha) (stops_dot _), ha]
  simp only [Option.map_some, eatDot]
  rw [numericIdent_app b _ (numericId_digits hb) (stops_dot _), hb]
  simp only [Option.map_some]
  rw [numericIdent_app c _ (numericId_digits hc) hr, hc]
  simp only [Option.map_some]

/-- inversion of a successful run of the model -/
theorem parseVersion_inv {s : Str} {v : Version} (h : parseVersion s = some v) :
    ∃ a b c ma mi pa r, s = a ++ '.' :: (b ++ '.' :: (c ++ r)) ∧ numericId a = some ma ∧
      numericId b = some mi ∧ numericId c = some pa ∧ Stops isDigit r ∧
      parseTail ma mi pa r = some v := by
  unfold parseVersion at h
  cases h1 : numericIdent s with
  | none => rw [h1] at h; cases h
  | some p1 =>
    obtain ⟨ma, s1⟩ := p1
    rw [h1] at h; simp only at h
    cases h2 : eatDot s1 with
    | none => rw [h2] at h; cases h
    | some s2 =>
      rw [h2] at h; simp only at h
      cases h3 : numericIdent s2 with
      | none => rw [h3] at h; cases h
      | some p3 =>
        obtain ⟨mi, s3⟩ := p3
        rw [h3] at h; simp only at h
        cases h4 : eatDot s3 with
        | none => rw [h4] at h; cases h
        | some s4 =>
          rw [h4] at h; simp only at h
          cases h5 : numericIdent s4 with
          | none => rw [h5] at h; cases h
          | some p5 =>
            obtain ⟨pa, s5⟩ := p5
            rw [h5] at h; simp only at h
            obtain ⟨a, e1, na, _⟩ := numericIdent_inv h1
            obtain ⟨b, e3, nb, _⟩ := numericIdent_inv h3
            obtain ⟨c, e5, nc, st⟩ := numericIdent_inv h5
            have e2 := eatDot_inv h2
            have e4 := eatDot_inv h4
            refine ⟨a, b, c, ma, mi, pa, s5, ?_, na, nb, nc, st, h⟩
            rw [e1, e2, e3, e4, e5]

/-! ### the specification side -/

/-- the body of `semver` after the two `splitFirst`s -/
def specOf (core : Str) (pre build : Option Str) : Option Version :=
  match splitOn '.' core with
  | [a, b, c] =>
    match numericId a, numericId b, numericId c with
    | some ma, some mi, some pa =>
      let preOk := match pre with
        | none => true
        | some p => (splitOn '.' p).all preIdOk
      let buildOk := match build with
        | none => true
        | some b => (splitOn '.' b).all buildIdOk
      if preOk && buildOk then some ⟨ma, mi, pa, pre.getD [], build.getD []⟩ else none
    | _, _, _ => none
  | _ => none

theorem semver_eq (s : Str) : semver s =
    specOf (splitFirst '-' (splitFirst '+' s).1).1 (splitFirst '-' (splitFirst '+' s).1).2
      (splitFirst '+' s).2 := rfl

def okPre (q : Str) : Bool := q.all iod && (splitOnDot q).all (segOk true)
def okBuild (b : Str) : Bool := b.all iod && (splitOnDot b).all (segOk false)

theorem iod_eq : (fun x => x == '.' || isIdentChar x) = iod := by
  funext x; simp [iod, Bool.or_comm]

theorem preIdOk_eq : preIdOk = fun seg => segOk true seg && seg.all isIdentChar := by
  funext s
  simp only [preIdOk, segOk, isAlnumHyphen_eq, isDig_eq, Bool.true_and]
  generalize s.isEmpty = e
  generalize s.all isIdentChar = i
  generalize s.all isDigit = d
  generalize decide (s.length > 1) = l
  generalize (s.head? == some '0') = z
  cases e <;> cases i <;> cases d <;> cases l <;> cases z <;> rfl

theorem buildIdOk_eq : buildIdOk = fun seg => segOk false seg && seg.all isIdentChar := by
  funext s
  simp [buildIdOk, segOk, isAlnumHyphen_eq]

theorem preOk_eq (p : Str) : (splitOn '.' p).all preIdOk = okPre p := by
  rw [preIdOk_eq, all_and, splitOn_all, iod_eq, okPre, splitOnDot_eq, Bool.and_comm]

theorem buildOk_eq (b : Str) : (splitOn '.' b).all buildIdOk = okBuild b := by
  rw [buildIdOk_eq, all_and, splitOn_all, iod_eq, okBuild, splitOnDot_eq, Bool.and_comm]

theorem digits_no_dot {a : Str} {v : Nat} (h : numericId a = some v) : ∀ x ∈ a, (x != '.') = true :=
  fun x hx => ne_of_pred isDigit_dot (numericId_digits h x hx)

theorem specOf_core {a b c : Str} {ma mi pa : Nat} (ha : numericId a = some ma)
    (hb : numericId b = some mi) (hc : numericId c = some pa) (pre build : Option Str) :
    specOf (a ++ '.' :: (b ++ '.' :: c)) pre build =
      if ((match pre with | none => true | some p => okPre p) &&
          (match build with | none => true | some b => okBuild b)) = true
      then some ⟨ma, mi, pa, pre.getD [], build.getD []⟩ else none := by
  have hs : splitOn '.' (a ++ '.' :: (b ++ '.' :: c)) = [a, b, c] := by
    rw [splitOn_app _ _ _ (digits_no_dot ha), splitOn_app _ _ _ (digits_no_dot hb),
      splitOn_nomem _ _ (digits_no_dot hc)]
  unfold specOf
  rw [hs]
  simp only [ha, hb, hc]
  cases pre <;> cases build <;> simp only [preOk_eq, buildOk_eq]

theorem specOf_inv {core : Str} {pre build : Option Str} {v : Version}
    (h : specOf core pre build = some v) :
    ∃ a b c ma mi pa, core = a ++ '.' :: (b ++ '.' :: c) ∧ numericId a = some ma ∧
      numericId b = some mi ∧ numericId c = some pa := by
  unfold specOf at h
  split at h
  · rename_i a b c hsp
    split at h
    · rename_i ma mi pa ha hb hc
      refine ⟨a, b, c, ma, mi, pa, ?_, ha, hb, hc⟩
      rcases splitOn_cons_inv _ _ _ _ hsp with ⟨h0, _⟩ | ⟨r1, e1, hsp1⟩
      · cases h0
      · rcases splitOn_cons_inv _ _ _ _ hsp1 with ⟨h0, _⟩ | ⟨r2, e2, hsp2⟩
        · cases h0
        · rcases splitOn_cons_inv _ _ _ _ hsp2 with ⟨_, e3⟩ | ⟨r3, _, hsp3⟩
          · rw [e1, e2, e3]
          · exact absurd hsp3 (splitOn_ne_nil _ _)
    · cases h
  · cases h

/-! ### the tail of the model -/

theorem identifier_app (isPre : Bool) (q tl : Str) (hq : ∀ x ∈ q, iod x = true) (htl : Stops iod tl) :
    identifier isPre (q ++ tl) =
      if q.isEmpty then some ([], q ++ tl)
      else if (splitOnDot q).all (segOk isPre) then some (q, tl) else none := by
  have h1 : (q ++ tl).takeWhile (fun c => isIdentChar c || c == '.') = q :=
    takeWhile_app_stops iod q tl hq htl
  have h2 : (q ++ tl).dropWhile (fun c => isIdentChar c || c == '.') = tl :=
    dropWhile_app_stops iod q tl hq htl
  unfold identifier
  simp only [h1, h2]

theorem identifier_cases (isPre : Bool) (s : Str) :
    identifier isPre s = none ∨ identifier isPre s = some ([], s) ∨
      ∃ p, identifier isPre s = some (p, s.dropWhile iod) := by
  unfold identifier
  simp only
  split
  · right; left; rfl
  · split
    · right; right; exact ⟨_, rfl⟩
    · left; rfl

theorem parsePre_other {x : Char} (r : Str) (hx : (x != '-') = true) :
    parsePre (x :: r) = some ([], x :: r) := by
  unfold parsePre
  split
  · rename_i r' heq
    simp only [List.cons.injEq] at heq
    rw [heq.1] at hx; simp at hx
  · rfl

theorem parseBuild_other {x : Char} (r : Str) (hx : (x != '+') = true) :
    parseBuild (x :: r) = some ([], x :: r) := by
  unfold parseBuild
  split
  · rename_i r' heq
    simp only [List.cons.injEq] at heq
    rw [heq.1] at hx; simp at hx
  · rfl

theorem parseTail_nil (ma mi pa : Nat) : parseTail ma mi pa [] = some ⟨ma, mi, pa, [], []⟩ := by
  simp [parseTail, parsePre, parseBuild]

theorem parseTail_garbage (ma mi pa : Nat) {x : Char} (r : Str) (hx : notPM x = true) :
    parseTail ma mi pa (x :: r) = none := by
  have h := hx
  simp only [notPM, Bool.and_eq_true] at h
  unfold parseTail
  rw [parsePre_other r h.2]
  simp only
  rw [parseBuild_other r h.1]
  simp

/-- `+build` up to the end of the input -/
theorem buildEnd (ma mi pa : Nat) (pre b : Str) :
    (match parseBuild ('+' :: b) with
     | none => none
     | some (build, s) => if s.isEmpty then some (⟨ma, mi, pa, pre, build⟩ : Version) else none) =
    if okBuild b then some ⟨ma, mi, pa, pre, b⟩ else none := by
  have hpb : parseBuild ('+' :: b) =
      match identifier false b with
      | none => none
      | some (b, r) => if b.isEmpty then none else some (b, r) := rfl
  rw [hpb]
  cases hall : b.all iod
  · -- some character of `b` is not an identifier character
    have hok : okBuild b = false := by simp [okBuild, hall]
    rw [hok]
    obtain ⟨x, r', hd, _, _⟩ := dropWhile_app_of_not_all iod b [] hall
    rw [List.append_nil] at hd
    rcases identifier_cases false b with h | h | ⟨p, h⟩
    · rw [h]; rfl
    · rw [h]; rfl
    · rw [h, hd]
      cases p <;> rfl
  · have hq := (all_of_forall _ _).1 hall
    have hid := identifier_app false b [] hq (Or.inl rfl)
    rw [List.append_nil] at hid
    rw [hid]
    cases b with
    | nil => rfl
    | cons y b' =>
      simp only [List.isEmpty_cons, Bool.false_eq_true, if_false, okBuild, hall, Bool.true_and]
      cases (splitOnDot (y :: b')).all (segOk false) <;> rfl

theorem parseTail_plus (ma mi pa : Nat) (b : Str) :
    parseTail ma mi pa ('+' :: b) = if okBuild b then some ⟨ma, mi, pa, [], b⟩ else none := by
  unfold parseTail
  rw [parsePre_other b (by decide)]
  exact buildEnd ma mi pa [] b

theorem parseTail_minus (ma mi pa : Nat) (q tl : Str) (hq : ∀ x ∈ q, (x != '+') = true)
    (htl : tl = [] ∨ ∃ b, tl = '+' :: b) :
    parseTail ma mi pa ('-' :: (q ++ tl)) =
      if okPre q then
        (match parseBuild tl with
         | none => none
         | some (build, s) => if s.isEmpty then some (⟨ma, mi, pa, q, build⟩ : Version) else none)
      else none := by
  have hpp : parsePre ('-' :: (q ++ tl)) =
      match identifier true (q ++ tl) with
      | none => none
      | some (pre, r) => if pre.isEmpty then none else some (pre, r) := rfl
  unfold parseTail
  rw [hpp]
  cases hall : q.all iod
  · have hok : okPre q = false := by simp [okPre, hall]
    rw [hok]
    obtain ⟨x, r', hd, hxq, _⟩ := dropWhile_app_of_not_all iod q tl hall
    rcases identifier_cases true (q ++ tl) with h | h | ⟨p, h⟩
    · rw [h]; rfl
    · rw [h]; rfl
    · rw [h, hd]
      cases p with
      | nil => rfl
      | cons y p' =>
        simp only [List.isEmpty_cons, Bool.false_eq_true, if_false]
        rw [parseBuild_other r' (hq x hxq)]
        rfl
  · have hq' := (all_of_forall _ _).1 hall
    have hst : Stops iod tl := by
      rcases htl with rfl | ⟨b, rfl⟩
      · exact Or.inl rfl
      · exact Or.inr ⟨'+', b, rfl, iod_plus⟩
    rw [identifier_app true q tl hq' hst]
    cases q with
    | nil => rfl
    | cons y q' =>
      simp only [List.isEmpty_cons, Bool.false_eq_true, if_false, okPre, hall, Bool.true_and]
      cases (splitOnDot (y :: q')).all (segOk true) <;> rfl

/-! ### assembling -/

theorem notPM_plus {x : Char} (h : notPM x = true) : (x != '+') = true := by
  simp only [notPM, Bool.and_eq_true] at h; exact h.1
theorem notPM_minus {x : Char} (h : notPM x = true) : (x != '-') = true := by
  simp only [notPM, Bool.and_eq_true] at h; exact h.2

theorem stops_digit_of_notPM {r : Str} (h : Stops notPM r) : Stops isDigit r := by
  rcases h with rfl | ⟨x, r', rfl, hx⟩
  · exact Or.inl rfl
  · refine Or.inr ⟨x, r', rfl, ?_⟩
    cases hd : isDigit x
    · rfl
    · rw [isDigit_notPM hd] at hx; cases hx

theorem core_notPM {a b c : Str} {ma mi pa : Nat} (ha : numericId a = some ma)
    (hb : numericId b = some mi) (hc : numericId c = some pa) :
    ∀ x ∈ a ++ '.' :: (b ++ '.' :: c), notPM x = true := by
  intro x hx
  simp only [List.mem_append, List.mem_cons] at hx
  rcases hx with hx | rfl | hx | rfl | hx
  · exact isDigit_notPM (numericId_digits ha x hx)
  · exact notPM_dot
  · exact isDigit_notPM (numericId_digits hb x hx)
  · exact notPM_dot
  · exact isDigit_notPM (numericId_digits hc x hx)

theorem assoc3 (a b c r : Str) :
    a ++ '.' :: (b ++ '.' :: (c ++ r)) = (a ++ '.' :: (b ++ '.' :: c)) ++ r := by
  simp [List.append_assoc]

theorem finish (core tl : Str) (pre build : Option Str) (hcore : ∀ x ∈ core, notPM x = true)
    (htl : Stops notPM tl)
    (E2 : ∀ (a b c : Str) (ma mi pa : Nat), numericId a = some ma → numericId b = some mi →
      numericId c = some pa →
      parseTail ma mi pa tl = specOf (a ++ '.' :: (b ++ '.' :: c)) pre build) :
    parseVersion (core ++ tl) = specOf core pre build := by
  cases hs : specOf core pre build with
  | none =>
    cases hm : parseVersion (core ++ tl) with
    | none => rfl
    | some v =>
      exfalso
      obtain ⟨a, b, c, ma, mi, pa, r, e, ha, hb, hc, hr, ht⟩ := parseVersion_inv hm
      rw [assoc3] at e
      have habc := core_notPM ha hb hc
      by_cases hrs : Stops notPM r
      · have e1 := congrArg (List.takeWhile notPM) e
        have e2 := congrArg (List.dropWhile notPM) e
        rw [takeWhile_app_stops _ _ _ hcore htl, takeWhile_app_stops _ _ _ habc hrs] at e1
        rw [dropWhile_app_stops _ _ _ hcore htl, dropWhile_app_stops _ _ _ habc hrs] at e2
        rw [← e2, E2 a b c ma mi pa ha hb hc, ← e1, hs] at ht
        cases ht
      · rcases hr with rfl | ⟨x, r', rfl, hx⟩
        · exact hrs (Or.inl rfl)
        · cases hn : notPM x
          · exact hrs (Or.inr ⟨x, r', rfl, hn⟩)
          · rw [parseTail_garbage ma mi pa r' hn] at ht; cases ht
  | some v =>
    obtain ⟨a, b, c, ma, mi, pa, e, ha, hb, hc⟩ := specOf_inv hs
    rw [e, ← assoc3, parseVersion_core ha hb hc tl (stops_digit_of_notPM htl),
      E2 a b c ma mi pa ha hb hc, ← e, hs]

theorem semver_nil (core : Str) (h : ∀ x ∈ core, notPM x = true) :
    semver core = specOf core none none := by
  rw [semver_eq, splitFirst_nomem '+' core (fun x hx => notPM_plus (h x hx))]
  simp only
  rw [splitFirst_nomem '-' core (fun x hx => notPM_minus (h x hx))]

theorem semver_plus (core b : Str) (h : ∀ x ∈ core, notPM x = true) :
    semver (core ++ '+' :: b) = specOf core none (some b) := by
  rw [semver_eq, splitFirst_app '+' core b (fun x hx => notPM_plus (h x hx))]
  simp only
  rw [splitFirst_nomem '-' core (fun x hx => notPM_minus (h x hx))]

theorem semver_minus (core q : Str) (h : ∀ x ∈ core, notPM x = true)
    (hq : ∀ x ∈ q, (x != '+') = true) :
    semver (core ++ '-' :: q) = specOf core (some q) none := by
  have hall : ∀ x ∈ core ++ '-' :: q, (x != '+') = true := by
    intro x hx
    simp only [List.mem_append, List.mem_cons] at hx
    rcases hx with hx | rfl | hx
    · exact notPM_plus (h x hx)
    · decide
    · exact hq x hx
  rw [semver_eq, splitFirst_nomem '+' _ hall]
  simp only
  rw [splitFirst_app '-' core q (fun x hx => notPM_minus (h x hx))]

theorem semver_minus_plus (core q b : Str) (h : ∀ x ∈ core, notPM x = true)
    (hq : ∀ x ∈ q, (x != '+') = true) :
    semver (core ++ '-' :: (q ++ '+' :: b)) = specOf core (some q) (some b) := by
  have hall : ∀ x ∈ core ++ '-' :: q, (x != '+') = true := by
    intro x hx
    simp only [List.mem_append, List.mem_cons] at hx
    rcases hx with hx | rfl | hx
    · exact notPM_plus (h x hx)
    · decide
    · exact hq x hx
  have e : core ++ '-' :: (q ++ '+' :: b) = (core ++ '-' :: q) ++ '+' :: b := by
    simp [List.append_assoc]
  rw [e, semver_eq, splitFirst_app '+' _ b hall]
  simp only
  rw [splitFirst_app '-' core q (fun x hx => notPM_minus (h x hx))]

theorem agree_forms (core tl : Str) (hcore : ∀ x ∈ core, notPM x = true) (htl : Stops notPM tl) :
    parseVersion (core ++ tl) = semver (core ++ tl) := by
  rcases htl with rfl | ⟨x, t, rfl, hx⟩
  · -- no pre-release, no build
    rw [List.append_nil, semver_nil core hcore]
    have := finish core [] none none hcore (Or.inl rfl) (by
      intro a b c ma mi pa ha hb hc
      rw [parseTail_nil, specOf_core ha hb hc]; rfl)
    simpa using this
  · have hx' : x = '+' ∨ x = '-' := by
      simp only [notPM, Bool.and_eq_false_iff, bne_eq_false_iff_eq] at hx
      exact hx
    rcases hx' with rfl | rfl
    · -- build only
      rw [semver_plus core t hcore]
      exact finish core ('+' :: t) none (some t) hcore (Or.inr ⟨'+', t, rfl, by decide⟩) (by
        intro a b c ma mi pa ha hb hc
        rw [parseTail_plus, specOf_core ha hb hc]; rfl)
    · -- pre-release, then possibly a build
      have ht : t = t.takeWhile (· != '+') ++ t.dropWhile (· != '+') :=
        (List.takeWhile_append_dropWhile).symm
      have hq := takeWhile_all (· != '+') t
      have hst : Stops notPM ('-' :: t) := Or.inr ⟨'-', t, rfl, by decide⟩
      rcases stops_dropWhile (· != '+') t with hd | ⟨y, b, hd, hy⟩
      · rw [hd, List.append_nil] at ht
        rw [← ht] at hq
        rw [semver_minus core t hcore hq]
        refine finish core ('-' :: t) (some t) none hcore hst ?_
        intro a b c ma mi pa ha hb hc
        have := parseTail_minus ma mi pa t [] hq (Or.inl rfl)
        rw [List.append_nil] at this
        rw [this, specOf_core ha hb hc]
        cases h1 : okPre t <;> simp [h1, parseBuild]
      · have hyp : y = '+' := by simpa [bne] using hy
        subst hyp
        rw [hd] at ht
        generalize t.takeWhile (· != '+') = q at ht hq
        subst ht
        rw [semver_minus_plus core q b hcore hq]
        refine finish core _ (some q) (some b) hcore (Or.inr ⟨'-', _, rfl, by decide⟩) ?_
        intro a b' c ma mi pa ha hb hc
        rw [parseTail_minus ma mi pa q ('+' :: b) hq (Or.inr ⟨b, rfl⟩), buildEnd,
          specOf_core ha hb hc]
        cases h1 : okPre q <;> cases h2 : okBuild b <;> simp [h1, h2]

end Wac.C12.SemverAgree

namespace Wac.C12
open Wac Wac.Spec.Grammar Wac.C12.SemverAgree

/-- **C12, versions**: the model of `semver::Version::from_str` accepts exactly the strings that
are valid semantic versions in the sense of the specification (semver.org read literally, numeric
identifiers limited to 64 bits), with the same components. -/
theorem parseVersion_eq_semver (s : Wac.Str) : Wac.parseVersion s = Wac.Spec.Grammar.semver s := by
  have hs : s = s.takeWhile notPM ++ s.dropWhile notPM := (List.takeWhile_append_dropWhile).symm
  rw [hs]
  exact agree_forms _ _ (takeWhile_all notPM s) (stops_dropWhile notPM s)

end Wac.C12

